(* C12 equivariance, part 4: the two-endpoint system.  [srel dA dB s s'] relates
   a system state of the run with ISNs (a, b) to the state of the run with ISNs
   (a + dA, b + dB); it is preserved by every closed-system label, the
   observations agree up to the shift, hence for every trace. *)
From Elvis Require Import Model.Base Model.U32 Model.Tcb Model.TcpNet
  Proofs.U32Facts Proofs.TcbShift Proofs.TcbShiftInv Proofs.TcbShiftOps.
From Coq Require Import ZifyBool.
Local Open Scope Z_scope.
Ltac Zify.zify_post_hook ::= Z.div_mod_to_equations.

Definition dsh (dA dB : Z) (x : side) : Z := match x with SA => dA | SB => dB end.

Definition shift_cfg (dA dB : Z) (c : config) : config :=
  mkCfg (portA c) (portB c) (wadd (issA c) dA) (wadd (issB c) dB) (mtuA c) (mtuB c).

(* a forged segment is shifted like a genuine one sent by [x] *)
Definition shift_label (dA dB : Z) (l : label) : label :=
  match l with
  | LInject x seg => LInject x (sh_seg (dsh dA dB x) (dsh dA dB (other x)) seg)
  | other => other
  end.

(* observations carry segments emitted by one side *)
Definition shift_obs_side (dA dB : Z) (x : side) (o : obs) : obs :=
  let dO := dsh dA dB x in let dP := dsh dA dB (other x) in
  match o with
  | OTick segs r => OTick (map (sh_seg dO dP) segs) r
  | OEmit segs => OEmit (map (sh_seg dO dP) segs)
  | OListenResp h => OListenResp (sh_hdr dO dP h)
  | OClosedResp h => OClosedResp (sh_hdr dO dP h)
  | other => other
  end.
Definition obs_side (l : label) : side :=
  match l with
  | LTick x _ | LEmit x => x
  | LDeliver x _ | LInject x _ => other x
  | _ => SA
  end.
Definition shift_obs (dA dB : Z) (l : label) (o : obs) : obs := shift_obs_side dA dB (obs_side l) o.

(* ---- the relation ---- *)
Definition erel (dO dP : Z) (e e' : endpoint) : Prop :=
  match e, e' with
  | EClosed, EClosed | EListen, EListen | EDead, EDead => True
  | ELive t, ELive t' => trel dO dP t t'
  | _, _ => False
  end.

Record srel (dA dB : Z) (s s' : sys) : Prop := mkSrel {
  r_endA : erel dA dB (endA s) (endA s');
  r_endB : erel dB dA (endB s) (endB s');
  r_netA : netA s' = map (sh_seg dA dB) (netA s);
  r_netB : netB s' = map (sh_seg dB dA) (netB s);
  r_subA : subA s' = subA s;
  r_subB : subB s' = subB s;
  r_delA : delA s' = delA s;
  r_delB : delB s' = delB s;
  r_pan : panicked s' = panicked s }.

(* ---- the invariant of the original run ---- *)
Definition einv (e : endpoint) : Prop := match e with ELive t => tinv t | _ => True end.
Record sinv (c : config) (s : sys) : Prop := mkSinv {
  v_issA : u32 (issA c);
  v_issB : u32 (issB c);
  v_endA : einv (endA s);
  v_endB : einv (endB s);
  v_netA : Forall sok (netA s);
  v_netB : Forall sok (netB s) }.

(* obstacle (c): no segment is ever delivered to a never-opened endpoint, and no
   forged segment with absolute numbers outside [sok] is injected *)
Definition lbl_ok (s : sys) (l : label) : Prop :=
  match l with
  | LDeliver x _ => end_of s (other x) <> EClosed
  | LInject x seg => end_of s (other x) <> EClosed /\ sok seg
  | LFair _ | LFairT _ _ _ => end_of s SA <> EClosed /\ end_of s SB <> EClosed
  | _ => True
  end.
Fixpoint run_ok (c : config) (s : sys) (ls : list label) : Prop :=
  match ls with
  | [] => True
  | l :: r => lbl_ok s l /\ run_ok c (fst (sys_step c s l)) r
  end.
Fixpoint run_obs (c : config) (s : sys) (ls : list label) : list obs :=
  match ls with
  | [] => []
  | l :: r => snd (sys_step c s l) :: run_obs c (fst (sys_step c s l)) r
  end.
Fixpoint shift_obs_list (dA dB : Z) (ls : list label) (os : list obs) : list obs :=
  match ls, os with
  | l :: ls', o :: os' => shift_obs dA dB l o :: shift_obs_list dA dB ls' os'
  | _, _ => []
  end.

(* boolean version, for the concrete example *)
Definition not_closedb (e : endpoint) : bool := match e with EClosed => false | _ => true end.
Definition lbl_okb (s : sys) (l : label) : bool :=
  match l with
  | LDeliver x _ => not_closedb (end_of s (other x))
  | LInject _ _ => false
  | LFair _ | LFairT _ _ _ => not_closedb (end_of s SA) && not_closedb (end_of s SB)
  | _ => true
  end.
Fixpoint run_okb (c : config) (s : sys) (ls : list label) : bool :=
  match ls with
  | [] => true
  | l :: r => lbl_okb s l && run_okb c (fst (sys_step c s l)) r
  end.
Lemma not_closedb_ok e : not_closedb e = true -> e <> EClosed.
Proof. destruct e; cbn; congruence. Qed.
Lemma lbl_okb_ok s l : lbl_okb s l = true -> lbl_ok s l.
Proof.
  destruct l; cbn; auto using not_closedb_ok; try discriminate;
  (intros H; apply andb_true_iff in H; destruct H; split; apply not_closedb_ok; assumption).
Qed.
Lemma run_okb_ok c ls : forall s, run_okb c s ls = true -> run_ok c s ls.
Proof.
  induction ls as [|l r IH]; intros s; cbn [run_okb run_ok]; [auto|].
  intros H. apply andb_true_iff in H. destruct H. split; [apply lbl_okb_ok | apply IH]; assumption.
Qed.

(* ------------------------------------------------------------------ *)
Section Net.
Variables dA dB : Z.
Notation d := (dsh dA dB).
Notation SR := (srel dA dB).
Notation C' := (shift_cfg dA dB).

Lemma d_other_other x : d (other (other x)) = d x.
Proof. destruct x; reflexivity. Qed.

(* generic access by side *)
Lemma srel_end s s' x : SR s s' -> erel (d x) (d (other x)) (end_of s x) (end_of s' x).
Proof. intros []. destruct x; assumption. Qed.
Lemma srel_net s s' x : SR s s' -> net_of s' x = map (sh_seg (d x) (d (other x))) (net_of s x).
Proof. intros []. destruct x; assumption. Qed.
Lemma srel_sub s s' x : SR s s' -> sub_of s' x = sub_of s x.
Proof. intros []. destruct x; assumption. Qed.
Lemma srel_del s s' x : SR s s' -> del_of s' x = del_of s x.
Proof. intros []. destruct x; assumption. Qed.

Lemma srel_set_end s s' x e e' : SR s s' -> erel (d x) (d (other x)) e e' ->
  SR (set_end s x e) (set_end s' x e').
Proof. intros [] H. destruct x; constructor; cbn; assumption. Qed.
Lemma srel_set_net s s' x n : SR s s' ->
  SR (set_net s x n) (set_net s' x (map (sh_seg (d x) (d (other x))) n)).
Proof. intros []. destruct x; constructor; cbn; auto. Qed.
Lemma srel_set_sub s s' x v : SR s s' -> SR (set_sub s x v) (set_sub s' x v).
Proof. intros []. destruct x; constructor; cbn; auto. Qed.
Lemma srel_set_del s s' x v : SR s s' -> SR (set_del s x v) (set_del s' x v).
Proof. intros []. destruct x; constructor; cbn; auto. Qed.
Lemma srel_set_panicked s s' : SR s s' -> SR (set_panicked s) (set_panicked s').
Proof. intros []. constructor; cbn; auto. Qed.

Lemma trel_in_text dO dP t t' : trel dO dP t t' -> in_text t' = in_text t.
Proof. intros (g & -> & _). reflexivity. Qed.
Lemma trel_st dO dP t t' : trel dO dP t t' -> st t' = st t.
Proof. intros (g & -> & _). reflexivity. Qed.

Lemma srel_final_read s s' x t t' : SR s s' -> in_text t' = in_text t ->
  SR (final_read s x t) (final_read s' x t').
Proof.
  intros H E. unfold final_read. rewrite E. destruct (in_text t); [exact H|].
  rewrite (srel_del s s' x H). apply srel_set_del. exact H.
Qed.

(* the invariant, by side *)
Lemma sinv_end c s x : sinv c s -> einv (end_of s x).
Proof. intros []. destruct x; assumption. Qed.
Lemma sinv_net c s x : sinv c s -> Forall sok (net_of s x).
Proof. intros []. destruct x; assumption. Qed.
Lemma sinv_iss c s x : sinv c s -> u32 (iss_of c x).
Proof. intros []. destruct x; assumption. Qed.
Lemma sinv_set_end c s x e : sinv c s -> einv e -> sinv c (set_end s x e).
Proof. intros [] H. destruct x; constructor; cbn; assumption. Qed.
Lemma sinv_set_net c s x n : sinv c s -> Forall sok n -> sinv c (set_net s x n).
Proof. intros [] H. destruct x; constructor; cbn; assumption. Qed.
Lemma sinv_set_sub c s x v : sinv c s -> sinv c (set_sub s x v).
Proof. intros []. destruct x; constructor; cbn; assumption. Qed.
Lemma sinv_set_del c s x v : sinv c s -> sinv c (set_del s x v).
Proof. intros []. destruct x; constructor; cbn; assumption. Qed.
Lemma sinv_set_panicked c s : sinv c s -> sinv c (set_panicked s).
Proof. intros []. constructor; cbn; assumption. Qed.
Lemma sinv_final_read c s x t : sinv c s -> sinv c (final_read s x t).
Proof. intros H. unfold final_read. destruct (in_text t); [exact H | apply sinv_set_del; exact H]. Qed.

(* closedness of an endpoint, by side *)
Lemma end_of_set_end s x e y : end_of (set_end s x e) y = if match x, y with SA, SA | SB, SB => true | _, _ => false end then e else end_of s y.
Proof. destruct x, y; reflexivity. Qed.
Lemma end_of_set_net s x n y : end_of (set_net s x n) y = end_of s y.
Proof. destruct x, y; reflexivity. Qed.
Lemma end_of_set_sub s x n y : end_of (set_sub s x n) y = end_of s y.
Proof. destruct x, y; reflexivity. Qed.
Lemma end_of_set_del s x n y : end_of (set_del s x n) y = end_of s y.
Proof. destruct x, y; reflexivity. Qed.
Lemma end_of_set_panicked s y : end_of (set_panicked s) y = end_of s y.
Proof. destruct y; reflexivity. Qed.
Lemma end_of_final_read s x t y : end_of (final_read s x t) y = end_of s y.
Proof. unfold final_read. destruct (in_text t); [reflexivity | apply end_of_set_del]. Qed.
Lemma net_of_set_net_same s x n : net_of (set_net s x n) x = n.
Proof. destruct x; reflexivity. Qed.
Lemma net_of_set_end s x e y : net_of (set_end s x e) y = net_of s y.
Proof. destruct x, y; reflexivity. Qed.

Lemma nc_set_end s x e y : e <> EClosed -> end_of s y <> EClosed -> end_of (set_end s x e) y <> EClosed.
Proof. intros He Hy. rewrite end_of_set_end. destruct x, y; assumption. Qed.

Lemma cfg_iss c x : iss_of (C' c) x = wadd (iss_of c x) (d x).
Proof. destruct x; reflexivity. Qed.
Lemma cfg_mtu c x : mtu_of (C' c) x = mtu_of c x.
Proof. destruct x; reflexivity. Qed.
Lemma cfg_port c x : port_of (C' c) x = port_of c x.
Proof. destruct x; reflexivity. Qed.

(* ---- arrive ---- *)
Lemma arrive_rel c s s' r seg : SR s s' -> sinv c s -> sok seg -> end_of s r <> EClosed ->
  SR (fst (arrive c s r seg)) (fst (arrive (C' c) s' r (sh_seg (d (other r)) (d r) seg))) /\
  snd (arrive (C' c) s' r (sh_seg (d (other r)) (d r) seg)) = shift_obs_side dA dB r (snd (arrive c s r seg)).
Proof.
  intros HR Hi Hs Hnc. unfold arrive.
  pose proof (srel_end s s' r HR) as He. pose proof (sinv_end c s r Hi) as Hie.
  destruct (end_of s r) as [| |t|] eqn:E; destruct (end_of s' r) as [| |t'|] eqn:E';
    cbn [erel einv] in He, Hie; try contradiction.
  - (* listen *)
    rewrite cfg_iss, cfg_mtu.
    pose proof (arrives_listen_rel (d r) (d (other r)) seg (iss_of c r) (mtu_of c r) Hs) as A.
    destruct (arrives_listen seg (iss_of c r) (mtu_of c r)) as [|h|t];
      destruct (arrives_listen _ _ _) as [|h'|t']; cbn [lrel] in A; try contradiction; cbn [fst snd].
    + split; [exact HR | reflexivity].
    + subst h'. split; [|reflexivity].
      rewrite (srel_net s s' r HR).
      change (map (sh_seg (d r) (d (other r))) (net_of s r) ++ [mkSeg (sh_hdr (d r) (d (other r)) h) []])
        with (map (sh_seg (d r) (d (other r))) (net_of s r) ++ map (sh_seg (d r) (d (other r))) [mkSeg h []]).
      rewrite <- map_app. apply srel_set_net. exact HR.
    + split; [|reflexivity]. apply srel_set_end; [exact HR | exact A].
  - (* live *)
    pose proof (segment_arrives_rel (d r) (d (other r)) t t' seg He Hie Hs) as A.
    destruct (segment_arrives t seg) as [[t1 a]| | |];
      destruct (segment_arrives t' _) as [[t1' a']| | |]; cbn [rrel] in A; try contradiction.
    + destruct A as [A B]. cbn [fst snd] in A, B. subst a'.
      destruct a; cbn [fst snd]; (split; [|reflexivity]).
      * apply srel_set_end; [exact HR | exact A].
      * apply srel_set_end; [|exact I]. apply srel_final_read; [exact HR|].
        eapply trel_in_text; exact A.
    + cbn [fst snd]. split; [apply srel_set_panicked; exact HR | reflexivity].
    + subst. cbn [fst snd]. split; [apply srel_set_panicked; exact HR | reflexivity].
    + cbn [fst snd]. split; [apply srel_set_panicked; exact HR | reflexivity].
  - cbn [fst snd]. split; [exact HR | reflexivity].
Qed.

Lemma arrive_sinv c s r seg : sinv c s -> sok seg -> end_of s r <> EClosed ->
  sinv c (fst (arrive c s r seg)).
Proof.
  intros Hi Hs Hnc. unfold arrive. pose proof (sinv_end c s r Hi) as Hie.
  destruct (end_of s r) as [| |t|] eqn:E; cbn [einv] in Hie; try contradiction.
  - pose proof (tinv_arrives_listen seg (iss_of c r) (mtu_of c r)) as A.
    pose proof (hok_arrives_listen seg (iss_of c r) (mtu_of c r)) as B.
    destruct (arrives_listen seg (iss_of c r) (mtu_of c r)) as [|h|t]; cbn [fst].
    + exact Hi.
    + apply sinv_set_net; [exact Hi|]. apply Forall_app. split; [apply (sinv_net c s r Hi)|].
      constructor; [|constructor]. apply (B h Hs eq_refl).
    + apply sinv_set_end; [exact Hi|]. apply (A t (sinv_iss c s r Hi) Hs eq_refl).
  - pose proof (tinv_segment_arrives t seg) as A.
    destruct (segment_arrives t seg) as [[t1 a]| | |]; cbn [fst]; try (apply sinv_set_panicked; exact Hi).
    destruct a; cbn [fst].
    + apply sinv_set_end; [exact Hi|]. apply (A t1 AOk Hie Hs eq_refl).
    + apply sinv_set_end; [|exact I]. apply sinv_final_read. exact Hi.
  - exact Hi.
Qed.

Lemma arrive_nc c s r seg y : end_of s y <> EClosed -> end_of (fst (arrive c s r seg)) y <> EClosed.
Proof.
  intros Hy. unfold arrive.
  destruct (end_of s r) as [| |t|] eqn:E.
  - destruct (arrives_closed _ _); cbn [fst]; rewrite ?end_of_set_net; exact Hy.
  - destruct (arrives_listen _ _ _); cbn [fst]; rewrite ?end_of_set_net; try exact Hy.
    apply nc_set_end; [discriminate | exact Hy].
  - destruct (segment_arrives t seg) as [[t1 []]| | |]; cbn [fst]; rewrite ?end_of_set_panicked; try exact Hy.
    + apply nc_set_end; [discriminate | exact Hy].
    + apply nc_set_end; [discriminate |]. rewrite end_of_final_read. exact Hy.
  - exact Hy.
Qed.

(* ---- emit ---- *)
Lemma emit_rel c s s' x : SR s s' -> sinv c s ->
  SR (fst (fst (emit s x))) (fst (fst (emit s' x))) /\
  snd (fst (emit s' x)) = map (sh_seg (d x) (d (other x))) (snd (fst (emit s x))) /\
  snd (emit s' x) = snd (emit s x).
Proof.
  intros HR Hi. unfold emit.
  pose proof (srel_end s s' x HR) as He. pose proof (sinv_end c s x Hi) as Hie.
  destruct (end_of s x) as [| |t|] eqn:E; destruct (end_of s' x) as [| |t'|] eqn:E';
    cbn [erel einv] in He, Hie; try contradiction; cbn [fst snd]; auto.
  pose proof (tcb_segments_rel (d x) (d (other x)) t t' He Hie) as A.
  destruct (tcb_segments t) as [[t1 segs]| | |]; destruct (tcb_segments t') as [[t1' segs']| | |];
    cbn [rrel] in A; try contradiction; cbn [fst snd];
    try (split; [apply srel_set_panicked; exact HR | split; reflexivity]).
  destruct A as [A B]. cbn [fst snd] in A, B. subst segs'.
  split; [|split; reflexivity].
  rewrite (srel_net s s' x HR). rewrite <- map_app.
  apply srel_set_net. apply srel_set_end; [exact HR | exact A].
Qed.

Lemma emit_sinv c s x : sinv c s -> sinv c (fst (fst (emit s x))) /\ Forall sok (snd (fst (emit s x))).
Proof.
  intros Hi. unfold emit. pose proof (sinv_end c s x Hi) as Hie.
  destruct (end_of s x) as [| |t|] eqn:E; cbn [einv] in Hie; cbn [fst snd]; auto.
  pose proof (tinv_tcb_segments t) as A.
  destruct (tcb_segments t) as [[t1 segs]| | |]; cbn [fst snd];
    try (split; [apply sinv_set_panicked; exact Hi | constructor]).
  destruct (A t1 segs Hie eq_refl) as [A1 A2]. split; [|exact A2].
  apply sinv_set_net.
  - apply sinv_set_end; assumption.
  - apply Forall_app. split; [apply (sinv_net c s x Hi) | exact A2].
Qed.

Lemma emit_nc s x y : end_of s y <> EClosed -> end_of (fst (fst (emit s x))) y <> EClosed.
Proof.
  intros Hy. unfold emit. destruct (end_of s x) as [| |t|] eqn:E; cbn [fst]; try exact Hy.
  destruct (tcb_segments t) as [[t1 segs]| | |]; cbn [fst]; rewrite ?end_of_set_panicked, ?end_of_set_net; try exact Hy.
  apply nc_set_end; [discriminate | exact Hy].
Qed.

(* ---- tick ---- *)
Lemma tick_rel c s s' x ms : SR s s' -> sinv c s ->
  SR (fst (tick s x ms)) (fst (tick s' x ms)) /\
  snd (tick s' x ms) = shift_obs_side dA dB x (snd (tick s x ms)).
Proof.
  intros HR Hi. unfold tick.
  destruct (emit_rel c s s' x HR Hi) as (A & B & C).
  destruct (emit s x) as [[s1 segs] bad]. destruct (emit s' x) as [[s1' segs'] bad'].
  cbn [fst snd] in A, B, C. subst segs' bad'.
  destruct bad; cbn [fst snd]; [split; [exact A | reflexivity]|].
  pose proof (srel_end s1 s1' x A) as He.
  destruct (end_of s1 x) as [| |t|] eqn:E; destruct (end_of s1' x) as [| |t'|] eqn:E';
    cbn [erel] in He; try contradiction; cbn [fst snd]; auto.
  destruct (advance_time_rel (d x) (d (other x)) t t' ms He) as [A2 B2].
  destruct (advance_time t ms) as [t1 r]. destruct (advance_time t' ms) as [t1' r'].
  cbn [fst snd] in A2, B2. subst r'.
  destruct r; cbn [fst snd]; (split; [|reflexivity]).
  - apply srel_set_end; [exact A | exact A2].
  - apply srel_set_end; [|exact I]. apply srel_final_read; [exact A|]. eapply trel_in_text; exact A2.
Qed.

Lemma tick_sinv c s x ms : sinv c s -> sinv c (fst (tick s x ms)).
Proof.
  intros Hi. unfold tick.
  destruct (emit_sinv c s x Hi) as [A _].
  destruct (emit s x) as [[s1 segs] bad]. cbn [fst snd] in A.
  destruct bad; cbn [fst]; [exact A|].
  pose proof (sinv_end c s1 x A) as Hie.
  destruct (end_of s1 x) as [| |t|] eqn:E; cbn [einv] in Hie; cbn [fst]; auto.
  pose proof (tinv_advance_time t ms Hie) as B.
  destruct (advance_time t ms) as [t1 r]. cbn [fst] in B.
  destruct r; cbn [fst].
  - apply sinv_set_end; assumption.
  - apply sinv_set_end; [|exact I]. apply sinv_final_read. exact A.
Qed.

Lemma tick_nc s x ms y : end_of s y <> EClosed -> end_of (fst (tick s x ms)) y <> EClosed.
Proof.
  intros Hy. unfold tick. pose proof (emit_nc s x y Hy) as A.
  destruct (emit s x) as [[s1 segs] bad]. cbn [fst] in A.
  destruct bad; cbn [fst]; [exact A|].
  destruct (end_of s1 x) as [| |t|] eqn:E; cbn [fst]; try exact A.
  destruct (advance_time t ms) as [t1 []]; cbn [fst].
  - apply nc_set_end; [discriminate | exact A].
  - apply nc_set_end; [discriminate |]. rewrite end_of_final_read. exact A.
Qed.

(* ---- recv ---- *)
Lemma recv_rel s s' x : SR s s' ->
  SR (fst (recv s x)) (fst (recv s' x)) /\ snd (recv s' x) = snd (recv s x).
Proof.
  intros HR. unfold recv.
  pose proof (srel_end s s' x HR) as He.
  destruct (end_of s x) as [| |t|] eqn:E; destruct (end_of s' x) as [| |t'|] eqn:E';
    cbn [erel] in He; try contradiction; cbn [fst snd]; auto.
  destruct (tcb_receive_rel (d x) (d (other x)) t t' He) as [A B].
  destruct (tcb_receive t) as [t1 bytes]. destruct (tcb_receive t') as [t1' bytes'].
  cbn [fst snd] in A, B. subst bytes'. cbn [fst snd]. split; [|reflexivity].
  assert (H1 : SR (set_end s x (ELive t1)) (set_end s' x (ELive t1'))) by (apply srel_set_end; assumption).
  destruct bytes; [exact H1|].
  rewrite (srel_del s s' x HR). apply srel_set_del. exact H1.
Qed.

Lemma recv_sinv c s x : sinv c s -> sinv c (fst (recv s x)).
Proof.
  intros Hi. unfold recv. pose proof (sinv_end c s x Hi) as Hie.
  destruct (end_of s x) as [| |t|] eqn:E; cbn [einv] in Hie; cbn [fst]; auto.
  pose proof (tinv_tcb_receive t Hie) as A.
  destruct (tcb_receive t) as [t1 bytes]. cbn [fst] in A |- *.
  assert (H1 : sinv c (set_end s x (ELive t1))) by (apply sinv_set_end; assumption).
  destruct bytes; [exact H1 | apply sinv_set_del; exact H1].
Qed.

Lemma recv_nc s x y : end_of s y <> EClosed -> end_of (fst (recv s x)) y <> EClosed.
Proof.
  intros Hy. unfold recv. destruct (end_of s x) as [| |t|] eqn:E; cbn [fst]; try exact Hy.
  destruct (tcb_receive t) as [t1 bytes]. cbn [fst].
  destruct bytes; rewrite ?end_of_set_del; (apply nc_set_end; [discriminate | exact Hy]).
Qed.

(* ---- loss-free rounds ---- *)
Lemma Forall_tail {A} (P : A -> Prop) x l : Forall P (x :: l) -> P x /\ Forall P l.
Proof. intros H. inversion H; auto. Qed.

Lemma deliver_all_rel c fuel x : forall s s', SR s s' -> sinv c s ->
  end_of s SA <> EClosed -> end_of s SB <> EClosed ->
  SR (deliver_all fuel c s x) (deliver_all fuel (C' c) s' x) /\
  sinv c (deliver_all fuel c s x) /\
  end_of (deliver_all fuel c s x) SA <> EClosed /\ end_of (deliver_all fuel c s x) SB <> EClosed.
Proof.
  induction fuel as [|f IH]; intros s s' HR Hi HA HB; cbn [deliver_all]; [auto|].
  rewrite (srel_net s s' x HR).
  pose proof (sinv_net c s x Hi) as Hn.
  destruct (net_of s x) as [|seg rest]; cbn [map]; [auto|].
  destruct (Forall_tail _ _ _ Hn) as [Hs Hrest].
  assert (HR1 : SR (set_net s x rest) (set_net s' x (map (sh_seg (d x) (d (other x))) rest)))
    by (apply srel_set_net; exact HR).
  assert (Hi1 : sinv c (set_net s x rest)) by (apply sinv_set_net; assumption).
  assert (Hnc : forall y, end_of (set_net s x rest) y <> EClosed).
  { intros y. rewrite end_of_set_net. destruct y; assumption. }
  pose proof (arrive_rel c _ _ (other x) seg HR1 Hi1 Hs (Hnc (other x))) as [A _].
  rewrite d_other_other in A.
  apply IH.
  - exact A.
  - apply arrive_sinv; auto.
  - apply arrive_nc. apply Hnc.
  - apply arrive_nc. apply Hnc.
Qed.

Lemma fair_half_t_rel c s s' x ms one : SR s s' -> sinv c s ->
  end_of s SA <> EClosed -> end_of s SB <> EClosed ->
  SR (fair_half_t c s x ms one) (fair_half_t (C' c) s' x ms one) /\ sinv c (fair_half_t c s x ms one) /\
  end_of (fair_half_t c s x ms one) SA <> EClosed /\ end_of (fair_half_t c s x ms one) SB <> EClosed.
Proof.
  intros HR Hi HA HB. unfold fair_half_t.
  destruct (tick_rel c s s' x ms HR Hi) as [A1 _].
  pose proof (tick_sinv c s x ms Hi) as I1.
  pose proof (tick_nc s x ms SA HA) as NA1. pose proof (tick_nc s x ms SB HB) as NB1.
  set (s1 := fst (tick s x ms)) in *. set (s1' := fst (tick s' x ms)) in *.
  clearbody s1 s1'.
  destruct (emit_rel c s1 s1' x A1 I1) as (A2 & B2 & _).
  destruct (emit_sinv c s1 x I1) as [I2 _].
  pose proof (emit_nc s1 x SA NA1) as NA2. pose proof (emit_nc s1 x SB NB1) as NB2.
  destruct (emit s1 x) as [[s2 segs] bad]. destruct (emit s1' x) as [[s2' segs'] bad'].
  cbn [fst snd] in A2, B2, I2, NA2, NB2.
  rewrite (srel_net s2 s2' x A2), map_length.
  set (fuel := if one then S (Nat.div (length (net_of s2 x)) 3) else S (length (net_of s2 x))).
  destruct (deliver_all_rel c fuel x s2 s2' A2 I2 NA2 NB2) as (A3 & I3 & NA3 & NB3).
  set (s3 := deliver_all _ c s2 x) in *. set (s3' := deliver_all _ (C' c) s2' x) in *.
  clearbody s3 s3'.
  destruct (recv_rel s3 s3' SA A3) as [A4 _].
  pose proof (recv_sinv c s3 SA I3) as I4.
  destruct (recv_rel _ _ SB A4) as [A5 _].
  pose proof (recv_sinv c _ SB I4) as I5.
  split; [exact A5 | split; [exact I5|]].
  split; apply recv_nc; apply recv_nc; assumption.
Qed.

Lemma fair_half_rel c s s' x : SR s s' -> sinv c s ->
  end_of s SA <> EClosed -> end_of s SB <> EClosed ->
  SR (fair_half c s x) (fair_half (C' c) s' x) /\ sinv c (fair_half c s x) /\
  end_of (fair_half c s x) SA <> EClosed /\ end_of (fair_half c s x) SB <> EClosed.
Proof. unfold fair_half. apply fair_half_t_rel. Qed.

Lemma fair_rounds_t_rel c ms one k : forall s s', SR s s' -> sinv c s ->
  end_of s SA <> EClosed -> end_of s SB <> EClosed ->
  SR (fair_rounds_t k c s ms one) (fair_rounds_t k (C' c) s' ms one) /\ sinv c (fair_rounds_t k c s ms one).
Proof.
  induction k as [|k IH]; intros s s' HR Hi HA HB; cbn [fair_rounds_t]; [auto|].
  destruct (fair_half_t_rel c s s' SA ms one HR Hi HA HB) as (A1 & I1 & NA1 & NB1).
  destruct (fair_half_t_rel c _ _ SB ms one A1 I1 NA1 NB1) as (A2 & I2 & NA2 & NB2).
  apply IH; assumption.
Qed.

Lemma fair_rounds_rel c k : forall s s', SR s s' -> sinv c s ->
  end_of s SA <> EClosed -> end_of s SB <> EClosed ->
  SR (fair_rounds k c s) (fair_rounds k (C' c) s') /\ sinv c (fair_rounds k c s).
Proof.
  induction k as [|k IH]; intros s s' HR Hi HA HB; cbn [fair_rounds]; [auto|].
  destruct (fair_half_rel c s s' SA HR Hi HA HB) as (A1 & I1 & NA1 & NB1).
  destruct (fair_half_rel c _ _ SB A1 I1 NA1 NB1) as (A2 & I2 & NA2 & NB2).
  apply IH; assumption.
Qed.

(* ---- list surgery under map ---- *)
Lemma remove_nth_map {A B} (f : A -> B) l n : remove_nth (map f l) n = map f (remove_nth l n).
Proof.
  revert n. induction l as [|x r IH]; intros [|n]; cbn; try reflexivity. rewrite IH. reflexivity.
Qed.
Lemma remove_nth_Forall {A} (P : A -> Prop) l n : Forall P l -> Forall P (remove_nth l n).
Proof.
  intros H. revert n. induction H as [|x r Hx Hr IH]; intros [|n]; cbn; auto.
Qed.
Lemma nth_error_Forall {A} (P : A -> Prop) l n x : Forall P l -> nth_error l n = Some x -> P x.
Proof.
  intros H E. apply nth_error_In in E. rewrite Forall_forall in H. auto.
Qed.

(* ---- one label ---- *)
Theorem sys_step_rel c s s' l : SR s s' -> sinv c s -> lbl_ok s l ->
  SR (fst (sys_step c s l)) (fst (sys_step (C' c) s' (shift_label dA dB l))) /\
  snd (sys_step (C' c) s' (shift_label dA dB l)) = shift_obs dA dB l (snd (sys_step c s l)) /\
  sinv c (fst (sys_step c s l)).
Proof.
  intros HR Hi Hok. unfold sys_step. rewrite (r_pan _ _ _ _ HR).
  destruct (panicked s); [cbn [fst snd]; destruct l; auto|].
  destruct l as [x|x bytes|x|x|x ms|x|x i|x i|x i|x seg|k|k ms one|]; cbn [shift_label].
  - (* LOpen *)
    pose proof (srel_end s s' x HR) as He.
    destruct (end_of s x) as [| |t|] eqn:E; destruct (end_of s' x) as [| |t'|] eqn:E';
      cbn [erel] in He; try contradiction; cbn [fst snd]; auto.
    rewrite !cfg_port, cfg_iss, cfg_mtu.
    split; [|split; [reflexivity|]].
    + apply srel_set_end; [exact HR|]. cbn [erel]. apply tcb_open_rel.
    + apply sinv_set_end; [exact Hi|]. cbn [einv]. apply tinv_tcb_open. apply (sinv_iss c s x Hi).
  - (* LSend *)
    pose proof (srel_end s s' x HR) as He. pose proof (sinv_end c s x Hi) as Hie.
    destruct (end_of s x) as [| |t|] eqn:E; destruct (end_of s' x) as [| |t'|] eqn:E';
      cbn [erel einv] in He, Hie; try contradiction; cbn [fst snd]; auto.
    rewrite (trel_st _ _ _ _ He). rewrite (srel_sub s s' x HR).
    split; [|split; [reflexivity|]].
    + apply srel_set_end; [|cbn [erel]; apply tcb_send_rel; exact He].
      destruct (accepts_send (st t)); [apply srel_set_sub|]; exact HR.
    + apply sinv_set_end; [|cbn [einv]; apply tinv_tcb_send; exact Hie].
      destruct (accepts_send (st t)); [apply sinv_set_sub|]; exact Hi.
  - (* LRecv *)
    destruct (recv_rel s s' x HR) as [A B]. split; [exact A | split; [|apply recv_sinv; exact Hi]].
    rewrite B. unfold recv. destruct (end_of s x) as [| |t|]; reflexivity.
  - (* LClose *)
    pose proof (srel_end s s' x HR) as He. pose proof (sinv_end c s x Hi) as Hie.
    destruct (end_of s x) as [| |t|] eqn:E; destruct (end_of s' x) as [| |t'|] eqn:E';
      cbn [erel einv] in He, Hie; try contradiction; cbn [fst snd]; auto.
    destruct (tcb_close_rel _ _ t t' He Hie) as [A B]. pose proof (tinv_tcb_close t Hie) as Hc.
    destruct (tcb_close t) as [t1 r]. destruct (tcb_close t') as [t1' r'].
    cbn [fst snd] in A, B, Hc |- *. subst r'.
    split; [apply srel_set_end; assumption | split; [reflexivity | apply sinv_set_end; assumption]].
  - (* LTick *)
    destruct (tick_rel c s s' x ms HR Hi) as [A B].
    split; [exact A | split; [exact B | apply tick_sinv; exact Hi]].
  - (* LEmit *)
    pose proof (srel_end s s' x HR) as He.
    destruct (emit_rel c s s' x HR Hi) as (A & B & C). destruct (emit_sinv c s x Hi) as [D _].
    destruct (end_of s x) as [| |t|] eqn:E; destruct (end_of s' x) as [| |t'|] eqn:E';
      cbn [erel] in He; try contradiction; cbn [fst snd]; auto.
    destruct (emit s x) as [[s1 segs] bad]. destruct (emit s' x) as [[s1' segs'] bad'].
    cbn [fst snd] in A, B, C, D. subst segs' bad'.
    destruct bad; cbn [fst snd]; auto.
  - (* LDeliver *)
    cbn [lbl_ok] in Hok. rewrite (srel_net s s' x HR).
    pose proof (sinv_net c s x Hi) as Hn.
    destruct (net_of s x) as [|s0 n0] eqn:En; cbn [map fst snd]; [auto|].
    set (n := s0 :: n0) in *.
    change (sh_seg (d x) (d (other x)) s0 :: map (sh_seg (d x) (d (other x))) n0)
      with (map (sh_seg (d x) (d (other x))) n).
    rewrite map_length, nth_error_map.
    destruct (nth_error n (i mod length n)) as [seg|] eqn:Enth; cbn [option_map fst snd]; [|auto].
    rewrite remove_nth_map.
    assert (Hs : sok seg) by (eapply nth_error_Forall; eassumption).
    assert (HR1 : SR (set_net s x (remove_nth n (i mod length n)))
                     (set_net s' x (map (sh_seg (d x) (d (other x))) (remove_nth n (i mod length n)))))
      by (apply srel_set_net; exact HR).
    assert (Hi1 : sinv c (set_net s x (remove_nth n (i mod length n))))
      by (apply sinv_set_net; [exact Hi | apply remove_nth_Forall; exact Hn]).
    assert (Hnc : end_of (set_net s x (remove_nth n (i mod length n))) (other x) <> EClosed)
      by (rewrite end_of_set_net; exact Hok).
    destruct (arrive_rel c _ _ (other x) seg HR1 Hi1 Hs Hnc) as [A B].
    rewrite d_other_other in A, B.
    split; [exact A | split; [exact B | apply arrive_sinv; assumption]].
  - (* LDrop *)
    rewrite (srel_net s s' x HR). pose proof (sinv_net c s x Hi) as Hn.
    destruct (net_of s x) as [|s0 n0] eqn:En; cbn [map fst snd]; [auto|].
    set (n := s0 :: n0) in *.
    change (sh_seg (d x) (d (other x)) s0 :: map (sh_seg (d x) (d (other x))) n0)
      with (map (sh_seg (d x) (d (other x))) n).
    rewrite map_length, remove_nth_map.
    split; [apply srel_set_net; exact HR | split; [reflexivity|]].
    apply sinv_set_net; [exact Hi | apply remove_nth_Forall; exact Hn].
  - (* LDup *)
    rewrite (srel_net s s' x HR). pose proof (sinv_net c s x Hi) as Hn.
    destruct (net_of s x) as [|s0 n0] eqn:En; cbn [map fst snd]; [auto|].
    set (n := s0 :: n0) in *.
    change (sh_seg (d x) (d (other x)) s0 :: map (sh_seg (d x) (d (other x))) n0)
      with (map (sh_seg (d x) (d (other x))) n).
    rewrite map_length, nth_error_map.
    destruct (nth_error n (i mod length n)) as [seg|] eqn:Enth; cbn [option_map fst snd]; [|auto].
    change (map (sh_seg (d x) (d (other x))) n ++ [sh_seg (d x) (d (other x)) seg])
      with (map (sh_seg (d x) (d (other x))) n ++ map (sh_seg (d x) (d (other x))) [seg]).
    rewrite <- map_app.
    split; [apply srel_set_net; exact HR | split; [reflexivity|]].
    apply sinv_set_net; [exact Hi|]. apply Forall_app. split; [exact Hn|].
    constructor; [|constructor]. eapply nth_error_Forall; eassumption.
  - (* LInject *)
    cbn [lbl_ok] in Hok. destruct Hok as [Hnc Hs].
    destruct (arrive_rel c s s' (other x) seg HR Hi Hs Hnc) as [A B].
    rewrite d_other_other in A, B.
    split; [exact A | split; [exact B | apply arrive_sinv; assumption]].
  - (* LFair *)
    cbn [lbl_ok] in Hok. destruct Hok as [HA HB].
    destruct (fair_rounds_rel c k s s' HR Hi HA HB) as [A B].
    cbn [fst snd]. auto.
  - (* LFairT *)
    cbn [lbl_ok] in Hok. destruct Hok as [HA HB].
    destruct (fair_rounds_t_rel c ms one k s s' HR Hi HA HB) as [A B].
    cbn [fst snd]. auto.
  - cbn [fst snd]. auto.
Qed.

(* ---- every trace ---- *)
Theorem trace_rel c ls : forall s s', SR s s' -> sinv c s -> run_ok c s ls ->
  SR (run c s ls) (run (C' c) s' (map (shift_label dA dB) ls)) /\
  run_obs (C' c) s' (map (shift_label dA dB) ls) = shift_obs_list dA dB ls (run_obs c s ls) /\
  sinv c (run c s ls).
Proof.
  unfold run.
  induction ls as [|l r IH]; intros s s' HR Hi Hok; cbn [fold_left map run_obs shift_obs_list run_ok] in *; [auto|].
  destruct Hok as [Hl Hr].
  destruct (sys_step_rel c s s' l HR Hi Hl) as (A & B & C).
  destruct (IH _ _ A C Hr) as (A2 & B2 & C2).
  split; [exact A2 | split; [|exact C2]].
  rewrite B, B2. reflexivity.
Qed.

(* prefixes of an admissible trace are admissible: the relation holds step by step *)
Lemma run_ok_firstn c n : forall ls s, run_ok c s ls -> run_ok c s (firstn n ls).
Proof.
  induction n as [|n IH]; intros [|l r] s; cbn [firstn run_ok]; auto.
  intros [H1 H2]. split; [exact H1 | apply IH; exact H2].
Qed.

Theorem trace_rel_stepwise c ls s s' : SR s s' -> sinv c s -> run_ok c s ls ->
  forall n, SR (run c s (firstn n ls)) (run (C' c) s' (firstn n (map (shift_label dA dB) ls))).
Proof.
  intros HR Hi Hok n. rewrite firstn_map.
  apply trace_rel; [exact HR | exact Hi | apply run_ok_firstn; exact Hok].
Qed.

Lemma srel_init b : SR (init_sys b) (init_sys b).
Proof. constructor; cbn; auto. destruct b; exact I. Qed.
Lemma sinv_init c b : u32 (issA c) -> u32 (issB c) -> sinv c (init_sys b).
Proof. intros HA HB. constructor; cbn; auto. destruct b; exact I. Qed.

End Net.
