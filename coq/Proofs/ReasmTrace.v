(* Reassembly level: the finite map, the invariant over whole histories, the
   expiry callback, isolation of buffers. *)
From Coq Require Import ZArith List Bool Lia Arith Permutation Sorted.
From Coq Require Import ZifyBool ZifyNat.
From Elvis Require Import Model.Base Model.Reasm Proofs.ReasmHeap Proofs.ReasmBits Proofs.ReasmFacts.
Import ListNotations.
Local Open Scope Z_scope.
Ltac Zify.zify_post_hook ::= Z.div_mod_to_equations.

Lemma bufid_eqb_eq : forall a b, bufid_eqb a b = true <-> a = b.
Proof.
  intros [[[a1 a2] a3] a4] [[[b1 b2] b3] b4]. unfold bufid_eqb.
  rewrite !andb_true_iff, !Z.eqb_eq. split.
  - intros [[[-> ->] ->] ->]. reflexivity.
  - intros [= -> -> -> ->]. auto.
Qed.
Lemma bufid_eqb_refl : forall a, bufid_eqb a a = true.
Proof. intro a. now apply bufid_eqb_eq. Qed.
Lemma bufid_eqb_neq : forall a b, a <> b -> bufid_eqb a b = false.
Proof. intros a b H. destruct (bufid_eqb a b) eqn:E; [|reflexivity]. apply bufid_eqb_eq in E. contradiction. Qed.
Lemma bufid_eq_dec : forall a b : bufid, {a = b} + {a <> b}.
Proof. intros a b. destruct (bufid_eqb a b) eqn:E; [left; now apply bufid_eqb_eq|right; intros ->; rewrite bufid_eqb_refl in E; discriminate]. Qed.

Section Trace.
  Context {A : Type}.
  Notation len l := (Z.of_nat (length l)).
  Notation piece := (@piece A).
  Notation smap := (list (bufid * segment A)).

  (* --------------------------------------------------------------- the map *)
  Lemma find_remove_same : forall k (m : smap), find k (remove k m) = None.
  Proof.
    intros k m. induction m as [|[k0 s0] t IH]; [reflexivity|].
    cbn [remove]. destruct (bufid_eqb k k0) eqn:E; [exact IH|].
    cbn [find]. rewrite E. exact IH.
  Qed.
  Lemma find_remove_other : forall k k' (m : smap), k' <> k -> find k' (remove k m) = find k' m.
  Proof.
    intros k k' m N. induction m as [|[k0 s0] t IH]; [reflexivity|].
    cbn [remove find]. destruct (bufid_eqb k k0) eqn:E.
    - apply bufid_eqb_eq in E. subst k0. rewrite (bufid_eqb_neq _ _ N). exact IH.
    - cbn [find]. rewrite IH. reflexivity.
  Qed.
  Lemma find_upsert_same : forall k s (m : smap), find k (upsert k s m) = Some s.
  Proof. intros. unfold upsert. cbn [find]. now rewrite bufid_eqb_refl. Qed.
  Lemma find_upsert_other : forall k k' s (m : smap), k' <> k -> find k' (upsert k s m) = find k' m.
  Proof. intros k k' s m N. unfold upsert. cbn [find]. rewrite (bufid_eqb_neq _ _ N). now apply find_remove_other. Qed.

  (* ------------------------------------------------------- ghost bookkeeping *)
  (* per key: the datagram being reassembled and the pieces received since the
     buffer was last started *)
  Definition gstate : Type := option (hdr * list A * list piece).
  Definition gmap : Type := bufid -> gstate.
  Definition gset (G : gmap) (k : bufid) (v : gstate) : gmap :=
    fun k' => if bufid_eqb k' k then v else G k'.
  Definition gpieces (G : gmap) (k : bufid) : list piece :=
    match G k with Some (_, _, ps) => ps | None => [] end.

  Lemma gset_same : forall G k v, gset G k v k = v.
  Proof. intros. unfold gset. now rewrite bufid_eqb_refl. Qed.
  Lemma gset_other : forall G k v k', k' <> k -> gset G k v k' = G k'.
  Proof. intros. unfold gset. now rewrite bufid_eqb_neq. Qed.

  Definition BufOk (k : bufid) (os : option (segment A)) (g : gstate) : Prop :=
    match os, g with
    | None, None => True
    | Some s, Some (oh, body, ps) =>
      WfDgram oh body /\ buf_id oh = k /\ ps <> [] /\ SInv oh body ps s
    | _, _ => False
    end.

  Record RInv (G : gmap) (r : reasm A) : Prop := {
    ri_buf : forall k, BufOk k (find k (r_segs r)) (G k)
  }.

  (* every epoch in use is at most n (the u64 counters do not overflow below 2^64-1) *)
  Definition EB (n : Z) (r : reasm A) : Prop :=
    r_epoch r <= n /\ forall k s, find k (r_segs r) = Some s -> s_epoch s <= n.

  (* the epoch the next fragment for k counts on from *)
  Definition cur_epoch (r : reasm A) (k : bufid) : Z :=
    match find k (r_segs r) with Some s => s_epoch s | None => r_epoch r end.

  Lemma RInv_new : RInv (fun _ => None) reasm_new.
  Proof. constructor; cbn [reasm_new r_segs find]; intros; exact I. Qed.
  Lemma EB_new : EB 0 reasm_new.
  Proof. split; cbn [reasm_new r_segs r_epoch find]; [lia|discriminate]. Qed.

  Lemma SInv_new_after : forall oh body e, SInv oh body [] (@seg_new_after A e).
  Proof.
    intros oh body e. destruct (SInv_new (A:=A) oh body) as [I1 I2 I3 I4 I5 I6 I7 I8 I9].
    constructor; assumption.
  Qed.

  Lemma piece_buf_id : forall oh body (p : piece), Piece oh body p -> buf_id (fst p) = buf_id oh.
  Proof.
    intros oh body p (_ & _ & _ & _ & _ & _ & _ & _ & _ & E3 & _ & E5 & _ & E7 & E8).
    unfold buf_id. now rewrite E3, E5, E7, E8.
  Qed.

  Lemma whole_covers : forall oh body (p : piece) ps, WfDgram oh body -> Piece oh body p -> Whole p ->
    Covers (p :: ps) (len body).
  Proof.
    intros oh body p ps Hwf Hp Hw i Hi. exists p. split; [left; reflexivity|].
    pose proof (proj1 (piece_last_iff _ _ _ Hwf Hp) (proj2 Hw)) as He.
    destruct Hw as [Hfo _]. unfold covers_byte. lia.
  Qed.

  (* The datagram (oh, body) is compatible with the ghost state if its key is
     free or already reassembles this very datagram. *)
  Definition Compatible (G : gmap) (oh : hdr) (body : list A) : Prop :=
    match G (buf_id oh) with
    | None => True
    | Some (oh', body', _) => oh' = oh /\ body' = body
    end.

  Lemma RInv_remove : forall G r k e, RInv G r -> RInv (gset G k None) (mkR (remove k (r_segs r)) e).
  Proof.
    intros G r k e HR. constructor; cbn [r_segs]. intros k'.
    destruct (bufid_eq_dec k' k) as [->|N].
    - rewrite find_remove_same, gset_same. exact I.
    - rewrite find_remove_other, gset_other by assumption. apply (ri_buf _ _ HR).
  Qed.
  Lemma EB_remove : forall n (r : reasm A) k e, EB n r -> e <= n -> EB n (mkR (remove k (r_segs r)) e).
  Proof.
    intros n r k e [H1 H2] He. split; cbn [r_segs r_epoch]; [exact He|].
    intros k' s Hf. destruct (bufid_eq_dec k' k) as [->|N].
    - rewrite find_remove_same in Hf. discriminate.
    - rewrite find_remove_other in Hf by assumption. apply (H2 k' s Hf).
  Qed.

  (* Reassembly::receive_packet on a piece *)
  Theorem receive_spec : forall G r n oh body (p : piece),
    RInv G r -> EB n r -> n < U64MAX -> WfDgram oh body -> Piece oh body p -> Compatible G oh body ->
    let k := buf_id oh in
    let ps := gpieces G k in
    exists r' res, receive r (fst p) (snd p) = Ok (r', res) /\
      ((Covers (p :: ps) (len body) /\ res = Complete oh body /\
        RInv (gset G k None) r' /\ EB n r')
       \/
       (~ Covers (p :: ps) (len body) /\
        res = Incomplete (Z.max 15 (h_ttl oh)) k (cur_epoch r k + 1) /\
        RInv (gset G k (Some (oh, body, p :: ps))) r' /\ EB (n + 1) r')).
  Proof.
    intros G r n oh body p HR HB Hn Hwf Hp Hcompat k ps.
    pose proof (piece_buf_id _ _ _ Hp) as Hk. fold k in Hk.
    pose proof HB as [HB1 HB2].
    unfold receive. cbv zeta. rewrite Hk.
    destruct (is_last_fragment (h_flags (fst p)) && (h_fo (fst p) =? 0)) eqn:Ew.
    - (* the whole datagram in one packet *)
      apply andb_true_iff in Ew. destruct Ew as [El E0]. apply Z.eqb_eq in E0.
      assert (Hw : Whole p) by (split; assumption).
      pose proof (piece_whole_is_dgram _ _ _ Hwf Hp Hw) as Ep.
      eexists. eexists. split; [reflexivity|]. left.
      split; [apply (whole_covers oh body p ps Hwf Hp Hw)|].
      split; [rewrite Ep; reflexivity|]. split; [apply RInv_remove; exact HR|].
      apply EB_remove; [exact HB|].
      destruct (find k (r_segs r)) as [s0|] eqn:Ef; [|exact HB1]. pose proof (HB2 k s0 Ef). lia.
    - assert (Hnw : ~ Whole p).
      { intros [Hfo Hl]. rewrite Hl, Hfo in Ew. discriminate. }
      set (s := match find k (r_segs r) with Some s => s | None => seg_new_after (r_epoch r) end).
      assert (Hs : SInv oh body ps s).
      { pose proof (ri_buf _ _ HR k) as Hb. unfold BufOk in Hb. unfold Compatible in Hcompat.
        fold k in Hcompat. unfold ps, gpieces, s.
        destruct (find k (r_segs r)) as [s0|]; destruct (G k) as [[[oh' body'] ps']|]; try contradiction.
        - destruct Hcompat as [-> ->]. destruct Hb as (_ & _ & _ & Hs). exact Hs.
        - apply SInv_new_after. }
      assert (Hse : s_epoch s = cur_epoch r k).
      { unfold s, cur_epoch. destruct (find k (r_segs r)); reflexivity. }
      assert (Hsn : s_epoch s <= n).
      { rewrite Hse. unfold cur_epoch. destruct (find k (r_segs r)) as [s0|] eqn:Ef; [apply (HB2 k s0 Ef)|exact HB1]. }
      destruct (seg_receive_spec oh body ps s p Hwf Hs Hp Hnw ltac:(lia)) as (s' & out & Er & Hout).
      rewrite Er. cbn [bind].
      destruct Hout as [(Hcov & -> & He)|(Hncov & -> & Hs' & He)].
      + eexists. eexists. split; [reflexivity|]. left.
        split; [exact Hcov|]. split; [reflexivity|]. split; [apply RInv_remove; exact HR|].
        apply EB_remove; [exact HB|lia].
      + eexists. eexists. split; [reflexivity|]. right.
        split; [exact Hncov|]. split.
        { rewrite (si_timeout _ _ _ _ Hs'), He, Hse. reflexivity. }
        split.
        * constructor; cbn [r_segs]. intros k'. destruct (bufid_eq_dec k' k) as [->|N].
          -- rewrite find_upsert_same, gset_same. unfold BufOk.
             split; [exact Hwf|]. split; [reflexivity|]. split; [discriminate|exact Hs'].
          -- rewrite find_upsert_other, gset_other by assumption. apply (ri_buf _ _ HR).
        * split; cbn [r_segs r_epoch]; [lia|].
          intros k' s0 Hf. destruct (bufid_eq_dec k' k) as [->|N].
          -- rewrite find_upsert_same in Hf. injection Hf as <-. lia.
          -- rewrite find_upsert_other in Hf by assumption. pose proof (HB2 k' s0 Hf). lia.
  Qed.

  (* maybe_cull_segment keeps the invariant: the key is either untouched or free again *)
  Lemma cull_spec : forall G r n k e, RInv G r -> EB n r ->
    exists G', RInv G' (maybe_cull r k e) /\ EB n (maybe_cull r k e) /\
               (forall k', k' <> k -> G' k' = G k') /\ (G' k = G k \/ G' k = None).
  Proof.
    intros G r n k e HR HB. unfold maybe_cull.
    destruct (find k (r_segs r)) as [s|] eqn:Ef.
    - destruct (Z.eqb_spec (s_epoch s) e) as [Ee|Ne].
      + exists (gset G k None). split; [apply RInv_remove; exact HR|]. split; [|split].
        * apply EB_remove; [exact HB|]. destruct HB as [H1 H2]. pose proof (H2 k s Ef). lia.
        * intros k' N. now apply gset_other.
        * right. apply gset_same.
      + exists G. split; [exact HR|]. split; [exact HB|]. split; [reflexivity|left; reflexivity].
    - exists G. split; [exact HR|]. split; [exact HB|]. split; [reflexivity|left; reflexivity].
  Qed.

  (* --------------------------------------------------------- whole histories *)
  (* every received packet is a piece of the datagram that owns its key *)
  Definition GoodEvent (D : bufid -> hdr * list A) (ev : event A) : Prop :=
    match ev with
    | EvRecv h b =>
      let d := D (buf_id h) in
      WfDgram (fst d) (snd d) /\ buf_id (fst d) = buf_id h /\ Piece (fst d) (snd d) (h, b)
    | EvCull _ _ => True
    end.

  Definition GhostOf (D : bufid -> hdr * list A) (G : gmap) : Prop :=
    forall k, match G k with None => True | Some (oh, body, _) => (oh, body) = D k end.

  Lemma run_returns_original : forall D evs G r n,
    Forall (GoodEvent D) evs -> RInv G r -> EB n r -> GhostOf D G -> n + len evs < U64MAX ->
    exists r' outs, run r evs = Ok (r', outs) /\
      forall h m, In (ObsRecv (Complete h m)) outs -> (h, m) = D (buf_id h).
  Proof.
    intros D evs. induction evs as [|ev evs IH]; intros G r n Hgood HR HB HG Hep.
    - eexists. eexists. split; [reflexivity|]. intros h m [].
    - inversion Hgood as [|? ? Hev Hgood']; subst. cbn [run]. cbn [length] in Hep.
      destruct ev as [h b|k e].
      + cbn [step]. cbn [GoodEvent] in Hev. destruct Hev as (Hwf & Hk & Hp).
        destruct (D (buf_id h)) as [oh body] eqn:ED. cbn [fst snd] in *.
        assert (Hc : Compatible G oh body).
        { unfold Compatible. rewrite Hk. pose proof (HG (buf_id h)) as Hg.
          destruct (G (buf_id h)) as [[[oh' body'] ps']|]; [|exact I].
          rewrite ED in Hg. injection Hg as -> ->. split; reflexivity. }
        destruct (receive_spec G r n oh body (h, b) HR HB ltac:(lia) Hwf Hp Hc) as (r1 & res & Er & Hres).
        cbn [fst snd] in Er. rewrite Er. cbn [bind].
        assert (Hnext : exists G1, RInv G1 r1 /\ GhostOf D G1 /\ EB (n + 1) r1 /\
                          (forall h' m', res = Complete h' m' -> (h', m') = D (buf_id h'))).
        { destruct Hres as [(_ & -> & HR1 & HB1)|(_ & -> & HR1 & HB1)].
          - exists (gset G (buf_id oh) None). split; [exact HR1|]. split; [|split].
            + intros k'. unfold gset. destruct (bufid_eqb k' (buf_id oh)); [exact I|apply HG].
            + destruct HB1 as [B1 B2]. split; [lia|]. intros k' s0 Hf. pose proof (B2 k' s0 Hf). lia.
            + intros h' m' [= <- <-]. rewrite Hk. symmetry. exact ED.
          - eexists. split; [exact HR1|]. split; [|split; [exact HB1|discriminate]].
            intros k'. unfold gset. destruct (bufid_eqb k' (buf_id oh)) eqn:E; [|apply HG].
            apply bufid_eqb_eq in E. subst k'. rewrite Hk. symmetry. exact ED. }
        destruct Hnext as (G1 & HR1 & HG1 & HB1 & Hcomp).
        destruct (IH G1 r1 (n + 1) Hgood' HR1 HB1 HG1 ltac:(lia)) as (r2 & outs & Erun & Houts).
        rewrite Erun. cbn [bind]. eexists. eexists. split; [reflexivity|].
        intros h' m' [Hin|Hin].
        * injection Hin as ->. apply Hcomp. reflexivity.
        * apply Houts. exact Hin.
      + cbn [step bind].
        destruct (cull_spec G r n k e HR HB) as (G1 & HR1 & HB1 & Hother & Hsame).
        assert (HG1 : GhostOf D G1).
        { intros k'. destruct (bufid_eq_dec k' k) as [->|N].
          - destruct Hsame as [->| ->]; [apply HG|exact I].
          - rewrite Hother by assumption. apply HG. }
        destruct (IH G1 _ n Hgood' HR1 HB1 HG1 ltac:(lia)) as (r2 & outs & Erun & Houts).
        rewrite Erun. cbn [bind]. eexists. eexists. split; [reflexivity|].
        intros h' m' [Hin|Hin]; [discriminate|]. apply Houts. exact Hin.
  Qed.

  Theorem trace_returns_original : forall D evs,
    Forall (GoodEvent D) evs -> len evs < U64MAX ->
    exists r outs, run reasm_new evs = Ok (r, outs) /\
      forall h m, In (ObsRecv (Complete h m)) outs -> (h, m) = D (buf_id h).
  Proof.
    intros D evs Hgood Hlen.
    apply (run_returns_original D evs (fun _ => None) reasm_new 0 Hgood RInv_new EB_new).
    - intros k. exact I.
    - lia.
  Qed.

  (* ---------------------------------------------- isolation: frame properties *)
  Lemma receive_frame : forall (r : reasm A) h b r' res,
    receive r h b = Ok (r', res) ->
    forall k', k' <> buf_id h -> find k' (r_segs r') = find k' (r_segs r).
  Proof.
    intros r h b r' res. unfold receive. cbv zeta.
    destruct (is_last_fragment (h_flags h) && (h_fo h =? 0)).
    - intros [= <- _] k' N. cbn [r_segs]. now apply find_remove_other.
    - destruct (seg_receive _ h b) as [[s' [[hh m]|]]| | |]; cbn [bind]; try discriminate.
      + intros [= <- _] k' N. cbn [r_segs]. now apply find_remove_other.
      + intros [= <- _] k' N. cbn [r_segs]. now apply find_upsert_other.
  Qed.

  Lemma cull_frame : forall (r : reasm A) k e k', k' <> k ->
    find k' (r_segs (maybe_cull r k e)) = find k' (r_segs r).
  Proof.
    intros r k e k' N. unfold maybe_cull. destruct (find k (r_segs r)) as [s|]; [|reflexivity].
    destruct (s_epoch s =? e); [|reflexivity]. cbn [r_segs]. now apply find_remove_other.
  Qed.

  (* what a packet does depends on the other buffers only through retired_epoch:
     with the same buffer for its key and the same retired_epoch, two
     reassemblers return the same result and leave the same buffer *)
  Lemma receive_local : forall (r1 r2 : reasm A) h b,
    find (buf_id h) (r_segs r1) = find (buf_id h) (r_segs r2) -> r_epoch r1 = r_epoch r2 ->
    match receive r1 h b, receive r2 h b with
    | Ok (r1', res1), Ok (r2', res2) =>
      res1 = res2 /\ find (buf_id h) (r_segs r1') = find (buf_id h) (r_segs r2') /\
      r_epoch r1' = r_epoch r2'
    | Panic a, Panic b => a = b
    | Err a, Err b => a = b
    | OutOfFuel, OutOfFuel => True
    | _, _ => False
    end.
  Proof.
    intros r1 r2 h b Hf He. unfold receive. cbv zeta. rewrite Hf, He.
    destruct (is_last_fragment (h_flags h) && (h_fo h =? 0)).
    - split; [reflexivity|]. cbn [r_segs r_epoch]. rewrite !find_remove_same. split; reflexivity.
    - destruct (seg_receive _ h b) as [[s' [[hh m]|]]| | |]; cbn [bind]; try reflexivity.
      + split; [reflexivity|]. cbn [r_segs r_epoch]. rewrite !find_remove_same. split; reflexivity.
      + split; [reflexivity|]. cbn [r_segs r_epoch]. rewrite !find_upsert_same. split; reflexivity.
  Qed.

  (* --------------------------------------------------------------- expiry *)
  (* Segment::receive_packet counts the epoch on exactly when it buffers *)
  Lemma seg_receive_epoch : forall (s : segment A) h b s' out,
    seg_receive s h b = Ok (s', out) ->
    s_epoch s' = match out with None => s_epoch s + 1 | Some _ => s_epoch s end.
  Proof.
    intros s h b s' out H. unfold seg_receive, seg_receive_gen in H. cbv beta iota zeta in H.
    repeat (first
      [ progress cbn [bind] in H
      | match type of H with context [if ?c then _ else _] => destruct c end
      | match type of H with context [match ?x with Some _ => _ | None => _ end] => destruct x end ];
      try discriminate).
    all: injection H as <- <-; reflexivity.
  Qed.

  (* what one packet does to the buffer of its own key and to retired_epoch *)
  Lemma receive_fate : forall (r : reasm A) h b r' res,
    receive r h b = Ok (r', res) ->
    r_epoch r <= r_epoch r' /\
    match res with
    | Incomplete t k e =>
      k = buf_id h /\ e = cur_epoch r k + 1 /\
      exists s, find k (r_segs r') = Some s /\ s_epoch s = e
    | Complete _ _ =>
      find (buf_id h) (r_segs r') = None /\ cur_epoch r (buf_id h) <= r_epoch r'
    end.
  Proof.
    intros r h b r' res. unfold receive, cur_epoch. cbv zeta. intros Hr.
    destruct (is_last_fragment (h_flags h) && (h_fo h =? 0)).
    - injection Hr as <- <-. cbn [r_segs r_epoch].
      destruct (find (buf_id h) (r_segs r)) as [s0|]; (split; [lia|]);
        (split; [apply find_remove_same|lia]).
    - destruct (seg_receive _ h b) as [[s' [[hh m]|]]| | |] eqn:Es; cbn [bind] in Hr; try discriminate.
      + injection Hr as <- <-. cbn [r_segs r_epoch].
        pose proof (seg_receive_epoch _ _ _ _ _ Es) as He. cbn in He.
        split; [lia|]. split; [apply find_remove_same|].
        destruct (find (buf_id h) (r_segs r)) as [s0|]; cbn [seg_new_after s_epoch] in He; lia.
      + injection Hr as <- <-. cbn [r_segs r_epoch].
        pose proof (seg_receive_epoch _ _ _ _ _ Es) as He. cbn in He.
        split; [lia|]. split; [reflexivity|]. split.
        * destruct (find (buf_id h) (r_segs r)) as [s0|]; cbn [seg_new_after s_epoch] in He; lia.
        * exists s'. split; [apply find_upsert_same|reflexivity].
  Qed.

  Lemma cull_fate : forall (r : reasm A) k e,
    r_epoch r <= r_epoch (maybe_cull r k e) /\
    (maybe_cull r k e = r \/
     exists s, find k (r_segs r) = Some s /\ s_epoch s = e /\
               find k (r_segs (maybe_cull r k e)) = None /\ e <= r_epoch (maybe_cull r k e)).
  Proof.
    intros r k e. unfold maybe_cull. destruct (find k (r_segs r)) as [s|] eqn:Ef.
    - destruct (Z.eqb_spec (s_epoch s) e) as [Ee|Ne].
      + cbn [r_segs r_epoch]. split; [lia|]. right. exists s.
        split; [reflexivity|]. split; [exact Ee|]. split; [apply find_remove_same|lia].
      + split; [lia|left; reflexivity].
    - split; [lia|left; reflexivity].
  Qed.

  (* some packet of the history belongs to key k *)
  Definition recv_for (k : bufid) (evs : list (event A)) : bool :=
    existsb (fun ev => match ev with EvRecv h _ => bufid_eqb (buf_id h) k | EvCull _ _ => false end) evs.

  (* the buffer of k still carries epoch e / has moved past e; once it is freed,
     retired_epoch has reached e, so a buffer allocated later starts beyond e *)
  Definition at_epoch (k : bufid) (e : Z) (r : reasm A) : Prop :=
    match find k (r_segs r) with Some s => s_epoch s = e | None => e <= r_epoch r end.
  Definition past_epoch (k : bufid) (e : Z) (r : reasm A) : Prop :=
    match find k (r_segs r) with Some s => e < s_epoch s | None => e <= r_epoch r end.

  Lemma at_le_cur : forall k e r, at_epoch k e r -> e <= cur_epoch r k.
  Proof. intros k e r. unfold at_epoch, cur_epoch. destruct (find k (r_segs r)); lia. Qed.
  Lemma past_le_cur : forall k e r, past_epoch k e r -> e <= cur_epoch r k.
  Proof. intros k e r. unfold past_epoch, cur_epoch. destruct (find k (r_segs r)); lia. Qed.

  Lemma step_cull_keeps : forall k e (r : reasm A) k' e',
    (at_epoch k e r -> at_epoch k e (maybe_cull r k' e')) /\
    (past_epoch k e r -> past_epoch k e (maybe_cull r k' e')).
  Proof.
    intros k e r k' e'. destruct (cull_fate r k' e') as [Hm [Hsame|(s0 & Hf & Hs & Hn & He)]].
    - rewrite Hsame. tauto.
    - destruct (bufid_eq_dec k k') as [->|N].
      + unfold at_epoch, past_epoch. rewrite Hn, Hf. split; intros H; lia.
      + unfold at_epoch, past_epoch. rewrite (cull_frame r k' e' k N).
        destruct (find k (r_segs r)); split; intros H; lia.
  Qed.

  Lemma step_recv_other : forall k e (r : reasm A) h b r' res,
    receive r h b = Ok (r', res) -> buf_id h <> k ->
    (at_epoch k e r -> at_epoch k e r') /\ (past_epoch k e r -> past_epoch k e r').
  Proof.
    intros k e r h b r' res Hr N.
    assert (Hfr : find k (r_segs r') = find k (r_segs r)).
    { apply (receive_frame _ _ _ _ _ Hr). intros E. apply N. now symmetry. }
    destruct (receive_fate _ _ _ _ _ Hr) as [Hm _].
    unfold at_epoch, past_epoch. rewrite Hfr. destruct (find k (r_segs r)); split; intros H; lia.
  Qed.

  Lemma step_recv_same : forall k e (r : reasm A) h b r' res,
    receive r h b = Ok (r', res) -> buf_id h = k -> e <= cur_epoch r k -> past_epoch k e r'.
  Proof.
    intros k e r h b r' res Hr Ek He.
    destruct (receive_fate _ _ _ _ _ Hr) as [Hm Hres]. unfold past_epoch.
    destruct res as [hh m|t k0 e0].
    - destruct Hres as [Hn Hc]. rewrite Ek in Hn, Hc. rewrite Hn. lia.
    - destruct Hres as (-> & -> & s & Hf & Hs). rewrite Ek in Hf, Hs. rewrite Hf. lia.
  Qed.

  Lemma run_past : forall evs k e (r r' : reasm A) outs,
    past_epoch k e r -> run r evs = Ok (r', outs) -> past_epoch k e r'.
  Proof.
    induction evs as [|ev evs IH]; intros k e r r' outs HP Hrun.
    - cbn [run] in Hrun. injection Hrun as <- _. exact HP.
    - cbn [run] in Hrun. destruct ev as [h b|k' e']; cbn [step] in Hrun.
      + destruct (receive r h b) as [[r1 res]| | |] eqn:Er; cbn [bind] in Hrun; try discriminate.
        destruct (run r1 evs) as [[r2 os]| | |] eqn:Erun; cbn [bind] in Hrun; try discriminate.
        injection Hrun as <- _. eapply IH; [|exact Erun].
        destruct (bufid_eq_dec (buf_id h) k) as [E|N].
        * apply (step_recv_same k e r h b r1 res Er E). apply past_le_cur. exact HP.
        * apply (step_recv_other k e r h b r1 res Er N). exact HP.
      + cbn [bind] in Hrun.
        destruct (run (maybe_cull r k' e') evs) as [[r2 os]| | |] eqn:Erun; cbn [bind] in Hrun; try discriminate.
        injection Hrun as <- _. eapply IH; [|exact Erun]. apply step_cull_keeps. exact HP.
  Qed.

  Lemma run_at : forall evs k e (r r' : reasm A) outs,
    at_epoch k e r -> run r evs = Ok (r', outs) ->
    if recv_for k evs then past_epoch k e r' else at_epoch k e r'.
  Proof.
    induction evs as [|ev evs IH]; intros k e r r' outs HP Hrun.
    - cbn [run] in Hrun. injection Hrun as <- _. exact HP.
    - cbn [run] in Hrun. destruct ev as [h b|k' e']; cbn [step] in Hrun; cbn [recv_for existsb].
      + destruct (receive r h b) as [[r1 res]| | |] eqn:Er; cbn [bind] in Hrun; try discriminate.
        destruct (run r1 evs) as [[r2 os]| | |] eqn:Erun; cbn [bind] in Hrun; try discriminate.
        injection Hrun as <- _.
        destruct (bufid_eq_dec (buf_id h) k) as [E|N].
        * rewrite E, bufid_eqb_refl. cbn [orb].
          eapply run_past; [|exact Erun].
          apply (step_recv_same k e r h b r1 res Er E). apply at_le_cur. exact HP.
        * rewrite (bufid_eqb_neq _ _ N). cbn [orb]. fold (recv_for k evs).
          eapply IH; [|exact Erun]. apply (step_recv_other k e r h b r1 res Er N). exact HP.
      + cbn [bind] in Hrun.
        destruct (run (maybe_cull r k' e') evs) as [[r2 os]| | |] eqn:Erun; cbn [bind] in Hrun; try discriminate.
        injection Hrun as <- _. cbn [orb]. fold (recv_for k evs).
        eapply IH; [|exact Erun]. apply step_cull_keeps. exact HP.
  Qed.

  (* The callback (k, e) handed out by an Incomplete result, run after any
     further history (arbitrary packets, arbitrary other callbacks): it
     discards the buffer if no packet for k arrived in between, and changes
     nothing if one did - also when the datagram completed meanwhile and the
     key is in use again. *)
  Theorem expiry : forall (r0 : reasm A) h b r1 t k e evs r2 outs,
    receive r0 h b = Ok (r1, Incomplete t k e) -> run r1 evs = Ok (r2, outs) ->
    (recv_for k evs = false -> find k (r_segs (maybe_cull r2 k e)) = None) /\
    (recv_for k evs = true -> maybe_cull r2 k e = r2).
  Proof.
    intros r0 h b r1 t k e evs r2 outs Hr Hrun.
    destruct (receive_fate _ _ _ _ _ Hr) as (_ & _ & _ & s & Hf & Hs).
    assert (Hat : at_epoch k e r1) by (unfold at_epoch; rewrite Hf; exact Hs).
    pose proof (run_at evs k e r1 r2 outs Hat Hrun) as Hfin.
    split; intros Hrecv; rewrite Hrecv in Hfin.
    - unfold at_epoch in Hfin. unfold maybe_cull.
      destruct (find k (r_segs r2)) as [s2|] eqn:Ef2.
      + rewrite Hfin, Z.eqb_refl. cbn [r_segs]. apply find_remove_same.
      + exact Ef2.
    - unfold past_epoch in Hfin. unfold maybe_cull.
      destruct (find k (r_segs r2)) as [s2|] eqn:Ef2; [|reflexivity].
      destruct (Z.eqb_spec (s_epoch s2) e); [lia|reflexivity].
  Qed.
End Trace.

(* ------------------------------------------------ header.unwrap() is safe *)
(* segment.rs:90 unwraps the stored header once bits 0..(TDL+7)/8 are set.
   For ANY packets (malformed ones included, fragment_offset a u16) bit 0 is
   only ever set together with the header, so site 7 is unreachable. *)
Section Unwrap.
  Context {A : Type}.

  Definition HInv (s : segment A) : Prop :=
    0 <= s_tdl s /\ (bv_get (s_bits s) 0 = true -> s_header s <> None).

  Lemma HInv_new : HInv (@seg_new A).
  Proof. split; cbn; [lia|discriminate]. Qed.

  Lemma seg_receive_unwrap_safe : forall (s : segment A) h b, HInv s -> 0 <= h_fo h ->
    seg_receive s h b <> Panic 7 /\
    (forall s' out, seg_receive s h b = Ok (s', out) -> HInv s').
  Proof.
    intros s h b [Htdl Hbit] Hfo. unfold seg_receive, seg_receive_gen. cbv beta iota zeta.
    destruct (Z.ltb_spec (h_tl h) (h_ihl h * 4)); [split; [discriminate|intros; discriminate]|].
    destruct (U16MAX <? h_tl h - h_ihl h * 4 + 7); [split; [discriminate|intros; discriminate]|].
    destruct (U16MAX <? h_fo h + (h_tl h - h_ihl h * 4 + 7) / 8); [split; [discriminate|intros; discriminate]|].
    set (bits' := bv_set_range (s_bits s) (h_fo h) (h_fo h + (h_tl h - h_ihl h * 4 + 7) / 8)).
    set (header' := if h_fo h =? 0 then Some h else s_header s).
    assert (Hb0 : bv_get bits' 0 = true -> header' <> None).
    { unfold bits', bv_set_range, header'. rewrite bv_get_set_range_nat.
      destruct (Z.eqb_spec (h_fo h) 0) as [E|N]; [discriminate|].
      intros Hor. apply orb_true_iff in Hor. destruct Hor as [Hr|Ho]; [|apply Hbit; exact Ho].
      apply andb_true_iff in Hr. destruct Hr as [Hr _]. apply Nat.leb_le in Hr. lia. }
    destruct (if is_last_fragment (h_flags h)
              then if U16MAX <? h_fo h * 8 then Panic 4
                   else if U16MAX <? h_tl h - h_ihl h * 4 + h_fo h * 8 then Panic 5
                        else Ok (h_tl h - h_ihl h * 4 + h_fo h * 8)
              else Ok (s_tdl s)) as [tdl'|err|site|] eqn:Etdl; cbn [bind].
    - assert (Ht' : 0 <= tdl').
      { destruct (is_last_fragment (h_flags h)).
        - destruct (U16MAX <? h_fo h * 8); [discriminate|].
          destruct (U16MAX <? h_tl h - h_ihl h * 4 + h_fo h * 8); [discriminate|].
          injection Etdl as <-. lia.
        - injection Etdl as <-. exact Htdl. }
      assert (Hinc : forall frags tmo ep s' (out : option (hdr * list A)),
                (if U64MAX <=? s_epoch s then Panic 9
                 else Ok (mkSeg header' bits' frags tdl' tmo ep, None)) = Ok (s', out) -> HInv s').
      { intros frags tmo ep s' out. destruct (U64MAX <=? s_epoch s); [discriminate|].
        intros [= <- _]. split; cbn [s_tdl s_bits s_header]; assumption. }
      assert (Hnp : forall X : segment A * option (hdr * list A),
                (if U64MAX <=? s_epoch s then Panic 9 else Ok X) <> Panic 7).
      { intros X. destruct (U64MAX <=? s_epoch s); discriminate. }
      destruct (Z.eqb_spec tdl' 0).
      + split; [apply Hnp|]. intros s' out. apply Hinc.
      + destruct (U16MAX <? tdl' + 7); [split; [discriminate|intros; discriminate]|].
        destruct (bv_complete bits' ((tdl' + 7) / 8)) eqn:Ec.
        * assert (H0 : bv_get bits' 0 = true).
          { unfold bv_complete in Ec. rewrite bv_complete_nat_spec in Ec. apply Ec. lia. }
          specialize (Hb0 H0). destruct header' as [hh|] eqn:Eh; [|congruence].
          destruct (U16MAX <? tdl' + h_ihl hh * 4); [split; [discriminate|intros; discriminate]|].
          split; [discriminate|]. intros s' out [= <- _].
          split; cbn [s_tdl s_bits s_header]; [exact Ht'|discriminate].
        * split; [apply Hnp|]. intros s' out. apply Hinc.
    - destruct (is_last_fragment (h_flags h)); [|discriminate].
      destruct (U16MAX <? h_fo h * 8); [discriminate|].
      destruct (U16MAX <? h_tl h - h_ihl h * 4 + h_fo h * 8); discriminate.
    - assert (site <> 7).
      { destruct (is_last_fragment (h_flags h)); [|discriminate].
        destruct (U16MAX <? h_fo h * 8); [injection Etdl as <-; lia|].
        destruct (U16MAX <? h_tl h - h_ihl h * 4 + h_fo h * 8); [injection Etdl as <-; lia|discriminate]. }
      split; [congruence|intros; discriminate].
    - destruct (is_last_fragment (h_flags h)); [|discriminate].
      destruct (U16MAX <? h_fo h * 8); [discriminate|].
      destruct (U16MAX <? h_tl h - h_ihl h * 4 + h_fo h * 8); discriminate.
  Qed.

  Definition HRInv (r : reasm A) : Prop := forall k s, find k (r_segs r) = Some s -> HInv s.

  Lemma receive_unwrap_safe : forall (r : reasm A) h b, HRInv r -> 0 <= h_fo h ->
    receive r h b <> Panic 7 /\ (forall r' res, receive r h b = Ok (r', res) -> HRInv r').
  Proof.
    intros r h b HR Hfo. unfold receive. cbv zeta.
    assert (Hrem : forall e, HRInv (mkR (remove (buf_id h) (r_segs r)) e)).
    { intros e k s. cbn [r_segs]. destruct (bufid_eq_dec k (buf_id h)) as [->|N].
      - rewrite find_remove_same. discriminate.
      - rewrite find_remove_other by assumption. apply HR. }
    destruct (is_last_fragment (h_flags h) && (h_fo h =? 0)).
    - split; [discriminate|]. intros r' res [= <- _]. apply Hrem.
    - set (s := match find (buf_id h) (r_segs r) with Some s => s | None => seg_new_after (r_epoch r) end).
      assert (Hs : HInv s).
      { unfold s. destruct (find (buf_id h) (r_segs r)) as [s0|] eqn:E; [apply (HR _ _ E)|].
        split; cbn; [lia|discriminate]. }
      destruct (seg_receive_unwrap_safe s h b Hs Hfo) as [Hnp Hok].
      destruct (seg_receive s h b) as [[s' [[hh m]|]]|err|site|] eqn:Er; cbn [bind].
      + split; [discriminate|]. intros r' res [= <- _]. apply Hrem.
      + split; [discriminate|]. intros r' res [= <- _].
        intros k s0. cbn [r_segs]. destruct (bufid_eq_dec k (buf_id h)) as [->|N].
        * rewrite find_upsert_same. intros [= <-]. apply (Hok s' None eq_refl).
        * rewrite find_upsert_other by assumption. apply HR.
      + split; [discriminate|intros; discriminate].
      + split; [congruence|intros; discriminate].
      + split; [discriminate|intros; discriminate].
  Qed.

  Definition fo_nonneg (ev : event A) : Prop :=
    match ev with EvRecv h _ => 0 <= h_fo h | EvCull _ _ => True end.

  Lemma run_unwrap_safe_gen : forall evs (r : reasm A), HRInv r -> Forall fo_nonneg evs ->
    run r evs <> Panic 7.
  Proof.
    induction evs as [|ev evs IH]; intros r HR Hall; [discriminate|].
    inversion Hall as [|? ? Hev Hall']; subst. cbn [run]. destruct ev as [h b|k e]; cbn [step].
    - destruct (receive_unwrap_safe r h b HR Hev) as [Hnp Hok].
      destruct (receive r h b) as [[r1 res]|err|site|] eqn:Er; cbn [bind]; try discriminate; [|congruence].
      specialize (IH r1 (Hok _ _ eq_refl) Hall').
      destruct (run r1 evs) as [[r2 os]|err|site|]; cbn [bind]; try discriminate. congruence.
    - cbn [bind].
      assert (HR1 : HRInv (maybe_cull r k e)).
      { intros k' s. unfold maybe_cull. destruct (find k (r_segs r)) as [s0|] eqn:E; [|apply HR].
        destruct (s_epoch s0 =? e); [|apply HR]. cbn [r_segs].
        destruct (bufid_eq_dec k' k) as [->|N].
        - rewrite find_remove_same. discriminate.
        - rewrite find_remove_other by assumption. apply HR. }
      specialize (IH _ HR1 Hall').
      destruct (run (maybe_cull r k e) evs) as [[r2 os]|err|site|]; cbn [bind]; try discriminate. congruence.
  Qed.

  Theorem run_unwrap_safe : forall evs : list (event A), Forall fo_nonneg evs ->
    run reasm_new evs <> Panic 7.
  Proof.
    intros evs H. apply run_unwrap_safe_gen; [|exact H]. intros k s. cbn. discriminate.
  Qed.
End Unwrap.

(* ------------------------------------------ projections of receive_spec *)
Section Projections.
  Context {A : Type}.
  Notation len l := (Z.of_nat (length l)).

  Definition is_complete (res : rres A) : bool :=
    match res with Complete _ _ => true | Incomplete _ _ _ => false end.

  Lemma complete_iff : forall (G : @gmap A) r n oh body p,
    RInv G r -> EB n r -> n < U64MAX -> WfDgram oh body -> Piece oh body p -> Compatible G oh body ->
    exists r' res, receive r (fst p) (snd p) = Ok (r', res) /\
      (is_complete res = true <-> Covers (p :: gpieces G (buf_id oh)) (len body)).
  Proof.
    intros G r n oh body p HR HB He Hwf Hp Hc.
    destruct (receive_spec G r n oh body p HR HB He Hwf Hp Hc) as (r' & res & Er & [(Hcov & -> & _)|(Hn & -> & _)]).
    - exists r'. eexists. split; [exact Er|]. cbn. tauto.
    - exists r'. eexists. split; [exact Er|]. cbn. split; [discriminate|tauto].
  Qed.

  Lemma returns_original : forall (G : @gmap A) r n oh body p r' h m,
    RInv G r -> EB n r -> n < U64MAX -> WfDgram oh body -> Piece oh body p -> Compatible G oh body ->
    receive r (fst p) (snd p) = Ok (r', Complete h m) -> h = oh /\ m = body.
  Proof.
    intros G r n oh body p r' h m HR HB He Hwf Hp Hc Er.
    destruct (receive_spec G r n oh body p HR HB He Hwf Hp Hc) as (r1 & res & Er1 & [(_ & -> & _)|(_ & -> & _)]);
      rewrite Er in Er1; inversion Er1; subst; split; reflexivity.
  Qed.
End Projections.
