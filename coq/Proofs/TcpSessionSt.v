(* The states in which Tcb::send accepts text (SYN-SENT, SYN-RECEIVED, ESTABLISHED) are never
   re-entered: every TCB operation the session task performs maps a non-accepting state to a
   non-accepting state.  Used to relate "what the TCB accepted" to "what the application
   handed to Session::send" in the closed session system. *)
From Elvis Require Import Model.Base Model.U32 Model.Tcb.
Local Open Scope Z_scope.

Definition st_le (a b : state) : Prop := accepts_send b = true -> accepts_send a = true.

Lemma st_le_refl a : st_le a a.
Proof. unfold st_le. auto. Qed.
Lemma st_le_trans a b c : st_le a b -> st_le b c -> st_le a c.
Proof. unfold st_le. auto. Qed.
Lemma st_le_open a b : accepts_send a = true -> st_le a b.
Proof. unfold st_le. auto. Qed.
Lemma st_le_closed a b : accepts_send b = false -> st_le a b.
Proof. unfold st_le. intros -> H. discriminate. Qed.

Lemma enqueue_st t h : st (enqueue t h) = st t.
Proof. unfold enqueue. destruct (_ || _); reflexivity. Qed.

Lemma ack_est_st t h : st (fst (ack_est t h)) = st t.
Proof.
  unfold ack_est. destruct (mod_leq _ _); [reflexivity|]. destruct (mod_gt _ _); cbn [fst].
  - apply enqueue_st.
  - destruct (_ || _); reflexivity.
Qed.

Lemma ps_ack_st t h : st_le (st t) (st (fst (ps_ack t h))).
Proof.
  unfold ps_ack. destruct (negb _); [apply st_le_refl|].
  destruct (st t) eqn:Est.
  - (* SynSent *) apply st_le_open. reflexivity.
  - apply st_le_open. reflexivity.
  - (* Established *) pose proof (ack_est_st t h) as E. destruct (ack_est t h) as [t2 r]. cbn [fst] in E.
    destruct r; cbn [fst]; rewrite E, Est; apply st_le_refl.
  - (* FinWait1 *) pose proof (ack_est_st t h) as E. destruct (ack_est t h) as [t2 r]. cbn [fst] in E.
    apply st_le_closed. destruct (is_fin_acked t2); destruct r; cbn [fst]; rewrite ?E, ?Est; reflexivity.
  - pose proof (ack_est_st t h) as E. destruct (ack_est t h) as [t2 r]. cbn [fst] in E.
    destruct r; cbn [fst]; rewrite E, Est; apply st_le_refl.
  - pose proof (ack_est_st t h) as E. destruct (ack_est t h) as [t2 r]. cbn [fst] in E.
    destruct r; cbn [fst]; rewrite E, Est; apply st_le_refl.
  - (* Closing *) pose proof (ack_est_st t h) as E. destruct (ack_est t h) as [t2 r]. cbn [fst] in E.
    apply st_le_closed. destruct (is_fin_acked t2); destruct r; cbn [fst]; rewrite ?E, ?Est; reflexivity.
  - (* LastAck *) pose proof (ack_est_st t h) as E. destruct (ack_est t h) as [t2 r]. cbn [fst] in E.
    apply st_le_closed. destruct (is_fin_acked t2); [|destruct r]; cbn [fst]; rewrite ?E, ?Est; reflexivity.
  - (* TimeWait *) apply st_le_closed. destruct (c_fin _); cbn [fst]; rewrite ?enqueue_st; cbn [st set_time_wait]; rewrite ?enqueue_st, ?Est; reflexivity.
Qed.

Lemma ps_syn_st t h : st_le (st t) (st (fst (ps_syn t h))).
Proof.
  unfold ps_syn. destruct (negb _); [apply st_le_refl|].
  destruct (st t) eqn:Est; try (cbn [fst]; rewrite enqueue_st, Est; apply st_le_refl).
  apply st_le_open. reflexivity.
Qed.

Lemma ps_text_st t h text t' : ps_text t h text = Ok t' -> st t' = st t.
Proof.
  unfold ps_text. destruct (_ =? 0); [intros [= <-]; reflexivity|].
  destruct (st t) eqn:Est; try (intros [= <-]; exact Est);
    (destruct (negb _); [discriminate|]; destruct (_ <? _); [discriminate|];
     intros [= <-]; rewrite enqueue_st; exact Est).
Qed.

Lemma ps_fin_st t h n : st_le (st t) (st (ps_fin t h n)).
Proof.
  unfold ps_fin. destruct (negb _); [apply st_le_refl|].
  set (t1 := if state_eqb (st t) SynSent then t else _).
  assert (E1 : st t1 = st t).
  { subst t1. destruct (state_eqb _ _); [reflexivity|]. destruct (_ || _); [|reflexivity].
    rewrite enqueue_st. reflexivity. }
  destruct (st t1) eqn:Est1; rewrite <- E1; try (rewrite Est1; apply st_le_refl);
    apply st_le_closed; try reflexivity.
  - destruct (is_fin_acked t1); reflexivity.
  - cbn [st set_time_wait]. rewrite Est1. reflexivity.
Qed.

Lemma process_segment_st t s t' r : process_segment t s = Ok (t', r) -> st_le (st t) (st t').
Proof.
  unfold process_segment.
  destruct (match st t with SynSent => false | _ => _ end).
  - intros [= <- _]. rewrite enqueue_st. apply st_le_refl.
  - pose proof (ps_ack_st t (s_hdr s)) as H2. destruct (ps_ack t (s_hdr s)) as [t2 r2]. cbn [fst] in H2.
    destruct r2 as [r2|]; [intros [= <- _]; exact H2|].
    destruct (ps_rst t2 (s_hdr s)) as [r3|]; [intros [= <- _]; exact H2|].
    pose proof (ps_syn_st t2 (s_hdr s)) as H4. destruct (ps_syn t2 (s_hdr s)) as [t4 r4]. cbn [fst] in H4.
    assert (H24 : st_le (st t) (st t4)) by (eapply st_le_trans; eassumption).
    destruct r4 as [r4|]; [intros [= <- _]; exact H24|].
    destruct (state_eqb (st t4) SynSent); [intros [= <- _]; exact H24|].
    destruct (ps_text t4 (s_hdr s) (s_text s)) as [t6|e|p|] eqn:E6; try discriminate.
    intros [= <- _]. apply ps_text_st in E6.
    eapply st_le_trans; [exact H24|]. rewrite <- E6. apply ps_fin_st.
Qed.

Lemma arrives_loop_st fuel : forall t t' r, arrives_loop fuel t = Ok (t', r) -> st_le (st t) (st t').
Proof.
  induction fuel as [|f IH]; intros t t' r; cbn [arrives_loop]; [discriminate|].
  destruct (heap_peek (in_segs t)) as [top|]; [|intros [= <- _]; apply st_le_refl].
  destruct (_ && _); [intros [= <- _]; apply st_le_refl|].
  destruct (heap_pop (in_segs t)) as [[s rest]|]; [|discriminate].
  destruct (process_segment (set_in_segs t rest) s) as [[t1 r1]|e|p|] eqn:Ep; try discriminate.
  apply process_segment_st in Ep. cbn [st set_in_segs] in Ep.
  destruct (should_delete r1); [intros [= <- _]; exact Ep|].
  intros H. eapply st_le_trans; [exact Ep|]. eapply IH, H.
Qed.

Lemma segment_arrives_st t seg t' r : segment_arrives t seg = Ok (t', r) -> st_le (st t) (st t').
Proof. unfold segment_arrives. intros H. apply arrives_loop_st in H. exact H. Qed.

Lemma advance_time_st t dt : st (fst (advance_time t dt)) = st t.
Proof.
  unfold advance_time. set (t1 := if rto t <? dt then _ else _).
  assert (E : st t1 = st t) by (subst t1; destruct (_ <? _); reflexivity).
  destruct (time_wait t1) as [tw|]; [destruct (tw <? dt)|]; cbn [fst]; exact E.
Qed.

Lemma queue_pending_fin_st t : st (queue_pending_fin t) = st t.
Proof.
  unfold queue_pending_fin. destruct (_ && _); [|reflexivity].
  cbn [st set_snd_nxt]. rewrite enqueue_st. reflexivity.
Qed.

Lemma seg_loop_st fuel : forall t mss rem t', seg_loop fuel t mss rem = Ok t' -> st t' = st t.
Proof.
  induction fuel as [|f IH]; intros t mss rem t'; cbn [seg_loop]; [discriminate|].
  destruct (_ =? 0); [intros [= <-]; reflexivity|]. destruct (_ <? _); [discriminate|].
  intros H. apply IH in H. exact H.
Qed.

Lemma tcb_segments_st t t' segs : tcb_segments t = Ok (t', segs) -> st t' = st t.
Proof.
  unfold tcb_segments.
  set (t0 := set_oneshot t []).
  destruct (segmentizes (st t0)).
  - destruct (mtu t0 <? SPACE_FOR_HEADERS); [discriminate|].
    destruct (seg_loop _ t0 _ _) as [t1|e|p|] eqn:El; try discriminate.
    apply seg_loop_st in El. intros [= <- _].
    destruct (map t_seg _); cbn [st set_rto set_retx]; rewrite queue_pending_fin_st; exact El.
  - intros [= <- _]. destruct (map t_seg _); reflexivity.
Qed.

Lemma tcb_send_st t b : st (tcb_send t b) = st t.
Proof. unfold tcb_send. destruct (accepts_send _); reflexivity. Qed.
