(* C01 safety and C03 (b),(c): the theorems about reachable states of the closed
   two-endpoint system, derived from the global invariant SysInv
   (TcbSafetyDefs.v), which every closed-system label preserves (TcbSafetyStep.v). *)
From Elvis Require Import Model.Base Model.U32 Model.Tcb Model.TcpNet
  Proofs.U32Facts Proofs.TcbSafetyDefs Proofs.TcbSafetyBase Proofs.TcbSafetySnd
  Proofs.TcbSafetyRcv Proofs.TcbSafetyArr Proofs.TcbSafetySys Proofs.TcbSafetyStep.
From Coq Require Import ZifyBool.
Local Open Scope Z_scope.
Ltac Zify.zify_post_hook ::= Z.div_mod_to_equations.

(* ---------- the submitted streams only grow (no invariant needed) ---------- *)
Lemma sub_set_panicked s x : sub_of (set_panicked s) x = sub_of s x.
Proof. destruct x; reflexivity. Qed.

Lemma sub_final_read s y t x : sub_of (final_read s y t) x = sub_of s x.
Proof. destruct (final_read_other s y t) as (_ & E & _). now rewrite E. Qed.

Lemma arrive_sub c s r seg x : sub_of (fst (arrive c s r seg)) x = sub_of s x.
Proof.
  unfold arrive. destruct (end_of s r).
  - destruct (arrives_closed _ _); cbn [fst]; now rewrite ?sub_set_net.
  - destruct (arrives_listen _ _ _); cbn [fst]; now rewrite ?sub_set_net, ?sub_set_end.
  - destruct (segment_arrives t seg) as [[t1 []]| | |]; cbn [fst];
      now rewrite ?sub_set_end, ?sub_final_read, ?sub_set_panicked.
  - reflexivity.
Qed.

Lemma emit_sub s y x : sub_of (fst (fst (emit s y))) x = sub_of s x.
Proof.
  unfold emit. destruct (end_of s y); try reflexivity.
  destruct (tcb_segments t) as [[t1 segs]| | |]; cbn [fst];
    now rewrite ?sub_set_net, ?sub_set_end, ?sub_set_panicked.
Qed.

Lemma tick_sub s y ms x : sub_of (fst (tick s y ms)) x = sub_of s x.
Proof.
  unfold tick. pose proof (emit_sub s y x) as H.
  destruct (emit s y) as [[s1 segs] bad]. cbn [fst] in H.
  destruct bad; [exact H|].
  destruct (end_of s1 y); try exact H.
  destruct (advance_time t ms) as [t1 []]; cbn [fst];
    now rewrite ?sub_set_end, ?sub_final_read.
Qed.

Lemma recv_sub s y x : sub_of (fst (recv s y)) x = sub_of s x.
Proof.
  unfold recv. destruct (end_of s y); try reflexivity.
  unfold tcb_receive. cbn [fst]. destruct (in_text t); now rewrite ?sub_set_del, ?sub_set_end.
Qed.

Lemma deliver_all_sub fuel c : forall s y x, sub_of (deliver_all fuel c s y) x = sub_of s x.
Proof.
  induction fuel as [|f IH]; intros s y x; cbn [deliver_all]; [reflexivity|].
  destruct (net_of s y) eqn:En; [reflexivity|].
  now rewrite IH, arrive_sub, sub_set_net.
Qed.

Lemma fair_half_t_sub c s y ms one x : sub_of (fair_half_t c s y ms one) x = sub_of s x.
Proof.
  unfold fair_half_t. pose proof (emit_sub (fst (tick s y ms)) y x) as H.
  destruct (emit (fst (tick s y ms)) y) as [[s2 segs] bad]. cbn [fst] in H.
  now rewrite !recv_sub, deliver_all_sub, H, tick_sub.
Qed.

Lemma fair_half_sub c s y x : sub_of (fair_half c s y) x = sub_of s x.
Proof. apply fair_half_t_sub. Qed.

Lemma fair_rounds_t_sub k c ms one : forall s x, sub_of (fair_rounds_t k c s ms one) x = sub_of s x.
Proof.
  induction k as [|k IH]; intros s x; cbn [fair_rounds_t]; [reflexivity|].
  now rewrite IH, !fair_half_t_sub.
Qed.

Lemma fair_rounds_sub k c : forall s x, sub_of (fair_rounds k c s) x = sub_of s x.
Proof.
  induction k as [|k IH]; intros s x; cbn [fair_rounds]; [reflexivity|].
  now rewrite IH, !fair_half_sub.
Qed.

Lemma step_sub c s l x : exists more, sub_of (fst (sys_step c s l)) x = sub_of s x ++ more.
Proof.
  assert (Hsame : forall s', sub_of s' x = sub_of s x -> exists more, sub_of s' x = sub_of s x ++ more).
  { intros s' E. exists []. now rewrite app_nil_r. }
  unfold sys_step. destruct (panicked s); [apply Hsame; reflexivity|].
  destruct l as [y|y bytes|y|y|y ms|y|y i|y i|y i|y seg|k|k ms one|].
  - destruct (end_of s y); apply Hsame; cbn [fst]; now rewrite ?sub_set_end.
  - destruct (end_of s y); try (apply Hsame; reflexivity). cbn [fst]. rewrite sub_set_end.
    destruct (accepts_send (st t)); [|apply Hsame; reflexivity].
    destruct x, y; cbn; eauto; exists []; now rewrite app_nil_r.
  - apply Hsame, recv_sub.
  - destruct (end_of s y); try (apply Hsame; reflexivity).
    destruct (tcb_close t). apply Hsame. cbn [fst]. now rewrite sub_set_end.
  - apply Hsame, tick_sub.
  - destruct (end_of s y); try (apply Hsame; reflexivity).
    pose proof (emit_sub s y x) as H. destruct (emit s y) as [[s1 segs] bad]. cbn [fst] in H.
    destruct bad; apply Hsame; exact H.
  - destruct (net_of s y) eqn:En; [apply Hsame; reflexivity|].
    destruct (nth_error _ _); [|apply Hsame; reflexivity].
    apply Hsame. now rewrite arrive_sub, sub_set_net.
  - destruct (net_of s y); apply Hsame; cbn [fst]; now rewrite ?sub_set_net.
  - destruct (net_of s y); [apply Hsame; reflexivity|].
    destruct (nth_error _ _); apply Hsame; cbn [fst]; now rewrite ?sub_set_net.
  - apply Hsame, arrive_sub.
  - apply Hsame. cbn [fst]. apply fair_rounds_sub.
  - apply Hsame. cbn [fst]. apply fair_rounds_t_sub.
  - apply Hsame. reflexivity.
Qed.

Lemma run_sub c ls : forall s x, exists more, sub_of (run c s ls) x = sub_of s x ++ more.
Proof.
  induction ls as [|l ls IH]; intros s x; cbn [run fold_left].
  - exists []. now rewrite app_nil_r.
  - destruct (IH (fst (sys_step c s l)) x) as [m1 E1]. destruct (step_sub c s l x) as [m2 E2].
    unfold run in E1. rewrite E1, E2. exists (m2 ++ m1). now rewrite app_assoc.
Qed.

(* ---------- reachable states satisfy the invariant ---------- *)
Lemma init_inv c b : cfg_ok c -> SysInv c (init_sys b).
Proof.
  intros Hc. unfold SysInv, init_sys. splits.
  - reflexivity.
  - intros x. unfold pv_wf. destruct x, b; cbn; splits; try apply Hc; try lia; try discriminate;
      unfold SEQ_BOUND; lia.
  - intros x. destruct x, b; cbn; auto.
  - intros x. destruct x; constructor.
Qed.

Lemma run_inv c : cfg_ok c -> forall ls s,
  SysInv c s -> forallb no_inject ls = true ->
  (forall x, zlen (sub_of (run c s ls) x) < SEQ_BOUND) ->
  SysInv c (run c s ls).
Proof.
  intros Hc. induction ls as [|l ls IH]; intros s HI Hl Hb; cbn [run fold_left]; [exact HI|].
  cbn [forallb] in Hl. apply andb_prop in Hl. destruct Hl as [Hl1 Hl2].
  apply IH; [|exact Hl2|exact Hb].
  apply step_inv; try assumption.
  intros x. specialize (Hb x). cbn [run fold_left] in Hb.
  destruct (run_sub c ls (fst (sys_step c s l)) x) as [more E]. unfold run in E.
  rewrite E, zlen_app in Hb. pose proof (zlen_nonneg more). lia.
Qed.

Lemma sub_bound_all s : sub_bound s -> forall x, zlen (sub_of s x) < SEQ_BOUND.
Proof. intros [A B] x. destruct x; assumption. Qed.

Lemma reachable_inv c b ls :
  cfg_ok c -> forallb no_inject ls = true -> sub_bound (run c (init_sys b) ls) ->
  SysInv c (run c (init_sys b) ls).
Proof.
  intros Hc Hl Hb. apply run_inv; try assumption; [apply init_inv; assumption|].
  apply sub_bound_all, Hb.
Qed.

(* ---------- consequences of the invariant ---------- *)
Lemma sysinv_prefix c s y : SysInv c s -> prefix (delivered s y) (sub_of s (other y)).
Proof.
  intros (P & W & E & N). specialize (E y). rewrite EndInv_eq in E.
  destruct (end_of s y); cbn [EndInvP] in E.
  - destruct E as [-> _]. exists (sub_of s (other y)). reflexivity.
  - destruct E as [-> _]. exists (sub_of s (other y)). reflexivity.
  - destruct E as [_ HR]. apply RcvInv_prefix in HR. rewrite pv_sub_pv_of in HR.
    destruct HR as [r Hr]. exists (in_text t ++ r). now rewrite app_assoc.
  - exact E.
Qed.

Theorem safety c b ls :
  cfg_ok c -> forallb no_inject ls = true ->
  let s := run c (init_sys b) ls in
  sub_bound s ->
  panicked s = false /\ prefix (delivered s SB) (subA s) /\ prefix (delivered s SA) (subB s).
Proof.
  intros Hc Hl s Hb. pose proof (reachable_inv c b ls Hc Hl Hb) as HI. fold s in HI.
  splits.
  - apply HI.
  - apply (sysinv_prefix c s SB HI).
  - apply (sysinv_prefix c s SA HI).
Qed.

(* the sender half, for every live endpoint of a reachable state *)
Theorem sender_consistent c b ls x t :
  cfg_ok c -> forallb no_inject ls = true ->
  let s := run c (init_sys b) ls in
  sub_bound s -> end_of s x = ELive t ->
  snd_iss t = iss_of c x /\
  out_text t = skipn (Z.to_nat (data_sent (sub_of s x) t)) (sub_of s x) /\
  snd_nxt t = wadd (wadd (iss_of c x) 1) (data_sent (sub_of s x) t + b2z (finq t)) /\
  Forall (seg_inv (my_pv (iss_of c x) (sub_of s x) t)) (map t_seg (retx t)) /\
  Forall (seg_inv (my_pv (iss_of c x) (sub_of s x) t)) (net_of s x).
Proof.
  intros Hc Hl s Hb El. pose proof (reachable_inv c b ls Hc Hl Hb) as HI. fold s in HI.
  destruct (live_parts c s x t HI El) as (HS & _ & _ & Epv).
  destruct HS as (A1 & A2 & A3 & A4 & A5 & A6 & A7 & A8 & A9 & A10).
  splits; try assumption. rewrite <- Epv. apply HI.
Qed.

(* ---------- C03 (b): synchronised sequence numbers ---------- *)
Lemma sync_of_inv c s x t t' : cfg_ok c -> SysInv c s ->
  end_of s x = ELive t -> end_of s (other x) = ELive t' ->
  state_eqb (st t) SynSent = false ->
  rcv_irs t = iss_of c (other x) /\
  wsub (rcv_nxt t) (wadd (iss_of c (other x)) 1) <= wsub (snd_nxt t') (wadd (iss_of c (other x)) 1).
Proof.
  intros Hc HI El El' Hss.
  destruct (live_parts c s x t HI El) as (_ & HR & _ & _).
  destruct (live_parts c s (other x) t' HI El') as (HS' & _ & Hb' & Epv').
  pose proof (proj1 (proj2 HI) (other x)) as Wp. rewrite Epv' in *.
  destruct HR as (R1 & R2 & R3). rewrite Hss in R3. destruct R3 as (R3 & R4 & R5 & R6 & R7).
  destruct Wp as (Hu & Hl & Hb & Hfz).
  destruct HS' as (A1 & A2 & A3 & A4 & A5 & A6 & _).
  unfold rcv_n, pv_base in *. cbn [my_pv pv_iss pv_sub pv_lim pv_frozen] in *.
  split; [exact R3|].
  set (base := wadd (iss_of c (other x)) 1) in *.
  set (ds := data_sent (sub_of s (other x)) t') in *.
  assert (Hsn : wsub (snd_nxt t') base = ds + b2z (finq t')).
  { rewrite A6, wsub_spec, wadd_spec. unfold u32, M32, SEQ_BOUND in *. destruct (finq t'); cbn [b2z]; lia. }
  rewrite Hsn. destruct (fin_consumed (st t)); cbn [b2z] in *.
  - destruct (R7 eq_refl) as [Hq Hn]. rewrite Hq in *. cbn [b2z]. specialize (Hfz eq_refl). lia.
  - destruct (finq t'); cbn [b2z]; lia.
Qed.

Definition synchronised (s : state) : bool :=
  match s with SynSent | SynReceived => false | _ => true end.

Theorem sync c b ls t t' x :
  cfg_ok c -> forallb no_inject ls = true ->
  let s := run c (init_sys b) ls in
  sub_bound s ->
  end_of s x = ELive t -> end_of s (other x) = ELive t' ->
  synchronised (st t) = true -> synchronised (st t') = true ->
  rcv_irs t = iss_of c (other x) /\
  wsub (rcv_nxt t) (wadd (iss_of c (other x)) 1) <= wsub (snd_nxt t') (wadd (iss_of c (other x)) 1).
Proof.
  intros Hc Hl s Hb El El' Hs Hs'. pose proof (reachable_inv c b ls Hc Hl Hb) as HI. fold s in HI.
  eapply sync_of_inv; try eassumption. destruct (st t); try discriminate Hs; reflexivity.
Qed.

(* ---------- C03 (c): data before FIN ---------- *)
Lemma data_before_fin_of_inv c s y t : SysInv c s ->
  end_of s y = ELive t -> fin_consumed (st t) = true ->
  delivered s y ++ in_text t = sub_of s (other y).
Proof.
  intros HI El Hfc. pose proof HI as (P & W & E & N).
  specialize (E y). rewrite EndInv_eq, El in E. destruct E as [_ (R1 & R2 & R3)].
  assert (Hss : state_eqb (st t) SynSent = false) by (destruct (st t); try discriminate Hfc; reflexivity).
  rewrite Hss in R3. destruct R3 as (_ & _ & _ & R6 & R7).
  destruct (R7 Hfc) as [_ Hn]. rewrite R6, Hn, pv_sub_pv_of.
  unfold zlen. rewrite Nat2Z.id. apply firstn_all.
Qed.

Theorem data_before_fin c b ls y t :
  cfg_ok c -> forallb no_inject ls = true ->
  let s := run c (init_sys b) ls in
  sub_bound s ->
  end_of s y = ELive t -> fin_consumed (st t) = true ->
  delivered s y ++ in_text t = sub_of s (other y).
Proof.
  intros Hc Hl s Hb El Hfc. pose proof (reachable_inv c b ls Hc Hl Hb) as HI. fold s in HI.
  eapply data_before_fin_of_inv; eassumption.
Qed.

(* once the FIN has been consumed the peer can never extend its stream again *)
Lemma fin_consumed_frozen c s y t : SysInv c s ->
  end_of s y = ELive t -> fin_consumed (st t) = true ->
  match end_of s (other y) with
  | ELive t' => finq t' = true /\ accepts_send (st t') = false
  | EDead => True
  | _ => False
  end.
Proof.
  intros HI El Hfc. pose proof HI as (P & W & E & N).
  specialize (E y). rewrite EndInv_eq, El in E. destruct E as [_ (R1 & R2 & R3)].
  assert (Hss : state_eqb (st t) SynSent = false) by (destruct (st t); try discriminate Hfc; reflexivity).
  rewrite Hss in R3. destruct R3 as (_ & _ & _ & _ & R7).
  destruct (R7 Hfc) as [Hfr _]. rewrite pv_of_eq in Hfr.
  destruct (end_of s (other y)); cbn [pv_of_end pv_frozen my_pv] in Hfr; try discriminate Hfr; auto.
  split; [exact Hfr|]. unfold finq in Hfr. apply andb_prop in Hfr. destruct Hfr as [Hcl _].
  destruct (st t0); try discriminate Hcl; reflexivity.
Qed.
