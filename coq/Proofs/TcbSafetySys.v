(* The closed two-endpoint system: every primitive operation (open, send,
   recv, close, emit, tick, arrival, drop, dup, fair rounds) preserves SysInv. *)
From Elvis Require Import Model.Base Model.U32 Model.Tcb Model.TcpNet
  Proofs.U32Facts Proofs.TcbSafetyDefs Proofs.TcbSafetyBase Proofs.TcbSafetySnd
  Proofs.TcbSafetyRcv Proofs.TcbSafetyArr.
From Coq Require Import ZifyBool.
Local Open Scope Z_scope.
Ltac Zify.zify_post_hook ::= Z.div_mod_to_equations.

(* ---------- projections of updated systems ---------- *)
Ltac sd := intros; repeat match goal with x : side |- _ => destruct x end; reflexivity.

Lemma other_other x : other (other x) = x. Proof. sd. Qed.
Lemma side_cases x z : z = x \/ z = other x. Proof. destruct x, z; auto. Qed.

Lemma end_set_end s x e : end_of (set_end s x e) x = e. Proof. sd. Qed.
Lemma end_set_end_o s x e : end_of (set_end s x e) (other x) = end_of s (other x). Proof. sd. Qed.
Lemma net_set_end s x e y : net_of (set_end s x e) y = net_of s y. Proof. sd. Qed.
Lemma sub_set_end s x e y : sub_of (set_end s x e) y = sub_of s y. Proof. sd. Qed.
Lemma del_set_end s x e y : del_of (set_end s x e) y = del_of s y. Proof. sd. Qed.
Lemma pan_set_end s x e : panicked (set_end s x e) = panicked s. Proof. sd. Qed.

Lemma net_set_net s x n : net_of (set_net s x n) x = n. Proof. sd. Qed.
Lemma net_set_net_o s x n : net_of (set_net s x n) (other x) = net_of s (other x). Proof. sd. Qed.
Lemma end_set_net s x n y : end_of (set_net s x n) y = end_of s y. Proof. sd. Qed.
Lemma sub_set_net s x n y : sub_of (set_net s x n) y = sub_of s y. Proof. sd. Qed.
Lemma del_set_net s x n y : del_of (set_net s x n) y = del_of s y. Proof. sd. Qed.
Lemma pan_set_net s x n : panicked (set_net s x n) = panicked s. Proof. sd. Qed.

Lemma sub_set_sub s x v : sub_of (set_sub s x v) x = v. Proof. sd. Qed.
Lemma sub_set_sub_o s x v : sub_of (set_sub s x v) (other x) = sub_of s (other x). Proof. sd. Qed.
Lemma end_set_sub s x v y : end_of (set_sub s x v) y = end_of s y. Proof. sd. Qed.
Lemma net_set_sub s x v y : net_of (set_sub s x v) y = net_of s y. Proof. sd. Qed.
Lemma del_set_sub s x v y : del_of (set_sub s x v) y = del_of s y. Proof. sd. Qed.
Lemma pan_set_sub s x v : panicked (set_sub s x v) = panicked s. Proof. sd. Qed.

Lemma del_set_del s x v : del_of (set_del s x v) x = v. Proof. sd. Qed.
Lemma del_set_del_o s x v : del_of (set_del s x v) (other x) = del_of s (other x). Proof. sd. Qed.
Lemma end_set_del s x v y : end_of (set_del s x v) y = end_of s y. Proof. sd. Qed.
Lemma net_set_del s x v y : net_of (set_del s x v) y = net_of s y. Proof. sd. Qed.
Lemma sub_set_del s x v y : sub_of (set_del s x v) y = sub_of s y. Proof. sd. Qed.
Lemma pan_set_del s x v : panicked (set_del s x v) = panicked s. Proof. sd. Qed.

Global Hint Rewrite other_other end_set_end end_set_end_o net_set_end sub_set_end del_set_end pan_set_end
  net_set_net net_set_net_o end_set_net sub_set_net del_set_net pan_set_net
  sub_set_sub sub_set_sub_o end_set_sub net_set_sub del_set_sub pan_set_sub
  del_set_del del_set_del_o end_set_del net_set_del sub_set_del pan_set_del : sysr.

Ltac sysr := unfold delivered; autorewrite with sysr.

(* ---------- the invariant with explicit components ---------- *)
Definition pv_of_end (c : config) (x : side) (e : endpoint) (S : list Z) : pview :=
  match e with
  | ELive t => my_pv (iss_of c x) S t
  | EDead => mkPv (iss_of c x) S (zlen S) true
  | _ => mkPv (iss_of c x) S 0 false
  end.

Definition EndInvP (c : config) (x : side) (e : endpoint) (S D : list Z) (pvp : pview) (Sp : list Z) : Prop :=
  match e with
  | ELive t => SndInv (iss_of c x) (mtu_of c x) S t /\ RcvInv pvp D t
  | EDead => prefix D Sp
  | _ => D = [] /\ S = []
  end.

Lemma pv_of_eq c s x : pv_of c s x = pv_of_end c x (end_of s x) (sub_of s x).
Proof. reflexivity. Qed.
Lemma EndInv_eq c s x :
  EndInv c s x = EndInvP c x (end_of s x) (sub_of s x) (delivered s x) (pv_of c s (other x)) (sub_of s (other x)).
Proof. reflexivity. Qed.

Lemma pv_sub_pv_of c s x : pv_sub (pv_of c s x) = sub_of s x.
Proof. unfold pv_of. destruct (end_of s x); reflexivity. Qed.

Lemma pv_sub_end c x e S : pv_sub (pv_of_end c x e S) = S.
Proof. destruct e; reflexivity. Qed.

Lemma sysinv_update c s s' x :
  SysInv c s -> panicked s' = false ->
  end_of s' (other x) = end_of s (other x) -> sub_of s' (other x) = sub_of s (other x) ->
  del_of s' (other x) = del_of s (other x) ->
  pv_le (pv_of c s x) (pv_of c s' x) -> pv_wf (pv_of c s' x) ->
  EndInvP c x (end_of s' x) (sub_of s' x) (delivered s' x) (pv_of c s (other x)) (sub_of s (other x)) ->
  Forall (seg_inv (pv_of c s' x)) (net_of s' x) ->
  Forall (seg_inv (pv_of c s (other x))) (net_of s' (other x)) ->
  SysInv c s'.
Proof.
  intros (P & W & E & N) P' Ee Es Ed Hle Hwf HE HN HNo.
  assert (Epv : pv_of c s' (other x) = pv_of c s (other x)).
  { rewrite !pv_of_eq, Ee, Es. reflexivity. }
  unfold SysInv. splits; [assumption| | |].
  - intros z. destruct (side_cases x z) as [-> | ->]; [assumption|]. rewrite Epv. apply W.
  - intros z. destruct (side_cases x z) as [-> | ->].
    + rewrite EndInv_eq, Epv, Es. exact HE.
    + specialize (E (other x)). rewrite EndInv_eq in *. rewrite other_other in *.
      unfold delivered in *. rewrite Ee, Es, Ed.
      destruct (end_of s (other x)); cbn [EndInvP] in *.
      * exact E.
      * exact E.
      * destruct E as [E1 E2]. split; [exact E1|].
        eapply RcvInv_mono; [apply W|exact Hle|exact E2].
      * destruct E as [r Hr]. destruct Hle as (_ & (more & Hm) & _).
        rewrite !pv_sub_pv_of in Hm. rewrite Hm, Hr. exists (r ++ more). now rewrite app_assoc.
  - intros z. destruct (side_cases x z) as [-> | ->]; [assumption|]. rewrite Epv. assumption.
Qed.

(* a change that only touches the in-flight segments of x *)
Lemma sysinv_set_net c s x l :
  SysInv c s -> Forall (seg_inv (pv_of c s x)) l -> SysInv c (set_net s x l).
Proof.
  intros HI Hl. pose proof HI as (P & W & E & N).
  assert (Epv : pv_of c (set_net s x l) x = pv_of c s x).
  { rewrite !pv_of_eq. sysr. reflexivity. }
  apply (sysinv_update c s _ x HI); sysr; try reflexivity; try assumption.
  - rewrite Epv. apply pv_le_refl.
  - rewrite Epv. apply W.
  - specialize (E x). rewrite EndInv_eq in E. exact E.
  - rewrite Epv. exact Hl.
  - apply N.
Qed.

(* replacing the live endpoint of x (and possibly growing its stream / deliveries / net) *)
Lemma sysinv_live c s s' x t' :
  SysInv c s -> panicked s' = false ->
  end_of s' (other x) = end_of s (other x) -> sub_of s' (other x) = sub_of s (other x) ->
  del_of s' (other x) = del_of s (other x) -> net_of s' (other x) = net_of s (other x) ->
  end_of s' x = ELive t' ->
  zlen (sub_of s' x) < SEQ_BOUND ->
  pv_le (pv_of c s x) (my_pv (iss_of c x) (sub_of s' x) t') ->
  SndInv (iss_of c x) (mtu_of c x) (sub_of s' x) t' ->
  RcvInv (pv_of c s (other x)) (delivered s' x) t' ->
  (exists extra, net_of s' x = net_of s x ++ extra /\
                 Forall (seg_inv (my_pv (iss_of c x) (sub_of s' x) t')) extra) ->
  SysInv c s'.
Proof.
  intros HI P' Ee Es Ed En El Hb Hle HS HR (extra & Hnet & Hex).
  pose proof HI as (P & W & E & N).
  assert (Epv : pv_of c s' x = my_pv (iss_of c x) (sub_of s' x) t').
  { rewrite pv_of_eq, El. reflexivity. }
  assert (Hu : u32 (iss_of c x)).
  { destruct (W x) as (Hu & _). rewrite pv_of_eq in Hu. destruct (end_of s x); exact Hu. }
  apply (sysinv_update c s s' x HI); try assumption.
  - rewrite Epv. exact Hle.
  - rewrite Epv. eapply SndInv_wf; eassumption.
  - rewrite El. cbn [EndInvP]. split; assumption.
  - rewrite Epv, Hnet. apply Forall_app. split; [|exact Hex].
    eapply Forall_seg_inv_mono; [apply W|exact Hle|apply N].
  - rewrite En. apply N.
Qed.

(* the endpoint of x dies after a final read *)
Lemma RcvInv_prefix pv D t : RcvInv pv D t -> prefix (D ++ in_text t) (pv_sub pv).
Proof.
  intros (R1 & R2 & R3). destruct (state_eqb (st t) SynSent).
  - destruct R3 as [-> ->]. exists (pv_sub pv). reflexivity.
  - destruct R3 as (_ & _ & _ & R6 & _). rewrite R6.
    exists (skipn (Z.to_nat (rcv_n pv t)) (pv_sub pv)). symmetry. apply firstn_skipn.
Qed.

Lemma delivered_final_read s x t :
  delivered (final_read s x t) x = delivered s x ++ in_text t.
Proof.
  unfold final_read. destruct (in_text t) eqn:E; [now rewrite app_nil_r|].
  unfold delivered. rewrite del_set_del. apply concat_snoc.
Qed.

Lemma final_read_other s x t :
  end_of (final_read s x t) = end_of s /\ sub_of (final_read s x t) = sub_of s /\
  net_of (final_read s x t) = net_of s /\ panicked (final_read s x t) = panicked s /\
  del_of (final_read s x t) (other x) = del_of s (other x).
Proof.
  unfold final_read. destruct (in_text t); [auto 10|].
  splits; try reflexivity; try (destruct x; reflexivity).
Qed.

Lemma sysinv_die c s x t t1 :
  SysInv c s -> end_of s x = ELive t ->
  SndInv (iss_of c x) (mtu_of c x) (sub_of s x) t1 ->
  RcvInv (pv_of c s (other x)) (delivered s x) t1 ->
  my_pv (iss_of c x) (sub_of s x) t1 = my_pv (iss_of c x) (sub_of s x) t ->
  SysInv c (set_end (final_read s x t1) x EDead).
Proof.
  intros HI El HS HR Hpv. pose proof HI as (P & W & E & N).
  destruct (final_read_other s x t1) as (F1 & F2 & F3 & F4 & F5).
  set (s' := set_end (final_read s x t1) x EDead).
  assert (Epv : pv_of c s' x = mkPv (iss_of c x) (sub_of s x) (zlen (sub_of s x)) true).
  { subst s'. rewrite pv_of_eq. sysr. rewrite F2. reflexivity. }
  assert (Epv0 : pv_of c s x = my_pv (iss_of c x) (sub_of s x) t1).
  { rewrite pv_of_eq, El. cbn [pv_of_end]. now rewrite Hpv. }
  pose proof (W x) as Wx. rewrite Epv0 in Wx. destruct Wx as (Hu & Hl & Hb & Hfz).
  cbn [my_pv pv_iss pv_sub pv_lim pv_frozen] in *.
  assert (Hle : pv_le (pv_of c s x) (pv_of c s' x)).
  { rewrite Epv, Epv0. unfold pv_le; cbn [my_pv pv_iss pv_sub pv_lim pv_frozen].
    splits; auto; try lia. exists []. now rewrite app_nil_r. }
  apply (sysinv_update c s s' x HI); subst s'; sysr; rewrite ?F1, ?F2, ?F3, ?F4, ?F5; try reflexivity; try assumption.
  - fold (delivered s x). rewrite Epv. unfold pv_wf; cbn [pv_iss pv_sub pv_lim pv_frozen]. splits; auto; lia.
  - cbn [EndInvP]. fold (delivered (final_read s x t1) x). rewrite delivered_final_read.
    rewrite <- (pv_sub_pv_of c s (other x)). apply RcvInv_prefix. exact HR.
  - eapply Forall_seg_inv_mono; [apply W|exact Hle|apply N].
  - apply N.
Qed.
