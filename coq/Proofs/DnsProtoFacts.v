(* Name resolution (property C20): facts about Model/DnsProto.v.
   Part 1: tables, client map, codec facts for requests and responses.
   Part 2: the invariant of the transition system and the property theorems.
   Part 3: trace validation. *)
From Coq Require Import ZifyBool.
From Elvis Require Import Model.Base Model.AppBytes Model.Dns Proofs.AppBytesFacts Proofs.DnsFacts
  Model.DnsProto.
Local Open Scope Z_scope.
Ltac Zify.zify_post_hook ::= Z.div_mod_to_equations.

(* ---- lists of bytes, tables ------------------------------------------------------------- *)
Lemma list_eqb_eq a : forall b, list_eqb a b = true <-> a = b.
Proof.
  induction a as [|x a IH]; intros [|y b]; cbn [list_eqb]; split; intros H;
    try reflexivity; try discriminate.
  - apply andb_prop in H as [H1 H2]. apply IH in H2. f_equal; [lia|exact H2].
  - inversion H; subst. rewrite Z.eqb_refl. cbn [andb]. apply IH. reflexivity.
Qed.
Lemma list_eqb_refl a : list_eqb a a = true.
Proof. apply list_eqb_eq. reflexivity. Qed.
Lemma list_eqb_neq a b : list_eqb a b = false <-> a <> b.
Proof.
  split.
  - intros H E. apply list_eqb_eq in E. congruence.
  - intros H. destruct (list_eqb a b) eqn:E; [|reflexivity]. apply list_eqb_eq in E. contradiction.
Qed.

Lemma tbl_get_insert t n a m :
  tbl_get (tbl_insert t n a) m = if list_eqb n m then Some a else tbl_get t m.
Proof. reflexivity. Qed.
Lemma tbl_get_insert_same t n a : tbl_get (tbl_insert t n a) n = Some a.
Proof. rewrite tbl_get_insert, list_eqb_refl. reflexivity. Qed.
Lemma tbl_get_insert_absent t n a m :
  tbl_get (tbl_insert_absent t n a) m =
  match tbl_get t m with Some v => Some v | None => if list_eqb n m then Some a else None end.
Proof.
  unfold tbl_insert_absent. destruct (tbl_get t n) eqn:E.
  - destruct (tbl_get t m) eqn:F; [reflexivity|].
    destruct (list_eqb n m) eqn:G; [|reflexivity]. apply list_eqb_eq in G. congruence.
  - cbn [tbl_get]. destruct (list_eqb n m) eqn:G.
    + apply list_eqb_eq in G. subst. rewrite E. reflexivity.
    + destruct (tbl_get t m); reflexivity.
Qed.

(* ---- the client map ------------------------------------------------------------------------ *)
Lemma getc_setc_list l c v c' :
  getc_list (setc_list l c v) c' = if c =? c' then v else getc_list l c'.
Proof.
  induction l as [|[k w] l IH]; cbn [setc_list getc_list].
  - destruct (c =? c'); reflexivity.
  - destruct (k =? c) eqn:E; cbn [getc_list].
    + assert (k = c) by lia. subst. destruct (c =? c'); reflexivity.
    + rewrite IH. destruct (k =? c') eqn:F; [|reflexivity].
      assert (E' : (c =? c') = false) by lia. rewrite E'. reflexivity.
Qed.
Lemma getc_setc st c v c' : getc (setc st c v) c' = if c =? c' then v else getc st c'.
Proof. apply getc_setc_list. Qed.
Lemma getc_setc_same st c v : getc (setc st c v) c = v.
Proof. rewrite getc_setc, Z.eqb_refl. reflexivity. Qed.

(* every entry of the map is what getc returns for its key, or it is shadowed; keys stay unique *)
Definition keys_unique (l : list (Z * cstate)) : Prop := NoDup (map fst l).
Lemma setc_list_keys l c v : In c (map fst l) -> map fst (setc_list l c v) = map fst l.
Proof.
  induction l as [|[k w] l IH]; cbn [setc_list map fst In]; [tauto|].
  intros H. destruct (k =? c) eqn:E; cbn [map fst]; [reflexivity|].
  f_equal. apply IH. destruct H; [lia|assumption].
Qed.
Lemma setc_list_keys_new l c v : ~ In c (map fst l) -> map fst (setc_list l c v) = map fst l ++ [c].
Proof.
  induction l as [|[k w] l IH]; cbn [setc_list map fst In app]; [reflexivity|].
  intros H. destruct (k =? c) eqn:E; [exfalso; apply H; left; lia|].
  cbn [map fst]. f_equal. apply IH. tauto.
Qed.
Lemma setc_list_unique l c v : keys_unique l -> keys_unique (setc_list l c v).
Proof.
  unfold keys_unique. intros H. destruct (in_dec Z.eq_dec c (map fst l)) as [I|I].
  - rewrite setc_list_keys by exact I. exact H.
  - rewrite setc_list_keys_new by exact I.
    apply NoDup_incl_NoDup with (l := c :: map fst l).
    + constructor; assumption.
    + rewrite app_length. cbn [length]. lia.
    + intros x Hx. apply in_or_app. cbn [In] in *. destruct Hx; [right; left; assumption|left; assumption].
Qed.
Lemma getc_list_in l c v : keys_unique l -> In (c, v) l -> getc_list l c = v.
Proof.
  unfold keys_unique. induction l as [|[k w] l IH]; cbn [In map fst getc_list]; [tauto|].
  intros U [E|I].
  - inversion E; subst. rewrite Z.eqb_refl. reflexivity.
  - inversion U; subst. destruct (k =? c) eqn:E.
    + exfalso. assert (k = c) by lia. subst. apply H1. apply in_map_iff. exists (c, v). auto.
    + apply IH; assumption.
Qed.

(* ---- requests and responses on the wire ----------------------------------------------------- *)
Lemma name_ok_iff n : name_ok n = true <-> bytes n = true /\ free_of SP n = true /\ utf8_valid n = true.
Proof. unfold name_ok. rewrite !andb_true_iff. tauto. Qed.
Lemma addr_ok_iff a : addr_ok a = true <-> length a = 4%nat /\ bytes a = true.
Proof. unfold addr_ok. rewrite andb_true_iff. split; intros [H1 H2]; split; try assumption; lia. Qed.

Lemma request_wf id n : name_ok n = true -> 0 <= id < 65536 -> dns_wf (create_request id n) = true.
Proof.
  intros N I. apply name_ok_iff in N as (B & F & _).
  unfold dns_wf, dns_header_wf, dns_question_wf, dns_rr_wf, create_request.
  cbn [m_header m_question m_answer d_id d_properties d_qdcount d_ancount d_nscount d_arcount
       q_qname q_qtype q_qclass r_name r_rec_type r_class r_ttl r_rdlength r_rdata].
  rewrite B, F. assert (R : rng 65536 id = true) by (apply rng_iff; lia). rewrite R. reflexivity.
Qed.

Lemma response_wf q a : dns_wf q = true -> addr_ok a = true -> dns_wf (create_response q a) = true.
Proof.
  intros W A. apply addr_ok_iff in A as (L & B).
  destruct q as [[id pr qd an ns ar] [qn qt qc] [nm rt cl ttl rl rdt]].
  unfold dns_wf, dns_header_wf, dns_question_wf, dns_rr_wf, create_response in *.
  cbn [m_header m_question m_answer d_id d_properties d_qdcount d_ancount d_nscount d_arcount
       q_qname q_qtype q_qclass r_name r_rec_type r_class r_ttl r_rdlength r_rdata] in *.
  repeat match goal with H : (_ && _) = true |- _ => apply andb_prop in H as [? ?] end.
  rewrite L. cbn [Z.of_nat Pos.of_succ_nat Pos.succ Z.eqb Pos.eqb].
  repeat match goal with H : _ = true |- _ => rewrite H; clear H end. reflexivity.
Qed.

Lemma wf_bytes m : dns_wf m = true -> bytes (dns_to_message m) = true.
Proof.
  destruct m as [[id pr qd an ns ar] [qn qt qc] [nm rt cl ttl rl rdt]].
  unfold dns_wf, dns_header_wf, dns_question_wf, dns_rr_wf, dns_to_message,
    dns_header_build, dns_question_build, dns_rr_build.
  cbn [m_header m_question m_answer d_id d_properties d_qdcount d_ancount d_nscount d_arcount
       q_qname q_qtype q_qclass r_name r_rec_type r_class r_ttl r_rdlength r_rdata].
  intros W. repeat match goal with H : (_ && _) = true |- _ => apply andb_prop in H as [? ?] end.
  rewrite !bytes_app, !bytes_be16, bytes_be32. cbn [bytes forallb].
  repeat (apply andb_true_intro; split); try assumption; reflexivity.
Qed.

Lemma request_length id n : length (request_bytes id n) = (2 * length n + 32)%nat.
Proof.
  unfold request_bytes, dns_to_message, dns_header_build, dns_question_build, dns_rr_build, create_request.
  cbn [m_header m_question m_answer d_id d_properties d_qdcount d_ancount d_nscount d_arcount
       q_qname q_qtype q_qclass r_name r_rec_type r_class r_ttl r_rdlength r_rdata].
  rewrite !app_length. cbn [length be16 be32]. lia.
Qed.

(* a strict prefix of the encoding of a well-formed message does not decode *)
Lemma truncated_fails m k : dns_wf m = true -> (k < length (dns_to_message m))%nat ->
  exists e, dns_from_bytes (firstn k (dns_to_message m)) = Err e.
Proof.
  intros W K. pose proof (wf_bytes m W) as B.
  assert (Bf : bytes (firstn k (dns_to_message m)) = true).
  { rewrite <- (firstn_skipn k (dns_to_message m)), bytes_app in B. apply andb_prop in B. tauto. }
  destruct (dns_value_or_error _ Bf) as [[[m' rest'] H]|H]; [exfalso|exact H].
  destruct (dns_encode_decode _ _ _ Bf H) as (E & W' & _).
  pose proof (dns_decode_encode m' (rest' ++ skipn k (dns_to_message m)) W') as D.
  rewrite app_assoc, <- E, firstn_skipn in D.
  pose proof (dns_decode_encode m [] W) as D0. rewrite app_nil_r in D0.
  rewrite D0 in D. inversion D as [[Em Er]]. symmetry in Er. apply app_eq_nil in Er as [_ Er].
  rewrite <- Em in Er.
  assert (L : length (skipn k (dns_to_message m)) = 0%nat) by (rewrite Er; reflexivity).
  rewrite skipn_length in L. lia.
Qed.

Lemma sock_recv_fits cfg id n : fits cfg n = true ->
  sock_recv (cfg_recv_cap cfg) (request_bytes id n) = request_bytes id n.
Proof.
  unfold fits, sock_recv. destruct (cfg_recv_cap cfg) as [cap|]; [|reflexivity].
  intros F. apply firstn_all2. rewrite request_length. lia.
Qed.

Lemma decode_request id n : name_ok n = true -> 0 <= id < 65536 ->
  dns_from_bytes (request_bytes id n) = Ok (create_request id n, []).
Proof.
  intros N I. pose proof (dns_decode_encode _ [] (request_wf id n N I)) as D.
  rewrite app_nil_r in D. exact D.
Qed.

(* the server's answer to a query that fits its read *)
Lemma server_respond_fits cfg id n : name_ok n = true -> 0 <= id < 65536 -> fits cfg n = true ->
  server_respond cfg (request_bytes id n) =
  match tbl_get (server_table cfg) n with
  | Some a => Ok (response_bytes id n a)
  | None => Panic 141
  end.
Proof.
  intros N I F. unfold server_respond. rewrite sock_recv_fits by exact F.
  rewrite decode_request by assumption.
  unfold dns_query_name. cbn [create_request m_question q_qname].
  apply name_ok_iff in N as (_ & _ & U). rewrite U. reflexivity.
Qed.

(* ... and to one that does not: the truncated buffer fails to parse and the unwrap of l.61 fires *)
Lemma server_respond_too_long cfg id n : name_ok n = true -> 0 <= id < 65536 -> fits cfg n = false ->
  server_respond cfg (request_bytes id n) = Panic 61.
Proof.
  intros N I F. unfold server_respond, fits, sock_recv in *.
  destruct (cfg_recv_cap cfg) as [cap|]; [|discriminate].
  destruct (truncated_fails (create_request id n) (Z.to_nat cap) (request_wf id n N I)) as [e E].
  { fold (request_bytes id n). rewrite request_length. lia. }
  fold (request_bytes id n) in E. rewrite E. reflexivity.
Qed.

Lemma server_respond_inv cfg id n resp : name_ok n = true -> 0 <= id < 65536 ->
  server_respond cfg (request_bytes id n) = Ok resp ->
  fits cfg n = true /\ exists a, tbl_get (server_table cfg) n = Some a /\ resp = response_bytes id n a.
Proof.
  intros N I H. destruct (fits cfg n) eqn:F.
  - split; [reflexivity|]. rewrite server_respond_fits in H by assumption.
    destruct (tbl_get (server_table cfg) n) as [a|]; [|discriminate].
    exists a. split; [reflexivity|]. inversion H. reflexivity.
  - rewrite server_respond_too_long in H by assumption. discriminate.
Qed.

(* what the resolver makes of the reply to its own query: it stores and returns the address *)
Lemma client_accept_response cache id n a : name_ok n = true -> 0 <= id < 65536 -> addr_ok a = true ->
  client_accept cache n (response_bytes id n a) = Ok (tbl_insert cache n a, a).
Proof.
  intros N I A. unfold client_accept, response_bytes.
  pose proof (dns_decode_encode _ [] (response_wf _ a (request_wf id n N I) A)) as D.
  rewrite app_nil_r in D. rewrite D.
  cbn [create_response create_request m_answer m_header m_question r_name r_rdata].
  pose proof N as N'. apply name_ok_iff in N' as (_ & _ & U). rewrite U.
  apply addr_ok_iff in A as (L & _).
  destruct a as [|a0 [|a1 [|a2 [|a3 [|a4 a]]]]]; try discriminate L.
  rewrite tbl_get_insert_same. reflexivity.
Qed.

(* the echo: the reply the server builds for request_bytes id n decodes to the query's id and name *)
Lemma response_echo id n a : name_ok n = true -> 0 <= id < 65536 -> addr_ok a = true ->
  exists m, dns_from_bytes (response_bytes id n a) = Ok (m, []) /\
            d_id (m_header m) = id /\ d_properties (m_header m) = 32768 /\
            q_qname (m_question m) = n /\ r_name (m_answer m) = n /\ r_rdata (m_answer m) = a.
Proof.
  intros N I A. exists (create_response (create_request id n) a).
  pose proof (dns_decode_encode _ [] (response_wf _ a (request_wf id n N I) A)) as D.
  rewrite app_nil_r in D. split; [exact D|]. repeat split; reflexivity.
Qed.

Lemma query_of_bytes_spec bs id n : query_of_bytes bs = Some (id, n) -> bs = request_bytes id n.
Proof.
  unfold query_of_bytes. destruct (dns_from_bytes bs) as [[m [|x r]]| | |]; try discriminate.
  destruct (list_eqb _ bs) eqn:E; [|discriminate]. intros H. inversion H; subst.
  apply list_eqb_eq in E. symmetry. exact E.
Qed.
Lemma query_of_bytes_request id n : name_ok n = true -> 0 <= id < 65536 ->
  query_of_bytes (request_bytes id n) = Some (id, n).
Proof.
  intros N I. unfold query_of_bytes. rewrite decode_request by assumption.
  cbn [create_request m_header m_question d_id q_qname]. rewrite list_eqb_refl. reflexivity.
Qed.

(* ---- the server's table -------------------------------------------------------------------- *)
Definition table_ok (t : table) : Prop := forall n a, tbl_get t n = Some a -> addr_ok a = true.

Lemma reg_table_ok cfg : records_ok cfg = true -> table_ok (reg_table cfg).
Proof.
  unfold records_ok, reg_table. intros R.
  assert (G : forall l t, forallb (fun r => addr_ok (snd r)) l = true -> table_ok t ->
            table_ok (fold_left (fun t r => tbl_insert t (fst r) (snd r)) l t)).
  { induction l as [|[k v] l IH]; intros t Hl Ht; cbn [fold_left]; [exact Ht|].
    cbn [forallb snd] in Hl. apply andb_prop in Hl as [Hv Hl]. apply IH; [exact Hl|].
    intros n a. rewrite tbl_get_insert. cbn [fst snd]. destruct (list_eqb k n).
    - intros E. inversion E; subst. exact Hv.
    - apply Ht. }
  apply G; [exact R|]. intros n a H. discriminate.
Qed.

Lemma server_table_ok cfg : records_ok cfg = true -> table_ok (server_table cfg).
Proof.
  intros R n a. pose proof (reg_table_ok cfg R) as T. unfold server_table.
  destruct (cfg_builtin_wins cfg).
  - rewrite !tbl_get_insert.
    destruct (list_eqb builtin2_name n); [intros E; inversion E; reflexivity|].
    destruct (list_eqb builtin1_name n); [intros E; inversion E; reflexivity|]. apply T.
  - rewrite !tbl_get_insert_absent. destruct (tbl_get (reg_table cfg) n) eqn:E.
    + intros H. inversion H; subst. apply (T _ _ E).
    + destruct (list_eqb builtin1_name n); [intros H; inversion H; reflexivity|].
      destruct (list_eqb builtin2_name n); [intros H; inversion H; reflexivity|]. discriminate.
Qed.

(* registered records are served as registered unless a built-in record overrides them *)
Lemma server_table_registered cfg n a : tbl_get (reg_table cfg) n = Some a ->
  cfg_builtin_wins cfg = false \/ (n <> builtin1_name /\ n <> builtin2_name) ->
  tbl_get (server_table cfg) n = Some a.
Proof.
  intros H D. unfold server_table. destruct (cfg_builtin_wins cfg).
  - destruct D as [D|[D1 D2]]; [discriminate|]. rewrite !tbl_get_insert.
    assert (E2 : list_eqb builtin2_name n = false) by (apply list_eqb_neq; congruence).
    assert (E1 : list_eqb builtin1_name n = false) by (apply list_eqb_neq; congruence).
    rewrite E2, E1. exact H.
  - rewrite !tbl_get_insert_absent, H. reflexivity.
Qed.

(* SocketAPI::get_ephemeral_port hands out increasing, hence pairwise distinct, ports until the
   u16 counter overflows *)
Lemma ephemeral_port_fresh k p k' : ephemeral_port k = Ok (p, k') -> p = k /\ k' = k + 1 /\ k' <= 65535.
Proof. unfold ephemeral_port. destruct (65535 <? k + 1) eqn:E; intros H; inversion H. lia. Qed.
Lemma ephemeral_port_overflow : ephemeral_port 65535 = Panic 2096.
Proof. reflexivity. Qed.

(* ======================================================================================== *)
(* Part 2: the invariant                                                                     *)
(* ======================================================================================== *)

Definition owed_count (n : name) (l : list name) : Z :=
  Z.of_nat (length (filter (fun x => list_eqb x n) l)).
Definition has_R (c : Z) (n : name) (tr : list event) : bool := existsb (is_R c n) tr.

Lemma getc_mkS l a d c : getc (mkS l a d) c = getc_list l c.
Proof. reflexivity. Qed.

Lemma replay_app cfg tr1 : forall st tr2,
  replay cfg st (tr1 ++ tr2) =
  match replay cfg st tr1 with Some s => replay cfg s tr2 | None => None end.
Proof.
  induction tr1 as [|e tr1 IH]; intros st tr2; cbn [app replay]; [reflexivity|].
  destruct (step cfg st e); [apply IH|reflexivity].
Qed.
Lemma replay_snoc cfg st tr e :
  replay cfg st (tr ++ [e]) = match replay cfg st tr with Some s => step cfg s e | None => None end.
Proof.
  rewrite replay_app. destruct (replay cfg st tr); [|reflexivity].
  cbn [replay]. destruct (step cfg s e); reflexivity.
Qed.

(* ---- counting along a trace ---- *)
Lemma count_Q_snoc c n tr e :
  count_Q c n (tr ++ [e]) = count_Q c n tr + (if is_Q c n e then 1 else 0).
Proof.
  unfold count_Q. rewrite filter_app, app_length. cbn [filter].
  destruct (is_Q c n e); cbn [length]; lia.
Qed.

Lemma early_lookups_snoc c n tr e :
  early_lookups c n (tr ++ [e]) =
  if has_R c n tr then early_lookups c n tr
  else if is_R c n e then early_lookups c n tr
  else early_lookups c n tr + (if is_L c n e then 1 else 0).
Proof.
  unfold has_R. induction tr as [|x tr IH]; cbn [app early_lookups existsb orb].
  - destruct (is_R c n e); [reflexivity|]. destruct (is_L c n e); reflexivity.
  - destruct (is_R c n x); cbn [orb]; [reflexivity|]. rewrite IH.
    destruct (existsb (is_R c n) tr); [reflexivity|].
    destruct (is_R c n e); [reflexivity|]. lia.
Qed.

Lemma early_lookups_snoc_ge c n tr e : early_lookups c n tr <= early_lookups c n (tr ++ [e]).
Proof.
  rewrite early_lookups_snoc. destruct (has_R c n tr); [lia|].
  destruct (is_R c n e); [lia|]. destruct (is_L c n e); lia.
Qed.
Lemma early_lookups_snoc_other c n tr e : is_L c n e = false ->
  early_lookups c n (tr ++ [e]) = early_lookups c n tr.
Proof.
  intros H. rewrite early_lookups_snoc, H. destruct (has_R c n tr); [reflexivity|].
  destruct (is_R c n e); lia.
Qed.

Lemma has_R_false c n tr : has_R c n tr = false -> forall h a, ~ In (EvR c h n a) tr.
Proof.
  unfold has_R. intros H h a I. assert (E : existsb (is_R c n) tr = true).
  { apply existsb_exists. exists (EvR c h n a). split; [exact I|].
    cbn [is_R]. rewrite Z.eqb_refl, list_eqb_refl. reflexivity. }
  congruence.
Qed.
Lemma has_R_true c n tr : has_R c n tr = true -> exists h a, In (EvR c h n a) tr.
Proof.
  unfold has_R. intros H. apply existsb_exists in H as [e [I E]].
  destruct e as [| | |c' h n' a|]; cbn [is_R] in E; try discriminate.
  apply andb_prop in E as [E1 E2]. apply list_eqb_eq in E2. assert (c' = c) by lia. subst.
  exists h, a. exact I.
Qed.

(* ---- the small list functions ---- *)
Lemma remove_first_count n l l' : remove_first n l = Some l' ->
  forall m, owed_count m l = owed_count m l' + (if list_eqb n m then 1 else 0).
Proof.
  revert l'. induction l as [|x l IH]; intros l' H m; cbn [remove_first] in H; [discriminate|].
  destruct (list_eqb x n) eqn:E.
  - inversion H; subst. apply list_eqb_eq in E. subst. unfold owed_count. cbn [filter].
    destruct (list_eqb n m); cbn [length]; lia.
  - destruct (remove_first n l) as [r'|] eqn:R; [|discriminate]. inversion H; subst.
    specialize (IH r' eq_refl m). unfold owed_count in *. cbn [filter].
    destruct (list_eqb x m); cbn [length]; lia.
Qed.
Lemma remove_first_in n l l' : remove_first n l = Some l' -> In n l /\ incl l' l.
Proof.
  revert l'. induction l as [|x l IH]; intros l' H; cbn [remove_first] in H; [discriminate|].
  destruct (list_eqb x n) eqn:E.
  - inversion H; subst. apply list_eqb_eq in E. subst. split; [left; reflexivity|]. apply incl_tl, incl_refl.
  - destruct (remove_first n l) as [r'|] eqn:R; [|discriminate]. inversion H; subst.
    destruct (IH r' eq_refl) as [I S]. split; [right; exact I|].
    intros y [Hy|Hy]; [left; exact Hy|right; apply S; exact Hy].
Qed.

Lemma find_sock_in p l k : find_sock p l = Some k -> In k l /\ k_port k = p.
Proof.
  induction l as [|x l IH]; cbn [find_sock]; [discriminate|].
  destruct (k_port x =? p) eqn:E.
  - intros H. inversion H; subst. split; [left; reflexivity|lia].
  - intros H. destruct (IH H). split; [right; assumption|assumption].
Qed.
Lemma find_sock_none p l : find_sock p l = None -> forall k, In k l -> k_port k <> p.
Proof.
  induction l as [|x l IH]; cbn [find_sock In]; [tauto|].
  destruct (k_port x =? p) eqn:E; [discriminate|].
  intros H k [Hk|Hk]; [subst; lia|apply IH; assumption].
Qed.
(* set_sock keeps port, name and id of every socket *)
Lemma set_sock_in p s l k' : In k' (set_sock p s l) ->
  exists k, In k l /\ k_port k' = k_port k /\ k_name k' = k_name k /\ k_id k' = k_id k /\
            (k_status k' = k_status k \/ (k_status k' = s /\ k_port k = p)).
Proof.
  induction l as [|x l IH]; cbn [set_sock In]; [tauto|].
  destruct (k_port x =? p) eqn:E; cbn [In].
  - intros [H|H].
    + subst k'. exists x. cbn [k_port k_name k_id k_status]. repeat split; auto. right. split; [reflexivity|lia].
    + exists k'. repeat split; auto.
  - intros [H|H].
    + subst. exists k'. repeat split; auto.
    + destruct (IH H) as [k [I R]]. exists k. split; [right; exact I|exact R].
Qed.
Lemma set_sock_Forall (P : sock -> Prop) p s l :
  Forall P l -> (forall k, In k l -> k_port k = p -> P k -> P (mkSock (k_port k) (k_name k) (k_id k) s)) ->
  Forall P (set_sock p s l).
Proof.
  induction l as [|x l IH]; intros F H; cbn [set_sock]; [constructor|].
  inversion F; subst. destruct (k_port x =? p) eqn:E.
  - constructor; [|assumption]. apply H; [left; reflexivity|lia|assumption].
  - constructor; [assumption|]. apply IH; [assumption|]. intros k Hk. apply H. right. exact Hk.
Qed.

Lemma find_look_in h l x : find_look h l = Some x -> In x l /\ l_h x = h.
Proof.
  induction l as [|y l IH]; cbn [find_look]; [discriminate|].
  destruct (l_h y =? h) eqn:E.
  - intros H. inversion H; subst. split; [left; reflexivity|lia].
  - intros H. destruct (IH H). split; [right; assumption|assumption].
Qed.
Lemma remove_look_incl h l : incl (remove_look h l) l.
Proof.
  induction l as [|y l IH]; cbn [remove_look]; [apply incl_refl|].
  destruct (l_h y =? h); [apply incl_tl, incl_refl|].
  intros z [Hz|Hz]; [left; exact Hz|right; apply IH; exact Hz].
Qed.

Lemma take_reply_spec cache n a l p cache' : take_reply cache n a l = Some (p, cache') ->
  exists k bytes, In k l /\ k_port k = p /\ k_name k = n /\ k_status k = Answered bytes /\
                  client_accept cache n bytes = Ok (cache', a).
Proof.
  induction l as [|k l IH]; cbn [take_reply]; [discriminate|].
  assert (G : take_reply cache n a l = Some (p, cache') ->
              exists k0 bytes, In k0 (k :: l) /\ k_port k0 = p /\ k_name k0 = n /\
                               k_status k0 = Answered bytes /\ client_accept cache n bytes = Ok (cache', a)).
  { intros H. destruct (IH H) as (k0 & b & I & R). exists k0, b. split; [right; exact I|exact R]. }
  destruct (k_status k) as [|bytes|] eqn:S; try exact G.
  destruct (list_eqb (k_name k) n) eqn:E; [|exact G].
  destruct (client_accept cache n bytes) as [[c1 a1]| | |] eqn:A; try exact G.
  destruct (list_eqb a1 a) eqn:Ea; [|exact G].
  intros H. inversion H; subst. apply list_eqb_eq in E, Ea. subst.
  exists k, bytes. split; [left; reflexivity|]. repeat split; assumption.
Qed.

(* ---- the invariant --------------------------------------------------------------------------
   [good] is a predicate on looked-up names that at least makes them names of the property's
   quantifier; the theorems instantiate it with name_ok, the no-crash theorem with
   "name_ok, fits the server's read, has a record". *)
Section Invariant.
Variable cfg : config.
Variable good : name -> bool.
Hypothesis good_name_ok : forall n, good n = true -> name_ok n = true.
Hypothesis Hrecords : records_ok cfg = true.

Definition sock_ok (k : sock) : Prop :=
  good (k_name k) = true /\ 0 <= k_id k < 65536 /\
  match k_status k with
  | Answered bytes => exists a, tbl_get (server_table cfg) (k_name k) = Some a /\
                                bytes = response_bytes (k_id k) (k_name k) a /\
                                fits cfg (k_name k) = true
  | _ => True
  end.

Definition look_ok (cache : table) (l : lookup) : Prop :=
  good (l_name l) = true /\
  match l_kind l with
  | Hit a => tbl_get (server_table cfg) (l_name l) = Some a /\ tbl_get cache (l_name l) <> None
  | Miss => True
  end.

Definition client_ok (cs : cstate) : Prop :=
  (forall n a, tbl_get (c_cache cs) n = Some a ->
     tbl_get (server_table cfg) n = Some a /\ fits cfg n = true) /\
  Forall (look_ok (c_cache cs)) (c_looks cs) /\
  Forall (fun n => good n = true) (c_owed cs) /\
  Forall sock_ok (c_socks cs).

Definition trace_ok (tr : list event) (st : state) : Prop :=
  (* every return carries the server's address and leaves the name in the cache *)
  (forall c h n a, In (EvR c h n a) tr ->
     tbl_get (server_table cfg) n = Some a /\ tbl_get (c_cache (getc st c)) n <> None) /\
  (* the cache holds only names that were returned *)
  (forall c n, tbl_get (c_cache (getc st c)) n <> None -> exists h a, In (EvR c h n a) tr) /\
  (* queries sent and still owed are covered by lookups that started before the first return *)
  (forall c n, count_Q c n tr + owed_count n (c_owed (getc st c)) <= early_lookups c n tr) /\
  (* every socket sent its query, every answered socket got its reply from the server *)
  (forall c k, In k (c_socks (getc st c)) ->
     In (EvQ c (k_port k) (k_id k) (k_name k)) tr /\
     forall bytes, k_status k = Answered bytes -> In (EvA c (k_port k) bytes) tr).

Definition inv (tr : list event) (st : state) : Prop :=
  keys_unique (s_clients st) /\ (forall c, client_ok (getc st c)) /\ trace_ok tr st.

Lemma client_ok_init : client_ok init_client.
Proof.
  unfold client_ok, init_client. cbn [c_cache c_looks c_owed c_socks].
  split; [intros n a H; discriminate|]. repeat split; constructor.
Qed.

Lemma inv_init : inv [] init_state.
Proof.
  split; [constructor|]. split; [intros c; apply client_ok_init|].
  unfold trace_ok. split; [|split; [|split]].
  - intros c h n a [].
  - intros c n H. exfalso. apply H. reflexivity.
  - intros c n. cbn. lia.
  - intros c k [].
Qed.

Lemma look_ok_mono cache cache' l :
  (forall n, tbl_get cache n <> None -> tbl_get cache' n <> None) -> look_ok cache l -> look_ok cache' l.
Proof.
  intros M [G H]. split; [exact G|]. destruct (l_kind l); [|exact I].
  destruct H as [H1 H2]. split; [exact H1|apply M; exact H2].
Qed.

(* pointwise update of one client *)
Lemma client_ok_setc st c v : (forall c', client_ok (getc st c')) -> client_ok v ->
  forall c', client_ok (getc (setc st c v) c').
Proof. intros H Hv c'. rewrite getc_setc. destruct (c =? c'); [exact Hv|apply H]. Qed.

Lemma setc_unique st c v : keys_unique (s_clients st) -> keys_unique (s_clients (setc st c v)).
Proof. apply setc_list_unique. Qed.

Lemma in_snoc {A} (x : A) l e : In x l -> In x (l ++ [e]).
Proof. intros H. apply in_or_app. left. exact H. Qed.
Lemma in_snoc_last {A} l (e : A) : In e (l ++ [e]).
Proof. apply in_or_app. right. left. reflexivity. Qed.
Lemma in_snoc_inv {A} (x : A) l e : In x (l ++ [e]) -> In x l \/ x = e.
Proof. intros H. apply in_app_or in H as [H|[H|[]]]; [left; exact H|right; symmetry; exact H]. Qed.

(* ---- one lemma per label ---- *)
Lemma inv_step_L tr st c h n st' : inv tr st -> good n = true ->
  step cfg st (EvL c h n) = Some st' -> inv (tr ++ [EvL c h n]) st'.
Proof.
  intros (U & C & T1 & T2 & T3 & T4) G H. unfold step in H.
  destruct (s_dead st); [discriminate|].
  pose proof (C c) as (Cc & Cl & Co & Cs).
  assert (Same : forall v, c_cache v = c_cache (getc st c) -> c_socks v = c_socks (getc st c) ->
            forall c', c_cache (getc (setc st c v) c') = c_cache (getc st c') /\
                       c_socks (getc (setc st c v) c') = c_socks (getc st c')).
  { intros v E1 E2 c'. rewrite getc_setc. destruct (c =? c') eqn:E; [|split; reflexivity].
    assert (c = c') by lia. subst. split; assumption. }
  assert (Frame : forall v, c_cache v = c_cache (getc st c) -> c_socks v = c_socks (getc st c) ->
            (forall c0 h0 n0 a0, In (EvR c0 h0 n0 a0) (tr ++ [EvL c h n]) ->
               tbl_get (server_table cfg) n0 = Some a0 /\
               tbl_get (c_cache (getc (setc st c v) c0)) n0 <> None) /\
            (forall c0 n0, tbl_get (c_cache (getc (setc st c v) c0)) n0 <> None ->
               exists h0 a0, In (EvR c0 h0 n0 a0) (tr ++ [EvL c h n])) /\
            (forall c0 k, In k (c_socks (getc (setc st c v) c0)) ->
               In (EvQ c0 (k_port k) (k_id k) (k_name k)) (tr ++ [EvL c h n]) /\
               forall bytes, k_status k = Answered bytes -> In (EvA c0 (k_port k) bytes) (tr ++ [EvL c h n]))).
  { intros v E1 E2. pose proof (Same v E1 E2) as S. split; [|split].
    - intros c0 h0 n0 a0 I. apply in_snoc_inv in I as [I|I]; [|discriminate].
      rewrite (proj1 (S c0)). apply (T1 _ _ _ _ I).
    - intros c0 n0 I. rewrite (proj1 (S c0)) in I. destruct (T2 _ _ I) as (h0 & a0 & I0).
      exists h0, a0. apply in_snoc. exact I0.
    - intros c0 k I. rewrite (proj2 (S c0)) in I. destruct (T4 _ _ I) as [I1 I2].
      split; [apply in_snoc; exact I1|]. intros bytes Hb. apply in_snoc. apply I2. exact Hb. }
  destruct (tbl_get (c_cache (getc st c)) n) as [a|] eqn:Hc; inversion H; subst st'; clear H.
  - (* hit *)
    set (v := mkC _ _ _ _). split; [apply setc_unique; exact U|]. split.
    + apply client_ok_setc; [exact C|]. unfold client_ok, v. cbn [c_cache c_looks c_owed c_socks].
      split; [exact Cc|]. split; [|split; assumption]. constructor; [|exact Cl].
      split; [exact G|]. cbn [l_kind l_name]. split; [apply (Cc _ _ Hc)|congruence].
    + destruct (Frame v eq_refl eq_refl) as (F1 & F2 & F4).
      split; [exact F1|]. split; [exact F2|]. split; [|exact F4].
      intros c0 n0. rewrite count_Q_snoc. cbn [is_Q].
      assert (O : c_owed (getc (setc st c v) c0) = c_owed (getc st c0)).
      { rewrite getc_setc. destruct (c =? c0) eqn:E; [|reflexivity]. assert (c = c0) by lia. subst. reflexivity. }
      rewrite O. pose proof (T3 c0 n0). pose proof (early_lookups_snoc_ge c0 n0 tr (EvL c h n)). lia.
  - (* miss *)
    set (v := mkC _ _ _ _). split; [apply setc_unique; exact U|]. split.
    + apply client_ok_setc; [exact C|]. unfold client_ok, v. cbn [c_cache c_looks c_owed c_socks].
      split; [exact Cc|]. split; [|split; [constructor; assumption|assumption]].
      constructor; [|exact Cl]. split; [exact G|exact I].
    + destruct (Frame v eq_refl eq_refl) as (F1 & F2 & F4).
      split; [exact F1|]. split; [exact F2|]. split; [|exact F4].
      intros c0 n0. rewrite count_Q_snoc. cbn [is_Q]. rewrite getc_setc.
      destruct (c =? c0) eqn:E.
      * assert (c = c0) by lia. subst c0. unfold v. cbn [c_owed].
        unfold owed_count. cbn [filter]. fold (owed_count n0 (c_owed (getc st c))).
        destruct (list_eqb n n0) eqn:En.
        -- apply list_eqb_eq in En. subst n0. cbn [length].
           assert (R : has_R c n tr = false).
           { destruct (has_R c n tr) eqn:R; [|reflexivity]. apply has_R_true in R as (h0 & a0 & I0).
             destruct (T1 _ _ _ _ I0) as [_ X]. congruence. }
           rewrite early_lookups_snoc, R. cbn [is_R is_L]. rewrite Z.eqb_refl, list_eqb_refl. cbn [andb].
           pose proof (T3 c n). unfold owed_count in *. lia.
        -- pose proof (T3 c n0). pose proof (early_lookups_snoc_ge c n0 tr (EvL c h n)).
           unfold owed_count in *. lia.
      * pose proof (T3 c0 n0). pose proof (early_lookups_snoc_ge c0 n0 tr (EvL c h n)). lia.
Qed.
Lemma set_sock_find_Forall (P : sock -> Prop) p s l k : find_sock p l = Some k -> Forall P l ->
  P (mkSock (k_port k) (k_name k) (k_id k) s) -> Forall P (set_sock p s l).
Proof.
  induction l as [|x l IH]; cbn [find_sock set_sock]; [discriminate|].
  intros Fk F Pk. inversion F; subst. destruct (k_port x =? p).
  - inversion Fk; subst. constructor; assumption.
  - constructor; [assumption|]. apply IH; assumption.
Qed.

Lemma inv_step_Q tr st c p id n st' : inv tr st ->
  step cfg st (EvQ c p id n) = Some st' -> inv (tr ++ [EvQ c p id n]) st'.
Proof.
  intros (U & C & T1 & T2 & T3 & T4) H. unfold step in H.
  destruct (s_dead st); [discriminate|].
  pose proof (C c) as (Cc & Cl & Co & Cs).
  destruct (remove_first n (c_owed (getc st c))) as [owed'|] eqn:Ro; [|discriminate].
  destruct (find_sock p (c_socks (getc st c))) eqn:Fs; [discriminate|].
  destruct ((49152 <=? p) && (p <=? 65535) && (0 <=? id) && (id <? 65536)) eqn:Rg; [|discriminate].
  inversion H; subst st'; clear H.
  destruct (remove_first_in _ _ _ Ro) as [In_n Sub].
  assert (Gn : good n = true) by (rewrite Forall_forall in Co; apply Co; exact In_n).
  set (v := mkC _ _ _ _).
  split; [apply setc_unique; exact U|]. split.
  - apply client_ok_setc; [exact C|]. unfold client_ok, v. cbn [c_cache c_looks c_owed c_socks].
    split; [exact Cc|]. split; [exact Cl|]. split.
    + rewrite Forall_forall in *. intros x Hx. apply Co, Sub, Hx.
    + constructor; [|exact Cs]. unfold sock_ok. cbn [k_name k_id k_status]. split; [exact Gn|]. split; [lia|exact I].
  - split; [|split; [|split]].
    + intros c0 h0 n0 a0 I. apply in_snoc_inv in I as [I|I]; [|discriminate].
      rewrite getc_setc. destruct (c =? c0) eqn:E; [|apply (T1 _ _ _ _ I)].
      assert (c = c0) by lia. subst c0. unfold v. cbn [c_cache]. apply (T1 _ _ _ _ I).
    + intros c0 n0 I. assert (I' : tbl_get (c_cache (getc st c0)) n0 <> None).
      { rewrite getc_setc in I. destruct (c =? c0) eqn:E; [|exact I]. assert (c = c0) by lia. subst c0. exact I. }
      destruct (T2 _ _ I') as (h0 & a0 & I0). exists h0, a0. apply in_snoc. exact I0.
    + intros c0 n0. rewrite count_Q_snoc. cbn [is_Q]. rewrite getc_setc.
      rewrite early_lookups_snoc_other by reflexivity.
      destruct (c =? c0) eqn:E.
      * assert (c = c0) by lia. subst c0. unfold v. cbn [c_owed].
        pose proof (remove_first_count _ _ _ Ro n0) as RC. pose proof (T3 c n0).
        cbn [andb]. destruct (list_eqb n n0); lia.
      * cbn [andb]. pose proof (T3 c0 n0). lia.
    + intros c0 k I. rewrite getc_setc in I. destruct (c =? c0) eqn:E.
      * assert (c = c0) by lia. subst c0. unfold v in I. cbn [c_socks In] in I. destruct I as [I|I].
        -- subst k. cbn [k_port k_id k_name k_status]. split; [apply in_snoc_last|]. intros bytes Hb. discriminate.
        -- destruct (T4 _ _ I) as [I1 I2]. split; [apply in_snoc; exact I1|].
           intros bytes Hb. apply in_snoc. apply I2. exact Hb.
      * destruct (T4 _ _ I) as [I1 I2]. split; [apply in_snoc; exact I1|].
        intros bytes Hb. apply in_snoc. apply I2. exact Hb.
Qed.

Lemma inv_step_A tr st c p bytes st' : inv tr st ->
  step cfg st (EvA c p bytes) = Some st' -> inv (tr ++ [EvA c p bytes]) st'.
Proof.
  intros (U & C & T1 & T2 & T3 & T4) H. unfold step in H.
  destruct (s_dead st); [discriminate|].
  pose proof (C c) as (Cc & Cl & Co & Cs).
  destruct (find_sock p (c_socks (getc st c))) as [k|] eqn:Fs; [|discriminate].
  destruct (k_status k) eqn:Ks; try discriminate.
  destruct (s_accepted st <? conn_limit cfg); [|discriminate].
  destruct (server_respond cfg (request_bytes (k_id k) (k_name k))) as [resp| | |] eqn:Sr; try discriminate.
  destruct (list_eqb resp bytes) eqn:Eb; [|discriminate]. apply list_eqb_eq in Eb. subst resp.
  inversion H; subst st'; clear H.
  destruct (find_sock_in _ _ _ Fs) as [Ik Pk].
  assert (Sk : sock_ok k) by (rewrite Forall_forall in Cs; apply Cs; exact Ik).
  destruct Sk as (Gk & Idk & _).
  destruct (server_respond_inv cfg _ _ _ (good_name_ok _ Gk) Idk Sr) as (Fk & a & Ta & Eb).
  set (v := mkC _ _ _ _).
  assert (G : forall c', getc (mkS (s_clients (setc st c v)) (s_accepted st + 1) None) c' = getc (setc st c v) c')
    by reflexivity.
  split; [cbn [s_clients]; apply setc_unique; exact U|]. split.
  - intros c'. rewrite G. apply client_ok_setc; [exact C|]. unfold client_ok, v. cbn [c_cache c_looks c_owed c_socks].
    split; [exact Cc|]. split; [exact Cl|]. split; [exact Co|].
    apply (set_sock_find_Forall sock_ok _ _ _ _ Fs Cs).
    unfold sock_ok. cbn [k_name k_id k_status]. split; [exact Gk|]. split; [exact Idk|].
    exists a. split; [exact Ta|]. split; [exact Eb|exact Fk].
  - split; [|split; [|split]].
    + intros c0 h0 n0 a0 I. apply in_snoc_inv in I as [I|I]; [|discriminate].
      rewrite G, getc_setc. destruct (c =? c0) eqn:E; [|apply (T1 _ _ _ _ I)].
      assert (c = c0) by lia. subst c0. unfold v. cbn [c_cache]. apply (T1 _ _ _ _ I).
    + intros c0 n0 I. assert (I' : tbl_get (c_cache (getc st c0)) n0 <> None).
      { rewrite G, getc_setc in I. destruct (c =? c0) eqn:E; [|exact I]. assert (c = c0) by lia. subst c0. exact I. }
      destruct (T2 _ _ I') as (h0 & a0 & I0). exists h0, a0. apply in_snoc. exact I0.
    + intros c0 n0. rewrite count_Q_snoc. cbn [is_Q]. rewrite G, getc_setc.
      rewrite early_lookups_snoc_other by reflexivity.
      destruct (c =? c0) eqn:E.
      * assert (c = c0) by lia. subst c0. unfold v. cbn [c_owed]. pose proof (T3 c n0). lia.
      * pose proof (T3 c0 n0). lia.
    + intros c0 k0 I. rewrite G, getc_setc in I. destruct (c =? c0) eqn:E.
      * assert (c = c0) by lia. subst c0. unfold v in I. cbn [c_socks] in I.
        destruct (set_sock_in _ _ _ _ I) as (k1 & I1 & E1 & E2 & E3 & E4).
        destruct (T4 _ _ I1) as [Q1 A1]. rewrite E1, E2, E3.
        split; [apply in_snoc; exact Q1|]. intros b Hb. destruct E4 as [E4|[E4 E5]].
        -- apply in_snoc. apply A1. rewrite <- E4. exact Hb.
        -- rewrite E4 in Hb. inversion Hb; subst b. rewrite E5. apply in_snoc_last.
      * destruct (T4 _ _ I) as [I1 I2]. split; [apply in_snoc; exact I1|].
        intros b Hb. apply in_snoc. apply I2. exact Hb.
Qed.

Lemma inv_step_X tr st site st' : inv tr st ->
  step cfg st (EvX site) = Some st' -> inv (tr ++ [EvX site]) st'.
Proof.
  intros (U & C & T1 & T2 & T3 & T4) H. unfold step in H.
  destruct (s_dead st); [discriminate|].
  destruct (_ || _); [|discriminate]. inversion H; subst st'; clear H.
  assert (G : forall c', getc (mkS (s_clients st) (s_accepted st) (Some site)) c' = getc st c') by reflexivity.
  split; [exact U|]. split; [intros c'; rewrite G; apply C|].
  split; [|split; [|split]].
  - intros c0 h0 n0 a0 I. apply in_snoc_inv in I as [I|I]; [|discriminate]. rewrite G. apply (T1 _ _ _ _ I).
  - intros c0 n0 I. rewrite G in I. destruct (T2 _ _ I) as (h0 & a0 & I0). exists h0, a0. apply in_snoc. exact I0.
  - intros c0 n0. rewrite count_Q_snoc. cbn [is_Q]. rewrite G.
    rewrite early_lookups_snoc_other by reflexivity. pose proof (T3 c0 n0). lia.
  - intros c0 k I. rewrite G in I. destruct (T4 _ _ I) as [I1 I2]. split; [apply in_snoc; exact I1|].
    intros b Hb. apply in_snoc. apply I2. exact Hb.
Qed.

Lemma Forall_incl {A} (P : A -> Prop) l l' : incl l' l -> Forall P l -> Forall P l'.
Proof. intros S F. rewrite Forall_forall in *. intros x Hx. apply F, S, Hx. Qed.

Lemma inv_step_R tr st c h n a st' : inv tr st ->
  step cfg st (EvR c h n a) = Some st' -> inv (tr ++ [EvR c h n a]) st'.
Proof.
  intros (U & C & T1 & T2 & T3 & T4) H. unfold step in H.
  destruct (s_dead st); [discriminate|].
  pose proof (C c) as (Cc & Cl & Co & Cs).
  destruct (find_look h (c_looks (getc st c))) as [l|] eqn:Fl; [|discriminate].
  destruct (list_eqb (l_name l) n) eqn:En; [|discriminate]. apply list_eqb_eq in En.
  destruct (find_look_in _ _ _ Fl) as [Il _].
  assert (Lk : look_ok (c_cache (getc st c)) l) by (rewrite Forall_forall in Cl; apply Cl; exact Il).
  destruct Lk as [Gl Lk].
  (* what both branches share: the new cache keeps every name, has n, and is sound; sockets keep
     port, id, name and the replies they had *)
  assert (Main : forall cache' socks',
    (forall m, tbl_get (c_cache (getc st c)) m <> None -> tbl_get cache' m <> None) ->
    (forall m, tbl_get cache' m <> None -> tbl_get (c_cache (getc st c)) m <> None \/ m = n) ->
    (forall m b, tbl_get cache' m = Some b -> tbl_get (server_table cfg) m = Some b /\ fits cfg m = true) ->
    tbl_get cache' n <> None -> tbl_get (server_table cfg) n = Some a ->
    Forall sock_ok socks' ->
    (forall k', In k' socks' -> exists k, In k (c_socks (getc st c)) /\ k_port k' = k_port k /\
        k_name k' = k_name k /\ k_id k' = k_id k /\
        (k_status k' = k_status k \/ k_status k' = Closed)) ->
    inv (tr ++ [EvR c h n a])
        (setc st c (mkC cache' (remove_look h (c_looks (getc st c))) (c_owed (getc st c)) socks'))).
  { intros cache' socks' Mono Only Sound Hn Sn Fs Ss. set (v := mkC _ _ _ _).
    split; [apply setc_unique; exact U|]. split.
    - apply client_ok_setc; [exact C|]. unfold client_ok, v. cbn [c_cache c_looks c_owed c_socks].
      split; [exact Sound|]. split; [|split; [exact Co|exact Fs]].
      apply (Forall_incl _ _ _ (remove_look_incl h _)).
      rewrite Forall_forall in *. intros x Hx. apply (look_ok_mono _ _ _ Mono). apply Cl. exact Hx.
    - split; [|split; [|split]].
      + intros c0 h0 n0 a0 I. rewrite getc_setc. apply in_snoc_inv in I as [I|I].
        * destruct (T1 _ _ _ _ I) as [S1 S2]. split; [exact S1|].
          destruct (c =? c0) eqn:E; [|exact S2]. assert (c = c0) by lia. subst c0.
          unfold v. cbn [c_cache]. apply Mono. exact S2.
        * inversion I; subst c0 h0 n0 a0. split; [exact Sn|]. rewrite Z.eqb_refl. unfold v. cbn [c_cache]. exact Hn.
      + intros c0 n0 I. rewrite getc_setc in I. destruct (c =? c0) eqn:E.
        * assert (c = c0) by lia. subst c0. unfold v in I. cbn [c_cache] in I.
          destruct (Only _ I) as [I'|I'].
          -- destruct (T2 _ _ I') as (h0 & a0 & I0). exists h0, a0. apply in_snoc. exact I0.
          -- subst n0. exists h, a. apply in_snoc_last.
        * destruct (T2 _ _ I) as (h0 & a0 & I0). exists h0, a0. apply in_snoc. exact I0.
      + intros c0 n0. rewrite count_Q_snoc. cbn [is_Q]. rewrite getc_setc.
        rewrite early_lookups_snoc_other by reflexivity.
        destruct (c =? c0) eqn:E.
        * assert (c = c0) by lia. subst c0. unfold v. cbn [c_owed]. pose proof (T3 c n0). lia.
        * pose proof (T3 c0 n0). lia.
      + intros c0 k0 I. rewrite getc_setc in I. destruct (c =? c0) eqn:E.
        * assert (c = c0) by lia. subst c0. unfold v in I. cbn [c_socks] in I.
          destruct (Ss _ I) as (k1 & I1 & E1 & E2 & E3 & E4).
          destruct (T4 _ _ I1) as [Q1 A1]. rewrite E1, E2, E3.
          split; [apply in_snoc; exact Q1|]. intros b Hb. destruct E4 as [E4|E4].
          -- apply in_snoc. apply A1. rewrite <- E4. exact Hb.
          -- rewrite E4 in Hb. discriminate.
        * destruct (T4 _ _ I) as [I1 I2]. split; [apply in_snoc; exact I1|].
          intros b Hb. apply in_snoc. apply I2. exact Hb. }
  destruct (l_kind l) as [a'|] eqn:Kl.
  - (* cache hit *)
    destruct (list_eqb a' a) eqn:Ea; [|discriminate]. apply list_eqb_eq in Ea. subst a'.
    inversion H; subst st'; clear H. destruct Lk as [Sa Ca]. rewrite En in *.
    apply Main; auto.
    intros k' Ik'. exists k'. repeat split; auto.
  - (* the reply of an answered socket *)
    destruct (take_reply (c_cache (getc st c)) n a (c_socks (getc st c))) as [[p cache']|] eqn:Tr; [|discriminate].
    inversion H; subst st'; clear H.
    destruct (take_reply_spec _ _ _ _ _ _ Tr) as (k & bytes & Ik & Pk & Nk & Sk & Ak).
    assert (Ok_k : sock_ok k) by (rewrite Forall_forall in Cs; apply Cs; exact Ik).
    destruct Ok_k as (Gk & Idk & Rk). rewrite Sk in Rk. destruct Rk as (a0 & Ta0 & Eb & Fk).
    rewrite Nk in *. subst bytes.
    rewrite (client_accept_response _ _ _ _ (good_name_ok _ Gk) Idk (server_table_ok cfg Hrecords _ _ Ta0)) in Ak.
    inversion Ak; subst cache' a0. clear Ak.
    apply Main.
    + intros m Hm. rewrite tbl_get_insert. destruct (list_eqb n m); [discriminate|exact Hm].
    + intros m Hm. rewrite tbl_get_insert in Hm. destruct (list_eqb n m) eqn:E; [|left; exact Hm].
      right. apply list_eqb_eq in E. symmetry. exact E.
    + intros m b Hm. rewrite tbl_get_insert in Hm. destruct (list_eqb n m) eqn:E; [|apply Cc; exact Hm].
      apply list_eqb_eq in E. subst m. inversion Hm; subst b. split; [exact Ta0|exact Fk].
    + rewrite tbl_get_insert_same. discriminate.
    + exact Ta0.
    + apply set_sock_Forall; [exact Cs|]. intros k0 _ _ (G0 & Id0 & _).
      unfold sock_ok. cbn [k_name k_id k_status]. split; [exact G0|]. split; [exact Id0|exact I].
    + intros k' Ik'. destruct (set_sock_in _ _ _ _ Ik') as (k1 & I1 & E1 & E2 & E3 & E4).
      exists k1. split; [exact I1|]. repeat split; try assumption.
      destruct E4 as [E4|[E4 _]]; [left; exact E4|right; exact E4].
Qed.

(* ---- the invariant holds along every trace whose looked-up names are good ---- *)
Definition lookups_good (tr : list event) : Prop := forall c h n, In (EvL c h n) tr -> good n = true.

Lemma inv_step tr st e st' : inv tr st -> (forall c h n, e = EvL c h n -> good n = true) ->
  step cfg st e = Some st' -> inv (tr ++ [e]) st'.
Proof.
  intros I G H. destruct e as [c h n|c p id n|c p bytes|c h n a|site].
  - apply (inv_step_L _ _ _ _ _ _ I (G _ _ _ eq_refl) H).
  - apply (inv_step_Q _ _ _ _ _ _ _ I H).
  - apply (inv_step_A _ _ _ _ _ _ I H).
  - apply (inv_step_R _ _ _ _ _ _ _ I H).
  - apply (inv_step_X _ _ _ _ I H).
Qed.

Lemma inv_run tr : forall st, run cfg tr st -> lookups_good tr -> inv tr st.
Proof.
  unfold run. induction tr as [|e tr IH] using rev_ind; intros st R G.
  - cbn [replay] in R. inversion R; subst. apply inv_init.
  - rewrite replay_snoc in R. destruct (replay cfg init_state tr) as [s|] eqn:Rs; [|discriminate].
    apply (inv_step tr s e st).
    + apply IH; [reflexivity|]. intros c h n I. apply (G c h n). apply in_snoc. exact I.
    + intros c h n E. subst e. apply (G c h n). apply in_snoc_last.
    + exact R.
Qed.

End Invariant.

(* ======================================================================================== *)
(* Part 2b: the property theorems on runs                                                    *)
(* ======================================================================================== *)

(* the looked-up names are names of the property's quantifier *)
Definition names_ok (tr : list event) : Prop := forall c h n, In (EvL c h n) tr -> name_ok n = true.

Lemma inv_run_names cfg tr st : records_ok cfg = true -> run cfg tr st -> names_ok tr ->
  inv cfg name_ok tr st.
Proof. intros R H N. apply inv_run; auto. Qed.

(* ---- C20_answer ---- *)
Lemma answer_thm cfg tr st : records_ok cfg = true -> run cfg tr st -> names_ok tr ->
  forall c h n a, In (EvR c h n a) tr -> tbl_get (server_table cfg) n = Some a.
Proof.
  intros R H N c h n a I. destruct (inv_run_names cfg tr st R H N) as (_ & _ & T1 & _).
  apply (T1 _ _ _ _ I).
Qed.

Lemma answer_registered cfg tr st : records_ok cfg = true -> run cfg tr st -> names_ok tr ->
  forall c h n a a', In (EvR c h n a) tr -> tbl_get (reg_table cfg) n = Some a' ->
  cfg_builtin_wins cfg = false \/ (n <> builtin1_name /\ n <> builtin2_name) -> a = a'.
Proof.
  intros R H N c h n a a' I G D. pose proof (answer_thm cfg tr st R H N c h n a I) as E.
  rewrite (server_table_registered cfg n a' G D) in E. inversion E. reflexivity.
Qed.

(* a name whose query does not fit the server's read is never resolved *)
Lemma returned_fits cfg tr st : records_ok cfg = true -> run cfg tr st -> names_ok tr ->
  forall c h n a, In (EvR c h n a) tr -> fits cfg n = true.
Proof.
  intros R H N c h n a I. destruct (inv_run_names cfg tr st R H N) as (_ & C & T1 & _).
  destruct (T1 _ _ _ _ I) as [_ Hc]. destruct (C c) as (Cc & _).
  destruct (tbl_get (c_cache (getc st c)) n) as [b|] eqn:E; [|congruence].
  apply (Cc _ _ E).
Qed.

(* the code as it is: recv(80), built-in records win *)
Definition as_is (records : list (name * addr)) (conn : Z) : config := mkConfig records (Some 80) true conn.
(* the repaired code *)
Definition repaired (records : list (name * addr)) (conn : Z) : config := mkConfig records None false conn.

Definition name25 : name := repeat 97 25.

(* refutation 1: a 25-byte name is registered; the first query for it kills the process *)
Lemma long_name_crashes :
  let cfg := as_is [(name25, [10; 0; 0; 1])] 4 in
  records_ok cfg = true /\ name_ok name25 = true /\
  tbl_get (reg_table cfg) name25 = Some [10; 0; 0; 1] /\
  exists st, run cfg [EvL 0 0 name25; EvQ 0 49152 7 name25; EvX 61] st /\ s_dead st = Some 61.
Proof.
  cbv zeta. split; [reflexivity|]. split; [reflexivity|]. split; [reflexivity|].
  eexists. split; [vm_compute; reflexivity|reflexivity].
Qed.
Lemma long_name_never_resolved cfg tr st n : records_ok cfg = true -> run cfg tr st -> names_ok tr ->
  cfg_recv_cap cfg = Some 80 -> (25 <= length n)%nat -> forall c h a, ~ In (EvR c h n a) tr.
Proof.
  intros R H N Cap L c h a I. pose proof (returned_fits cfg tr st R H N c h n a I) as F.
  unfold fits in F. rewrite Cap in F. lia.
Qed.
(* the threshold is exact: 24 bytes fit *)
Lemma fits_as_is records conn n : fits (as_is records conn) n = true <-> (length n <= 24)%nat.
Proof. unfold fits, as_is. cbn [cfg_recv_cap]. split; intros H; lia. Qed.
Lemma fits_repaired records conn n : fits (repaired records conn) n = true.
Proof. reflexivity. Qed.

(* refutation 2: a registered record for "google.com" is answered with the built-in address *)
Lemma builtin_overrides_registered :
  let cfg := as_is [(builtin2_name, [1; 2; 3; 4])] 1 in
  records_ok cfg = true /\ name_ok builtin2_name = true /\
  tbl_get (reg_table cfg) builtin2_name = Some [1; 2; 3; 4] /\
  exists st, run cfg [EvL 0 0 builtin2_name; EvQ 0 49152 7 builtin2_name;
                      EvA 0 49152 (response_bytes 7 builtin2_name builtin2_addr);
                      EvR 0 0 builtin2_name builtin2_addr] st /\
             s_dead st = None /\ builtin2_addr <> [1; 2; 3; 4].
Proof.
  cbv zeta. split; [reflexivity|]. split; [reflexivity|]. split; [reflexivity|].
  eexists. split; [vm_compute; reflexivity|]. split; [reflexivity|discriminate].
Qed.

(* the hypotheses of the positive theorems are satisfiable, with a return in the trace *)
Lemma answer_example :
  let cfg := as_is [([97; 46; 98], [10; 0; 0; 1])] 1 in
  let tr := [EvL 0 0 [97; 46; 98]; EvQ 0 49152 7 [97; 46; 98];
             EvA 0 49152 (response_bytes 7 [97; 46; 98] [10; 0; 0; 1]);
             EvR 0 0 [97; 46; 98] [10; 0; 0; 1]; EvL 0 1 [97; 46; 98]; EvR 0 1 [97; 46; 98] [10; 0; 0; 1]] in
  records_ok cfg = true /\ names_ok tr /\ exists st, run cfg tr st.
Proof.
  cbv zeta. split; [reflexivity|]. split.
  - intros c h n I. cbn [In] in I.
    repeat match goal with H : _ \/ _ |- _ => destruct H as [H|H] end;
      try discriminate; try contradiction; inversion I; reflexivity.
  - eexists. vm_compute. reflexivity.
Qed.

(* ---- prefixes of runs ---- *)
Lemma run_split cfg t1 e t2 st : run cfg (t1 ++ e :: t2) st ->
  exists s1 s2, run cfg t1 s1 /\ step cfg s1 e = Some s2 /\ replay cfg s2 t2 = Some st.
Proof.
  unfold run. rewrite replay_app. destruct (replay cfg init_state t1) as [s1|]; [|discriminate].
  cbn [replay]. destruct (step cfg s1 e) as [s2|] eqn:E; [|discriminate].
  intros H. exists s1, s2. auto.
Qed.
Lemma names_ok_prefix t1 t2 : names_ok (t1 ++ t2) -> names_ok t1.
Proof. intros N c h n I. apply (N c h n). apply in_or_app. left. exact I. Qed.

(* ---- C20_echo ---- *)
(* every reply on the network answers a query sent earlier from the socket it is addressed to, and
   carries that query's identifier and name and the server's address for the name *)
Lemma echo_reply cfg t1 c p bytes t2 st : records_ok cfg = true ->
  run cfg (t1 ++ EvA c p bytes :: t2) st -> names_ok (t1 ++ EvA c p bytes :: t2) ->
  exists id n a m, In (EvQ c p id n) t1 /\ dns_from_bytes bytes = Ok (m, []) /\
    d_id (m_header m) = id /\ d_properties (m_header m) = 32768 /\ q_qname (m_question m) = n /\
    r_name (m_answer m) = n /\ r_rdata (m_answer m) = a /\ tbl_get (server_table cfg) n = Some a.
Proof.
  intros R H N. destruct (run_split _ _ _ _ _ H) as (s1 & s2 & H1 & S & _).
  destruct (inv_run_names cfg t1 s1 R H1 (names_ok_prefix _ _ N)) as (_ & C & _ & _ & _ & T4).
  unfold step in S. destruct (s_dead s1); [discriminate|].
  destruct (find_sock p (c_socks (getc s1 c))) as [k|] eqn:Fs; [|discriminate].
  destruct (k_status k); try discriminate.
  destruct (s_accepted s1 <? conn_limit cfg); [|discriminate].
  destruct (server_respond cfg (request_bytes (k_id k) (k_name k))) as [resp| | |] eqn:Sr; try discriminate.
  destruct (list_eqb resp bytes) eqn:Eb; [|discriminate]. apply list_eqb_eq in Eb. subst resp.
  destruct (find_sock_in _ _ _ Fs) as [Ik Pk]. destruct (C c) as (_ & _ & _ & Cs).
  rewrite Forall_forall in Cs. destruct (Cs _ Ik) as (Gk & Idk & _).
  destruct (server_respond_inv cfg _ _ _ Gk Idk Sr) as (_ & a & Ta & Er).
  destruct (response_echo (k_id k) (k_name k) a Gk Idk (server_table_ok cfg R _ _ Ta))
    as (m & D & E1 & E2 & E3 & E4 & E5).
  exists (k_id k), (k_name k), a, m. subst bytes. rewrite <- Pk.
  split; [apply (T4 _ _ Ik)|]. repeat split; assumption.
Qed.

(* the address a lookup returns comes from the cache filled by an earlier return of the same
   name to the same client, or from a reply that was sent to a socket of this client in answer
   to a query for this name, and echoes that query's identifier and name *)
Lemma echo_accept cfg t1 c h n a t2 st : records_ok cfg = true ->
  run cfg (t1 ++ EvR c h n a :: t2) st -> names_ok (t1 ++ EvR c h n a :: t2) ->
  (exists h', In (EvR c h' n a) t1) \/
  (exists p id bytes m, In (EvQ c p id n) t1 /\ In (EvA c p bytes) t1 /\
     dns_from_bytes bytes = Ok (m, []) /\ d_id (m_header m) = id /\
     d_properties (m_header m) = 32768 /\ q_qname (m_question m) = n /\
     r_name (m_answer m) = n /\ r_rdata (m_answer m) = a).
Proof.
  intros R H N. destruct (run_split _ _ _ _ _ H) as (s1 & s2 & H1 & S & _).
  destruct (inv_run_names cfg t1 s1 R H1 (names_ok_prefix _ _ N)) as (_ & C & T1 & T2 & _ & T4).
  unfold step in S. destruct (s_dead s1); [discriminate|].
  destruct (C c) as (Cc & Cl & _ & Cs).
  destruct (find_look h (c_looks (getc s1 c))) as [l|] eqn:Fl; [|discriminate].
  destruct (list_eqb (l_name l) n) eqn:En; [|discriminate]. apply list_eqb_eq in En.
  destruct (find_look_in _ _ _ Fl) as [Il _]. rewrite Forall_forall in Cl.
  destruct (Cl _ Il) as [_ Lk]. destruct (l_kind l) as [a'|].
  - destruct (list_eqb a' a) eqn:Ea; [|discriminate]. apply list_eqb_eq in Ea. subst a'.
    destruct Lk as [Sa Ca]. rewrite En in *. destruct (T2 _ _ Ca) as (h0 & a0 & I0).
    left. exists h0. destruct (T1 _ _ _ _ I0) as [Sa0 _]. rewrite Sa in Sa0. inversion Sa0; subst a0. exact I0.
  - destruct (take_reply (c_cache (getc s1 c)) n a (c_socks (getc s1 c))) as [[p cache']|] eqn:Tr; [|discriminate].
    destruct (take_reply_spec _ _ _ _ _ _ Tr) as (k & bytes & Ik & Pk & Nk & Sk & Ak).
    rewrite Forall_forall in Cs. destruct (Cs _ Ik) as (Gk & Idk & Rk).
    rewrite Sk in Rk. destruct Rk as (a0 & Ta0 & Eb & _). rewrite Nk in *. subst bytes.
    pose proof (server_table_ok cfg R _ _ Ta0) as Oa.
    rewrite (client_accept_response _ _ _ _ Gk Idk Oa) in Ak. inversion Ak; subst cache' a0.
    destruct (response_echo (k_id k) n a Gk Idk Oa) as (m & D & E1 & E2 & E3 & E4 & E5).
    destruct (T4 _ _ Ik) as [Iq Ia]. rewrite Nk, Pk in Iq. specialize (Ia _ Sk). rewrite Pk in Ia.
    right. exists p, (k_id k), (response_bytes (k_id k) n a), m. repeat split; assumption.
Qed.

(* ---- C20_cache_silent ---- *)
Lemma owed_count_nonneg n l : 0 <= owed_count n l.
Proof. unfold owed_count. lia. Qed.

(* a client never sends more queries for a name than it started lookups of that name before the
   name was first returned to it: lookups that start afterwards put nothing on the network *)
Lemma cache_silent_count cfg tr st : records_ok cfg = true -> run cfg tr st -> names_ok tr ->
  forall c n, count_Q c n tr <= early_lookups c n tr.
Proof.
  intros R H N c n. destruct (inv_run_names cfg tr st R H N) as (_ & _ & _ & _ & T3 & _).
  pose proof (T3 c n). pose proof (owed_count_nonneg n (c_owed (getc st c))). lia.
Qed.

(* after a return of n to client c, a further lookup of n by c is a cache hit: it changes no
   socket, no owed query, no cache and not the server; the only thing it can do next is return
   the same address, and it can *)
Lemma cache_silent_hit cfg t1 s1 c h0 n a h : records_ok cfg = true -> run cfg t1 s1 -> names_ok t1 ->
  In (EvR c h0 n a) t1 -> s_dead s1 = None ->
  exists s2, step cfg s1 (EvL c h n) = Some s2 /\
    (forall c', c_owed (getc s2 c') = c_owed (getc s1 c') /\ c_socks (getc s2 c') = c_socks (getc s1 c') /\
                c_cache (getc s2 c') = c_cache (getc s1 c')) /\
    s_accepted s2 = s_accepted s1 /\
    (forall a', step cfg s2 (EvR c h n a') <> None -> a' = a) /\
    step cfg s2 (EvR c h n a) <> None.
Proof.
  intros R H N I D. destruct (inv_run_names cfg t1 s1 R H N) as (_ & C & T1 & _).
  destruct (T1 _ _ _ _ I) as [Sa Ca]. destruct (C c) as (Cc & _).
  destruct (tbl_get (c_cache (getc s1 c)) n) as [b|] eqn:E; [|congruence].
  destruct (Cc _ _ E) as [Sb _]. rewrite Sa in Sb. inversion Sb; subst b.
  unfold step at 1. rewrite D, E. eexists. split; [reflexivity|]. set (v := mkC _ _ _ _).
  split; [|split; [reflexivity|]].
  - intros c'. rewrite getc_setc. destruct (c =? c') eqn:Ec; [|repeat split; reflexivity].
    assert (c = c') by lia. subst c'. repeat split; reflexivity.
  - assert (St : forall a', step cfg (setc s1 c v) (EvR c h n a') =
                 if list_eqb a a' then Some (setc (setc s1 c v) c
                      (mkC (c_cache v) (remove_look h (c_looks v)) (c_owed v) (c_socks v))) else None).
    { intros a'. unfold step. cbn [setc s_dead]. rewrite D. rewrite getc_setc_same.
      unfold v at 1. cbn [c_looks find_look l_h]. rewrite Z.eqb_refl. cbn [l_name l_kind].
      rewrite list_eqb_refl. reflexivity. }
    split.
    + intros a' Hs. rewrite St in Hs. destruct (list_eqb a a') eqn:Ea; [|congruence].
      apply list_eqb_eq in Ea. symmetry. exact Ea.
    + rewrite St, list_eqb_refl. discriminate.
Qed.

(* ---- no crash ---- *)
Definition good3 (cfg : config) (n : name) : bool :=
  name_ok n && fits cfg n && match tbl_get (server_table cfg) n with Some _ => true | None => false end.
Lemma good3_name_ok cfg n : good3 cfg n = true -> name_ok n = true.
Proof. unfold good3. intros H. apply andb_prop in H as [H _]. apply andb_prop in H as [H _]. exact H. Qed.

Lemma existsb_false {A} (f : A -> bool) l : (forall x, In x l -> f x = false) -> existsb f l = false.
Proof.
  intros H. destruct (existsb f l) eqn:E; [|reflexivity].
  apply existsb_exists in E as [x [I F]]. rewrite (H x I) in F. discriminate.
Qed.

Lemma no_panic_step cfg tr st site : records_ok cfg = true -> inv cfg (good3 cfg) tr st ->
  step cfg st (EvX site) = None.
Proof.
  intros R (U & C & _). unfold step. destruct (s_dead st); [reflexivity|].
  assert (Cx : forall x, In x (s_clients st) -> client_ok cfg (good3 cfg) (snd x)).
  { intros [c cs] I. cbn [snd]. rewrite <- (getc_list_in _ _ _ U I). apply C. }
  assert (S : existsb (fun x => server_panics cfg site (snd x)) (s_clients st) = false).
  { apply existsb_false. intros x Ix. destruct (Cx x Ix) as (_ & _ & _ & Cs).
    unfold server_panics. apply existsb_false. intros k Ik. rewrite Forall_forall in Cs.
    destruct (Cs k Ik) as (Gk & Idk & _). destruct (k_status k); try reflexivity.
    unfold good3 in Gk. apply andb_prop in Gk as [Gk Tk]. apply andb_prop in Gk as [Nk Fk].
    rewrite (server_respond_fits cfg _ _ Nk Idk Fk).
    destruct (tbl_get (server_table cfg) (k_name k)); [reflexivity|discriminate]. }
  assert (K : existsb (fun x => client_panics site (snd x)) (s_clients st) = false).
  { apply existsb_false. intros x Ix. destruct (Cx x Ix) as (_ & _ & _ & Cs).
    unfold client_panics. apply existsb_false. intros k Ik. rewrite Forall_forall in Cs.
    destruct (Cs k Ik) as (Gk & Idk & Rk). destruct (k_status k) as [|bytes|]; try reflexivity.
    destruct Rk as (a & Ta & Eb & _). apply existsb_false. intros l _.
    destruct (l_kind l); [reflexivity|]. destruct (list_eqb (l_name l) (k_name k)) eqn:E; [|reflexivity].
    apply list_eqb_eq in E. rewrite E. subst bytes.
    rewrite (client_accept_response _ _ _ _ (good3_name_ok _ _ Gk) Idk (server_table_ok cfg R _ _ Ta)).
    reflexivity. }
  rewrite S, K, andb_false_r. reflexivity.
Qed.

Lemma step_dead cfg st e st' : step cfg st e = Some st' ->
  (forall site, e <> EvX site) -> s_dead st' = s_dead st.
Proof.
  intros H NX. unfold step in H. destruct (s_dead st) eqn:D; [discriminate|].
  assert (F : forall c v, s_dead (setc st c v) = None) by (intros c v; cbn [setc s_dead]; exact D).
  destruct e as [c h n|c p id n|c p bytes|c h n a|site].
  - destruct (tbl_get _ n); inversion H; apply F.
  - destruct (remove_first _ _); [|discriminate]. destruct (find_sock _ _); [discriminate|].
    destruct (_ && _); inversion H; apply F.
  - destruct (find_sock _ _) as [k|]; [|discriminate]. destruct (k_status k); try discriminate.
    destruct (_ <? _); [|discriminate]. destruct (server_respond _ _); try discriminate.
    destruct (list_eqb _ _); inversion H; reflexivity.
  - destruct (find_look _ _) as [l|]; [|discriminate]. destruct (list_eqb _ _); [|discriminate].
    destruct (l_kind l).
    + destruct (list_eqb _ _); inversion H; apply F.
    + destruct (take_reply _ _ _ _) as [[p c']|]; inversion H; apply F.
  - exfalso. apply (NX site). reflexivity.
Qed.

(* if every looked-up name is in the quantifier, has a record and fits the server's read, no task
   panics: the run never dies *)
Lemma no_crash cfg tr : records_ok cfg = true ->
  forall st, run cfg tr st -> (forall c h n, In (EvL c h n) tr -> good3 cfg n = true) ->
  s_dead st = None /\ forall site, ~ In (EvX site) tr.
Proof.
  intros R. unfold run. induction tr as [|e tr IH] using rev_ind; intros st H G.
  - cbn [replay] in H. inversion H; subst. split; [reflexivity|]. intros site [].
  - rewrite replay_snoc in H. destruct (replay cfg init_state tr) as [s|] eqn:Rs; [|discriminate].
    assert (G' : forall c h n, In (EvL c h n) tr -> good3 cfg n = true).
    { intros c h n I. apply (G c h n). apply in_snoc. exact I. }
    destruct (IH s eq_refl G') as [D NX].
    pose proof (inv_run cfg (good3 cfg) (good3_name_ok cfg) R tr s Rs G') as I.
    destruct e as [c h n|c p id n|c p bytes|c h n a|site];
      try (split; [rewrite (step_dead _ _ _ _ H) by (intros s0; discriminate); exact D
                  |intros s0 Is; apply in_snoc_inv in Is as [Is|Is]; [apply (NX s0 Is)|discriminate]]).
    rewrite (no_panic_step cfg tr s site R I) in H. discriminate.
Qed.

(* ======================================================================================== *)
(* Part 3: trace validation                                                                  *)
(* ======================================================================================== *)

Lemma names_okb_spec tr : names_okb tr = true -> names_ok tr.
Proof.
  unfold names_okb, names_ok. intros H c h n I. rewrite forallb_forall in H. apply (H _ I).
Qed.

(* an accepted trace is a trace of the transition system, and its ending is the model's *)
Lemma validate_run cfg tr en finals : validate cfg tr en finals = true ->
  exists st, run cfg tr st /\
    match en with
    | EndDone => s_dead st = None /\ all_returned st = true /\ finals_ok st finals = true
    | EndCrash => exists site, s_dead st = Some site
    | EndHang => s_dead st = None /\ all_returned st = false /\ starved cfg st = true
    end.
Proof.
  unfold validate, run. destruct (replay cfg init_state tr) as [st|]; [|discriminate].
  intros H. exists st. split; [reflexivity|]. destruct en; destruct (s_dead st) as [site|]; try discriminate.
  - apply andb_prop in H as [H1 H2]. auto.
  - exists site. reflexivity.
  - apply andb_prop in H as [H1 H2]. split; [reflexivity|]. split; [|exact H2].
    destruct (all_returned st); [discriminate|reflexivity].
Qed.

Lemma opt_addr_eqb_eq a b : opt_addr_eqb a b = true -> a = b.
Proof.
  destruct a, b; cbn [opt_addr_eqb]; intros H; try discriminate; [|reflexivity].
  apply list_eqb_eq in H. congruence.
Qed.

(* soundness: what acceptance of the implementation's trace establishes about that trace *)
Lemma validate_sound cfg tr en finals : records_ok cfg = true -> names_okb tr = true ->
  validate cfg tr en finals = true ->
  (* every returned address is the server's address for the name *)
  (forall c h n a, In (EvR c h n a) tr -> tbl_get (server_table cfg) n = Some a) /\
  (* every reply answers an earlier query from the socket it is addressed to and echoes it *)
  (forall t1 c p bytes t2, tr = t1 ++ EvA c p bytes :: t2 ->
     exists id n a m, In (EvQ c p id n) t1 /\ dns_from_bytes bytes = Ok (m, []) /\
       d_id (m_header m) = id /\ d_properties (m_header m) = 32768 /\ q_qname (m_question m) = n /\
       r_name (m_answer m) = n /\ r_rdata (m_answer m) = a /\ tbl_get (server_table cfg) n = Some a) /\
  (* every returned address comes from the cache filled by an earlier return or from an echoing reply *)
  (forall t1 c h n a t2, tr = t1 ++ EvR c h n a :: t2 ->
     (exists h', In (EvR c h' n a) t1) \/
     (exists p id bytes m, In (EvQ c p id n) t1 /\ In (EvA c p bytes) t1 /\
        dns_from_bytes bytes = Ok (m, []) /\ d_id (m_header m) = id /\
        d_properties (m_header m) = 32768 /\ q_qname (m_question m) = n /\
        r_name (m_answer m) = n /\ r_rdata (m_answer m) = a)) /\
  (* queries are covered by the lookups that start before the first return *)
  (forall c n, count_Q c n tr <= early_lookups c n tr) /\
  (* after a clean end the caches hold the server's addresses *)
  (en = EndDone -> forall c n a, In (c, n, Some a) finals -> tbl_get (server_table cfg) n = Some a).
Proof.
  intros R Nb V. pose proof (names_okb_spec tr Nb) as N.
  destruct (validate_run cfg tr en finals V) as (st & H & E).
  split; [apply (answer_thm cfg tr st R H N)|].
  split; [intros t1 c p bytes t2 Et; subst tr; apply (echo_reply cfg t1 c p bytes t2 st R H N)|].
  split; [intros t1 c h n a t2 Et; subst tr; apply (echo_accept cfg t1 c h n a t2 st R H N)|].
  split; [apply (cache_silent_count cfg tr st R H N)|].
  intros Ed c n a I. subst en. destruct E as (_ & _ & F).
  unfold finals_ok in F. rewrite forallb_forall in F. specialize (F _ I). cbn beta iota in F.
  apply opt_addr_eqb_eq in F.
  destruct (inv_run_names cfg tr st R H N) as (_ & C & _). destruct (C c) as (Cc & _).
  apply (Cc _ _ F).
Qed.

(* the validator accepts the example trace of answer_example (it is not vacuous) *)
Lemma validate_example :
  let cfg := as_is [([97; 46; 98], [10; 0; 0; 1])] 1 in
  let tr := [EvL 0 0 [97; 46; 98]; EvQ 0 49152 7 [97; 46; 98];
             EvA 0 49152 (response_bytes 7 [97; 46; 98] [10; 0; 0; 1]);
             EvR 0 0 [97; 46; 98] [10; 0; 0; 1]; EvL 0 1 [97; 46; 98]; EvR 0 1 [97; 46; 98] [10; 0; 0; 1]] in
  validate cfg tr EndDone [(0, [97; 46; 98], Some [10; 0; 0; 1]); (1, [97; 46; 98], None)] = true /\
  names_okb tr = true /\
  (* a second query for the cached name is rejected *)
  validate cfg (tr ++ [EvL 0 2 [97; 46; 98]; EvQ 0 49153 8 [97; 46; 98]]) EndHang [] = false.
Proof. cbv zeta. split; [vm_compute; reflexivity|]. split; vm_compute; reflexivity. Qed.

(* ======================================================================================== *)
(* Part 4: progress - a waiting lookup can always be brought to its return                   *)
(* ======================================================================================== *)

Definition is_miss (n : name) (x : lookup) : bool :=
  match l_kind x with Miss => list_eqb (l_name x) n | Hit _ => false end.
Definition miss_count (n : name) (l : list lookup) : Z := Z.of_nat (length (filter (is_miss n) l)).
Definition open_sock (n : name) (k : sock) : bool :=
  list_eqb (k_name k) n && match k_status k with Closed => false | _ => true end.
Definition open_count (n : name) (l : list sock) : Z := Z.of_nat (length (filter (open_sock n) l)).
Definition ports_unique (l : list sock) : Prop := NoDup (map k_port l).

(* every waiting cache miss has its query still owed or a socket that is not closed *)
Definition live_ok (cs : cstate) : Prop :=
  ports_unique (c_socks cs) /\
  forall n, miss_count n (c_looks cs) <= owed_count n (c_owed cs) + open_count n (c_socks cs).
Definition live_inv (st : state) : Prop := forall c, live_ok (getc st c).

Lemma live_init : live_inv init_state.
Proof. intros c. split; [constructor|]. intros n. cbn. lia. Qed.

Lemma find_sock_none_ports p l : find_sock p l = None -> ~ In p (map k_port l).
Proof.
  intros H I. apply in_map_iff in I as (k & E & Ik). apply (find_sock_none _ _ H k Ik E).
Qed.
Lemma find_sock_unique l k : ports_unique l -> In k l -> find_sock (k_port k) l = Some k.
Proof.
  unfold ports_unique. induction l as [|x l IH]; cbn [In map find_sock]; [tauto|].
  intros U [E|I].
  - subst. rewrite Z.eqb_refl. reflexivity.
  - inversion U; subst. destruct (k_port x =? k_port k) eqn:E.
    + exfalso. apply H1. apply in_map_iff. exists k. split; [lia|exact I].
    + apply IH; assumption.
Qed.
Lemma set_sock_ports p s l : map k_port (set_sock p s l) = map k_port l.
Proof.
  induction l as [|x l IH]; cbn [set_sock map]; [reflexivity|].
  destruct (k_port x =? p); cbn [map k_port]; [reflexivity|]. rewrite IH. reflexivity.
Qed.

(* set_sock on the found socket: the count of open sockets per name *)
Lemma open_count_set p s l k : find_sock p l = Some k -> forall n,
  open_count n (set_sock p s l) =
  open_count n l - (if open_sock n k then 1 else 0)
                 + (if open_sock n (mkSock (k_port k) (k_name k) (k_id k) s) then 1 else 0).
Proof.
  induction l as [|x l IH]; cbn [find_sock set_sock]; [discriminate|].
  intros F n. destruct (k_port x =? p) eqn:E.
  - inversion F; subst x. unfold open_count. cbn [filter].
    destruct (open_sock n k); destruct (open_sock n (mkSock _ _ _ s)); cbn [length]; lia.
  - specialize (IH F n). unfold open_count in *. cbn [filter].
    destruct (open_sock n x); cbn [length]; lia.
Qed.

Lemma miss_count_remove h l x : find_look h l = Some x -> forall n,
  miss_count n (remove_look h l) = miss_count n l - (if is_miss n x then 1 else 0).
Proof.
  induction l as [|y l IH]; cbn [find_look remove_look]; [discriminate|].
  intros F n. destruct (l_h y =? h) eqn:E.
  - inversion F; subst y. unfold miss_count. cbn [filter]. destruct (is_miss n x); cbn [length]; lia.
  - specialize (IH F n). unfold miss_count in *. cbn [filter]. destruct (is_miss n y); cbn [length]; lia.
Qed.

Lemma live_step cfg st e st' : live_inv st -> step cfg st e = Some st' -> live_inv st'.
Proof.
  intros L H. unfold step in H. destruct (s_dead st); [discriminate|].
  assert (Set1 : forall c v, live_ok v -> live_inv (setc st c v)).
  { intros c v Hv c'. rewrite getc_setc. destruct (c =? c'); [exact Hv|apply L]. }
  destruct e as [c h n|c p id n|c p bytes|c h n a|site].
  - destruct (L c) as [U M].
    destruct (tbl_get (c_cache (getc st c)) n); inversion H; subst st'; apply Set1;
      (split; [exact U|]); intros m; specialize (M m); cbn [c_looks c_owed c_socks].
    + unfold miss_count in *. cbn [filter is_miss l_kind]. exact M.
    + unfold miss_count, owed_count in *. cbn [filter is_miss l_kind l_name].
      destruct (list_eqb n m); cbn [length]; lia.
  - destruct (L c) as [U M].
    destruct (remove_first n (c_owed (getc st c))) as [owed'|] eqn:Ro; [|discriminate].
    destruct (find_sock p (c_socks (getc st c))) eqn:Fs; [discriminate|].
    destruct (_ && _); [|discriminate]. inversion H; subst st'. apply Set1.
    unfold live_ok. cbn [c_looks c_owed c_socks]. split.
    + unfold ports_unique. cbn [map k_port]. constructor; [apply find_sock_none_ports; exact Fs|exact U].
    + intros m. specialize (M m). pose proof (remove_first_count _ _ _ Ro m) as RC.
      unfold open_count in *. cbn [filter]. unfold open_sock at 1. cbn [k_name k_status].
      rewrite andb_true_r. destruct (list_eqb n m); cbn [length]; lia.
  - destruct (L c) as [U M].
    destruct (find_sock p (c_socks (getc st c))) as [k|] eqn:Fs; [|discriminate].
    destruct (k_status k) eqn:Ks; try discriminate.
    destruct (_ <? _); [|discriminate]. destruct (server_respond _ _); try discriminate.
    destruct (list_eqb _ _); [|discriminate]. inversion H; subst st'.
    intros c'. rewrite getc_mkS. fold (getc (setc st c (mkC (c_cache (getc st c)) (c_looks (getc st c))
      (c_owed (getc st c)) (set_sock p (Answered bytes) (c_socks (getc st c))))) c').
    apply Set1. unfold live_ok. cbn [c_looks c_owed c_socks]. split.
    + unfold ports_unique. rewrite set_sock_ports. exact U.
    + intros m. specialize (M m). rewrite (open_count_set _ _ _ _ Fs m).
      unfold open_sock. cbn [k_name k_status]. rewrite Ks. lia.
  - destruct (L c) as [U M].
    destruct (find_look h (c_looks (getc st c))) as [l|] eqn:Fl; [|discriminate].
    destruct (list_eqb (l_name l) n) eqn:En; [|discriminate]. apply list_eqb_eq in En.
    destruct (l_kind l) as [a'|] eqn:Kl.
    + destruct (list_eqb a' a); [|discriminate]. inversion H; subst st'. apply Set1.
      unfold live_ok. cbn [c_looks c_owed c_socks]. split; [exact U|]. intros m. specialize (M m).
      rewrite (miss_count_remove _ _ _ Fl m). unfold is_miss. rewrite Kl. lia.
    + destruct (take_reply _ n a _) as [[p cache']|] eqn:Tr; [|discriminate].
      inversion H; subst st'. apply Set1. unfold live_ok. cbn [c_looks c_owed c_socks].
      destruct (take_reply_spec _ _ _ _ _ _ Tr) as (k & b & Ik & Pk & Nk & Sk & _).
      pose proof (find_sock_unique _ _ U Ik) as Fk. rewrite Pk in Fk. split.
      * unfold ports_unique. rewrite set_sock_ports. exact U.
      * intros m. specialize (M m). rewrite (miss_count_remove _ _ _ Fl m), (open_count_set _ _ _ _ Fk m).
        unfold is_miss, open_sock. cbn [k_name k_status]. rewrite Kl, Sk, En, Nk, andb_false_r.
        destruct (list_eqb n m); cbn [andb]; lia.
  - destruct (_ || _); [|discriminate]. inversion H; subst st'. intros c'. apply (L c').
Qed.

Lemma live_run cfg tr : forall st, run cfg tr st -> live_inv st.
Proof.
  unfold run. induction tr as [|e tr IH] using rev_ind; intros st R.
  - cbn [replay] in R. inversion R; subst. apply live_init.
  - rewrite replay_snoc in R. destruct (replay cfg init_state tr) as [s|]; [|discriminate].
    apply (live_step cfg s e st (IH s eq_refl) R).
Qed.

Lemma set_sock_member p s l k : find_sock p l = Some k ->
  In (mkSock (k_port k) (k_name k) (k_id k) s) (set_sock p s l).
Proof.
  induction l as [|x l IH]; cbn [find_sock set_sock]; [discriminate|].
  intros F. destruct (k_port x =? p).
  - inversion F; subst x. left. reflexivity.
  - right. apply IH. exact F.
Qed.

Lemma take_reply_exists cache n a l :
  (forall k b, In k l -> k_status k = Answered b -> k_name k = n ->
     exists c', client_accept cache n b = Ok (c', a)) ->
  (exists k b, In k l /\ k_status k = Answered b /\ k_name k = n) ->
  exists p c', take_reply cache n a l = Some (p, c').
Proof.
  induction l as [|x l IH]; intros A (k & b & I & S & N); [destruct I|].
  assert (Tail : (exists k b, In k l /\ k_status k = Answered b /\ k_name k = n) ->
                 exists p c', take_reply cache n a l = Some (p, c')).
  { apply IH. intros k0 b0 I0. apply A. right. exact I0. }
  cbn [take_reply]. destruct (k_status x) as [|bx|] eqn:Sx.
  - apply Tail. destruct I as [I|I]; [subst; congruence|]. exists k, b. auto.
  - destruct (list_eqb (k_name x) n) eqn:Ex.
    + apply list_eqb_eq in Ex. destruct (A x bx (or_introl eq_refl) Sx Ex) as [c' Hc].
      rewrite Hc, list_eqb_refl. eauto.
    + apply Tail. destruct I as [I|I].
      * subst x. apply list_eqb_neq in Ex. contradiction.
      * exists k, b. auto.
  - apply Tail. destruct I as [I|I]; [subst; congruence|]. exists k, b. auto.
Qed.

Section Progress.
Variable cfg : config.
Hypothesis Hrecords : records_ok cfg = true.
Let ginv := inv cfg (good3 cfg).

(* a waiting cache miss with an answered socket for its name returns *)
Lemma enabled_R tr st c h l : ginv tr st -> s_dead st = None ->
  find_look h (c_looks (getc st c)) = Some l -> l_kind l = Miss ->
  (exists k b, In k (c_socks (getc st c)) /\ k_status k = Answered b /\ k_name k = l_name l) ->
  exists a st', step cfg st (EvR c h (l_name l) a) = Some st' /\
                tbl_get (server_table cfg) (l_name l) = Some a.
Proof.
  intros (_ & C & _) D Fl Kl Ex. destruct (C c) as (_ & _ & _ & Cs). rewrite Forall_forall in Cs.
  destruct Ex as (k & b & Ik & Sk & Nk).
  destruct (Cs k Ik) as (Gk & Idk & Rk). rewrite Sk in Rk. destruct Rk as (a & Ta & _ & _).
  rewrite Nk in Ta. exists a.
  destruct (take_reply_exists (c_cache (getc st c)) (l_name l) a (c_socks (getc st c))) as (p & c' & Tr).
  - intros k0 b0 I0 S0 N0. destruct (Cs k0 I0) as (G0 & Id0 & R0). rewrite S0 in R0.
    destruct R0 as (a0 & Ta0 & Eb0 & _). rewrite N0 in *. rewrite Ta in Ta0. inversion Ta0; subst a0 b0.
    eexists. apply client_accept_response; [apply (good3_name_ok cfg); exact G0|exact Id0|].
    apply (server_table_ok cfg Hrecords _ _ Ta).
  - exists k, b. auto.
  - eexists. split; [|exact Ta]. unfold step. rewrite D, Fl, list_eqb_refl, Kl, Tr. reflexivity.
Qed.

(* ... with a socket whose query is on the network: the server answers, then it returns *)
Lemma enabled_AR tr st c h l k : ginv tr st -> live_inv st -> s_dead st = None ->
  find_look h (c_looks (getc st c)) = Some l -> l_kind l = Miss ->
  In k (c_socks (getc st c)) -> k_status k = Sent -> k_name k = l_name l ->
  s_accepted st < conn_limit cfg ->
  exists e a st', replay cfg st [e; EvR c h (l_name l) a] = Some st' /\
                  tbl_get (server_table cfg) (l_name l) = Some a.
Proof.
  intros I L D Fl Kl Ik Sk Nk Acc. pose proof I as (_ & C & _).
  destruct (C c) as (_ & _ & _ & Cs). rewrite Forall_forall in Cs.
  destruct (Cs k Ik) as (Gk & Idk & _). destruct (L c) as [U _].
  pose proof Gk as Gk'. unfold good3 in Gk'. apply andb_prop in Gk' as [Gk' Tk]. apply andb_prop in Gk' as [Nok Fk].
  destruct (tbl_get (server_table cfg) (k_name k)) as [a|] eqn:Ta; [|discriminate].
  set (resp := response_bytes (k_id k) (k_name k) a).
  set (v := mkC (c_cache (getc st c)) (c_looks (getc st c)) (c_owed (getc st c))
                (set_sock (k_port k) (Answered resp) (c_socks (getc st c)))).
  set (st1 := mkS (s_clients (setc st c v)) (s_accepted st + 1) None).
  assert (S1 : step cfg st (EvA c (k_port k) resp) = Some st1).
  { unfold step. rewrite D, (find_sock_unique _ _ U Ik), Sk.
    assert (E : (s_accepted st <? conn_limit cfg) = true) by lia. rewrite E.
    rewrite (server_respond_fits cfg _ _ Nok Idk Fk), Ta. fold resp. rewrite list_eqb_refl. reflexivity. }
  pose proof (inv_step_A cfg (good3 cfg) (good3_name_ok cfg) tr st c (k_port k) resp st1 I S1) as I1.
  assert (G1 : getc st1 c = v) by (change (getc (setc st c v) c = v); apply getc_setc_same).
  destruct (enabled_R _ st1 c h l I1 eq_refl) as (a' & st2 & S2 & Ta').
  - rewrite G1. exact Fl.
  - exact Kl.
  - rewrite G1. unfold v. cbn [c_socks].
    exists (mkSock (k_port k) (k_name k) (k_id k) (Answered resp)), resp.
    split; [|split; [reflexivity|exact Nk]].
    apply set_sock_member. apply (find_sock_unique _ _ U Ik).
  - exists (EvA c (k_port k) resp), a', st2. split; [|exact Ta']. cbn [replay]. rewrite S1, S2. reflexivity.
Qed.
Lemma remove_first_some n l : 0 < owed_count n l -> exists l', remove_first n l = Some l'.
Proof.
  induction l as [|x l IH]; unfold owed_count; cbn [filter remove_first]; [cbn; lia|].
  destruct (list_eqb x n) eqn:E; [eauto|]. fold (owed_count n l). intros H.
  destruct (IH H) as [l' R]. rewrite R. eauto.
Qed.
Lemma open_count_pos n l : 0 < open_count n l ->
  exists k, In k l /\ k_name k = n /\ k_status k <> Closed.
Proof.
  unfold open_count. intros H. destruct (filter (open_sock n) l) as [|k r] eqn:F; [cbn in H; lia|].
  assert (I : In k (filter (open_sock n) l)) by (rewrite F; left; reflexivity).
  apply filter_In in I as [I O]. unfold open_sock in O. apply andb_prop in O as [O1 O2].
  apply list_eqb_eq in O1. exists k. split; [exact I|]. split; [exact O1|].
  destruct (k_status k); congruence.
Qed.
Lemma miss_count_pos l ls : In l ls -> l_kind l = Miss -> 0 < miss_count (l_name l) ls.
Proof.
  intros I K. unfold miss_count.
  assert (F : In l (filter (is_miss (l_name l)) ls)).
  { apply filter_In. split; [exact I|]. unfold is_miss. rewrite K. apply list_eqb_refl. }
  destruct (filter (is_miss (l_name l)) ls); [destruct F|]. cbn [length]. lia.
Qed.

(* from any reachable live state in which the server still accepts and the client has a free
   port, any waiting lookup is brought to its return by at most two further labels (the query
   leaves, the reply leaves) - whatever else is in flight *)
Lemma progress_state tr st c h l : ginv tr st -> live_inv st -> s_dead st = None ->
  find_look h (c_looks (getc st c)) = Some l ->
  s_accepted st < conn_limit cfg ->
  (exists p, 49152 <= p <= 65535 /\ find_sock p (c_socks (getc st c)) = None) ->
  exists evs a st', (length evs <= 2)%nat /\
    replay cfg st (evs ++ [EvR c h (l_name l) a]) = Some st' /\
    tbl_get (server_table cfg) (l_name l) = Some a.
Proof.
  intros I L D Fl Acc (p & Pr & Pf). pose proof I as (_ & C & _).
  destruct (C c) as (_ & Cl & Co & _). destruct (find_look_in _ _ _ Fl) as [Il _].
  rewrite Forall_forall in Cl. destruct (Cl _ Il) as [Gl Lk].
  destruct (l_kind l) as [a|] eqn:Kl.
  - (* answered from the cache *)
    destruct Lk as [Sa _]. exists [], a. eexists. split; [cbn; lia|]. split; [|exact Sa].
    cbn [app replay]. unfold step. rewrite D, Fl, list_eqb_refl, Kl, list_eqb_refl. reflexivity.
  - destruct (L c) as [U M]. specialize (M (l_name l)). pose proof (miss_count_pos _ _ Il Kl) as Mp.
    destruct (Z_lt_le_dec 0 (open_count (l_name l) (c_socks (getc st c)))) as [Op|Op].
    + destruct (open_count_pos _ _ Op) as (k & Ik & Nk & Sk).
      destruct (k_status k) as [|b|] eqn:Ks; [| |congruence].
      * destruct (enabled_AR tr st c h l k I L D Fl Kl Ik Ks Nk Acc) as (e & a & st' & R & Ta).
        exists [e], a, st'. split; [cbn; lia|]. split; [exact R|exact Ta].
      * destruct (enabled_R tr st c h l I D Fl Kl) as (a & st' & R & Ta); [exists k, b; auto|].
        exists [], a, st'. split; [cbn; lia|]. split; [|exact Ta]. cbn [app replay]. rewrite R. reflexivity.
    + (* the query has not left yet *)
      assert (Ow : 0 < owed_count (l_name l) (c_owed (getc st c))) by lia.
      destruct (remove_first_some _ _ Ow) as [owed' Ro].
      set (k := mkSock p (l_name l) 0 Sent).
      set (v := mkC (c_cache (getc st c)) (c_looks (getc st c)) owed' (k :: c_socks (getc st c))).
      assert (S1 : step cfg st (EvQ c p 0 (l_name l)) = Some (setc st c v)).
      { unfold step. rewrite D, Ro, Pf.
        assert (E : ((49152 <=? p) && (p <=? 65535) && (0 <=? 0) && (0 <? 65536)) = true) by lia.
        rewrite E. reflexivity. }
      pose proof (inv_step_Q cfg (good3 cfg) (good3_name_ok cfg) tr st c p 0 (l_name l) _ I S1) as I1.
      pose proof (live_step cfg st _ _ L S1) as L1.
      assert (G1 : getc (setc st c v) c = v) by apply getc_setc_same.
      destruct (enabled_AR _ (setc st c v) c h l k I1 L1) as (e & a & st' & R & Ta).
      * exact D.
      * rewrite G1. exact Fl.
      * exact Kl.
      * rewrite G1. left. reflexivity.
      * reflexivity.
      * reflexivity.
      * exact Acc.
      * exists [EvQ c p 0 (l_name l); e], a, st'. split; [cbn; lia|]. split; [|exact Ta].
        cbn [app replay] in *. rewrite S1. exact R.
Qed.
End Progress.

Lemma progress_run cfg tr st c h l : records_ok cfg = true -> run cfg tr st ->
  (forall c h n, In (EvL c h n) tr -> good3 cfg n = true) ->
  find_look h (c_looks (getc st c)) = Some l ->
  s_accepted st < conn_limit cfg ->
  (exists p, 49152 <= p <= 65535 /\ find_sock p (c_socks (getc st c)) = None) ->
  exists evs a st', (length evs <= 2)%nat /\
    run cfg (tr ++ evs ++ [EvR c h (l_name l) a]) st' /\
    tbl_get (server_table cfg) (l_name l) = Some a.
Proof.
  intros R H G Fl Acc Pf.
  pose proof (inv_run cfg (good3 cfg) (good3_name_ok cfg) R tr st H G) as I.
  destruct (no_crash cfg tr R st H G) as [D _].
  destruct (progress_state cfg R tr st c h l I (live_run cfg tr st H) D Fl Acc Pf) as (evs & a & st' & Le & Rp & Ta).
  exists evs, a, st'. split; [exact Le|]. split; [|exact Ta].
  unfold run in *. rewrite replay_app, H. exact Rp.
Qed.

(* the hypotheses of progress_run hold in the state after a first lookup *)
Lemma progress_example :
  let cfg := as_is [([97; 46; 98], [10; 0; 0; 1])] 1 in
  let n := [97; 46; 98] in
  exists st, run cfg [EvL 0 0 n] st /\ good3 cfg n = true /\
    find_look 0 (c_looks (getc st 0)) = Some (mkLookup 0 n Miss) /\
    s_accepted st < conn_limit cfg /\ find_sock 49152 (c_socks (getc st 0)) = None.
Proof.
  cbv zeta. eexists. split; [vm_compute; reflexivity|]. split; [reflexivity|].
  split; [reflexivity|]. split; reflexivity.
Qed.
