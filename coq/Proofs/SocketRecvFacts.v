(* Facts about Model/SocketRecv.v: the read bound (repaired variant), its refutation on the code as it is,
   conservation of the byte stream by recv/recv_msg/push/accept, the FIFO hand-off argument, datagram
   integrity, routing by (local, remote), and soundness of the trace validators. *)
From Coq Require Import Permutation Sorted.
From Elvis Require Import Model.Base Model.SocketRecv.

Definition optb (o : option bytes) : bytes := match o with Some m => m | None => [] end.

Lemma pending_eq : forall s, pending s = optb (stored s) ++ concat (queue s).
Proof. reflexivity. Qed.

(* ------------------------------------------------------------------ recv_loop *)
Lemma firstn_len_gt : forall (k : nat) (m : bytes), k < length m -> length (firstn k m) = k.
Proof. intros k m H. rewrite firstn_length. lia. Qed.

(* conservation, both variants: the stored remainder is never overwritten because the loop stops as soon as
   one exists (n <= |buf|) *)
Lemma recv_loop_conserves : forall fixed n blk q buf st b st' q' p,
  (st = None \/ n <= length buf) ->
  recv_loop fixed n blk buf st q = (b, st', q', p) ->
  b ++ optb st' ++ concat q' = buf ++ optb st ++ concat q.
Proof.
  intros fixed n blk q. induction q as [|m q IH]; intros buf st b st' q' p Hinv Hrun.
  - cbn [recv_loop] in Hrun. destruct (length buf <? n); inversion Hrun; subst; reflexivity.
  - cbn [recv_loop] in Hrun. destruct (length buf <? n) eqn:Hlt.
    + apply Nat.ltb_lt in Hlt.
      assert (Hst : st = None) by (destruct Hinv as [H|H]; [exact H | lia]). subst st.
      destruct (length m <=? limit fixed n buf) eqn:Hfit.
      * apply IH in Hrun; [| left; reflexivity].
        rewrite Hrun. cbn [optb concat]. rewrite <- !app_assoc. reflexivity.
      * apply Nat.leb_gt in Hfit.
        apply IH in Hrun.
        -- rewrite Hrun. cbn [optb concat app]. rewrite <- !app_assoc.
           f_equal. rewrite !app_assoc. f_equal. apply firstn_skipn.
        -- right. rewrite app_length, firstn_len_gt by exact Hfit.
           unfold limit. destruct fixed; lia.
    + inversion Hrun; subst. reflexivity.
Qed.

(* a parked call has collected nothing *)
Lemma recv_loop_parked : forall fixed n blk q buf st b st' q' p,
  recv_loop fixed n blk buf st q = (b, st', q', p) -> p = true -> b = [].
Proof.
  intros fixed n blk q. induction q as [|m q IH]; intros buf st b st' q' p Hrun Hp.
  - cbn [recv_loop] in Hrun. destruct (length buf <? n); inversion Hrun; subst.
    + apply andb_prop in H3. destruct H3 as [_ H]. destruct b; [reflexivity | discriminate].
    + discriminate.
  - cbn [recv_loop] in Hrun. destruct (length buf <? n).
    + destruct (length m <=? limit fixed n buf); eapply IH in Hrun; eauto; destruct buf; discriminate.
    + inversion Hrun; subst. discriminate.
Qed.

(* the repaired loop never collects more than n *)
Lemma recv_loop_bound : forall n blk q buf st b st' q' p,
  length buf <= n ->
  recv_loop true n blk buf st q = (b, st', q', p) -> length b <= n.
Proof.
  intros n blk q. induction q as [|m q IH]; intros buf st b st' q' p Hle Hrun.
  - cbn [recv_loop] in Hrun. destruct (length buf <? n); inversion Hrun; subst; exact Hle.
  - cbn [recv_loop] in Hrun. destruct (length buf <? n) eqn:Hlt.
    + apply Nat.ltb_lt in Hlt. cbn [limit] in Hrun.
      destruct (length m <=? n - length buf) eqn:Hfit.
      * apply Nat.leb_le in Hfit. eapply IH; [| exact Hrun]. rewrite app_length. lia.
      * apply Nat.leb_gt in Hfit. eapply IH; [| exact Hrun].
        rewrite app_length, firstn_len_gt by exact Hfit. lia.
    + inversion Hrun; subst. exact Hle.
Qed.

(* ------------------------------------------------------------------ recv / recv_msg *)
Lemma recv_stage1 : forall n s buf0 st0,
  match stored s with
  | Some m => if length m <=? n then (m, None) else (firstn n m, Some (skipn n m))
  | None => ([], None)
  end = (buf0, st0) ->
  buf0 ++ optb st0 = optb (stored s) /\ length buf0 <= n /\ (st0 = None \/ n <= length buf0).
Proof.
  intros n s buf0 st0 H. destruct (stored s) as [m|].
  - destruct (length m <=? n) eqn:Hfit; inversion H; subst.
    + apply Nat.leb_le in Hfit. cbn [optb]. rewrite app_nil_r. auto.
    + apply Nat.leb_gt in Hfit. cbn [optb]. rewrite firstn_skipn, firstn_len_gt by exact Hfit. auto.
  - inversion H; subst. cbn. split; [reflexivity|]. split; [lia | left; reflexivity].
Qed.

Lemma recv_conserves : forall fixed n s,
  match recv fixed n s with
  | RData out s' => out ++ pending s' = pending s /\ blocking s' = blocking s
  | RBlock s' => pending s' = pending s /\ blocking s' = blocking s
  | RErr _ => False
  end.
Proof.
  intros fixed n s. unfold recv.
  destruct (match stored s with
            | Some m => if length m <=? n then (m, None) else (firstn n m, Some (skipn n m))
            | None => ([], None) end) as [buf0 st0] eqn:H1.
  apply recv_stage1 in H1. destruct H1 as [Hc [_ Hinv]].
  destruct (recv_loop fixed n (blocking s) buf0 st0 (queue s)) as [[[b st'] q'] p] eqn:H2.
  pose proof (recv_loop_conserves _ _ _ _ _ _ _ _ _ _ Hinv H2) as Hcons.
  destruct p.
  - pose proof (recv_loop_parked _ _ _ _ _ _ _ _ _ _ H2 eq_refl) as Hb. subst b.
    split; [| reflexivity]. rewrite !pending_eq. cbn [stored queue].
    cbn [app] in Hcons. rewrite Hcons, app_assoc, Hc. reflexivity.
  - split; [| reflexivity]. rewrite !pending_eq. cbn [stored queue].
    rewrite Hcons, app_assoc, Hc. reflexivity.
Qed.

Lemma recv_bound : forall n s out s', recv true n s = RData out s' -> length out <= n.
Proof.
  intros n s out s'. unfold recv.
  destruct (match stored s with
            | Some m => if length m <=? n then (m, None) else (firstn n m, Some (skipn n m))
            | None => ([], None) end) as [buf0 st0] eqn:H1.
  apply recv_stage1 in H1. destruct H1 as [_ [Hle _]].
  destruct (recv_loop true n (blocking s) buf0 st0 (queue s)) as [[[b st'] q'] p] eqn:H2.
  pose proof (recv_loop_bound _ _ _ _ _ _ _ _ _ Hle H2) as Hb.
  destruct p; intros H; inversion H; subst. exact Hb.
Qed.

(* the code as it is: recv(4) returns 6 bytes *)
Definition witness_sock : sock := mkSock (Some [1%N; 2%N]) [[3%N; 4%N; 5%N; 6%N]] true.
Lemma recv_orig_exceeds :
  recv false 4 witness_sock = RData [1%N; 2%N; 3%N; 4%N; 5%N; 6%N] (mkSock None [] true).
Proof. vm_compute. reflexivity. Qed.
(* ... and cuts a long message at n although only n - |buf| bytes were missing: recv(4) returns 6 of "abcdefgh.." *)
Definition witness_sock2 : sock := mkSock (Some [1%N; 2%N]) [[3%N; 4%N; 5%N; 6%N; 7%N; 8%N; 9%N]] true.
Lemma recv_orig_exceeds2 :
  recv false 4 witness_sock2 = RData [1%N; 2%N; 3%N; 4%N; 5%N; 6%N] (mkSock (Some [7%N; 8%N; 9%N]) [] true).
Proof. vm_compute. reflexivity. Qed.
Lemma recv_fixed_witness :
  recv true 4 witness_sock = RData [1%N; 2%N; 3%N; 4%N] (mkSock (Some [5%N; 6%N]) [] true).
Proof. vm_compute. reflexivity. Qed.

Lemma recv_msg_conserves : forall s,
  match recv_msg s with
  | RData out s' => out ++ pending s' = pending s /\ blocking s' = blocking s
  | RBlock s' => s' = s
  | RErr s' => s' = s
  end.
Proof.
  intros s. unfold recv_msg. rewrite !pending_eq.
  destruct (stored s) as [m|] eqn:Hs.
  - cbn [stored queue optb blocking app]. auto.
  - destruct (queue s) as [|m q'] eqn:Hq.
    + destruct (blocking s); reflexivity.
    + cbn [stored queue optb blocking app concat]. auto.
Qed.

Lemma push_ok : forall m s s', push m s = Ok s' ->
  pending s' = pending s ++ m /\ stored s' = stored s /\ queue s' = queue s ++ [m] /\ blocking s' = blocking s.
Proof.
  intros m s s'. unfold push. destruct (length (queue s) <? CAP); intros H; inversion H; subst.
  rewrite !pending_eq. cbn [stored queue blocking].
  rewrite concat_app. cbn [concat]. rewrite app_nil_r, app_assoc. auto.
Qed.

Lemma accept_replay_ok : forall pre s, accept_replay pre = Ok s ->
  pending s = concat pre /\ stored s = None /\ queue s = pre.
Proof.
  intros pre s. unfold accept_replay. destruct (length pre <=? CAP); intros H; inversion H; subst.
  rewrite pending_eq. cbn. auto.
Qed.

(* ------------------------------------------------------------------ scripts *)
Definition pushed (evs : list ev) : list bytes :=
  concat (map (fun e => match e with EPush m => [m] | _ => [] end) evs).

Lemma step_conserves : forall fixed e s o s', step fixed e s = (o, s') ->
  obs_bytes o ++ pending s' = pending s ++ concat (match e, o with EPush m, OPushOk => [m] | _, _ => [] end).
Proof.
  intros fixed e s o s' H. destruct e as [m|n| |b]; cbn [step] in H.
  - destruct (push m s) as [s1| | |] eqn:Hp; inversion H; subst; cbn [obs_bytes app concat];
      try (rewrite app_nil_r; reflexivity).
    apply push_ok in Hp. destruct Hp as [Hp _]. rewrite Hp, app_nil_r. reflexivity.
  - pose proof (recv_conserves fixed n s) as Hc.
    destruct (recv fixed n s) as [out s1|s1|s1]; inversion H; subst; cbn [obs_bytes app concat];
      rewrite app_nil_r; tauto.
  - pose proof (recv_msg_conserves s) as Hc.
    destruct (recv_msg s) as [out s1|s1|s1]; inversion H; subst; cbn [obs_bytes app concat];
      rewrite app_nil_r; try tauto; reflexivity.
  - inversion H; subst. cbn [obs_bytes app concat]. rewrite app_nil_r. reflexivity.
Qed.

Lemma accepted_cons : forall e o evs os,
  accepted (e :: evs) (o :: os) =
  match e, o with EPush m, OPushOk => [m] | _, _ => [] end ++ accepted evs os.
Proof.
  intros. unfold accepted. cbn [combine map concat].
  destruct e; reflexivity.
Qed.

Lemma run_cons : forall fixed e evs s,
  run fixed (e :: evs) s =
  let '(o, s1) := step fixed e s in let '(os, s2) := run fixed evs s1 in (o :: os, s2).
Proof. reflexivity. Qed.

Lemma run_length : forall fixed evs s os s', run fixed evs s = (os, s') -> length os = length evs.
Proof.
  intros fixed evs. induction evs as [|e evs IH]; intros s os s' H.
  - inversion H; reflexivity.
  - rewrite run_cons in H. destruct (step fixed e s) as [o s1]. destruct (run fixed evs s1) as [os1 s2] eqn:Hr.
    inversion H; subst. cbn. f_equal. eapply IH; eauto.
Qed.

(* successive reads never lose, duplicate or reorder bytes *)
Lemma run_conserves : forall fixed evs s os s', run fixed evs s = (os, s') ->
  concat (map obs_bytes os) ++ pending s' = pending s ++ concat (accepted evs os).
Proof.
  intros fixed evs. induction evs as [|e evs IH]; intros s os s' H.
  - inversion H; subst. cbn. rewrite app_nil_r. reflexivity.
  - rewrite run_cons in H. destruct (step fixed e s) as [o s1] eqn:Hs.
    destruct (run fixed evs s1) as [os1 s2] eqn:Hr. inversion H; subst.
    apply step_conserves in Hs. apply IH in Hr.
    rewrite accepted_cons. cbn [map concat]. rewrite concat_app, <- app_assoc, Hr, !app_assoc, Hs. reflexivity.
Qed.

Lemma run_bounded : forall evs s os s', run true evs s = (os, s') -> forallb obs_bounded os = true.
Proof.
  induction evs as [|e evs IH]; intros s os s' H.
  - inversion H; reflexivity.
  - rewrite run_cons in H. destruct (step true e s) as [o s1] eqn:Hs.
    destruct (run true evs s1) as [os1 s2] eqn:Hr. inversion H; subst.
    cbn [forallb]. rewrite (IH _ _ _ Hr), andb_true_r.
    destruct e as [m|n| |b]; cbn [step] in Hs.
    + destruct (push m s); inversion Hs; reflexivity.
    + destruct (recv true n s) as [out s3|s3|s3] eqn:Hrecv; inversion Hs; subst; try reflexivity.
      cbn [obs_bounded]. apply Nat.leb_le. eapply recv_bound; eauto.
    + destruct (recv_msg s); inversion Hs; reflexivity.
    + inversion Hs; reflexivity.
Qed.

Lemma accepted_all : forall fixed evs s os s', run fixed evs s = (os, s') ->
  ~ In OPushFull os -> accepted evs os = pushed evs.
Proof.
  intros fixed evs. induction evs as [|e evs IH]; intros s os s' H Hno.
  - inversion H; reflexivity.
  - rewrite run_cons in H. destruct (step fixed e s) as [o s1] eqn:Hs.
    destruct (run fixed evs s1) as [os1 s2] eqn:Hr. inversion H; subst.
    rewrite accepted_cons. unfold pushed. cbn [map concat]. fold (pushed evs).
    rewrite (IH _ _ _ Hr) by (intro Hin; apply Hno; right; exact Hin).
    f_equal. destruct e as [m|n| |b]; try reflexivity.
    cbn [step] in Hs. destruct (push m s); inversion Hs; subst; try reflexivity;
      exfalso; apply Hno; left; reflexivity.
Qed.

(* ------------------------------------------------------------------ the send side *)
Lemma map_snd_combine_seq : forall (ws : list bytes) k, map snd (combine (seq k (length ws)) ws) = ws.
Proof. induction ws as [|w ws IH]; intros k; [reflexivity|]. cbn. f_equal. apply IH. Qed.
Lemma map_fst_combine_seq : forall (ws : list bytes) k, map fst (combine (seq k (length ws)) ws) = seq k (length ws).
Proof. induction ws as [|w ws IH]; intros k; [reflexivity|]. cbn. f_equal. apply IH. Qed.

Lemma outgoing_text_tag : forall ws, outgoing_text (tag ws) = concat ws.
Proof. intros. unfold outgoing_text, tag. rewrite map_snd_combine_seq. reflexivity. Qed.

Definition lt_fst (a b : nat * bytes) : Prop := fst a < fst b.

Lemma ascending_sorted : forall l : list (nat * bytes), ascending (map fst l) = true -> StronglySorted lt_fst l.
Proof.
  induction l as [|a l IH]; intros H; [constructor|].
  assert (Htail : ascending (map fst l) = true).
  { cbn [map ascending] in H. destruct (map fst l) eqn:E; [destruct l; [reflexivity | discriminate]|].
    apply andb_prop in H. tauto. }
  specialize (IH Htail). constructor; [exact IH|].
  destruct l as [|b l]; [constructor|].
  cbn [map ascending] in H. apply andb_prop in H. destruct H as [Hab _]. apply Nat.ltb_lt in Hab.
  constructor; [exact Hab|].
  inversion IH as [|? ? _ Hall]; subst.
  eapply Forall_impl; [| exact Hall]. intros c Hc. unfold lt_fst in *. lia.
Qed.

Lemma seq_sorted_tag : forall (ws : list bytes) k, StronglySorted lt_fst (combine (seq k (length ws)) ws).
Proof.
  induction ws as [|w ws IH]; intros k; [constructor|].
  cbn [length seq combine]. constructor; [apply IH|].
  apply Forall_forall. intros [i x] Hin. apply in_combine_l in Hin. apply in_seq in Hin. unfold lt_fst. cbn. lia.
Qed.

Lemma sorted_perm_eq : forall l1 l2 : list (nat * bytes),
  StronglySorted lt_fst l1 -> StronglySorted lt_fst l2 -> Permutation l1 l2 -> l1 = l2.
Proof.
  induction l1 as [|a t1 IH]; intros l2 H1 H2 Hp.
  - apply Permutation_nil in Hp. subst. reflexivity.
  - destruct l2 as [|b t2]; [apply Permutation_sym, Permutation_nil in Hp; discriminate|].
    inversion H1 as [|? ? Ht1 Ha]; subst. inversion H2 as [|? ? Ht2 Hb]; subst.
    assert (Hab : a = b).
    { assert (Hin1 : In a (b :: t2)) by (eapply Permutation_in; [exact Hp | left; reflexivity]).
      assert (Hin2 : In b (a :: t1)) by (eapply Permutation_in; [apply Permutation_sym; exact Hp | left; reflexivity]).
      destruct Hin1 as [E|Hin1]; [symmetry; exact E|].
      destruct Hin2 as [E|Hin2]; [exact E|].
      rewrite Forall_forall in Ha, Hb. specialize (Ha _ Hin2). specialize (Hb _ Hin1).
      unfold lt_fst in *. lia. }
    subst b. f_equal. apply IH; try assumption. eapply Permutation_cons_inv; exact Hp.
Qed.

(* in-order hand-off of a permutation of the writes is the identity *)
Lemma fifo_arrival_is_tag : forall ws arrival,
  Permutation arrival (tag ws) -> fifo arrival = true -> arrival = tag ws.
Proof.
  intros ws arrival Hp Hf. apply sorted_perm_eq; [apply ascending_sorted; exact Hf | apply seq_sorted_tag | exact Hp].
Qed.

(* without the FIFO hypothesis: the peer's stream is the concatenation of SOME permutation of the writes *)
Lemma any_arrival_is_permutation : forall ws arrival,
  Permutation arrival (tag ws) ->
  exists ws', Permutation ws' ws /\ outgoing_text arrival = concat ws'.
Proof.
  intros ws arrival Hp. exists (map snd arrival). split; [| reflexivity].
  apply (Permutation_map snd) in Hp. unfold tag in Hp. rewrite map_snd_combine_seq in Hp. exact Hp.
Qed.

Lemma reorder_witness :
  let ws := [[1%N]; [2%N]] in
  let arrival := [(1, [2%N]); (0, [1%N])] in
  Permutation arrival (tag ws) /\ fifo arrival = false /\ outgoing_text arrival <> concat ws.
Proof.
  cbn. split; [apply perm_swap|]. split; [reflexivity | discriminate].
Qed.

(* the whole stream path: FIFO hand-off + in-order TCP transfer + accept replay + reads *)
Lemma fifo_stream : forall fixed ws arrival pre evs s0 os s',
  Permutation arrival (tag ws) ->
  fifo arrival = true ->
  concat pre ++ concat (pushed evs) = outgoing_text arrival ->
  accept_replay pre = Ok s0 ->
  run fixed evs s0 = (os, s') ->
  ~ In OPushFull os ->
  concat (map obs_bytes os) ++ pending s' = concat ws.
Proof.
  intros fixed ws arrival pre evs s0 os s' Hp Hf Htcp Hacc Hrun Hno.
  rewrite (run_conserves _ _ _ _ _ Hrun), (accepted_all _ _ _ _ _ Hrun Hno).
  apply accept_replay_ok in Hacc. destruct Hacc as [Hpend _]. rewrite Hpend, Htcp.
  rewrite (fifo_arrival_is_tag _ _ Hp Hf). apply outgoing_text_tag.
Qed.

Lemma fifo_stream_satisfiable :
  exists fixed ws arrival pre evs s0 os s',
    Permutation arrival (tag ws) /\ fifo arrival = true /\
    concat pre ++ concat (pushed evs) = outgoing_text arrival /\
    accept_replay pre = Ok s0 /\ run fixed evs s0 = (os, s') /\ ~ In OPushFull os /\
    concat (map obs_bytes os) = concat ws /\ ws <> [].
Proof.
  exists true, [[1%N; 2%N; 3%N]; [4%N; 5%N]], [(0, [1%N; 2%N; 3%N]); (1, [4%N; 5%N])],
         [[1%N; 2%N]], [ERecv 1; EPush [3%N; 4%N]; ERecv 2; EPush [5%N]; ERecv 9],
         (mkSock None [[1%N; 2%N]] true).
  eexists. eexists. split; [apply Permutation_refl|]. split; [reflexivity|]. split; [reflexivity|].
  split; [reflexivity|]. split; [vm_compute; reflexivity|]. split.
  - intros [H|[H|[H|[H|[H|[]]]]]]; discriminate.
  - split; [reflexivity | discriminate].
Qed.

(* the bounded channel: a 256th unread message is refused and its bytes are gone *)
Lemma overflow_witness :
  let evs := map (fun _ => EPush [7%N]) (seq 0 256) in
  let '(os, s') := run true evs (mkSock None [] true) in
  In OPushFull os /\ length (pending s') = 255 /\ length (concat (pushed evs)) = 256.
Proof. vm_compute. split; [|split; reflexivity]. do 255 right. left. reflexivity. Qed.

(* ------------------------------------------------------------------ datagrams *)
Definition msg_only (e : ev) : bool := match e with ERecv _ => false | _ => true end.

Lemma step_msgs : forall fixed e s o s', step fixed e s = (o, s') ->
  msg_only e = true -> stored s = None ->
  stored s' = None /\
  obs_msgs o ++ queue s' = queue s ++ match e, o with EPush m, OPushOk => [m] | _, _ => [] end.
Proof.
  intros fixed e s o s' H Hm Hst. destruct e as [m|n| |b]; cbn [step] in H; try discriminate.
  - destruct (push m s) as [s1| | |] eqn:Hp; inversion H; subst; cbn [obs_msgs app];
      try (rewrite app_nil_r; auto).
    apply push_ok in Hp. destruct Hp as [_ [Hs [Hq _]]]. rewrite Hs, Hq. auto.
  - unfold recv_msg in H. rewrite Hst in H. destruct (queue s) as [|m q'] eqn:Hq.
    + destruct (blocking s); inversion H; subst; cbn [obs_msgs app]; rewrite Hq; auto.
    + inversion H; subst. cbn [obs_msgs app stored queue]. rewrite app_nil_r. auto.
  - inversion H; subst. cbn [obs_msgs app stored queue]. rewrite app_nil_r. auto.
Qed.

(* a socket read only with recv_msg hands out exactly the queued messages: each whole, once, in order *)
Lemma run_msgs : forall fixed evs s os s', run fixed evs s = (os, s') ->
  forallb msg_only evs = true -> stored s = None ->
  stored s' = None /\ concat (map obs_msgs os) ++ queue s' = queue s ++ accepted evs os.
Proof.
  intros fixed evs. induction evs as [|e evs IH]; intros s os s' H Hm Hst.
  - inversion H; subst. cbn. rewrite app_nil_r. auto.
  - rewrite run_cons in H. destruct (step fixed e s) as [o s1] eqn:Hs.
    destruct (run fixed evs s1) as [os1 s2] eqn:Hr. inversion H; subst.
    cbn [forallb] in Hm. apply andb_prop in Hm. destruct Hm as [Hm1 Hm2].
    destruct (step_msgs _ _ _ _ _ Hs Hm1 Hst) as [Hst1 Hq1].
    destruct (IH _ _ _ Hr Hm2 Hst1) as [Hst2 Hq2]. split; [exact Hst2|].
    rewrite accepted_cons. cbn [map concat]. rewrite <- app_assoc, Hq2, !app_assoc, Hq1. reflexivity.
Qed.

Lemma arrivals_in : forall sent d, In d (arrivals sent) -> In d (map fst sent).
Proof.
  induction sent as [|[x f] sent IH]; intros d H; [exact H|].
  unfold arrivals in H. cbn [map concat] in H. apply in_app_or in H. destruct H as [H|H].
  - left. destruct f; cbn in H; intuition.
  - right. apply IH. exact H.
Qed.

Lemma accepted_in_pushed : forall evs os m, In m (accepted evs os) -> In m (pushed evs).
Proof.
  induction evs as [|e evs IH]; intros os m H.
  - unfold accepted in H. cbn in H. exact H.
  - destruct os as [|o os]; [unfold accepted in H; cbn in H; contradiction|].
    rewrite accepted_cons in H. unfold pushed. cbn [map concat]. fold (pushed evs).
    apply in_app_or in H. apply in_or_app. destruct H as [H|H].
    + left. destruct e; try contradiction. destruct o; try contradiction. exact H.
    + right. eapply IH; exact H.
Qed.

(* every datagram handed to the application is, whole, one of the datagrams the peer sent *)
Lemma datagram_whole : forall fixed sent pre evs s0 os s',
  pre ++ pushed evs = arrivals sent ->
  accept_replay pre = Ok s0 ->
  forallb msg_only evs = true ->
  run fixed evs s0 = (os, s') ->
  (forall d, In d (concat (map obs_msgs os)) -> In d (map fst sent)) /\
  (exists rest, concat (map obs_msgs os) ++ rest = pre ++ accepted evs os).
Proof.
  intros fixed sent pre evs s0 os s' Harr Hacc Hm Hrun.
  apply accept_replay_ok in Hacc. destruct Hacc as [_ [Hst Hq]].
  destruct (run_msgs _ _ _ _ _ Hrun Hm Hst) as [_ Heq]. rewrite Hq in Heq.
  split.
  - intros d Hd. apply arrivals_in. rewrite <- Harr.
    assert (Hin : In d (pre ++ accepted evs os)) by (rewrite <- Heq; apply in_or_app; left; exact Hd).
    apply in_app_or in Hin. apply in_or_app. destruct Hin as [Hin|Hin]; [left; exact Hin|].
    right. eapply accepted_in_pushed; exact Hin.
  - exists (queue s'). exact Heq.
Qed.

(* ------------------------------------------------------------------ routing by (local, remote) *)
Lemma lookup_update_same : forall r v l, lookup r (update r v l) = Some v.
Proof.
  intros r v. induction l as [|[k w] t IH]; cbn [update lookup].
  - rewrite N.eqb_refl. reflexivity.
  - destruct (N.eqb k r) eqn:E; cbn [lookup]; rewrite E; [reflexivity | exact IH].
Qed.
Lemma lookup_update_other : forall r r' v l, r' <> r -> lookup r' (update r v l) = lookup r' l.
Proof.
  intros r r' v l Hne. induction l as [|[k w] t IH]; cbn [update lookup].
  - destruct (N.eqb r r') eqn:E; [apply N.eqb_eq in E; congruence | reflexivity].
  - destruct (N.eqb k r) eqn:E; cbn [lookup].
    + apply N.eqb_eq in E. subst k. destruct (N.eqb r r') eqn:E2; [apply N.eqb_eq in E2; congruence | reflexivity].
    + destruct (N.eqb k r'); [reflexivity | exact IH].
Qed.

(* a message demultiplexed for (local, r) changes the session keyed r and no other *)
Lemma demux_peer_only : forall r m a a' r', demux r m a = Ok a' -> r' <> r ->
  lookup r' (sessions a') = lookup r' (sessions a).
Proof.
  intros r m a a' r' H Hne. unfold demux in H.
  destruct (lookup r (sessions a)) as [[st|s]|].
  - inversion H; subst. cbn [sessions]. apply lookup_update_other; exact Hne.
  - destruct (push m s); cbn [bind] in H; inversion H; subst. cbn [sessions]. apply lookup_update_other; exact Hne.
  - destruct (length (conns a) <? backlog a); inversion H; subst. cbn [sessions]. apply lookup_update_other; exact Hne.
Qed.

Definition sess_msgs (v : option sess) : option (list bytes) :=
  match v with
  | Some (SPending st) => Some st
  | Some (SActive s) => match stored s with None => Some (queue s) | Some _ => None end
  | None => Some []
  end.

(* ... and what it adds there is the whole message at the back *)
Lemma demux_whole : forall r m a a' q, demux r m a = Ok a' ->
  sess_msgs (lookup r (sessions a)) = Some q ->
  sess_msgs (lookup r (sessions a')) = Some (q ++ [m]).
Proof.
  intros r m a a' q H Hq. unfold demux in H.
  destruct (lookup r (sessions a)) as [[st|s]|] eqn:Hl.
  - inversion H; subst. cbn [sessions]. rewrite lookup_update_same. cbn in *. inversion Hq; reflexivity.
  - destruct (push m s) as [s1| | |] eqn:Hp; cbn [bind] in H; inversion H; subst. cbn [sessions].
    rewrite lookup_update_same. apply push_ok in Hp. destruct Hp as [_ [Hs [Hq1 _]]].
    cbn [sess_msgs] in *. rewrite Hs. destruct (stored s); [discriminate|]. inversion Hq; subst. rewrite Hq1. reflexivity.
  - destruct (length (conns a) <? backlog a); inversion H; subst. cbn [sessions].
    rewrite lookup_update_same. cbn in *. inversion Hq; reflexivity.
Qed.

(* accept hands the new socket exactly the messages stored before it existed, in order *)
Lemma accept_replays : forall a r a' st, accept a = AOk r a' ->
  lookup r (sessions a) = Some (SPending st) ->
  exists s, lookup r (sessions a') = Some (SActive s) /\ stored s = None /\ queue s = st /\
            (forall r', r' <> r -> lookup r' (sessions a') = lookup r' (sessions a)).
Proof.
  intros a r a' st H Hl. unfold accept in H. destruct (conns a) as [|r0 c]; [discriminate|].
  destruct (lookup r0 (sessions a)) as [[st0|s0]|] eqn:Hl0.
  - destruct (accept_replay st0) as [s| | |] eqn:Hacc; inversion H; subst.
    rewrite Hl in Hl0. inversion Hl0; subst st0.
    exists s. cbn [sessions]. rewrite lookup_update_same.
    apply accept_replay_ok in Hacc. destruct Hacc as [_ [Hs Hq]].
    repeat split; try assumption. intros r' Hne. apply lookup_update_other; exact Hne.
  - inversion H; subst. rewrite Hl in Hl0. discriminate.
  - discriminate.
Qed.

(* ------------------------------------------------------------------ validators *)
Lemma beq_eq : forall a b, beq a b = true <-> a = b.
Proof.
  induction a as [|x a IH]; destruct b as [|y b]; cbn [beq]; split; intros H; try discriminate; try reflexivity.
  - apply andb_prop in H. destruct H as [H1 H2]. apply N.eqb_eq in H1. apply IH in H2. subst. reflexivity.
  - inversion H; subst. rewrite N.eqb_refl. cbn. apply IH. reflexivity.
Qed.

Lemma validate_stream_sound : forall fixed writes reads, validate_stream fixed writes reads = true ->
  concat (map snd reads) = concat writes /\
  (fixed = true -> Forall (fun r => length (snd r) <= fst r) reads).
Proof.
  intros fixed writes reads H. unfold validate_stream in H. apply andb_prop in H. destruct H as [H1 H2].
  apply beq_eq in H1. split; [exact H1|]. intros Hf. subst fixed. cbn in H2.
  apply Forall_forall. intros r Hin. rewrite forallb_forall in H2. apply Nat.leb_le. apply H2. exact Hin.
Qed.

Lemma strip_prefix_sound : forall w got rest, strip_prefix w got = Some rest -> got = w ++ rest.
Proof.
  induction w as [|x w IH]; intros got rest H; cbn [strip_prefix] in H.
  - inversion H; reflexivity.
  - destruct got as [|y got]; [discriminate|]. destruct (N.eqb x y) eqn:E; [|discriminate].
    apply N.eqb_eq in E. subst y. apply IH in H. subst got. reflexivity.
Qed.

Lemma pick_sound : forall (f : list bytes -> bytes -> bool) post pre got,
  pick f pre post got = true ->
  exists w rest post1 post2, post = post1 ++ w :: post2 /\ got = w ++ rest /\
                             f (rev_append (rev_append post1 pre) post2) rest = true.
Proof.
  intros f. induction post as [|w post IH]; intros pre got H; cbn [pick] in H; [discriminate|].
  apply orb_prop in H. destruct H as [H|H].
  - destruct (strip_prefix w got) as [rest|] eqn:E; [|discriminate].
    exists w, rest, [], post. cbn [app rev_append]. repeat split; try assumption.
    apply strip_prefix_sound; exact E.
  - apply IH in H. destruct H as [w' [rest [p1 [p2 [Hp [Hg Hf]]]]]].
    exists w', rest, (w :: p1), p2. cbn [app rev_append]. subst post. repeat split; assumption.
Qed.

Lemma perm_concat_sound : forall fuel ws got, perm_concat fuel ws got = true ->
  exists ws', Permutation ws' ws /\ got = concat ws'.
Proof.
  induction fuel as [|f IH]; intros ws got H.
  - destruct ws; cbn [perm_concat] in H; [|discriminate].
    exists []. split; [constructor|]. destruct got; [reflexivity | discriminate].
  - destruct ws as [|w0 ws0] eqn:Ews.
    + cbn [perm_concat] in H. exists []. split; [constructor|]. destruct got; [reflexivity | discriminate].
    + cbn [perm_concat] in H. rewrite <- Ews in H. apply pick_sound in H.
      destruct H as [w [rest [p1 [p2 [Hp [Hg Hf]]]]]]. cbn [rev_append] in Hf.
      apply IH in Hf. destruct Hf as [ws' [Hperm Hrest]].
      exists (w :: ws'). split.
      * rewrite <- Ews, Hp. eapply perm_trans; [apply perm_skip; exact Hperm|].
        rewrite !rev_append_rev, app_nil_r, rev_involutive. apply Permutation_middle.
      * cbn [concat]. subst got rest. reflexivity.
Qed.

Lemma validate_stream_unordered_sound : forall fixed writes reads,
  validate_stream_unordered fixed writes reads = true ->
  (exists ws', Permutation ws' writes /\ concat (map snd reads) = concat ws') /\
  (fixed = true -> Forall (fun r => length (snd r) <= fst r) reads).
Proof.
  intros fixed writes reads H. unfold validate_stream_unordered in H. apply andb_prop in H. destruct H as [H1 H2].
  split; [eapply perm_concat_sound; exact H1|]. intros Hf. subst fixed. cbn in H2.
  apply Forall_forall. intros r Hin. rewrite forallb_forall in H2. apply Nat.leb_le. apply H2. exact Hin.
Qed.

Lemma remove_one_perm : forall d l l', remove_one d l = Some l' -> Permutation l (d :: l').
Proof.
  intros d. induction l as [|x t IH]; intros l' H; [discriminate|]. cbn [remove_one] in H.
  destruct (beq x d) eqn:E.
  - apply beq_eq in E. inversion H; subst. apply Permutation_refl.
  - destruct (remove_one d t) as [t'|]; [|discriminate]. inversion H; subst.
    eapply perm_trans; [apply perm_skip; apply IH; reflexivity | apply perm_swap].
Qed.

Lemma sub_multiset_sound : forall got avail, sub_multiset got avail = true ->
  exists rest, Permutation avail (got ++ rest).
Proof.
  induction got as [|g t IH]; intros avail H.
  - exists avail. apply Permutation_refl.
  - cbn [sub_multiset] in H. destruct (remove_one g avail) as [rest|] eqn:E; [|discriminate].
    apply remove_one_perm in E. destruct (IH _ H) as [r Hr]. exists r.
    eapply perm_trans; [exact E|]. cbn [app]. apply perm_skip. exact Hr.
Qed.

Definition copies (sent : list (bytes * nat)) : list bytes :=
  concat (map (fun dc => repeat (fst dc) (snd dc)) sent).

Lemma copies_in : forall sent d, In d (copies sent) -> In d (map fst sent).
Proof.
  induction sent as [|[x c] sent IH]; intros d H; [exact H|].
  unfold copies in H. cbn [map concat] in H. apply in_app_or in H. destruct H as [H|H].
  - left. apply repeat_spec in H. cbn in *. symmetry. exact H.
  - right. apply IH. exact H.
Qed.

(* every received datagram is, whole, one of the sent ones, and no datagram is received more often than the
   link layer delivered it *)
Lemma validate_dgram_sound : forall sent got, validate_dgram sent got = true ->
  (forall g, In g got -> In g (map fst sent)) /\
  (exists rest, Permutation (copies sent) (got ++ rest)).
Proof.
  intros sent got H. unfold validate_dgram in H. apply sub_multiset_sound in H. destruct H as [rest Hp].
  split; [| exists rest; exact Hp].
  intros g Hin. apply copies_in. eapply Permutation_in; [apply Permutation_sym; exact Hp|].
  apply in_or_app. left. exact Hin.
Qed.

(* ------------------------------------------------------------------ statements used verbatim by Props/C02.v *)
Lemma recv_bound_refuted : exists (n : nat) (s : sock) (out : bytes) (s' : sock),
  recv false n s = RData out s' /\ n < length out /\
  n = 4 /\ s = mkSock (Some [1%N; 2%N]) [[3%N; 4%N; 5%N; 6%N]] true /\ length out = 6.
Proof.
  exists 4, witness_sock, [1%N; 2%N; 3%N; 4%N; 5%N; 6%N], (mkSock None [] true).
  split; [exact recv_orig_exceeds|]. cbn. repeat split; lia.
Qed.

Lemma recv_bound_refuted_long :
  recv false 4 (mkSock (Some [1%N; 2%N]) [[3%N; 4%N; 5%N; 6%N; 7%N; 8%N; 9%N]] true)
  = RData [1%N; 2%N; 3%N; 4%N; 5%N; 6%N] (mkSock (Some [7%N; 8%N; 9%N]) [] true) /\
  recv true 4 (mkSock (Some [1%N; 2%N]) [[3%N; 4%N; 5%N; 6%N]] true)
  = RData [1%N; 2%N; 3%N; 4%N] (mkSock (Some [5%N; 6%N]) [] true).
Proof. split; [exact recv_orig_exceeds2 | exact recv_fixed_witness]. Qed.

Lemma reads_bounded : forall (evs : list ev) (s : sock) (os : list obs) (s' : sock),
  run true evs s = (os, s') ->
  forall n out, In (ORead n out) os -> length out <= n.
Proof.
  intros evs s os s' H n out Hin. pose proof (run_bounded _ _ _ _ H) as Hb.
  rewrite forallb_forall in Hb. apply Hb in Hin. cbn in Hin. apply Nat.leb_le. exact Hin.
Qed.

Lemma accept_overflow_witness :
  accept_replay (repeat [7%N] 256) = Panic P_ACCEPT_REPLAY /\ is_ok (accept_replay (repeat [7%N] 255)) = true.
Proof. split; vm_compute; reflexivity. Qed.
