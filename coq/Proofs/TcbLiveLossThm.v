(* C01 liveness: tail loss is repaired by the retransmission timeout - the half-rounds and the
   trace-level theorem. *)
From Elvis Require Import Model.Base Model.U32 Model.Tcb Model.TcpNet
  Proofs.U32Facts Proofs.TcbSafetyDefs Proofs.TcbSafetyBase Proofs.TcbSafetySnd Proofs.TcbSafetyRcv
  Proofs.TcbSafetyArr Proofs.TcbSafetySys Proofs.TcbLive Proofs.TcbLiveSys Proofs.TcbLiveThm
  Proofs.TcbLiveWin Proofs.TcbLiveWinSys Proofs.TcbLiveWinThm Proofs.TcbLiveLoss.
From Coq Require Import ZifyBool.
Local Open Scope Z_scope.
Ltac Zify.zify_post_hook ::= Z.div_mod_to_equations.

Lemma filter_needs_false segs : filter t_needs (map (fun s => mkTx s false) segs) = [].
Proof. induction segs; cbn [map filter t_needs]; auto. Qed.

Lemma recv_flight_in_segs lp rp ackv segs t :
  flight lp rp ackv (rcv_nxt t) segs -> rcv_wnd t = 65535 -> u32 (rcv_nxt t) -> in_segs t = [] ->
  in_segs (recv_flight t segs) = [].
Proof.
  intros F Hw Hu Hs. destruct segs as [|s r]; [exact Hs|].
  destruct (recv_flight_facts lp rp ackv (s :: r) t F Hw Hu) as (_ & _ & _ & H & _).
  apply H. congruence.
Qed.

Lemma dup_flight_in_segs segs t : rcv_wnd t = 65535 -> in_segs t = [] -> in_segs (dup_flight t segs) = [].
Proof.
  intros Hw Hs. destruct segs as [|s r]; [exact Hs|].
  destruct (dup_flight_facts (s :: r) t Hw) as (_ & _ & _ & H & _). apply H. congruence.
Qed.

Lemma flight_len_pos lp rp ackv a segs : flight lp rp ackv a segs -> segs <> [] -> 0 < flight_len segs.
Proof.
  destruct segs as [|s r]; [congruence|]. intros (_ & Hl & _) _.
  rewrite flight_len_cons. pose proof (flight_len_nonneg r). lia.
Qed.

(* the receiver owes: ACKs for the surviving prefix, duplicate ACKs for its copies, ACKs for the rest *)
Definition ackingL (t : tcb) (b a R : Z) (pre suf : list segment) : Prop :=
  st t = Established /\ snd_una t = b /\ snd_nxt t = b /\ rcv_nxt t = R /\
  snd_wnd t = 65535 /\ rcv_wnd t = 65535 /\ out_text t = [] /\ retx t = [] /\
  (exists acks1 dups acks2, oneshot t = acks1 ++ dups ++ acks2 /\ Forall2 (ackfor b) pre acks1 /\
     Forall (dupack b (wadd a (flight_len pre))) dups /\ Forall2 (ackfor b) suf acks2) /\
  fin_pending t = false /\ in_segs t = [] /\ in_text t = [] /\ rto t = RTO /\ time_wait t = None /\
  u32 b /\ u32 R /\ 100 <= mtu t <= 65535.

Section LossHalf.
  Variable c : config.

  Lemma half_send_loss s x tx ty a b R lp rp pre suf :
    end_of s x = ELive tx -> end_of s (other x) = ELive ty ->
    net_of s x = pre -> net_of s (other x) = [] -> panicked s = false ->
    sending tx a R b (pre ++ suf) [] -> flight lp rp b a (pre ++ suf) -> pre ++ suf <> [] ->
    quiet ty b a ->
    let s' := fair_half c s x in
    exists tx' ty', end_of s' x = ELive tx' /\ end_of s' (other x) = ELive ty' /\
      net_of s' x = [] /\ net_of s' (other x) = [] /\ panicked s' = false /\
      (forall y, sub_of s' y = sub_of s y) /\ del_of s' x = del_of s x /\
      del_of s' (other x) = del_of s (other x) ++ [flight_bytes (pre ++ suf)] /\
      sending tx' a R b (pre ++ suf) [] /\ ackingL ty' b a R pre suf /\
      mtu tx' = mtu tx /\ mtu ty' = mtu ty.
  Proof.
    intros Ex Ey Nx Ny Pn HS F Hne
      (Q1 & Q2 & Q3 & Q4 & Q5 & Q6 & Q7 & Q8 & Q9 & Q10 & Q11 & Q12 & Q13 & Q14 & Q15 & Q16 & Q17) s'.
    pose proof HS as (A1 & A2 & A3 & A4 & A5 & A6 & A7 & A8 & A9 & A10 & A11 & A12 & A13 & A14 & A15 & A16 & A17 & _ & A19 & A20).
    set (segs := pre ++ suf) in *.
    destruct (flight_split lp rp b pre suf a A15 F) as [Fp Fs].
    pose proof (flight_len_pos _ _ _ _ _ F Hne) as Hpos.
    assert (Hlen : flight_len segs = flight_len pre + flight_len suf) by apply flight_len_app.
    pose proof (flight_len_nonneg pre) as Hp0. pose proof (flight_len_nonneg suf) as Hs0.
    (* 1: nothing new to emit; the timer fires; the whole flight is retransmitted *)
    assert (E1 : tcb_segments tx = Ok (set_retx (set_oneshot tx []) (map (fun s => mkTx s false) segs), [])).
    { rewrite segments_nothing_new; try assumption; try (rewrite A1; reflexivity); try lia.
      rewrite A8, A9, filter_needs_false, reflag_map. reflexivity. }
    set (tx1 := set_retx _ _) in E1.
    pose proof (advance_101 tx1 A13 A14) as E2.
    change (retx tx1) with (map (fun s => mkTx s false) segs) in E2. rewrite reflag_map in E2.
    set (tx2 := set_retx _ _) in E2.
    assert (E3 : tcb_segments tx2 =
                 Ok (set_rto (set_retx (set_oneshot tx2 []) (map (fun s => mkTx s false) segs)) RTO, segs)).
    { apply segments_retransmit; try reflexivity; try assumption.
      - change (st tx2) with (st tx). now rewrite A1.
      - change (mtu tx2) with (mtu tx). lia.
      - change (out_text tx2) with (out_text tx). rewrite A7. cbn. lia. }
    set (tx3 := set_rto _ RTO) in E3.
    unfold s', fair_half, fair_half_t.
    rewrite (tick_eval s x tx tx1 [] tx2 101 Ex E1 E2). rewrite Nx, app_nil_r.
    set (s1 := set_end (set_net _ _ _) x (ELive tx2)).
    assert (Ex1 : end_of s1 x = ELive tx2) by (subst s1; now sysr).
    rewrite (emit_eval s1 x tx2 tx3 segs Ex1 E3). cbn iota beta.
    assert (Nx1 : net_of s1 x = pre) by (subst s1; now sysr). rewrite Nx1.
    set (s2 := set_net _ x (pre ++ segs)).
    assert (Nx2 : net_of s2 x = pre ++ (pre ++ suf)) by (subst s2 segs; now sysr).
    rewrite Nx2, !app_length. cbn iota.
    replace (Datatypes.S (length pre + (length pre + length suf)))
      with (length pre + (length pre + (length suf + 1)))%nat by lia.
    assert (Ey2 : end_of s2 (other x) = ELive ty) by (subst s2 s1; now sysr).
    (* 2: the surviving prefix arrives in order *)
    rewrite (deliver_inorder c x lp rp b pre s2 ty _ (pre ++ suf) Ey2 Nx2 Q1 Q11 Q6
               ltac:(rewrite Q4; exact Q16) ltac:(rewrite Q4; exact Fp) ltac:(rewrite Q2; apply mod_leq_refl)
               ltac:(rewrite Q12; cbn; lia)).
    destruct (recv_flight_facts lp rp b pre ty ltac:(rewrite Q4; exact Fp) Q6 ltac:(rewrite Q4; exact Q16))
      as (C1 & R1 & I1 & _ & acks1 & O1 & FA1).
    pose proof (recv_flight_in_segs lp rp b pre ty ltac:(rewrite Q4; exact Fp) Q6 ltac:(rewrite Q4; exact Q16) Q11) as S1.
    cbv zeta in *. set (t1 := recv_flight ty pre) in *.
    destruct C1 as (_ & _ & Cm & Cst & Cun & Cnx & Csw & Crw & Cot & Crx & Cfp & Crto & Ctw).
    rewrite Q4 in R1. rewrite Q12 in I1. cbn [app] in I1.
    set (s3 := set_end (set_net s2 x (pre ++ suf)) (other x) (ELive t1)).
    assert (Ey3 : end_of s3 (other x) = ELive t1) by (subst s3; now sysr).
    assert (Nx3 : net_of s3 x = pre ++ suf) by (subst s3; now sysr).
    (* 3: its retransmitted copies are old data *)
    rewrite (deliver_dups c x lp rp b pre s3 t1 a _ suf Ey3 Nx3
               ltac:(congruence) S1 ltac:(congruence) ltac:(rewrite R1; apply wadd_u32)
               Fp A15 ltac:(congruence) ltac:(lia) ltac:(rewrite Cun, Q2; apply mod_leq_refl)
               ltac:(rewrite I1; fold (flight_len pre); lia)).
    destruct (dup_flight_facts pre t1 ltac:(congruence)) as (C2 & R2 & I2 & _ & dups & O2 & FA2).
    pose proof (dup_flight_in_segs pre t1 ltac:(congruence) S1) as S2.
    cbv zeta in *. set (t2 := dup_flight t1 pre) in *.
    destruct C2 as (_ & _ & Dm & Dst & Dun & Dnx & Dsw & Drw & Dot & Drx & Dfp & Drto & Dtw).
    set (s4 := set_end (set_net s3 x suf) (other x) (ELive t2)).
    assert (Ey4 : end_of s4 (other x) = ELive t2) by (subst s4; now sysr).
    assert (Nx4 : net_of s4 x = suf ++ []) by (subst s4; rewrite app_nil_r; now sysr).
    (* 4: the lost suffix arrives in order *)
    assert (Fs' : flight lp rp b (rcv_nxt t2) suf) by (rewrite R2, R1; exact Fs).
    rewrite (deliver_inorder c x lp rp b suf s4 t2 1 [] Ey4 Nx4 ltac:(congruence) S2 ltac:(congruence)
               ltac:(rewrite R2, R1; apply wadd_u32) Fs' ltac:(rewrite Dun, Cun, Q2; apply mod_leq_refl)
               ltac:(rewrite I2, I1; fold (flight_len pre); lia)).
    destruct (recv_flight_facts lp rp b suf t2 Fs' ltac:(congruence) ltac:(rewrite R2, R1; apply wadd_u32))
      as (C3 & R3 & I3 & _ & acks2 & O3 & FA3).
    pose proof (recv_flight_in_segs lp rp b suf t2 Fs' ltac:(congruence) ltac:(rewrite R2, R1; apply wadd_u32) S2) as S3.
    cbv zeta in *. set (t3 := recv_flight t2 suf) in *.
    destruct C3 as (_ & _ & Gm & Gst & Gun & Gnx & Gsw & Grw & Got & Grx & Gfp & Grto & Gtw).
    set (s5 := set_end (set_net s4 x []) (other x) (ELive t3)).
    assert (Nx5 : net_of s5 x = []) by (subst s5; now sysr).
    rewrite (deliver_all_nil _ c s5 x Nx5).
    (* 5: reads *)
    rewrite (recv_both s5 x).
    assert (Ex5 : end_of s5 x = ELive tx3) by (subst s5 s4 s3 s2; now sysr).
    assert (Hitx : in_text tx3 = []) by (subst tx3 tx2 tx1; tcb_simpl; exact A12).
    rewrite (recv_eval_empty s5 x tx3 Ex5 Hitx).
    set (s6 := set_end s5 x _).
    assert (Ey6 : end_of s6 (other x) = ELive t3) by (subst s6 s5; now sysr).
    assert (Hit3 : in_text t3 = flight_bytes segs).
    { rewrite I3, I2, I1. subst segs. now rewrite flight_bytes_app. }
    assert (Hne3 : in_text t3 <> []).
    { rewrite Hit3. intros E0. unfold flight_len in Hpos. rewrite E0 in Hpos. cbn in Hpos. lia. }
    rewrite (recv_eval_data s6 (other x) t3 Ey6 Hne3). rewrite Hit3.
    exists (set_in_text tx3 []), (set_in_text t3 []).
    splits.
    all: try (subst s6 s5 s4 s3 s2 s1; now sysr).
    all: try reflexivity.
    - intros y. subst s6 s5 s4 s3 s2 s1. now sysr.
    - unfold sending. subst tx3 tx2 tx1. tcb_simpl.
      splits; try assumption; try reflexivity; try congruence; try lia.
      exists lp, rp, b. exact F.
    - unfold ackingL. tcb_simpl. rewrite O3, O2, O1, Q9. cbn [app].
      assert (HR : rcv_nxt t3 = R).
      { rewrite R3, R2, R1, wadd_wadd, <- Hlen. exact A19. }
      splits; try congruence; try lia.
      + exists acks1, dups, acks2. splits.
        * now rewrite app_assoc.
        * now rewrite Q3 in FA1.
        * now rewrite Cnx, Q3, R1 in FA2.
        * now rewrite Dnx, Cnx, Q3 in FA3.
      + rewrite <- HR, R3. apply wadd_u32.
    - cbn [set_in_text mtu]. congruence.
  Qed.

  Lemma half_ack_loss s y ty tz a b R pre suf :
    end_of s y = ELive ty -> end_of s (other y) = ELive tz ->
    net_of s y = [] -> net_of s (other y) = [] -> panicked s = false ->
    ackingL ty b a R pre suf -> sending tz a R b (pre ++ suf) [] ->
    let s' := fair_half c s y in
    exists ty' tz', end_of s' y = ELive ty' /\ end_of s' (other y) = ELive tz' /\
      net_of s' y = [] /\ net_of s' (other y) = [] /\ panicked s' = false /\
      (forall x, sub_of s' x = sub_of s x) /\ (forall x, del_of s' x = del_of s x) /\
      quiet ty' b R /\ quiet tz' R b /\ mtu ty' = mtu ty /\ mtu tz' = mtu tz.
  Proof.
    intros Ey Ez Ny Nz Pn
      (A1 & A2 & A3 & A4 & A5 & A6 & A7 & A8 & (acks1 & dups & acks2 & A9 & FA1 & FA2 & FA3) & A10 & A11 & A12 & A13 & A14 & A15 & A16 & A17)
      HS s'.
    set (mk := fun h : header => mkSeg h []).
    assert (E1 : tcb_segments ty =
                 Ok (set_retx (set_oneshot ty []) [], map mk acks1 ++ (map mk dups ++ map mk acks2))).
    { rewrite segments_nothing_new; try assumption; try (rewrite A1; reflexivity); try lia.
      rewrite A8, A9. cbn [map filter]. rewrite app_nil_r, !map_app. reflexivity. }
    set (ty1 := set_retx _ _) in E1.
    pose proof (advance_101 ty1 A13 A14) as E2.
    assert (Er1 : retx ty1 = []) by reflexivity. rewrite Er1 in E2. cbn [map] in E2.
    set (ty2 := set_retx _ _) in E2.
    assert (E3 : tcb_segments ty2 = Ok (set_retx (set_oneshot ty2 []) [], [])).
    { rewrite segments_nothing_new.
      - subst ty2 ty1; tcb_simpl. cbn [map filter app]. reflexivity.
      - exact A7.
      - exact A10.
      - change (st ty2) with (st ty). now rewrite A1.
      - change (mtu ty2) with (mtu ty). lia. }
    set (ty3 := set_retx _ _) in E3.
    unfold s', fair_half, fair_half_t.
    rewrite (tick_eval s y ty ty1 _ ty2 101 Ey E1 E2). rewrite Ny. cbn [app].
    set (s1 := set_end (set_net _ _ _) y (ELive ty2)).
    assert (Ey1 : end_of s1 y = ELive ty2) by (subst s1; now sysr).
    rewrite (emit_eval s1 y ty2 ty3 [] Ey1 E3). cbn iota beta.
    assert (Ny1 : net_of s1 y = map mk acks1 ++ (map mk dups ++ map mk acks2)) by (subst s1; now sysr).
    rewrite Ny1, app_nil_r.
    set (s2 := set_net _ y _).
    assert (Ny2 : net_of s2 y = map mk acks1 ++ (map mk dups ++ map mk acks2)) by (subst s2; now sysr).
    rewrite Ny2, !app_length, !map_length. cbn iota.
    replace (Datatypes.S (length acks1 + (length dups + length acks2)))
      with (length acks1 + (length dups + (length acks2 + 1)))%nat by lia.
    assert (Ez2 : end_of s2 (other y) = ELive tz) by (subst s2 s1; now sysr).
    destruct (deliver_acks_prefix c y b R [] suf pre acks1 FA1 s2 tz a (length dups + (length acks2 + 1))%nat (map mk dups ++ map mk acks2) HS Ez2 Ny2)
      as (tz1 & D1 & HS1 & M1).
    rewrite D1.
    set (s3 := set_end (set_net s2 y (map mk dups ++ map mk acks2)) (other y) (ELive tz1)).
    assert (Ez3 : end_of s3 (other y) = ELive tz1) by (subst s3; now sysr).
    assert (Ny3 : net_of s3 y = map mk dups ++ map mk acks2) by (subst s3; now sysr).
    destruct (deliver_dupacks_mid c y b R [] suf (wadd a (flight_len pre)) dups s3 tz1 (length acks2 + 1)%nat (map mk acks2) FA2 HS1 Ez3 Ny3)
      as (tz2 & D2 & HS2 & M2).
    rewrite D2.
    set (s4 := set_end (set_net s3 y (map mk acks2)) (other y) (ELive tz2)).
    assert (Ez4 : end_of s4 (other y) = ELive tz2) by (subst s4; now sysr).
    assert (Ny4 : net_of s4 y = map mk acks2 ++ []) by (subst s4; rewrite app_nil_r; now sysr).
    assert (HS2' : sending tz2 (wadd a (flight_len pre)) R b (suf ++ []) []) by (now rewrite app_nil_r).
    destruct (deliver_acks_prefix c y b R [] [] suf acks2 FA3 s4 tz2 _ 1 [] HS2' Ez4 Ny4)
      as (tz3 & D3 & HS3 & M3).
    rewrite D3.
    set (s5 := set_end (set_net s4 y []) (other y) (ELive tz3)).
    assert (Ny5 : net_of s5 y = []) by (subst s5; now sysr).
    rewrite (deliver_all_nil _ c s5 y Ny5).
    assert (HR : wadd (wadd a (flight_len pre)) (flight_len suf) = R).
    { destruct HS as (_ & _ & _ & _ & _ & _ & _ & _ & _ & _ & _ & _ & _ & _ & _ & _ & _ & _ & H19 & _).
      rewrite wadd_wadd, <- flight_len_app. exact H19. }
    rewrite HR in HS3.
    pose proof (sending_quiet tz3 R b HS3) as Qz.
    rewrite (recv_both s5 y).
    assert (Ey5 : end_of s5 y = ELive ty3) by (subst s5 s4 s3 s2; now sysr).
    rewrite (recv_eval_empty s5 y ty3 Ey5 A12).
    set (s6 := set_end s5 y _).
    assert (Ez6 : end_of s6 (other y) = ELive tz3) by (subst s6 s5; now sysr).
    rewrite (recv_eval_empty s6 (other y) tz3 Ez6 ltac:(apply Qz)).
    exists (set_in_text ty3 []), (set_in_text tz3 []).
    splits.
    all: try (subst s6 s5 s4 s3 s2 s1; now sysr).
    all: try reflexivity.
    all: try (intros x; subst s6 s5 s4 s3 s2 s1; now sysr).
    all: try (unfold quiet; subst ty3 ty2 ty1; tcb_simpl; splits; try assumption; try reflexivity; lia).
    all: try (destruct Qz as (Z1 & Z2 & Z3 & Z4 & Z5 & Z6 & Z7 & Z8 & Z9 & Z10 & Z11 & Z12 & Z13 & Z14 & Z15 & Z16 & Z17);
              unfold quiet; tcb_simpl; splits; auto; lia).
    all: try (cbn [set_in_text mtu]; congruence).
  Qed.
End LossHalf.
