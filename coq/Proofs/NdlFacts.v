(* Facts about the NDL parser model, part 1: the hand-modelled nom combinators
   (decomposition lemmas), the guarded slice/unwrap sites, and totality: no
   text makes the parser stack panic or run out of fuel. *)
From Elvis Require Import Model.Base Model.Ndl.
From Coq Require Import NArith ZifyBool.
Local Open Scope N_scope.

(* ------------------------------------------------------------ text equality *)

Lemma text_eqb_spec a b : text_eqb a b = true <-> a = b.
Proof.
  revert b. induction a as [|x a IH]; intros [|y b]; cbn [text_eqb]; split; intros H;
    try reflexivity; try discriminate.
  - apply andb_prop in H. destruct H as [Hx Hr]. apply N.eqb_eq in Hx. apply IH in Hr. congruence.
  - injection H as -> ->. rewrite N.eqb_refl. apply IH. reflexivity.
Qed.

Lemma text_eqb_refl a : text_eqb a a = true.
Proof. apply text_eqb_spec. reflexivity. Qed.

Lemma text_eqb_neq a b : a <> b -> text_eqb a b = false.
Proof.
  intros H. destruct (text_eqb a b) eqn:E; [|reflexivity]. apply text_eqb_spec in E. contradiction.
Qed.

(* ------------------------------------------------------------ combinators *)

Lemma take_until_split p s a b : take_until p s = Some (a, b) ->
  s = a ++ b /\ (exists r, b = p :: r) /\ ~ In p a.
Proof.
  revert a b. induction s as [|c r IH]; intros a b H; cbn [take_until] in H; [discriminate|].
  destruct (c =? p) eqn:E.
  - injection H as <- <-. apply N.eqb_eq in E. subst. split; [reflexivity|]. split; [eauto|]. intros [].
  - destruct (take_until p r) as [[a' b']|] eqn:T; [|discriminate]. injection H as <- <-.
    destruct (IH _ _ eq_refl) as (-> & Hb & Hn). split; [reflexivity|]. split; [exact Hb|].
    intros [Hc|Hi]; [|exact (Hn Hi)]. subst. rewrite N.eqb_refl in E. discriminate.
Qed.

Lemma take_until_app p a r : ~ In p a -> take_until p (a ++ p :: r) = Some (a, p :: r).
Proof.
  induction a as [|c a IH]; intros Hn; cbn [app take_until].
  - rewrite N.eqb_refl. reflexivity.
  - destruct (c =? p) eqn:E.
    + apply N.eqb_eq in E. subst. exfalso. apply Hn. left. reflexivity.
    + rewrite IH; [reflexivity|]. intros Hi. apply Hn. right. exact Hi.
Qed.

Lemma section_len s c r : section s = Some (c, r) -> (length r < length s)%nat.
Proof.
  unfold section. destruct s as [|x s]; [discriminate|].
  destruct (x =? c_lbr); [|discriminate].
  destruct (take_until c_rbr s) as [[a b]|] eqn:T; [|discriminate].
  destruct b as [|y b]; [discriminate|]. intros H. injection H as <- <-.
  apply take_until_split in T. destruct T as (-> & _ & _).
  cbn [length]. rewrite app_length. cbn [length]. lia.
Qed.

Lemma span_ws_app s a b : span_ws s = (a, b) -> s = a ++ b.
Proof.
  revert a b. induction s as [|c r IH]; intros a b H; cbn [span_ws] in H.
  - injection H as <- <-. reflexivity.
  - destruct (is_ws c).
    + destruct (span_ws r) as [a' b'] eqn:E. injection H as <- <-.
      rewrite (IH _ _ eq_refl). reflexivity.
    + injection H as <- <-. reflexivity.
Qed.

Lemma escaped_app f i v r : escaped f i = Some (v, r) -> i = v ++ r.
Proof.
  remember (length i) as n eqn:Hn. revert f i v r Hn.
  induction n as [n IH] using lt_wf_ind. intros f i v r Hn H.
  destruct i as [|c i]; cbn [escaped] in H.
  - injection H as <- <-. reflexivity.
  - destruct (c =? c_bslash).
    + destruct i as [|d i]; [discriminate|].
      destruct (d =? c_quote); [|discriminate].
      destruct (escaped false i) as [[v' r']|] eqn:E; [|discriminate].
      injection H as <- <-. cbn [length] in Hn.
      rewrite (IH (length i) ltac:(lia) false i v' r' eq_refl E). reflexivity.
    + destruct (c =? c_quote).
      * destruct f; [discriminate|]. injection H as <- <-. reflexivity.
      * destruct (escaped false i) as [[v' r']|] eqn:E; [|discriminate].
        injection H as <- <-. cbn [length] in Hn.
        rewrite (IH (length i) ltac:(lia) false i v' r' eq_refl E). reflexivity.
Qed.

Lemma value_body_app i v r : value_body i = (v, r) -> i = v ++ r.
Proof.
  unfold value_body. destruct (escaped true i) as [[v' r']|] eqn:E; intros H; injection H as <- <-.
  - apply escaped_app in E. exact E.
  - reflexivity.
Qed.

Lemma arg1_len i kv r : arg1 i = Some (kv, r) -> (length r < length i)%nat.
Proof.
  unfold arg1. destruct (span_ws i) as [ws r0] eqn:HS. apply span_ws_app in HS. subst i.
  destruct ws as [|w ws]; [discriminate|].
  destruct (take_until c_eq r0) as [[key r2]|] eqn:T; [|discriminate].
  apply take_until_split in T. destruct T as (-> & _ & _).
  destruct r2 as [|e r3]; [discriminate|]. destruct r3 as [|q r4]; [discriminate|].
  destruct (q =? c_quote); [|discriminate].
  destruct (value_body r4) as [v r5] eqn:V. apply value_body_app in V. subst r4.
  destruct r5 as [|q2 r6]; [discriminate|]. destruct (q2 =? c_quote); [|discriminate].
  intros H. injection H as <- <-. repeat (rewrite app_length; cbn [length]). lia.
Qed.

Definition total {A} (r : result A) : Prop :=
  match r with Panic _ | OutOfFuel => False | _ => True end.

Lemma arguments_total fuel i : (length i < fuel)%nat -> total (arguments fuel i).
Proof.
  revert i. induction fuel as [|f IH]; intros i Hl; [lia|]. cbn [arguments].
  destruct (arg1 i) as [[kv r]|] eqn:A; [|exact I].
  destruct (Nat.eqb (length r) (length i)); [exact I|].
  apply arg1_len in A. specialize (IH r ltac:(lia)).
  destruct (arguments f r) as [[l r']| | |]; cbn in *; auto.
Qed.

(* the many0 no-progress branch is dead *)
Lemma arguments_no_err fuel i e : arguments fuel i <> Err e.
Proof.
  revert i. induction fuel as [|f IH]; intros i; cbn [arguments]; [discriminate|].
  destruct (arg1 i) as [[kv r]|] eqn:A; [|discriminate].
  apply arg1_len in A. destruct (Nat.eqb (length r) (length i)) eqn:E.
  - apply Nat.eqb_eq in E. lia.
  - specialize (IH r). destruct (arguments f r) as [[l r']| | |]; try discriminate. congruence.
Qed.

(* ------------------------------------------------------------ slicing behind a tab check *)

Lemma split_bytes_tabs n fuel s : (n <= count_leading c_tab s)%nat -> (n < fuel)%nat ->
  split_bytes fuel (N.of_nat n) s = Some (firstn n s, skipn n s).
Proof.
  revert fuel s. induction n as [|n IH]; intros fuel s Hc Hf.
  - destruct fuel; cbn; reflexivity.
  - destruct fuel as [|f]; [lia|]. destruct s as [|c r]; [cbn in Hc; lia|].
    cbn [count_leading] in Hc. destruct (c =? c_tab) eqn:E; [|lia].
    apply N.eqb_eq in E. subst c. cbn [split_bytes].
    replace (N.of_nat (S n) =? 0) with false by (symmetry; apply N.eqb_neq; lia).
    change (u8len c_tab) with 1.
    replace (1 <=? N.of_nat (S n)) with true by (symmetry; apply N.leb_le; lia).
    replace (N.of_nat (S n) - 1) with (N.of_nat n) by lia.
    rewrite IH by lia. reflexivity.
Qed.

Lemma str_from_tabs n s : (n <= count_leading c_tab s)%nat -> str_from n s = Ok (skipn n s).
Proof.
  intros H. unfold str_from. rewrite split_bytes_tabs by lia. reflexivity.
Qed.

Lemma skipn_len {A} n (s : list A) : (length (skipn n s) <= length s)%nat.
Proof. rewrite skipn_length. lia. Qed.

(* ------------------------------------------------------------ required-section bookkeeping *)

Lemma req_remove_some d req : req_contains d req = true -> exists r, req_remove d req = Some r.
Proof.
  induction req as [|x r IH]; cbn [req_contains req_remove]; [discriminate|].
  destruct (dectype_eqb x d); [eauto|]. cbn [orb]. intros H. destruct (IH H) as [r' ->]. eauto.
Qed.

(* ------------------------------------------------------------ get_type never panics *)

Lemma get_type_alt_total tags i : total (get_type_alt tags i).
Proof.
  induction tags as [|d ts IH]; cbn [get_type_alt]; [exact I|].
  destruct (kw (tag_name d) i); [exact I|exact IH].
Qed.

Lemma get_type_total i : total (get_type i).
Proof. apply get_type_alt_total. Qed.

(* ------------------------------------------------------------ totality of the parser stack *)

Local Open Scope Z_scope.

Definition good3 {A} (n : nat) (r : result (A * text * Z)) : Prop :=
  match r with
  | Ok (_, rem, _) => (length rem <= n)%nat
  | Err _ => True
  | _ => False
  end.

Section Totality.
  Variable gt : text -> result (dectype * text).
  Variable gt_total : forall i, total (gt i).

  Lemma general_parser_good s ln :
    match general_parser gt s ln with
    | Ok (_, _, rem, _) => (length rem < length s)%nat
    | Err _ => True
    | _ => False
    end.
  Proof.
    unfold general_parser. destruct (section s) as [[content rem]|] eqn:HS; [|exact I].
    apply section_len in HS. specialize (gt_total content).
    destruct (gt content) as [[ty r]| | |]; cbn in gt_total; try contradiction; [|exact I].
    pose proof (arguments_total (S (length r)) r ltac:(lia)) as Ha.
    destruct (arguments (S (length r)) r) as [[args r2]| | |]; cbn in Ha; try contradiction; [|exact I].
    destruct (negb (is_nil r2)); [exact I|].
    destruct (negb (dupcheck [] args)); [exact I|].
    pose proof (skipn_len (count_leading c_nl rem) rem). lia.
  Qed.

  Lemma network_loop_good fuel nt l0 acc s ln :
    (length s < fuel)%nat -> (s = [] \/ nt <= count_leading c_tab s)%nat ->
    good3 (length s) (network_loop gt fuel nt l0 acc s ln).
  Proof.
    revert acc s ln. induction fuel as [|f IH]; intros acc s ln Hf Ht; [lia|].
    cbn [network_loop]. destruct (is_nil s) eqn:En.
    - cbn. lia.
    - destruct Ht as [->|Ht]; [discriminate|]. rewrite (str_from_tabs _ _ Ht).
      pose proof (general_parser_good (skipn nt s) ln) as G.
      pose proof (skipn_len nt s) as Hs.
      destruct (general_parser gt (skipn nt s) ln) as [[[[ty opts] rem] ln1]| | |];
        try contradiction; [|exact I].
      destruct (negb (dectype_eqb ty IP)); [exact I|].
      destruct (Nat.ltb (count_leading c_tab rem) nt) eqn:E1; [cbn; lia|].
      destruct (Nat.ltb nt (count_leading c_tab rem)) eqn:E2; [exact I|].
      apply Nat.ltb_ge in E1.
      specialize (IH (acc ++ [{| it_ty := ty; it_opts := opts |}]) rem ln1 ltac:(lia) (or_intror E1)).
      unfold good3 in *.
      destruct (network_loop gt f nt l0 _ rem ln1) as [[[a b] c]| | |]; try contradiction; [lia|exact I].
  Qed.

  Lemma network_parser_good dec args s nt ln : good3 (length s) (network_parser gt dec args s nt ln).
  Proof.
    unfold network_parser. destruct (negb (Nat.eqb (count_leading c_tab s) nt)) eqn:E; [exact I|].
    apply negb_false_iff, Nat.eqb_eq in E.
    assert (Ht : (s = [] \/ nt <= count_leading c_tab s)%nat) by (right; lia).
    assert (Hf : (length s < S (length s))%nat) by lia.
    pose proof (network_loop_good (S (length s)) nt (ln - 1) [] s ln Hf Ht) as G.
    unfold good3 in *.
    destruct (network_loop gt (S (length s)) nt (ln - 1) [] s ln) as [[[a b] c]| | |];
      try contradiction; [exact G|exact I].
  Qed.

  Lemma networks_loop_good fuel nt l0 acc s ln :
    (length s < fuel)%nat -> good3 (length s) (networks_loop gt fuel nt l0 acc s ln).
  Proof.
    revert acc s ln. induction fuel as [|f IH]; intros acc s ln Hf; [lia|].
    cbn [networks_loop]. destruct (is_nil s); [cbn; lia|].
    destruct (Nat.ltb (count_leading c_tab s) nt) eqn:E1; [cbn; lia|].
    destruct (Nat.ltb nt (count_leading c_tab s)) eqn:E2; [exact I|].
    apply Nat.ltb_ge in E1. rewrite (str_from_tabs _ _ E1).
    pose proof (general_parser_good (skipn nt s) ln) as G.
    pose proof (skipn_len nt s) as Hs.
    destruct (general_parser gt (skipn nt s) ln) as [[[[ty opts] rem] ln1]| | |];
      try contradiction; [|exact I].
    destruct (dectype_eqb ty Network); [|exact I].
    pose proof (network_parser_good ty opts rem (S nt) ln1) as P. unfold good3 in P.
    destruct (network_parser gt ty opts rem (S nt) ln1) as [[[net rem2] ln2]| | |];
      try contradiction; [|exact I].
    destruct (lookup k_id opts) as [id|]; [|exact I].
    destruct (has_id id acc); [exact I|].
    specialize (IH (acc ++ [(id, net)]) rem2 ln2 ltac:(lia)). unfold good3 in *.
    destruct (networks_loop gt f nt l0 _ rem2 ln2) as [[[a b] c]| | |]; try contradiction; [lia|exact I].
  Qed.

  Lemma networks_parser_good s nt ln : good3 (length s) (networks_parser gt s nt ln).
  Proof. unfold networks_parser. apply networks_loop_good. lia. Qed.

  Lemma items_loop_good fuel expect nt l0 acc s ln :
    (length s < fuel)%nat -> (s = [] \/ nt <= count_leading c_tab s)%nat ->
    good3 (length s) (items_loop gt fuel expect nt l0 acc s ln).
  Proof.
    revert acc s ln. induction fuel as [|f IH]; intros acc s ln Hf Ht; [lia|].
    cbn [items_loop]. destruct (is_nil s) eqn:En.
    - cbn. lia.
    - destruct Ht as [->|Ht]; [discriminate|]. rewrite (str_from_tabs _ _ Ht).
      pose proof (general_parser_good (skipn nt s) ln) as G.
      pose proof (skipn_len nt s) as Hs.
      destruct (general_parser gt (skipn nt s) ln) as [[[[ty opts] rem] ln1]| | |];
        try contradiction; [|exact I].
      destruct (negb (dectype_eqb ty expect)); [exact I|].
      destruct (Nat.ltb (count_leading c_tab rem) nt) eqn:E1; [cbn; lia|].
      destruct (Nat.ltb nt (count_leading c_tab rem)) eqn:E2; [exact I|].
      apply Nat.ltb_ge in E1.
      specialize (IH (acc ++ [{| it_ty := ty; it_opts := opts |}]) rem ln1 ltac:(lia) (or_intror E1)).
      unfold good3 in *.
      destruct (items_loop gt f expect nt l0 _ rem ln1) as [[[a b] c]| | |];
        try contradiction; [lia|exact I].
  Qed.

  Lemma items_parser_good expect s nt ln : good3 (length s) (items_parser gt expect s nt ln).
  Proof.
    unfold items_parser. destruct (negb (Nat.eqb (count_leading c_tab s) nt)) eqn:E; [exact I|].
    apply negb_false_iff, Nat.eqb_eq in E.
    apply items_loop_good; [lia|]. right. lia.
  Qed.

  Definition good_m (n : nat)
    (r : result (list dectype * list item * list item * list item * text * Z)) : Prop :=
    match r with
    | Ok (_, _, _, _, rem, _) => (length rem <= n)%nat
    | Err _ => True
    | _ => False
    end.

  Lemma machine_loop_good fuel nt l0 req nets protos apps s ln :
    (length s < fuel)%nat -> good_m (length s) (machine_loop gt fuel nt l0 req nets protos apps s ln).
  Proof.
    revert req nets protos apps s ln.
    induction fuel as [|f IH]; intros req nets protos apps s ln Hf; [lia|].
    cbn [machine_loop]. destruct (is_nil s); [cbn; lia|].
    destruct (Nat.ltb (count_leading c_tab s) nt) eqn:E1; [cbn; lia|].
    destruct (Nat.ltb nt (count_leading c_tab s)) eqn:E2; [exact I|].
    apply Nat.ltb_ge in E1. rewrite (str_from_tabs _ _ E1).
    pose proof (general_parser_good (skipn nt s) ln) as G.
    pose proof (skipn_len nt s) as Hs.
    destruct (general_parser gt (skipn nt s) ln) as [[[[ty opts] rem] ln1]| | |];
      try contradiction; [|exact I].
    destruct (req_contains ty req) eqn:Ec; [|exact I].
    destruct (req_remove_some _ _ Ec) as [req' ->].
    pose proof (items_parser_good (item_type_of ty) rem (S nt) ln1) as P. unfold good3 in P.
    destruct (items_parser gt (item_type_of ty) rem (S nt) ln1) as [[[its rem2] ln2]| | |];
      try contradiction; [|exact I].
    assert (Hl : (length rem2 < f)%nat) by lia.
    assert (K : forall a b c, good_m (length s) (machine_loop gt f nt l0 req' a b c rem2 ln2)).
    { intros a b c. specialize (IH req' a b c rem2 ln2 Hl). unfold good_m in *.
      destruct (machine_loop gt f nt l0 req' a b c rem2 ln2) as [[[[[[r1 r2] r3] r4] r5] r6]| | |];
        try contradiction; [lia|exact I]. }
    destruct ty; apply K.
  Qed.

  Lemma machine_parser_good args s nt ln : good3 (length s) (machine_parser gt args s nt ln).
  Proof.
    unfold machine_parser.
    pose proof (machine_loop_good (S (length s)) nt (ln - 1) [Networks; Protocols; Applications]
                  [] [] [] s ln ltac:(lia)) as G.
    unfold good_m in G.
    destruct (machine_loop gt (S (length s)) nt (ln - 1) _ [] [] [] s ln)
      as [[[[[[r1 r2] r3] r4] r5] r6]| | |]; try contradiction; [|exact I].
    destruct (negb (is_nil r1)); [exact I|]. exact G.
  Qed.

  Lemma machines_loop_good fuel nt l0 acc s ln :
    (length s < fuel)%nat -> good3 (length s) (machines_loop gt fuel nt l0 acc s ln).
  Proof.
    revert acc s ln. induction fuel as [|f IH]; intros acc s ln Hf; [lia|].
    cbn [machines_loop]. destruct (is_nil s); [cbn; lia|].
    destruct (Nat.ltb (count_leading c_tab s) nt) eqn:E1; [cbn; lia|].
    destruct (Nat.ltb nt (count_leading c_tab s)) eqn:E2; [exact I|].
    apply Nat.ltb_ge in E1. rewrite (str_from_tabs _ _ E1).
    pose proof (general_parser_good (skipn nt s) ln) as G.
    pose proof (skipn_len nt s) as Hs.
    destruct (general_parser gt (skipn nt s) ln) as [[[[ty opts] rem] ln1]| | |];
      try contradiction; [|exact I].
    destruct (dectype_eqb ty Machine); [|exact I].
    pose proof (machine_parser_good opts rem (S nt) ln1) as P. unfold good3 in P.
    destruct (machine_parser gt opts rem (S nt) ln1) as [[[m rem2] ln2]| | |];
      try contradiction; [|exact I].
    specialize (IH (acc ++ [m]) rem2 ln2 ltac:(lia)). unfold good3 in *.
    destruct (machines_loop gt f nt l0 _ rem2 ln2) as [[[a b] c]| | |]; try contradiction; [lia|exact I].
  Qed.

  Lemma machines_parser_good s nt ln : good3 (length s) (machines_parser gt s nt ln).
  Proof. unfold machines_parser. apply machines_loop_good. lia. Qed.

  Lemma core_loop_total fuel nets ms s ln :
    (length s < fuel)%nat -> total (core_loop gt fuel nets ms s ln).
  Proof.
    revert nets ms s ln. induction fuel as [|f IH]; intros nets ms s ln Hf; [lia|].
    cbn [core_loop]. destruct (is_nil s); [exact I|].
    pose proof (general_parser_good s ln) as G.
    destruct (general_parser gt s ln) as [[[[ty opts] rem] ln1]| | |]; try contradiction; [|exact I].
    destruct ty; try exact I.
    - apply IH. lia.
    - pose proof (networks_parser_good rem 1 ln1) as P. unfold good3 in P.
      destruct (networks_parser gt rem 1 ln1) as [[[new rem2] ln2]| | |]; try contradiction; [|exact I].
      destruct (merge_networks nets new); [|exact I]. apply IH. lia.
    - pose proof (machines_parser_good rem 1 ln1) as P. unfold good3 in P.
      destruct (machines_parser gt rem 1 ln1) as [[[new rem2] ln2]| | |]; try contradiction; [|exact I].
      apply IH. lia.
  Qed.

  Lemma core_parse_gen_total txt : total (core_parse_gen gt txt).
  Proof. unfold core_parse_gen. apply core_loop_total. lia. Qed.
End Totality.

(* C14 (NDL part), repaired parser *)
Lemma core_parse_total txt : total (core_parse txt).
Proof. apply core_parse_gen_total. exact get_type_total. Qed.

Lemma core_parse_ok_or_err txt :
  (exists s, core_parse txt = Ok s) \/ (exists e, core_parse txt = Err e).
Proof.
  pose proof (core_parse_total txt) as T.
  destruct (core_parse txt) as [s|e|p|]; cbn in T; try contradiction; eauto.
Qed.

Lemma core_parse_never_panics txt : forall site, core_parse txt <> Panic site.
Proof. intros site H. pose proof (core_parse_total txt) as T. rewrite H in T. exact T. Qed.

Lemma core_parse_never_out_of_fuel txt : core_parse txt <> OutOfFuel.
Proof. intros H. pose proof (core_parse_total txt) as T. rewrite H in T. exact T. Qed.

(* the unchanged tree: two independent panics *)
Local Open Scope N_scope.
Definition witness_iptype : text := [91; 73; 80; 116; 121; 112; 101; 93].           (* "[IPtype]" *)
Definition witness_kelvin : text := [91; 78; 101; 116; 119; 111; 114; 8490; 93].   (* "[Networ\u{212A}]" *)

Lemma core_parse_orig_panics_iptype : core_parse_orig witness_iptype = Panic SITE_UNIMPL.
Proof. vm_compute. reflexivity. Qed.

Lemma core_parse_orig_panics_kelvin : core_parse_orig witness_kelvin = Panic SITE_SPLIT.
Proof. vm_compute. reflexivity. Qed.

Lemma core_parse_fixed_on_witnesses :
  core_parse witness_iptype = Err (ecode E_EXTRA 1) /\ core_parse witness_kelvin = Err (ecode E_DECTYPE (-1)).
Proof. split; vm_compute; reflexivity. Qed.
