(* Preservation of the endpoint invariant by segment processing:
   process_segment stage by stage, the arrival loop, segment_arrives,
   arrives_listen. *)
From Elvis Require Import Model.Base Model.U32 Model.Tcb Model.TcpNet
  Proofs.U32Facts Proofs.TcbSafetyDefs Proofs.TcbSafetyBase Proofs.TcbSafetySnd.
From Coq Require Import ZifyBool.
Local Open Scope Z_scope.
Ltac Zify.zify_post_hook ::= Z.div_mod_to_equations.

(* ---------- circular arithmetic facts ---------- *)
Lemma in_window_spec t x : u32 (rcv_nxt t) -> u32 x -> rcv_wnd t = 65535 ->
  is_in_rcv_window t x = (wsub (wadd x 1) (rcv_nxt t) <=? 65535).
Proof.
  intros Hr Hx Hw. unfold is_in_rcv_window. rewrite Hw.
  rewrite mod_bounded_spec by (try assumption; try apply wsub_u32; apply wadd_u32).
  unfold on_arc. cbn [cmp_offset]. rewrite !wsub_spec, !wadd_spec. unfold u32, M32 in *.
  match goal with |- ?L = ?R => destruct L eqn:EL; destruct R eqn:ER; try reflexivity; exfalso; lia end.
Qed.

Lemma in_window_ext t t' x : rcv_nxt t' = rcv_nxt t -> rcv_wnd t' = rcv_wnd t ->
  is_in_rcv_window t' x = is_in_rcv_window t x.
Proof. intros E1 E2. unfold is_in_rcv_window. now rewrite E1, E2. Qed.

(* the true distance between an accepted segment and RCV.NXT *)
Lemma true_distance base rn sq : u32 rn -> u32 sq ->
  wsub rn base <= SEQ_BOUND + 1 -> wsub sq base <= SEQ_BOUND + 1 ->
  mod_gt sq rn = false ->
  wsub rn sq = wsub rn base - wsub sq base /\ wsub sq base <= wsub rn base.
Proof.
  unfold mod_gt, mod_lt. rewrite !wsub_spec. unfold u32, M32, H31, SEQ_BOUND.
  intros Hr Hs H1 H2 H3. split; lia.
Qed.

Definition window_facts (t : tcb) (sq seglen : Z) : Prop :=
  mod_gt sq (rcv_nxt t) = false /\
  (is_in_rcv_window t sq || is_in_rcv_window t (wsub (wadd sq seglen) 1)) = true.

Lemma seq_ok_facts t len sq fin : rcv_wnd t = 65535 -> 0 < len + b2z fin ->
  is_seq_ok t len sq false fin = true ->
  (is_in_rcv_window t sq || is_in_rcv_window t (wsub (wadd sq (len + b2z fin)) 1)) = true.
Proof.
  intros Hw Hl. unfold is_seq_ok. cbn [b2z]. rewrite Z.add_0_r, Hw.
  replace (len + b2z fin =? 0) with false by lia. cbn [Z.eqb]. auto.
Qed.

Lemma window_facts_ext t t' sq l : rcv_nxt t' = rcv_nxt t -> rcv_wnd t' = rcv_wnd t ->
  window_facts t sq l -> window_facts t' sq l.
Proof. intros E1 E2 [H1 H2]. unfold window_facts. now rewrite !(in_window_ext t t'), E1. Qed.

(* ---------- stages that leave the receive variables alone ---------- *)
Definition stage_ok (t t' : tcb) : Prop :=
  snd_frame t t' /\ in_segs t' = in_segs t /\ in_text t' = in_text t /\
  rcv_irs t' = rcv_irs t /\ rcv_nxt t' = rcv_nxt t /\
  (forall P : segment -> Prop, Forall P (map t_seg (retx t)) -> Forall P (map t_seg (retx t'))) /\
  (Forall plain_hdr (oneshot t) -> Forall plain_hdr (oneshot t')).

Lemma stage_ok_refl t : stage_ok t t.
Proof. unfold stage_ok. splits; auto. apply snd_frame_refl. Qed.

Lemma stage_ok_trans a b c : stage_ok a b -> stage_ok b c -> stage_ok a c.
Proof.
  intros (F1 & A1 & A2 & A3 & A4 & A5 & A6) (F2 & B1 & B2 & B3 & B4 & B5 & B6).
  unfold stage_ok. splits; try congruence; auto.
  eapply snd_frame_trans; eassumption.
Qed.

Lemma stage_enqueue t h : plain_hdr h -> stage_ok t (enqueue t h).
Proof.
  intros Hp. rewrite enqueue_plain by assumption.
  unfold stage_ok, snd_frame; tcb_simpl. splits; auto.
  intros Ho. apply Forall_plain_snoc; assumption.
Qed.

Lemma stage_remove_acked t a : stage_ok t (remove_acked (set_snd_una t a) a).
Proof.
  unfold remove_acked, stage_ok, snd_frame; tcb_simpl. splits; auto.
  intros P. apply Forall_map_filter.
Qed.

Lemma stage_set_window t w a b : stage_ok t (set_snd_window t w a b).
Proof. unfold stage_ok, snd_frame; tcb_simpl. splits; auto. Qed.

Lemma stage_set_st t s : closed_state s = closed_state (st t) -> stage_ok t (set_st t s).
Proof. intros H. unfold stage_ok, snd_frame; tcb_simpl. splits; auto. Qed.

Lemma stage_set_tw t x : stage_ok t (set_time_wait t x).
Proof. unfold stage_ok, snd_frame; tcb_simpl. splits; auto. Qed.

Lemma stage_set_rto t x : stage_ok t (set_rto t x).
Proof. unfold stage_ok, snd_frame; tcb_simpl. splits; auto. Qed.

Lemma enqueue_st t h : st (enqueue t h) = st t.
Proof. unfold enqueue. destruct (_ || _); reflexivity. Qed.

Lemma stage_ok_rcv_same t t' :
  stage_ok t t' -> fin_consumed (st t') = fin_consumed (st t) ->
  state_eqb (st t') SynSent = state_eqb (st t) SynSent -> rcv_same t t'.
Proof. intros (F & A1 & A2 & A3 & A4 & _) H1 H2. unfold rcv_same. auto 10. Qed.

Lemma stage_ok_snd iss m S t t' : stage_ok t t' -> SndInv iss m S t -> SndInv iss m S t'.
Proof.
  intros (F & A1 & A2 & A3 & A4 & A5 & A6) HI.
  eapply SndInv_frame; [exact F|exact HI| |].
  - apply A5, HI.
  - apply A6, HI.
Qed.

(* ack_established_processing *)
Lemma ack_est_stage t h t2 r : ack_est t h = (t2, r) -> stage_ok t t2 /\ st t2 = st t.
Proof.
  unfold ack_est.
  destruct (mod_leq _ _); [intros [= <- <-]; split; [apply stage_ok_refl|reflexivity]|].
  destruct (mod_gt _ _).
  { intros [= <- <-]. split; [apply stage_enqueue, ack_hdr_plain|apply enqueue_st]. }
  set (t1 := remove_acked _ _).
  assert (H1 : stage_ok t t1) by apply stage_remove_acked.
  assert (S1 : st t1 = st t) by reflexivity.
  destruct (_ || _); intros [= <- <-].
  - split; [|exact S1]. eapply stage_ok_trans; [exact H1|apply stage_set_window].
  - split; assumption.
Qed.

(* which state changes the ACK stage can make *)
Definition ack_st_rel (a b : state) : Prop :=
  b = a \/ (a = SynReceived /\ b = Established) \/ (a = FinWait1 /\ b = FinWait2) \/
  (a = Closing /\ b = TimeWait).

Lemma ack_st_rel_props a b : ack_st_rel a b ->
  fin_consumed b = fin_consumed a /\ state_eqb b SynSent = state_eqb a SynSent /\
  closed_state b = closed_state a.
Proof. intros [->|[[-> ->]|[[-> ->]|[-> ->]]]]; auto. Qed.

Lemma ps_ack_stage t h t2 r2 : ps_ack t h = (t2, r2) -> stage_ok t t2 /\ ack_st_rel (st t) (st t2).
Proof.
  unfold ps_ack. destruct (negb _).
  { intros [= <- <-]. split; [apply stage_ok_refl|left; reflexivity]. }
  destruct (st t) eqn:Est.
  - (* SynSent *)
    destruct (mod_bounded _ _ _ _ _).
    { destruct (c_rst _); intros [= <- <-].
      - split; [apply stage_ok_refl|left; auto].
      - split; [apply stage_enqueue, rst_hdr_plain|left; rewrite enqueue_st; auto]. }
    destruct (mod_bounded _ _ _ _ _).
    { destruct (c_syn _); intros [= <- <-].
      - split; [apply stage_remove_acked|left; auto].
      - split; [apply stage_ok_refl|left; auto]. }
    intros [= <- <-]. split; [apply stage_enqueue, rst_hdr_plain|left; rewrite enqueue_st; auto].
  - (* SynReceived *)
    destruct (mod_bounded _ _ _ _ _).
    + set (t1 := set_snd_window _ _ _ _).
      assert (H1 : stage_ok t t1).
      { subst t1. eapply stage_ok_trans; [apply (stage_set_st t Established); rewrite Est; reflexivity|apply stage_set_window]. }
      destruct (ack_est t1 h) as [t2' r] eqn:E. destruct (ack_est_stage _ _ _ _ E) as [H2 S2].
      intros H. assert (t2 = t2') by (destruct r; congruence). subst t2'. split; [eapply stage_ok_trans; eassumption|].
      right; left. split; [reflexivity|]. rewrite S2. reflexivity.
    + intros [= <- <-]. split; [apply stage_enqueue, rst_hdr_plain|left; rewrite enqueue_st; auto].
  - (* Established *)
    destruct (ack_est t h) as [t2' r] eqn:E. destruct (ack_est_stage _ _ _ _ E) as [H2 S2].
    intros H. assert (t2 = t2') by (destruct r; congruence). subst t2'.
    split; [assumption|left; congruence].
  - (* FinWait1 *)
    destruct (ack_est t h) as [t2' r] eqn:E. destruct (ack_est_stage _ _ _ _ E) as [H2 S2].
    intros H.
    assert (Ht : t2 = if is_fin_acked t2' then set_st t2' FinWait2 else t2') by (destruct r; congruence).
    rewrite Ht. destruct (is_fin_acked t2').
    + split; [eapply stage_ok_trans; [exact H2|apply stage_set_st; rewrite S2, Est; reflexivity]|].
      right; right; left. auto.
    + split; [assumption|left; congruence].
  - (* FinWait2 *)
    destruct (ack_est t h) as [t2' r] eqn:E. destruct (ack_est_stage _ _ _ _ E) as [H2 S2].
    intros H. assert (t2 = t2') by (destruct r; congruence). subst t2'.
    split; [assumption|left; congruence].
  - (* CloseWait *)
    destruct (ack_est t h) as [t2' r] eqn:E. destruct (ack_est_stage _ _ _ _ E) as [H2 S2].
    intros H. assert (t2 = t2') by (destruct r; congruence). subst t2'.
    split; [assumption|left; congruence].
  - (* Closing *)
    destruct (ack_est t h) as [t2' r] eqn:E. destruct (ack_est_stage _ _ _ _ E) as [H2 S2].
    intros H.
    assert (Ht : t2 = if is_fin_acked t2' then set_time_wait (set_st t2' TimeWait) (Some MSL2) else t2')
      by (destruct r; congruence).
    rewrite Ht. destruct (is_fin_acked t2').
    + split.
      * eapply stage_ok_trans; [exact H2|].
        eapply stage_ok_trans; [apply (stage_set_st t2' TimeWait); rewrite S2, Est; reflexivity|apply stage_set_tw].
      * right; right; right. auto.
    + split; [assumption|left; congruence].
  - (* LastAck *)
    destruct (ack_est t h) as [t2' r] eqn:E. destruct (ack_est_stage _ _ _ _ E) as [H2 S2].
    intros H. assert (t2 = t2') by (destruct (is_fin_acked t2'); destruct r; congruence). subst t2'.
    split; [assumption|left; congruence].
  - (* TimeWait *)
    destruct (c_fin (h_ctl h)); intros [= <- <-]; [|split; [apply stage_ok_refl|left; auto]]. split.
    + eapply stage_ok_trans; [apply stage_enqueue, tw_ack_plain|apply stage_set_tw].
    + left. cbn [set_time_wait st]. rewrite enqueue_st. auto.
Qed.

(* ---------- text ---------- *)
Lemma ps_text_nil t h : ps_text t h [] = Ok t.
Proof. reflexivity. Qed.

(* stages that may move RCV.NXT / in_text: everything but the receive variables *)
Definition rstage_ok (t t' : tcb) : Prop :=
  snd_frame t t' /\ in_segs t' = in_segs t /\
  (forall P : segment -> Prop, Forall P (map t_seg (retx t)) -> Forall P (map t_seg (retx t'))) /\
  (Forall plain_hdr (oneshot t) -> Forall plain_hdr (oneshot t')).

Lemma stage_rstage t t' : stage_ok t t' -> rstage_ok t t'.
Proof. intros (F & A1 & A2 & A3 & A4 & A5 & A6). unfold rstage_ok. auto. Qed.
Lemma rstage_ok_refl t : rstage_ok t t.
Proof. apply stage_rstage, stage_ok_refl. Qed.
Lemma rstage_ok_trans a b c : rstage_ok a b -> rstage_ok b c -> rstage_ok a c.
Proof.
  intros (F1 & A1 & A5 & A6) (F2 & B1 & B5 & B6).
  unfold rstage_ok. splits; try congruence; auto.
  eapply snd_frame_trans; eassumption.
Qed.
Lemma rstage_set_rcv_nxt t x : rstage_ok t (set_rcv_nxt t x).
Proof. unfold rstage_ok, snd_frame; tcb_simpl. splits; auto. Qed.
Lemma rstage_set_in_text t x : rstage_ok t (set_in_text t x).
Proof. unfold rstage_ok, snd_frame; tcb_simpl. splits; auto. Qed.
Lemma rstage_ok_snd iss m S t t' : rstage_ok t t' -> SndInv iss m S t -> SndInv iss m S t'.
Proof.
  intros (F & A1 & A5 & A6) HI.
  eapply SndInv_frame; [exact F|exact HI| |].
  - apply A5, HI.
  - apply A6, HI.
Qed.

Definition text_core (t : tcb) (h : header) (text : list Z) : result tcb :=
  let text_len := zlen text in
  if negb (is_in_rcv_window t (h_seq h) || is_in_rcv_window t (wadd (h_seq h) text_len)) then Panic 2
  else
    let already := Z.min (wsub (wsub (rcv_nxt t) (h_seq h)) (b2z (c_syn (h_ctl h)))) text_len in
    let unreceived := text_len - already in
    if rcv_wnd t <? zlen (in_text t) then Panic 3
    else
      let space := rcv_wnd t - zlen (in_text t) in
      let accept := Z.min unreceived space in
      let t1 := set_rcv_nxt t (wadd (rcv_nxt t) accept) in
      let piece := firstn (Z.to_nat accept) (skipn (Z.to_nat already) text) in
      let t2 := set_in_text t1 (in_text t1 ++ piece) in
      Ok (enqueue t2 (ack_hdr t2)).

Lemma ps_text_unfold t h text : ps_text t h text =
  if zlen text =? 0 then Ok t else
  match st t with
  | Established | SynSent | SynReceived | FinWait1 | FinWait2 => text_core t h text
  | _ => Ok t
  end.
Proof. reflexivity. Qed.

(* the assert at l.565 cannot fail for a segment that passed the sequence check *)
Lemma assert_holds rn sq len : u32 rn -> u32 sq -> 0 < len <= 65535 ->
  0 <= wsub rn sq <= SEQ_BOUND + 1 ->
  ((wsub (wadd sq 1) rn <=? 65535) || (wsub (wadd (wsub (wadd sq len) 1) 1) rn <=? 65535)) = true ->
  ((wsub (wadd sq 1) rn <=? 65535) || (wsub (wadd (wadd sq len) 1) rn <=? 65535)) = true.
Proof.
  rewrite !wsub_spec, !wadd_spec. unfold u32, M32, SEQ_BOUND. intros Hr Hs Hl Hd H.
  lia.
Qed.

Lemma text_core_inv pv D t h text :
  pv_wf pv -> RcvInv pv D t -> state_eqb (st t) SynSent = false -> fin_consumed (st t) = false ->
  rcv_wnd t = 65535 -> text <> [] -> seg_inv pv (mkSeg h text) ->
  window_facts t (h_seq h) (zlen text) ->
  exists t', text_core t h text = Ok t' /\ RcvInv pv D t' /\ rstage_ok t t' /\ st t' = st t.
Proof.
  intros (Hu & Hl & Hb & Hfz) (R1 & R2 & R3) Hss Hfc Hw Hne (T & _ & _) [W1 W2].
  rewrite Hss in R3. destruct R3 as (R3 & R4 & R5 & R6 & R7).
  destruct (T Hne) as (Tsyn & Tfin & Tu & Tlen & Tok & Tlim). tcb_simpl.
  unfold rcv_n in *. rewrite Hfc in *. cbn [b2z] in *. rewrite Z.sub_0_r in *.
  set (base := pv_base pv) in *. set (rn := rcv_nxt t) in *. set (sq := h_seq h) in *.
  set (n := wsub rn base) in *. set (off := wsub sq base) in *.
  pose proof (zlen_nonneg text) as Hlen0.
  assert (Hlen1 : 0 < zlen text).
  { destruct text; [congruence|]. rewrite zlen_cons. pose proof (zlen_nonneg text). lia. }
  pose proof (wsub_u32 sq base) as Hoffu. fold off in Hoffu. unfold u32 in Hoffu.
  destruct (true_distance base rn sq R4 Tu) as [Hd Hle]; fold n off; try assumption;
    [unfold u32 in *; lia|unfold u32 in *; lia|].
  fold n off in Hd, Hle.
  unfold text_core. fold rn sq.
  (* the assert *)
  assert (Hassert : (is_in_rcv_window t sq || is_in_rcv_window t (wadd sq (zlen text))) = true).
  { rewrite !in_window_spec in W2 |- * by (try assumption; try apply wadd_u32; try apply wsub_u32).
    fold rn in W2 |- *. apply assert_holds; try assumption; lia. }
  rewrite Hassert. cbn [negb]. rewrite Tsyn. cbn [b2z].
  replace (wsub (wsub rn sq) 0) with (n - off)
    by (rewrite Hd, wsub_spec; unfold u32, M32, SEQ_BOUND in *; lia).
  rewrite Hw. replace (65535 <? zlen (in_text t)) with false by lia.
  set (already := Z.min (n - off) (zlen text)).
  set (accept := Z.min (zlen text - already) (65535 - zlen (in_text t))).
  set (piece := firstn (Z.to_nat accept) (skipn (Z.to_nat already) text)).
  assert (Hacc : 0 <= accept /\ accept <= zlen text - already /\ n + accept <= pv_lim pv).
  { subst accept already. lia. }
  assert (Hpiece : firstn (Z.to_nat n) (pv_sub pv) ++ piece = firstn (Z.to_nat (n + accept)) (pv_sub pv)).
  { destruct (Z.eq_dec accept 0) as [E0|Hn0].
    - subst piece. rewrite E0, Z.add_0_r. cbn [Z.to_nat firstn]. apply app_nil_r.
    - assert (Eal : already = n - off) by (subst accept already; lia).
      subst piece. rewrite Tok.
      rewrite slice_of_slice.
      + replace (Z.to_nat off + Z.to_nat already)%nat with (Z.to_nat n) by lia.
        rewrite firstn_app_slice. f_equal. lia.
      + unfold zlen in *. lia.
      + unfold zlen in *. lia. }
  eexists. split; [reflexivity|].
  rewrite enqueue_plain by apply ack_hdr_plain.
  split; [|split].
  - unfold RcvInv, rcv_n; tcb_simpl. rewrite Hss, Hfc. cbn [b2z]. rewrite Z.sub_0_r.
    fold base rn.
    assert (En : wsub (wadd rn accept) base = n + accept).
    { assert (Hn : n = (rn - base) mod M32) by (subst n; apply wsub_spec).
      rewrite !wsub_spec, wadd_spec.
      clear - Hn R5 R4 Hacc Hl Hb. unfold u32, M32, SEQ_BOUND in *. lia. }
    rewrite En. splits; try assumption.
    + rewrite zlen_app. subst piece. rewrite zlen_firstn. lia.
    + apply wadd_u32.
    + lia.
    + lia.
    + rewrite app_assoc, R6. exact Hpiece.
    + discriminate.
  - unfold rstage_ok, snd_frame; tcb_simpl. splits; auto.
    intros Ho. apply Forall_plain_snoc; [assumption|apply ack_hdr_plain].
  - reflexivity.
Qed.

Lemma ps_text_inv pv D t h text :
  pv_wf pv -> RcvInv pv D t -> state_eqb (st t) SynSent = false -> rcv_wnd t = 65535 ->
  seg_inv pv (mkSeg h text) ->
  (text <> [] -> fin_consumed (st t) = false -> window_facts t (h_seq h) (zlen text)) ->
  exists t', ps_text t h text = Ok t' /\ RcvInv pv D t' /\ rstage_ok t t' /\ st t' = st t /\
             (text = [] -> t' = t).
Proof.
  intros Hwf HR Hss Hw Hseg Hfacts. rewrite ps_text_unfold.
  destruct (zlen text =? 0) eqn:Ez.
  { exists t. splits; auto. apply rstage_ok_refl. }
  assert (Hne : text <> []) by (intros ->; discriminate Ez).
  assert (Hcore : fin_consumed (st t) = false ->
    exists t', text_core t h text = Ok t' /\ RcvInv pv D t' /\ rstage_ok t t' /\ st t' = st t /\
               (text = [] -> t' = t)).
  { intros Hfc. destruct (text_core_inv pv D t h text Hwf HR Hss Hfc Hw Hne Hseg (Hfacts Hne Hfc))
      as (t' & E & A & B & C).
    exists t'. splits; auto. intros; congruence. }
  destruct (st t) eqn:Est; try (cbn in Hss; discriminate Hss); try (apply Hcore; reflexivity);
    (exists t; splits; auto using rstage_ok_refl; intros; congruence).
Qed.

(* ---------- FIN ---------- *)
Lemma ps_fin_nofin t h len : c_fin (h_ctl h) = false -> ps_fin t h len = t.
Proof. intros H. unfold ps_fin. now rewrite H. Qed.

Lemma wadd_0_u32 x : u32 x -> wadd x 0 = x.
Proof. rewrite wadd_spec. unfold u32, M32. lia. Qed.

Lemma ps_fin_inv pv D t h :
  pv_wf pv -> RcvInv pv D t -> state_eqb (st t) SynSent = false ->
  c_fin (h_ctl h) = true -> pv_frozen pv = true ->
  h_seq h = wadd (pv_base pv) (zlen (pv_sub pv)) ->
  (fin_consumed (st t) = false -> mod_gt (h_seq h) (rcv_nxt t) = false) ->
  RcvInv pv D (ps_fin t h 0) /\ rstage_ok t (ps_fin t h 0).
Proof.
  intros (Hu & Hl & Hb & Hfz) (R1 & R2 & R3) Hss Hfin Hfr Hseq Hgt.
  rewrite Hss in R3. destruct R3 as (R3 & R4 & R5 & R6 & R7).
  specialize (Hfz Hfr).
  unfold ps_fin. rewrite Hfin, Hss. cbn [negb].
  set (base := pv_base pv) in *. set (rn := rcv_nxt t) in *. set (F := zlen (pv_sub pv)) in *.
  assert (Hsu : u32 (h_seq h)) by (rewrite Hseq; apply wadd_u32).
  rewrite (wadd_0_u32 _ Hsu).
  pose proof (zlen_nonneg (pv_sub pv)) as HF0. fold F in HF0.
  assert (Hoff : wsub (h_seq h) base = F).
  { rewrite Hseq, wsub_spec, wadd_spec. unfold u32, M32, SEQ_BOUND in *. lia. }
  (* in both cases RCV.NXT moves to (or stays at) FIN+1 *)
  assert (Hcond : ((rn =? h_seq h) || (rn =? wadd (h_seq h) 1)) = true /\
                  wsub (wadd (h_seq h) 1) base = F + 1 /\
                  (fin_consumed (st t) = false -> wsub rn base = F)).
  { unfold rcv_n in *. fold base rn in R5, R7 |- *.
    destruct (fin_consumed (st t)) eqn:Efc.
    - destruct (R7 eq_refl) as [_ Hn]. cbn [b2z] in *.
      assert (E : rn = wadd (h_seq h) 1).
      { rewrite Hseq, !wadd_spec. rewrite wsub_spec in Hn. unfold u32, M32, SEQ_BOUND in *. lia. }
      split; [rewrite <- E, Z.eqb_refl; apply orb_true_r|].
      split; [|discriminate]. rewrite <- E. lia.
    - cbn [b2z] in *.
      destruct (true_distance base rn (h_seq h) R4 Hsu) as [Hd Hle];
        [unfold u32 in *; lia|rewrite Hoff; lia|apply Hgt; reflexivity|].
      rewrite Hoff in Hle.
      assert (E : rn = h_seq h).
      { rewrite Hseq, wadd_spec. rewrite wsub_spec in Hle, R5. unfold u32, M32, SEQ_BOUND in *. lia. }
      split; [rewrite E, Z.eqb_refl; reflexivity|].
      split; [|intros _; rewrite E; exact Hoff].
      rewrite Hseq, wsub_spec, !wadd_spec. unfold u32, M32, SEQ_BOUND in *. lia. }
  destruct Hcond as (Hc & Hn1 & Hn0). rewrite Hc.
  set (t0 := set_rcv_nxt t (wadd (h_seq h) 1)).
  rewrite (enqueue_plain t0) by apply ack_hdr_plain.
  set (t1 := set_oneshot t0 _).
  assert (S1 : st t1 = st t) by reflexivity.
  assert (RS1 : rstage_ok t t1).
  { subst t1 t0.
    unfold rstage_ok, snd_frame; tcb_simpl. splits; auto.
    intros Ho. apply Forall_plain_snoc; [assumption|apply ack_hdr_plain]. }
  (* any final state s' with the FIN consumed and the same closedness is fine *)
  assert (Hfinal : forall t', rstage_ok t1 t' -> in_text t' = in_text t -> rcv_irs t' = rcv_irs t ->
     rcv_nxt t' = wadd (h_seq h) 1 -> fin_consumed (st t') = true ->
     RcvInv pv D t' /\ rstage_ok t t').
  { intros t' RS' E1 E2 E3 E4. split; [|eapply rstage_ok_trans; eassumption].
    destruct RS' as (_ & Eseg & _). destruct RS1 as (_ & Eseg1 & _).
    assert (Hns : state_eqb (st t') SynSent = false) by (destruct (st t'); try discriminate E4; reflexivity).
    unfold RcvInv, rcv_n. rewrite Eseg, Eseg1, E1, E2, E3, E4, Hns. fold base. rewrite Hn1. cbn [b2z].
    replace (F + 1 - 1) with F by lia.
    assert (HnF : rcv_n pv t = F).
    { unfold rcv_n. fold base rn. destruct (fin_consumed (st t)) eqn:Efc.
      - destruct (R7 eq_refl) as [_ Hn]. unfold rcv_n in Hn. rewrite Efc in Hn. exact Hn.
      - cbn [b2z]. rewrite (Hn0 eq_refl). lia. }
    rewrite HnF in R6.
    splits; try assumption; try lia; auto. apply wadd_u32. }
  rewrite S1.
  destruct (st t) eqn:Est; try (cbn in Hss; discriminate Hss).
  - (* SynReceived *) apply Hfinal; try reflexivity. apply stage_rstage, stage_set_st. rewrite S1. reflexivity.
  - (* Established *) apply Hfinal; try reflexivity. apply stage_rstage, stage_set_st. rewrite S1. reflexivity.
  - (* FinWait1 *)
    destruct (is_fin_acked t1); apply Hfinal; try reflexivity.
    + eapply rstage_ok_trans; apply stage_rstage; [apply (stage_set_st t1 TimeWait); rewrite S1; reflexivity|apply stage_set_tw].
    + apply stage_rstage, stage_set_st. rewrite S1. reflexivity.
  - (* FinWait2 *)
    apply Hfinal; try reflexivity.
    eapply rstage_ok_trans; [apply stage_rstage, (stage_set_st t1 TimeWait); rewrite S1; reflexivity|].
    eapply rstage_ok_trans; apply stage_rstage; [apply stage_set_tw|apply stage_set_rto].
  - (* CloseWait *) apply Hfinal; try reflexivity; [apply rstage_ok_refl|cbn [set_time_wait st]; rewrite S1; reflexivity].
  - (* Closing *) apply Hfinal; try reflexivity; [apply rstage_ok_refl|cbn [set_time_wait st]; rewrite S1; reflexivity].
  - (* LastAck *) apply Hfinal; try reflexivity; [apply rstage_ok_refl|cbn [set_time_wait st]; rewrite S1; reflexivity].
  - (* TimeWait *) apply Hfinal; try reflexivity; [apply stage_rstage, stage_set_tw|cbn [set_time_wait st]; rewrite S1; reflexivity].
Qed.
