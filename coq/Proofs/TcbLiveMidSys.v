(* C01 liveness: one segment lost at an arbitrary position of a flight, system level.
   The segments behind the gap are parked in the reassembly heap; the retransmitted flight fills
   the gap and the heap is drained in order. *)
From Elvis Require Import Model.Base Model.U32 Model.Tcb Model.TcpNet
  Proofs.U32Facts Proofs.TcbSafetyDefs Proofs.TcbSafetyBase Proofs.TcbSafetySnd Proofs.TcbSafetyRcv
  Proofs.TcbSafetyArr Proofs.TcbSafetySys Proofs.TcbLive Proofs.TcbLiveSys Proofs.TcbLiveThm
  Proofs.TcbLiveWin Proofs.TcbLiveWinSys Proofs.TcbLiveWinThm Proofs.TcbLiveLoss Proofs.TcbLiveLossThm
  Proofs.TcbHeap Proofs.TcbLiveMid.
From Coq Require Import ZifyBool Permutation.
Local Open Scope Z_scope.
Ltac Zify.zify_post_hook ::= Z.div_mod_to_equations.

(* the drained receiver is the receiver that got the segments in order *)
Lemma recv_step_pstep t s : in_segs t = [] -> recv_step t s = pstep_in t s.
Proof. intros H. unfold recv_step, pstep_in. tcb_eq; rewrite ?H; reflexivity. Qed.

Lemma drain_result_recv t q : drain_result t q = recv_flight (set_in_segs t []) q.
Proof.
  unfold drain_result, recv_flight. generalize (set_in_segs t []) (eq_refl : in_segs (set_in_segs t []) = []).
  induction q as [|s r IH]; intros t0 H0; cbn [fold_left]; [reflexivity|].
  rewrite (recv_step_pstep t0 s H0). apply IH. exact H0.
Qed.

Section Mid.
  Variable c : config.

  (* segments beyond the gap are parked *)
  Lemma deliver_parking x : forall p s ty f rest Hacc,
    end_of s (other x) = ELive ty -> net_of s x = p ++ rest ->
    state_eqb (st ty) SynSent = false -> in_segs ty = Hacc -> u32 (rcv_nxt ty) ->
    heap_ordered Hacc -> Forall (beyond (rcv_nxt ty)) (Hacc ++ p) ->
    exists H', deliver_all (length p + f) c s x =
               deliver_all f c (set_end (set_net s x rest) (other x) (ELive (set_in_segs ty H'))) x /\
               heap_ordered H' /\ Permutation (Hacc ++ p) H'.
  Proof.
    induction p as [|e p IH]; intros s ty f rest Hacc Ey Nx Hss Hs Hu Hord Hb.
    - exists Hacc. cbn [length Nat.add app] in *. rewrite app_nil_r.
      assert (E : set_in_segs ty Hacc = ty) by (tcb_eq; now rewrite Hs).
      rewrite E, sys_same by assumption. splits; auto.
    - cbn [length Nat.add]. cbn [app] in Nx.
      rewrite (deliver_all_cons _ c s x e (p ++ rest) Nx).
      assert (Hb1 : Forall (beyond (rcv_nxt ty)) (e :: Hacc)).
      { rewrite Forall_app in Hb. destruct Hb as [B1 B2]. inversion B2; subst. constructor; assumption. }
      destruct (arrives_parked ty e Hacc Hss Hs Hu Hord Hb1) as (Ea & Ho & Hp).
      assert (Ey' : end_of (set_net s x (p ++ rest)) (other x) = ELive ty) by (now sysr).
      rewrite (arrive_eval c _ (other x) ty e _ Ey' Ea).
      set (ty1 := set_in_segs ty (heap_push Hacc e)).
      destruct (IH (set_end (set_net s x (p ++ rest)) (other x) (ELive ty1)) ty1 f rest (heap_push Hacc e))
        as (H' & Ed & Ho' & Hp'); try reflexivity; try assumption.
      + now sysr.
      + now sysr.
      + eapply Permutation_Forall; [|exact Hb].
        eapply Permutation_trans; [apply Permutation_app_comm|]. cbn [app].
        eapply Permutation_trans; [|apply Permutation_app_tail; exact Hp]. cbn [app].
        apply perm_skip. apply Permutation_app_comm.
      + exists H'. rewrite Ed, sys_collapse. splits; auto.
        eapply Permutation_trans; [|exact Hp'].
        eapply Permutation_trans; [|apply Permutation_app_tail; exact Hp]. cbn [app].
        apply Permutation_sym, Permutation_middle.
  Qed.

  (* old data arrives while segments are parked: each is acknowledged, the heap is untouched *)
  Lemma deliver_old_parked x lp rp ackv : forall o s ty a f rest H,
    end_of s (other x) = ELive ty -> net_of s x = o ++ rest ->
    st ty = Established -> in_segs ty = H -> rcv_wnd ty = 65535 -> u32 (rcv_nxt ty) ->
    heap_ordered H -> Forall (beyond (rcv_nxt ty)) H ->
    flight lp rp ackv a o -> u32 a -> wadd a (flight_len o) = rcv_nxt ty -> flight_len o <= 65535 ->
    mod_leq ackv (snd_una ty) = true -> zlen (in_text ty) <= 65535 ->
    exists ty', deliver_all (length o + f) c s x =
                deliver_all f c (set_end (set_net s x rest) (other x) (ELive ty')) x /\
      same_core ty ty' /\ rcv_nxt ty' = rcv_nxt ty /\ in_text ty' = in_text ty /\
      (exists H', in_segs ty' = H' /\ heap_ordered H' /\ Permutation H H') /\
      exists acks, oneshot ty' = oneshot ty ++ acks /\ Forall (dupack (snd_nxt ty) (rcv_nxt ty)) acks.
  Proof.
    induction o as [|s0 r IH]; intros s ty a f rest H Ey Nx Est Hs Hw Hu Hord Hb F Hua Hend Hfl Hleq Hit.
    - exists ty. cbn [length Nat.add app] in *. rewrite sys_same by assumption.
      splits; auto using same_core_refl.
      + exists H. auto.
      + exists []. rewrite app_nil_r. split; [reflexivity|constructor].
    - cbn [length Nat.add]. cbn [app] in Nx.
      rewrite (deliver_all_cons _ c s x s0 (r ++ rest) Nx).
      destruct F as (Fh & Fl & Fr). destruct s0 as [h text]. cbn [s_hdr s_text] in *.
      rewrite flight_len_cons in Hend, Hfl. cbn [s_text] in Hend, Hfl.
      pose proof (flight_len_nonneg r) as Hr0.
      destruct (arrives_old_parked ty h text (flight_len r) H Est Hs Hw Hu Hord Hb)
        as (H1 & Ea & Ho1 & Hp1); try assumption; try lia.
      { rewrite Fh. apply data_hdr_ack_only. }
      { rewrite Fh. exact Hua. }
      { rewrite Fh. exact Hend. }
      { rewrite Fh. exact Hleq. }
      set (ty1 := pstep_old (set_in_segs ty H1)) in *.
      assert (Ey' : end_of (set_net s x (r ++ rest)) (other x) = ELive ty) by (now sysr).
      rewrite (arrive_eval c _ (other x) ty _ ty1 Ey' Ea).
      destruct (IH (set_end (set_net s x (r ++ rest)) (other x) (ELive ty1)) ty1 (wadd a (zlen text)) f rest H1)
        as (ty' & Ed & C & Rn & It & (H' & Hs' & Ho' & Hp') & acks & Os & Fa); try reflexivity; try assumption.
      + now sysr.
      + now sysr.
      + eapply Permutation_Forall; [exact Hp1|exact Hb].
      + apply wadd_u32.
      + rewrite wadd_wadd. exact Hend.
      + lia.
      + exists ty'. rewrite Ed, sys_collapse. splits; auto.
        * exists H'. splits; auto. eapply Permutation_trans; eassumption.
        * exists (ack_hdr (set_in_segs ty H1) :: acks). split.
          -- rewrite Os. subst ty1. unfold pstep_old; tcb_simpl. rewrite <- app_assoc. reflexivity.
          -- constructor; [|exact Fa]. unfold dupack. split; [apply ack_hdr_ack_only|].
             unfold ack_hdr; tcb_simpl. cbn. rewrite Hw. auto.
  Qed.
End Mid.
