(* Every closed-system label preserves SysInv; the safety theorem. *)
From Elvis Require Import Model.Base Model.U32 Model.Tcb Model.TcpNet
  Proofs.U32Facts Proofs.TcbSafetyDefs Proofs.TcbSafetyBase Proofs.TcbSafetySnd
  Proofs.TcbSafetyRcv Proofs.TcbSafetyArr Proofs.TcbSafetySys.
From Coq Require Import ZifyBool.
Local Open Scope Z_scope.
Ltac Zify.zify_post_hook ::= Z.div_mod_to_equations.

Section Ops.
  Variable c : config.
  Hypothesis Hc : cfg_ok c.

  Lemma iss_u32 x : u32 (iss_of c x).
  Proof. destruct Hc as (A & B & _). destruct x; assumption. Qed.
  Lemma mtu_ok x : 100 <= mtu_of c x <= 65535.
  Proof. destruct Hc as (_ & _ & A & B). destruct x; assumption. Qed.

  Lemma live_parts s x t : SysInv c s -> end_of s x = ELive t ->
    SndInv (iss_of c x) (mtu_of c x) (sub_of s x) t /\
    RcvInv (pv_of c s (other x)) (delivered s x) t /\
    zlen (sub_of s x) < SEQ_BOUND /\ pv_of c s x = my_pv (iss_of c x) (sub_of s x) t.
  Proof.
    intros (P & W & E & N) El. specialize (E x). rewrite EndInv_eq, El in E. destruct E as [E1 E2].
    splits; auto.
    - specialize (W x). destruct W as (_ & _ & Hb & _). now rewrite pv_sub_pv_of in Hb.
    - rewrite pv_of_eq, El. reflexivity.
  Qed.

  (* ---------- open ---------- *)
  Lemma open_tcb_inv lp rp iss m pv :
    SndInv iss m [] (tcb_open lp rp iss m) /\ RcvInv pv [] (tcb_open lp rp iss m) /\
    my_pv iss [] (tcb_open lp rp iss m) = mkPv iss [] 0 false.
  Proof.
    unfold tcb_open.
    set (t := mkTcb _ _ _ _ _ _ _ _ _ _ _ _ _ _ _ _ _ _ _ _ _ _).
    assert (E : enqueue t (hb_wnd (hb_syn (hb t iss)) DEFAULT_WND) =
                set_retx t (retx t ++ [mkTx (mkSeg (hb_wnd (hb_syn (hb t iss)) DEFAULT_WND) []) true]))
      by reflexivity.
    rewrite E. splits.
    - unfold SndInv, my_pv, data_sent, finq. subst t. tcb_simpl. cbn [closed_state andb b2z zlen length].
      change (Z.of_nat 0) with 0. cbn [Z.sub Z.to_nat skipn Z.add].
      splits; auto; try lia; try discriminate.
      + rewrite wadd_wadd. reflexivity.
      + cbn [app map]. constructor; [|constructor]. tcb_simpl.
        apply syn_seg_inv; reflexivity.
    - unfold RcvInv. subst t. tcb_simpl. cbn [state_eqb]. splits; auto. cbn. lia.
    - reflexivity.
  Qed.

  Lemma closed_parts s x : SysInv c s ->
    (end_of s x = EClosed \/ end_of s x = EListen) ->
    delivered s x = [] /\ sub_of s x = [] /\ pv_of c s x = mkPv (iss_of c x) [] 0 false.
  Proof.
    intros (P & W & E & N) Hcl. specialize (E x). rewrite EndInv_eq in E.
    rewrite pv_of_eq. destruct Hcl as [Hcl | Hcl]; rewrite Hcl in *; cbn [EndInvP pv_of_end] in *;
      destruct E as [E1 E2]; rewrite E2; auto.
  Qed.

  Lemma open_inv s x : SysInv c s -> end_of s x = EClosed ->
    SysInv c (set_end s x (ELive (tcb_open (port_of c x) (port_of c (other x)) (iss_of c x) (mtu_of c x)))).
  Proof.
    intros HI El. destruct (closed_parts s x HI (or_introl El)) as (Ed & Es & Epv).
    destruct (open_tcb_inv (port_of c x) (port_of c (other x)) (iss_of c x) (mtu_of c x) (pv_of c s (other x)))
      as (A1 & A2 & A3).
    pose proof HI as (P & W & E & N).
    eapply (sysinv_live c s _ x); try exact HI; sysr; try reflexivity; try assumption.
    - rewrite Es. cbn. unfold SEQ_BOUND. lia.
    - rewrite Es, A3, Epv. apply pv_le_refl.
    - rewrite Es. exact A1.
    - fold (delivered s x). rewrite Ed. exact A2.
    - exists []. split; [now rewrite app_nil_r|constructor].
  Qed.

  (* ---------- send ---------- *)
  Lemma send_sys_inv s x t bytes : SysInv c s -> end_of s x = ELive t ->
    let acc := accepts_send (st t) in
    let s1 := if acc then set_sub s x (sub_of s x ++ bytes) else s in
    zlen (sub_of s1 x) < SEQ_BOUND ->
    SysInv c (set_end s1 x (ELive (tcb_send t bytes))).
  Proof.
    intros HI El acc s1 Hb. destruct (live_parts s x t HI El) as (HS & HR & Hb0 & Epv).
    subst acc s1. destruct (accepts_send (st t)) eqn:Eacc.
    - rewrite sub_set_sub in Hb.
      destruct (send_inv _ _ _ _ bytes (iss_u32 x) Hb0 HS Eacc) as (A1 & A2 & A3).
      eapply (sysinv_live c s _ x); try exact HI; sysr; try reflexivity; try assumption.
      + apply HI.
      + rewrite Epv. exact A2.
      + fold (delivered s x). eapply RcvInv_same; eassumption.
      + exists []. split; [now rewrite app_nil_r|constructor].
    - rewrite send_ignored by assumption.
      eapply (sysinv_live c s _ x); try exact HI; sysr; try reflexivity; try assumption.
      + apply HI.
      + rewrite Epv. apply pv_le_refl.
      + exists []. split; [now rewrite app_nil_r|constructor].
  Qed.

  (* ---------- recv ---------- *)
  Lemma receive_rcv pv D t : RcvInv pv D t -> RcvInv pv (D ++ in_text t) (set_in_text t []).
  Proof.
    intros (R1 & R2 & R3). unfold RcvInv, rcv_n in *. tcb_simpl.
    split; [assumption|]. split; [cbn; lia|].
    destruct (state_eqb (st t) SynSent).
    - destruct R3 as [-> ->]. auto.
    - rewrite app_nil_r. exact R3.
  Qed.

  Lemma recv_inv s x : SysInv c s -> SysInv c (fst (recv s x)).
  Proof.
    intros HI. unfold recv. destruct (end_of s x) as [| |t|] eqn:El; try exact HI.
    destruct (live_parts s x t HI El) as (HS & HR & Hb0 & Epv).
    unfold tcb_receive. cbn [fst].
    destruct (receive_snd _ _ _ _ HS) as [A1 A2].
    pose proof (receive_rcv _ _ _ HR) as A3.
    destruct (in_text t) eqn:Ein.
    - rewrite app_nil_r in A3.
      eapply (sysinv_live c s _ x); try exact HI; sysr; try reflexivity; try assumption.
      + apply HI.
      + rewrite A2, Epv. apply pv_le_refl.
      + exists []. split; [now rewrite app_nil_r|constructor].
    - eapply (sysinv_live c s _ x); try exact HI; sysr; try reflexivity; try assumption.
      + apply HI.
      + rewrite A2, Epv. apply pv_le_refl.
      + rewrite concat_snoc. exact A3.
      + exists []. split; [now rewrite app_nil_r|constructor].
  Qed.

  (* ---------- close ---------- *)
  Lemma close_sys_inv s x t t1 r : SysInv c s -> end_of s x = ELive t -> tcb_close t = (t1, r) ->
    SysInv c (set_end s x (ELive t1)).
  Proof.
    intros HI El Ecl. destruct (live_parts s x t HI El) as (HS & HR & Hb0 & Epv).
    destruct (close_inv _ _ _ _ _ _ (iss_u32 x) Hb0 HS Ecl) as (A1 & A2 & A3).
    eapply (sysinv_live c s _ x); try exact HI; sysr; try reflexivity; try assumption.
    - apply HI.
    - rewrite Epv. exact A2.
    - fold (delivered s x). eapply RcvInv_same; eassumption.
    - exists []. split; [now rewrite app_nil_r|constructor].
  Qed.

  (* ---------- emit ---------- *)
  Lemma emit_inv s x : SysInv c s ->
    SysInv c (fst (fst (emit s x))) /\ snd (emit s x) = false.
  Proof.
    intros HI. unfold emit. destruct (end_of s x) as [| |t|] eqn:El; try (split; [exact HI|reflexivity]).
    destruct (live_parts s x t HI El) as (HS & HR & Hb0 & Epv).
    destruct (segments_inv _ _ _ _ (iss_u32 x) Hb0 (mtu_ok x) HS) as (t' & segs & E & A1 & A2 & A3 & A4).
    rewrite E. cbn [fst snd]. split; [|reflexivity].
    eapply (sysinv_live c s _ x); try exact HI; sysr; try reflexivity; try assumption.
    - apply HI.
    - rewrite Epv. exact A2.
    - fold (delivered s x). eapply RcvInv_same; eassumption.
    - exists segs. split; [reflexivity|exact A4].
  Qed.

  (* ---------- tick ---------- *)
  Lemma advance_sys_inv s x t ms : SysInv c s -> end_of s x = ELive t ->
    SysInv c (match advance_time t ms with
              | (t1, TIgnore) => set_end s x (ELive t1)
              | (t1, TCloseConnection) => set_end (final_read s x t1) x EDead
              end).
  Proof.
    intros HI El. destruct (live_parts s x t HI El) as (HS & HR & Hb0 & Epv).
    destruct (advance_time t ms) as [t1 r] eqn:Ea.
    destruct (advance_time_inv _ _ _ _ _ _ _ HS Ea) as (A1 & A2 & A3).
    destruct r.
    - eapply (sysinv_live c s _ x); try exact HI; sysr; try reflexivity; try assumption.
      + apply HI.
      + rewrite A2, Epv. apply pv_le_refl.
      + fold (delivered s x). eapply RcvInv_same; eassumption.
      + exists []. split; [now rewrite app_nil_r|constructor].
    - eapply sysinv_die; try eassumption. eapply RcvInv_same; eassumption.
  Qed.

  Lemma tick_inv s x ms : SysInv c s -> SysInv c (fst (tick s x ms)).
  Proof.
    intros HI. unfold tick. destruct (emit_inv s x HI) as [H1 H2].
    destruct (emit s x) as [[s1 segs] bad]. cbn [fst snd] in *. subst bad.
    destruct (end_of s1 x) as [| |t|] eqn:El; try exact H1.
    pose proof (advance_sys_inv s1 x t ms H1 El) as H.
    destruct (advance_time t ms) as [t1 []]; exact H.
  Qed.

  (* ---------- arrival ---------- *)
  Lemma arrives_closed_plain h l h' : arrives_closed h l = Some h' -> plain_hdr h'.
  Proof.
    unfold arrives_closed. destruct (c_rst _); [discriminate|].
    destruct (c_ack _); intros [= <-]; split; reflexivity.
  Qed.

  Lemma reply_inv s r h : SysInv c s -> plain_hdr h ->
    SysInv c (set_net s r (net_of s r ++ [mkSeg h []])).
  Proof.
    intros HI Hp. apply sysinv_set_net; [exact HI|].
    apply Forall_app. split; [apply HI|]. constructor; [|constructor]. apply plain_seg_inv, Hp.
  Qed.

  Lemma arrive_inv s r seg : SysInv c s -> seg_inv (pv_of c s (other r)) seg ->
    SysInv c (fst (arrive c s r seg)).
  Proof.
    intros HI Hseg. pose proof HI as (P & W & E & N). unfold arrive.
    destruct (end_of s r) as [| |t|] eqn:El.
    - (* closed *)
      destruct (arrives_closed _ _) as [h|] eqn:Ec; cbn [fst]; [|exact HI].
      apply reply_inv; [exact HI|eapply arrives_closed_plain; eassumption].
    - (* listen *)
      destruct (closed_parts s r HI (or_intror El)) as (Ed & Es & Epv).
      pose proof (arrives_listen_inv (iss_of c r) (mtu_of c r) _ seg (iss_u32 r) (W (other r)) Hseg) as HL.
      destruct (arrives_listen seg (iss_of c r) (mtu_of c r)) as [|h|t]; cbn [fst].
      + exact HI.
      + apply reply_inv; assumption.
      + destruct HL as (A1 & A2 & A3).
        eapply (sysinv_live c s _ r); try exact HI; sysr; try reflexivity; try assumption.
        * rewrite Es. cbn. unfold SEQ_BOUND. lia.
        * rewrite Es, A3, Epv. apply pv_le_refl.
        * rewrite Es. exact A1.
        * fold (delivered s r). rewrite Ed. exact A2.
        * exists []. split; [now rewrite app_nil_r|constructor].
    - (* live *)
      destruct (live_parts s r t HI El) as (HS & HR & Hb0 & Epv).
      destruct (segment_arrives_inv _ _ _ _ _ (W (other r)) t seg HS HR Hseg)
        as (t' & res & Ea & A1 & A2 & A3).
      rewrite Ea. destruct res; cbn [fst].
      + eapply (sysinv_live c s _ r); try exact HI; sysr; try reflexivity; try assumption.
        * rewrite A3, Epv. apply pv_le_refl.
        * exists []. split; [now rewrite app_nil_r|constructor].
      + eapply sysinv_die; eassumption.
    - exact HI.
  Qed.

  (* ---------- network choices ---------- *)
  Lemma Forall_remove_nth {A} (P : A -> Prop) l n : Forall P l -> Forall P (remove_nth l n).
  Proof.
    revert n. induction l as [|a l IH]; intros n H; cbn [remove_nth]; [constructor|].
    inversion H; subst. destruct n; [assumption|]. constructor; auto.
  Qed.

  Lemma deliver_inv s x seg l : SysInv c s -> Forall (seg_inv (pv_of c s x)) l ->
    seg_inv (pv_of c s x) seg ->
    SysInv c (fst (arrive c (set_net s x l) (other x) seg)).
  Proof.
    intros HI Hl Hseg. apply arrive_inv; [apply sysinv_set_net; assumption|].
    rewrite other_other. rewrite !pv_of_eq in *. autorewrite with sysr. exact Hseg.
  Qed.

  Lemma deliver_all_inv fuel : forall s x, SysInv c s -> SysInv c (deliver_all fuel c s x).
  Proof.
    induction fuel as [|f IH]; intros s x HI; cbn [deliver_all]; [exact HI|].
    destruct (net_of s x) as [|seg rest] eqn:En; [exact HI|].
    apply IH. pose proof HI as (P & W & E & N). specialize (N x). rewrite En in N.
    inversion N; subst. apply deliver_inv; assumption.
  Qed.

  Lemma fair_half_t_inv s x ms one : SysInv c s -> SysInv c (fair_half_t c s x ms one).
  Proof.
    intros HI. unfold fair_half_t.
    pose proof (tick_inv s x ms HI) as H1.
    destruct (emit_inv (fst (tick s x ms)) x H1) as [H2 _].
    destruct (emit (fst (tick s x ms)) x) as [[s2 segs] bad]. cbn [fst] in H2.
    apply recv_inv, recv_inv, deliver_all_inv, H2.
  Qed.

  Lemma fair_half_inv s x : SysInv c s -> SysInv c (fair_half c s x).
  Proof. apply fair_half_t_inv. Qed.

  Lemma fair_rounds_t_inv ms one k : forall s, SysInv c s -> SysInv c (fair_rounds_t k c s ms one).
  Proof.
    induction k as [|k IH]; intros s HI; cbn [fair_rounds_t]; [exact HI|].
    apply IH, fair_half_t_inv, fair_half_t_inv, HI.
  Qed.

  Lemma fair_rounds_inv k : forall s, SysInv c s -> SysInv c (fair_rounds k c s).
  Proof.
    induction k as [|k IH]; intros s HI; cbn [fair_rounds]; [exact HI|].
    apply IH, fair_half_inv, fair_half_inv, HI.
  Qed.

  (* ---------- one label ---------- *)
  Lemma step_inv s l : SysInv c s -> no_inject l = true ->
    (forall x, zlen (sub_of (fst (sys_step c s l)) x) < SEQ_BOUND) ->
    SysInv c (fst (sys_step c s l)).
  Proof.
    intros HI Hl Hb. pose proof HI as (P & W & E & N).
    revert Hb. unfold sys_step. rewrite P.
    destruct l as [x|x bytes|x|x|x ms|x|x i|x i|x i|x seg|k|k ms one|]; intros Hb; cbn [fst].
    - destruct (end_of s x) eqn:El; try exact HI. cbn [fst]. apply open_inv; assumption.
    - destruct (end_of s x) as [| |t|] eqn:El; try exact HI. cbn [fst] in *.
      apply send_sys_inv; try assumption. specialize (Hb x). rewrite sub_set_end in Hb. exact Hb.
    - apply recv_inv, HI.
    - destruct (end_of s x) as [| |t|] eqn:El; try exact HI.
      destruct (tcb_close t) as [t1 r] eqn:Ecl. cbn [fst]. eapply close_sys_inv; eassumption.
    - apply tick_inv, HI.
    - destruct (end_of s x) as [| |t|] eqn:El; try exact HI.
      destruct (emit_inv s x HI) as [H1 H2]. destruct (emit s x) as [[s1 segs] bad].
      cbn [fst snd] in *. subst bad. exact H1.
    - destruct (net_of s x) as [|a n] eqn:En; [exact HI|].
      destruct (nth_error (a :: n) _) as [seg|] eqn:Enth; [|exact HI].
      specialize (N x). rewrite En in N.
      apply deliver_inv; [exact HI|apply Forall_remove_nth, N|].
      rewrite Forall_forall in N. apply N. eapply nth_error_In; eassumption.
    - destruct (net_of s x) as [|a n] eqn:En; [exact HI|]. cbn [fst].
      apply sysinv_set_net; [exact HI|]. apply Forall_remove_nth. specialize (N x). now rewrite En in N.
    - destruct (net_of s x) as [|a n] eqn:En; [exact HI|].
      destruct (nth_error (a :: n) _) as [seg|] eqn:Enth; [|exact HI]. cbn [fst].
      specialize (N x). rewrite En in N.
      apply sysinv_set_net; [exact HI|]. apply Forall_app. split; [exact N|].
      constructor; [|constructor]. rewrite Forall_forall in N. apply N. eapply nth_error_In; eassumption.
    - discriminate Hl.
    - apply fair_rounds_inv, HI.
    - apply fair_rounds_t_inv, HI.
    - exact HI.
  Qed.
End Ops.
