(* C03 (d): from a quiescent state, A closes, one loss-free round, B closes, two loss-free rounds,
   and A's 2*MSL timer: both endpoints are released.  For every quiescent state. *)
From Elvis Require Import Model.Base Model.U32 Model.Tcb Model.TcpNet
  Proofs.U32Facts Proofs.TcbSafetyDefs Proofs.TcbSafetyBase Proofs.TcbSafetySnd Proofs.TcbSafetyRcv
  Proofs.TcbSafetyArr Proofs.TcbSafetySys Proofs.TcbLive Proofs.TcbLiveSys Proofs.TcbLiveThm
  Proofs.TcbLiveHs Proofs.TcbLiveHsSys Proofs.TcbLiveEnd Proofs.TcbLiveWinRound Proofs.TcbLiveClose.
From Coq Require Import ZifyBool.
Local Open Scope Z_scope.
Ltac Zify.zify_post_hook ::= Z.div_mod_to_equations.

Lemma quiet_literal t a r : quiet t a r ->
  t = mkTcb (lport t) (rport t) (mtu t) (listen_init t) Established a a 65535 (snd_wl1 t) (snd_wl2 t)
            (snd_iss t) (rcv_irs t) r 65535 [] [] [] false [] [] RTO None.
Proof.
  intros (Q1 & Q2 & Q3 & Q4 & Q5 & Q6 & Q7 & Q8 & Q9 & Q10 & Q11 & Q12 & Q13 & Q14 & _).
  tcb_eq.
Qed.

Lemma quiescent_literal c s a b : Quiescent c s a b ->
  exists tA tB, quiet tA a b /\ quiet tB b a /\
    s = mkSys (ELive tA) (ELive tB) [] [] (subA s) (subB s) (delA s) (delB s) false.
Proof.
  intros (tA & tB & H1 & H2 & H3 & H4 & H5 & H6 & H7 & H8 & H9).
  exists tA, tB. splits; auto. apply sys_ext; try (intros x; destruct x; cbn; auto). cbn. auto.
Qed.

Lemma arrive_close_eval c s r t seg t1 :
  end_of s r = ELive t -> segment_arrives t seg = Ok (t1, AClose) ->
  fst (arrive c s r seg) = set_end (final_read s r t1) r EDead.
Proof. intros El Ea. unfold arrive. now rewrite El, Ea. Qed.

Lemma arrive_dead c s r seg : end_of s r = EDead -> fst (arrive c s r seg) = s.
Proof. intros El. unfold arrive. now rewrite El. Qed.

Lemma recv_dead s x : end_of s x = EDead -> fst (recv s x) = s.
Proof. intros El. unfold recv. now rewrite El. Qed.

Lemma final_read_nil s x t : in_text t = [] -> final_read s x t = s.
Proof. intros H. unfold final_read. now rewrite H. Qed.

Lemma advance_in_text t dt : in_text (fst (advance_time t dt)) = in_text t.
Proof.
  unfold advance_time. destruct (rto t <? dt); tcb_simpl;
    match goal with |- context [time_wait ?x] => destruct (time_wait x) as [tw|] end;
    try destruct (tw <? dt); reflexivity.
Qed.

(* a released endpoint does nothing in its half-round *)
Lemma half_dead c s y t : end_of s y = EDead -> net_of s y = [] ->
  end_of s (other y) = ELive t -> in_text t = [] -> fair_half c s y = s.
Proof.
  intros Ey Ny Eo Hi. unfold fair_half, fair_half_t, tick, emit. rewrite Ey. cbn iota beta.
  rewrite Ey. cbn [fst]. rewrite Ey. cbn iota beta. rewrite Ny. cbn [length deliver_all]. rewrite Ny.
  rewrite (recv_both s y). rewrite (recv_dead s y Ey).
  rewrite (recv_eval_empty s (other y) t Eo Hi).
  apply sys_ext.
  - intros x. destruct (side_cases (other y) x) as [-> | ->]; sysr; [|reflexivity].
    rewrite Eo. f_equal. tcb_eq. congruence.
  - intros x. now sysr.
  - intros x. now sysr.
  - intros x. now sysr.
  - now sysr.
Qed.

Ltac close_norm_in H :=
  cbv [sys_step tcb_close queue_pending_fin andb fst snd
       panicked end_of net_of sub_of del_of endA endB netA netB subA subB delA delB
       set_end set_net set_sub set_del other
       tcb_open listen_tcb enqueue ack_hdr hb hb_ack hb_wnd hb_flag hb_syn hb_fin hb_rst ctl0
       set_st set_snd_una set_snd_nxt set_snd_window set_rcv_irs set_rcv_nxt set_out_text
       set_retx set_oneshot set_fin_pending set_in_segs set_in_text set_rto set_time_wait
       lport rport mtu listen_init st snd_una snd_nxt snd_wnd snd_wl1 snd_wl2 snd_iss
       rcv_irs rcv_nxt rcv_wnd out_text retx oneshot fin_pending in_segs in_text rto time_wait
       h_sport h_dport h_seq h_ack h_ctl h_wnd h_urg c_urg c_ack c_psh c_rst c_syn c_fin
       s_hdr s_text t_seg t_needs orb app map] in H.

Section Close.
  Variable c : config.

  Theorem close_sequential s a b : Quiescent c s a b ->
    run c s [LClose SA; LFair 1; LClose SB; LFair 2; LTick SA 2001] =
    mkSys EDead EDead [] [] (subA s) (subB s) (delA s) (delB s) false.
  Proof.
    intros HQ. destruct (quiescent_literal c s a b HQ) as (tA & tB & QA & QB & Es).
    pose proof QA as (_ & _ & _ & _ & _ & _ & _ & _ & _ & _ & _ & _ & _ & _ & Hua & Hub & HmA).
    pose proof QB as (_ & _ & _ & _ & _ & _ & _ & _ & _ & _ & _ & _ & _ & _ & _ & _ & HmB).
    rewrite (quiet_literal tA a b QA), (quiet_literal tB b a QB) in Es.
    generalize dependent (lport tA). generalize dependent (rport tA). generalize dependent (listen_init tA).
    generalize dependent (snd_wl1 tA). generalize dependent (snd_wl2 tA). generalize dependent (snd_iss tA).
    generalize dependent (rcv_irs tA). generalize dependent (mtu tA).
    generalize dependent (lport tB). generalize dependent (rport tB). generalize dependent (listen_init tB).
    generalize dependent (snd_wl1 tB). generalize dependent (snd_wl2 tB). generalize dependent (snd_iss tB).
    generalize dependent (rcv_irs tB). generalize dependent (mtu tB).
    intros mB HmB irsB issB w2B w1B liB rpB lpB mA HmA irsA issA w2A w1A liA rpA lpA Es.
    clear QA QB tA tB.
    generalize dependent (subA s). generalize dependent (subB s).
    generalize dependent (delA s). generalize dependent (delB s).
    intros dB dA sB sA Es. subst s. clear HQ.
    cbn [run fold_left].
    (* ===== A closes ===== *)
    match goal with |- context [sys_step c ?s0 (LClose SA)] => set (s1 := fst (sys_step c s0 (LClose SA))) end.
    close_norm_in s1.
    match goal with s1 := mkSys (ELive ?x) (ELive ?y) _ _ _ _ _ _ _ |- _ => set (tA1 := x) in s1; set (tB0 := y) in s1 end.
    rewrite (fairk c s1 1 eq_refl). cbn [fair_rounds].
    (* ===== round 1, A's half: the FIN and its copy ===== *)
    set (finAh := mkHdr lpA rpA a b (mkCtl false true false false false true) 65535 0).
    set (finA := mkSeg finAh []).
    assert (HfinA : fin_ack finAh) by (unfold fin_ack; auto).
    assert (E1 : tcb_segments tA1 = Ok (set_rto (set_retx (set_oneshot tA1 []) [mkTx finA false]) RTO, [finA])).
    { rewrite segments_idle; try reflexivity. cbn. lia. }
    set (tA2 := set_rto _ RTO) in E1.
    pose proof (advance_101 tA2 eq_refl eq_refl) as E2.
    change (retx tA2) with [mkTx finA false] in E2. cbn [map t_seg] in E2.
    set (tA3 := set_retx _ _) in E2.
    assert (E3 : tcb_segments tA3 = Ok (set_rto (set_retx (set_oneshot tA3 []) [mkTx finA false]) RTO, [finA])).
    { rewrite segments_idle; try reflexivity. cbn. lia. }
    set (tA4 := set_rto _ RTO) in E3.
    pose proof (fin_arrives tB0 finAh eq_refl eq_refl eq_refl Hua HfinA eq_refl (mod_leq_refl b)) as G1.
    fold finA in G1.
    rewrite (ps_fin_first (set_in_segs tB0 []) finAh eq_refl eq_refl Hua eq_refl) in G1.
    cbv zeta in G1. cbn [set_in_segs st] in G1. set (tB1 := set_st _ CloseWait) in G1.
    pose proof (fin_again_arrives tB1 finAh eq_refl eq_refl eq_refl HfinA Hua eq_refl (mod_leq_refl b)) as G2.
    fold finA in G2.
    rewrite (ps_fin_again (set_in_segs tB1 []) finAh eq_refl eq_refl Hua eq_refl) in G2.
    cbv zeta in G2. cbn [set_in_segs st tB1 set_st] in G2. set (tB2 := set_oneshot _ _) in G2.
    assert (H1 : fair_half c s1 SA =
      mkSys (ELive (set_in_text tA4 [])) (ELive (set_in_text tB2 [])) [] [] sA sB dA dB false).
    { unfold fair_half, fair_half_t.
      rewrite (tick_eval s1 SA tA1 tA2 [finA] tA3 101 eq_refl E1 E2). subst s1. sys_simpl. cbn [app].
      set (s1' := mkSys _ _ _ _ _ _ _ _ _).
      rewrite (emit_eval s1' SA tA3 tA4 [finA] eq_refl E3). cbn iota beta. subst s1'. sys_simpl. cbn [app length].
      cbn iota.
      rewrite deliver_all_cons with (seg := finA) (rest := [finA]) by reflexivity. sys_simpl.
      erewrite (arrive_eval c _ SB tB0 finA tB1); [|reflexivity|exact G1]. sys_simpl.
      rewrite deliver_all_cons with (seg := finA) (rest := []) by reflexivity. sys_simpl.
      erewrite (arrive_eval c _ SB tB1 finA tB2); [|reflexivity|exact G2]. sys_simpl.
      rewrite deliver_all_nil by reflexivity.
      erewrite (recv_eval_empty _ SA tA4); [|reflexivity|reflexivity]. sys_simpl.
      erewrite (recv_eval_empty _ SB tB2); [|reflexivity|reflexivity]. sys_simpl. reflexivity. }
    rewrite H1. clear H1 E1 E2 E3 G1 G2. subst tA4 tA3 tA2 tA1 tB2 tB1 tB0 s1. tcb_norm.
    match goal with |- context [mkSys (ELive ?x) (ELive ?y)] => set (tA5 := x); set (tB3 := y) end.
    set (s2 := mkSys _ _ _ _ _ _ _ _ _).
    (* ===== round 1, B's half: the two ACKs; A reaches FIN-WAIT-2 ===== *)
    set (ackBh := mkHdr lpB rpB b (wadd a 1) (mkCtl false true false false false false) 65535 0).
    set (ackB := mkSeg ackBh []).
    assert (HackB : ack_only ackBh) by (unfold ack_only; auto).
    assert (F1 : tcb_segments tB3 = Ok (set_retx (set_oneshot tB3 []) [], [ackB; ackB])).
    { rewrite segments_idle; try reflexivity. cbn. lia. }
    set (tB4 := set_retx _ _) in F1.
    pose proof (advance_101 tB4 eq_refl eq_refl) as F2.
    change (retx tB4) with (@nil transmit) in F2. cbn [map] in F2.
    set (tB5 := set_retx _ _) in F2.
    assert (F3 : tcb_segments tB5 = Ok (set_retx (set_oneshot tB5 []) [], [])).
    { rewrite segments_idle; try reflexivity. cbn. lia. }
    set (tB6 := set_retx _ _) in F3.
    destruct (ack_of_fin_finwait1 tA5 ackBh (mkTx (mkSeg (mkHdr lpA rpA a b (mkCtl false true false false false true) 65535 0) []) false)
                eq_refl eq_refl eq_refl eq_refl Hub HackB eq_refl Hua eq_refl eq_refl eq_refl eq_refl eq_refl)
      as (w & wl1 & wl2 & G1 & Hwv).
    assert (Hw : w = 65535) by (destruct Hwv as [-> | ->]; reflexivity). subst w. clear Hwv.
    fold ackB in G1. set (tA6 := set_st _ FinWait2) in G1.
    assert (G2 : segment_arrives tA6 ackB = Ok (set_in_segs tA6 [], AOk)).
    { apply ack_noop_arrives; try reflexivity; try assumption. apply mod_leq_refl. }
    set (tA7 := set_in_segs tA6 []) in G2.
    assert (H2 : fair_half c s2 SB =
      mkSys (ELive (set_in_text tA7 [])) (ELive (set_in_text tB6 [])) [] [] sA sB dA dB false).
    { unfold fair_half, fair_half_t.
      rewrite (tick_eval s2 SB tB3 tB4 [ackB; ackB] tB5 101 eq_refl F1 F2). subst s2. sys_simpl. cbn [app].
      set (s2' := mkSys _ _ _ _ _ _ _ _ _).
      rewrite (emit_eval s2' SB tB5 tB6 [] eq_refl F3). cbn iota beta. subst s2'. sys_simpl. cbn [app length].
      cbn iota.
      rewrite deliver_all_cons with (seg := ackB) (rest := [ackB]) by reflexivity. sys_simpl.
      erewrite (arrive_eval c _ SA tA5 ackB tA6); [|reflexivity|exact G1]. sys_simpl.
      rewrite deliver_all_cons with (seg := ackB) (rest := []) by reflexivity. sys_simpl.
      erewrite (arrive_eval c _ SA tA6 ackB tA7); [|reflexivity|exact G2]. sys_simpl.
      rewrite deliver_all_nil by reflexivity.
      erewrite (recv_eval_empty _ SA tA7); [|reflexivity|reflexivity]. sys_simpl.
      erewrite (recv_eval_empty _ SB tB6); [|reflexivity|reflexivity]. sys_simpl. reflexivity. }
    rewrite H2. clear H2 F1 F2 F3 G1 G2. subst tA7 tA6 tA5 tB6 tB5 tB4 tB3 s2. tcb_norm.
    (* ===== B closes ===== *)
    match goal with |- context [sys_step c ?s0 (LClose SB)] => set (s3 := fst (sys_step c s0 (LClose SB))) end.
    close_norm_in s3.
    match goal with s3 := mkSys (ELive ?x) (ELive ?y) _ _ _ _ _ _ _ |- _ => set (tA9 := x) in s3; set (tB8 := y) in s3 end.
    rewrite (fairk c s3 2 eq_refl). cbn [fair_rounds].
    (* ===== round 2, A's half: nothing to do in FIN-WAIT-2 ===== *)
    assert (K1 : tcb_segments tA9 = Ok (set_retx (set_oneshot tA9 []) [], [])).
    { rewrite segments_idle; try reflexivity. cbn. lia. }
    set (tA10 := set_retx _ _) in K1.
    pose proof (advance_101 tA10 eq_refl eq_refl) as K2.
    change (retx tA10) with (@nil transmit) in K2. cbn [map] in K2.
    set (tA11 := set_retx _ _) in K2.
    assert (K3 : tcb_segments tA11 = Ok (set_retx (set_oneshot tA11 []) [], [])).
    { rewrite segments_idle; try reflexivity. cbn. lia. }
    set (tA12 := set_retx _ _) in K3.
    assert (H3 : fair_half c s3 SA =
      mkSys (ELive (set_in_text tA12 [])) (ELive (set_in_text tB8 [])) [] [] sA sB dA dB false).
    { unfold fair_half, fair_half_t.
      rewrite (tick_eval s3 SA tA9 tA10 [] tA11 101 eq_refl K1 K2). subst s3. sys_simpl. cbn [app].
      set (s3' := mkSys _ _ _ _ _ _ _ _ _).
      rewrite (emit_eval s3' SA tA11 tA12 [] eq_refl K3). cbn iota beta. subst s3'. sys_simpl. cbn [app length].
      cbn iota. rewrite deliver_all_nil by reflexivity.
      erewrite (recv_eval_empty _ SA tA12); [|reflexivity|reflexivity]. sys_simpl.
      erewrite (recv_eval_empty _ SB tB8); [|reflexivity|reflexivity]. sys_simpl. reflexivity. }
    rewrite H3. clear H3 K1 K2 K3. subst tA12 tA11 tA10 tA9 tB8 s3. tcb_norm.
    match goal with |- context [mkSys (ELive ?x) (ELive ?y)] => set (tA13 := x); set (tB9 := y) end.
    set (s4 := mkSys _ _ _ _ _ _ _ _ _).
    (* ===== round 2, B's half: B's FIN and its copy; A enters TIME-WAIT ===== *)
    set (finBh := mkHdr lpB rpB b (wadd a 1) (mkCtl false true false false false true) 65535 0).
    set (finB := mkSeg finBh []).
    assert (HfinB : fin_ack finBh) by (unfold fin_ack; auto).
    assert (L1 : tcb_segments tB9 = Ok (set_rto (set_retx (set_oneshot tB9 []) [mkTx finB false]) RTO, [finB])).
    { rewrite segments_idle; try reflexivity. cbn. lia. }
    set (tB10 := set_rto _ RTO) in L1.
    pose proof (advance_101 tB10 eq_refl eq_refl) as L2.
    change (retx tB10) with [mkTx finB false] in L2. cbn [map t_seg] in L2.
    set (tB11 := set_retx _ _) in L2.
    assert (L3 : tcb_segments tB11 = Ok (set_rto (set_retx (set_oneshot tB11 []) [mkTx finB false]) RTO, [finB])).
    { rewrite segments_idle; try reflexivity. cbn. lia. }
    set (tB12 := set_rto _ RTO) in L3.
    pose proof (fin_arrives tA13 finBh eq_refl eq_refl eq_refl Hub HfinB eq_refl (mod_leq_refl (wadd a 1))) as M1.
    fold finB in M1.
    rewrite (ps_fin_first (set_in_segs tA13 []) finBh eq_refl eq_refl Hub eq_refl) in M1.
    cbv zeta in M1. cbn [set_in_segs st] in M1. set (tA14 := set_rto _ RTO) in M1.
    pose proof (fin_in_timewait tA14 finBh eq_refl eq_refl eq_refl HfinB Hub eq_refl) as M2.
    cbv zeta in M2. fold finB in M2. set (tA15 := set_time_wait _ _) in M2.
    assert (H4 : fair_half c s4 SB =
      mkSys (ELive (set_in_text tA15 [])) (ELive (set_in_text tB12 [])) [] [] sA sB dA dB false).
    { unfold fair_half, fair_half_t.
      rewrite (tick_eval s4 SB tB9 tB10 [finB] tB11 101 eq_refl L1 L2). subst s4. sys_simpl. cbn [app].
      set (s4' := mkSys _ _ _ _ _ _ _ _ _).
      rewrite (emit_eval s4' SB tB11 tB12 [finB] eq_refl L3). cbn iota beta. subst s4'. sys_simpl. cbn [app length].
      cbn iota.
      rewrite deliver_all_cons with (seg := finB) (rest := [finB]) by reflexivity. sys_simpl.
      erewrite (arrive_eval c _ SA tA13 finB tA14); [|reflexivity|exact M1]. sys_simpl.
      rewrite deliver_all_cons with (seg := finB) (rest := []) by reflexivity. sys_simpl.
      erewrite (arrive_eval c _ SA tA14 finB tA15); [|reflexivity|exact M2]. sys_simpl.
      rewrite deliver_all_nil by reflexivity.
      erewrite (recv_eval_empty _ SA tA15); [|reflexivity|reflexivity]. sys_simpl.
      erewrite (recv_eval_empty _ SB tB12); [|reflexivity|reflexivity]. sys_simpl. reflexivity. }
    rewrite H4. clear H4 L1 L2 L3 M1 M2 HfinB. subst tA15 tA14 tA13 tB12 tB11 tB10 tB9 s4 finB finBh. tcb_norm.
    match goal with |- context [mkSys (ELive ?x) (ELive ?y)] => set (tA16 := x); set (tB13 := y) end.
    set (s5 := mkSys _ _ _ _ _ _ _ _ _).
    (* ===== round 3 (second round of LFair 2), A's half: the ACKs; B's TCB is deleted ===== *)
    set (kh := mkHdr lpA rpA (wadd a 1) (wadd b 1) (mkCtl false true false false false false) 65535 0).
    set (k := mkSeg kh []).
    assert (Hk : ack_only kh) by (unfold ack_only; auto).
    assert (N1 : tcb_segments tA16 = Ok (set_retx (set_oneshot tA16 []) [], [k; k; k])).
    { rewrite segments_idle; try reflexivity. cbn. lia. }
    set (tA17 := set_retx _ _) in N1.
    pose proof (advance_101_tw tA17 MSL2 eq_refl eq_refl ltac:(unfold MSL2; lia)) as N2.
    change (retx tA17) with (@nil transmit) in N2. cbn [map] in N2.
    set (tA18 := set_time_wait _ _) in N2.
    assert (N3 : tcb_segments tA18 = Ok (set_retx (set_oneshot tA18 []) [], [])).
    { rewrite segments_idle; try reflexivity. cbn. lia. }
    set (tA19 := set_retx _ _) in N3.
    destruct (ack_of_fin_lastack tB13 kh
                (mkTx (mkSeg (mkHdr lpB rpB b (wadd a 1) (mkCtl false true false false false true) 65535 0) []) false)
                eq_refl eq_refl eq_refl eq_refl (wadd_u32 a 1) Hk eq_refl Hub eq_refl eq_refl eq_refl eq_refl eq_refl)
      as (tB14 & P1 & P2).
    fold k in P1. change (in_text tB13) with (@nil Z) in P2.
    assert (H5 : fair_half c s5 SA =
      mkSys (ELive (set_in_text tA19 [])) EDead [] [] sA sB dA dB false).
    { unfold fair_half, fair_half_t.
      rewrite (tick_eval s5 SA tA16 tA17 [k; k; k] tA18 101 eq_refl N1 N2). subst s5. sys_simpl. cbn [app].
      set (s5' := mkSys _ _ _ _ _ _ _ _ _).
      rewrite (emit_eval s5' SA tA18 tA19 [] eq_refl N3). cbn iota beta. subst s5'. sys_simpl. cbn [app length].
      cbn iota.
      rewrite deliver_all_cons with (seg := k) (rest := [k; k]) by reflexivity. sys_simpl.
      erewrite (arrive_close_eval c _ SB tB13 k tB14); [|reflexivity|exact P1].
      rewrite (final_read_nil _ SB tB14 P2). sys_simpl.
      rewrite deliver_all_cons with (seg := k) (rest := [k]) by reflexivity. sys_simpl.
      rewrite arrive_dead by reflexivity.
      rewrite deliver_all_cons with (seg := k) (rest := []) by reflexivity. sys_simpl.
      rewrite arrive_dead by reflexivity.
      rewrite deliver_all_nil by reflexivity.
      erewrite (recv_eval_empty _ SA tA19); [|reflexivity|reflexivity]. sys_simpl.
      rewrite recv_dead by reflexivity. reflexivity. }
    rewrite H5. clear H5 N1 N2 N3 P1 P2. subst tA19 tA18 tA17 tA16 s5. clear tB13 tB14. tcb_norm.
    match goal with |- context [mkSys (ELive ?x) EDead] => set (tA20 := x) end.
    set (s6 := mkSys _ _ _ _ _ _ _ _ _).
    (* ===== B's half: nothing (B is released) ===== *)
    rewrite (half_dead c s6 SB tA20 eq_refl eq_refl eq_refl eq_refl).
    (* ===== A's 2*MSL timer ===== *)
    assert (R1 : tcb_segments tA20 = Ok (set_retx (set_oneshot tA20 []) [], [])).
    { rewrite segments_idle; try reflexivity. cbn. lia. }
    set (tA21 := set_retx _ _) in R1.
    unfold sys_step. cbn [panicked s6]. unfold tick.
    rewrite (emit_eval s6 SA tA20 tA21 [] eq_refl R1). cbn iota beta. subst s6. sys_simpl. cbn [app].
    pose proof (advance_expire tA21 (MSL2 - 101) 2001 eq_refl ltac:(unfold MSL2; lia)) as R2.
    pose proof (advance_in_text tA21 2001) as R3. change (in_text tA21) with (@nil Z) in R3.
    destruct (advance_time tA21 2001) as [tA22 r]. cbn [fst snd] in R2, R3. subst r.
    cbn [fst]. rewrite (final_read_nil _ SA tA22 R3). sys_simpl. reflexivity.
  Qed.
End Close.

Definition close_trace : list label := [LClose SA; LFair 1; LClose SB; LFair 2; LTick SA 2001].

Lemma release_explicit : forall (c : config) (s : sys) (a b : Z),
  Quiescent c s a b ->
  let s' := run c s close_trace in
  endA s' = EDead /\ endB s' = EDead /\ netA s' = [] /\ netB s' = [] /\ panicked s' = false /\
  subA s' = subA s /\ subB s' = subB s /\ delivered s' SA = delivered s SA /\ delivered s' SB = delivered s SB.
Proof.
  intros c s a b HQ s'. subst s'. unfold close_trace. rewrite (close_sequential c s a b HQ).
  cbn. auto 10.
Qed.

Lemma release_from_start_explicit : forall (c : config) (listenB : bool) (ws : list (side * list Z)),
  u32 (issA c) -> u32 (issB c) -> 100 <= mtuA c <= 65535 -> 100 <= mtuB c <= 65535 ->
  (forall w, In w ws -> 0 < zlen (snd w)) ->
  let s := run c (init_sys listenB) (open_trace listenB ++ any_write_trace ws ++ close_trace) in
  endA s = EDead /\ endB s = EDead /\ netA s = [] /\ netB s = [] /\ panicked s = false /\
  forall x, sub_of s x = concat (chunks x ws) /\ delivered s (other x) = concat (chunks x ws).
Proof.
  intros c listenB ws H1 H2 H3 H4 Hw s. subst s. rewrite app_assoc, run_app.
  destruct (from_start_any_explicit c listenB ws H1 H2 H3 H4 Hw) as ((a & b & HQ) & Hx).
  set (s0 := run c (init_sys listenB) (open_trace listenB ++ any_write_trace ws)) in *.
  destruct (release_explicit c s0 a b HQ) as (R1 & R2 & R3 & R4 & R5 & R6 & R7 & R8 & R9).
  cbv zeta in *. splits; auto.
  intros x. destruct (Hx x) as [A B].
  destruct x; cbn [other sub_of] in *; rewrite ?R6, ?R7, ?R8, ?R9; auto.
Qed.
