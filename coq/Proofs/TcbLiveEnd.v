(* C01 liveness (partial), end to end: open (passive or simultaneous), then any sequence of
   small writes - for every configuration. *)
From Elvis Require Import Model.Base Model.U32 Model.Tcb Model.TcpNet
  Proofs.U32Facts Proofs.TcbSafetyDefs Proofs.TcbSafetyBase Proofs.TcbSafetySys
  Proofs.TcbLiveSys Proofs.TcbLiveThm Proofs.TcbLiveHsSys.
Local Open Scope Z_scope.

Definition open_trace (listenB : bool) : list label :=
  if listenB then [LOpen SA; LFair 2] else [LOpen SA; LOpen SB; LFair 2].

Lemma handshake_explicit : forall (c : config) (listenB : bool),
  u32 (issA c) -> u32 (issB c) -> 100 <= mtuA c <= 65535 -> 100 <= mtuB c <= 65535 ->
  let s := run c (init_sys listenB) (open_trace listenB) in
  Quiescent c s (wadd (issA c) 1) (wadd (issB c) 1) /\
  subA s = [] /\ subB s = [] /\ delA s = [] /\ delB s = [].
Proof.
  intros c listenB H1 H2 H3 H4 s. assert (Hc : cfg_ok c) by (unfold cfg_ok; auto).
  subst s. destruct listenB; cbn [open_trace].
  - apply (handshake_passive c Hc).
  - apply (handshake_simultaneous c Hc).
Qed.

Lemma from_start_explicit : forall (c : config) (listenB : bool) (ws : list (side * list Z)),
  u32 (issA c) -> u32 (issB c) -> 100 <= mtuA c <= 65535 -> 100 <= mtuB c <= 65535 ->
  (forall w, In w ws -> 0 < zlen (snd w) <= mtu_of c (fst w) - 50) ->
  let s := run c (init_sys listenB) (open_trace listenB ++ write_trace ws) in
  (exists a b, Quiescent c s a b) /\
  forall x, sub_of s x = concat (chunks x ws) /\ delivered s (other x) = concat (chunks x ws).
Proof.
  intros c listenB ws H1 H2 H3 H4 Hw s. subst s. rewrite run_app.
  destruct (handshake_explicit c listenB H1 H2 H3 H4) as (HQ & F1 & F2 & F3 & F4).
  set (s0 := run c (init_sys listenB) (open_trace listenB)) in *.
  destruct (liveness_partial_explicit c ws s0 _ _ HQ Hw) as [HQ' Hx].
  split; [exact HQ'|]. intros x. destruct (Hx x) as [A B]. rewrite A, B.
  unfold delivered. destruct x; cbn [other sub_of del_of]; rewrite ?F1, ?F2, ?F3, ?F4; auto.
Qed.
