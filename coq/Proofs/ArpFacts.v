(* ARP codec: round trips and totality (kit codecapp). *)
From Coq Require Import ZifyBool.
From Elvis Require Import Model.Base Model.AppBytes Model.Arp Proofs.AppBytesFacts.
Local Open Scope Z_scope.
Ltac Zify.zify_post_hook ::= Z.div_mod_to_equations.

Ltac split_andb H :=
  repeat match type of H with
         | (_ && _) = true => let H' := fresh H in apply andb_prop in H as [H H']
         end.

Lemma oper_dec_enc o :
  (if oper_u16 o =? 1 then Ok Request else if oper_u16 o =? 2 then Ok Reply else Err 2) = Ok o.
Proof. destruct o; reflexivity. Qed.

Lemma oper_range o : 0 <= oper_u16 o < 65536.
Proof. destruct o; cbn [oper_u16]; lia. Qed.

(* decode after encode, for every representable packet: MACs come back mod 2^48 *)
Lemma arp_decode_encode_repr h rest : arp_repr h = true ->
  arp_from_bytes (arp_build h ++ rest) = Ok (arp_trunc h, rest).
Proof.
  destruct h as [ht pt hl pl op sm si tm ti].
  unfold arp_repr, arp_trunc, arp_build, arp_from_bytes, next_ipv4.
  cbn [a_htype a_ptype a_hlen a_plen a_oper a_smac a_sip a_tmac a_tip].
  intros W.
  repeat match type of W with (_ && _) = true => let W' := fresh "W" in apply andb_prop in W as [W W'] end.
  repeat match goal with H : rng _ _ = true |- _ => apply rng_iff in H end.
  rewrite <- !app_assoc.
  rewrite next_u16_be16 by lia. cbn [rd bind].
  rewrite next_u16_be16 by lia. cbn [rd bind].
  rewrite next_u8_be8 by lia. cbn [rd bind].
  rewrite next_u8_be8 by lia. cbn [rd bind].
  rewrite next_u16_be16 by apply oper_range. cbn [rd bind].
  rewrite oper_dec_enc. cbn [bind].
  rewrite next_u48_be48_mod by lia. cbn [rd bind].
  rewrite next_u32_be32 by lia. cbn [rd bind].
  rewrite next_u48_be48_mod by lia. cbn [rd bind].
  rewrite next_u32_be32 by lia. cbn [rd bind].
  reflexivity.
Qed.

Lemma arp_trunc_wf h : arp_wf h = true -> arp_trunc h = h.
Proof.
  destruct h as [ht pt hl pl op sm si tm ti]. unfold arp_wf, arp_trunc.
  cbn [a_htype a_ptype a_hlen a_plen a_oper a_smac a_sip a_tmac a_tip].
  intros W. apply andb_prop in W as [W W2]. apply andb_prop in W as [_ W1].
  apply rng_iff in W1, W2. rewrite !Z.mod_small by lia. reflexivity.
Qed.

Lemma arp_decode_encode h rest : arp_wf h = true ->
  arp_from_bytes (arp_build h ++ rest) = Ok (h, rest).
Proof.
  intros W. pose proof W as W'. unfold arp_wf in W'.
  apply andb_prop in W' as [W' _]. apply andb_prop in W' as [R _].
  rewrite (arp_decode_encode_repr h rest R), (arp_trunc_wf h W). reflexivity.
Qed.

(* a representable packet outside the quantifier (MAC above 2^48) is not
   given back: the encoder drops the two top bytes *)
Lemma arp_wide_mac_truncated :
  exists h, arp_repr h = true /\
            arp_from_bytes (arp_build h) = Ok (arp_trunc h, []) /\ arp_trunc h <> h.
Proof.
  exists (mkArp 1 2048 6 4 Request 281474976710656 0 0 0).
  split; [reflexivity|]. split; [vm_compute; reflexivity|]. vm_compute. discriminate.
Qed.

(* the bytes consumed by an accepted string are the encoding of the result *)
Lemma arp_encode_decode bs h rest : bytes bs = true ->
  arp_from_bytes bs = Ok (h, rest) ->
  bs = arp_build h ++ rest /\ arp_wf h = true /\ bytes rest = true.
Proof.
  unfold arp_from_bytes, next_ipv4. intros B H.
  apply bind_ok in H as [[ht b1] [E1 H]]. apply rd_ok in E1.
  apply (next_u16_inv _ _ _ B) in E1 as (-> & R1 & B1).
  apply bind_ok in H as [[pt b2] [E2 H]]. apply rd_ok in E2.
  apply (next_u16_inv _ _ _ B1) in E2 as (-> & R2 & B2).
  apply bind_ok in H as [[hl b3] [E3 H]]. apply rd_ok in E3.
  apply (next_u8_inv _ _ _ B2) in E3 as (-> & R3 & B3).
  apply bind_ok in H as [[pl b4] [E4 H]]. apply rd_ok in E4.
  apply (next_u8_inv _ _ _ B3) in E4 as (-> & R4 & B4).
  apply bind_ok in H as [[op b5] [E5 H]]. apply rd_ok in E5.
  apply (next_u16_inv _ _ _ B4) in E5 as (-> & R5 & B5).
  apply bind_ok in H as [o [E6 H]].
  apply bind_ok in H as [[sm b6] [E7 H]]. apply rd_ok in E7.
  apply (next_u48_inv _ _ _ B5) in E7 as (-> & R7 & B7).
  apply bind_ok in H as [[si b7] [E8 H]]. apply rd_ok in E8.
  apply (next_u32_inv _ _ _ B7) in E8 as (-> & R8 & B8).
  apply bind_ok in H as [[tm b8] [E9 H]]. apply rd_ok in E9.
  apply (next_u48_inv _ _ _ B8) in E9 as (-> & R9 & B9).
  apply bind_ok in H as [[ti b9] [E10 H]]. apply rd_ok in E10.
  apply (next_u32_inv _ _ _ B9) in E10 as (-> & R10 & B10).
  inversion H; subst. clear H.
  assert (Eop : op = oper_u16 o).
  { destruct (op =? 1) eqn:O1; [inversion E6; subst; cbn; lia|].
    destruct (op =? 2) eqn:O2; [inversion E6; subst; cbn; lia|]. discriminate. }
  subst op.
  split; [|split; [|exact B10]].
  - unfold arp_build. cbn [a_htype a_ptype a_hlen a_plen a_oper a_smac a_sip a_tmac a_tip].
    rewrite <- !app_assoc. reflexivity.
  - unfold arp_wf, arp_repr. cbn [a_htype a_ptype a_hlen a_plen a_oper a_smac a_sip a_tmac a_tip].
    rewrite R1, R2, R3, R4, R8, R10, R7, R9. cbn [andb].
    apply rng_iff in R7, R9. unfold rng. lia.
Qed.

Lemma arp_build_length h : length (arp_build h) = 28%nat.
Proof. reflexivity. Qed.

Lemma arp_encode_decode_firstn bs h rest : bytes bs = true ->
  arp_from_bytes bs = Ok (h, rest) ->
  arp_build h = firstn (length bs - length rest) bs /\ (length bs - length rest = 28)%nat.
Proof.
  intros B H. destruct (arp_encode_decode bs h rest B H) as (E & _ & _).
  split; [exact (consumed_firstn _ _ _ E)|].
  rewrite E at 1. rewrite app_length, arp_build_length. lia.
Qed.

(* no input makes the decoder panic: it has no panic site *)
Ltac step_rd := apply bind_answers; [apply rd_answers | intros [? ?] _].

(* every input gets a value or an error: the decoder has no panic site *)
Lemma arp_answers bs : answers (arp_from_bytes bs) = true.
Proof.
  unfold arp_from_bytes. do 5 step_rd.
  apply bind_answers;
    [destruct (_ =? 1); [reflexivity|]; destruct (_ =? 2); reflexivity | intros o _].
  do 4 step_rd. reflexivity.
Qed.

Lemma arp_total bs : is_panic (arp_from_bytes bs) = false.
Proof. apply answers_no_panic, arp_answers. Qed.

Lemma arp_value_or_error bs :
  (exists r, arp_from_bytes bs = Ok r) \/ (exists e, arp_from_bytes bs = Err e).
Proof. apply answers_cases, arp_answers. Qed.
