(* C01 liveness: the round theorem for writes of up to one window and its corollaries. *)
From Elvis Require Import Model.Base Model.U32 Model.Tcb Model.TcpNet
  Proofs.U32Facts Proofs.TcbSafetyDefs Proofs.TcbSafetyBase Proofs.TcbSafetySnd Proofs.TcbSafetyRcv Proofs.TcbSafetySys
  Proofs.TcbLive Proofs.TcbLiveSys Proofs.TcbLiveThm Proofs.TcbLiveWin Proofs.TcbLiveWinSys
  Proofs.TcbLiveWinThm Proofs.TcbLiveHsSys Proofs.TcbLiveEnd.
From Coq Require Import ZifyBool.
Local Open Scope Z_scope.
Ltac Zify.zify_post_hook ::= Z.div_mod_to_equations.

(* the state between flights: x still has [bytes] to send, everything else is quiescent;
   p = SND.UNA = SND.NXT of x, q = the same of the peer *)
Definition WriterState (c : config) (x : side) (s : sys) (p q : Z) (bytes : list Z) : Prop :=
  exists tx ty, end_of s x = ELive tx /\ end_of s (other x) = ELive ty /\
    writer tx p q bytes /\ quiet ty q p /\ mtu tx = mtu_of c x /\ mtu ty = mtu_of c (other x) /\
    net_of s x = [] /\ net_of s (other x) = [] /\ panicked s = false.

(* number of loss-free rounds that carry n bytes: one per window, plus one *)
Definition rounds_for (n : Z) : nat := Datatypes.S (Z.to_nat ((n + 65534) / 65535)).

Section RoundN.
  Variable c : config.

  Definition pair_round (x : side) (s : sys) : sys := fair_half c (fair_half c s x) (other x).
  Fixpoint pairs (k : nat) (x : side) (s : sys) : sys :=
    match k with O => s | Datatypes.S k' => pairs k' x (pair_round x s) end.

  Lemma quiescent_writerstate s a b x : Quiescent c s a b -> WriterState c x s (sel x a b) (sel x b a) [].
  Proof.
    intros HQ. destruct (quiescent_at c s a b x HQ) as (tx & ty & H).
    exists tx, ty. exact H.
  Qed.

  Lemma writerstate_quiescent s x p q : WriterState c x s p q [] -> Quiescent c s (sel x p q) (sel x q p).
  Proof.
    intros (tx & ty & H1 & H2 & H3 & H4 & H5 & H6 & H7 & H8 & H9).
    eapply quiescent_from; eassumption.
  Qed.

  (* one flight and its acknowledgments *)
  Lemma pair_round_spec x s p q bytes : WriterState c x s p q bytes -> 0 < zlen bytes ->
    let m := Z.min (zlen bytes) 65535 in
    let s' := pair_round x s in
    WriterState c x s' (wadd p m) q (skipn (Z.to_nat m) bytes) /\
    (forall y, sub_of s' y = sub_of s y) /\ del_of s' x = del_of s x /\
    del_of s' (other x) = del_of s (other x) ++ [firstn (Z.to_nat m) bytes].
  Proof.
    intros (tx & ty & Ex & Ey & Wx & Qy & Mx & My & Nx & Ny & Pn) Hn m s'.
    destruct (half_sendN c s x tx ty p q bytes Ex Ey Nx Ny Pn Wx Qy Hn)
      as (tx2 & ty2 & segs & E1 & E2 & E3 & E4 & E5 & E6 & E7 & E8 & E9 & E10 & E11 & E12).
    cbv zeta in *. fold m in E8, E9, E10.
    set (s2 := fair_half c s x) in *.
    assert (E1' : end_of s2 (other (other x)) = ELive tx2) by (now rewrite other_other).
    assert (E3' : net_of s2 (other (other x)) = []) by (now rewrite other_other).
    destruct (half_ackN c s2 (other x) ty2 tx2 p q (wadd p m) segs _ E2 E1' E4 E3' E5 E10 E9)
      as (ty3 & tx3 & F1 & F2 & F3 & F4 & F5 & F6 & F7 & F8 & F9 & F10 & F11).
    cbv zeta in *. rewrite other_other in *.
    subst s'. unfold pair_round. fold s2.
    split; [|split; [|split]].
    - exists tx3, ty3. splits; auto; congruence.
    - intros y. rewrite F6. apply E6.
    - rewrite F7. exact E7.
    - rewrite F7. exact E8.
  Qed.

  Lemma pair_round_idle x s p q : WriterState c x s p q [] -> pair_round x s = s.
  Proof.
    intros (tx & ty & Ex & Ey & Wx & Qy & Mx & My & Nx & Ny & Pn). unfold pair_round.
    rewrite (half_idle c s x tx ty p q Ex Wx Nx Ey (quiet_in_text _ _ _ Qy)).
    assert (Ex' : end_of s (other (other x)) = ELive tx) by (now rewrite other_other).
    apply (half_idle c s (other x) ty tx q p Ey Qy Ny Ex' (quiet_in_text _ _ _ Wx)).
  Qed.

  Lemma pairs_idle k x s p q : WriterState c x s p q [] -> pairs k x s = s.
  Proof.
    induction k as [|k IH]; intros H; cbn [pairs]; [reflexivity|].
    rewrite (pair_round_idle x s p q H). apply IH, H.
  Qed.

  Lemma pairs_spec x q : forall k bytes s p, WriterState c x s p q bytes -> zlen bytes <= 65535 * Z.of_nat k ->
    let s' := pairs k x s in
    WriterState c x s' (wadd p (zlen bytes)) q [] /\
    (forall y, sub_of s' y = sub_of s y) /\ del_of s' x = del_of s x /\
    delivered s' (other x) = delivered s (other x) ++ bytes.
  Proof.
    induction k as [|k IH]; intros bytes s p HW Hk s'.
    - assert (Hb : bytes = []) by (apply zlen_zero_nil; pose proof (zlen_nonneg bytes); lia).
      subst bytes s'. cbn [pairs]. rewrite app_nil_r. splits; auto.
      change (zlen (@nil Z)) with 0.
      destruct HW as (tx & ty & H1 & H2 & H3 & H4). 
      assert (Hu : u32 p) by apply H3. rewrite (wadd_0_u32 p Hu).
      exists tx, ty. auto.
    - destruct (Z.eq_dec (zlen bytes) 0) as [Hz|Hz].
      + assert (Hb : bytes = []) by (apply zlen_zero_nil; exact Hz). subst bytes s'.
        rewrite (pairs_idle _ x s p q HW). rewrite app_nil_r. splits; auto.
        change (zlen (@nil Z)) with 0.
        destruct HW as (tx & ty & H1 & H2 & H3 & H4).
        assert (Hu : u32 p) by apply H3. rewrite (wadd_0_u32 p Hu).
        exists tx, ty. auto.
      + pose proof (zlen_nonneg bytes) as Hn0.
        destruct (pair_round_spec x s p q bytes HW ltac:(lia)) as (HW1 & S1 & D1 & D2).
        cbv zeta in *. set (m := Z.min (zlen bytes) 65535) in *.
        set (s1 := pair_round x s) in *.
        assert (Hrest : zlen (skipn (Z.to_nat m) bytes) = zlen bytes - m) by (rewrite zlen_skipn; subst m; lia).
        destruct (IH (skipn (Z.to_nat m) bytes) s1 (wadd p m) HW1) as (HW2 & S2 & D3 & D4).
        { rewrite Hrest. subst m. lia. }
        subst s'. cbn [pairs]. fold s1. cbv zeta in *. splits.
        * rewrite Hrest, wadd_wadd in HW2. replace (m + (zlen bytes - m)) with (zlen bytes) in HW2 by lia. exact HW2.
        * intros y. rewrite S2. apply S1.
        * rewrite D3. exact D1.
        * rewrite D4. unfold delivered. rewrite D2, concat_app. cbn [concat]. rewrite app_nil_r.
          rewrite <- app_assoc, firstn_skipn. reflexivity.
  Qed.

  (* how LFair k decomposes into flights *)
  Lemma fair_rounds_pairs_A k : forall s, fair_rounds k c s = pairs k SA s.
  Proof. induction k as [|k IH]; intros s; cbn [fair_rounds pairs]; [reflexivity|]. apply IH. Qed.

  Lemma fair_rounds_pairs_B k : forall s,
    fair_rounds (Datatypes.S k) c s = fair_half c (pairs k SB (fair_half c s SA)) SB.
  Proof.
    induction k as [|k IH]; intros s; [reflexivity|].
    change (fair_rounds (Datatypes.S (Datatypes.S k)) c s)
      with (fair_rounds (Datatypes.S k) c (fair_half c (fair_half c s SA) SB)).
    rewrite IH. cbn [pairs]. reflexivity.
  Qed.

  Lemma fairk s k : panicked s = false -> fst (sys_step c s (LFair k)) = fair_rounds k c s.
  Proof. intros Pn. unfold sys_step. now rewrite Pn. Qed.

  (* a write of any size *)
  Theorem write_any s a b x bytes :
    Quiescent c s a b -> 0 < zlen bytes ->
    let n := zlen bytes in
    let s' := run c s [LSend x bytes; LFair (rounds_for n)] in
    Quiescent c s' (sel x (wadd a n) a) (sel x b (wadd b n)) /\
    sub_of s' x = sub_of s x ++ bytes /\ sub_of s' (other x) = sub_of s (other x) /\
    delivered s' (other x) = delivered s (other x) ++ bytes /\ del_of s' x = del_of s x.
  Proof.
    intros HQ Hn n s'.
    destruct (quiescent_at c s a b x HQ) as (tx & ty & Ex & Ey & Qx & Qy & Mx & My & Nx & Ny & Pn).
    set (p := sel x a b) in *. set (q := sel x b a) in *.
    assert (Est : st tx = Established) by apply Qx.
    subst s'. cbn [run fold_left]. rewrite (send_step c s x tx Pn Ex Est).
    set (s1 := set_end _ x _).
    assert (HW1 : WriterState c x s1 p q bytes).
    { exists (tcb_send tx bytes), ty. subst s1. sysr. splits; auto.
      - apply writer_of_quiet, Qx.
      - unfold tcb_send. rewrite Est. cbn [accepts_send]. exact Mx. }
    assert (Pn1 : panicked s1 = false) by (subst s1; now sysr).
    rewrite (fairk s1 _ Pn1).
    set (k := Z.to_nat ((n + 65534) / 65535)).
    assert (Hn' : 0 < n) by exact Hn.
    assert (Hk : n <= 65535 * Z.of_nat k) by (subst k; lia).
    assert (Hfinal : exists s3, fair_rounds (rounds_for n) c s1 = s3 /\
      WriterState c x s3 (wadd p n) q [] /\ (forall y, sub_of s3 y = sub_of s1 y) /\
      del_of s3 x = del_of s1 x /\ delivered s3 (other x) = delivered s1 (other x) ++ bytes).
    { unfold rounds_for. fold n k. destruct x.
      - rewrite fair_rounds_pairs_A.
        destruct (pairs_spec SA q (Datatypes.S k) bytes s1 p HW1 ltac:(lia)) as (A1 & A2 & A3 & A4).
        eexists. split; [reflexivity|]. auto.
      - rewrite fair_rounds_pairs_B.
        destruct HW1 as (tx1 & ty1 & Ex1 & Ey1 & Wx1 & Qy1 & Mx1 & My1 & Nx1 & Ny1 & Pn1').
        cbn [other] in *.
        rewrite (half_idle c s1 SA ty1 tx1 q p Ey1 Qy1 Ny1 Ex1 (writer_in_text _ _ _ _ Wx1)).
        assert (HW1 : WriterState c SB s1 p q bytes) by (exists tx1, ty1; splits; auto).
        destruct (pairs_spec SB q k bytes s1 p HW1 Hk) as (A1 & A2 & A3 & A4).
        cbv zeta in *. set (s2 := pairs k SB s1) in *.
        destruct A1 as (tx2 & ty2 & Ex2 & Ey2 & Wx2 & Qy2 & Mx2 & My2 & Nx2 & Ny2 & Pn2).
        cbn [other] in *.
        rewrite (half_idle c s2 SB tx2 ty2 _ _ Ex2 Wx2 Nx2 Ey2 (quiet_in_text _ _ _ Qy2)).
        exists s2. split; [reflexivity|]. splits; auto.
        exists tx2, ty2. splits; auto. }
    destruct Hfinal as (s3 & -> & HW3 & S3 & D3 & D4).
    pose proof (writerstate_quiescent s3 x _ _ HW3) as HQ'.
    assert (Esel1 : sel x (wadd p n) q = sel x (wadd a n) a) by (subst p q; destruct x; reflexivity).
    assert (Esel2 : sel x q (wadd p n) = sel x b (wadd b n)) by (subst p q; destruct x; reflexivity).
    rewrite Esel1, Esel2 in HQ'.
    split; [exact HQ'|].
    rewrite !S3, D3, D4. unfold delivered. subst s1. sysr. auto.
  Qed.

  Lemma rounds_for_window n : 0 < n <= 65535 -> rounds_for n = 2%nat.
  Proof.
    intros H. unfold rounds_for. replace ((n + 65534) / 65535) with 1 by lia. reflexivity.
  Qed.

  Theorem write_round_window s a b x bytes :
    Quiescent c s a b -> 0 < zlen bytes <= 65535 ->
    let n := zlen bytes in
    let s' := run c s [LSend x bytes; LFair 2] in
    Quiescent c s' (sel x (wadd a n) a) (sel x b (wadd b n)) /\
    sub_of s' x = sub_of s x ++ bytes /\ sub_of s' (other x) = sub_of s (other x) /\
    delivered s' (other x) = delivered s (other x) ++ bytes /\ del_of s' x = del_of s x.
  Proof.
    intros HQ Hn n s'. pose proof (write_any s a b x bytes HQ ltac:(lia)) as H.
    cbv zeta in H. rewrite (rounds_for_window _ Hn) in H. exact H.
  Qed.
End RoundN.

Definition window_write (w : side * list Z) : Prop := 0 < zlen (snd w) <= 65535.

Theorem writes_delivered_window c : forall ws s a b,
  Quiescent c s a b -> Forall window_write ws ->
  let s' := run c s (write_trace ws) in
  (exists a' b', Quiescent c s' a' b') /\
  forall x, sub_of s' x = sub_of s x ++ concat (chunks x ws) /\
            delivered s' (other x) = delivered s (other x) ++ concat (chunks x ws).
Proof.
  induction ws as [|[y bytes] r IH]; intros s a b HQ Hw; cbn [write_trace chunks].
  - cbn [run fold_left]. split; [eauto|]. intros x. cbn [concat]. now rewrite !app_nil_r.
  - inversion Hw as [|w ws' Hw1 Hw2]; subst.
    change (run c s (LSend y bytes :: LFair 2 :: write_trace r))
      with (run c (run c s [LSend y bytes; LFair 2]) (write_trace r)).
    destruct (write_round_window c s a b y bytes HQ Hw1) as (HQ1 & S1 & S2 & D1 & D2).
    set (s1 := run c s [LSend y bytes; LFair 2]) in *.
    destruct (IH s1 _ _ HQ1 Hw2) as [HQ2 Hrest].
    split; [exact HQ2|]. intros x. destruct (Hrest x) as [R1 R2]. rewrite R1, R2.
    assert (D2' : delivered s1 y = delivered s y) by (unfold delivered; now rewrite D2).
    destruct y, x; cbn [side_eqb other concat] in *;
      rewrite ?S1, ?S2, ?D1, ?D2', <- ?app_assoc; auto.
Qed.

Lemma liveness_window_explicit : forall (c : config) (ws : list (side * list Z)) (s : sys) (a b : Z),
  Quiescent c s a b ->
  (forall w, In w ws -> 0 < zlen (snd w) <= 65535) ->
  let s' := run c s (write_trace ws) in
  (exists a' b', Quiescent c s' a' b') /\
  forall x, sub_of s' x = sub_of s x ++ concat (chunks x ws) /\
            delivered s' (other x) = delivered s (other x) ++ concat (chunks x ws).
Proof.
  intros c ws s a b HQ Hw s'.
  assert (Hf : Forall window_write ws) by (apply Forall_forall; exact Hw).
  apply (writes_delivered_window c ws s a b HQ Hf).
Qed.

(* writes of arbitrary size: each is followed by one loss-free round per window, plus one *)
Fixpoint any_write_trace (ws : list (side * list Z)) : list label :=
  match ws with
  | [] => []
  | (x, bytes) :: r => LSend x bytes :: LFair (rounds_for (zlen bytes)) :: any_write_trace r
  end.

Theorem writes_delivered_any c : forall ws s a b,
  Quiescent c s a b -> Forall (fun w => 0 < zlen (snd w)) ws ->
  let s' := run c s (any_write_trace ws) in
  (exists a' b', Quiescent c s' a' b') /\
  forall x, sub_of s' x = sub_of s x ++ concat (chunks x ws) /\
            delivered s' (other x) = delivered s (other x) ++ concat (chunks x ws).
Proof.
  induction ws as [|[y bytes] r IH]; intros s a b HQ Hw; cbn [any_write_trace chunks].
  - cbn [run fold_left]. split; [eauto|]. intros x. cbn [concat]. now rewrite !app_nil_r.
  - inversion Hw as [|w ws' Hw1 Hw2]; subst. cbn [snd] in Hw1.
    change (run c s (LSend y bytes :: LFair (rounds_for (zlen bytes)) :: any_write_trace r))
      with (run c (run c s [LSend y bytes; LFair (rounds_for (zlen bytes))]) (any_write_trace r)).
    destruct (write_any c s a b y bytes HQ Hw1) as (HQ1 & S1 & S2 & D1 & D2).
    set (s1 := run c s [LSend y bytes; LFair (rounds_for (zlen bytes))]) in *.
    destruct (IH s1 _ _ HQ1 Hw2) as [HQ2 Hrest].
    split; [exact HQ2|]. intros x. destruct (Hrest x) as [R1 R2]. rewrite R1, R2.
    assert (D2' : delivered s1 y = delivered s y) by (unfold delivered; now rewrite D2).
    destruct y, x; cbn [side_eqb other concat] in *;
      rewrite ?S1, ?S2, ?D1, ?D2', <- ?app_assoc; auto.
Qed.

Lemma from_start_any_explicit : forall (c : config) (listenB : bool) (ws : list (side * list Z)),
  u32 (issA c) -> u32 (issB c) -> 100 <= mtuA c <= 65535 -> 100 <= mtuB c <= 65535 ->
  (forall w, In w ws -> 0 < zlen (snd w)) ->
  let s := run c (init_sys listenB) (open_trace listenB ++ any_write_trace ws) in
  (exists a b, Quiescent c s a b) /\
  forall x, sub_of s x = concat (chunks x ws) /\ delivered s (other x) = concat (chunks x ws).
Proof.
  intros c listenB ws H1 H2 H3 H4 Hw s. subst s. rewrite run_app.
  destruct (handshake_explicit c listenB H1 H2 H3 H4) as (HQ & F1 & F2 & F3 & F4).
  set (s0 := run c (init_sys listenB) (open_trace listenB)) in *.
  assert (Hf : Forall (fun w => 0 < zlen (snd w)) ws) by (apply Forall_forall; exact Hw).
  destruct (writes_delivered_any c ws s0 _ _ HQ Hf) as [HQ' Hx].
  split; [exact HQ'|]. intros x. destruct (Hx x) as [A B]. rewrite A, B.
  unfold delivered. destruct x; cbn [other sub_of del_of]; rewrite ?F1, ?F2, ?F3, ?F4; auto.
Qed.

Lemma from_start_window_explicit : forall (c : config) (listenB : bool) (ws : list (side * list Z)),
  u32 (issA c) -> u32 (issB c) -> 100 <= mtuA c <= 65535 -> 100 <= mtuB c <= 65535 ->
  (forall w, In w ws -> 0 < zlen (snd w) <= 65535) ->
  let s := run c (init_sys listenB) (open_trace listenB ++ write_trace ws) in
  (exists a b, Quiescent c s a b) /\
  forall x, sub_of s x = concat (chunks x ws) /\ delivered s (other x) = concat (chunks x ws).
Proof.
  intros c listenB ws H1 H2 H3 H4 Hw s. subst s. rewrite run_app.
  destruct (handshake_explicit c listenB H1 H2 H3 H4) as (HQ & F1 & F2 & F3 & F4).
  set (s0 := run c (init_sys listenB) (open_trace listenB)) in *.
  destruct (liveness_window_explicit c ws s0 _ _ HQ Hw) as [HQ' Hx].
  split; [exact HQ'|]. intros x. destruct (Hx x) as [A B]. rewrite A, B.
  unfold delivered. destruct x; cbn [other sub_of del_of]; rewrite ?F1, ?F2, ?F3, ?F4; auto.
Qed.

Lemma liveness_any_explicit : forall (c : config) (ws : list (side * list Z)) (s : sys) (a b : Z),
  Quiescent c s a b ->
  (forall w, In w ws -> 0 < zlen (snd w)) ->
  let s' := run c s (any_write_trace ws) in
  (exists a' b', Quiescent c s' a' b') /\
  forall x, sub_of s' x = sub_of s x ++ concat (chunks x ws) /\
            delivered s' (other x) = delivered s (other x) ++ concat (chunks x ws).
Proof.
  intros c ws s a b HQ Hw s'.
  assert (Hf : Forall (fun w => 0 < zlen (snd w)) ws) by (apply Forall_forall; exact Hw).
  apply (writes_delivered_any c ws s a b HQ Hf).
Qed.
