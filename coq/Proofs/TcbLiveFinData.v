(* C03 (c), liveness side: close() while written data is still queued.  segments() first cuts the
   queued text into a flight and only then appends the FIN, sequenced right after the last byte. *)
From Elvis Require Import Model.Base Model.U32 Model.Tcb Model.TcpNet
  Proofs.U32Facts Proofs.TcbSafetyDefs Proofs.TcbSafetyBase Proofs.TcbSafetySnd Proofs.TcbSafetyRcv
  Proofs.TcbSafetyArr Proofs.TcbLive Proofs.TcbLiveWin.
From Coq Require Import ZifyBool.
Local Open Scope Z_scope.
Ltac Zify.zify_post_hook ::= Z.div_mod_to_equations.

(* the FIN segments() queues: seq = sq, ack = ackv, window 65535 *)
Definition fin_hdr (lp rp sq ackv : Z) : header :=
  mkHdr lp rp sq ackv (mkCtl false true false false false true) 65535 0.

Lemma close_with_text t : st t = Established -> out_text t <> [] ->
  tcb_close t = (set_st (set_fin_pending t true) FinWait1, CloseOk).
Proof.
  intros Est Hne. unfold tcb_close. rewrite Est. unfold queue_pending_fin. tcb_simpl.
  destruct (out_text t); [congruence|reflexivity].
Qed.

Lemma segments_flight_fin t bytes :
  segmentizes (st t) = true -> oneshot t = [] -> retx t = [] -> out_text t = bytes -> fin_pending t = true ->
  snd_wnd t = 65535 -> rcv_wnd t = 65535 -> snd_una t = snd_nxt t -> u32 (snd_nxt t) ->
  100 <= mtu t <= 65535 -> 0 < zlen bytes <= 65535 ->
  let n := zlen bytes in
  let fin := mkSeg (fin_hdr (lport t) (rport t) (wadd (snd_nxt t) n) (rcv_nxt t)) [] in
  exists segs,
    tcb_segments t =
    Ok (set_rto (set_retx (set_snd_nxt (set_fin_pending (set_out_text (set_oneshot t []) []) false)
                                       (wadd (wadd (snd_nxt t) n) 1))
                          (map (fun s => mkTx s false) (segs ++ [fin]))) RTO, segs ++ [fin]) /\
    flight (lport t) (rport t) (rcv_nxt t) (snd_nxt t) segs /\
    flight_bytes segs = bytes /\ segs <> [].
Proof.
  intros Hseg Hone Hretx Hout Hf Hsw Hrw Hun Hu Hm Hn n fin. subst n.
  unfold tcb_segments. tcb_simpl. rewrite Hseg, Hone. cbn [map]. unfold SPACE_FOR_HEADERS.
  replace (mtu t <? 50) with false by lia.
  set (t0 := set_oneshot t []).
  destruct (seg_loop_flight (mtu t - 50) ltac:(lia) (Datatypes.S (length (out_text t0))) t0 0)
    as (segs & E & F & B); try assumption; try reflexivity.
  - subst t0; tcb_simpl. rewrite Hun. apply wsub_diag.
  - lia.
  - lia.
  - cbv zeta in E, B.
    change (out_text t0) with (out_text t) in *. change (snd_nxt t0) with (snd_nxt t) in *.
    change (retx t0) with (retx t) in *. rewrite E. clear E.
    rewrite Hout, Hretx in *. cbn [app]. rewrite Z.sub_0_r in *.
    replace (Z.min (zlen bytes) 65535) with (zlen bytes) in B |- * by lia.
    assert (Hall : Z.to_nat (zlen bytes) = length bytes) by (unfold zlen; apply Nat2Z.id).
    rewrite Hall, firstn_all in B. rewrite Hall, skipn_all.
    assert (Hne : segs <> []).
    { intros ->. unfold flight_bytes in B. cbn in B. rewrite <- B in Hn. cbn in Hn. lia. }
    exists segs. split; [|auto]. subst t0.
    unfold queue_pending_fin. tcb_simpl. rewrite Hf. cbn [andb]. tcb_simpl.
    unfold enqueue, hb_wnd, hb_ack, hb_fin, hb_flag, hb, ctl0. cbn [h_ctl c_syn c_fin c_urg c_psh c_rst c_ack orb h_sport h_dport h_seq h_ack h_wnd h_urg]. tcb_simpl.
    rewrite <- (map_app _ segs [_]) || idtac.
    change [mkTx ?s true] with (map (fun s => mkTx s true) [s]) || idtac.
    rewrite Hrw.
    match goal with |- context [map (fun s => mkTx s true) segs ++ [mkTx ?f true]] =>
      change (map (fun s => mkTx s true) segs ++ [mkTx f true]) with
             (map (fun s => mkTx s true) segs ++ map (fun s => mkTx s true) [f]) end.
    rewrite <- map_app, filter_needs_true, map_tseg_mk, reflag_map.
    destruct segs as [|s0 r]; [congruence|]. reflexivity.
Qed.
