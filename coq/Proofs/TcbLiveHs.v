(* C01 liveness: evaluation of the three-way handshake, TCB level.
   What each endpoint does with the SYN, the duplicate SYN, the bare ACK that overtakes the
   SYN-ACK, the SYN-ACK, its retransmitted copy, and the final ACK. *)
From Elvis Require Import Model.Base Model.U32 Model.Tcb Model.TcpNet
  Proofs.U32Facts Proofs.TcbSafetyDefs Proofs.TcbSafetyBase Proofs.TcbSafetySnd Proofs.TcbSafetyRcv
  Proofs.TcbSafetyArr Proofs.TcbLive.
From Coq Require Import ZifyBool.
Local Open Scope Z_scope.
Ltac Zify.zify_post_hook ::= Z.div_mod_to_equations.

(* ---------- arithmetic one step after x ---------- *)
Lemma mod_lt_succ_l x : mod_lt (wadd x 1) x = false.
Proof. unfold mod_lt. rewrite wsub_spec, wadd_spec. unfold M32, H31. lia. Qed.
Lemma mod_lt_succ_r x : mod_lt x (wadd x 1) = true.
Proof. unfold mod_lt. rewrite wsub_spec, wadd_spec. unfold M32, H31. lia. Qed.
Lemma succ_neq x : u32 x -> (wadd x 1 =? x) = false.
Proof. rewrite wadd_spec. unfold u32, M32. lia. Qed.
Lemma mod_leq_succ x : u32 x -> mod_leq (wadd x 1) x = false.
Proof. intros H. unfold mod_leq. now rewrite succ_neq, mod_lt_succ_l. Qed.

(* SEG.ACK = ISS+1 in SYN-SENT: not in (SND.NXT, ISS], but in (SND.UNA, SND.NXT] *)
Lemma ack_not_bad x : u32 x -> mod_bounded (wadd x 1) CLt (wadd x 1) CLeq x = false.
Proof.
  intros H. rewrite mod_bounded_spec by (try assumption; apply wadd_u32).
  unfold on_arc. cbn [cmp_offset]. rewrite !wsub_spec, !wadd_spec. unfold u32, M32 in *. lia.
Qed.
Lemma ack_acceptable x : u32 x -> mod_bounded x CLt (wadd x 1) CLeq (wadd x 1) = true.
Proof.
  intros H. rewrite mod_bounded_spec by (try assumption; apply wadd_u32).
  unfold on_arc. cbn [cmp_offset]. rewrite !wsub_spec, !wadd_spec. unfold u32, M32 in *. lia.
Qed.

Lemma in_window_before t x : u32 x -> rcv_nxt t = wadd x 1 -> rcv_wnd t = 65535 ->
  is_in_rcv_window t x = true.
Proof.
  intros Hx Hr Hw. rewrite in_window_spec; try assumption; [|rewrite Hr; apply wadd_u32].
  rewrite Hr, wsub_spec, !wadd_spec. unfold u32, M32 in *. lia.
Qed.

(* ---------- the arrival loop with one or two queued segments, any state ---------- *)
Lemma arrives_loop_one f t seg t1 r :
  in_segs t = [seg] ->
  negb (state_eqb (st t) SynSent) && mod_gt (h_seq (s_hdr seg)) (rcv_nxt t) = false ->
  process_segment (set_in_segs t []) seg = Ok (t1, r) -> should_delete r = false -> in_segs t1 = [] ->
  arrives_loop (Datatypes.S (Datatypes.S f)) t = Ok (t1, AOk).
Proof.
  intros Hs Hgo Hp Hd Hs1. remember (Datatypes.S f) as f1 eqn:Ef.
  cbn [arrives_loop]. rewrite Hs. cbn [heap_peek]. rewrite Hgo.
  change (heap_pop [seg]) with (Some (seg, @nil segment)). cbn iota beta.
  rewrite Hp, Hd. subst f1. cbn [arrives_loop]. rewrite Hs1. reflexivity.
Qed.

Lemma arrives_one t seg t1 r :
  in_segs t = [] ->
  negb (state_eqb (st t) SynSent) && mod_gt (h_seq (s_hdr seg)) (rcv_nxt t) = false ->
  process_segment (set_in_segs t []) seg = Ok (t1, r) -> should_delete r = false -> in_segs t1 = [] ->
  segment_arrives t seg = Ok (t1, AOk).
Proof.
  intros Hs Hgo Hp Hd Hs1. unfold segment_arrives. rewrite Hs.
  change (heap_push [] seg) with [seg]. cbn [length].
  eapply (arrives_loop_one 0 (set_in_segs t [seg]) seg); try eassumption; reflexivity.
Qed.

Lemma heap_push_same_seq a b : h_seq (s_hdr a) = h_seq (s_hdr b) -> heap_push [a] b = [a; b].
Proof.
  intros E. unfold heap_push. cbv -[seg_le].
  assert (H : seg_le b a = true) by (unfold seg_le; rewrite E, Z.eqb_refl; reflexivity).
  rewrite H. reflexivity.
Qed.

Lemma heap_pop_two a b : heap_pop [a; b] = Some (a, [b]).
Proof. reflexivity. Qed.

(* ---------- passive side ---------- *)
Definition syn_only (h : header) : Prop :=
  c_syn (h_ctl h) = true /\ c_ack (h_ctl h) = false /\ c_rst (h_ctl h) = false /\ c_fin (h_ctl h) = false.

(* the TCB created by a SYN in LISTEN *)
Definition listen_tcb (h : header) (iss m : Z) : tcb :=
  let t := mkTcb (h_dport h) (h_sport h) m true SynReceived iss (wadd iss 1)
                 (h_wnd h) (h_seq h) (h_ack h) iss (h_seq h) (wadd (h_seq h) 1) DEFAULT_WND
                 [] [] [] false [] [] RTO None in
  let sa := hb_wnd (hb_ack (hb_syn (hb t iss)) (wadd (h_seq h) 1)) DEFAULT_WND in
  let h' := mkHdr (h_sport h) (h_dport h) (h_seq h) (h_ack h)
                  (mkCtl (c_urg (h_ctl h)) false (c_psh (h_ctl h)) (c_rst (h_ctl h)) false (c_fin (h_ctl h)))
                  (h_wnd h) (h_urg h) in
  set_in_segs (set_retx t [mkTx (mkSeg sa []) true]) [mkSeg h' []].

Lemma syn_to_listen h iss m : syn_only h ->
  arrives_listen (mkSeg h []) iss m = LTcb (listen_tcb h iss m).
Proof.
  intros (Hs & Ha & Hr & Hf). unfold arrives_listen. tcb_simpl. rewrite Hr, Ha, Hs.
  rewrite enqueue_synack. tcb_simpl. change (heap_push [] ?x) with [x].
  unfold listen_tcb. rewrite Hr. reflexivity.
Qed.

(* process a flag-free, text-free segment at RCV.NXT-1 (the SYN copy queued by LISTEN) *)
Lemma process_stripped t h :
  state_eqb (st t) SynSent = false -> u32 (h_seq h) -> rcv_nxt t = wadd (h_seq h) 1 -> rcv_wnd t = 65535 ->
  c_syn (h_ctl h) = false -> c_ack (h_ctl h) = false -> c_rst (h_ctl h) = false -> c_fin (h_ctl h) = false ->
  process_segment t (mkSeg h []) = Ok (t, PSuccess).
Proof.
  intros Hss Hu Hr Hw Hsy Ha Hrs Hf. unfold process_segment. tcb_simpl.
  rewrite Hsy, Hf.
  assert (Hok : is_seq_ok t (zlen (@nil Z)) (h_seq h) false false = true).
  { unfold is_seq_ok. cbn [b2z zlen length]. change (Z.of_nat 0 + 0 + 0 =? 0) with true. cbn iota.
    rewrite Hw. cbn [Z.eqb]. apply in_window_before; assumption. }
  rewrite Hok. cbn [negb].
  assert (Hbad : match st t with SynSent => false | _ => false end = false) by (destruct (st t); reflexivity).
  replace (match st t with SynSent => false | _ => false end) with false by (destruct (st t); reflexivity).
  unfold ps_ack. rewrite Ha. cbn [negb]. unfold ps_rst. rewrite Hrs. cbn [negb].
  unfold ps_syn. rewrite Hsy. cbn [negb]. rewrite Hss, ps_text_nil, ps_fin_nofin by exact Hf. reflexivity.
Qed.

(* a SYN (no ACK) in a synchronised-or-SYN-RECEIVED state: acknowledged and discarded *)
Lemma process_dup_syn t h :
  state_eqb (st t) SynSent = false -> u32 (h_seq h) -> rcv_nxt t = wadd (h_seq h) 1 -> rcv_wnd t = 65535 ->
  syn_only h ->
  process_segment t (mkSeg h []) = Ok (enqueue t (ack_hdr t), PDiscard).
Proof.
  intros Hss Hu Hr Hw (Hsy & Ha & Hrs & Hf). unfold process_segment. tcb_simpl.
  rewrite Hsy, Hf.
  assert (Hok : is_seq_ok t (zlen (@nil Z)) (h_seq h) true false = true).
  { unfold is_seq_ok. cbn [b2z zlen length]. change (Z.of_nat 0 + 0 + 1 =? 0) with false. cbn iota.
    rewrite Hw. cbn [Z.eqb]. rewrite (in_window_before t (h_seq h)) by assumption. reflexivity. }
  rewrite Hok. cbn [negb].
  replace (match st t with SynSent => false | _ => false end) with false by (destruct (st t); reflexivity).
  unfold ps_ack. rewrite Ha. cbn [negb]. unfold ps_rst. rewrite Hrs. cbn [negb].
  unfold ps_syn. rewrite Hsy. cbn [negb].
  destruct (st t); try discriminate Hss; reflexivity.
Qed.

Lemma dup_syn_after_listen t s0 h :
  state_eqb (st t) SynSent = false -> in_segs t = [s0] -> s_text s0 = [] ->
  h_seq (s_hdr s0) = h_seq h ->
  c_syn (h_ctl (s_hdr s0)) = false -> c_ack (h_ctl (s_hdr s0)) = false ->
  c_rst (h_ctl (s_hdr s0)) = false -> c_fin (h_ctl (s_hdr s0)) = false ->
  u32 (h_seq h) -> rcv_nxt t = wadd (h_seq h) 1 -> rcv_wnd t = 65535 -> syn_only h ->
  segment_arrives t (mkSeg h []) =
  Ok (set_oneshot (set_in_segs t []) (oneshot t ++ [ack_hdr t]), AOk).
Proof.
  intros Hss Hs Ht0 Hq F1 F2 F3 F4 Hu Hr Hw Hh.
  unfold segment_arrives. rewrite Hs, heap_push_same_seq by exact Hq. cbn [length].
  set (seg := mkSeg h []). set (t0 := set_in_segs t [s0; seg]).
  assert (Hgt : mod_gt (h_seq h) (rcv_nxt t) = false).
  { rewrite Hr. unfold mod_gt. apply mod_lt_succ_l. }
  (* first iteration: the queued copy *)
  remember 2%nat as f2 eqn:Ef2. cbn [arrives_loop]. subst t0. tcb_simpl. cbn [heap_peek].
  rewrite Hss, Hq, Hgt. cbn [negb andb]. rewrite heap_pop_two. cbn iota beta.
  assert (E1 : set_in_segs (set_in_segs t [s0; seg]) [seg] = set_in_segs t [seg]) by reflexivity.
  rewrite E1. destruct s0 as [h0 tx0]. cbn [s_text s_hdr] in *. subst tx0.
  rewrite (process_stripped (set_in_segs t [seg]) h0); try assumption; try (rewrite Hq; assumption).
  cbn [should_delete].
  (* second iteration: the duplicate SYN *)
  subst f2.
  apply (arrives_loop_one 0 (set_in_segs t [seg]) seg _ PDiscard); try reflexivity.
  - tcb_simpl. rewrite Hss. subst seg. cbn [s_hdr]. rewrite Hgt. reflexivity.
  - assert (E2 : set_in_segs (set_in_segs t [seg]) [] = set_in_segs t []) by reflexivity.
    rewrite E2. subst seg. rewrite (process_dup_syn (set_in_segs t []) h); try assumption.
    rewrite enqueue_plain by apply ack_hdr_plain. reflexivity.
Qed.

(* ---------- active side ---------- *)
(* a bare ACK of our SYN while still in SYN-SENT: acceptable, no SYN, hence dropped *)
Lemma ack_in_synsent t h iss :
  st t = SynSent -> in_segs t = [] -> u32 iss -> snd_iss t = iss -> snd_una t = iss -> snd_nxt t = wadd iss 1 ->
  ack_only h -> h_ack h = wadd iss 1 ->
  segment_arrives t (mkSeg h []) = Ok (set_in_segs t [], AOk).
Proof.
  intros Est Hs Hu Hi Hun Hnx (Ha & Hr & Hsy & Hf) Hack.
  eapply arrives_one; try assumption; try reflexivity.
  - now rewrite Est.
  - unfold process_segment. tcb_simpl. rewrite Est.
    unfold ps_ack. rewrite Ha. tcb_simpl. rewrite Est. cbn [negb].
    rewrite Hnx, Hi, Hun, Hack, ack_not_bad, ack_acceptable by assumption. rewrite Hsy.
    unfold ps_rst. rewrite Hr. cbn [negb]. unfold ps_syn. rewrite Hsy. cbn [negb].
    tcb_simpl. rewrite Est. cbn [state_eqb]. reflexivity.
  - reflexivity.
Qed.

(* the SYN-ACK in SYN-SENT *)
Lemma synack_in_synsent t h iss tx :
  st t = SynSent -> in_segs t = [] -> u32 iss -> snd_iss t = iss -> snd_una t = iss -> snd_nxt t = wadd iss 1 ->
  retx t = [tx] -> h_seq (s_hdr (t_seg tx)) = iss -> seg_len (t_seg tx) = 1 ->
  c_syn (h_ctl h) = true -> c_ack (h_ctl h) = true -> c_rst (h_ctl h) = false -> c_fin (h_ctl h) = false ->
  h_ack h = wadd iss 1 ->
  let t1 := set_retx (set_snd_una (set_in_segs t []) (wadd iss 1)) [] in
  let t2 := set_snd_window (set_rcv_nxt (set_rcv_irs t1 (h_seq h)) (wadd (h_seq h) 1))
                           (h_wnd h) (h_seq h) (h_ack h) in
  let t3 := set_st t2 Established in
  segment_arrives t (mkSeg h []) = Ok (set_oneshot t3 (oneshot t ++ [ack_hdr t3]), AOk).
Proof.
  intros Est Hs Hu Hi Hun Hnx Hretx Htxs Htxl Hsy Ha Hr Hf Hack t1 t2 t3.
  eapply arrives_one; try assumption; try reflexivity.
  - now rewrite Est.
  - unfold process_segment. tcb_simpl. rewrite Est.
    unfold ps_ack. rewrite Ha. tcb_simpl. rewrite Est. cbn [negb].
    rewrite Hnx, Hi, Hun, Hack, ack_not_bad, ack_acceptable by assumption. rewrite Hsy.
    set (ta := remove_acked _ _).
    assert (Eta : ta = t1).
    { subst ta t1. unfold remove_acked. tcb_simpl. rewrite Hretx. cbn [filter].
      rewrite Htxs, Htxl, mod_lt_irrefl. reflexivity. }
    rewrite Eta.
    unfold ps_rst. rewrite Hr. cbn [negb]. unfold ps_syn. rewrite Hsy. cbn [negb].
    change (st t1) with (st t). rewrite Est. fold t2.
    change (snd_una t2) with (wadd iss 1). change (snd_iss t2) with (snd_iss t). rewrite Hi.
    unfold mod_gt. rewrite mod_lt_succ_r. fold t3.
    rewrite enqueue_plain by apply ack_hdr_plain.
    cbn [set_oneshot st state_eqb]. rewrite ps_text_nil, ps_fin_nofin by exact Hf.
    reflexivity.
  - reflexivity.
Qed.

(* a SYN-bearing segment at RCV.NXT-1 whose ACK acknowledges nothing new, in ESTABLISHED *)
Lemma syn_dup_established t h :
  st t = Established -> in_segs t = [] -> u32 (h_seq h) -> rcv_nxt t = wadd (h_seq h) 1 -> rcv_wnd t = 65535 ->
  c_syn (h_ctl h) = true -> c_rst (h_ctl h) = false -> c_fin (h_ctl h) = false ->
  (c_ack (h_ctl h) = true -> mod_leq (h_ack h) (snd_una t) = true) ->
  segment_arrives t (mkSeg h []) =
  Ok (set_oneshot (set_in_segs t []) (oneshot t ++ [ack_hdr t]), AOk).
Proof.
  intros Est Hs Hu Hr Hw Hsy Hrs Hf Hleq. set (t0 := set_in_segs t []).
  eapply arrives_one; try assumption; try reflexivity.
  - rewrite Est. cbn [state_eqb negb andb]. tcb_simpl. rewrite Hr. unfold mod_gt. apply mod_lt_succ_l.
  - fold t0. unfold process_segment. tcb_simpl. change (st t0) with (st t). rewrite Est, Hsy, Hf.
    assert (Hok : is_seq_ok t0 (zlen (@nil Z)) (h_seq h) true false = true).
    { unfold is_seq_ok. cbn [b2z zlen length]. change (Z.of_nat 0 + 0 + 1 =? 0) with false. cbn iota.
      change (rcv_wnd t0) with (rcv_wnd t). rewrite Hw. cbn [Z.eqb].
      rewrite (in_window_before t0 (h_seq h)) by assumption. reflexivity. }
    rewrite Hok. cbn [negb].
    assert (Hack : ps_ack t0 h = (t0, None)).
    { unfold ps_ack. destruct (c_ack (h_ctl h)) eqn:Ea; cbn [negb]; [|reflexivity].
      change (st t0) with (st t). rewrite Est. unfold ack_est.
      change (snd_una t0) with (snd_una t). rewrite (Hleq eq_refl). reflexivity. }
    rewrite Hack. unfold ps_rst. rewrite Hrs. cbn [negb]. unfold ps_syn. rewrite Hsy. cbn [negb].
    change (st t0) with (st t). rewrite Est.
    rewrite enqueue_plain by apply ack_hdr_plain. reflexivity.
  - reflexivity.
Qed.

(* the ACK of our SYN-ACK in SYN-RECEIVED *)
Lemma ack_in_synrcvd t h iss tx :
  st t = SynReceived -> in_segs t = [] -> rcv_wnd t = 65535 -> u32 (rcv_nxt t) ->
  u32 iss -> snd_una t = iss -> snd_nxt t = wadd iss 1 ->
  retx t = [tx] -> h_seq (s_hdr (t_seg tx)) = iss -> seg_len (t_seg tx) = 1 ->
  ack_only h -> h_seq h = rcv_nxt t -> h_ack h = wadd iss 1 ->
  segment_arrives t (mkSeg h []) =
  Ok (set_snd_window (set_retx (set_snd_una (set_st (set_in_segs t []) Established) (wadd iss 1)) [])
                     (h_wnd h) (h_seq h) (h_ack h), AOk).
Proof.
  intros Est Hs Hw Hu Hi Hun Hnx Hretx Htxs Htxl (Ha & Hr & Hsy & Hf) Hseq Hack.
  set (t0 := set_in_segs t []).
  eapply arrives_one; try assumption; try reflexivity.
  - rewrite Est. cbn [state_eqb negb andb]. tcb_simpl. rewrite Hseq. apply mod_gt_refl_false.
  - fold t0. unfold process_segment. tcb_simpl. change (st t0) with (st t). rewrite Est, Hsy, Hf.
    assert (Hok : is_seq_ok t0 (zlen (@nil Z)) (h_seq h) false false = true).
    { unfold is_seq_ok. cbn [b2z zlen length]. change (Z.of_nat 0 + 0 + 0 =? 0) with true. cbn iota.
      change (rcv_wnd t0) with (rcv_wnd t). rewrite Hw. cbn [Z.eqb].
      rewrite Hseq. apply (in_window_at_nxt t0); assumption. }
    rewrite Hok. cbn [negb].
    unfold ps_ack. rewrite Ha. cbn [negb]. change (st t0) with (st t). rewrite Est.
    change (snd_una t0) with (snd_una t). change (snd_nxt t0) with (snd_nxt t).
    rewrite Hun, Hnx, Hack, ack_acceptable by assumption.
    set (ta := set_snd_window (set_st t0 Established) _ _ _).
    unfold ack_est. change (snd_una ta) with (snd_una t). change (snd_nxt ta) with (snd_nxt t).
    rewrite ?Hack, ?Hun, ?Hnx. rewrite mod_leq_succ by assumption. unfold mod_gt. rewrite mod_lt_irrefl.
    set (tb := remove_acked _ _).
    change (snd_wl1 tb) with (h_seq h). change (snd_wl2 tb) with (snd_wl2 ta).
    subst ta. tcb_simpl. rewrite ?Hack.
    rewrite Z.eqb_refl, mod_leq_refl, orb_true_r.
    unfold ps_rst. rewrite Hr. cbn [negb]. unfold ps_syn. rewrite Hsy. cbn [negb].
    cbn [set_snd_window st state_eqb]. rewrite ps_text_nil, ps_fin_nofin by exact Hf.
    f_equal. f_equal. subst tb t0. unfold remove_acked. tcb_simpl. rewrite ?Hack.
    rewrite Hretx. cbn [filter]. rewrite Htxs, Htxl, mod_lt_irrefl. reflexivity.
  - reflexivity.
Qed.

(* ---------- simultaneous open ---------- *)
(* a SYN without ACK in SYN-SENT: SYN-RECEIVED, and the SYN-ACK joins the retransmission queue *)
Lemma syn_in_synsent t h :
  st t = SynSent -> in_segs t = [] -> snd_una t = snd_iss t -> syn_only h ->
  let t1 := set_snd_window (set_rcv_nxt (set_rcv_irs (set_in_segs t []) (h_seq h)) (wadd (h_seq h) 1))
                           (h_wnd h) (h_seq h) (h_ack h) in
  let t2 := set_st t1 SynReceived in
  let sa := hb_wnd (hb_ack (hb_syn (hb t2 (snd_iss t2))) (rcv_nxt t2)) (rcv_wnd t2) in
  segment_arrives t (mkSeg h []) = Ok (set_retx t2 (retx t ++ [mkTx (mkSeg sa []) true]), AOk).
Proof.
  intros Est Hs Hun (Hsy & Ha & Hr & Hf) t1 t2 sa.
  eapply arrives_one; try assumption; try reflexivity.
  - now rewrite Est.
  - unfold process_segment. tcb_simpl. rewrite Est.
    unfold ps_ack. rewrite Ha. cbn [negb].
    unfold ps_rst. rewrite Hr. cbn [negb]. unfold ps_syn. rewrite Hsy. cbn [negb].
    tcb_simpl. rewrite Est. fold t1.
    change (snd_una t1) with (snd_una t). change (snd_iss t1) with (snd_iss t).
    rewrite Hun. unfold mod_gt. rewrite mod_lt_irrefl. fold t2.
    rewrite enqueue_synack. reflexivity.
  - reflexivity.
Qed.

(* a duplicate SYN (no ACK) with an empty heap, any state but SYN-SENT *)
Lemma dup_syn_arrives t h :
  state_eqb (st t) SynSent = false -> in_segs t = [] ->
  u32 (h_seq h) -> rcv_nxt t = wadd (h_seq h) 1 -> rcv_wnd t = 65535 -> syn_only h ->
  segment_arrives t (mkSeg h []) =
  Ok (set_oneshot (set_in_segs t []) (oneshot t ++ [ack_hdr t]), AOk).
Proof.
  intros Hss Hs Hu Hr Hw Hh.
  eapply arrives_one; try assumption; try reflexivity.
  - rewrite Hss. cbn [negb andb]. rewrite Hr. unfold mod_gt. apply mod_lt_succ_l.
  - rewrite (process_dup_syn (set_in_segs t []) h); try assumption.
    rewrite enqueue_plain by apply ack_hdr_plain. reflexivity.
  - reflexivity.
Qed.

Definition covers_syn (iss : Z) (tx : transmit) : Prop :=
  h_seq (s_hdr (t_seg tx)) = iss /\ seg_len (t_seg tx) = 1.

Lemma filter_acked_syn iss l : Forall (covers_syn iss) l ->
  filter (fun tx => mod_lt (wadd iss 1) (wadd (h_seq (s_hdr (t_seg tx))) (seg_len (t_seg tx)))) l = [].
Proof.
  induction 1 as [|tx l [H1 H2] _ IH]; cbn [filter]; [reflexivity|].
  now rewrite H1, H2, mod_lt_irrefl.
Qed.

(* the ACK of our SYN(s) in SYN-RECEIVED, whatever SYN-bearing segments are queued *)
Lemma ack_in_synrcvd_all t h iss :
  st t = SynReceived -> in_segs t = [] -> rcv_wnd t = 65535 -> u32 (rcv_nxt t) ->
  u32 iss -> snd_una t = iss -> snd_nxt t = wadd iss 1 ->
  Forall (covers_syn iss) (retx t) ->
  ack_only h -> h_seq h = rcv_nxt t -> h_ack h = wadd iss 1 ->
  segment_arrives t (mkSeg h []) =
  Ok (set_snd_window (set_retx (set_snd_una (set_st (set_in_segs t []) Established) (wadd iss 1)) [])
                     (h_wnd h) (h_seq h) (h_ack h), AOk).
Proof.
  intros Est Hs Hw Hu Hi Hun Hnx Hretx (Ha & Hr & Hsy & Hf) Hseq Hack.
  set (t0 := set_in_segs t []).
  eapply arrives_one; try assumption; try reflexivity.
  - rewrite Est. cbn [state_eqb negb andb]. tcb_simpl. rewrite Hseq. apply mod_gt_refl_false.
  - fold t0. unfold process_segment. tcb_simpl. change (st t0) with (st t). rewrite Est, Hsy, Hf.
    assert (Hok : is_seq_ok t0 (zlen (@nil Z)) (h_seq h) false false = true).
    { unfold is_seq_ok. cbn [b2z zlen length]. change (Z.of_nat 0 + 0 + 0 =? 0) with true. cbn iota.
      change (rcv_wnd t0) with (rcv_wnd t). rewrite Hw. cbn [Z.eqb].
      rewrite Hseq. apply (in_window_at_nxt t0); assumption. }
    rewrite Hok. cbn [negb].
    unfold ps_ack. rewrite Ha. cbn [negb]. change (st t0) with (st t). rewrite Est.
    change (snd_una t0) with (snd_una t). change (snd_nxt t0) with (snd_nxt t).
    rewrite Hun, Hnx, Hack, ack_acceptable by assumption.
    set (ta := set_snd_window (set_st t0 Established) _ _ _).
    unfold ack_est. change (snd_una ta) with (snd_una t). change (snd_nxt ta) with (snd_nxt t).
    rewrite ?Hack, ?Hun, ?Hnx. rewrite mod_leq_succ by assumption. unfold mod_gt. rewrite mod_lt_irrefl.
    set (tb := remove_acked _ _).
    change (snd_wl1 tb) with (h_seq h). change (snd_wl2 tb) with (snd_wl2 ta).
    subst ta. tcb_simpl. rewrite ?Hack.
    rewrite Z.eqb_refl, mod_leq_refl, orb_true_r.
    unfold ps_rst. rewrite Hr. cbn [negb]. unfold ps_syn. rewrite Hsy. cbn [negb].
    cbn [set_snd_window st state_eqb]. rewrite ps_text_nil, ps_fin_nofin by exact Hf.
    f_equal. f_equal. subst tb t0. unfold remove_acked. tcb_simpl. rewrite ?Hack.
    rewrite filter_acked_syn by exact Hretx. reflexivity.
  - reflexivity.
Qed.

(* the peer's SYN-ACK in SYN-RECEIVED (simultaneous open): ESTABLISHED, then the SYN is
   acknowledged and discarded *)
Lemma synack_in_synrcvd t h iss :
  st t = SynReceived -> in_segs t = [] -> rcv_wnd t = 65535 ->
  u32 (h_seq h) -> rcv_nxt t = wadd (h_seq h) 1 ->
  u32 iss -> snd_una t = iss -> snd_nxt t = wadd iss 1 ->
  Forall (covers_syn iss) (retx t) ->
  c_syn (h_ctl h) = true -> c_ack (h_ctl h) = true -> c_rst (h_ctl h) = false -> c_fin (h_ctl h) = false ->
  h_ack h = wadd iss 1 ->
  let t1 := set_snd_window (set_retx (set_snd_una (set_st (set_in_segs t []) Established) (wadd iss 1)) [])
                           (h_wnd h) (h_seq h) (h_ack h) in
  segment_arrives t (mkSeg h []) = Ok (set_oneshot t1 (oneshot t ++ [ack_hdr t1]), AOk).
Proof.
  intros Est Hs Hw Hu Hrn Hi Hun Hnx Hretx Hsy Ha Hr Hf Hack t1.
  set (t0 := set_in_segs t []).
  eapply arrives_one; try assumption; try reflexivity.
  - rewrite Est. cbn [state_eqb negb andb]. tcb_simpl. rewrite Hrn. unfold mod_gt. apply mod_lt_succ_l.
  - fold t0. unfold process_segment. tcb_simpl. change (st t0) with (st t). rewrite Est, Hsy, Hf.
    assert (Hok : is_seq_ok t0 (zlen (@nil Z)) (h_seq h) true false = true).
    { unfold is_seq_ok. cbn [b2z zlen length]. change (Z.of_nat 0 + 0 + 1 =? 0) with false. cbn iota.
      change (rcv_wnd t0) with (rcv_wnd t). rewrite Hw. cbn [Z.eqb].
      rewrite (in_window_before t0 (h_seq h)) by assumption. reflexivity. }
    rewrite Hok. cbn [negb].
    unfold ps_ack. rewrite Ha. cbn [negb]. change (st t0) with (st t). rewrite Est.
    change (snd_una t0) with (snd_una t). change (snd_nxt t0) with (snd_nxt t).
    rewrite Hun, Hnx, Hack, ack_acceptable by assumption.
    set (ta := set_snd_window (set_st t0 Established) _ _ _).
    unfold ack_est. change (snd_una ta) with (snd_una t). change (snd_nxt ta) with (snd_nxt t).
    rewrite ?Hack, ?Hun, ?Hnx. rewrite mod_leq_succ by assumption. unfold mod_gt. rewrite mod_lt_irrefl.
    set (tb := remove_acked _ _).
    change (snd_wl1 tb) with (h_seq h). change (snd_wl2 tb) with (snd_wl2 ta).
    subst ta. tcb_simpl. rewrite ?Hack.
    rewrite Z.eqb_refl, mod_leq_refl, orb_true_r.
    assert (Etb : set_snd_window tb (h_wnd h) (h_seq h) (wadd iss 1) = t1).
    { subst tb t1 t0. unfold remove_acked. tcb_simpl. rewrite ?Hack.
      rewrite filter_acked_syn by exact Hretx. reflexivity. }
    rewrite Etb.
    unfold ps_rst. rewrite Hr. cbn [negb]. unfold ps_syn. rewrite Hsy. cbn [negb].
    change (st t1) with Established. cbn iota.
    rewrite enqueue_plain by apply ack_hdr_plain. reflexivity.
  - reflexivity.
Qed.
