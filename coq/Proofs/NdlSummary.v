(* Conjunctions of lemmas packaged for Props/C19.v and Props/C14ndl.v (statements only; the
   Props files close each theorem by [exact]). *)
From Elvis Require Import Model.Base Model.Ndl Proofs.NdlFacts Proofs.NdlRound Proofs.NdlFile
  Proofs.NdlRewrite Proofs.NdlReject Proofs.NdlWitness.
Local Open Scope Z_scope.

Lemma sum_roundtrip_crlf : forall s, wf_sim s ->
  core_parse (crlf (render s)) = Ok s /\ core_parse (crlf (render4 s)) = Ok s.
Proof.
  intros s H. split; rewrite core_parse_crlf; [exact (core_parse_render s H)|exact (core_parse_render4 s H)].
Qed.

Lemma sum_prefix_networks : forall l0 l acc ln fuel tail,
  Forall pnetwork l -> NoDup (map fst (acc ++ l)) ->
  (count_leading c_tab tail < 2)%nat -> not_nl_head tail ->
  (length (flat_map render_network l ++ tail) < fuel)%nat ->
  exists fuel', (length tail < fuel')%nat /\
    networks_loop get_type fuel 1 l0 acc (flat_map render_network l ++ tail) ln
    = networks_loop get_type fuel' 1 l0 (acc ++ l) tail (ln + lines_networks l).
Proof. intros l0 l. exact (networks_loop_peel l0 l). Qed.

Lemma sum_prefix_machines : forall l0 l acc ln fuel tail,
  Forall pmachine l -> (count_leading c_tab tail < 2)%nat -> not_nl_head tail ->
  (length (flat_map render_machine l ++ tail) < fuel)%nat ->
  exists fuel', (length tail < fuel')%nat /\
    machines_loop get_type fuel 1 l0 acc (flat_map render_machine l ++ tail) ln
    = machines_loop get_type fuel' 1 l0 (acc ++ l) tail (ln + lines_machines l).
Proof. intros l0 l. exact (machines_loop_peel l0 l). Qed.

Lemma sum_reject_line_error_propagates : forall s nt ln e,
  is_nil s = false -> count_leading c_tab s = nt ->
  general_parser get_type (skipn nt s) ln = Err e ->
  (forall f nets ms, nt = 0%nat -> core_loop get_type (S f) nets ms s ln = Err e) /\
  (forall f l0 acc, networks_loop get_type (S f) nt l0 acc s ln = Err (wrapline l0 e)) /\
  (forall f l0 acc, network_loop get_type (S f) nt l0 acc s ln = Err (wrapline l0 e)) /\
  (forall f l0 acc, machines_loop get_type (S f) nt l0 acc s ln = Err (wrapline l0 e)) /\
  (forall f l0 req a b c, machine_loop get_type (S f) nt l0 req a b c s ln = Err (wrapline l0 e)) /\
  (forall f expect l0 acc, items_loop get_type (S f) expect nt l0 acc s ln = Err (wrapline l0 e)).
Proof.
  intros s nt ln e Hn Ht Hg. split.
  - intros f nets ms ->. exact (core_loop_head_fails f nets ms s ln e Hn Hg).
  - split; [intros; apply networks_loop_head_fails; assumption|].
    split; [intros; apply (network_loop_head_fails s nt ln e Hn Ht Hg)|].
    split; [intros; apply machines_loop_head_fails; assumption|].
    split; [intros; apply machine_loop_head_fails; assumption|].
    intros; apply (items_loop_head_fails s nt ln e Hn Ht Hg).
Qed.

Lemma sum_reject_nesting_too_deep :
  (forall f nt l0 acc s ln, is_nil s = false -> (nt < count_leading c_tab s)%nat ->
     networks_loop get_type (S f) nt l0 acc s ln = Err (ecode E_TABCOUNT ln)) /\
  (forall f nt l0 acc s ln, is_nil s = false -> (nt < count_leading c_tab s)%nat ->
     machines_loop get_type (S f) nt l0 acc s ln = Err (ecode E_TABCOUNT ln)) /\
  (forall f nt l0 req a b c s ln, is_nil s = false -> (nt < count_leading c_tab s)%nat ->
     machine_loop get_type (S f) nt l0 req a b c s ln = Err (ecode E_TABCOUNT ln)) /\
  (forall f nt l0 acc i tail ln, pitem IP i -> not_nl_head tail -> (nt < count_leading c_tab tail)%nat ->
     network_loop get_type (S f) nt l0 acc (render_item nt i ++ tail) ln = Err (ecode E_TABCOUNT (ln + 1))) /\
  (forall f expect nt l0 acc i tail ln, pitem expect i -> not_nl_head tail ->
     (nt < count_leading c_tab tail)%nat ->
     items_loop get_type (S f) expect nt l0 acc (render_item nt i ++ tail) ln = Err (ecode E_TABCOUNT (ln + 1))).
Proof.
  split; [exact networks_loop_too_deep|]. split; [exact machines_loop_too_deep|].
  split; [exact machine_loop_too_deep|]. split; [exact network_loop_child_too_deep|].
  exact items_loop_child_too_deep.
Qed.

Lemma sum_reject_nesting_wrong_kind :
  (forall f l0 acc n d a tail ln, d <> Network -> pargs a -> not_nl_head tail ->
     networks_loop get_type (S f) n l0 acc (render_line n d a ++ tail) ln = Err (ecode E_EXPECTED (ln + 1))) /\
  (forall f l0 acc n d a tail ln, d <> IP -> pargs a -> not_nl_head tail ->
     network_loop get_type (S f) n l0 acc (render_line n d a ++ tail) ln = Err (ecode E_EXPECTED ln)) /\
  (forall f l0 acc n d a tail ln, d <> Machine -> pargs a -> not_nl_head tail ->
     machines_loop get_type (S f) n l0 acc (render_line n d a ++ tail) ln = Err (ecode E_EXPECTED (ln + 1))) /\
  (forall f l0 req x y z n d a tail ln, req_contains d req = false -> pargs a -> not_nl_head tail ->
     machine_loop get_type (S f) n l0 req x y z (render_line n d a ++ tail) ln = Err (ecode E_UNEXPECTED ln)) /\
  (forall f expect l0 acc n d a tail ln, d <> expect -> pargs a -> not_nl_head tail ->
     items_loop get_type (S f) expect n l0 acc (render_line n d a ++ tail) ln = Err (ecode E_EXPECTED ln)).
Proof.
  split; [exact networks_loop_wrong_type|]. split; [exact network_loop_wrong_type|].
  split; [exact machines_loop_wrong_type|]. split; [exact machine_loop_unexpected|].
  exact items_loop_wrong_type.
Qed.

Lemma sum_reject_missing_section :
  (forall args sec1 its1 sec2 its2 rest ln,
     (sec1, sec2) = (Networks, Protocols) \/ (sec1, sec2) = (Networks, Applications) \/
     (sec1, sec2) = (Protocols, Applications) ->
     its1 <> [] -> Forall (pitem (item_type_of sec1)) its1 ->
     its2 <> [] -> Forall (pitem (item_type_of sec2)) its2 ->
     (count_leading c_tab rest < 2)%nat -> not_nl_head rest ->
     machine_parser get_type args (msec sec1 its1 ++ msec sec2 its2 ++ rest) 2 ln
     = Err (ecode E_REQUIRED (ln - 1))) /\
  (forall args rest ln, (count_leading c_tab rest < 2)%nat ->
     machine_parser get_type args rest 2 ln = Err (ecode E_REQUIRED (ln - 1))) /\
  (forall expect s nt ln, count_leading c_tab s <> nt ->
     items_parser get_type expect s nt ln = Err (ecode E_FORMAT (-1))) /\
  (forall dec args s nt ln, count_leading c_tab s <> nt ->
     network_parser get_type dec args s nt ln = Err (ecode E_TABSGOT ln)).
Proof.
  split; [exact machine_missing_one|]. split; [exact machine_missing_all|].
  split; [exact items_parser_empty|exact network_parser_empty].
Qed.

Lemma sum_roundtrip_crlf_all :
  (forall t, core_parse (crlf t) = core_parse t) /\
  (forall s, wf_sim s ->
  core_parse (crlf (render s)) = Ok s /\ core_parse (crlf (render4 s)) = Ok s).
Proof.
  split; [exact core_parse_crlf|]. exact sum_roundtrip_crlf.
Qed.

Lemma sum_roundtrip_refuted_all :
  (wf_val v_rbr /\ clean v_rbr /\ core_parse (render (ex_with v_rbr)) = Err (ecode E_EXTRA 11)) /\
  (wf_val v_sp4 /\ ~ In c_rbr v_sp4 /\ ~ In c_cr v_sp4 /\
  core_parse (render (ex_with v_sp4)) = Ok (ex_with [97; 9; 98]%N)) /\
  (wf_val v_cr /\ ~ In c_rbr v_cr /\ norun4 0 v_cr = true /\
  core_parse (render (ex_with v_cr)) = Ok (ex_with [97; 98]%N)) /\
  (~ In c_rbr v_quote /\ clean v_quote /\
  core_parse (render (ex_with v_quote)) = Err (ecode E_EXTRA 11)).
Proof.
  split; [exact refuted_rbr|]. split; [exact refuted_sp4|]. split; [exact refuted_cr|]. exact refuted_quote.
Qed.

Lemma sum_prefix_all :
  (forall l0 l acc ln fuel tail,
  Forall pnetwork l -> NoDup (map fst (acc ++ l)) ->
  (count_leading c_tab tail < 2)%nat -> not_nl_head tail ->
  (length (flat_map render_network l ++ tail) < fuel)%nat ->
  exists fuel', (length tail < fuel')%nat /\
    networks_loop get_type fuel 1 l0 acc (flat_map render_network l ++ tail) ln
    = networks_loop get_type fuel' 1 l0 (acc ++ l) tail (ln + lines_networks l)) /\
  (forall l0 l acc ln fuel tail,
  Forall pmachine l -> (count_leading c_tab tail < 2)%nat -> not_nl_head tail ->
  (length (flat_map render_machine l ++ tail) < fuel)%nat ->
  exists fuel', (length tail < fuel')%nat /\
    machines_loop get_type fuel 1 l0 acc (flat_map render_machine l ++ tail) ln
    = machines_loop get_type fuel' 1 l0 (acc ++ l) tail (ln + lines_machines l)).
Proof.
  split; [exact sum_prefix_networks|]. exact sum_prefix_machines.
Qed.

Lemma sum_reject_wrong_nesting_all :
  (forall f nets ms d a tail ln,
  d <> Template -> d <> Networks -> d <> Machines -> pargs a -> not_nl_head tail ->
  core_loop get_type (S f) nets ms (render_line 0 d a ++ tail) ln = Err (ecode E_CANNOT ln)) /\
  ((forall f nt l0 acc s ln, is_nil s = false -> (nt < count_leading c_tab s)%nat ->
     networks_loop get_type (S f) nt l0 acc s ln = Err (ecode E_TABCOUNT ln)) /\
  (forall f nt l0 acc s ln, is_nil s = false -> (nt < count_leading c_tab s)%nat ->
     machines_loop get_type (S f) nt l0 acc s ln = Err (ecode E_TABCOUNT ln)) /\
  (forall f nt l0 req a b c s ln, is_nil s = false -> (nt < count_leading c_tab s)%nat ->
     machine_loop get_type (S f) nt l0 req a b c s ln = Err (ecode E_TABCOUNT ln)) /\
  (forall f nt l0 acc i tail ln, pitem IP i -> not_nl_head tail -> (nt < count_leading c_tab tail)%nat ->
     network_loop get_type (S f) nt l0 acc (render_item nt i ++ tail) ln = Err (ecode E_TABCOUNT (ln + 1))) /\
  (forall f expect nt l0 acc i tail ln, pitem expect i -> not_nl_head tail ->
     (nt < count_leading c_tab tail)%nat ->
     items_loop get_type (S f) expect nt l0 acc (render_item nt i ++ tail) ln = Err (ecode E_TABCOUNT (ln + 1)))) /\
  ((forall f l0 acc n d a tail ln, d <> Network -> pargs a -> not_nl_head tail ->
     networks_loop get_type (S f) n l0 acc (render_line n d a ++ tail) ln = Err (ecode E_EXPECTED (ln + 1))) /\
  (forall f l0 acc n d a tail ln, d <> IP -> pargs a -> not_nl_head tail ->
     network_loop get_type (S f) n l0 acc (render_line n d a ++ tail) ln = Err (ecode E_EXPECTED ln)) /\
  (forall f l0 acc n d a tail ln, d <> Machine -> pargs a -> not_nl_head tail ->
     machines_loop get_type (S f) n l0 acc (render_line n d a ++ tail) ln = Err (ecode E_EXPECTED (ln + 1))) /\
  (forall f l0 req x y z n d a tail ln, req_contains d req = false -> pargs a -> not_nl_head tail ->
     machine_loop get_type (S f) n l0 req x y z (render_line n d a ++ tail) ln = Err (ecode E_UNEXPECTED ln)) /\
  (forall f expect l0 acc n d a tail ln, d <> expect -> pargs a -> not_nl_head tail ->
     items_loop get_type (S f) expect n l0 acc (render_line n d a ++ tail) ln = Err (ecode E_EXPECTED ln))).
Proof.
  split; [exact core_loop_cannot_declare|]. split; [exact sum_reject_nesting_too_deep|]. exact sum_reject_nesting_wrong_kind.
Qed.
