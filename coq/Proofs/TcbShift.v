(* C12 equivariance, part 1: algebra of wrapping shifts, the shift maps on
   headers / segments / TCBs (with a ghost for the fields that may hold raw,
   unshifted values), and the commutation of the header builders and of the
   binary heap with the shift. *)
From Elvis Require Import Model.Base Model.U32 Model.Tcb Proofs.U32Facts.
From Coq Require Import ZifyBool.
Local Open Scope Z_scope.
Ltac Zify.zify_post_hook ::= Z.div_mod_to_equations.

(* ------------------------------------------------------------------ *)
(* 1. algebra of wadd / wsub under a shift                              *)
(* ------------------------------------------------------------------ *)
Lemma wadd_swap a d k : wadd (wadd a d) k = wadd (wadd a k) d.
Proof.
  rewrite !wadd_spec. rewrite !Zplus_mod_idemp_l. f_equal. lia.
Qed.
Lemma wsub_shift a b d : wsub (wadd a d) (wadd b d) = wsub a b.
Proof.
  rewrite !wadd_spec, !wsub_spec. rewrite Zminus_mod_idemp_l, Zminus_mod_idemp_r. f_equal. lia.
Qed.
Lemma wsub_wadd_l a d k : wsub (wadd a d) k = wadd (wsub a k) d.
Proof.
  rewrite !wadd_spec, !wsub_spec. rewrite Zminus_mod_idemp_l, Zplus_mod_idemp_l. f_equal. lia.
Qed.
Lemma wadd_0_u32 a : u32 a -> wadd a 0 = a.
Proof. intros H. rewrite wadd_spec, Z.add_0_r. apply Z.mod_small. exact H. Qed.
Lemma wadd_wadd a d e : wadd (wadd a d) e = wadd a (d + e).
Proof. rewrite !wadd_spec. rewrite Zplus_mod_idemp_l. f_equal. lia. Qed.
Lemma wadd_wrap_r a d : wadd a (wrap d) = wadd a d.
Proof. rewrite wrap_spec, !wadd_spec. rewrite Zplus_mod_idemp_r. reflexivity. Qed.
Lemma u32_0 : u32 0.
Proof. unfold u32, M32. lia. Qed.

Lemma mod_gt_shift a b d : mod_gt (wadd a d) (wadd b d) = mod_gt a b.
Proof. unfold mod_gt. apply mod_lt_shift. Qed.

(* ------------------------------------------------------------------ *)
(* 2. shift maps                                                        *)
(* ------------------------------------------------------------------ *)
(* A header travelling FROM an endpoint whose own space is shifted by dS
   (its seq) towards a peer whose space is shifted by dK (its ack).  The ack
   field is shifted only when the ACK flag is set: otherwise it is the raw 0
   of the header builder. *)
Definition sh_hdr (dS dK : Z) (h : header) : header :=
  mkHdr (h_sport h) (h_dport h) (wadd (h_seq h) dS)
        (if c_ack (h_ctl h) then wadd (h_ack h) dK else h_ack h)
        (h_ctl h) (h_wnd h) (h_urg h).
Definition sh_seg (dS dK : Z) (s : segment) : segment := mkSeg (sh_hdr dS dK (s_hdr s)) (s_text s).
Definition sh_tx (dS dK : Z) (x : transmit) : transmit := mkTx (sh_seg dS dK (t_seg x)) (t_needs x).

(* the fields that may hold raw values (see the file header of TcbShiftOps) *)
Record ghost := mkG { g_wl1 : Z; g_wl2 : Z; g_irs : Z; g_nxt : Z }.

(* dO = shift of the endpoint's own sequence space, dP = shift of its peer's *)
Definition gsh (dO dP : Z) (g : ghost) (t : tcb) : tcb :=
  mkTcb (lport t) (rport t) (mtu t) (listen_init t) (st t)
        (wadd (snd_una t) dO) (wadd (snd_nxt t) dO) (snd_wnd t) (g_wl1 g) (g_wl2 g) (wadd (snd_iss t) dO)
        (g_irs g) (g_nxt g) (rcv_wnd t)
        (out_text t) (map (sh_tx dO dP) (retx t)) (map (sh_hdr dO dP) (oneshot t)) (fin_pending t)
        (map (sh_seg dP dO) (in_segs t)) (in_text t) (rto t) (time_wait t).

(* the plain shift: every field is taken to be valid *)
Definition shift_tcb (dO dP : Z) (t : tcb) : tcb :=
  gsh dO dP (mkG (wadd (snd_wl1 t) dP) (wadd (snd_wl2 t) dO) (wadd (rcv_irs t) dP) (wadd (rcv_nxt t) dP)) t.

Definition is_synsent (s : state) : bool := match s with SynSent => true | _ => false end.

(* RCV.IRS / RCV.NXT / SND.WL1 hold raw zeros until a SYN has been processed;
   from then on they live in the peer's space.  (SND.WL2 is never constrained.) *)
Definition rcv_valid (dP : Z) (g : ghost) (t : tcb) : Prop :=
  is_synsent (st t) = false ->
  (g_irs g = wadd (rcv_irs t) dP /\ g_wl1 g = wadd (snd_wl1 t) dP) /\ g_nxt g = wadd (rcv_nxt t) dP.
(* SND.WL1 / SND.WL2 are valid when they were taken from an ACK-bearing segment *)
Definition wl_valid (dO dP : Z) (g : ghost) (t : tcb) : Prop :=
  g_wl1 g = wadd (snd_wl1 t) dP /\ g_wl2 g = wadd (snd_wl2 t) dO.

(* THE RELATION between a TCB and its counterpart in the run with shifted ISNs *)
Definition trel (dO dP : Z) (t t' : tcb) : Prop :=
  exists g, t' = gsh dO dP g t /\ rcv_valid dP g t.

Definition set_gwl (g : ghost) (a b : Z) : ghost := mkG a b (g_irs g) (g_nxt g).
Definition set_girs (g : ghost) (v : Z) : ghost := mkG (g_wl1 g) (g_wl2 g) v (g_nxt g).
Definition set_gnxt (g : ghost) (v : Z) : ghost := mkG (g_wl1 g) (g_wl2 g) (g_irs g) v.

(* ------------------------------------------------------------------ *)
(* 3. well-formedness carried on the ORIGINAL run only                  *)
(* ------------------------------------------------------------------ *)
(* every sequence field in range; every SYN- or ACK-bearing header advertises
   the (constant) default window *)
Definition hok (h : header) : Prop :=
  u32 (h_seq h) /\ u32 (h_ack h) /\
  (c_ack (h_ctl h) || c_syn (h_ctl h) = true -> h_wnd h = DEFAULT_WND).
Definition sok (s : segment) : Prop := hok (s_hdr s).
Definition xok (x : transmit) : Prop := sok (t_seg x).

Record tinv (t : tcb) : Prop := mkTinv {
  i_una : u32 (snd_una t);
  i_nxt : u32 (snd_nxt t);
  i_iss : u32 (snd_iss t);
  i_rnxt : u32 (rcv_nxt t);
  i_wl1 : u32 (snd_wl1 t);
  i_rwnd : rcv_wnd t = DEFAULT_WND;
  i_swnd : if is_synsent (st t) then snd_wnd t = 0 /\ fin_pending t = false
           else snd_wnd t = DEFAULT_WND;
  i_retx : Forall xok (retx t);
  i_one : Forall hok (oneshot t);
  i_in : Forall sok (in_segs t) }.

(* ------------------------------------------------------------------ *)
(* 4. projections of gsh and commutation with the setters               *)
(* ------------------------------------------------------------------ *)
Ltac tcb_cbn :=
  cbn [gsh set_st set_snd_una set_snd_nxt set_snd_window set_rcv_irs set_rcv_nxt set_out_text
       set_retx set_oneshot set_fin_pending set_in_segs set_in_text set_rto set_time_wait
       lport rport mtu listen_init st snd_una snd_nxt snd_wnd snd_wl1 snd_wl2 snd_iss
       rcv_irs rcv_nxt rcv_wnd out_text retx oneshot fin_pending in_segs in_text rto time_wait
       set_gwl set_girs set_gnxt g_wl1 g_wl2 g_irs g_nxt
       sh_hdr sh_seg sh_tx h_sport h_dport h_seq h_ack h_ctl h_wnd h_urg s_hdr s_text t_seg t_needs
       c_urg c_ack c_psh c_rst c_syn c_fin
       hb hb_ack hb_wnd hb_flag hb_rst hb_syn hb_fin ctl0 fst snd] in *.

Section Shift.
Variables dO dP : Z.
Notation G := (gsh dO dP).
Notation HO := (sh_hdr dO dP).   (* outgoing header *)
Notation HI := (sh_hdr dP dO).   (* incoming header *)
Notation SO := (sh_seg dO dP).
Notation SI := (sh_seg dP dO).

Lemma G_set_st g t v : set_st (G g t) v = G g (set_st t v).
Proof. reflexivity. Qed.
Lemma G_set_snd_una g t v : set_snd_una (G g t) (wadd v dO) = G g (set_snd_una t v).
Proof. reflexivity. Qed.
Lemma G_set_snd_nxt g t v : set_snd_nxt (G g t) (wadd v dO) = G g (set_snd_nxt t v).
Proof. reflexivity. Qed.
Lemma G_set_snd_window g t w a b x y :
  set_snd_window (G g t) w a b = G (set_gwl g a b) (set_snd_window t w x y).
Proof. reflexivity. Qed.
Lemma G_set_rcv_irs g t v x : set_rcv_irs (G g t) v = G (set_girs g v) (set_rcv_irs t x).
Proof. reflexivity. Qed.
Lemma G_set_rcv_nxt g t v x : set_rcv_nxt (G g t) v = G (set_gnxt g v) (set_rcv_nxt t x).
Proof. reflexivity. Qed.
Lemma G_set_out_text g t v : set_out_text (G g t) v = G g (set_out_text t v).
Proof. reflexivity. Qed.
Lemma G_set_retx g t v : set_retx (G g t) (map (sh_tx dO dP) v) = G g (set_retx t v).
Proof. reflexivity. Qed.
Lemma G_set_oneshot g t v : set_oneshot (G g t) (map HO v) = G g (set_oneshot t v).
Proof. reflexivity. Qed.
Lemma G_set_fin_pending g t v : set_fin_pending (G g t) v = G g (set_fin_pending t v).
Proof. reflexivity. Qed.
Lemma G_set_in_segs g t v : set_in_segs (G g t) (map SI v) = G g (set_in_segs t v).
Proof. reflexivity. Qed.
Lemma G_set_in_text g t v : set_in_text (G g t) v = G g (set_in_text t v).
Proof. reflexivity. Qed.
Lemma G_set_rto g t v : set_rto (G g t) v = G g (set_rto t v).
Proof. reflexivity. Qed.
Lemma G_set_time_wait g t v : set_time_wait (G g t) v = G g (set_time_wait t v).
Proof. reflexivity. Qed.

(* a window update that leaves the window unchanged only touches the ghost *)
Lemma set_snd_window_same t : set_snd_window t (snd_wnd t) (snd_wl1 t) (snd_wl2 t) = t.
Proof. destruct t; reflexivity. Qed.
Lemma G_set_snd_window_same g t w a b : snd_wnd t = w ->
  set_snd_window (G g t) w a b = G (set_gwl g a b) t.
Proof.
  intros <-. rewrite (G_set_snd_window g t _ a b (snd_wl1 t) (snd_wl2 t)).
  rewrite set_snd_window_same. reflexivity.
Qed.

(* ---- header builders ---- *)
Lemma hb_G g t seq : hb (G g t) (wadd seq dO) = HO (hb t seq).
Proof. reflexivity. Qed.
Lemma hb_ack_sh dS dK h a : hb_ack (sh_hdr dS dK h) (wadd a dK) = sh_hdr dS dK (hb_ack h a).
Proof. reflexivity. Qed.
Lemma hb_wnd_sh dS dK h w : hb_wnd (sh_hdr dS dK h) w = sh_hdr dS dK (hb_wnd h w).
Proof. reflexivity. Qed.
Lemma hb_flag_sh dS dK h r s f : hb_flag (sh_hdr dS dK h) r s f = sh_hdr dS dK (hb_flag h r s f).
Proof. reflexivity. Qed.
Lemma hb_rst_sh dS dK h : hb_rst (sh_hdr dS dK h) = sh_hdr dS dK (hb_rst h).
Proof. reflexivity. Qed.
Lemma hb_syn_sh dS dK h : hb_syn (sh_hdr dS dK h) = sh_hdr dS dK (hb_syn h).
Proof. reflexivity. Qed.
Lemma hb_fin_sh dS dK h : hb_fin (sh_hdr dS dK h) = sh_hdr dS dK (hb_fin h).
Proof. reflexivity. Qed.

Lemma seg_len_sh dS dK s : seg_len (sh_seg dS dK s) = seg_len s.
Proof. reflexivity. Qed.

(* the plain ACK: needs a valid RCV.NXT *)
Lemma ack_hdr_G g t : g_nxt g = wadd (rcv_nxt t) dP -> ack_hdr (G g t) = HO (ack_hdr t).
Proof. intros E. unfold ack_hdr. tcb_cbn. rewrite E. reflexivity. Qed.

Lemma rst_hdr_G g t seq : rst_hdr (G g t) (wadd seq dO) = HO (rst_hdr t seq).
Proof. reflexivity. Qed.

(* ---- enqueue ---- *)
Lemma enqueue_G g t h : enqueue (G g t) (HO h) = G g (enqueue t h).
Proof.
  unfold enqueue. tcb_cbn. destruct (c_syn (h_ctl h) || c_fin (h_ctl h)).
  - rewrite <- G_set_retx. rewrite map_app. reflexivity.
  - rewrite <- G_set_oneshot. rewrite map_app. reflexivity.
Qed.

End Shift.

(* ------------------------------------------------------------------ *)
(* 5. the binary heap commutes with a shift of the keys                 *)
(* ------------------------------------------------------------------ *)
Section Heap.
Variables dS dK : Z.
Notation S' := (sh_seg dS dK).

Definition squ32 (s : segment) : Prop := u32 (h_seq (s_hdr s)).

Lemma seg_le_sh a b : squ32 a -> squ32 b -> seg_le (S' a) (S' b) = seg_le a b.
Proof.
  intros Ha Hb. unfold seg_le. tcb_cbn.
  rewrite eqb_shift by assumption. rewrite mod_lt_shift. reflexivity.
Qed.

Lemma set_nth_map {A B} (f : A -> B) l i x : set_nth (map f l) i (f x) = map f (set_nth l i x).
Proof.
  revert i. induction l as [|y r IH]; intros [|j]; cbn; try reflexivity. rewrite IH. reflexivity.
Qed.
Lemma get_or_map {A B} (f : A -> B) l i x : get_or (map f l) i (f x) = f (get_or l i x).
Proof.
  unfold get_or. rewrite nth_error_map. destruct (nth_error l i); reflexivity.
Qed.
Lemma set_nth_Forall {A} (P : A -> Prop) l i x : Forall P l -> P x -> Forall P (set_nth l i x).
Proof.
  intros Hl Hx. revert i. induction Hl as [|y r Hy Hr IH]; intros [|j]; cbn; auto.
Qed.
Lemma get_or_P {A} (P : A -> Prop) l i x : Forall P l -> P x -> P (get_or l i x).
Proof.
  intros Hl Hx. unfold get_or. destruct (nth_error l i) eqn:E; auto.
  apply nth_error_In in E. rewrite Forall_forall in Hl. auto.
Qed.
Ltac hpf := repeat first [assumption | apply set_nth_Forall | apply get_or_P].

Lemma set_nth_length {A} (l : list A) i x : length (set_nth l i x) = length l.
Proof. revert i. induction l; intros [|j]; cbn; auto. Qed.

Lemma sift_up_sh fuel : forall v pos x, Forall squ32 v -> squ32 x ->
  sift_up fuel (map S' v) pos (S' x) = map S' (sift_up fuel v pos x).
Proof.
  induction fuel as [|f IH]; intros v pos x Hv Hx; cbn [sift_up]; cbv zeta.
  - apply set_nth_map.
  - destruct pos as [|p]; [apply set_nth_map|].
    rewrite get_or_map. rewrite seg_le_sh by hpf.
    destruct (seg_le x _).
    + apply set_nth_map.
    + rewrite set_nth_map. apply IH; hpf.
Qed.
Lemma sift_up_Forall (P : segment -> Prop) fuel : forall v pos x, Forall P v -> P x ->
  Forall P (sift_up fuel v pos x).
Proof.
  induction fuel as [|f IH]; intros v pos x Hv Hx; cbn [sift_up]; cbv zeta.
  - hpf.
  - destruct pos as [|p]; [hpf|].
    destruct (seg_le x _); [hpf | apply IH; hpf].
Qed.

Lemma heap_push_sh v x : Forall squ32 v -> squ32 x ->
  heap_push (map S' v) (S' x) = map S' (heap_push v x).
Proof.
  intros Hv Hx. unfold heap_push. rewrite map_length.
  change (map S' v ++ [S' x]) with (map S' v ++ map S' [x]). rewrite <- map_app.
  apply sift_up_sh; auto. apply Forall_app; auto.
Qed.
Lemma heap_push_Forall (P : segment -> Prop) v x : Forall P v -> P x -> Forall P (heap_push v x).
Proof.
  intros Hv Hx. unfold heap_push. apply sift_up_Forall; auto. apply Forall_app; auto.
Qed.

Lemma sift_down_sh fuel : forall v pos x, Forall squ32 v -> squ32 x ->
  sift_down fuel (map S' v) pos (S' x) =
  (map S' (fst (sift_down fuel v pos x)), snd (sift_down fuel v pos x)).
Proof.
  induction fuel as [|f IH]; intros v pos x Hv Hx; cbn [sift_down]; cbv zeta.
  - reflexivity.
  - rewrite map_length.
    destruct (Nat.leb (2 * pos + 1) (length v - 2) && Nat.leb 2 (length v)).
    + rewrite !get_or_map. rewrite seg_le_sh by hpf.
      rewrite set_nth_map. apply IH; hpf.
    + destruct (Nat.eqb (2 * pos + 1) (length v - 1) && Nat.leb 1 (length v)).
      * rewrite get_or_map, set_nth_map. reflexivity.
      * reflexivity.
Qed.
Lemma sift_down_Forall (P : segment -> Prop) fuel : forall v pos x, Forall P v -> P x ->
  Forall P (fst (sift_down fuel v pos x)).
Proof.
  induction fuel as [|f IH]; intros v pos x Hv Hx; cbn [sift_down]; cbv zeta.
  - exact Hv.
  - destruct (Nat.leb (2 * pos + 1) (length v - 2) && Nat.leb 2 (length v)).
    + apply IH; hpf.
    + destruct (Nat.eqb (2 * pos + 1) (length v - 1) && Nat.leb 1 (length v)); cbn [fst];
        hpf.
Qed.

Definition opt_pop_sh (o : option (segment * list segment)) :=
  match o with None => None | Some (s, r) => Some (S' s, map S' r) end.

Definition pop_body (init : list segment) (last : segment) : option (segment * list segment) :=
  match init with
  | [] => Some (last, [])
  | _ :: _ =>
    let '(v1, pos) := sift_down (S (length init)) init O last in
    Some (hd last init, sift_up (S (length init)) v1 pos last)
  end.
Lemma heap_pop_body v :
  heap_pop v = match rev v with [] => None | last :: rinit => pop_body (rev rinit) last end.
Proof.
  unfold heap_pop. destruct (rev v) as [|last rinit]; [reflexivity|].
  destruct (rev rinit); reflexivity.
Qed.
Lemma pop_body_sh init last : Forall squ32 init -> squ32 last ->
  pop_body (map S' init) (S' last) = opt_pop_sh (pop_body init last).
Proof.
  intros Hi Hl. destruct init as [|top rest]; [reflexivity|].
  unfold pop_body. change (map S' (top :: rest)) with (S' top :: map S' rest) at 1. cbv iota.
  rewrite map_length. rewrite sift_down_sh by assumption.
  destruct (sift_down (S (length (top :: rest))) (top :: rest) 0 last) as [v1 pos] eqn:Esd.
  cbn [fst snd].
  assert (Hv1 : Forall squ32 v1).
  { change v1 with (fst (v1, pos)). rewrite <- Esd. apply sift_down_Forall; assumption. }
  rewrite sift_up_sh by assumption. reflexivity.
Qed.
Lemma heap_pop_sh v : Forall squ32 v -> heap_pop (map S' v) = opt_pop_sh (heap_pop v).
Proof.
  intros Hv. rewrite !heap_pop_body. rewrite <- map_rev.
  assert (Hr : Forall squ32 (rev v)) by (apply Forall_rev; exact Hv).
  destruct (rev v) as [|last rinit]; [reflexivity|]. cbn [map].
  inversion Hr as [|? ? Hl Hri]; subst.
  rewrite <- map_rev. apply pop_body_sh; [apply Forall_rev; exact Hri | exact Hl].
Qed.

Lemma pop_body_Forall (P : segment -> Prop) init last s r : Forall P init -> P last ->
  pop_body init last = Some (s, r) -> P s /\ Forall P r.
Proof.
  intros Hi Hl. destruct init as [|top rest].
  - intros [= <- <-]. auto.
  - unfold pop_body. remember (S (length (top :: rest))) as n eqn:En. clear En.
    destruct (sift_down n (top :: rest) 0 last) as [v1 pos] eqn:Esd.
    intros [= <- <-].
    assert (Hv1 : Forall P v1).
    { change v1 with (fst (v1, pos)). rewrite <- Esd. apply sift_down_Forall; assumption. }
    split.
    + inversion Hi; assumption.
    + apply sift_up_Forall; assumption.
Qed.
Lemma heap_pop_Forall (P : segment -> Prop) v s r : Forall P v -> heap_pop v = Some (s, r) ->
  P s /\ Forall P r.
Proof.
  intros Hv. rewrite heap_pop_body.
  assert (Hr : Forall P (rev v)) by (apply Forall_rev; exact Hv).
  destruct (rev v) as [|last rinit]; [discriminate|].
  inversion Hr as [|? ? Hl Hri]; subst.
  apply pop_body_Forall; [apply Forall_rev; exact Hri | exact Hl].
Qed.

Lemma heap_peek_sh v : heap_peek (map S' v) = option_map S' (heap_peek v).
Proof. destruct v; reflexivity. Qed.

End Heap.
