(* Second tie for the TCP flag byte: the definitions of Gen/ControlGen.v, regenerated from tcp_parsing.rs
   (struct Control(u8)) by tools/translate_control.py on every run, equal ctl_new / ctl_bit / ctl_set_bit / ctl_*
   of the hand model Model/TcpHdr.v for every flag byte 0..255, every bit index 0..7 and every bool.
   The domains are genuinely finite and small: sweeps by vm_compute, lifted with forallb_forall (zrange_forallb). *)
From Elvis Require Import Model.Base Model.Bytes Model.Checksum Model.TcpHdr Model.RsSem Gen.ControlGen
  Proofs.BytesFacts.
Local Open Scope Z_scope.

Definition rb_eqb (x y : result bool) : bool :=
  match x, y with
  | Ok a, Ok b => Bool.eqb a b
  | Panic a, Panic b => a =? b
  | _, _ => false
  end.
Lemma rb_eqb_eq x y : rb_eqb x y = true -> x = y.
Proof.
  destruct x as [a| | |], y as [b| | |]; cbn [rb_eqb]; intros H; try discriminate.
  - apply Bool.eqb_prop in H. congruence.
  - apply Z.eqb_eq in H. congruence.
Qed.
Definition rz_eqb (x y : result Z) : bool :=
  match x, y with
  | Ok a, Ok b => a =? b
  | Panic a, Panic b => a =? b
  | _, _ => false
  end.
Lemma rz_eqb_eq x y : rz_eqb x y = true -> x = y.
Proof.
  destruct x as [a| | |], y as [b| | |]; cbn [rz_eqb]; intros H; try discriminate; apply Z.eqb_eq in H; congruence.
Qed.

Lemma sweep2 (f : Z -> Z -> bool) n m :
  forallb (fun x => forallb (f x) (zrange m)) (zrange n) = true ->
  forall x y, 0 <= x < Z.of_nat n -> 0 <= y < Z.of_nat m -> f x y = true.
Proof.
  intros H x y Hx Hy.
  apply (zrange_forallb m (f x)); [|exact Hy].
  apply (zrange_forallb n (fun x => forallb (f x) (zrange m))); [exact H|exact Hx].
Qed.

(* l.282-291 *)
Lemma gen_ctl_new urg ack psh rst syn fin :
  g_Control_new urg ack psh rst syn fin = ctl_new urg ack psh rst syn fin.
Proof. destruct urg, ack, psh, rst, syn, fin; reflexivity. Qed.

(* l.354-356: `>>` by a u8 amount panics from 8 on; the callers pass 0..5 *)
Lemma gen_ctl_bit c bit : 0 <= c < 256 -> 0 <= bit < 8 -> g_Control_bit c bit = Ok (ctl_bit c bit).
Proof.
  intros Hc Hb. apply rb_eqb_eq.
  apply (sweep2 (fun c bit => rb_eqb (g_Control_bit c bit) (Ok (ctl_bit c bit))) 256 8);
    [vm_compute; reflexivity|exact Hc|exact Hb].
Qed.
Lemma gen_ctl_bit_panics c bit : 0 <= c < 256 -> 8 <= bit < 256 -> g_Control_bit c bit = Panic 201.
Proof.
  intros Hc Hb. unfold g_Control_bit, ck_shr.
  destruct (bit <? 0) eqn:E1; [apply Z.ltb_lt in E1; exfalso; apply (Z.lt_irrefl 0); apply Z.le_lt_trans with bit; [apply Z.le_trans with 8; [discriminate|apply Hb]|exact E1]|].
  destruct (8 <=? bit) eqn:E2; [reflexivity|]. apply Z.leb_gt in E2. exfalso. apply (Z.lt_irrefl bit).
  apply Z.lt_le_trans with 8; [exact E2|apply Hb].
Qed.

(* l.359-361 *)
Lemma gen_ctl_set_bit c bit state : 0 <= c < 256 -> 0 <= bit < 8 ->
  g_Control_set_bit c bit state = Ok (ctl_set_bit c bit state).
Proof.
  intros Hc Hb. apply rz_eqb_eq. destruct state.
  - apply (sweep2 (fun c bit => rz_eqb (g_Control_set_bit c bit true) (Ok (ctl_set_bit c bit true))) 256 8);
      [vm_compute; reflexivity|exact Hc|exact Hb].
  - apply (sweep2 (fun c bit => rz_eqb (g_Control_set_bit c bit false) (Ok (ctl_set_bit c bit false))) 256 8);
      [vm_compute; reflexivity|exact Hc|exact Hb].
Qed.
Lemma ctl_set_bit_range c bit state : 0 <= c < 256 -> 0 <= bit < 8 -> 0 <= ctl_set_bit c bit state < 256.
Proof.
  intros Hc Hb.
  assert (H : (0 <=? ctl_set_bit c bit state) && (ctl_set_bit c bit state <? 256) = true).
  { destruct state.
    - apply (sweep2 (fun c bit => (0 <=? ctl_set_bit c bit true) && (ctl_set_bit c bit true <? 256)) 256 8);
        [vm_compute; reflexivity|exact Hc|exact Hb].
    - apply (sweep2 (fun c bit => (0 <=? ctl_set_bit c bit false) && (ctl_set_bit c bit false <? 256)) 256 8);
        [vm_compute; reflexivity|exact Hc|exact Hb]. }
  apply andb_prop in H. destruct H as [H1 H2]. apply Z.leb_le in H1. apply Z.ltb_lt in H2. split; assumption.
Qed.

(* the six getters (l.294-351) and setters *)
Lemma gen_ctl_getters c : 0 <= c < 256 ->
  g_Control_urg c = Ok (ctl_urg c) /\ g_Control_ack c = Ok (ctl_ack c) /\ g_Control_psh c = Ok (ctl_psh c) /\
  g_Control_rst c = Ok (ctl_rst c) /\ g_Control_syn c = Ok (ctl_syn c) /\ g_Control_fin c = Ok (ctl_fin c).
Proof.
  intros Hc.
  unfold g_Control_urg, g_Control_ack, g_Control_psh, g_Control_rst, g_Control_syn, g_Control_fin,
    ctl_urg, ctl_ack, ctl_psh, ctl_rst, ctl_syn, ctl_fin.
  repeat split; (rewrite gen_ctl_bit; [reflexivity|exact Hc|split; [discriminate|reflexivity]]).
Qed.
Lemma gen_ctl_setters c state : 0 <= c < 256 ->
  g_Control_set_urg c state = Ok (ctl_set_bit c 5 state) /\ g_Control_set_ack c state = Ok (ctl_set_bit c 4 state) /\
  g_Control_set_psh c state = Ok (ctl_set_bit c 3 state) /\ g_Control_set_rst c state = Ok (ctl_set_bit c 2 state) /\
  g_Control_set_syn c state = Ok (ctl_set_bit c 1 state) /\ g_Control_set_fin c state = Ok (ctl_set_bit c 0 state).
Proof.
  intros Hc.
  unfold g_Control_set_urg, g_Control_set_ack, g_Control_set_psh, g_Control_set_rst, g_Control_set_syn, g_Control_set_fin.
  repeat split; (rewrite gen_ctl_set_bit; [reflexivity|exact Hc|split; [discriminate|reflexivity]]).
Qed.

(* l.364-374: the conversions are the identity on the byte; #[derive(Default)] is 0 *)
Lemma gen_ctl_from n : g_Control_from_u8 n = n /\ g_u8_from_Control n = n.
Proof. split; reflexivity. Qed.

(* new builds a byte below 64 whose getters return the arguments *)
Lemma gen_ctl_new_roundtrip urg ack psh rst syn fin :
  let c := g_Control_new urg ack psh rst syn fin in
  0 <= c < 64 /\ g_Control_urg c = Ok urg /\ g_Control_ack c = Ok ack /\ g_Control_psh c = Ok psh /\
  g_Control_rst c = Ok rst /\ g_Control_syn c = Ok syn /\ g_Control_fin c = Ok fin.
Proof. destruct urg, ack, psh, rst, syn, fin; vm_compute; repeat split; intros; discriminate. Qed.
