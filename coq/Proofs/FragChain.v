(* Re-fragmentation: partitions of the pieces of a partition form a partition
   of the original; the model's successive fragmentation (chain). *)
From Elvis Require Import Model.Base Model.Frag Proofs.FragFacts.
From Coq Require Import ZifyBool.
Local Open Scope Z_scope.
Ltac Zify.zify_post_hook ::= Z.div_mod_to_equations.

Section Chain.
Context {A : Type}.

(* ------------------------------------------------------------ re-basing pieces *)

(* pieces of a non-final piece (h,_) of o are non-final pieces of o *)
Lemma rebase_nonlast : forall (ps : list (frag A)) o h mtu acc acc',
  ihl h = ihl o -> oth h = oth o -> flags h = set_mf (flags o) ->
  8 * fragment_offset h = 8 * fragment_offset o + acc ->
  pieces_ok h mtu acc' false ps = true -> sumlen ps mod 8 = 0 ->
  pieces_ok o mtu (acc + acc') true ps = true.
Proof.
  induction ps as [|f rest IH]; intros o h mtu acc acc' Hi Ho Hf Hfo Hp Hs; [reflexivity|].
  cbn [pieces_ok] in *. apply andb_prop in Hp. destruct Hp as [Hp1 Hp2].
  apply piece_ok_iff in Hp1. destruct Hp1 as (Q1 & Q2 & Q3 & Q4 & Q5 & Q6).
  cbn [sumlen] in Hs. pose proof (plen_nonneg f) as Hf0. pose proof (sumlen_nonneg rest) as Hr0.
  rewrite andb_false_r. apply andb_true_intro. split.
  - apply piece_ok_iff. unfold PieceOK. repeat split; try lia; try congruence.
    + destruct rest as [|g rest'].
      * cbn [is_nil andb negb] in Q6. congruence.
      * cbn [is_nil andb negb] in Q6. destruct Q6 as [Q6 _]. rewrite Q6, Hf. apply set_mf_idem.
    + destruct rest as [|g rest'].
      * cbn [sumlen] in Hs. rewrite Z.add_0_r in Hs. exact Hs.
      * cbn [is_nil andb negb] in Q6. apply Q6.
  - replace (acc + acc' + plen f) with (acc + (acc' + plen f)) by lia.
    apply (IH o h); try assumption.
    destruct rest as [|g rest']; [reflexivity|].
    cbn [is_nil andb negb] in Q6. destruct Q6 as [_ Q6]. lia.
Qed.

(* pieces of the final piece (h,_) of o: same flags, plain shift *)
Lemma rebase_last (ps : list (frag A)) o h mtu acc acc' more :
  ihl h = ihl o -> oth h = oth o -> flags h = flags o ->
  8 * fragment_offset h = 8 * fragment_offset o + acc ->
  pieces_ok h mtu acc' more ps = pieces_ok o mtu (acc + acc') more ps.
Proof. intros Hi Ho Hf Hfo. apply pieces_ok_shift; try assumption. lia. Qed.

Lemma is_nil_app {B} (a b : list B) : is_nil (a ++ b) = is_nil a && is_nil b.
Proof. destruct a; reflexivity. Qed.

Lemma pieces_ok_app : forall (l1 l2 : list (frag A)) o mtu acc more,
  pieces_ok o mtu acc more (l1 ++ l2) =
  pieces_ok o mtu acc (more || negb (is_nil l2)) l1 && pieces_ok o mtu (acc + sumlen l1) more l2.
Proof.
  induction l1 as [|f l1 IH]; intros l2 o mtu acc more.
  - cbn [app pieces_ok sumlen andb]. rewrite Z.add_0_r. reflexivity.
  - cbn [app pieces_ok sumlen]. rewrite IH, is_nil_app.
    replace (acc + (plen f + sumlen l1)) with (acc + plen f + sumlen l1) by lia.
    replace (is_nil l1 && is_nil l2 && negb more) with (is_nil l1 && negb (more || negb (is_nil l2)))
      by (destruct (is_nil l1), (is_nil l2), more; reflexivity).
    rewrite andb_assoc. reflexivity.
Qed.

(* what we need to know of the pieces ps of one piece f *)
Definition Sub (mtu : Z) (f : frag A) (ps : list (frag A)) : Prop :=
  ps <> [] /\ concat (map snd ps) = snd f /\ pieces_ok (fst f) mtu 0 false ps = true /\
  nondeg_ok ps = true.

Lemma Sub_of_Partition mtu (f : frag A) ps : Partition (fst f) (snd f) mtu ps <-> Sub mtu f ps.
Proof. apply Partition_alt. Qed.

Lemma Sub_sumlen mtu f ps : Sub mtu f ps -> sumlen ps = plen f.
Proof. intros (_ & Hc & _ & _). rewrite <- len_payloads, Hc. reflexivity. Qed.

Lemma concat_nonnil (pss : list (list (frag A))) ps :
  ps <> [] -> is_nil (concat (ps :: pss)) = false.
Proof. intros H. cbn [concat]. destruct ps; [congruence | reflexivity]. Qed.

Lemma refrag_pieces_ok : forall (frs : list (frag A)) pss mtu',
  Forall2 (Sub mtu') frs pss ->
  forall o mtu acc more, pieces_ok o mtu acc more frs = true ->
  pieces_ok o mtu' acc more (concat pss) = true.
Proof.
  intros frs pss mtu' HF.
  induction HF as [|f ps frs pss Hsub HF IH]; intros o mtu acc more Hp; [reflexivity|].
  cbn [concat]. rewrite pieces_ok_app. cbn [pieces_ok] in Hp.
  apply andb_prop in Hp. destruct Hp as [Hp1 Hp2].
  pose proof (Sub_sumlen _ _ _ Hsub) as Hs.
  apply andb_true_intro. split.
  - apply piece_ok_iff in Hp1. destruct Hp1 as (Q1 & Q2 & Q3 & Q4 & Q5 & Q6).
    destruct Hsub as (Hne & Hc & Hpo & Hnd).
    assert (Hflag : more || negb (is_nil (concat pss)) = negb (is_nil frs && negb more)).
    { inversion HF as [|f' ps' frs' pss' Hsub' HF']; subst.
      - cbn. destruct more; reflexivity.
      - rewrite concat_nonnil by apply Hsub'. cbn. destruct more; reflexivity. }
    rewrite Hflag. destruct (is_nil frs && negb more); cbn [negb].
    + replace acc with (acc + 0) by lia.
      rewrite <- (rebase_last ps o (fst f) mtu' acc 0 false); assumption.
    + replace acc with (acc + 0) by lia. destruct Q6 as [Q6 Q7].
      apply (rebase_nonlast ps o (fst f)); try assumption. rewrite Hs. exact Q7.
  - rewrite Hs. apply (IH o mtu). exact Hp2.
Qed.

Lemma refrag_payload : forall (frs : list (frag A)) pss mtu',
  Forall2 (Sub mtu') frs pss ->
  concat (map snd (concat pss)) = concat (map snd frs).
Proof.
  intros frs pss mtu' HF. induction HF as [|f ps frs pss Hsub HF IH]; [reflexivity|].
  destruct Hsub as (_ & Hc & _ & _).
  change (concat (ps :: pss)) with (ps ++ concat pss).
  change (map snd (f :: frs)) with (snd f :: map snd frs).
  change (concat (snd f :: map snd frs)) with (snd f ++ concat (map snd frs)).
  rewrite map_app, concat_app. f_equal; [exact Hc | exact IH].
Qed.

Lemma refrag_nonnil : forall (frs : list (frag A)) pss mtu',
  Forall2 (Sub mtu') frs pss -> frs <> [] -> concat pss <> [].
Proof.
  intros frs pss mtu' HF Hne. destruct HF as [|f ps frs pss Hsub HF]; [congruence|].
  destruct Hsub as (Hps & _). cbn [concat]. destruct ps; [congruence | discriminate].
Qed.

Lemma refrag_all_nonempty : forall (frs : list (frag A)) pss mtu',
  Forall2 (Sub mtu') frs pss -> Forall (fun f : frag A => snd f <> []) frs ->
  Forall (fun f : frag A => snd f <> []) (concat pss).
Proof.
  intros frs pss mtu' HF. induction HF as [|f ps frs pss Hsub HF IH]; intros Hall; [constructor|].
  inversion Hall as [|f' frs' Hf Hrest]; subst.
  cbn [concat]. apply Forall_app. split; [|apply IH, Hrest].
  destruct Hsub as (Hps & Hc & _ & Hnd). apply nondeg_ok_iff in Hnd. destruct Hnd as [H1 | Hall'].
  - destruct ps as [|g [|g' t]]; try discriminate. constructor; [|constructor].
    cbn [map concat] in Hc. rewrite app_nil_r in Hc. congruence.
  - exact Hall'.
Qed.

Lemma refrag_nondeg : forall (frs : list (frag A)) pss mtu',
  Forall2 (Sub mtu') frs pss -> nondeg_ok frs = true -> nondeg_ok (concat pss) = true.
Proof.
  intros frs pss mtu' HF Hnd. apply nondeg_ok_iff in Hnd. destruct Hnd as [H1 | Hall].
  - destruct HF as [|f ps frs pss Hsub HF]; [discriminate|].
    destruct frs; [|discriminate]. inversion HF; subst.
    cbn [concat]. rewrite app_nil_r. apply Hsub.
  - apply nondeg_ok_iff. right. apply (refrag_all_nonempty frs pss mtu'); assumption.
Qed.

(* the abstract re-fragmentation theorem *)
Theorem refragment_partition o (body : list A) m m' frs pss :
  Partition o body m frs ->
  Forall2 (fun f ps => Partition (fst f) (snd f) m' ps) frs pss ->
  Partition o body m' (concat pss).
Proof.
  intros HP HF.
  assert (HF' : Forall2 (Sub m') frs pss).
  { clear HP. induction HF as [|f ps frs pss H HF IH]; constructor; [apply Sub_of_Partition, H | exact IH]. }
  apply Partition_alt in HP. destruct HP as (Hne & Hc & Hpo & Hnd).
  apply Partition_alt. repeat split.
  - apply (refrag_nonnil frs pss m'); assumption.
  - rewrite (refrag_payload frs pss m') by assumption. exact Hc.
  - apply (refrag_pieces_ok frs pss m' HF' o m). exact Hpo.
  - apply (refrag_nondeg frs pss m'); assumption.
Qed.

(* partitions are monotone in the MTU *)
Lemma Partition_weaken o (body : list A) m m' frs :
  m <= m' -> Partition o body m frs -> Partition o body m' frs.
Proof.
  intros Hle [H1 H2 H3 H4]. constructor; try assumption.
  intros i f Hn. specialize (H3 i f Hn). unfold PieceOK in *.
  destruct H3 as (Q1 & Q). split; [lia | exact Q].
Qed.

(* ------------------------------------------------------------ the pieces of a partition are themselves valid inputs *)

Lemma Partition_elem o (body : list A) mtu frs f :
  Partition o body mtu frs -> Valid o body -> In f frs ->
  Valid (fst f) (snd f) /\ ihl (fst f) = ihl o /\
  may_fragment (flags (fst f)) = may_fragment (flags o) /\
  total_length (fst f) <= mtu /\
  8 * fragment_offset (fst f) + plen f <= 8 * fragment_offset o + len body.
Proof.
  intros [H1 H2 H3 H4] (V1 & V2 & V3 & V4) Hin.
  apply In_nth_error in Hin. destruct Hin as [i Hn].
  pose proof (sumlen_firstn_le i frs f Hn) as Hle.
  pose proof (sumlen_nonneg (firstn i frs)) as H0.
  assert (Hsum : sumlen frs = len body) by (rewrite <- len_payloads; f_equal; exact H2).
  rewrite Hsum in Hle.
  specialize (H3 i f Hn). destruct H3 as (Q1 & Q2 & Q3 & Q4 & Q5 & Q6).
  pose proof (plen_nonneg f) as Hp0.
  assert (Hpl : plen f = len (snd f)) by reflexivity.
  split; [|split; [exact Q3 | split; [|split; [exact Q1 | lia]]]].
  - unfold Valid. rewrite <- Hpl. unfold U16MAX in *. repeat split; lia.
  - destruct (Nat.eqb (S i) (length frs)).
    + rewrite Q6. reflexivity.
    + destruct Q6 as [Q6 _]. rewrite Q6. apply may_fragment_set_mf.
Qed.

(* ------------------------------------------------------------ the model's successive fragmentation *)

Lemma refrag_all_ok : forall (frs : list (frag A)) m',
  Forall (fun f => Valid (fst f) (snd f) /\ MtuOk (fst f) m' /\ may_fragment (flags (fst f)) = true) frs ->
  exists rs pss, refrag_all m' frs = Ok rs /\ flatten rs = Some (concat pss) /\
                 Forall2 (fun f ps => Partition (fst f) (snd f) m' ps) frs pss.
Proof.
  induction frs as [|[h p] frs IH]; intros m' Hall.
  - exists [], []. repeat split; constructor.
  - inversion Hall as [|f' frs' (Hv & Hm & Hdf) Hrest]; subst. cbn [fst snd] in *.
    destruct (fragment_pieces h p m' Hv Hm Hdf) as (r & ps & Hfr & Hps & Hpart).
    destruct (IH m' Hrest) as (rs & pss & Hrs & Hfl & HF2).
    exists (r :: rs), (ps :: pss). cbn [refrag_all]. rewrite Hfr. cbn [bind]. rewrite Hrs. cbn [bind].
    split; [reflexivity|]. split.
    + cbn [flatten concat]. rewrite Hps, Hfl. reflexivity.
    + constructor; assumption.
Qed.

Theorem refrag_step o (body : list A) m m' frs :
  Partition o body m frs -> Valid o body -> MtuOk o m' -> may_fragment (flags o) = true ->
  exists rs frs', refrag_all m' frs = Ok rs /\ flatten rs = Some frs' /\ Partition o body m' frs'.
Proof.
  intros HP Hv Hm Hdf.
  destruct (refrag_all_ok frs m') as (rs & pss & Hrs & Hfl & HF2).
  { apply Forall_forall. intros f Hin.
    destruct (Partition_elem o body m frs f HP Hv Hin) as (Hvf & Hi & Hmf & _).
    split; [exact Hvf|]. split; [unfold MtuOk in *; rewrite Hi; exact Hm | congruence]. }
  exists rs, (concat pss). split; [exact Hrs|]. split; [exact Hfl|].
  apply (refragment_partition o body m m' frs pss); assumption.
Qed.

Theorem chain_ok : forall mtus o (body : list A) m0 m frs,
  Partition o body m0 frs -> Valid o body -> may_fragment (flags o) = true ->
  Forall (MtuOk o) (mtus ++ [m]) ->
  exists frs', chain (mtus ++ [m]) frs = Ok (Some frs') /\ Partition o body m frs'.
Proof.
  induction mtus as [|m1 ms IH]; intros o body m0 m frs HP Hv Hdf Hall.
  - inversion Hall as [|x l Hm _]; subst.
    destruct (refrag_step o body m0 m frs HP Hv Hm Hdf) as (rs & frs' & Hrs & Hfl & HP').
    exists frs'. cbn [app chain]. rewrite Hrs. cbn [bind]. rewrite Hfl. split; [reflexivity | exact HP'].
  - cbn [app] in Hall. inversion Hall as [|x l Hm Hrest]; subst.
    destruct (refrag_step o body m0 m1 frs HP Hv Hm Hdf) as (rs & frs1 & Hrs & Hfl & HP1).
    destruct (IH o body m1 m frs1 HP1 Hv Hdf Hrest) as (frs' & Hch & HP').
    exists frs'. cbn [app chain]. rewrite Hrs. cbn [bind]. rewrite Hfl. split; assumption.
Qed.

Theorem chain_from_datagram mtus o (body : list A) m :
  Valid o body -> may_fragment (flags o) = true -> Forall (MtuOk o) (mtus ++ [m]) ->
  exists frs, chain (mtus ++ [m]) [(o, body)] = Ok (Some frs) /\ Partition o body m frs.
Proof.
  intros Hv Hdf Hall.
  apply (chain_ok mtus o body (total_length o) m); try assumption.
  apply Partition_single; [lia | apply Hv].
Qed.

(* DF set: the datagram travels unchanged while it fits and is discarded at the first MTU it exceeds *)
Theorem chain_df : forall mtus o (body : list A),
  may_fragment (flags o) = false ->
  chain mtus [(o, body)] =
  Ok (if forallb (fun m => total_length o <=? m) mtus then Some [(o, body)] else None).
Proof.
  induction mtus as [|m ms IH]; intros o body Hdf; [reflexivity|].
  cbn [chain refrag_all forallb]. destruct (total_length o <=? m) eqn:E.
  - rewrite fragment_fits by lia. cbn [bind flatten pieces app andb]. apply IH, Hdf.
  - rewrite fragment_discard by (try assumption; lia). reflexivity.
Qed.

(* fragments of a datagram that fits IPv4's 16-bit total length have 13-bit offsets *)
Lemma Partition_offsets_13bit o (body : list A) mtu frs f :
  Partition o body mtu frs -> Valid o body -> 8 * fragment_offset o + len body <= U16MAX ->
  In f frs -> 0 <= fragment_offset (fst f) <= 8191.
Proof.
  intros HP Hv Hfit Hin.
  destruct (Partition_elem o body mtu frs f HP Hv Hin) as ((_ & _ & H0 & _) & _ & _ & _ & Hle).
  pose proof (plen_nonneg f). unfold U16MAX in *. lia.
Qed.

(* ------------------------------------------------------------ the validator's predicate for one call *)

Definition OutcomeOK (h : hdr) (body : list A) (mtu : Z) (r : fragments A) : Prop :=
  match r with
  | DontFragment f => total_length h <= mtu /\ f = (h, body)
  | Discard => mtu < total_length h /\ may_fragment (flags h) = false
  | Fragmented frs => mtu < total_length h /\ may_fragment (flags h) = true /\ Partition h body mtu frs
  end.

Lemma outcome_ok_iff (eqb : A -> A -> bool) :
  (forall x y, eqb x y = true <-> x = y) ->
  forall h body mtu r, outcome_ok eqb h body mtu r = true <-> OutcomeOK h body mtu r.
Proof.
  intros He h body mtu r. destruct r as [frs | [h' b'] | ]; unfold outcome_ok, OutcomeOK.
  - rewrite !andb_true_iff, (partition_ok_iff eqb He). intuition lia.
  - rewrite !andb_true_iff, hdr_eqb_spec, (list_eqb_spec eqb He). split.
    + intros [[H1 H2] H3]. subst. split; [lia | reflexivity].
    + intros [H1 H2]. injection H2 as -> ->. repeat split; try reflexivity; lia.
  - rewrite andb_true_iff, negb_true_iff. intuition lia.
Qed.

(* total correctness of one call on the whole proved domain, DF set or clear *)
Theorem fragment_outcome h (body : list A) mtu :
  Valid h body -> MtuOk h mtu ->
  exists r, fragment h body mtu = Ok r /\ OutcomeOK h body mtu r.
Proof.
  intros Hv Hm. destruct (Z_le_gt_dec (total_length h) mtu) as [Hfit | Hbig].
  - exists (DontFragment (h, body)). split; [apply fragment_fits, Hfit|]. split; [exact Hfit | reflexivity].
  - destruct (may_fragment (flags h)) eqn:Hdf.
    + destruct (fragment_fragments h body mtu Hv Hm Hdf) as (frs & Hf & Hp & _); [lia|].
      exists (Fragmented frs). split; [exact Hf|]. split; [lia | split; [exact Hdf | exact Hp]].
    + exists Discard. split; [apply fragment_discard; [lia | exact Hdf]|]. split; [lia | exact Hdf].
Qed.

End Chain.
