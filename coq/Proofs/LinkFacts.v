(* C05 - lemmas about Model/Link.v: allocator, MTU test, routing, timing function. *)
From Coq Require Import ZifyBool.
From Elvis Require Import Model.Base Model.Link.
Local Open Scope Z_scope.
Ltac Zify.zify_post_hook ::= Z.div_mod_to_equations.

(* ------------------------------------------------------------------ lists *)

Lemma filter_all {A} (p : A -> bool) (l : list A) :
  (forall x, In x l -> p x = true) -> filter p l = l.
Proof.
  induction l as [|a l IH]; intros H; [reflexivity|].
  cbn [filter]. rewrite (H a (or_introl eq_refl)). f_equal. apply IH.
  intros x Hx. apply H. right. exact Hx.
Qed.

Lemma NoDup_map_inj {A B} (f : A -> B) (l : list A) (a b : A) :
  NoDup (map f l) -> In a l -> In b l -> f a = f b -> a = b.
Proof.
  induction l as [|x l IH]; intros Hnd Ha Hb Hf; [destruct Ha|].
  cbn [map] in Hnd. inversion Hnd as [|y ys Hnin Hnd']; subst.
  destruct Ha as [Ha|Ha], Hb as [Hb|Hb]; subst.
  - reflexivity.
  - exfalso. apply Hnin. rewrite Hf. apply in_map. exact Hb.
  - exfalso. apply Hnin. rewrite <- Hf. apply in_map. exact Ha.
  - apply IH; assumption.
Qed.

Lemma NoDup_snoc {A} (l : list A) (x : A) : NoDup l -> ~ In x l -> NoDup (l ++ [x]).
Proof.
  induction l as [|a l IH]; intros Hnd Hx; cbn [app].
  - constructor; [intros []|constructor].
  - inversion Hnd as [|y ys Hnin Hnd']; subst. constructor.
    + intros Hin. apply in_app_or in Hin. destruct Hin as [Hin|[Hin|[]]].
      * exact (Hnin Hin).
      * apply Hx. left. symmetry. exact Hin.
    + apply IH; [exact Hnd'|]. intros Hin. apply Hx. right. exact Hin.
Qed.

Lemma Forall2_nth {A B} (R : A -> B -> Prop) (l1 : list A) (l2 : list B) :
  Forall2 R l1 l2 -> forall i a b, nth_error l1 i = Some a -> nth_error l2 i = Some b -> R a b.
Proof.
  induction 1 as [|x y l1 l2 Hxy H IH]; intros i a b Ha Hb.
  - destruct i; discriminate.
  - destruct i as [|i]; cbn [nth_error] in Ha, Hb.
    + injection Ha as <-. injection Hb as <-. exact Hxy.
    + exact (IH i a b Ha Hb).
Qed.

Lemma Forall2_imp {A B} (R1 R2 : A -> B -> Prop) (l1 : list A) (l2 : list B) :
  (forall a b, R1 a b -> R2 a b) -> Forall2 R1 l1 l2 -> Forall2 R2 l1 l2.
Proof. intros H. induction 1; constructor; auto. Qed.

Lemma nth_error_set_nth_eq {A} (l : list A) (i : nat) (x y : A) :
  nth_error l i = Some y -> nth_error (set_nth i x l) i = Some x.
Proof.
  revert i. induction l as [|a l IH]; intros i H; destruct i; cbn in *; try discriminate.
  - reflexivity.
  - apply IH. exact H.
Qed.

Lemma nth_error_set_nth_neq {A} (l : list A) (i j : nat) (x : A) :
  i <> j -> nth_error (set_nth i x l) j = nth_error l j.
Proof.
  revert i j. induction l as [|a l IH]; intros i j H; destruct i, j; cbn; try reflexivity.
  - congruence.
  - apply IH. congruence.
Qed.

Lemma Forall_set_nth {A} (P : A -> Prop) (l : list A) (i : nat) (x : A) :
  Forall P l -> P x -> Forall P (set_nth i x l).
Proof.
  revert i. induction l as [|a l IH]; intros i Hl Hx; destruct i; cbn [set_nth].
  - constructor.
  - constructor.
  - inversion Hl; subst. constructor; assumption.
  - inversion Hl; subst. constructor; [assumption|]. apply IH; assumption.
Qed.

(* ------------------------------------------------------------------ allocator *)

(* every registered tap has its own address, below the allocator's counter, and no
   registration was ever overwritten (as many taps as addresses handed out) *)
Definition net_inv (n : net) : Prop :=
  NoDup (map t_mac (n_taps n)) /\
  (forall T, In T (n_taps n) -> 0 <= t_mac T < n_next_mac n) /\
  Z.of_nat (length (n_taps n)) = n_next_mac n.

Lemma net_inv_new mtu lb lr tb tr : net_inv (new_net mtu lb lr tb tr).
Proof.
  unfold net_inv, new_net. cbn. split; [constructor|]. split; [intros T []|reflexivity].
Qed.

Lemma attach_spec n m s T n' :
  net_inv n -> attach n m s = Ok (T, n') ->
  net_inv n' /\
  T = mkTap (n_next_mac n) m s /\
  n_taps n' = T :: n_taps n /\
  n_next_mac n' = n_next_mac n + 1 /\
  n_mtu n' = n_mtu n /\ n_lat_base n' = n_lat_base n /\ n_lat_rand n' = n_lat_rand n /\
  n_thr_base n' = n_thr_base n /\ n_thr_rand n' = n_thr_rand n.
Proof.
  intros (Hnd & Hlt & Hlen) H. unfold attach in H.
  destruct (U64_MAX <=? n_next_mac n); [discriminate|].
  injection H as <- <-.
  assert (Hreg : register_tap (mkTap (n_next_mac n) m s) (n_taps n)
                 = mkTap (n_next_mac n) m s :: n_taps n).
  { unfold register_tap. f_equal. apply filter_all. intros x Hx. cbn [t_mac].
    specialize (Hlt x Hx). lia. }
  cbn [n_taps n_next_mac n_mtu n_lat_base n_lat_rand n_thr_base n_thr_rand].
  rewrite Hreg.
  split; [|repeat split; reflexivity].
  unfold net_inv. cbn [n_taps n_next_mac].
  split; [|split].
  - cbn [map t_mac]. constructor; [|exact Hnd].
    intros Hin. apply in_map_iff in Hin. destruct Hin as (x & Hx & Hin).
    specialize (Hlt x Hin). lia.
  - intros T [<-|H]; cbn [t_mac]; [|specialize (Hlt T H)]; lia.
  - cbn [length]. lia.
Qed.

Lemma attach_never_errs n m s e : attach n m s <> Err e.
Proof. unfold attach. destruct (U64_MAX <=? n_next_mac n); discriminate. Qed.

Lemma attach_ok n m s : n_next_mac n < U64_MAX -> exists T n', attach n m s = Ok (T, n').
Proof.
  intros H. unfold attach. destruct (U64_MAX <=? n_next_mac n) eqn:E; [lia|]. eauto.
Qed.

(* the whole configuration *)
Definition tap_key (it : nat * tap) : nat * Z := (fst it, t_mac (snd it)).

Definition winv (w : list net) (acc : list (nat * tap)) : Prop :=
  Forall net_inv w /\
  NoDup (map tap_key acc) /\
  (forall it, In it acc -> exists n, nth_error w (fst it) = Some n /\ In (snd it) (n_taps n)).

Lemma winv_step w acc i n m s T n' :
  winv w acc -> nth_error w i = Some n -> attach n m s = Ok (T, n') ->
  winv (set_nth i n' w) (acc ++ [(i, T)]).
Proof.
  intros (Hall & Hnd & Hmem) Hn Hat.
  assert (Hinv : net_inv n). { rewrite Forall_forall in Hall. apply Hall. eapply nth_error_In; eauto. }
  destruct (attach_spec n m s T n' Hinv Hat) as (Hinv' & HT & Htaps & Hnext & _).
  split; [|split].
  - apply Forall_set_nth; assumption.
  - rewrite map_app. cbn [map]. apply NoDup_snoc; [exact Hnd|].
    intros Hin. apply in_map_iff in Hin. destruct Hin as (it & Hk & Hin).
    destruct (Hmem it Hin) as (n0 & Hn0 & HIn0).
    unfold tap_key in Hk. cbn [fst snd] in Hk. injection Hk as Hi Hmac.
    rewrite Hi in Hn0. rewrite Hn in Hn0. injection Hn0 as <-.
    destruct Hinv as (_ & Hlt & _). specialize (Hlt _ HIn0).
    rewrite HT in Hmac. cbn [t_mac] in Hmac. lia.
  - intros it Hin. apply in_app_or in Hin. destruct Hin as [Hin|[<-|[]]].
    + destruct (Hmem it Hin) as (n0 & Hn0 & HIn0).
      destruct (Nat.eq_dec i (fst it)) as [E|E].
      * exists n'. split.
        -- rewrite <- E. eapply nth_error_set_nth_eq; eauto.
        -- rewrite <- E in Hn0. rewrite Hn in Hn0. injection Hn0 as <-. rewrite Htaps. right. exact HIn0.
      * exists n0. split; [|exact HIn0]. rewrite nth_error_set_nth_neq; assumption.
    + exists n'. cbn [fst snd]. split; [eapply nth_error_set_nth_eq; eauto|]. rewrite Htaps. left. reflexivity.
Qed.

Lemma run_ops_inv ops : forall w acc w' ts,
  winv w acc -> run_ops w acc ops = Ok (w', ts) -> winv w' ts.
Proof.
  induction ops as [|[[m s] i] ops IH]; intros w acc w' ts Hinv H; cbn [run_ops] in H.
  - injection H as <- <-. exact Hinv.
  - destruct (nth_error w i) as [n|] eqn:Hn; [|discriminate].
    destruct (attach n m s) as [[T n']| | |] eqn:Hat; try discriminate.
    eapply IH; [|exact H]. eapply winv_step; eauto.
Qed.

Lemma winv_init ncs : winv (map net_of_cfg ncs) [].
Proof.
  split; [|split].
  - apply Forall_forall. intros n Hn. apply in_map_iff in Hn. destruct Hn as (c & <- & _).
    apply net_inv_new.
  - constructor.
  - intros it [].
Qed.

Lemma build_inv c w ts : build c = Ok (w, ts) -> winv w ts.
Proof. intros H. eapply run_ops_inv; [apply winv_init|exact H]. Qed.

(* ------------------------------------------------------------------ MTU test *)

Lemma send_pci_refused {A} n src (payload : list A) dst proto wire :
  n_mtu n < Z.of_nat (length payload) ->
  send_pci n src payload dst proto wire = (Err (n_mtu n), wire).
Proof. intros H. unfold send_pci. destruct (n_mtu n <? Z.of_nat (length payload)) eqn:E; [reflexivity|lia]. Qed.

Lemma send_pci_accepted {A} n src (payload : list A) dst proto wire :
  Z.of_nat (length payload) <= n_mtu n ->
  send_pci n src payload dst proto wire = (Ok tt, wire ++ [mkFrame src dst proto payload]).
Proof. intros H. unfold send_pci. destruct (n_mtu n <? Z.of_nat (length payload)) eqn:E; [lia|reflexivity]. Qed.

Lemma mtu_test_is_send_pci {A} n src (payload : list A) dst proto wire :
  mtu_test n (Z.of_nat (length payload)) = fst (send_pci n src payload dst proto wire).
Proof. unfold mtu_test, send_pci. destruct (n_mtu n <? Z.of_nat (length payload)); reflexivity. Qed.

(* ------------------------------------------------------------------ routing *)

Lemma route_unicast n d : net_inv n -> d <> BROADCAST_MAC ->
  forall T, In T (route n (Some d)) <-> (In T (n_taps n) /\ t_mac T = d).
Proof.
  intros (Hnd & _ & _) Hd T. unfold route.
  destruct (d =? BROADCAST_MAC) eqn:E; [lia|].
  destruct (find (fun x => t_mac x =? d) (n_taps n)) as [t|] eqn:F.
  - apply find_some in F. destruct F as (Hin & Hm). apply Z.eqb_eq in Hm. split.
    + intros [<-|[]]. split; assumption.
    + intros (HT & HmT). left. eapply NoDup_map_inj; eauto. congruence.
  - split; [intros []|]. intros (HT & HmT).
    pose proof (find_none _ _ F T HT) as Hx. cbn in Hx. lia.
Qed.

Lemma route_unicast_length n d : d <> BROADCAST_MAC -> (length (route n (Some d)) <= 1)%nat.
Proof.
  intros Hd. unfold route. destruct (d =? BROADCAST_MAC) eqn:E; [lia|].
  destruct (find _ _); cbn; lia.
Qed.

Lemma route_unknown n d : d <> BROADCAST_MAC ->
  (forall T, In T (n_taps n) -> t_mac T <> d) -> route n (Some d) = [].
Proof.
  intros Hd H. unfold route. destruct (d =? BROADCAST_MAC) eqn:E; [lia|].
  destruct (find (fun x => t_mac x =? d) (n_taps n)) as [t|] eqn:F; [|reflexivity].
  apply find_some in F. destruct F as (Hin & Hm). apply Z.eqb_eq in Hm. exfalso. exact (H t Hin Hm).
Qed.

Lemma route_broadcast n dst : dst = None \/ dst = Some BROADCAST_MAC -> route n dst = n_taps n.
Proof. intros [->| ->]; reflexivity. Qed.

Lemma route_incl n dst : incl (route n dst) (n_taps n).
Proof.
  intros T H. unfold route in H. destruct dst as [d|]; [|exact H].
  destruct (d =? BROADCAST_MAC); [exact H|].
  destruct (find (fun x => t_mac x =? d) (n_taps n)) as [t|] eqn:F; [|destruct H].
  destruct H as [<-|[]]. apply find_some in F. apply F.
Qed.

Lemma route_nodup n dst : net_inv n -> NoDup (map t_mac (route n dst)).
Proof.
  intros (Hnd & _ & _). unfold route. destruct dst as [d|]; [|exact Hnd].
  destruct (d =? BROADCAST_MAC); [exact Hnd|].
  destruct (find _ _); cbn; repeat constructor. intros [].
Qed.

Lemma deliver_fields {A} n (f : frame A) r : In r (deliver n f) ->
  exists T, In T (route n (f_dst f)) /\
    rx_machine r = t_machine T /\ rx_slot r = t_slot T /\
    rx_src r = f_src f /\ rx_dst r = f_dst f /\ rx_mtu r = n_mtu n /\ rx_payload r = f_payload f.
Proof.
  intros H. unfold deliver in H. apply in_map_iff in H. destruct H as (T & <- & HT).
  exists T. cbn. repeat split; try reflexivity. exact HT.
Qed.

Lemma deliver_length {A} n (f : frame A) : length (deliver n f) = length (route n (f_dst f)).
Proof. unfold deliver. apply map_length. Qed.

(* ------------------------------------------------------------------ settings *)

Lemma lat_next_ge n u : 0 <= n_lat_rand n -> n_lat_base n <= lat_next n u <= n_lat_base n + n_lat_rand n.
Proof.
  intros H. unfold lat_next. destruct (n_lat_rand n =? 0) eqn:E; [lia|].
  assert (0 <= u mod (n_lat_rand n + 1) < n_lat_rand n + 1) by (apply Z.mod_pos_bound; lia). lia.
Qed.

Lemma thr_next_range n u r : 0 <= n_thr_rand n -> thr_next n u = Ok r ->
  n_thr_base n <= r <= thr_max n.
Proof.
  intros H. unfold thr_next, thr_max. destruct (n_thr_rand n =? 0) eqn:E.
  - intros [= <-]. lia.
  - destruct (U64_MAX <? n_thr_base n + n_thr_rand n); [discriminate|]. intros [= <-].
    assert (0 <= u mod n_thr_rand n < n_thr_rand n) by (apply Z.mod_pos_bound; lia). lia.
Qed.

(* ------------------------------------------------------------------ timing *)

Lemma wake_ge g t d : 0 < g -> t + d <= wake g t d.
Proof. intros Hg. unfold wake. lia. Qed.

Lemma wake_aligned g t d : 0 < g -> (t + d) mod g = 0 -> wake g t d = t + d.
Proof.
  intros Hg H. unfold wake.
  apply Z.mod_divide in H; [|lia]. destruct H as (q & Hq). rewrite Hq.
  replace (q * g + g - 1) with (g - 1 + q * g) by ring.
  rewrite Z.div_add by lia. rewrite Z.div_small by lia. ring.
Qed.

Lemma after_lat_ge g t lat : 0 < g -> 0 <= lat -> t + lat <= after_lat g t lat.
Proof.
  intros Hg Hl. unfold after_lat. destruct (lat =? 0) eqn:E; [lia|]. apply wake_ge. exact Hg.
Qed.

Lemma tx_time_ge len thr : 0 < thr -> 0 <= len -> len * NS <= thr * tx_time len thr.
Proof. intros Ht Hl. unfold tx_time. lia. Qed.

Lemma tx_time_nonneg len thr : 0 < thr -> 0 <= len -> 0 <= tx_time len thr.
Proof. intros Ht Hl. unfold tx_time, NS. apply Z.div_pos; lia. Qed.

Lemma tx_time_orig_nonneg len thr : 0 < thr -> 0 <= len -> 0 <= tx_time_orig len thr.
Proof.
  intros Ht Hl. unfold tx_time_orig.
  assert (0 <= len * 1000 / thr) by (apply Z.div_pos; lia). lia.
Qed.

(* a well-formed job *)
Definition job_ok (j : job) : Prop := 0 <= j_len j /\ 0 <= j_thr j /\ 0 <= j_lat j /\ 0 <= j_wait j.

Definition txf_ok (txf : Z -> Z -> Z) : Prop := forall len thr, 0 < thr -> 0 <= len -> 0 <= txf len thr.

Lemma step_spec txf g b j s b' : 0 < g -> txf_ok txf -> job_ok j -> step txf g b j = (s, b') ->
  j_arr j <= k_start s /\ k_start s <= k_end s /\ k_end s + j_lat j <= k_dlv s /\ b <= b' /\
  (j_thr j <> 0 -> b <= k_start s /\ b' = k_end s /\ k_start s + txf (j_len j) (j_thr j) <= k_end s).
Proof.
  intros Hg Htx (Hl & Ht & Hla & Hw) H. unfold step in H.
  destruct (j_thr j =? 0) eqn:E.
  - injection H as <- <-. cbn [k_start k_end k_dlv].
    pose proof (after_lat_ge g (j_arr j) (j_lat j) Hg Hla). repeat split; try lia.
  - injection H as <- <-. cbn [k_start k_end k_dlv].
    assert (H0 : 0 <= txf (j_len j) (j_thr j)) by (apply Htx; lia).
    pose proof (wake_ge g (Z.max (j_arr j) b + j_wait j) (txf (j_len j) (j_thr j)) Hg) as Hwk.
    pose proof (after_lat_ge g (wake g (Z.max (j_arr j) b + j_wait j) (txf (j_len j) (j_thr j))) (j_lat j) Hg Hla).
    repeat split; try lia.
Qed.

(* latency: nothing is delivered earlier than its hand-over plus the latency drawn for it *)
Lemma sched_latency txf g : 0 < g -> txf_ok txf -> forall js b, Forall job_ok js ->
  Forall2 (fun j k => j_arr j + j_lat j <= k_dlv k) js (sched txf g b js).
Proof.
  intros Hg Htx. induction js as [|j js IH]; intros b Hok; cbn [sched]; [constructor|].
  inversion Hok as [|x xs Hj Hjs]; subst.
  destruct (step txf g b j) as [s b'] eqn:S.
  destruct (step_spec txf g b j s b' Hg Htx Hj S) as (H1 & H2 & H3 & _).
  constructor; [lia|]. apply IH. exact Hjs.
Qed.

Lemma sched_length txf g js : forall b, length (sched txf g b js) = length js.
Proof.
  induction js as [|j js IH]; intros b; cbn [sched]; [reflexivity|].
  destruct (step txf g b j) as [s b']. cbn [length]. f_equal. apply IH.
Qed.

(* no throttled frame starts before the medium is free *)
Lemma sched_starts_after txf g : 0 < g -> txf_ok txf -> forall js b, Forall job_ok js ->
  Forall2 (fun j k => j_thr j <> 0 -> b <= k_start k) js (sched txf g b js).
Proof.
  intros Hg Htx. induction js as [|j js IH]; intros b Hok; cbn [sched]; [constructor|].
  inversion Hok as [|x xs Hj Hjs]; subst.
  destruct (step txf g b j) as [s b'] eqn:S.
  destruct (step_spec txf g b j s b' Hg Htx Hj S) as (H1 & H2 & H3 & H4 & H5).
  constructor; [intros Hn; apply H5; exact Hn|].
  specialize (IH b' Hjs). eapply Forall2_imp; [|exact IH].
  cbn. intros a k H Hn. specialize (H Hn). lia.
Qed.

(* transmissions do not overlap: of two throttled frames the later one starts after the
   earlier one has ended *)
Lemma sched_serialised txf g : 0 < g -> txf_ok txf -> forall js b p q jp jq kp kq,
  Forall job_ok js -> (p < q)%nat ->
  nth_error js p = Some jp -> nth_error js q = Some jq ->
  nth_error (sched txf g b js) p = Some kp -> nth_error (sched txf g b js) q = Some kq ->
  j_thr jp <> 0 -> j_thr jq <> 0 ->
  k_start kp <= k_end kp /\ k_end kp <= k_start kq.
Proof.
  intros Hg Htx. induction js as [|j js IH]; intros b p q jp jq kp kq Hok Hpq Hjp Hjq Hkp Hkq Hp Hq.
  - destruct p; discriminate.
  - inversion Hok as [|x xs Hj Hjs]; subst.
    cbn [sched] in Hkp, Hkq. destruct (step txf g b j) as [s b'] eqn:S.
    destruct q as [|q]; [lia|]. cbn [nth_error] in Hjq, Hkq.
    destruct p as [|p]; cbn [nth_error] in Hjp, Hkp.
    + injection Hjp as <-. injection Hkp as <-.
      destruct (step_spec txf g b j s b' Hg Htx Hj S) as (H1 & H2 & H3 & H4 & H5).
      destruct (H5 Hp) as (H6 & H7 & H8). split; [exact H2|].
      pose proof (Forall2_nth _ _ _ (sched_starts_after txf g Hg Htx js b' Hjs) q jq kq Hjq Hkq Hq). lia.
    + eapply IH with (p := p) (q := q); eauto. lia.
Qed.

(* throughput: the frames handed over at or after s and delivered by e fit, at the largest
   rate M any of them was given, into e - max(s, busy) *)
Lemma sched_window g M : 0 < g -> 0 < M -> forall js b s e,
  Forall job_ok js -> Forall (fun j => 0 < j_thr j <= M) js ->
  wbytes s e js (sched tx_time g b js) <= M * Z.max 0 (e - Z.max s b).
Proof.
  intros Hg HM. induction js as [|j js IH]; intros b s e Hok Hthr; cbn [sched wbytes].
  - apply Z.mul_nonneg_nonneg; lia.
  - inversion Hok as [|x xs Hj Hjs]; subst. inversion Hthr as [|x xs Htj Htjs]; subst.
    destruct (step tx_time g b j) as [k b'] eqn:S.
    assert (Htx : txf_ok tx_time) by (intros l t H1 H2; apply tx_time_nonneg; assumption).
    destruct (step_spec tx_time g b j k b' Hg Htx Hj S) as (H1 & H2 & H3 & H4 & H5).
    assert (Hn0 : j_thr j <> 0) by lia.
    destruct (H5 Hn0) as (H6 & H7 & H8).
    cbn [wbytes]. specialize (IH b' s e Hjs Htjs).
    destruct Hj as (Hl & _ & Hla & _).
    pose proof (tx_time_ge (j_len j) (j_thr j) (proj1 Htj) Hl) as Hge.
    assert (Hnn : 0 <= tx_time (j_len j) (j_thr j)) by (apply tx_time_nonneg; lia).
    assert (HgeM : j_len j * NS <= M * tx_time (j_len j) (j_thr j)).
    { apply Z.le_trans with (1 := Hge). apply Z.mul_le_mono_nonneg_r; lia. }
    destruct ((s <=? j_arr j) && (k_dlv k <=? e)) eqn:W.
    + (* in the window: its own transmission lies between max(s,b) and b' *)
      assert (Hs : s <= j_arr j) by lia. assert (He : k_dlv k <= e) by lia.
      assert (E1 : Z.max 0 (e - Z.max s b') = e - b') by lia.
      rewrite E1 in IH.
      assert (E2 : Z.max 0 (e - Z.max s b) = (e - b') + (b' - Z.max s b)) by lia.
      rewrite E2. rewrite Z.mul_add_distr_l.
      assert (Hd : tx_time (j_len j) (j_thr j) <= b' - Z.max s b) by lia.
      assert (M * tx_time (j_len j) (j_thr j) <= M * (b' - Z.max s b)).
      { apply Z.mul_le_mono_nonneg_l; lia. }
      lia.
    + assert (Z.max 0 (e - Z.max s b') <= Z.max 0 (e - Z.max s b)) by lia.
      assert (M * Z.max 0 (e - Z.max s b') <= M * Z.max 0 (e - Z.max s b)).
      { apply Z.mul_le_mono_nonneg_l; lia. }
      lia.
Qed.

Fixpoint total_len (js : list job) : Z :=
  match js with [] => 0 | j :: r => j_len j + total_len r end.

Lemma wbytes_all s e js : forall ks,
  Forall2 (fun j k => s <= j_arr j /\ k_dlv k <= e) js ks -> wbytes s e js ks = total_len js * NS.
Proof.
  induction js as [|j js IH]; intros ks H; inversion H as [|x y xs ys Hxy Hr]; subst; cbn [wbytes total_len].
  - reflexivity.
  - rewrite (IH _ Hr). destruct Hxy as (H1 & H2).
    destruct ((s <=? j_arr j) && (k_dlv y <=? e)) eqn:W; lia.
Qed.

(* the property's form: from the first hand-over to the last delivery at least the time the
   bytes take at the configured rate *)
Lemma sched_total g M : 0 < g -> 0 < M -> forall js b s e,
  Forall job_ok js -> Forall (fun j => 0 < j_thr j <= M) js ->
  Forall2 (fun j k => s <= j_arr j /\ k_dlv k <= e) js (sched tx_time g b js) ->
  total_len js * NS <= M * Z.max 0 (e - s).
Proof.
  intros Hg HM js b s e Hok Hthr Hall.
  rewrite <- (wbytes_all s e js _ Hall).
  apply Z.le_trans with (1 := sched_window g M Hg HM js b s e Hok Hthr).
  apply Z.mul_le_mono_nonneg_l; lia.
Qed.

(* the hypotheses of the positive theorems are satisfiable, and the bound is tight *)
Example sched_example :
  let js := [mkJob 0 1 1001 0 0; mkJob 0 1500 12500000 2000000 0] in
  Forall job_ok js /\ Forall (fun j => 0 < j_thr j <= 12500000) js /\
  sched tx_time 1 0 js = [mkSlot 0 999001 999001; mkSlot 999001 1119001 3119001].
Proof.
  cbv zeta. split; [|split].
  - repeat constructor; cbn; lia.
  - repeat constructor; cbn; lia.
  - vm_compute. reflexivity.
Qed.

(* ------------------------------------------------------------------ statements in the property's words *)

Lemma route_broadcast_others n dst src T :
  dst = None \/ dst = Some BROADCAST_MAC ->
  In T (n_taps n) -> t_mac T <> src -> In T (route n dst).
Proof. intros Hd HT _. rewrite (route_broadcast n dst Hd). exact HT. Qed.

(* as coded, the sender's own tap is served too (neither required nor forbidden by the property) *)
Lemma route_broadcast_self n dst T :
  dst = None \/ dst = Some BROADCAST_MAC -> In T (n_taps n) -> In T (route n dst).
Proof. intros Hd HT. rewrite (route_broadcast n dst Hd). exact HT. Qed.

Lemma deliver_exactly_once {A} n (f : frame A) : net_inv n ->
  NoDup (map t_mac (route n (f_dst f))) /\
  incl (route n (f_dst f)) (n_taps n) /\
  deliver n f = map (fun t => mkRx (t_machine t) (t_slot t) (f_src f) (f_dst f) (n_mtu n) (f_payload f))
                    (route n (f_dst f)).
Proof. intros H. split; [apply route_nodup; exact H|]. split; [apply route_incl|reflexivity]. Qed.

Lemma txf_ok_fixed : txf_ok tx_time.
Proof. intros l t H1 H2. apply tx_time_nonneg; assumption. Qed.

Lemma txf_ok_orig : txf_ok tx_time_orig.
Proof. intros l t H1 H2. apply tx_time_orig_nonneg; assumption. Qed.

Lemma burst_sched_orig n : sched tx_time_orig 1 0 (burst n 1 1001) = repeat (mkSlot 0 0 0) n.
Proof.
  induction n as [|n IH]; [reflexivity|].
  unfold burst in *. cbn [repeat sched].
  replace (step tx_time_orig 1 0 (mkJob 0 1 1001 0 0)) with (mkSlot 0 0 0, 0) by (vm_compute; reflexivity).
  cbv iota beta. f_equal. exact IH.
Qed.

(* the negation of [sched_total] for the transmission time of the code as it stands *)
Definition total_bound_fails (txf : Z -> Z -> Z) (g M : Z) (js : list job) (b s e : Z) : Prop :=
  0 < g /\ 0 < M /\ Forall job_ok js /\ Forall (fun j => 0 < j_thr j <= M) js /\
  Forall2 (fun j k => s <= j_arr j /\ k_dlv k <= e) js (sched txf g b js) /\
  ~ (total_len js * NS <= M * Z.max 0 (e - s)).

Lemma orig_refuted_minimal : total_bound_fails tx_time_orig 1 1001 [mkJob 0 1 1001 0 0] 0 0 0.
Proof.
  unfold total_bound_fails. split; [lia|]. split; [lia|].
  split; [repeat constructor; cbn; lia|]. split; [repeat constructor; cbn; lia|].
  split.
  - replace (sched tx_time_orig 1 0 [mkJob 0 1 1001 0 0]) with [mkSlot 0 0 0] by (vm_compute; reflexivity).
    repeat constructor; cbn; lia.
  - vm_compute. intros H. apply H. reflexivity.
Qed.

Lemma orig_refuted_999 : total_bound_fails tx_time_orig 1 1001 (burst 999 1 1001) 0 0 0.
Proof.
  unfold total_bound_fails. split; [lia|]. split; [lia|].
  split; [apply Forall_forall; intros j Hj; apply repeat_spec in Hj; subst; unfold job_ok; cbn; lia|].
  split; [apply Forall_forall; intros j Hj; apply repeat_spec in Hj; subst; cbn; lia|].
  split.
  - rewrite burst_sched_orig. unfold burst. generalize 999%nat. intros n.
    induction n as [|n IH]; cbn [repeat]; constructor; [cbn; lia|exact IH].
  - vm_compute. intros H. apply H. reflexivity.
Qed.

Lemma refuted_exists : exists g M js b s e, total_bound_fails tx_time_orig g M js b s e.
Proof. exists 1, 1001, [mkJob 0 1 1001 0 0], 0, 0, 0. exact orig_refuted_minimal. Qed.

(* the same holds with tokio's millisecond tick (virtual time), which is how it is replayed *)
Lemma orig_refuted_999_tick : total_bound_fails tx_time_orig 1000000 1001 (burst 999 1 1001) 0 0 0.
Proof.
  unfold total_bound_fails. split; [lia|]. split; [lia|].
  split; [apply Forall_forall; intros j Hj; apply repeat_spec in Hj; subst; unfold job_ok; cbn; lia|].
  split; [apply Forall_forall; intros j Hj; apply repeat_spec in Hj; subst; cbn; lia|].
  split.
  - assert (E : forall n, sched tx_time_orig 1000000 0 (burst n 1 1001) = repeat (mkSlot 0 0 0) n).
    { induction n as [|n IH]; [reflexivity|]. unfold burst in *. cbn [repeat sched].
      replace (step tx_time_orig 1000000 0 (mkJob 0 1 1001 0 0)) with (mkSlot 0 0 0, 0) by (vm_compute; reflexivity).
      cbv iota beta. f_equal. exact IH. }
    rewrite E. unfold burst. generalize 999%nat. intros n.
    induction n as [|n IH]; cbn [repeat]; constructor; [cbn; lia|exact IH].
  - vm_compute. intros H. apply H. reflexivity.
Qed.
