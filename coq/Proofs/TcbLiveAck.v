(* C01 liveness: an ACK that covers a whole prefix of the retransmission queue (several segments,
   possibly all of them) removes exactly that prefix. *)
From Elvis Require Import Model.Base Model.U32 Model.Tcb Model.TcpNet
  Proofs.U32Facts Proofs.TcbSafetyDefs Proofs.TcbSafetyBase Proofs.TcbSafetySnd Proofs.TcbSafetyRcv
  Proofs.TcbSafetyArr Proofs.TcbSafetySys Proofs.TcbLive Proofs.TcbLiveSys Proofs.TcbLiveWin Proofs.TcbLiveWinSys
  Proofs.TcbLiveThm Proofs.TcbLiveWinThm Proofs.TcbLiveLoss Proofs.TcbLiveLossThm.
From Coq Require Import ZifyBool.
Local Open Scope Z_scope.
Ltac Zify.zify_post_hook ::= Z.div_mod_to_equations.

Lemma ack_prefix_segs lp rp ackv t h pre suf :
  st t = Established -> in_segs t = [] -> rcv_wnd t = 65535 -> u32 (rcv_nxt t) ->
  ack_only h -> h_seq h = rcv_nxt t -> h_wnd h = 65535 -> snd_wnd t = 65535 ->
  u32 (snd_una t) -> retx t = map (fun s => mkTx s false) (pre ++ suf) ->
  flight lp rp ackv (snd_una t) (pre ++ suf) -> flight_len (pre ++ suf) <= 65535 ->
  snd_nxt t = wadd (snd_una t) (flight_len (pre ++ suf)) -> pre <> [] ->
  h_ack h = wadd (snd_una t) (flight_len pre) ->
  exists w1 w2,
  segment_arrives t (mkSeg h []) =
  Ok (set_snd_window (set_retx (set_snd_una (set_in_segs t []) (wadd (snd_una t) (flight_len pre)))
                               (map (fun s => mkTx s false) suf)) 65535 w1 w2, AOk).
Proof.
  intros Est Hs Hw Hu (Ha & Hr & Hsy & Hf) Hseq Hhw Hsw Huu Hretx F Hfl Hnx Hne Hack.
  set (una := snd_una t) in *. set (P := flight_len pre) in *.
  destruct (flight_split lp rp ackv pre suf una Huu F) as [Fp Fs].
  rewrite flight_len_app in Hfl, Hnx. fold P in Hfl, Hnx.
  pose proof (flight_len_nonneg suf) as Hs0.
  assert (HP : 0 < P) by (apply (flight_len_pos lp rp ackv una pre Fp Hne)).
  set (t0 := set_in_segs t []).
  assert (Hleq : mod_leq (h_ack h) una = false).
  { rewrite Hack. unfold mod_leq, mod_lt. rewrite wsub_spec, wadd_spec. unfold u32, M32, H31 in *. lia. }
  assert (Hgt : mod_gt (h_ack h) (snd_nxt t) = false).
  { rewrite Hack, Hnx. unfold mod_gt, mod_lt. rewrite wsub_spec, !wadd_spec. unfold u32, M32, H31 in *. lia. }
  set (t1 := remove_acked (set_snd_una t0 (h_ack h)) (h_ack h)).
  assert (Hret1 : retx t1 = map (fun s => mkTx s false) suf).
  { subst t1 t0. unfold remove_acked; tcb_simpl. rewrite Hretx, map_app, filter_app, Hack.
    pose proof (flight_offsets lp rp ackv una pre 0) as Hop.
    rewrite (wadd_0_u32 una Huu) in Hop. specialize (Hop Fp ltac:(lia) ltac:(fold P; lia)). fold P in Hop.
    pose proof (flight_offsets lp rp ackv una suf P Fs ltac:(lia) ltac:(lia)) as Hos.
    assert (E1 : filter (fun tx => mod_lt (wadd una P) (wadd (h_seq (s_hdr (t_seg tx))) (seg_len (t_seg tx))))
                        (map (fun s => mkTx s false) pre) = []).
    { clearbody P. clear - Hop Huu HP Hfl Hs0. induction Hop as [|s l He _ IH]; cbn [map filter t_seg]; [reflexivity|].
      rewrite IH. cbv beta zeta in He.
      replace (mod_lt (wadd una P) (wadd (h_seq (s_hdr s)) (seg_len s))) with false; [reflexivity|].
      symmetry. unfold mod_lt. rewrite wsub_spec in *. rewrite !wadd_spec in *. unfold u32, M32, H31 in *. lia. }
    assert (E2 : filter (fun tx => mod_lt (wadd una P) (wadd (h_seq (s_hdr (t_seg tx))) (seg_len (t_seg tx))))
                        (map (fun s => mkTx s false) suf) = map (fun s => mkTx s false) suf).
    { clearbody P. clear - Hos Huu HP Hfl Hs0. induction Hos as [|s l He _ IH]; cbn [map filter t_seg]; [reflexivity|].
      rewrite IH. cbv beta zeta in He.
      replace (mod_lt (wadd una P) (wadd (h_seq (s_hdr s)) (seg_len s))) with true; [reflexivity|].
      symmetry. unfold mod_lt. rewrite wsub_spec in *. rewrite !wadd_spec in *. unfold u32, M32, H31 in *. lia. }
    rewrite E1, E2. reflexivity. }
  set (cond := mod_lt (snd_wl1 t1) (h_seq h) || ((snd_wl1 t1 =? h_seq h) && mod_leq (snd_wl2 t1) (h_ack h))).
  set (t2 := if cond then set_snd_window t1 (h_wnd h) (h_seq h) (h_ack h) else t1).
  assert (Hproc : process_segment t0 (mkSeg h []) = Ok (t2, PSuccess)).
  { unfold process_segment. tcb_simpl. change (st t0) with (st t). rewrite Est, Hsy, Hf.
    assert (Hok : is_seq_ok t0 (zlen (@nil Z)) (h_seq h) false false = true).
    { unfold is_seq_ok. cbn [b2z zlen length]. change (Z.of_nat 0 + 0 + 0 =? 0) with true. cbn iota.
      change (rcv_wnd t0) with (rcv_wnd t). rewrite Hw. cbn [Z.eqb].
      rewrite Hseq. apply (in_window_at_nxt t0); assumption. }
    rewrite Hok. cbn [negb].
    unfold ps_ack. rewrite Ha. change (st t0) with (st t). rewrite Est. cbn [negb]. unfold ack_est.
    change (snd_una t0) with una. change (snd_nxt t0) with (snd_nxt t).
    rewrite Hleq, Hgt. fold t1. fold cond. fold t2.
    assert (Est2 : st t2 = Established) by (subst t2; destruct cond; exact Est).
    unfold ps_rst. rewrite Hr. cbn [negb]. unfold ps_syn. rewrite Hsy. cbn [negb].
    rewrite Est2. cbn [state_eqb]. rewrite ps_text_nil, ps_fin_nofin by exact Hf. reflexivity. }
  exists (snd_wl1 t2), (snd_wl2 t2).
  eapply arrives_single; try assumption; try reflexivity.
  - now rewrite Est.
  - tcb_simpl. rewrite Hseq. apply mod_gt_refl_false.
  - fold t0. rewrite Hproc. f_equal. f_equal.
    subst t2. destruct cond; tcb_eq; try exact Hret1; subst t1 t0; unfold remove_acked; tcb_simpl; auto.
  - subst t2. destruct cond; reflexivity.
Qed.
