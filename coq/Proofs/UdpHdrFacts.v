(* Lemmas about the UDP header codec model (Model/UdpHdr.v). *)
From Elvis Require Import Model.Base Model.Bytes Model.Checksum Model.UdpHdr
  Proofs.BytesFacts Proofs.ChecksumFacts.
From Coq Require Import ZifyBool.
Ltac Zify.zify_post_hook ::= Z.div_mod_to_equations.
Local Open Scope Z_scope.

(* C14: no panic site in the decoder *)
Lemma udp_decode_total : forall ck bs plen sa da s, udp_decode ck bs plen sa da <> Panic s.
Proof. intros. apply is_panic_false. unfold udp_decode. no_panic. Qed.
Lemma udp_decode_fuel : forall ck bs plen sa da, udp_decode ck bs plen sa da <> OutOfFuel.
Proof. intros. unfold udp_decode. no_fuel. Qed.

(* ---- closed forms -------------------------------------------------------------- *)
Definition udp_chain (ck : bool) (sp dp len sa da : Z) (rest : list Z) : Z :=
  ck_rem ck (ck_u8 ck (ck_u32 ck (ck_u32 ck (ck_u16 ck (ck_u16 ck (ck_u16 ck (ck_u16 ck 0 sp) dp) len) len)
                                           sa) da) 0 17) rest.
Definition udp_bchain (ck : bool) (sa sp da dp : Z) (text : list Z) (len : Z) : Z :=
  ck_u16 ck (ck_u16 ck (ck_u8 ck (ck_u32 ck (ck_u32 ck (ck_u16 ck (ck_u16 ck (ck_rem ck 0 text) len) len)
                                                        sa) da) 0 17) sp) dp.

Lemma udp_decode_8 : forall ck b0 b1 b2 b3 b4 b5 b6 b7 rest plen sa da,
  udp_decode ck (b0 :: b1 :: b2 :: b3 :: b4 :: b5 :: b6 :: b7 :: rest) plen sa da =
  if negb (plen =? of_be16 b4 b5) then Err EU_LEN else
  if negb (as_u16 ck (udp_chain ck (of_be16 b0 b1) (of_be16 b2 b3) (of_be16 b4 b5) sa da rest)
           =? of_be16 b6 b7)
  then Err (EU_CK (of_be16 b6 b7)
                  (as_u16 ck (udp_chain ck (of_be16 b0 b1) (of_be16 b2 b3) (of_be16 b4 b5) sa da rest)))
  else Ok (mk_udp (of_be16 b0 b1) (of_be16 b2 b3) (of_be16 b4 b5) (of_be16 b6 b7)).
Proof. reflexivity. Qed.

Lemma udp_decode_short : forall ck bs plen sa da, (length bs < 8)%nat ->
  udp_decode ck bs plen sa da = Err EU_HTS.
Proof.
  intros ck bs plen sa da Hl.
  do 8 (destruct bs as [|? bs]; [reflexivity|]). cbn in Hl. lia.
Qed.

Lemma udp_decode_ok_inv : forall ck bs plen sa da h, udp_decode ck bs plen sa da = Ok h ->
  exists b0 b1 b2 b3 b4 b5 b6 b7 rest,
    bs = b0 :: b1 :: b2 :: b3 :: b4 :: b5 :: b6 :: b7 :: rest /\
    plen = of_be16 b4 b5 /\
    as_u16 ck (udp_chain ck (of_be16 b0 b1) (of_be16 b2 b3) (of_be16 b4 b5) sa da rest) = of_be16 b6 b7 /\
    h = mk_udp (of_be16 b0 b1) (of_be16 b2 b3) (of_be16 b4 b5) (of_be16 b6 b7).
Proof.
  intros ck bs plen sa da h H.
  destruct (Nat.ltb_spec (length bs) 8) as [Hs|Hl].
  - rewrite udp_decode_short in H by assumption. discriminate.
  - do 8 (destruct bs as [|? bs]; [cbn in Hl; lia|]).
    rewrite udp_decode_8 in H.
    repeat match type of H with
           | (if ?c then _ else _) = _ => let E := fresh "E" in destruct c eqn:E; [discriminate|]
           end.
    inversion H. subst h. do 9 eexists. split; [reflexivity|]. repeat split; lia.
Qed.

Lemma udp_build_ok : forall ck sa sp da dp text tlen, 0 <= tlen -> tlen + 8 <= 65535 ->
  udp_build ck sa sp da dp text tlen =
  Ok (be16 sp ++ be16 dp ++ be16 (tlen + 8) ++ be16 (as_u16 ck (udp_bchain ck sa sp da dp text (tlen + 8)))).
Proof.
  intros. unfold udp_build. cbv zeta.
  replace (usize_max <? tlen + 8) with false by (unfold usize_max; lia).
  replace (65535 <? tlen + 8) with false by lia. reflexivity.
Qed.
Lemma udp_build_long : forall ck sa sp da dp text tlen, 65535 < tlen + 8 -> tlen + 8 <= usize_max ->
  udp_build ck sa sp da dp text tlen = Err EUB_LONG.
Proof.
  intros. unfold udp_build. cbv zeta. replace (usize_max <? tlen + 8) with false by lia.
  replace (65535 <? tlen + 8) with true by lia. reflexivity.
Qed.
(* the checked usize addition of udp_parsing.rs l.107 *)
Lemma udp_build_panics_iff : forall ck sa sp da dp text tlen,
  (exists s, udp_build ck sa sp da dp text tlen = Panic s) <-> usize_max < tlen + 8.
Proof.
  intros. unfold udp_build. cbv zeta.
  destruct (usize_max <? tlen + 8) eqn:E1.
  - split; [lia | eauto].
  - destruct (65535 <? tlen + 8); (split; [intros [s Hs]; discriminate | lia]).
Qed.

(* ---- normal forms of the two checksum chains ------------------------------------ *)
Definition udp_others (sp dp len sa da : Z) (text : list Z) : Z :=
  sp + dp + len + len + halves sa + halves da + 17 + wsum text.

Lemma udp_others_pos : forall sp dp len sa da text,
  u16 sp -> u16 dp -> u16 len -> u32 sa -> u32 da -> bytes text -> 0 < udp_others sp dp len sa da text.
Proof.
  intros. unfold udp_others. pose proof (halves_range sa). pose proof (halves_range da).
  pose proof (wsum_nonneg text). unfold u16 in *. lia.
Qed.
Lemma udp_chain_norm : forall sp dp len sa da rest,
  u16 sp -> u16 dp -> u16 len -> u32 sa -> u32 da -> bytes rest ->
  udp_chain true sp dp len sa da rest = oc_norm (udp_others sp dp len sa da rest).
Proof.
  intros sp dp len sa da rest Hsp Hdp Hlen Hsa Hda Hr.
  unfold udp_chain, udp_others. change 0 with (oc_norm 0) at 1.
  pose proof (halves_range sa Hsa). pose proof (halves_range da Hda). pose proof (wsum_nonneg rest Hr).
  unfold u16 in *.
  rewrite !ck_u16_norm by (unfold u16; lia).
  rewrite !ck_u32_norm by (assumption || lia).
  rewrite ck_u8_norm by (unfold byte; lia).
  rewrite ck_rem_norm by (assumption || lia).
  f_equal; lia.
Qed.
Lemma udp_bchain_norm : forall sp dp len sa da text,
  u16 sp -> u16 dp -> u16 len -> u32 sa -> u32 da -> bytes text ->
  udp_bchain true sa sp da dp text len = oc_norm (udp_others sp dp len sa da text).
Proof.
  intros sp dp len sa da text Hsp Hdp Hlen Hsa Hda Hr.
  unfold udp_bchain, udp_others. change 0 with (oc_norm 0) at 1.
  pose proof (halves_range sa Hsa). pose proof (halves_range da Hda). pose proof (wsum_nonneg text Hr).
  unfold u16 in *.
  rewrite ck_rem_norm by (assumption || lia).
  rewrite ck_u16_norm by (unfold u16; lia). rewrite ck_u16_norm by (unfold u16; lia).
  rewrite !ck_u32_norm by (assumption || lia).
  rewrite ck_u8_norm by (unfold byte; lia).
  rewrite !ck_u16_norm by (unfold u16; lia).
  f_equal; lia.
Qed.
(* decoder and builder compute the same checksum *)
Lemma udp_chains_agree : forall ck sp dp len sa da text,
  u16 sp -> u16 dp -> u16 len -> u32 sa -> u32 da -> bytes text ->
  as_u16 ck (udp_chain ck sp dp len sa da text) = as_u16 ck (udp_bchain ck sa sp da dp text len).
Proof.
  intros [|] sp dp len sa da text Hsp Hdp Hlen Hsa Hda Hr.
  - rewrite udp_chain_norm, udp_bchain_norm by assumption. reflexivity.
  - reflexivity.
Qed.
Lemma udp_cksum_u16 : forall ck sp dp len sa da text,
  u16 sp -> u16 dp -> u16 len -> u32 sa -> u32 da -> bytes text ->
  u16 (as_u16 ck (udp_bchain ck sa sp da dp text len)).
Proof.
  intros [|] sp dp len sa da text Hsp Hdp Hlen Hsa Hda Hr.
  - apply as_u16_range. rewrite udp_bchain_norm by assumption. apply oc_norm_u16.
    apply Z.lt_le_incl. apply udp_others_pos; assumption.
  - cbn [as_u16]. unfold u16. lia.
Qed.

(* ---- round trip 1 ------------------------------------------------------------------ *)
Lemma udp_decode_encode : forall ck sa sp da dp text,
  u32 sa -> u16 sp -> u32 da -> u16 dp -> bytes text -> Z.of_nat (length text) + 8 <= 65535 ->
  exists c, u16 c /\
    udp_build ck sa sp da dp text (Z.of_nat (length text)) =
      Ok (be16 sp ++ be16 dp ++ be16 (Z.of_nat (length text) + 8) ++ be16 c) /\
    udp_decode ck ((be16 sp ++ be16 dp ++ be16 (Z.of_nat (length text) + 8) ++ be16 c) ++ text)
               (Z.of_nat (length text) + 8) sa da
      = Ok (mk_udp sp dp (Z.of_nat (length text) + 8) c).
Proof.
  intros ck sa sp da dp text Hsa Hsp Hda Hdp Ht Hlen.
  set (n := Z.of_nat (length text)) in *.
  assert (Hn : u16 (n + 8)) by (unfold u16; lia).
  pose proof (udp_cksum_u16 ck sp dp (n + 8) sa da text Hsp Hdp Hn Hsa Hda Ht) as Hc.
  exists (as_u16 ck (udp_bchain ck sa sp da dp text (n + 8))). split; [exact Hc|]. split.
  - apply udp_build_ok; lia.
  - cbn [app be16]. rewrite udp_decode_8.
    rewrite !of_be16_be16 by assumption.
    rewrite Z.eqb_refl. cbn [negb].
    rewrite udp_chains_agree by assumption. rewrite Z.eqb_refl. reflexivity.
Qed.

(* ---- round trip 2: rebuilding from the decoded ports, the bytes after the header and
   the decoded length reproduces the 8 header bytes --------------------------------- *)
Lemma udp_encode_decode : forall ck bs sa da h, bytes bs -> u32 sa -> u32 da ->
  udp_decode ck bs (Z.of_nat (length bs)) sa da = Ok h ->
  udp_build ck sa (ud_sport h) da (ud_dport h) (skipn 8 bs) (ud_len h - 8) = Ok (firstn 8 bs).
Proof.
  intros ck bs sa da h Hb Hsa Hda H.
  apply udp_decode_ok_inv in H.
  destruct H as (b0 & b1 & b2 & b3 & b4 & b5 & b6 & b7 & rest & -> & Hlen & Hck & ->).
  repeat (apply bytes_cons in Hb; let B := fresh "B" in destruct Hb as [B Hb]).
  cbn [ud_sport ud_dport ud_len skipn firstn].
  assert (R45 : u16 (of_be16 b4 b5)) by (apply of_be16_range; assumption).
  cbn [length] in Hlen.
  rewrite udp_build_ok by (unfold u16 in R45; lia).
  replace (of_be16 b4 b5 - 8 + 8) with (of_be16 b4 b5) by lia.
  rewrite <- udp_chains_agree by (try apply of_be16_range; assumption).
  rewrite Hck. rewrite !be16_of_be16 by assumption. reflexivity.
Qed.

(* ---- RFC 768 -------------------------------------------------------------------------- *)
Lemma udp_matches_rfc : forall sp dp len c, u16 sp -> u16 dp -> u16 len -> u16 c ->
  be16 sp ++ be16 dp ++ be16 len ++ be16 c = rfc768_bytes sp dp len c.
Proof.
  intros sp dp len c Hsp Hdp Hlen Hc.
  unfold rfc768_bytes, octets32u, be16, u16 in *. norm_pow. cbn [app]. list_eq.
Qed.
Lemma udp_decode_fields_rfc : forall ck bs plen sa da h, bytes bs ->
  udp_decode ck bs plen sa da = Ok h -> h = rfc768_fields bs.
Proof.
  intros ck bs plen sa da h Hb H.
  apply udp_decode_ok_inv in H.
  destruct H as (b0 & b1 & b2 & b3 & b4 & b5 & b6 & b7 & rest & -> & Hlen & Hck & ->).
  repeat (apply bytes_cons in Hb; let B := fresh "B" in destruct Hb as [B Hb]).
  unfold rfc768_fields, urow. cbn [Nat.mul Nat.add nth].
  unfold of_be16, byte in *. norm_pow. f_equal; lia.
Qed.

(* ---- C18 ------------------------------------------------------------------------------- *)
Lemma wsum_pseudo : forall sa da proto len, u32 sa -> u32 da -> byte proto -> u16 len ->
  wsum (pseudo sa da proto len) = halves sa + halves da + proto + len.
Proof.
  intros sa da proto len Hsa Hda Hp Hl. unfold pseudo, be32, be16. cbn [app].
  rewrite !wsum_two, wsum_nil. unfold halves, u32, u16, byte in *. lia.
Qed.
Lemma pseudo_bytes : forall sa da proto len, byte proto -> bytes (pseudo sa da proto len).
Proof.
  intros. unfold pseudo. apply bytes_app. split; [apply be32_bytes|].
  apply bytes_app. split; [apply be32_bytes|]. apply bytes_app. split; [|apply be16_bytes].
  repeat (apply bytes_cons; split; [assumption || (unfold byte; lia)|]). constructor.
Qed.
Lemma pseudo_even : forall sa da proto len, Nat.even (length (pseudo sa da proto len)) = true.
Proof. reflexivity. Qed.
Lemma wsum_8 : forall b0 b1 b2 b3 b4 b5 b6 b7 rest,
  wsum (b0 :: b1 :: b2 :: b3 :: b4 :: b5 :: b6 :: b7 :: rest) =
  of_be16 b0 b1 + of_be16 b2 b3 + of_be16 b4 b5 + of_be16 b6 b7 + wsum rest.
Proof. intros. rewrite !wsum_two. unfold of_be16. lia. Qed.

(* the sum RFC 768 prescribes (pseudo header ++ datagram) = the other words + the field *)
Lemma udp_total_sum : forall sa da b0 b1 b2 b3 b4 b5 b6 b7 rest,
  u32 sa -> u32 da -> byte b4 -> byte b5 ->
  wsum (pseudo sa da 17 (of_be16 b4 b5) ++ b0 :: b1 :: b2 :: b3 :: b4 :: b5 :: b6 :: b7 :: rest) =
  udp_others (of_be16 b0 b1) (of_be16 b2 b3) (of_be16 b4 b5) sa da rest + of_be16 b6 b7.
Proof.
  intros. rewrite wsum_app_even by apply pseudo_even.
  rewrite wsum_pseudo by (assumption || (unfold byte; lia) || (apply of_be16_range; assumption)).
  rewrite wsum_8. unfold udp_others. lia.
Qed.

(* every accepted datagram verifies under RFC 1071 with the pseudo header *)
Lemma udp_accepted_verifies : forall bs plen sa da h, bytes bs -> u32 sa -> u32 da ->
  udp_decode true bs plen sa da = Ok h ->
  rfc1071_verifies (pseudo sa da 17 (ud_len h) ++ bs) = true.
Proof.
  intros bs plen sa da h Hb Hsa Hda H.
  apply udp_decode_ok_inv in H.
  destruct H as (b0 & b1 & b2 & b3 & b4 & b5 & b6 & b7 & rest & -> & Hlen & Hck & ->).
  cbn [ud_len].
  rewrite verifies_wsum by (apply bytes_app; split; [apply pseudo_bytes; unfold byte; lia | assumption]).
  repeat (apply bytes_cons in Hb; let B := fresh "B" in destruct Hb as [B Hb]).
  rewrite udp_total_sum by assumption.
  rewrite udp_chain_norm in Hck by (try apply of_be16_range; assumption).
  rewrite <- Hck. apply Z.eqb_eq. apply emitted_sum_verifies.
  apply Z.lt_le_incl. apply udp_others_pos; try apply of_be16_range; assumption.
Qed.

(* "decode accepts iff": exactly the datagrams of the announced length that verify and
   carry a non-zero field (0x0000 = "no checksum" is not accepted when checksums are on) *)
Lemma udp_accept_iff : forall bs plen sa da, bytes bs -> (8 <= length bs)%nat -> u32 sa -> u32 da ->
  let len := of_be16 (nth 4 bs 0) (nth 5 bs 0) in
  let field := of_be16 (nth 6 bs 0) (nth 7 bs 0) in
  ((exists h, udp_decode true bs plen sa da = Ok h) <->
   plen = len /\ field <> 0 /\ rfc1071_verifies (pseudo sa da 17 len ++ bs) = true).
Proof.
  intros bs plen sa da Hb Hl Hsa Hda.
  do 8 (destruct bs as [|? bs]; [cbn in Hl; lia|]).
  rename z into b0, z0 into b1, z1 into b2, z2 into b3, z3 into b4, z4 into b5, z5 into b6, z6 into b7.
  cbn [nth]. cbv zeta.
  rewrite verifies_wsum by (apply bytes_app; split; [apply pseudo_bytes; unfold byte; lia | assumption]).
  repeat (apply bytes_cons in Hb; let B := fresh "B" in destruct Hb as [B Hb]).
  rewrite udp_total_sum by assumption.
  rewrite udp_decode_8.
  rewrite udp_chain_norm by (try apply of_be16_range; assumption).
  assert (Hpos : 0 < udp_others (of_be16 b0 b1) (of_be16 b2 b3) (of_be16 b4 b5) sa da bs)
    by (apply udp_others_pos; try apply of_be16_range; assumption).
  assert (Hf : u16 (of_be16 b6 b7)) by (apply of_be16_range; assumption).
  set (S := udp_others (of_be16 b0 b1) (of_be16 b2 b3) (of_be16 b4 b5) sa da bs) in *.
  set (f := of_be16 b6 b7) in *.
  rewrite as_u16_on by (apply oc_norm_u16; lia).
  split.
  - intros [h H].
    destruct (plen =? of_be16 b4 b5) eqn:E1; cbn [negb] in H; [|discriminate].
    match type of H with (if negb ?c then _ else _) = _ => destruct c eqn:E2 end; cbn [negb] in H; [|discriminate].
    split; [lia|]. clearbody S f. unfold oc_norm, u16 in *. split; [|apply Z.eqb_eq]; split_ifs_all; lia.
  - intros (H1 & H2 & H3). apply Z.eqb_eq in H3.
    replace (plen =? of_be16 b4 b5) with true by lia. cbn [negb].
    match goal with |- exists _, (if negb ?c then _ else _) = _ => replace c with true end.
    + cbn [negb]. eauto.
    + symmetry. clearbody S f. unfold oc_norm, u16 in *. apply Z.eqb_eq. split_ifs_all; lia.
Qed.

Lemma udp_corruption_detected : forall bs bs' plen sa da h, bytes bs -> bytes bs' -> u32 sa -> u32 da ->
  udp_decode true bs plen sa da = Ok h ->
  wsum bs' mod 65535 <> wsum bs mod 65535 ->
  forall h', udp_decode true bs' plen sa da <> Ok h'.
Proof.
  intros bs bs' plen sa da h Hb Hb' Hsa Hda H Hne h' H'.
  assert (L : ud_len h = plen /\ ud_len h' = plen).
  { apply udp_decode_ok_inv in H. apply udp_decode_ok_inv in H'.
    destruct H as (? & ? & ? & ? & ? & ? & ? & ? & ? & _ & E & _ & ->).
    destruct H' as (? & ? & ? & ? & ? & ? & ? & ? & ? & _ & E' & _ & ->). cbn [ud_len]. lia. }
  destruct L as [L L'].
  apply udp_accepted_verifies in H; try assumption.
  apply udp_accepted_verifies in H'; try assumption.
  rewrite L in H. rewrite L' in H'.
  assert (P : bytes (pseudo sa da 17 plen)) by (apply pseudo_bytes; unfold byte; lia).
  rewrite verifies_wsum in H, H' by (apply bytes_app; split; assumption).
  rewrite wsum_app_even in H, H' by apply pseudo_even.
  apply Z.eqb_eq in H, H'.
  pose proof (wsum_nonneg _ P). pose proof (wsum_nonneg _ Hb). pose proof (wsum_nonneg _ Hb').
  apply oc_norm_ones in H; [|lia]. apply oc_norm_ones in H'; [|lia].
  lia.
Qed.

(* what the builder emits verifies, is never 0x0000, and is the RFC 768 value *)
Lemma udp_emitted_verifies : forall sa sp da dp text hdr,
  u32 sa -> u16 sp -> u32 da -> u16 dp -> bytes text -> Z.of_nat (length text) + 8 <= 65535 ->
  udp_build true sa sp da dp text (Z.of_nat (length text)) = Ok hdr ->
  length hdr = 8%nat /\
  rfc1071_verifies (pseudo sa da 17 (Z.of_nat (length text) + 8) ++ hdr ++ text) = true /\
  of_be16 (nth 6 hdr 0) (nth 7 hdr 0) <> 0.
Proof.
  intros sa sp da dp text hdr Hsa Hsp Hda Hdp Ht Hlen H.
  set (n := Z.of_nat (length text)) in *.
  rewrite udp_build_ok in H by lia. apply Ok_inj in H. subst hdr.
  assert (Hn : u16 (n + 8)) by (unfold u16; lia).
  pose proof (udp_cksum_u16 true sp dp (n + 8) sa da text Hsp Hdp Hn Hsa Hda Ht) as Hc.
  split; [reflexivity|].
  unfold be16. cbn [app nth].
  rewrite of_be16_be16 by assumption.
  split.
  - rewrite verifies_wsum.
    2:{ apply bytes_app. split; [apply pseudo_bytes; unfold byte; lia|].
        unfold u16 in *. repeat (apply bytes_cons; split; [unfold byte; lia|]). assumption. }
    replace (pseudo sa da 17 (n + 8)) with
      (pseudo sa da 17 (of_be16 ((n + 8) / 256 mod 256) ((n + 8) mod 256)))
      by (rewrite of_be16_be16 by assumption; reflexivity).
    rewrite udp_total_sum by (assumption || (unfold byte; lia)).
    rewrite !of_be16_be16 by assumption.
    rewrite udp_bchain_norm by assumption.
    apply Z.eqb_eq. apply emitted_sum_verifies.
    apply Z.lt_le_incl. apply udp_others_pos; assumption.
  - apply as_u16_nonzero. rewrite udp_bchain_norm by assumption. apply oc_norm_u16.
    apply Z.lt_le_incl. apply udp_others_pos; assumption.
Qed.

(* a conforming sender (RFC 768: complement of the sum, a computed zero sent as all ones)
   is accepted *)
Lemma udp_accepts_reference : forall sa sp da dp text,
  u32 sa -> u16 sp -> u32 da -> u16 dp -> bytes text -> Z.of_nat (length text) + 8 <= 65535 ->
  let len := Z.of_nat (length text) + 8 in
  let zeroed := be16 sp ++ be16 dp ++ be16 len ++ [0; 0] in
  let c0 := rfc1071_checksum (pseudo sa da 17 len ++ zeroed ++ text) in
  let c := if c0 =? 0 then 65535 else c0 in
  udp_decode true ((be16 sp ++ be16 dp ++ be16 len ++ be16 c) ++ text) len sa da
    = Ok (mk_udp sp dp len c).
Proof.
  intros sa sp da dp text Hsa Hsp Hda Hdp Ht Hlen len zeroed c0 c.
  assert (Hn : u16 len) by (subst len; unfold u16; lia).
  assert (Hz : bytes (pseudo sa da 17 len ++ zeroed ++ text)).
  { apply bytes_app. split; [apply pseudo_bytes; unfold byte; lia|].
    apply bytes_app. split; [|assumption]. subst zeroed.
    repeat (apply bytes_app; split; [apply be16_bytes|]).
    repeat (apply bytes_cons; split; [unfold byte; lia|]). constructor. }
  assert (Hc0 : c0 = 65535 - oc_norm (udp_others sp dp len sa da text)).
  { subst c0. unfold rfc1071_checksum. rewrite oc_sum_norm by (apply words_u16; assumption).
    change (zsum (words (pseudo sa da 17 len ++ zeroed ++ text)))
      with (wsum (pseudo sa da 17 len ++ zeroed ++ text)).
    f_equal. f_equal. subst zeroed. unfold be16. cbn [app].
    replace (pseudo sa da 17 len) with (pseudo sa da 17 (of_be16 (len / 256 mod 256) (len mod 256)))
      by (rewrite of_be16_be16 by assumption; reflexivity).
    rewrite udp_total_sum by (assumption || (unfold byte; lia)).
    rewrite !of_be16_be16 by assumption. replace (of_be16 0 0) with 0 by reflexivity. lia. }
  assert (Hpos : 0 < udp_others sp dp len sa da text) by (apply udp_others_pos; assumption).
  pose proof (oc_norm_range _ (Z.lt_le_incl _ _ Hpos)) as Rn.
  assert (Rc : u16 c) by (subst c; unfold u16; destruct (c0 =? 0); lia).
  unfold be16. cbn [app]. rewrite udp_decode_8.
  rewrite !of_be16_be16 by assumption.
  rewrite Z.eqb_refl. cbn [negb].
  rewrite udp_chain_norm by assumption.
  rewrite as_u16_on by (apply oc_norm_u16; lia).
  match goal with |- (if negb ?b then _ else _) = _ => replace b with true end; [reflexivity|].
  symmetry. apply Z.eqb_eq. subst c. rewrite Hc0.
  generalize dependent (udp_others sp dp len sa da text). intros S _ Hpos Rn.
  unfold oc_norm in *. split_ifs; lia.
Qed.

(* builder output = RFC 768 bytes, and the decoder reads the same fields back *)
Lemma udp_build_matches_rfc : forall ck sa sp da dp text,
  u32 sa -> u16 sp -> u32 da -> u16 dp -> bytes text -> Z.of_nat (length text) + 8 <= 65535 ->
  exists c, u16 c /\
    udp_build ck sa sp da dp text (Z.of_nat (length text)) =
      Ok (rfc768_bytes sp dp (Z.of_nat (length text) + 8) c) /\
    udp_decode ck (rfc768_bytes sp dp (Z.of_nat (length text) + 8) c ++ text)
               (Z.of_nat (length text) + 8) sa da = Ok (mk_udp sp dp (Z.of_nat (length text) + 8) c).
Proof.
  intros ck sa sp da dp text Hsa Hsp Hda Hdp Ht Hlen.
  destruct (udp_decode_encode ck sa sp da dp text Hsa Hsp Hda Hdp Ht Hlen) as (c & Hc & Hb & Hd).
  exists c. split; [exact Hc|].
  rewrite <- udp_matches_rfc by (assumption || (unfold u16; lia)). split; assumption.
Qed.

(* every single-bit corruption of an accepted datagram is rejected *)
Lemma udp_single_flip_rejected : forall bs plen sa da h i j, bytes bs -> u32 sa -> u32 da ->
  udp_decode true bs plen sa da = Ok h -> (i < length bs)%nat -> 0 <= j < 8 ->
  forall h', udp_decode true (flip_at bs i j) plen sa da <> Ok h'.
Proof.
  intros bs plen sa da h i j Hb Hsa Hda H Hi Hj.
  eapply udp_corruption_detected; try eassumption.
  - apply flip_at_bytes; assumption.
  - pose proof (single_flip_changes_sum bs i j 0 Hi Hb Hj) as S. cbn [Z.add] in S. exact S.
Qed.
Lemma udp_double_flip_rejected : forall bs plen sa da h i1 j1 i2 j2, bytes bs -> u32 sa -> u32 da ->
  udp_decode true bs plen sa da = Ok h ->
  (i1 < length bs)%nat -> (i2 < length bs)%nat -> 0 <= j1 < 8 -> 0 <= j2 < 8 -> (i1 <> i2 \/ j1 <> j2) ->
  ~ (bit_exp i1 j1 = bit_exp i2 j2 /\ Z.testbit (nth i1 bs 0) j1 <> Z.testbit (nth i2 bs 0) j2) ->
  forall h', udp_decode true (flip_at (flip_at bs i1 j1) i2 j2) plen sa da <> Ok h'.
Proof.
  intros bs plen sa da h i1 j1 i2 j2 Hb Hsa Hda H Hi1 Hi2 Hj1 Hj2 Hne Hnc.
  eapply udp_corruption_detected; try eassumption.
  - apply flip_at_bytes; [apply flip_at_bytes|]; assumption.
  - pose proof (double_flip_unchanged_iff bs i1 j1 i2 j2 0 Hi1 Hi2 Hb Hj1 Hj2 Hne) as D. cbn [Z.add] in D.
    intro E. apply Hnc. apply D. exact E.
Qed.
