(* Order correctness of the model's BinaryHeap<Segment> (Model/Tcb.v: heap_push = push + sift_up,
   heap_pop = swap_remove + sift_down_to_bottom + sift_up), for heaps of any size.
   The model's order seg_le is the circular comparison of sequence numbers; it is a total preorder
   only on segments whose sequence numbers lie within half the sequence space of a common base,
   which is the hypothesis [in_range base].  Under it: push and pop preserve the heap shape
   (every child <= its parent in the model's order) and the multiset of elements, and pop returns
   a maximum of the order, i.e. a segment with the smallest sequence number. *)
From Elvis Require Import Model.Base Model.U32 Model.Tcb Proofs.U32Facts Proofs.TcbSafetyBase.
From Coq Require Import ZifyBool Permutation FinFun.
Local Open Scope Z_scope.
Ltac Zify.zify_post_hook ::= Z.div_mod_to_equations.
Ltac splits := repeat match goal with |- _ /\ _ => split end.

(* ---------- nth / set_nth ---------- *)
Lemma get_or_nth {A} (l : list A) i x : get_or l i x = nth i l x.
Proof.
  unfold get_or. revert i. induction l as [|a l IH]; intros [|i]; cbn; auto.
Qed.

Lemma nth_set_nth_eq {A} (l : list A) i x d : (i < length l)%nat -> nth i (set_nth l i x) d = x.
Proof.
  revert i. induction l as [|a l IH]; intros [|i] H; cbn in *; try lia; auto. apply IH. lia.
Qed.

Lemma nth_set_nth_neq {A} (l : list A) i j x d : i <> j -> nth j (set_nth l i x) d = nth j l d.
Proof.
  revert i j. induction l as [|a l IH]; intros [|i] [|j] H; cbn; auto; try congruence.
Qed.

Lemma set_nth_app_last {A} (l : list A) y x : set_nth (l ++ [y]) (length l) x = l ++ [x].
Proof. induction l as [|a l IH]; cbn; [reflexivity|now rewrite IH]. Qed.

(* two lists that agree except that positions i and j are exchanged are permutations *)
Lemma perm_transpose {A} (l l' : list A) (d : A) i j :
  length l' = length l -> (i < length l)%nat -> (j < length l)%nat ->
  nth i l' d = nth j l d -> nth j l' d = nth i l d ->
  (forall k, (k < length l)%nat -> k <> i -> k <> j -> nth k l' d = nth k l d) ->
  Permutation l l'.
Proof.
  intros Hlen Hi Hj Hij Hji Hk.
  apply (Permutation_nth l l' d). split; [exact Hlen|].
  exists (fun k => if Nat.eqb k i then j else if Nat.eqb k j then i else k).
  split; [|split].
  - intros k Hkl. destruct (Nat.eqb_spec k i); [assumption|]. destruct (Nat.eqb_spec k j); assumption.
  - intros x y Hx Hy.
    destruct (Nat.eqb_spec x i), (Nat.eqb_spec x j), (Nat.eqb_spec y i), (Nat.eqb_spec y j); lia.
  - intros k Hkl. destruct (Nat.eqb_spec k i) as [->|Hni]; [exact Hij|].
    destruct (Nat.eqb_spec k j) as [->|Hnj]; [exact Hji|]. apply Hk; assumption.
Qed.

(* moving an element through the hole: (v, hole i, x in hand) -> (v[i := v[j]], hole j, x in hand) *)
Lemma perm_move_hole {A} (v : list A) (d x : A) i j :
  (i < length v)%nat -> (j < length v)%nat -> i <> j ->
  Permutation (set_nth v i x) (set_nth (set_nth v i (nth j v d)) j x).
Proof.
  intros Hi Hj Hij.
  apply (perm_transpose _ _ d i j).
  - now rewrite !set_nth_length.
  - now rewrite set_nth_length.
  - now rewrite set_nth_length.
  - rewrite (nth_set_nth_neq _ j i) by congruence. rewrite nth_set_nth_eq by assumption.
    rewrite nth_set_nth_neq by assumption. reflexivity.
  - rewrite nth_set_nth_eq by (rewrite set_nth_length; assumption).
    rewrite nth_set_nth_eq by assumption. reflexivity.
  - intros k Hk Hki Hkj. rewrite !nth_set_nth_neq by congruence. reflexivity.
Qed.

Definition par (i : nat) : nat := Nat.div (i - 1) 2.

Lemma par_lt i : (0 < i)%nat -> (par i < i)%nat.
Proof. unfold par. intros H. assert (((i - 1) / 2 <= i - 1)%nat) by (apply Nat.div_le_upper_bound; lia). lia. Qed.

Lemma par_children c p : (0 < c)%nat -> (par c = p <-> c = (2 * p + 1)%nat \/ c = (2 * p + 2)%nat).
Proof.
  unfold par. intros Hc.
  pose proof (Nat.div_mod (c - 1) 2 ltac:(lia)) as Hdm.
  pose proof (Nat.mod_upper_bound (c - 1) 2 ltac:(lia)) as Hm.
  split; intros H; [|destruct H as [-> | ->]].
  - lia.
  - replace (2 * p + 1 - 1)%nat with (p * 2)%nat by lia. now rewrite Nat.div_mul.
  - replace (2 * p + 2 - 1)%nat with (1 + p * 2)%nat by lia. rewrite Nat.div_add by lia. reflexivity.
Qed.

Section Heap.
  Variable key : segment -> Z.
  Variable P : segment -> Prop.
  (* on the elements we care about, the model's order is the reversed order of the keys *)
  Hypothesis seg_le_key : forall a b, P a -> P b -> seg_le a b = (key b <=? key a).
  Variable d : segment.

  Notation "v @ i" := (nth i v d) (at level 9).

  Definition heap_ok (v : list segment) : Prop :=
    forall i, (0 < i < length v)%nat -> key v@(par i) <= key v@i.

  (* heap with a hole at pos: all parent/child pairs that do not touch the hole are in order,
     and the parent of the hole is below the children of the hole *)
  Definition hole_ok (v : list segment) (pos : nat) : Prop :=
    (pos < length v)%nat /\
    (forall i, (0 < i < length v)%nat -> i <> pos -> par i <> pos -> key v@(par i) <= key v@i) /\
    (forall c, (0 < pos)%nat -> (0 < c < length v)%nat -> par c = pos -> key v@(par pos) <= key v@c).

  Lemma Forall_nth v i : Forall P v -> (i < length v)%nat -> P v@i.
  Proof. intros H Hi. rewrite Forall_forall in H. apply H, nth_In, Hi. Qed.

  (* ---------- sift_up ---------- *)
  Lemma sift_up_ok : forall fuel v pos x,
    hole_ok v pos -> (forall c, (0 < c < length v)%nat -> par c = pos -> key x <= key v@c) ->
    (pos < fuel)%nat -> Forall P v -> P x ->
    heap_ok (sift_up fuel v pos x) /\ Permutation (set_nth v pos x) (sift_up fuel v pos x).
  Proof.
    induction fuel as [|f IH]; intros v pos x (Hp & H1 & H2) Hx Hfuel HP Px; [lia|].
    assert (Hdone : (pos = 0%nat \/ key v@(par pos) <= key x) ->
                    heap_ok (set_nth v pos x) /\ Permutation (set_nth v pos x) (set_nth v pos x)).
    { intros Hcase. split; [|reflexivity]. intros i Hi. rewrite set_nth_length in Hi.
      destruct (Nat.eq_dec i pos) as [->|Hne].
      - rewrite nth_set_nth_eq by assumption.
        rewrite nth_set_nth_neq by (pose proof (par_lt pos); lia).
        destruct Hcase; [lia|assumption].
      - rewrite (nth_set_nth_neq v pos i) by congruence.
        destruct (Nat.eq_dec (par i) pos) as [Hpi|Hpi].
        + rewrite Hpi, nth_set_nth_eq by assumption. apply Hx; [lia|assumption].
        + rewrite nth_set_nth_neq by congruence. apply H1; assumption. }
    cbn [sift_up]. destruct pos as [|pos']; [apply Hdone; auto|].
    set (pos := Datatypes.S pos') in *. fold (par pos).
    pose proof (par_lt pos ltac:(lia)) as Hpl.
    rewrite get_or_nth. rewrite (nth_indep v x d) by lia.
    rewrite (seg_le_key x v@(par pos) Px (Forall_nth v (par pos) HP ltac:(lia))).
    destruct (key v@(par pos) <=? key x) eqn:Ecmp; [apply Hdone; right; lia|].
    assert (Hlt : key x < key v@(par pos)) by lia.
    set (p := v@(par pos)) in *. set (v' := set_nth v pos p).
    assert (Hv'len : length v' = length v) by apply set_nth_length.
    assert (Hv'pos : v'@pos = p) by (apply nth_set_nth_eq; assumption).
    assert (Hv'k : forall k, k <> pos -> v'@k = v@k) by (intros k Hk; apply nth_set_nth_neq; congruence).
    destruct (IH v' (par pos) x) as [Hok Hperm].
    - (* hole_ok v' (par pos) *)
      split; [lia|]. split.
      + intros i Hi Hne Hpne. rewrite Hv'len in Hi.
        destruct (Nat.eq_dec i pos) as [->|Hip]; [congruence|].
        rewrite (Hv'k i Hip).
        destruct (Nat.eq_dec (par i) pos) as [Hpi|Hpi].
        * rewrite Hpi, Hv'pos. apply H2; [lia|lia|assumption].
        * rewrite Hv'k by assumption. apply H1; assumption.
      + intros c Hpp Hc Hpc. rewrite Hv'len in Hc.
        assert (Hgp : key v@(par (par pos)) <= key p).
        { apply (H1 (par pos)); [lia|lia|pose proof (par_lt (par pos)); lia]. }
        rewrite Hv'k by (pose proof (par_lt (par pos)); lia).
        destruct (Nat.eq_dec c pos) as [->|Hcp]; [now rewrite Hv'pos|].
        rewrite Hv'k by assumption.
        assert (key p <= key v@c) by (unfold p; rewrite <- Hpc; apply H1; [lia|assumption|lia]).
        lia.
    - (* x below the children of the new hole *)
      intros c Hc Hpc. rewrite Hv'len in Hc.
      destruct (Nat.eq_dec c pos) as [->|Hcp]; [rewrite Hv'pos; lia|].
      rewrite Hv'k by assumption.
      assert (key p <= key v@c) by (unfold p; rewrite <- Hpc; apply H1; [lia|assumption|lia]).
      lia.
    - lia.
    - apply set_nth_Forall; [assumption|]. apply Forall_nth; [assumption|lia].
    - exact Px.
    - split; [exact Hok|].
      eapply Permutation_trans; [|exact Hperm].
      subst v' p. apply perm_move_hole; lia.
  Qed.

  (* ---------- sift_down_to_bottom ---------- *)
  Lemma sift_down_ok : forall fuel v pos x,
    hole_ok v pos -> (length v + 1 <= fuel + pos)%nat -> Forall P v ->
    let '(v1, pos1) := sift_down fuel v pos x in
    hole_ok v1 pos1 /\ (forall c, (0 < c < length v1)%nat -> par c <> pos1) /\
    Permutation (set_nth v pos x) (set_nth v1 pos1 x) /\ length v1 = length v /\ Forall P v1.
  Proof.
    induction fuel as [|f IH]; intros v pos x (Hp & H1 & H2) Hfuel HP; [lia|].
    cbn [sift_down]. set (n := length v) in *. set (child := (2 * pos + 1)%nat).
    destruct (Nat.leb child (n - 2) && Nat.leb 2 n) eqn:E2.
    - (* two children: move the one with the smaller key up *)
      assert (Hc2 : (child + 1 < n)%nat).
      { apply andb_prop in E2. destruct E2 as [A B]. apply Nat.leb_le in A, B. lia. }
      rewrite !get_or_nth. rewrite (nth_indep v x d (n:=child)) by lia.
      rewrite (nth_indep v x d (n:=Datatypes.S child)) by lia.
      rewrite (seg_le_key v@child v@(Datatypes.S child)) by (apply Forall_nth; [assumption|lia]).
      set (cc := if key v@(Datatypes.S child) <=? key v@child then Datatypes.S child else child).
      assert (Hcc : (cc = child \/ cc = Datatypes.S child) /\ (cc < n)%nat /\ par cc = pos /\
                    key v@cc <= key v@child /\ key v@cc <= key v@(Datatypes.S child)).
      { subst cc. destruct (key v@(Datatypes.S child) <=? key v@child) eqn:Ec.
        - splits; auto; try lia. apply par_children; lia.
        - splits; auto; try lia. apply par_children; lia. }
      destruct Hcc as (Hcase & Hccn & Hpcc & Hle1 & Hle2).
      rewrite (nth_indep v x d (n:=cc)) by lia.
      set (v' := set_nth v pos v@cc).
      assert (Hv'len : length v' = n) by apply set_nth_length.
      assert (Hv'pos : v'@pos = v@cc) by (apply nth_set_nth_eq; assumption).
      assert (Hv'k : forall k, k <> pos -> v'@k = v@k) by (intros k Hk; apply nth_set_nth_neq; congruence).
      assert (Hccpos : cc <> pos) by lia.
      specialize (IH v' cc x).
      destruct (sift_down f v' cc x) as [v1 pos1].
      destruct IH as (A1 & A2 & A3 & A4 & A5).
      + split; [lia|]. split.
        * intros i Hi Hne Hpne. rewrite Hv'len in Hi.
          destruct (Nat.eq_dec i pos) as [->|Hip].
          -- rewrite Hv'pos. rewrite Hv'k by (pose proof (par_lt pos); lia).
             apply H2; [lia|lia|assumption].
          -- rewrite (Hv'k i Hip). destruct (Nat.eq_dec (par i) pos) as [Hpi|Hpi].
             ++ rewrite Hpi, Hv'pos.
                assert (i = child \/ i = Datatypes.S child) by (apply par_children in Hpi; lia).
                destruct H as [-> | ->]; assumption.
             ++ rewrite Hv'k by assumption. apply H1; assumption.
        * intros c _ Hc Hpc. rewrite Hv'len in Hc. rewrite Hpcc, Hv'pos.
          assert (c <> pos) by (pose proof (par_lt c); lia).
          rewrite Hv'k by assumption. rewrite <- Hpc. apply H1; [lia|assumption|lia].
      + lia.
      + apply set_nth_Forall; [assumption|apply Forall_nth; assumption].
      + splits; auto; try lia.
        eapply Permutation_trans; [|exact A3]. subst v'. apply perm_move_hole; subst n; lia.
    - destruct (Nat.eqb child (n - 1) && Nat.leb 1 n) eqn:E1.
      + (* a single child: move it up, the hole is the last position *)
        assert (Hc1 : (child = n - 1)%nat /\ (1 <= n)%nat).
        { apply andb_prop in E1. destruct E1 as [A B]. apply Nat.eqb_eq in A. apply Nat.leb_le in B. auto. }
        destruct Hc1 as [Hce Hn1].
        rewrite get_or_nth. rewrite (nth_indep v x d) by lia.
        set (v' := set_nth v pos v@child).
        assert (Hv'len : length v' = n) by apply set_nth_length.
        assert (Hv'pos : v'@pos = v@child) by (apply nth_set_nth_eq; assumption).
        assert (Hv'k : forall k, k <> pos -> v'@k = v@k) by (intros k Hk; apply nth_set_nth_neq; congruence).
        assert (Hpc : par child = pos) by (apply par_children; lia).
        splits.
        * split; [lia|]. split.
          -- intros i Hi Hne Hpne. rewrite Hv'len in Hi.
             destruct (Nat.eq_dec i pos) as [->|Hip].
             ++ rewrite Hv'pos. rewrite Hv'k by (pose proof (par_lt pos); lia).
                apply H2; [lia|lia|assumption].
             ++ rewrite (Hv'k i Hip). destruct (Nat.eq_dec (par i) pos) as [Hpi|Hpi].
                ** apply par_children in Hpi; lia.
                ** rewrite Hv'k by assumption. apply H1; assumption.
          -- intros c _ Hc Hpc'. rewrite Hv'len in Hc. apply par_children in Hpc'; lia.
        * intros c Hc Hpc'. rewrite Hv'len in Hc. apply par_children in Hpc'; lia.
        * subst v'. apply perm_move_hole; lia.
        * exact Hv'len.
        * apply set_nth_Forall; [assumption|apply Forall_nth; [assumption|lia]].
      + (* no child *)
        assert (Hnc : (n <= child)%nat).
        { destruct (Nat.leb_spec child (n - 2)), (Nat.leb_spec 2 n), (Nat.eqb_spec child (n - 1)), (Nat.leb_spec 1 n);
            cbn in E2, E1; try discriminate; lia. }
        splits; auto.
        * split; [assumption|]. split; assumption.
        * intros c Hc Hpc. apply par_children in Hpc; lia.
  Qed.

  (* ---------- the minimum is at the root ---------- *)
  Lemma heap_root_min v : heap_ok v -> forall i, (i < length v)%nat -> key v@0 <= key v@i.
  Proof.
    intros H i. induction i as [i IH] using lt_wf_ind. intros Hi.
    destruct i as [|i']; [lia|].
    pose proof (par_lt (Datatypes.S i') ltac:(lia)) as Hp.
    specialize (IH (par (Datatypes.S i')) Hp ltac:(lia)).
    specialize (H (Datatypes.S i') ltac:(lia)). lia.
  Qed.

  (* ---------- push ---------- *)
  Theorem heap_push_ok v x : heap_ok v -> Forall P v -> P x ->
    heap_ok (heap_push v x) /\ Permutation (x :: v) (heap_push v x).
  Proof.
    intros Hok HP Px. unfold heap_push.
    destruct (sift_up_ok (Datatypes.S (length v)) (v ++ [x]) (length v) x) as [A B].
    - split; [rewrite app_length; cbn; lia|]. split.
      + intros i Hi Hne Hpne. rewrite app_length in Hi. cbn in Hi.
        pose proof (par_lt i ltac:(lia)). rewrite !app_nth1 by lia. apply Hok. lia.
      + intros c _ Hc Hpc. rewrite app_length in Hc. cbn in Hc. apply par_children in Hpc; lia.
    - intros c Hc Hpc. rewrite app_length in Hc. cbn in Hc. apply par_children in Hpc; lia.
    - lia.
    - apply Forall_app. split; [assumption|constructor; [assumption|constructor]].
    - exact Px.
    - split; [exact A|]. eapply Permutation_trans; [|exact B].
      rewrite set_nth_app_last. apply Permutation_cons_append.
  Qed.

  (* ---------- pop ---------- *)
  Lemma heap_ok_prefix v y : heap_ok (v ++ [y]) -> heap_ok v.
  Proof.
    intros H i Hi. specialize (H i). rewrite app_length in H. cbn [length] in H.
    pose proof (par_lt i ltac:(lia)). rewrite !app_nth1 in H by lia. apply H. lia.
  Qed.

  Theorem heap_pop_ok v m rest : heap_ok v -> Forall P v -> heap_pop v = Some (m, rest) ->
    (forall y, In y v -> key m <= key y) /\ Permutation v (m :: rest) /\ heap_ok rest.
  Proof.
    intros Hok HP. unfold heap_pop.
    destruct (rev v) as [|last rinit] eqn:Er; [discriminate|].
    assert (Ev : v = rev rinit ++ [last]).
    { apply (f_equal (@rev _)) in Er. rewrite rev_involutive in Er. exact Er. }
    set (init := rev rinit) in *.
    assert (HPi : Forall P init /\ P last).
    { rewrite Ev in HP. apply Forall_app in HP. destruct HP as [A B]. inversion B; auto. }
    destruct HPi as [HPi Plast].
    assert (Hmin : forall y, In y v -> key v@0 <= key y).
    { intros y Hy. destruct (In_nth v y d Hy) as (i & Hi & <-). apply heap_root_min; assumption. }
    destruct init as [|top tl] eqn:Einit.
    - intros [= <- <-]. rewrite Ev in *. cbn [app] in *. splits.
      + exact Hmin.
      + reflexivity.
      + intros i Hi. cbn in Hi. lia.
    - assert (Hoki : heap_ok (top :: tl)) by (apply (heap_ok_prefix _ last); rewrite <- Ev; exact Hok).
      remember (Datatypes.S (length (top :: tl))) as fuel eqn:Hfuel.
      pose proof (sift_down_ok fuel (top :: tl) 0%nat last) as Hsd.
      destruct (sift_down fuel (top :: tl) 0%nat last) as [v1 pos1].
      destruct Hsd as (A1 & A2 & A3 & A4 & A5).
      + split; [cbn; lia|]. split.
        * intros i Hi _ _. apply Hoki. exact Hi.
        * intros c Hpos. lia.
      + lia.
      + exact HPi.
      + intros [= <- <-].
        destruct (sift_up_ok fuel v1 pos1 last A1) as [B1 B2].
        * intros c Hc Hpc. exfalso. apply (A2 c Hc Hpc).
        * destruct A1 as [A1 _]. rewrite A4 in A1. cbn [length] in *. lia.
        * exact A5.
        * exact Plast.
        * splits.
          -- intros y Hy. specialize (Hmin y Hy). rewrite Ev in Hmin at 1. cbn [app nth] in Hmin. exact Hmin.
          -- rewrite Ev. cbn [app]. constructor.
             eapply Permutation_trans; [|exact B2]. eapply Permutation_trans; [|exact A3].
             cbn [set_nth]. symmetry. apply Permutation_cons_append.
          -- exact B1.
  Qed.
End Heap.

(* ---------- the model's order ---------- *)
Definition seg_key (base : Z) (s : segment) : Z := wsub (h_seq (s_hdr s)) base.
(* the sequence number lies less than 2^31 after base *)
Definition in_range (base : Z) (s : segment) : Prop := seg_key base s < H31.
Definition seg0 : segment := mkSeg (mkHdr 0 0 0 0 ctl0 0 0) [].

(* every child is <= its parent in the model's (reversed circular) order *)
Definition heap_ordered (v : list segment) : Prop :=
  forall i, (0 < i < length v)%nat -> seg_le (nth i v seg0) (nth (par i) v seg0) = true.

Lemma seg_le_in_range base a b : in_range base a -> in_range base b ->
  seg_le a b = (seg_key base b <=? seg_key base a).
Proof.
  unfold in_range, seg_key, seg_le, mod_lt. rewrite !wsub_spec. unfold H31, M32. intros Ha Hb.
  destruct (h_seq (s_hdr a) =? h_seq (s_hdr b)) eqn:E.
  - apply Z.eqb_eq in E. rewrite E. lia.
  - lia.
Qed.

Lemma heap_ordered_ok base v : Forall (in_range base) v ->
  (heap_ordered v <-> heap_ok (seg_key base) seg0 v).
Proof.
  intros HP. unfold heap_ordered, heap_ok. split; intros H i Hi; specialize (H i Hi).
  - rewrite (seg_le_in_range base) in H by (apply (Forall_nth (in_range base)); [assumption|pose proof (par_lt i); lia]). lia.
  - rewrite (seg_le_in_range base) by (apply (Forall_nth (in_range base)); [assumption|pose proof (par_lt i); lia]). lia.
Qed.

Lemma heap_ordered_nil : heap_ordered [].
Proof. intros i Hi. cbn in Hi. lia. Qed.

Theorem heap_push_ordered base v x :
  Forall (in_range base) (x :: v) -> heap_ordered v ->
  heap_ordered (heap_push v x) /\ Permutation (x :: v) (heap_push v x).
Proof.
  intros HP Hv. inversion HP as [|? ? Px Pv]; subst.
  destruct (heap_push_ok (seg_key base) (in_range base) (seg_le_in_range base) seg0 v x) as [A B]; try assumption.
  - apply (heap_ordered_ok base); assumption.
  - split; [|exact B]. apply (heap_ordered_ok base); [|exact A].
    eapply Permutation_Forall; [exact B|exact HP].
Qed.

Theorem heap_pop_ordered base v m rest :
  Forall (in_range base) v -> heap_ordered v -> heap_pop v = Some (m, rest) ->
  (forall y, In y v -> seg_le y m = true /\ seg_key base m <= seg_key base y) /\
  Permutation v (m :: rest) /\ heap_ordered rest.
Proof.
  intros HP Hv Hpop.
  destruct (heap_pop_ok (seg_key base) (in_range base) (seg_le_in_range base) seg0 v m rest) as (A & B & C); try assumption.
  - apply (heap_ordered_ok base); assumption.
  - assert (HPm : Forall (in_range base) (m :: rest)) by (eapply Permutation_Forall; [exact B|exact HP]).
    inversion HPm as [|? ? Pm Prest]; subst.
    split; [|split; [exact B|]].
    + intros y Hy. split; [|apply A, Hy].
      rewrite (seg_le_in_range base); [|rewrite Forall_forall in HP; apply HP, Hy|exact Pm].
      specialize (A y Hy). lia.
    + apply (heap_ordered_ok base); assumption.
Qed.

Lemma heap_pop_none v : heap_pop v = None <-> v = [].
Proof.
  split; [|intros ->; reflexivity]. destruct v as [|a r]; [reflexivity|].
  intros H. exfalso. eapply heap_pop_nonempty; [|exact H]. reflexivity.
Qed.

Lemma heap_pop_min_explicit : forall (base : Z) (v : list segment) (m : segment) (rest : list segment),
  Forall (in_range base) v -> heap_ordered v -> heap_pop v = Some (m, rest) ->
  (forall y, In y v -> seg_le y m = true /\ seg_key base m <= seg_key base y) /\
  heap_ordered rest.
Proof.
  intros base v m rest H1 H2 H3. destruct (heap_pop_ordered base v m rest H1 H2 H3) as (A & _ & C). auto.
Qed.

Lemma heap_multiset_explicit : forall (base : Z) (v : list segment),
  Forall (in_range base) v -> heap_ordered v ->
  match heap_pop v with
  | Some (m, rest) => Permutation v (m :: rest)
  | None => v = []
  end.
Proof.
  intros base v H1 H2. destruct (heap_pop v) as [[m rest]|] eqn:E.
  - apply (heap_pop_ordered base v m rest H1 H2 E).
  - apply heap_pop_none, E.
Qed.
