(* Facts about Model/Router.v: per-hop behaviour of ArpRouter::demux, trajectories through
   arbitrary topologies (TTL is a measure: every trajectory is finite, loops and black holes
   fall silent), the path is the one the tables define, and soundness of the trace validator. *)
From Coq Require Import NArith ZifyBool Lia.
From Elvis Require Import Model.Base Model.Subnet Model.IpTable Model.Router
     Proofs.SubnetFacts Proofs.IpTableFacts.
Local Open Scope N_scope.

(* ------------------------------------------------------------------ one hop *)

(* everything except the TTL *)
Definition same_but_ttl (p q : pkt) : Prop :=
  p_src q = p_src p /\ p_dst q = p_dst p /\ p_tos q = p_tos p /\ p_totlen q = p_totlen p /\
  p_ident q = p_ident p /\ p_flags q = p_flags p /\ p_frag q = p_frag p /\
  p_proto q = p_proto p /\ p_body q = p_body p.

Lemma same_but_ttl_refl p : same_but_ttl p p.
Proof. repeat split. Qed.

Lemma same_but_ttl_trans p q s : same_but_ttl p q -> same_but_ttl q s -> same_but_ttl p s.
Proof.
  unfold same_but_ttl. intros H1 H2.
  destruct H1 as (a1 & a2 & a3 & a4 & a5 & a6 & a7 & a8 & a9).
  destruct H2 as (b1 & b2 & b3 & b4 & b5 & b6 & b7 & b8 & b9).
  repeat split; congruence.
Qed.

Lemma same_but_ttl_set p t : same_but_ttl p (set_ttl p t).
Proof. repeat split. Qed.

Lemma reserialize_ok p q : reserialize p = Ok q -> q = p.
Proof.
  unfold reserialize. intros H.
  destruct (p_totlen p <? 20); [discriminate |].
  destruct (8191 <? p_frag p); [discriminate |].
  congruence.
Qed.

(* header fields as Ipv4Header::from_bytes produces them *)
Definition wf_pkt (p : pkt) : Prop := 20 <= p_totlen p /\ p_frag p <= 8191.

Lemma reserialize_wf p : wf_pkt p -> reserialize p = Ok p.
Proof.
  unfold wf_pkt, reserialize. intros [A B].
  destruct (p_totlen p <? 20) eqn:E1; [lia |].
  destruct (8191 <? p_frag p) eqn:E2; [lia |]. reflexivity.
Qed.

Definition next_hop_of (gw : option N) (dst : N) : N :=
  match gw with Some a => a | None => dst end.

Lemma route_step_forward r p slot nh p' :
  route_step r p = Ok (AForward slot nh p') ->
  2 <= p_ttl p /\ p' = set_ttl p (p_ttl p - 1) /\
  exists gw, get_recipient (r_table r) (p_dst p) = Some (gw, slot) /\
             nh = next_hop_of gw (p_dst p) /\
             slot < lenN (r_local_ips r) /\ slot < lenN (r_mtus r).
Proof.
  unfold route_step. intros H.
  destruct (p_ttl p =? 0) eqn:E0; [discriminate |].
  destruct (p_ttl p - 1 =? 0) eqn:E1; [discriminate |].
  destruct (reserialize (set_ttl p (p_ttl p - 1))) as [q | | |] eqn:ER; cbn [bind] in H;
    try discriminate.
  apply reserialize_ok in ER. subst q.
  cbn [p_dst set_ttl] in H.
  destruct (get_recipient (r_table r) (p_dst p)) as [[gw s] |] eqn:EG; [| discriminate].
  destruct (lenN (r_local_ips r) <=? s) eqn:E2; [discriminate |].
  destruct (lenN (r_mtus r) <=? s) eqn:E3; [discriminate |].
  inversion H; subst. clear H.
  split; [lia |]. split; [reflexivity |].
  exists gw. split; [reflexivity |]. split; [reflexivity |]. lia.
Qed.

Lemma route_step_ttl0 r p : p_ttl p = 0 -> route_step r p = Panic site_ttl_sub.
Proof. unfold route_step. intros ->. reflexivity. Qed.

Lemma route_step_ttl1 r p : p_ttl p = 1 -> route_step r p = Ok ADrop.
Proof. unfold route_step. intros ->. reflexivity. Qed.

Lemma route_step_drop r p : route_step r p = Ok ADrop -> p_ttl p = 1.
Proof.
  unfold route_step. intros H.
  destruct (p_ttl p =? 0) eqn:E0; [discriminate |].
  destruct (p_ttl p - 1 =? 0) eqn:E1; [lia |].
  destruct (reserialize (set_ttl p (p_ttl p - 1))) as [q | | |]; cbn [bind] in H;
    try discriminate.
  destruct (get_recipient (r_table r) (p_dst q)) as [[gw s] |]; [| discriminate].
  destruct (lenN (r_local_ips r) <=? s); [discriminate |].
  destruct (lenN (r_mtus r) <=? s); discriminate.
Qed.

Lemma route_step_no_fuel r p : route_step r p <> OutOfFuel.
Proof.
  unfold route_step. intros H.
  destruct (p_ttl p =? 0); [discriminate |].
  destruct (p_ttl p - 1 =? 0); [discriminate |].
  unfold reserialize in H.
  destruct (p_totlen (set_ttl p (p_ttl p - 1)) <? 20); [discriminate |].
  destruct (8191 <? p_frag (set_ttl p (p_ttl p - 1))); [discriminate |].
  cbn [bind] in H.
  destruct (get_recipient (r_table r) (p_dst (set_ttl p (p_ttl p - 1)))) as [[gw s] |];
    [| discriminate].
  destruct (lenN (r_local_ips r) <=? s); [discriminate |].
  destruct (lenN (r_mtus r) <=? s); discriminate.
Qed.

(* a missing route is an error value, and (for parsed headers) the only one *)
Lemma route_step_err r p e : wf_pkt p -> route_step r p = Err e ->
  2 <= p_ttl p /\ get_recipient (r_table r) (p_dst p) = None.
Proof.
  unfold route_step. intros W H.
  destruct (p_ttl p =? 0) eqn:E0; [discriminate |].
  destruct (p_ttl p - 1 =? 0) eqn:E1; [discriminate |].
  rewrite reserialize_wf in H by exact W. cbn [bind p_dst set_ttl] in H.
  destruct (get_recipient (r_table r) (p_dst p)) as [[gw s] |]; [| clear H; split; [lia | reflexivity]].
  destruct (lenN (r_local_ips r) <=? s); [discriminate |].
  destruct (lenN (r_mtus r) <=? s); discriminate.
Qed.

Lemma route_step_missing r p : wf_pkt p -> 2 <= p_ttl p ->
  get_recipient (r_table r) (p_dst p) = None -> route_step r p = Err err_no_route.
Proof.
  unfold route_step. intros W T G.
  destruct (p_ttl p =? 0) eqn:E0; [lia |].
  destruct (p_ttl p - 1 =? 0) eqn:E1; [lia |].
  rewrite reserialize_wf by exact W. cbn [bind p_dst set_ttl]. rewrite G. reflexivity.
Qed.

Lemma send_step_cases r slot p :
  send_step r slot p = Ok p \/ exists s, send_step r slot p = Panic s.
Proof.
  unfold send_step. destruct (nthN (r_mtus r) slot) as [m |]; [| right; eauto].
  destruct (m <? wire_len p); [right; eauto | left; reflexivity].
Qed.

Lemma send_step_ok r slot p q : send_step r slot p = Ok q ->
  q = p /\ exists m, nthN (r_mtus r) slot = Some m /\ wire_len p <= m.
Proof.
  unfold send_step. destruct (nthN (r_mtus r) slot) as [m |]; [| discriminate].
  destruct (m <? wire_len p) eqn:E; [discriminate |].
  intros H. inversion H; subst. split; [reflexivity |]. exists m. split; [reflexivity | lia].
Qed.

(* a hop emits at most one frame *)
Lemma hop_out_le1 r resolves p : (length (hop_out r resolves p) <= 1)%nat.
Proof.
  unfold hop_out. destruct (route_step r p) as [[| slot nh p'] | | |]; cbn [length]; try lia.
  destruct (resolves slot nh); cbn [length]; [| lia].
  destruct (send_step r slot p'); cbn [length]; lia.
Qed.

(* ... and that frame is the received datagram with the TTL one lower, nothing else changed *)
Lemma hop_out_spec r resolves p slot nh q : In (slot, nh, q) (hop_out r resolves p) ->
  p_ttl q + 1 = p_ttl p /\ 1 <= p_ttl q /\ same_but_ttl p q /\
  exists gw, get_recipient (r_table r) (p_dst p) = Some (gw, slot) /\
             nh = next_hop_of gw (p_dst p).
Proof.
  unfold hop_out. intros Hin.
  destruct (route_step r p) as [[| s n p'] | | |] eqn:ER; try (destruct Hin; fail).
  destruct (resolves s n); [| destruct Hin].
  destruct (send_step r s p') as [q' | | |] eqn:ES; try (destruct Hin; fail).
  destruct Hin as [H | []]. inversion H; subst. clear H.
  apply route_step_forward in ER. destruct ER as (T & -> & gw & G & -> & _ & _).
  apply send_step_ok in ES. destruct ES as (-> & _).
  cbn [p_ttl set_ttl]. split; [lia |]. split; [lia |].
  split; [apply same_but_ttl_set |]. exists gw. split; [exact G | reflexivity].
Qed.

(* ------------------------------------------------------------------ trajectories *)
Section TrajFacts.
  Variable routers : N -> router.
  Variable accepts : N -> N -> bool.
  Variable topo : nat -> N -> N -> N -> option node.

  Notation traj := (traj routers accepts topo).
  Notation trajectory := (trajectory routers accepts topo).

  (* unfolding of one router step that forwards *)
  Lemma traj_router_inv f k r p l e :
    traj (S f) k (NRouter r) p = (l, e) ->
    (l = [] /\ (e = EFuel \/ e = ETtl r \/ e = ENoRoute r \/ e = ENoArp r \/ exists s, e = EPanic r s)) \/
    exists slot nh p' n' l',
      route_step (routers r) p = Ok (AForward slot nh p') /\
      topo k r slot nh = Some n' /\
      send_step (routers r) slot p' = Ok p' /\
      traj f (S k) n' p' = (l', e) /\ l = mkHop r slot nh n' p' :: l'.
  Proof.
    cbn [Router.traj]. intros H.
    destruct (route_step (routers r) p) as [[| slot nh p'] | | |] eqn:ER.
    - left. inversion H. split; [reflexivity |]. right. left. reflexivity.
    - destruct (topo k r slot nh) as [n' |] eqn:ET.
      + destruct (send_step_cases (routers r) slot p') as [ES | [s ES]]; rewrite ES in H.
        * destruct (traj f (S k) n' p') as [l' e'] eqn:EJ. inversion H; subst.
          right. exists slot, nh, p', n', l'. repeat split; assumption.
        * left. inversion H. split; [reflexivity |]. right. right. right. right. eauto.
      + left. inversion H. split; [reflexivity |]. right. right. right. left. reflexivity.
    - left. inversion H. split; [reflexivity |]. right. right. left. reflexivity.
    - left. inversion H. split; [reflexivity |]. right. right. right. right. eauto.
    - left. inversion H. split; [reflexivity |]. left. reflexivity.
  Qed.

  Lemma traj_host f k h p : traj (S f) k (NHost h) p =
    if accepts h (p_dst p) then ([], EDelivered h) else ([], EHostDrop h).
  Proof. reflexivity. Qed.

  (* TTL is a measure: the number of forwarded frames is below the TTL at the start *)
  Lemma traj_len : forall f k at_ p l e, traj f k at_ p = (l, e) ->
    N.of_nat (length l) <= p_ttl p - 1.
  Proof.
    induction f as [| f IH]; intros k at_ p l e H.
    - cbn in H. inversion H. cbn. lia.
    - destruct at_ as [r | h].
      + apply traj_router_inv in H.
        destruct H as [[-> _] | (slot & nh & p' & n' & l' & ER & _ & _ & EJ & ->)].
        * cbn. lia.
        * apply route_step_forward in ER. destruct ER as (T & -> & _).
          apply IH in EJ. cbn [p_ttl set_ttl] in EJ. cbn [length]. lia.
      + rewrite traj_host in H. destruct (accepts h (p_dst p)); inversion H; cbn; lia.
  Qed.

  (* each hop decrements by one: the i-th forwarded frame carries TTL - (i+1) *)
  Lemma traj_ttl : forall f k at_ p l e, traj f k at_ p = (l, e) ->
    forall i h, nth_error l i = Some h -> p_ttl (ho_pkt h) + N.of_nat (S i) = p_ttl p.
  Proof.
    induction f as [| f IH]; intros k at_ p l e H i h Hi.
    - cbn in H. inversion H; subst. destruct i; discriminate.
    - destruct at_ as [r | hh].
      + apply traj_router_inv in H.
        destruct H as [[-> _] | (slot & nh & p' & n' & l' & ER & _ & _ & EJ & ->)].
        * destruct i; discriminate.
        * apply route_step_forward in ER. destruct ER as (T & -> & _).
          destruct i as [| i].
          -- cbn in Hi. inversion Hi; subst. cbn [ho_pkt p_ttl set_ttl]. lia.
          -- cbn [nth_error] in Hi. pose proof (IH _ _ _ _ _ EJ i h Hi) as X.
             cbn [p_ttl set_ttl] in X. lia.
      + rewrite traj_host in H. destruct (accepts hh (p_dst p)); inversion H; subst;
          destruct i; discriminate.
  Qed.

  Lemma traj_ttl_pos : forall f k at_ p l e, traj f k at_ p = (l, e) ->
    forall h, In h l -> 1 <= p_ttl (ho_pkt h).
  Proof.
    induction f as [| f IH]; intros k at_ p l e H h Hin.
    - cbn in H. inversion H; subst. destruct Hin.
    - destruct at_ as [r | hh].
      + apply traj_router_inv in H.
        destruct H as [[-> _] | (slot & nh & p' & n' & l' & ER & _ & _ & EJ & ->)].
        * destruct Hin.
        * apply route_step_forward in ER. destruct ER as (T & -> & _).
          destruct Hin as [<- | Hin].
          -- cbn [ho_pkt p_ttl set_ttl]. lia.
          -- exact (IH _ _ _ _ _ EJ h Hin).
      + rewrite traj_host in H. destruct (accepts hh (p_dst p)); inversion H; subst;
          destruct Hin.
  Qed.

  (* nothing but the TTL changes on the way *)
  Lemma traj_same : forall f k at_ p l e, traj f k at_ p = (l, e) ->
    forall h, In h l -> same_but_ttl p (ho_pkt h).
  Proof.
    induction f as [| f IH]; intros k at_ p l e H h Hin.
    - cbn in H. inversion H; subst. destruct Hin.
    - destruct at_ as [r | hh].
      + apply traj_router_inv in H.
        destruct H as [[-> _] | (slot & nh & p' & n' & l' & ER & _ & _ & EJ & ->)].
        * destruct Hin.
        * apply route_step_forward in ER. destruct ER as (T & -> & _).
          destruct Hin as [<- | Hin].
          -- cbn [ho_pkt]. apply same_but_ttl_set.
          -- eapply same_but_ttl_trans; [apply same_but_ttl_set | exact (IH _ _ _ _ _ EJ h Hin)].
      + rewrite traj_host in H. destruct (accepts hh (p_dst p)); inversion H; subst;
          destruct Hin.
  Qed.

  (* enough fuel: the model artefact never shows *)
  Lemma traj_no_fuel : forall f k at_ p, (N.to_nat (p_ttl p) < f)%nat ->
    snd (traj f k at_ p) <> EFuel.
  Proof.
    induction f as [| f IH]; intros k at_ p Hf; [lia |].
    destruct (traj (S f) k at_ p) as [l e] eqn:H. cbn [snd].
    destruct at_ as [r | hh].
    - pose proof H as H0. cbn [Router.traj] in H0.
      destruct (route_step (routers r) p) as [[| slot nh p'] | | |] eqn:ER.
      + inversion H0. discriminate.
      + destruct (topo k r slot nh) as [n' |].
        * destruct (send_step_cases (routers r) slot p') as [ES | [s ES]]; rewrite ES in H0.
          -- apply route_step_forward in ER. destruct ER as (T & -> & _).
             specialize (IH (S k) n' (set_ttl p (p_ttl p - 1))).
             destruct (traj f (S k) n' (set_ttl p (p_ttl p - 1))) as [l' e'].
             inversion H0; subst. cbn [snd] in IH. apply IH. cbn [p_ttl set_ttl]. lia.
          -- inversion H0. discriminate.
        * inversion H0. discriminate.
      + inversion H0. discriminate.
      + inversion H0. discriminate.
      + exfalso. exact (route_step_no_fuel _ _ ER).
    - rewrite traj_host in H. destruct (accepts hh (p_dst p)); inversion H; discriminate.
  Qed.

  (* ---------------- the path is the one the tables define *)
  (* the table part of a hop: slot and next hop are what the lookup of the destination yields *)
  Definition hop_ok (dst : N) (h : hopobs) : Prop :=
    exists gw, get_recipient (r_table (routers (ho_router h))) dst = Some (gw, ho_slot h) /\
               ho_nh h = next_hop_of gw dst.

  (* the topology part: the k-th frame is sent by the node that received the previous one, to the
     node that answers (at that moment) for the next hop on the outgoing slot *)
  Fixpoint chain (k : nat) (at_ : node) (l : list hopobs) : Prop :=
    match l with
    | [] => True
    | h :: r => at_ = NRouter (ho_router h) /\
                topo k (ho_router h) (ho_slot h) (ho_nh h) = Some (ho_to h) /\
                chain (S k) (ho_to h) r
    end.

  Definition last_node (start : node) (l : list hopobs) : node :=
    last (map ho_to l) start.

  Lemma last_cons_default {A} : forall (l : list A) (a d : A), last (a :: l) d = last l a.
  Proof.
    induction l as [| x l IH]; intros a d; [reflexivity |].
    change (last (a :: x :: l) d) with (last (x :: l) d).
    rewrite (IH x d), (IH x a). reflexivity.
  Qed.

  Lemma last_node_cons start h l : last_node start (h :: l) = last_node (ho_to h) l.
  Proof. unfold last_node. cbn [map]. apply last_cons_default. Qed.

  Lemma traj_chain : forall f k at_ p l e, traj f k at_ p = (l, e) ->
    chain k at_ l /\ Forall (hop_ok (p_dst p)) l.
  Proof.
    induction f as [| f IH]; intros k at_ p l e H.
    - cbn in H. inversion H. split; [exact I | constructor].
    - destruct at_ as [r | hh].
      + apply traj_router_inv in H.
        destruct H as [[-> _] | (slot & nh & p' & n' & l' & ER & ET & _ & EJ & ->)].
        * split; [exact I | constructor].
        * apply route_step_forward in ER. destruct ER as (T & -> & gw & G & -> & _ & _).
          destruct (IH _ _ _ _ _ EJ) as [C F]. cbn [p_dst set_ttl] in F.
          split.
          -- cbn [chain ho_router ho_to ho_slot ho_nh].
             split; [reflexivity |]. split; [exact ET | exact C].
          -- constructor; [| exact F].
             exists gw. cbn [ho_router ho_slot ho_nh]. split; [exact G | reflexivity].
      + rewrite traj_host in H. destruct (accepts hh (p_dst p)); inversion H;
          (split; [exact I | constructor]).
  Qed.

  (* where and why the trajectory ends *)
  Definition ttl_at_end (p : pkt) (l : list hopobs) : N := p_ttl p - N.of_nat (length l).

  Definition ending_ok (k : nat) (start : node) (p : pkt) (l : list hopobs) (e : ending) : Prop :=
    match e with
    | EDelivered h => last_node start l = NHost h /\ accepts h (p_dst p) = true
    | EHostDrop h => last_node start l = NHost h /\ accepts h (p_dst p) = false
    | ETtl r => last_node start l = NRouter r /\ ttl_at_end p l = 1
    | ENoRoute r => last_node start l = NRouter r /\ 2 <= ttl_at_end p l /\
                    get_recipient (r_table (routers r)) (p_dst p) = None
    | ENoArp r => last_node start l = NRouter r /\ 2 <= ttl_at_end p l /\
                  exists gw slot, get_recipient (r_table (routers r)) (p_dst p) = Some (gw, slot) /\
                                  topo (k + length l)%nat r slot (next_hop_of gw (p_dst p)) = None
    | EPanic r _ => last_node start l = NRouter r
    | EFuel => True
    end.

  Lemma traj_ending : forall f k at_ p l e, wf_pkt p -> traj f k at_ p = (l, e) ->
    ending_ok k at_ p l e.
  Proof.
    induction f as [| f IH]; intros k at_ p l e W H.
    - cbn in H. inversion H. exact I.
    - destruct at_ as [r | hh].
      + pose proof H as H0. cbn [Router.traj] in H0.
        destruct (route_step (routers r) p) as [[| slot nh p'] | er | s |] eqn:ER.
        * inversion H0; subst. cbn. split; [reflexivity |].
          apply route_step_drop in ER. unfold ttl_at_end. cbn. lia.
        * destruct (topo k r slot nh) as [n' |] eqn:ET.
          -- destruct (send_step_cases (routers r) slot p') as [ES | [s ES]]; rewrite ES in H0.
             ++ destruct (traj f (S k) n' p') as [l' e'] eqn:EJ. inversion H0; subst.
                apply route_step_forward in ER. destruct ER as (T & -> & gw & G & -> & _ & _).
                assert (W' : wf_pkt (set_ttl p (p_ttl p - 1))) by exact W.
                pose proof (IH _ _ _ _ _ W' EJ) as X.
                pose proof (traj_len _ _ _ _ _ _ EJ) as L. cbn [p_ttl set_ttl] in L.
                unfold ending_ok in *. rewrite last_node_cons. cbn [ho_to].
                unfold ttl_at_end in *. cbn [length p_ttl p_dst set_ttl] in *.
                replace (k + S (length l'))%nat with (S k + length l')%nat by lia.
                destruct e; try exact X; try (destruct X as [X1 X2]; split; [exact X1 |]).
                ** lia.
                ** destruct X2 as [X2 X3]. split; [lia | exact X3].
                ** destruct X2 as [X2 X3]. split; [lia | exact X3].
             ++ inversion H0; subst. reflexivity.
          -- inversion H0; subst. cbn.
             apply route_step_forward in ER. destruct ER as (T & -> & gw & G & -> & _ & _).
             split; [reflexivity |]. split; [unfold ttl_at_end; cbn; lia |].
             exists gw, slot. replace (k + 0)%nat with k by lia. split; assumption.
        * inversion H0; subst. cbn.
          destruct (route_step_err _ _ _ W ER) as [T G].
          split; [reflexivity |]. split; [unfold ttl_at_end; cbn; lia | exact G].
        * inversion H0; subst. reflexivity.
        * inversion H0; subst. exact I.
      + rewrite traj_host in H. destruct (accepts hh (p_dst p)) eqn:E; inversion H; subst; cbn.
        * split; [reflexivity | exact E].
        * split; [reflexivity | exact E].
  Qed.

  (* ---------------- statements about [trajectory] *)
  Lemma bounded start p : forall l e, trajectory start p = (l, e) ->
    (length l <= N.to_nat (p_ttl p))%nat /\ (1 <= p_ttl p -> (S (length l) <= N.to_nat (p_ttl p))%nat).
  Proof.
    unfold Router.trajectory. intros l e H. apply traj_len in H. lia.
  Qed.

  Lemma never_out_of_fuel start p : snd (trajectory start p) <> EFuel.
  Proof. unfold Router.trajectory. apply traj_no_fuel. lia. Qed.

  Lemma ttl_decrements start p l e : trajectory start p = (l, e) ->
    forall i h, nth_error l i = Some h ->
      p_ttl (ho_pkt h) + N.of_nat (S i) = p_ttl p /\ 1 <= p_ttl (ho_pkt h).
  Proof.
    unfold Router.trajectory. intros H i h Hi. split.
    - exact (traj_ttl _ _ _ _ _ _ H i h Hi).
    - apply (traj_ttl_pos _ _ _ _ _ _ H). eapply nth_error_In; exact Hi.
  Qed.

  (* forwarding never multiplies: no two frames of a trajectory carry the same TTL *)
  Lemma no_dup_ttl start p l e : trajectory start p = (l, e) ->
    NoDup (map (fun h => p_ttl (ho_pkt h)) l).
  Proof.
    intros H. apply (proj2 (NoDup_nth_error _)). intros i j Hi E.
    rewrite map_length in Hi.
    rewrite !nth_error_map in E.
    destruct (nth_error l i) as [hi |] eqn:Ei; [| apply nth_error_None in Ei; lia].
    destruct (nth_error l j) as [hj |] eqn:Ej; [| discriminate].
    cbn in E. inversion E as [E'].
    destruct (ttl_decrements _ _ _ _ H i hi Ei) as [A _].
    destruct (ttl_decrements _ _ _ _ H j hj Ej) as [B _]. lia.
  Qed.

  Lemma payload_unchanged start p l e : trajectory start p = (l, e) ->
    forall h, In h l -> same_but_ttl p (ho_pkt h).
  Proof. unfold Router.trajectory. intros H. exact (traj_same _ _ _ _ _ _ H). Qed.

  Lemma follows_route start p l e : wf_pkt p -> trajectory start p = (l, e) ->
    chain O start l /\ Forall (hop_ok (p_dst p)) l /\ ending_ok O start p l e.
  Proof.
    unfold Router.trajectory. intros W H. destruct (traj_chain _ _ _ _ _ _ H) as [C F].
    split; [exact C |]. split; [exact F |]. exact (traj_ending _ _ _ _ _ _ W H).
  Qed.

  (* with tables built through the public interface (C09: tbl_inv), "the route" is the
     longest-prefix match *)
  Lemma follows_lpm start p l e : (forall r, tbl_inv (r_table (routers r))) ->
    trajectory start p = (l, e) ->
    forall h, In h l ->
      exists n gw, In (n, (gw, ho_slot h)) (tbl_iter (r_table (routers (ho_router h)))) /\
                   contains n (p_dst p) = true /\
                   (forall n' v', In (n', v') (tbl_iter (r_table (routers (ho_router h)))) ->
                                  contains n' (p_dst p) = true -> masklen n' <= masklen n) /\
                   ho_nh h = next_hop_of gw (p_dst p).
  Proof.
    unfold Router.trajectory. intros Inv H h Hin.
    destruct (traj_chain _ _ _ _ _ _ H) as [_ F].
    rewrite Forall_forall in F. destruct (F h Hin) as (gw & G & Hn).
    apply (proj1 (lpm_some _ _ _ (Inv (ho_router h)))) in G.
    destruct G as (n & I1 & I2 & I3). exists n, gw. repeat split; assumption.
  Qed.

  (* delivered only where a listen binding takes the destination address *)
  Lemma only_destination start p l e : trajectory start p = (l, e) ->
    forall h, e = EDelivered h -> accepts h (p_dst p) = true /\ last_node start l = NHost h.
  Proof.
    unfold Router.trajectory. intros H h ->.
    assert (X : forall f k at_ q l', traj f k at_ q = (l', EDelivered h) ->
                accepts h (p_dst q) = true /\ last_node at_ l' = NHost h).
    { induction f as [| f IH]; intros k at_ q l' HJ.
      - cbn in HJ. inversion HJ.
      - destruct at_ as [r | hh].
        + apply traj_router_inv in HJ.
          destruct HJ as [[_ [X | [X | [X | [X | [s X]]]]]] |
                          (slot & nh & p' & n' & l'' & ER & _ & _ & EJ & ->)];
            try discriminate.
          apply route_step_forward in ER. destruct ER as (_ & -> & _).
          destruct (IH _ _ _ _ EJ) as [A B]. cbn [p_dst set_ttl] in A.
          split; [exact A |]. rewrite last_node_cons. exact B.
        + rewrite traj_host in HJ. destruct (accepts hh (p_dst q)) eqn:E; inversion HJ; subst.
          split; [exact E | reflexivity]. }
    exact (X _ _ _ _ _ H).
  Qed.

  (* ---------------- correct routes deliver *)
  (* a ranking certifies loop-free correct routes for the datagram p0 towards host hd: every
     router on the way (P) forwards the datagram, whatever its remaining TTL >= 2 and whenever it
     comes, without failing, either to hd or to a router on the way of smaller rank *)
  Definition ranked (p0 : pkt) (hd : N) (P : N -> Prop) (rank : N -> nat) : Prop :=
    accepts hd (p_dst p0) = true /\
    forall k r p, P r -> same_but_ttl p0 p -> 2 <= p_ttl p ->
      exists slot nh n',
        route_step (routers r) p = Ok (AForward slot nh (set_ttl p (p_ttl p - 1))) /\
        topo k r slot nh = Some n' /\
        send_step (routers r) slot (set_ttl p (p_ttl p - 1)) = Ok (set_ttl p (p_ttl p - 1)) /\
        (n' = NHost hd \/ exists r', n' = NRouter r' /\ P r' /\ (rank r' < rank r)%nat).

  Lemma delivered_ranked p0 hd P rank : ranked p0 hd P rank ->
    forall f k r p, P r -> same_but_ttl p0 p -> (rank r + 2 <= N.to_nat (p_ttl p))%nat ->
      (rank r + 2 <= f)%nat ->
      exists l, traj f k (NRouter r) p = (l, EDelivered hd) /\ (length l <= S (rank r))%nat.
  Proof.
    intros (Hip & RR).
    induction f as [| f IH]; intros k r p Pr Hs Ht Hf; [lia |].
    assert (T : 2 <= p_ttl p) by lia.
    destruct (RR k r p Pr Hs T) as (slot & nh & n' & ER & ET & ES & Hn).
    assert (Hs' : same_but_ttl p0 (set_ttl p (p_ttl p - 1))).
    { eapply same_but_ttl_trans; [exact Hs | apply same_but_ttl_set]. }
    destruct Hn as [-> | (r' & -> & Pr' & Hr)].
    - exists [mkHop r slot nh (NHost hd) (set_ttl p (p_ttl p - 1))].
      cbn [Router.traj]. rewrite ER, ET, ES.
      destruct f as [| f']; [lia |]. rewrite traj_host.
      destruct Hs' as (_ & D & _). rewrite D, Hip.
      split; [reflexivity | cbn; lia].
    - destruct (IH (S k) r' (set_ttl p (p_ttl p - 1)) Pr' Hs') as (l & HJ & HL).
      + cbn [p_ttl set_ttl]. lia.
      + lia.
      + exists (mkHop r slot nh (NRouter r') (set_ttl p (p_ttl p - 1)) :: l).
        cbn [Router.traj]. rewrite ER, ET, ES, HJ. split; [reflexivity | cbn [length]; lia].
  Qed.

  Lemma delivered r p hd P rank : ranked p hd P rank -> P r ->
    (rank r + 2 <= N.to_nat (p_ttl p))%nat ->
    exists l, trajectory (NRouter r) p = (l, EDelivered hd) /\ (length l <= S (rank r))%nat.
  Proof.
    intros R Pr T. unfold Router.trajectory.
    apply (delivered_ranked _ _ _ _ R); [exact Pr | apply same_but_ttl_refl | exact T | lia].
  Qed.
End TrajFacts.

(* ------------------------------------------------------------------ the validator *)

Lemma list_eqb_eq : forall a b, list_eqb a b = true -> a = b.
Proof.
  unfold list_eqb. induction a as [| x a IH]; intros [| y b] H; cbn in H; try discriminate;
    [reflexivity |].
  apply andb_prop in H. destruct H as [L H]. apply andb_prop in H. destruct H as [E H].
  cbn in E. apply N.eqb_eq in E. subst y. f_equal. apply IH.
  apply andb_true_intro. split; [exact L | exact H].
Qed.

Lemma pkt_eqb_eq a b : pkt_eqb a b = true -> a = b.
Proof.
  unfold pkt_eqb. intros H. rewrite !andb_true_iff in H.
  destruct H as [[[[[[[[[H1 H2] H3] H4] H5] H6] H7] H8] H9] H10].
  apply N.eqb_eq in H1, H2, H3, H4, H5, H6, H7, H8, H9. apply list_eqb_eq in H10.
  destruct a, b. cbn in *. congruence.
Qed.

Lemma node_eqb_eq a b : node_eqb a b = true -> a = b.
Proof.
  destruct a, b; cbn; intros H; try discriminate; apply N.eqb_eq in H; congruence.
Qed.

Lemma onode_eqb_eq a b : onode_eqb a b = true -> a = b.
Proof.
  destruct a, b; cbn; intros H; try discriminate; [apply node_eqb_eq in H; congruence | reflexivity].
Qed.

Lemma frame_eqb_eq a b : frame_eqb a b = true -> a = b.
Proof.
  unfold frame_eqb. intros H. rewrite !andb_true_iff in H.
  destruct H as [[[H1 H2] H3] H4].
  apply N.eqb_eq in H1. apply node_eqb_eq in H2. apply onode_eqb_eq in H3. apply pkt_eqb_eq in H4.
  destruct a, b. cbn in *. congruence.
Qed.

Lemma frames_eqb_eq : forall a b, frames_eqb a b = true -> a = b.
Proof.
  induction a as [| x a IH]; intros [| y b] H; cbn in H; try discriminate; [reflexivity |].
  apply andb_prop in H. destruct H as [E H]. apply frame_eqb_eq in E. f_equal; [exact E | exact (IH _ H)].
Qed.

Lemma rx_eqb_eq a b : rx_eqb a b = true -> a = b.
Proof.
  unfold rx_eqb. intros H. rewrite !andb_true_iff in H.
  destruct H as [[[H1 H2] H3] H4].
  apply N.eqb_eq in H1, H2, H3. apply list_eqb_eq in H4.
  destruct a, b. cbn in *. congruence.
Qed.

Lemma nodup_by_offset {A} (g : A -> N) (T : N) : forall l : list A,
  (forall k f, nth_error l k = Some f -> g f + N.of_nat k = T) -> NoDup (map g l).
Proof.
  intros l H. apply (proj2 (NoDup_nth_error _)). intros i j Hi E.
  rewrite map_length in Hi. rewrite !nth_error_map in E.
  destruct (nth_error l i) as [fi |] eqn:Ei; [| apply nth_error_None in Ei; lia].
  destruct (nth_error l j) as [fj |] eqn:Ej; [| discriminate].
  cbn in E. inversion E as [E'].
  pose proof (H i fi Ei). pose proof (H j fj Ej). lia.
Qed.

Lemma chain_ideal c topo : forall hs k n, chain topo k n hs -> ideal_hops c hs = true ->
  chain (fun _ => cfg_topo c) k n hs.
Proof.
  induction hs as [| h hs IH]; intros k n C Hi; [exact I |].
  cbn [chain] in *. destruct C as (C1 & _ & C3).
  cbn [ideal_hops forallb] in Hi. apply andb_prop in Hi. destruct Hi as [I1 I2].
  apply onode_eqb_eq in I1.
  split; [exact C1 |]. split; [exact I1 |]. exact (IH _ _ C3 I2).
Qed.

(* what the property says about the frames and deliveries of ONE datagram *)
Definition dgram_property (c : cfg) (d : dgram) (fs : list frame) (xs : list rx) : Prop :=
  match fs with
  | [] => xs = []
  | f0 :: rest =>
      let p0 := f_pkt f0 in
      (* the first frame is the sender's own *)
      f_from f0 = NHost (d_src d) /\ f_net f0 = hc_net (cfg_hc c (d_src d)) /\
      p_ttl p0 = d_ttl d /\ p_src p0 = hc_ip (cfg_hc c (d_src d)) /\ p_dst p0 = d_dst d /\
      udp_data p0 = d_data d /\
      (* TTL bounds the life: at most [initial TTL] frames on all networks together *)
      (1 <= d_ttl d -> N.of_nat (length fs) <= d_ttl d) /\
      (* each hop decrements by one *)
      (forall k f, nth_error fs k = Some f -> p_ttl (f_pkt f) + N.of_nat k = d_ttl d) /\
      (* header and payload otherwise unchanged *)
      (forall f, In f fs -> same_but_ttl p0 (f_pkt f)) /\
      (* never multiplied *)
      NoDup (map (fun f => p_ttl (f_pkt f)) fs) /\
      (* hop by hop along the configured routes *)
      (* (the receivers are the observed ones; if ARP behaved on every hop - [ideal_hops] - they
         are the owners of the next-hop addresses: the path the configuration defines) *)
      exists n0 hs e,
        f_to f0 = Some n0 /\ rest = map (hop_frame c) hs /\
        chain (obs_topo c rest) O n0 hs /\
        Forall (hop_ok (cfg_router c) (d_dst d)) hs /\
        ending_ok (cfg_router c) (cfg_accepts c) (obs_topo c rest) O n0 p0 hs e /\
        (ideal_hops c hs = true -> chain (fun _ => cfg_topo c) O n0 hs) /\
        (* delivered to the destination host's application and to nobody else *)
        match xs with
        | [] => forall h, e <> EDelivered h
        | [x] => e = EDelivered (x_host x) /\ cfg_accepts c (x_host x) (d_dst d) = true /\
                 x_src x = p_src p0 /\ x_dst x = d_dst d /\ x_data x = d_data d
        | _ => False
        end
  end.

Lemma check_dgram_sound c d fs xs : check_dgram c d fs xs = true -> dgram_property c d fs xs.
Proof.
  unfold check_dgram. intros H.
  destruct (owner c (hc_net (cfg_hc c (d_src d))) (host_next_hop (cfg_hc c (d_src d)) (d_dst d)))
    as [n0' |] eqn:EO.
  2:{ destruct fs; [| discriminate]. destruct xs; [| discriminate]. reflexivity. }
  destruct (net_mtu c (hc_net (cfg_hc c (d_src d))) <? 28 + lenN (d_data d)).
  { destruct fs; [| discriminate]. destruct xs; [| discriminate]. reflexivity. }
  destruct fs as [| f0 rest]; [discriminate |].
  apply andb_prop in H. destruct H as [HF H].
  unfold check_first in HF. rewrite !andb_true_iff in HF.
  destruct HF as [[[[[[[[HF X6] X5] X4] X3] X2] X1] X0] X].
  apply N.eqb_eq in HF. apply node_eqb_eq in X6. apply onode_eqb_eq in X5.
  apply N.eqb_eq in X4. apply N.eqb_eq in X3. apply N.eqb_eq in X2.
  apply N.leb_le in X1. apply N.leb_le in X0. apply list_eqb_eq in X.
  rewrite EO in X5.
  unfold expect_rest in H. rewrite X5 in H.
  destruct (trajectory (cfg_router c) (cfg_accepts c) (obs_topo c rest) n0' (f_pkt f0))
    as [hs e] eqn:ET.
  apply andb_prop in H. destruct H as [HR HE]. apply frames_eqb_eq in HR.
  assert (W : wf_pkt (f_pkt f0)) by (split; assumption).
  pose proof (follows_route _ _ _ _ _ _ _ W ET) as (C & F & EOK).
  pose proof (bounded _ _ _ _ _ _ _ ET) as [_ B].
  pose proof (ttl_decrements _ _ _ _ _ _ _ ET) as TD.
  pose proof (payload_unchanged _ _ _ _ _ _ _ ET) as PU.
  assert (TT : forall k f, nth_error (f0 :: rest) k = Some f ->
                           p_ttl (f_pkt f) + N.of_nat k = d_ttl d).
  { intros k f Hk. destruct k as [| k].
    - cbn in Hk. inversion Hk; subst. lia.
    - cbn [nth_error] in Hk. rewrite HR, nth_error_map in Hk.
      destruct (nth_error hs k) as [h |] eqn:Eh; [| discriminate].
      cbn in Hk. inversion Hk; subst. cbn [f_pkt hop_frame].
      destruct (TD k h Eh) as [A _]. lia. }
  cbn [dgram_property].
  split; [exact X6 |]. split; [exact HF |]. split; [exact X4 |]. split; [exact X3 |].
  split; [exact X2 |]. split; [exact X |].
  split.
  { intros T. rewrite HR. cbn [length]. rewrite map_length.
    assert (1 <= p_ttl (f_pkt f0)) by lia. specialize (B H). lia. }
  split; [exact TT |].
  split.
  { intros f [<- | Hin]; [apply same_but_ttl_refl |].
    rewrite HR in Hin. apply in_map_iff in Hin. destruct Hin as (h & <- & Hin).
    cbn [f_pkt hop_frame]. exact (PU h Hin). }
  split; [exact (nodup_by_offset _ _ _ TT) |].
  exists n0', hs, e. split; [exact X5 |]. split; [exact HR |]. split; [exact C |].
  rewrite X2 in F. split; [exact F |]. split; [exact EOK |].
  split; [exact (chain_ideal _ _ _ _ _ C) |].
  destruct e as [j | j | r | r | r | r s |]; try discriminate.
  - destruct xs as [| x [| x' xs']]; try discriminate.
    apply rx_eqb_eq in HE. subst x. cbn [x_host x_src x_dst x_data].
    destruct (only_destination _ _ _ _ _ _ _ ET j eq_refl) as [A _].
    split; [reflexivity |]. split; [rewrite <- X2; exact A |].
    split; [reflexivity |]. split; [exact X2 | exact X].
  - destruct xs; [| discriminate]. intros h. discriminate.
  - destruct xs; [| discriminate]. intros h. discriminate.
  - destruct xs; [| discriminate]. intros h. discriminate.
  - destruct xs; [| discriminate]. intros h. discriminate.
Qed.

(* the whole trace: nothing on the networks but the datagrams of the scenario (after the last
   of these frames the networks are silent), and each datagram satisfies the property *)
Definition trace_property (c : cfg) (ds : list dgram)
           (fr : list (N * frame)) (xs : list (N * rx)) : Prop :=
  (forall t f, In (t, f) fr -> t < lenN ds) /\
  (forall t x, In (t, x) xs -> t < lenN ds) /\
  forall k d, nth_error ds k = Some d ->
    dgram_property c d (select (N.of_nat k) fr) (select (N.of_nat k) xs).

Lemma check_all_sound c : forall ds k0 fr xs, check_all c k0 ds fr xs = true ->
  forall k d, nth_error ds k = Some d ->
    dgram_property c d (select (k0 + N.of_nat k) fr) (select (k0 + N.of_nat k) xs).
Proof.
  induction ds as [| d0 ds IH]; intros k0 fr xs H k d Hk; [destruct k; discriminate |].
  cbn [check_all] in H. apply andb_prop in H. destruct H as [H0 H].
  destruct k as [| k].
  - cbn in Hk. inversion Hk; subst. replace (k0 + N.of_nat 0) with k0 by lia.
    apply check_dgram_sound. exact H0.
  - cbn [nth_error] in Hk. replace (k0 + N.of_nat (S k)) with (k0 + 1 + N.of_nat k) by lia.
    exact (IH _ _ _ H k d Hk).
Qed.

Lemma validate_sound c ds fr xs : validate c ds fr xs = true -> trace_property c ds fr xs.
Proof.
  unfold validate. intros H. apply andb_prop in H. destruct H as [H H3].
  apply andb_prop in H. destruct H as [H1 H2].
  rewrite forallb_forall in H1, H2.
  split; [| split].
  - intros t f Hin. specialize (H1 _ Hin). cbn in H1. lia.
  - intros t x Hin. specialize (H2 _ Hin). cbn in H2. lia.
  - intros k d Hk. exact (check_all_sound c ds 0 fr xs H3 k d Hk).
Qed.

(* ------------------------------------------------------------------ remarks and examples *)

(* a forged TTL 0 reaching a router is a dev-profile underflow (arp_router.rs:84) *)
Lemma remark_ttl0_panics r p routers accepts (topo : nat -> N -> N -> N -> option node) :
  p_ttl p = 0 ->
  route_step (routers r) p = Panic site_ttl_sub /\
  trajectory routers accepts topo (NRouter r) p = ([], EPanic r site_ttl_sub).
Proof.
  intros T. split; [apply route_step_ttl0; exact T |].
  unfold trajectory. rewrite T. cbn. rewrite route_step_ttl0 by exact T. reflexivity.
Qed.

(* TTL 1 is dropped after the decrement, never forwarded with TTL 0 *)
Lemma remark_ttl1_dropped r p resolves : p_ttl p = 1 ->
  route_step r p = Ok ADrop /\ hop_out r resolves p = [].
Proof.
  intros T. split; [apply route_step_ttl1; exact T |].
  unfold hop_out. rewrite route_step_ttl1 by exact T. reflexivity.
Qed.

Definition m24 : N := 4294967040.
Definition ex_pkt (ttl : N) (len : nat) : pkt :=
  mkPkt ttl 167772170 167772682 0 (20 + N.of_nat len) 0 0 0 17 (repeat 0 len).

(* line  H0 -(net0)- R0 -(net1)- R1 -(net2)- H1  with correct routes *)
Definition ex_line (mtu1 : N) : cfg :=
  mkCfg [65535; mtu1; 65535]
    [ mkRcfg [ (mkNet 167772160 m24, (None, 0)); (mkNet 167772416 m24, (None, 1));
               (mkNet 167772672 m24, (Some 167772418, 1)) ]
             [167772161; 167772417] [0; 1];
      mkRcfg [ (mkNet 167772160 m24, (Some 167772417, 0)); (mkNet 167772416 m24, (None, 0));
               (mkNet 167772672 m24, (None, 1)) ]
             [167772418; 167772673] [1; 2] ]
    [ mkHcfg 0 167772170 m24 167772161 false; mkHcfg 2 167772682 m24 167772673 false ].

(* the same with R1 sending 10.0.2.0/24 back to R0: a routing loop *)
Definition ex_loop : cfg :=
  mkCfg [65535; 65535; 65535]
    [ mkRcfg [ (mkNet 167772160 m24, (None, 0)); (mkNet 167772416 m24, (None, 1));
               (mkNet 167772672 m24, (Some 167772418, 1)) ]
             [167772161; 167772417] [0; 1];
      mkRcfg [ (mkNet 167772160 m24, (Some 167772417, 0)); (mkNet 167772416 m24, (None, 0));
               (mkNet 167772672 m24, (Some 167772417, 0)) ]
             [167772418; 167772673] [1; 2] ]
    [ mkHcfg 0 167772170 m24 167772161 false; mkHcfg 2 167772682 m24 167772673 false ].

Lemma ex_line_delivers :
  cfg_trajectory (ex_line 65535) (NRouter 0) (ex_pkt 30 18) =
    ([ mkHop 0 1 167772418 (NRouter 1) (ex_pkt 29 18);
       mkHop 1 1 167772682 (NHost 1) (ex_pkt 28 18) ], EDelivered 1).
Proof. vm_compute. reflexivity. Qed.

Lemma ex_loop_falls_silent :
  let (l, e) := cfg_trajectory ex_loop (NRouter 0) (ex_pkt 30 18) in
  length l = 29%nat /\ e = ETtl 1.
Proof. vm_compute. split; reflexivity. Qed.

(* a datagram larger than the MTU of the next network kills the process
   (arp_router.rs:118 .expect("failed to send")) *)
Lemma remark_mtu_panics :
  cfg_trajectory (ex_line 100) (NRouter 0) (ex_pkt 30 200) = ([], EPanic 0 site_send_expect).
Proof. vm_compute. reflexivity. Qed.

(* a route naming a slot the router does not have kills the process
   (arp_router.rs:106 index, or pci.rs:45 unwrap inside Arp::resolve) *)
Lemma remark_slot_panics :
  let r := mkRouter [ (mkNet 0 0, (None, 2)) ] [1; 2] [65535; 65535] in
  let r' := mkRouter [ (mkNet 0 0, (None, 2)) ] [1; 2; 3] [65535; 65535] in
  route_step r (ex_pkt 30 18) = Panic site_local_index /\
  route_step r' (ex_pkt 30 18) = Panic site_pci_open.
Proof. vm_compute. split; reflexivity. Qed.

(* the hypotheses of [delivered] are satisfiable: the line above, towards H1 *)
Lemma ex_ranked :
  ranked (cfg_router (ex_line 65535)) (cfg_accepts (ex_line 65535)) (fun _ => cfg_topo (ex_line 65535))
         (ex_pkt 30 18) 1 (fun r => r = 0 \/ r = 1) (fun r => if r =? 0 then 1%nat else 0%nat).
Proof.
  split; [reflexivity |].
  intros k r p Pr (S1 & S2 & S3 & S4 & S5 & S6 & S7 & S8 & S9) T.
  assert (W : wf_pkt (set_ttl p (p_ttl p - 1))).
  { split; cbn [p_totlen p_frag set_ttl]; [rewrite S4 | rewrite S7]; vm_compute; discriminate. }
  assert (L : wire_len (set_ttl p (p_ttl p - 1)) = 38).
  { unfold wire_len. cbn [p_body set_ttl]. rewrite S9. reflexivity. }
  assert (R : forall rr, route_step rr p =
                match get_recipient (r_table rr) 167772682 with
                | None => Err err_no_route
                | Some (gw, slot) =>
                    if lenN (r_local_ips rr) <=? slot then Panic site_local_index
                    else if lenN (r_mtus rr) <=? slot then Panic site_pci_open
                    else Ok (AForward slot (next_hop_of gw 167772682) (set_ttl p (p_ttl p - 1)))
                end).
  { intros rr. unfold route_step.
    destruct (p_ttl p =? 0) eqn:E0; [lia |].
    destruct (p_ttl p - 1 =? 0) eqn:E1; [lia |].
    rewrite reserialize_wf by exact W. cbn [bind p_dst set_ttl]. rewrite S2. reflexivity. }
  destruct Pr as [-> | ->].
  - exists 1, 167772418, (NRouter 1). rewrite R.
    split; [reflexivity |]. split; [reflexivity |].
    split.
    + unfold send_step. change (nthN (r_mtus (cfg_router (ex_line 65535) 0)) 1) with (Some 65535).
      rewrite L. reflexivity.
    + right. exists 1. split; [reflexivity |]. split; [right; reflexivity | cbn; lia].
  - exists 1, 167772682, (NHost 1). rewrite R.
    split; [reflexivity |]. split; [reflexivity |].
    split.
    + unfold send_step. change (nthN (r_mtus (cfg_router (ex_line 65535) 1)) 1) with (Some 65535).
      rewrite L. reflexivity.
    + left. reflexivity.
Qed.

(* the validator accepts the trace the model predicts (its hypothesis is satisfiable) *)
Definition ex_dgram : dgram := mkDgram 0 167772682 30 (repeat 0 10).
Definition ex_trace : list (N * frame) :=
  [ (0, mkFrame 0 (NHost 0) (Some (NRouter 0)) (ex_pkt 30 18));
    (0, mkFrame 1 (NRouter 0) (Some (NRouter 1)) (ex_pkt 29 18));
    (0, mkFrame 2 (NRouter 1) (Some (NHost 1)) (ex_pkt 28 18)) ].
Lemma ex_validate_accepts :
  validate (ex_line 65535) [ex_dgram] ex_trace
           [(0, mkRx 1 167772170 167772682 (repeat 0 10))] = true /\
  validate (ex_line 65535) [ex_dgram] (ex_trace ++ [(0, mkFrame 2 (NRouter 1) (Some (NHost 1)) (ex_pkt 28 18))])
           [(0, mkRx 1 167772170 167772682 (repeat 0 10))] = false.
Proof. vm_compute. split; reflexivity. Qed.

(* a host whose application listens on its own address accepts only that address *)
Lemma cfg_accepts_own c h dst : hc_wild (cfg_hc c h) = false ->
  cfg_accepts c h dst = true -> cfg_host_ip c h = dst.
Proof.
  unfold cfg_accepts, cfg_host_ip. intros -> H. cbn in H. apply N.eqb_eq in H. exact H.
Qed.

(* ------------------------------------------------------------------ where the code leaves the
   property: ARP handing a frame to a station that does not own the next hop *)
(* star  H0,H1 -(net0)- R0 -(net1)- H2 ; R0's route for 10.0.1.0/24 names slot 0 (net0) instead
   of slot 1; H1's application listens on 0.0.0.0 *)
Definition ex_bad : cfg :=
  mkCfg [65535; 65535]
    [ mkRcfg [ (mkNet 167772160 m24, (None, 0)); (mkNet 167772416 m24, (None, 0)) ]
             [167772161; 167772417] [0; 1] ]
    [ mkHcfg 0 167772170 m24 167772161 false; mkHcfg 0 167772171 m24 167772161 true;
      mkHcfg 1 167772428 m24 167772417 false ].
Definition ex_bad_pkt (ttl : N) : pkt :=
  mkPkt ttl 167772170 167772428 0 38 0 0 0 17 (repeat 0 18).

(* with ARP as it should be the datagram dies at R0 (nobody on net0 owns 10.0.1.12); if ARP
   returns the MAC it learnt for 10.0.1.12 on net1 - which on net0 is H1's - the datagram is
   delivered to the application of H1, a host that does not own the destination address *)
Lemma refuted_only_destination :
  snd (cfg_trajectory ex_bad (NRouter 0) (ex_bad_pkt 30)) = ENoArp 0 /\
  exists topo l h,
    trajectory (cfg_router ex_bad) (cfg_accepts ex_bad) topo (NRouter 0) (ex_bad_pkt 30)
      = (l, EDelivered h) /\
    cfg_host_ip ex_bad h <> p_dst (ex_bad_pkt 30).
Proof.
  split; [vm_compute; reflexivity |].
  exists (fun _ _ _ _ => Some (NHost 1)), [mkHop 0 0 167772428 (NHost 1) (ex_bad_pkt 29)], 1.
  split; [vm_compute; reflexivity | vm_compute; discriminate].
Qed.

(* the validator follows the OBSERVED receivers, so it accepts such a trace as what the code
   does, and [all_ideal] reports that ARP misbehaved in it *)
Definition ex_bad_dgram : dgram := mkDgram 0 167772428 30 (repeat 0 10).
Definition ex_bad_trace : list (N * frame) :=
  [ (0, mkFrame 0 (NHost 0) (Some (NRouter 0)) (ex_bad_pkt 30));
    (0, mkFrame 0 (NRouter 0) (Some (NHost 1)) (ex_bad_pkt 29)) ].
Lemma ex_bad_validate :
  validate ex_bad [ex_bad_dgram] ex_bad_trace
           [(0, mkRx 1 167772170 167772428 (repeat 0 10))] = true /\
  all_ideal ex_bad 0 [ex_bad_dgram] ex_bad_trace = false /\
  all_ideal (ex_line 65535) 0 [ex_dgram] ex_trace = true.
Proof. vm_compute. repeat split; reflexivity. Qed.
