(* Second tie for C18: the definitions of Gen/ChecksumGen.v, regenerated from utility.rs by
   tools/translate_checksum.py on every run, equal the hand model Model/Checksum.v on every input in range.
   When the Rust source changes, the regenerated file changes and these proofs break (or the translator
   refuses the source). *)
From Elvis Require Import Model.Base Model.Bytes Model.Checksum Model.RsSem Gen.ChecksumGen
  Proofs.BytesFacts Proofs.ChecksumFacts.
From Coq Require Import ZifyBool.
Ltac Zify.zify_post_hook ::= Z.div_mod_to_equations.
Local Open Scope Z_scope.

(* ---- feature on --------------------------------------------------------- *)

Lemma gen_new : g_Checksum_new = 0.
Proof. reflexivity. Qed.

(* l.22-25: overflowing_add, then the checked `sum + carry as u16` *)
Lemma gen_add_u16 : forall s v, u16 s -> u16 v ->
  g_Checksum_add_u16 s v = Ok (ck_u16 true s v).
Proof.
  intros s v Hs Hv. unfold u16 in *.
  unfold g_Checksum_add_u16, ovf_add, ck_add, b2u, ck_u16, add16.
  change (2 ^ 16) with 65536.
  destruct (65536 <=? s + v) eqn:E1; destruct (s + v <? 65536) eqn:E2; try lia.
  - destruct (65536 <=? (s + v) mod 65536 + 1) eqn:E3; [lia|].
    cbn [bind]. f_equal. lia.
  - destruct (65536 <=? (s + v) mod 65536 + 0) eqn:E3; [lia|].
    cbn [bind]. f_equal. lia.
Qed.

(* the generated adder and the hand model of the checked code agree, panic site included:
   neither panics (site 1 of the generated code = site 1824 of the model) *)
Lemma gen_add_u16_checked : forall s v, u16 s -> u16 v ->
  g_Checksum_add_u16 s v = add_u16_checked s v.
Proof.
  intros s v Hs Hv. rewrite gen_add_u16 by assumption.
  symmetry. cbn [ck_u16]. apply add_u16_checked_ok; assumption.
Qed.

Lemma from_be_2 : forall a b, from_be [a; b] = of_be16 a b.
Proof. intros. unfold from_be, of_be16. cbn [fold_left]. lia. Qed.

Lemma gen_add_u8 : forall s a b, u16 s -> byte a -> byte b ->
  g_Checksum_add_u8 s a b = Ok (ck_u8 true s a b).
Proof.
  intros s a b Hs Ha Hb. unfold g_Checksum_add_u8.
  rewrite from_be_2.
  rewrite gen_add_u16 by (try assumption; apply of_be16_range; assumption).
  reflexivity.
Qed.

Lemma ck_u8_range : forall s a b, u16 s -> byte a -> byte b -> u16 (ck_u8 true s a b).
Proof.
  intros. unfold ck_u8, ck_u16. apply add16_range; [assumption|apply of_be16_range; assumption].
Qed.

Lemma gen_add_u32_bytes : forall s b0 b1 b2 b3, u16 s -> byte b0 -> byte b1 -> byte b2 -> byte b3 ->
  g_Checksum_add_u32 s [b0; b1; b2; b3] = Ok (ck_u8 true (ck_u8 true s b0 b1) b2 b3).
Proof.
  intros s b0 b1 b2 b3 Hs H0 H1 H2 H3. unfold g_Checksum_add_u32, arr_get. cbn [nth].
  rewrite gen_add_u8 by assumption. cbn [bind].
  rewrite gen_add_u8 by (try assumption; apply ck_u8_range; assumption).
  reflexivity.
Qed.

Lemma to_be_4 : forall v, to_be 4 v = [v / 16777216 mod 256; v / 65536 mod 256; v / 256 mod 256; v mod 256].
Proof.
  intros v. unfold to_be.
  change (256 ^ Z.of_nat 3) with 16777216. change (256 ^ Z.of_nat 2) with 65536.
  change (256 ^ Z.of_nat 1) with 256. change (256 ^ Z.of_nat 0) with 1.
  rewrite Z.div_1_r. reflexivity.
Qed.

(* add_u32 on the big-endian bytes of a u32 (how every caller uses it: seq.to_be_bytes(), address.into()) *)
Lemma gen_add_u32 : forall s v, u16 s -> u32 v ->
  g_Checksum_add_u32 s (to_be 4 v) = Ok (ck_u32 true s v).
Proof.
  intros s v Hs Hv. rewrite to_be_4. unfold u32 in Hv.
  rewrite gen_add_u32_bytes; try assumption; try (unfold byte; lia).
  reflexivity.
Qed.

Lemma rem_fold_range : forall l s, bytes l -> u16 s -> u16 (rem_fold s l).
Proof.
  intros l. induction l as [|a|a b r IH] using list_ind2; intros s Hl Hs.
  - exact Hs.
  - cbn [rem_fold]. apply bytes_cons in Hl. destruct Hl as [Ha _].
    apply add16_range; [assumption|apply of_be16_range; [assumption|unfold byte; lia]].
  - cbn [rem_fold]. apply bytes_cons in Hl. destruct Hl as [Ha Hl]. apply bytes_cons in Hl. destruct Hl as [Hb Hl].
    apply IH; [assumption|]. apply add16_range; [assumption|apply of_be16_range; assumption].
Qed.

(* l.45-49: the loop; enough fuel = more than the bytes left *)
Lemma gen_loop : forall l fuel s, bytes l -> u16 s -> (length l < fuel)%nat ->
  g_Checksum_accumulate_remainder_loop1 fuel s l = Ok (rem_fold s l, []).
Proof.
  intros l. induction l as [|a|a b r IH] using list_ind2; intros fuel s Hl Hs Hf.
  - destruct fuel as [|fuel]; [cbn [length] in Hf; lia|]. reflexivity.
  - destruct fuel as [|fuel]; [cbn [length] in Hf; lia|].
    destruct fuel as [|fuel]; [cbn [length] in Hf; lia|].
    apply bytes_cons in Hl. destruct Hl as [Ha _].
    cbn [g_Checksum_accumulate_remainder_loop1 iter_next unwrap_or].
    rewrite gen_add_u8 by (try assumption; unfold byte; lia). cbn [bind].
    cbn [g_Checksum_accumulate_remainder_loop1 iter_next rem_fold]. reflexivity.
  - destruct fuel as [|fuel]; [cbn [length] in Hf; lia|].
    apply bytes_cons in Hl. destruct Hl as [Ha Hl]. apply bytes_cons in Hl. destruct Hl as [Hb Hl].
    cbn [g_Checksum_accumulate_remainder_loop1 iter_next unwrap_or].
    rewrite gen_add_u8 by assumption. cbn [bind].
    rewrite IH; [reflexivity|assumption| |cbn [length] in Hf; lia].
    apply add16_range; [assumption|apply of_be16_range; assumption].
Qed.

Lemma gen_accumulate_remainder : forall s l, u16 s -> bytes l ->
  g_Checksum_accumulate_remainder s l = Ok (ck_rem true s l).
Proof.
  intros s l Hs Hl. unfold g_Checksum_accumulate_remainder.
  rewrite gen_loop by (try assumption; lia). reflexivity.
Qed.

(* l.59-67 *)
Lemma gen_as_u16 : forall s, u16 s -> g_Checksum_as_u16 s = as_u16 true s.
Proof.
  intros s Hs. unfold g_Checksum_as_u16, as_u16, u_not.
  destruct (s =? 65535); [reflexivity|].
  rewrite bnot16_sub by exact Hs. reflexivity.
Qed.

(* ---- feature off: every adder is the identity, as_u16 is constantly 0 ---- *)
Lemma gen_add_u16_off : forall s v, g_Checksum_add_u16_off s v = ck_u16 false s v.
Proof. reflexivity. Qed.
Lemma gen_add_u8_off : forall s a b, g_Checksum_add_u8_off s a b = ck_u8 false s a b.
Proof. reflexivity. Qed.
Lemma gen_add_u32_off : forall s v, g_Checksum_add_u32_off s (to_be 4 v) = ck_u32 false s v.
Proof. reflexivity. Qed.
Lemma gen_add_u32_off_any : forall s bs, g_Checksum_add_u32_off s bs = s.
Proof. reflexivity. Qed.
Lemma gen_accumulate_remainder_off : forall s l, g_Checksum_accumulate_remainder_off s l = ck_rem false s l.
Proof. reflexivity. Qed.
Lemma gen_as_u16_off : forall s, g_Checksum_as_u16_off s = as_u16 false s.
Proof. reflexivity. Qed.

(* the range invariant the theorems above assume is kept by every operation *)
Lemma gen_range_kept : forall s, u16 s ->
  (forall v, u16 v -> exists s', g_Checksum_add_u16 s v = Ok s' /\ u16 s') /\
  (forall l, bytes l -> exists s', g_Checksum_accumulate_remainder s l = Ok s' /\ u16 s').
Proof.
  intros s Hs. split.
  - intros v Hv. eexists. split; [apply gen_add_u16; assumption|]. apply add16_range; assumption.
  - intros l Hl. eexists. split; [apply gen_accumulate_remainder; assumption|].
    cbn [ck_rem]. apply rem_fold_range; assumption.
Qed.
