(* Facts about Model/Startup.v (property C13). *)
From Elvis Require Import Model.Base Model.Startup.
From Coq Require Import NArith Arith Lia.

(* ================================================================== 1. the table *)

Lemma all_protos_complete : forall p, In p all_protos.
Proof. destruct p; unfold all_protos; simpl; tauto. Qed.

Lemma builtin_table_rows : forall p, In (p, row p) builtin_table.
Proof.
  intro p. unfold builtin_table. apply in_map_iff. exists p. split; [reflexivity | apply all_protos_complete].
Qed.

Lemma offenders_resolving : offenders true = [PForward].
Proof. vm_compute. reflexivity. Qed.

Lemma offenders_not_resolving : offenders false = [].
Proof. vm_compute. reflexivity. Qed.

Lemma table_discipline_refuted :
  forallb (fun r => frame_free_before_wait true (snd r)) builtin_table = false.
Proof. vm_compute. reflexivity. Qed.

Lemma table_discipline_except_forward :
  forallb (fun r => disciplined true (snd r))
          (filter (fun r => match fst r with PForward => false | _ => true end) builtin_table) = true.
Proof. vm_compute. reflexivity. Qed.

Lemma table_discipline_not_resolving :
  forallb (fun r => disciplined false (snd r)) builtin_table = true.
Proof. vm_compute. reflexivity. Qed.

Lemma row_disciplined_except_forward : forall p, p <> PForward -> disciplined true (row p) = true.
Proof. intros p H. destruct p; try reflexivity. congruence. Qed.

Lemma row_disciplined_not_resolving : forall p, disciplined false (row p) = true.
Proof. destruct p; reflexivity. Qed.

Lemma row_waits_once : forall p, nwaits (row p) = 1.
Proof. destruct p; reflexivity. Qed.

Lemma shutdown_panickers_eq :
  shutdown_panickers = [PDnsServer; PDnsTestClient; PDnsTestServer; PSocketServer; PTcpListenerServer; PTcpStreamClient].
Proof. vm_compute. reflexivity. Qed.

(* the rows list the calls of all branches in source order; a path executes a subsequence that keeps the
   top-level barrier wait *)
Inductive subseq {A} : list A -> list A -> Prop :=
| sub_nil : subseq [] []
| sub_skip : forall a l l', subseq l' l -> subseq l' (a :: l)
| sub_take : forall a l l', subseq l' l -> subseq (a :: l') (a :: l).

Lemma subseq_nil_l : forall {A} (l : list A), subseq [] l.
Proof. induction l; constructor; assumption. Qed.

Lemma subseq_nwaits : forall l' l, subseq l' l -> nwaits l' <= nwaits l.
Proof. induction 1; simpl; lia. Qed.

Lemma nwaits_zero_no_wait : forall l, nwaits l = 0 -> forall a, In a l -> is_wait a = false.
Proof.
  induction l as [|b l IH]; simpl; intros H a Ha; [tauto|].
  destruct (is_wait b) eqn:Eb; [simpl in H; lia|].
  destruct Ha as [->|Ha]; [assumption | apply IH; [simpl in H; lia | assumption]].
Qed.

Lemma ffbw_subseq : forall res l' l,
  subseq l' l -> nwaits l = 1 -> nwaits l' = 1 -> ffbw res l = true -> ffbw res l' = true.
Proof.
  intros res l' l H. induction H as [| a l l' H IH | a l l' H IH]; intros Hl Hl' Hf.
  - reflexivity.
  - simpl in Hl, Hf. destruct (is_wait a) eqn:Ea.
    + (* the path skipped the only wait: excluded *)
      simpl in Hl. assert (nwaits l' <= nwaits l) by (apply subseq_nwaits; assumption). lia.
    + apply andb_true_iff in Hf. destruct Hf as [_ Hf]. apply IH; [simpl in Hl; lia | assumption | assumption].
  - simpl in *. destruct (is_wait a) eqn:Ea; [reflexivity|].
    apply andb_true_iff in Hf. destruct Hf as [Hm Hf]. rewrite Hm. simpl.
    apply IH; [lia | lia | assumption].
Qed.

(* ================================================================== 2. the barrier *)

Fixpoint count_blocked (l : list task) : nat :=
  match l with
  | [] => 0
  | t :: r => (if t_blocked t then 1 else 0) + count_blocked r
  end.

Definition arrived_all (n : nat) (log : list event) : Prop :=
  forall j, j < n -> In (EvAct j ABarrierWait) log.

(* no frame / delivery before every task has arrived at the barrier *)
Definition good (n : nat) (log : list event) : Prop :=
  forall pre ev post, log = pre ++ ev :: post -> net_event ev = true -> arrived_all n pre.

Definition PreInv (s : sys) (log : list event) : Prop :=
  s_frames s = 0 /\ s_helpers s = [] /\
  s_arrived s = count_blocked (s_tasks s) /\
  (forall j t, nth_error (s_tasks s) j = Some t ->
     (t_blocked t = true -> In (EvAct j ABarrierWait) log) /\
     (t_blocked t = false -> ffbw (t_res t) (t_todo t) = true)).

Definition PhaseInv (n : nat) (s : sys) (log : list event) : Prop :=
  length (s_tasks s) = n /\ good n log /\ (arrived_all n log \/ PreInv s log).

Lemma split_app : forall (l l2 pre : list event) ev post,
  l ++ l2 = pre ++ ev :: post ->
  (exists q, l = pre ++ ev :: q) \/ (exists q, pre = l ++ q /\ l2 = q ++ ev :: post).
Proof.
  induction l as [|a l IH]; simpl; intros l2 pre ev post H.
  - right. exists pre. auto.
  - destruct pre as [|b pre]; simpl in H; inversion H; subst.
    + left. exists l. reflexivity.
    + destruct (IH _ _ _ _ H2) as [[q Hq]|[q [Hq1 Hq2]]].
      * left. exists q. simpl. rewrite Hq. reflexivity.
      * right. exists q. simpl. rewrite Hq1. auto.
Qed.

Lemma arrived_all_app : forall n l l2, arrived_all n l -> arrived_all n (l ++ l2).
Proof. intros n l l2 H j Hj. apply in_or_app. left. apply H. assumption. Qed.

Lemma good_app_all : forall n l l2, good n l -> arrived_all n l -> good n (l ++ l2).
Proof.
  intros n l l2 Hg Ha pre ev post Heq Hnet.
  destruct (split_app _ _ _ _ _ Heq) as [[q Hq]|[q [Hq1 _]]].
  - eapply Hg; eassumption.
  - subst pre. apply arrived_all_app. assumption.
Qed.

Lemma good_app_nonet : forall n l l2,
  good n l -> (forall e, In e l2 -> net_event e = false) -> good n (l ++ l2).
Proof.
  intros n l l2 Hg Hn pre ev post Heq Hnet.
  destruct (split_app _ _ _ _ _ Heq) as [[q Hq]|[q [_ Hq2]]].
  - eapply Hg; eassumption.
  - assert (In ev l2) by (rewrite Hq2; apply in_or_app; right; left; reflexivity).
    rewrite (Hn _ H) in Hnet. discriminate.
Qed.

Lemma upd_length : forall {A} (l : list A) i x, length (upd l i x) = length l.
Proof. induction l; destruct i; simpl; intros; auto. Qed.

Lemma nth_upd_eq : forall {A} (l : list A) i x t, nth_error l i = Some t -> nth_error (upd l i x) i = Some x.
Proof. induction l; destruct i; simpl; intros; try discriminate; eauto. Qed.

Lemma nth_upd_neq : forall {A} (l : list A) i j x, i <> j -> nth_error (upd l i x) j = nth_error l j.
Proof.
  induction l; destruct i, j; simpl; intros; auto; try congruence.
Qed.

Lemma nth_map_some : forall {A B} (f : A -> B) l j y,
  nth_error (map f l) j = Some y -> exists x, nth_error l j = Some x /\ y = f x.
Proof.
  induction l; destruct j; simpl; intros; try discriminate.
  - inversion H. eauto.
  - eauto.
Qed.

Lemma nth_some_lt : forall {A} (l : list A) j x, nth_error l j = Some x -> j < length l.
Proof. intros. apply nth_error_Some. congruence. Qed.

Lemma cb_one : forall l i t, nth_error l i = Some t -> t_blocked t = false -> S (count_blocked l) <= length l.
Proof.
  induction l as [|a l IH]; destruct i; simpl; intros t H Hb; try discriminate.
  - inversion H; subst. rewrite Hb. simpl.
    assert (count_blocked l <= length l).
    { clear. induction l as [|b l IH]; simpl; [lia|]. destruct (t_blocked b); lia. }
    lia.
  - specialize (IH _ _ H Hb). destruct (t_blocked a); lia.
Qed.

Lemma cb_two : forall l i j t t',
  i <> j -> nth_error l i = Some t -> nth_error l j = Some t' ->
  t_blocked t = false -> t_blocked t' = false -> S (S (count_blocked l)) <= length l.
Proof.
  induction l as [|a l IH]; intros i j t t' Hij Hi Hj Hb Hb'.
  - destruct i; discriminate.
  - destruct i, j; simpl in *; try congruence.
    + inversion Hi; subst. rewrite Hb. pose proof (cb_one _ _ _ Hj Hb'). lia.
    + inversion Hj; subst. rewrite Hb'. pose proof (cb_one _ _ _ Hi Hb). lia.
    + assert (i <> j) by congruence. specialize (IH _ _ _ _ H Hi Hj Hb Hb'). destruct (t_blocked a); lia.
Qed.

Lemma cb_upd_block : forall l i t x,
  nth_error l i = Some t -> t_blocked t = false -> t_blocked x = true ->
  count_blocked (upd l i x) = S (count_blocked l).
Proof.
  induction l as [|a l IH]; destruct i; simpl; intros t x H Hb Hx; try discriminate.
  - inversion H; subst. rewrite Hb, Hx. reflexivity.
  - rewrite (IH _ _ _ H Hb Hx). lia.
Qed.

Lemma cb_upd_same : forall l i t x,
  nth_error l i = Some t -> t_blocked t = false -> t_blocked x = false ->
  count_blocked (upd l i x) = count_blocked l.
Proof.
  induction l as [|a l IH]; destruct i; simpl; intros t x H Hb Hx; try discriminate.
  - inversion H; subst. rewrite Hb, Hx. reflexivity.
  - rewrite (IH _ _ _ H Hb Hx). reflexivity.
Qed.

(* an unblocked task performs an action that cannot put a frame on a network *)
Lemma pre_progress : forall s log i t a rest hs,
  PreInv s log -> nth_error (s_tasks s) i = Some t -> t_blocked t = false ->
  ffbw (t_res t) rest = true -> hs = [] ->
  PreInv (mkSys (upd (s_tasks s) i (mkTask (t_res t) rest false)) (s_arrived s) (s_frames s) hs)
         (log ++ [EvAct i a]).
Proof.
  intros s log i t a rest hs [Hf [Hh [Ha Ht]]] Hi Hb Hff Hhs. subst hs.
  unfold PreInv. simpl. split; [assumption|]. split; [reflexivity|]. split.
  - rewrite (cb_upd_same _ _ _ _ Hi Hb); [assumption | reflexivity].
  - intros j tj Hj. destruct (Nat.eq_dec i j) as [->|Hne].
    + rewrite (nth_upd_eq _ _ _ _ Hi) in Hj. inversion Hj; subst tj. simpl.
      split; [intro; discriminate | intros _; assumption].
    + rewrite (nth_upd_neq _ _ _ _ Hne) in Hj. destruct (Ht _ _ Hj) as [H1 H2].
      split; [intro Hb0; apply in_or_app; left; auto | assumption].
Qed.

Lemma step_length : forall s c s' evs, step s c = (s', evs) -> length (s_tasks s') = length (s_tasks s).
Proof.
  intros s c s' evs H. destruct c as [i k | i | m]; simpl in H.
  - destruct (nth_error (s_tasks s) i) as [t|]; [|inversion H; reflexivity].
    destruct (t_blocked t); [inversion H; reflexivity|].
    destruct (t_todo t) as [|a rest]; [inversion H; reflexivity|].
    destruct a; simpl in H;
      repeat match type of H with
             | (if ?b then _ else _) = _ => destruct b
             end;
      inversion H; simpl; rewrite ?map_length, ?upd_length; reflexivity.
  - destruct (memb i (s_helpers s)); inversion H; reflexivity.
  - destruct (Nat.eqb (s_frames s) 0); inversion H; reflexivity.
Qed.

Lemma ffbw_tail : forall res a rest,
  ffbw res (a :: rest) = true -> is_wait a = false -> may_frame res a = false /\ ffbw res rest = true.
Proof.
  intros res a rest H Hw. simpl in H. rewrite Hw in H. apply andb_true_iff in H. destruct H as [H1 H2].
  split; [destruct (may_frame res a); [discriminate | reflexivity] | assumption].
Qed.

Lemma no_net_single : forall i a e, In e [EvAct i a] -> net_event e = false.
Proof. intros i a e [<-|[]]. reflexivity. Qed.

Lemma step_pre : forall n s log c s' evs,
  length (s_tasks s) = n -> good n log -> PreInv s log -> step s c = (s', evs) ->
  good n (log ++ evs) /\ (arrived_all n (log ++ evs) \/ PreInv s' (log ++ evs)).
Proof.
  intros n s log c s' evs Hlen Hg Hpre Hstep. subst n.
  pose proof Hpre as [Hf [Hh [Ha Ht]]].
  assert (Hsame : good (length (s_tasks s)) (log ++ []) /\ (arrived_all (length (s_tasks s)) (log ++ []) \/ PreInv s (log ++ []))).
  { rewrite app_nil_r. split; [assumption | right; assumption]. }
  destruct c as [i k | i | m]; simpl in Hstep.
  - destruct (nth_error (s_tasks s) i) as [t|] eqn:Hi; [|inversion Hstep; subst; exact Hsame].
    destruct (t_blocked t) eqn:Hb; [inversion Hstep; subst; exact Hsame|].
    destruct (t_todo t) as [|a rest] eqn:Htodo; [inversion Hstep; subst; exact Hsame|].
    pose proof (proj2 (Ht _ _ Hi) Hb) as Hff. rewrite Htodo in Hff.
    destruct (is_wait a) eqn:Hw.
    + (* the task arrives at the barrier *)
      destruct a; try discriminate. simpl in Hstep.
      destruct (Nat.eqb (bsize s) (S (s_arrived s))) eqn:Hfull; inversion Hstep; subst; clear Hstep.
      * (* last arrival: release *)
        assert (Hall : arrived_all (length (s_tasks s)) (log ++ [EvAct i ABarrierWait; EvRelease])).
        { intros j Hj. apply in_or_app.
          destruct (Nat.eq_dec i j) as [->|Hne]; [right; left; reflexivity|].
          left. destruct (nth_error (s_tasks s) j) as [tj|] eqn:Hjn.
          - destruct (t_blocked tj) eqn:Hbj; [apply (Ht _ _ Hjn); assumption|].
            exfalso. pose proof (cb_two _ _ _ _ _ Hne Hi Hjn Hb Hbj).
            apply Nat.eqb_eq in Hfull. unfold bsize in Hfull. lia.
          - apply nth_error_None in Hjn. lia. }
        split; [|left; assumption].
        apply good_app_nonet; [assumption|]. intros e [<-|[<-|[]]]; reflexivity.
      * (* not the last one: it blocks *)
        split; [apply good_app_nonet; [assumption | apply no_net_single]|]. right.
        unfold PreInv. simpl. split; [assumption|]. split; [assumption|]. split.
        -- rewrite (cb_upd_block _ _ _ _ Hi Hb); [rewrite Ha; reflexivity | reflexivity].
        -- intros j tj Hj. destruct (Nat.eq_dec i j) as [->|Hne].
           ++ rewrite (nth_upd_eq _ _ _ _ Hi) in Hj. inversion Hj; subst tj. simpl.
              split; [intros _; apply in_or_app; right; left; reflexivity | intro; discriminate].
           ++ rewrite (nth_upd_neq _ _ _ _ Hne) in Hj. destruct (Ht _ _ Hj) as [H1 H2].
              split; [intro Hb0; apply in_or_app; left; auto | assumption].
    + destruct (ffbw_tail _ _ _ Hff Hw) as [Hmf Hrest].
      assert (Hgoal : forall hs, hs = [] ->
                (mkSys (upd (s_tasks s) i (mkTask (t_res t) rest false)) (s_arrived s) (s_frames s) hs,
                 [EvAct i a]) = (s', evs) ->
                good (length (s_tasks s)) (log ++ evs) /\ (arrived_all (length (s_tasks s)) (log ++ evs) \/ PreInv s' (log ++ evs))).
      { intros hs Hhs E. inversion E; subst s' evs.
        split; [apply good_app_nonet; [assumption | apply no_net_single]|].
        right. apply pre_progress; assumption. }
      destruct a; try discriminate; cbv beta iota zeta in Hstep;
        try (rewrite Hmf in Hstep; apply (Hgoal (s_helpers s) Hh); exact Hstep).
      (* ASpawn b with b = false *)
      simpl in Hmf. subst may_send. apply (Hgoal (s_helpers s) Hh). exact Hstep.
  - rewrite Hh in Hstep. simpl in Hstep. inversion Hstep; subst. exact Hsame.
  - rewrite Hf in Hstep. simpl in Hstep. inversion Hstep; subst. exact Hsame.
Qed.

Lemma step_phase : forall n s log c s' evs,
  PhaseInv n s log -> step s c = (s', evs) -> PhaseInv n s' (log ++ evs).
Proof.
  intros n s log c s' evs [Hlen [Hg Hor]] Hstep.
  split; [rewrite (step_length _ _ _ _ Hstep); assumption|].
  destruct Hor as [Hall|Hpre].
  - split; [apply good_app_all; assumption | left; apply arrived_all_app; assumption].
  - eapply step_pre; eassumption.
Qed.

Lemma run_phase : forall sched n s log, PhaseInv n s log -> good n (log ++ run s sched).
Proof.
  induction sched as [|c r IH]; intros n s log H; simpl.
  - rewrite app_nil_r. apply H.
  - destruct (step s c) as [s' evs] eqn:E. rewrite app_assoc. apply IH. eapply step_phase; eassumption.
Qed.

Lemma count_blocked_init : forall cfg,
  count_blocked (map (fun x : bool * list action => mkTask (fst x) (snd x) false) cfg) = 0.
Proof. induction cfg; simpl; auto. Qed.

Lemma init_phase : forall cfg,
  (forall x, In x cfg -> ffbw (fst x) (snd x) = true) -> PhaseInv (length cfg) (init cfg) [].
Proof.
  intros cfg H. unfold PhaseInv, init. simpl. split; [apply map_length|]. split.
  - intros pre ev post E. destruct pre; discriminate.
  - right. unfold PreInv. simpl. split; [reflexivity|]. split; [reflexivity|]. split.
    + symmetry. apply count_blocked_init.
    + intros j t Hj. destruct (nth_map_some _ _ _ _ Hj) as [x [Hx ->]]. simpl.
      split; [intro; discriminate | intros _; apply H; eapply nth_error_In; eassumption].
Qed.

(* for ALL interleavings: no frame on any network and no delivery before the last task reached the barrier *)
Theorem barrier_all_interleavings : forall cfg sched,
  (forall x, In x cfg -> frame_free_before_wait (fst x) (snd x) = true) ->
  forall pre ev post, run (init cfg) sched = pre ++ ev :: post -> net_event ev = true ->
  forall i, i < length cfg -> In (EvAct i ABarrierWait) pre.
Proof.
  intros cfg sched H pre ev post E Hnet.
  pose proof (run_phase sched _ _ _ (init_phase cfg H)) as Hg. simpl in Hg.
  exact (Hg pre ev post E Hnet).
Qed.

(* the hypothesis is satisfiable: a machine [Udp; Ipv4; Pci; Capture; SendMessage] that resolves through ARP *)
Example barrier_hypothesis_satisfiable :
  forall x, In x (map (fun p => (true, row p)) [PUdp; PIpv4; PPci; PArp; PCapture; PSendMessage]) ->
            frame_free_before_wait (fst x) (snd x) = true.
Proof. simpl. intros x H. repeat (destruct H as [<-|H]; [reflexivity|]). destruct H. Qed.

(* and it is needed: Forward's row, on a machine that resolves through ARP, frames before anyone arrived *)
Lemma forward_frames_before_barrier :
  run (init [(true, row PForward); (true, row PPci)]) [CStep 0 1; CDeliver 1] =
  [EvAct 0 AOpen; EvFrame 0; EvDeliver 1].
Proof. vm_compute. reflexivity. Qed.

(* ================================================================== 3. the run task *)

Section AnyRecv.
Variable rcv : list status -> bool -> option status -> option status.

Lemma rstep_done : forall s e, r_done s = true -> rstep_gen rcv s e = (s, None).
Proof. intros s e H. unfold rstep_gen. rewrite H. reflexivity. Qed.

Lemma rrun_done : forall evs s, r_done s = true -> rrun_gen rcv s evs = [].
Proof.
  induction evs as [|[t e] r IH]; intros s H; simpl; [reflexivity|].
  rewrite (rstep_done _ _ H). apply IH. assumption.
Qed.

Lemma rstep_some_done : forall s e s' st, rstep_gen rcv s e = (s', Some st) -> r_done s' = true.
Proof.
  intros s e s' st H. unfold rstep_gen in H. destruct (r_done s); [discriminate|].
  destruct e; try discriminate; destruct (rcv (r_queue s) (r_closed s) (r_first s)); inversion H; reflexivity.
Qed.

Lemma rstep_none_notdone : forall s e s', r_done s = false -> rstep_gen rcv s e = (s', None) -> r_done s' = false.
Proof.
  intros s e s' Hd H. unfold rstep_gen in H. rewrite Hd in H.
  destruct e; try (inversion H; reflexivity);
    destruct (rcv (r_queue s) (r_closed s) (r_first s)); inversion H; subst; assumption.
Qed.

(* a run returns at most once *)
Lemma once_gen : forall evs s, length (rrun_gen rcv s evs) <= 1.
Proof.
  induction evs as [|[t e] r IH]; intro s; simpl; [lia|].
  destruct (rstep_gen rcv s e) as [s' [st|]] eqn:E.
  - rewrite (rrun_done r s' (rstep_some_done _ _ _ _ E)). simpl. lia.
  - apply IH.
Qed.

(* whatever happens before it, the outer deadline makes the run return, no later than d + 1 s *)
Lemma deadline_from : forall D evs s,
  r_done s = false -> Forall (fun x => (fst x <= D)%N) evs ->
  exists t st, rrun_gen rcv s (evs ++ [(D, RDeadline)]) = [(t, st)] /\ (t <= D)%N.
Proof.
  induction evs as [|[t0 e0] r IH]; intros s Hd Hall; simpl.
  - unfold rstep_gen. rewrite Hd. destruct (rcv (r_queue s) (r_closed s) (r_first s));
      eexists; eexists; (split; [reflexivity | lia]).
  - inversion Hall; subst. simpl in H1.
    destruct (rstep_gen rcv s e0) as [s' [st|]] eqn:E.
    + rewrite (rrun_done _ s' (rstep_some_done _ _ _ _ E)). exists t0, st. auto.
    + apply IH; [eapply rstep_none_notdone; eassumption | assumption].
Qed.

Definition reqs_of (l : list (N * rin)) : list status :=
  flat_map (fun x => match snd x with RReq st => [st] | _ => [] end) l.

Definition closed_in (l : list (N * rin)) : bool :=
  existsb (fun x => match snd x with RClosed => true | _ => false end) l.

(* Shutdown.first is the head of everything requested so far *)
Definition first_inv (s : rstate) : Prop := r_first s = hd_error (r_queue s).

(* the returning poll reads the queue of everything requested before it *)
Lemma rrun_result : forall evs s t st,
  r_done s = false -> first_inv s -> rrun_gen rcv s evs = [(t, st)] ->
  exists pre e post, evs = pre ++ (t, e) :: post /\ (e = RPoll \/ e = RDeadline) /\
    let q := r_queue s ++ reqs_of pre in
    let c := r_closed s || closed_in pre in
    (rcv q c (hd_error q) = Some st \/ (e = RDeadline /\ rcv q c (hd_error q) = None /\ st = TimedOut)).
Proof.
  induction evs as [|[t0 e0] r IH]; intros s t st Hd Hf H; simpl in H; [discriminate|].
  destruct (rstep_gen rcv s e0) as [s' o] eqn:E. unfold rstep_gen in E. rewrite Hd in E.
  unfold first_inv in Hf.
  destruct e0.
  - (* RReq *)
    inversion E; subst; clear E.
    match type of H with rrun_gen _ ?s1 _ = _ =>
      assert (Hf1 : first_inv s1)
    end.
    { unfold first_inv. simpl. rewrite Hf. destruct (r_queue s); reflexivity. }
    match type of H with rrun_gen _ ?s1 _ = _ =>
      destruct (IH s1 _ _ eq_refl Hf1 H) as [pre [e [post [-> [He Hr]]]]] end.
    exists ((t0, RReq st0) :: pre), e, post. split; [reflexivity|]. split; [assumption|].
    simpl in *. rewrite <- app_assoc in Hr. simpl in Hr. exact Hr.
  - (* RJoined *)
    inversion E; subst; clear E.
    match type of H with rrun_gen _ ?s1 _ = _ =>
      destruct (IH s1 _ _ eq_refl Hf H) as [pre [e [post [-> [He Hr]]]]] end.
    exists ((t0, RJoined) :: pre), e, post. split; [reflexivity|]. split; [assumption|]. simpl in *. exact Hr.
  - (* RClosed *)
    inversion E; subst; clear E.
    match type of H with rrun_gen _ ?s1 _ = _ =>
      destruct (IH s1 _ _ eq_refl Hf H) as [pre [e [post [-> [He Hr]]]]] end.
    exists ((t0, RClosed) :: pre), e, post. split; [reflexivity|]. split; [assumption|].
    simpl in *. rewrite orb_true_r. exact Hr.
  - (* RPoll *)
    destruct (rcv (r_queue s) (r_closed s) (r_first s)) as [st1|] eqn:Er; inversion E; subst; clear E.
    + rewrite rrun_done in H by reflexivity. inversion H; subst.
      exists [], RPoll, r. split; [reflexivity|]. split; [left; reflexivity|]. left. simpl.
      rewrite app_nil_r, orb_false_r, <- Hf. assumption.
    + destruct (IH _ _ _ Hd Hf H) as [pre [e [post [-> [He Hr]]]]].
      exists ((t0, RPoll) :: pre), e, post. split; [reflexivity|]. split; [assumption|]. simpl. exact Hr.
  - (* RDeadline *)
    destruct (rcv (r_queue s) (r_closed s) (r_first s)) as [st1|] eqn:Er; inversion E; subst; clear E;
      rewrite rrun_done in H by reflexivity; inversion H; subst;
      exists [], RDeadline, r; (split; [reflexivity|]); (split; [right; reflexivity|]); simpl;
      rewrite app_nil_r, orb_false_r, <- Hf.
    + left. assumption.
    + right. auto.
Qed.

End AnyRecv.

Theorem run_returns_at_most_once : forall evs s, length (rrun s evs) <= 1.
Proof. exact (once_gen recv). Qed.

(* the repaired get_status: the head of the queue, however many requests are queued *)
Lemma recv_first : forall st more c, recv (st :: more) c (Some st) = Some st.
Proof. intros st more c. unfold recv. destruct (Nat.leb (length (st :: more)) capacity); reflexivity. Qed.

Lemma recv_nil : forall c f, recv [] c f = if c then Some Exited else None.
Proof. reflexivity. Qed.

(* result = the first status requested before the returning poll -- no bound on the number of queued
   requests --, Exited if every sender was dropped, TimedOut only from the outer deadline *)
Theorem run_status : forall evs t st,
  rrun rinit evs = [(t, st)] ->
  exists pre e post, evs = pre ++ (t, e) :: post /\ (e = RPoll \/ e = RDeadline) /\
    (forall first more, reqs_of pre = first :: more -> st = first) /\
    (reqs_of pre = [] -> (closed_in pre = true /\ st = Exited) \/ (e = RDeadline /\ st = TimedOut)).
Proof.
  intros evs t st H.
  destruct (rrun_result recv evs rinit t st eq_refl eq_refl H) as [pre [e [post [E [He Hr]]]]].
  exists pre, e, post. split; [assumption|]. split; [assumption|].
  cbv zeta in Hr. unfold rinit in Hr. cbn [r_queue r_closed app orb] in Hr. split.
  - intros first more Hq. rewrite Hq in Hr. cbn [hd_error] in Hr. rewrite recv_first in Hr.
    destruct Hr as [Hr|[_ [Hr _]]]; congruence.
  - intro Hq. rewrite Hq in Hr. cbn [hd_error] in Hr. rewrite recv_nil in Hr.
    destruct (closed_in pre); destruct Hr as [Hr|[He' [Hr Hs]]]; try discriminate.
    + left. split; [reflexivity | congruence].
    + right. auto.
Qed.

(* 17 requests before the run task is polled *)
Definition seventeen : list (N * rin) :=
  map (fun k => (0%N, RReq (Status (N.of_nat k)))) (seq 1 17) ++ [(0%N, RPoll)].

(* before commit 0cf74903 the first status was lost (oldest retained message = the second request) ... *)
Lemma lagged_first_status_lost_orig : rrun_orig rinit seventeen = [(0%N, Status 2)].
Proof. vm_compute. reflexivity. Qed.

(* ... the repaired code returns it *)
Lemma lagged_first_status_kept : rrun rinit seventeen = [(0%N, Status 1)].
Proof. vm_compute. reflexivity. Qed.

(* the plain shut_down() is a request like any other: first plain then 17 explicit ones, and the reverse *)
Definition plain_then_explicit : list (N * rin) :=
  (0%N, RReq Exited) :: map (fun k => (0%N, RReq (Status (N.of_nat k)))) (seq 1 17) ++ [(0%N, RPoll)].
Definition explicit_then_plain : list (N * rin) :=
  (0%N, RReq (Status 5)) :: map (fun _ => (0%N, RReq Exited)) (seq 1 17) ++ [(0%N, RPoll)].

Lemma lagged_plain_first :
  rrun rinit plain_then_explicit = [(0%N, Exited)] /\ rrun rinit explicit_then_plain = [(0%N, Status 5)].
Proof. split; vm_compute; reflexivity. Qed.

Lemma insert_timeout_head : forall d reqs,
  exists rest, insert_timeout d reqs =
    match reqs with
    | (t, s) :: _ => if N.ltb t d then (t, s) else (d, TimedOut)
    | [] => (d, TimedOut)
    end :: rest.
Proof.
  intros d [|[t s] r]; simpl; [eexists; reflexivity|].
  destruct (N.ltb t d); eexists; reflexivity.
Qed.

(* closed form with prompt polling: the first request if it is made before the timeout, else TimedOut at d *)
Theorem run_with_timeout_closed_form : forall d reqs,
  run_with_timeout d reqs =
  [match reqs with
   | (t, s) :: _ => if N.ltb t d then (t, s) else (d, TimedOut)
   | [] => (d, TimedOut)
   end].
Proof.
  intros d reqs. unfold run_with_timeout. destruct (insert_timeout_head d reqs) as [rest ->].
  set (x := match reqs with (t, s) :: _ => if N.ltb t d then (t, s) else (d, TimedOut) | [] => (d, TimedOut) end).
  destruct x as [t s]. unfold rrun. simpl. rewrite rrun_done by reflexivity. reflexivity.
Qed.

Lemma predict_is_closed_form : forall d reqs,
  run_with_timeout d reqs =
  [let '(s, t) := predict (Some d) (match reqs with (t, s) :: _ => Some (s, t) | [] => None end) in (t, s)].
Proof.
  intros d reqs. rewrite run_with_timeout_closed_form. destruct reqs as [|[t s] r]; simpl; [reflexivity|].
  destruct (N.ltb t d); reflexivity.
Qed.

Theorem run_deadline : forall d evs,
  Forall (fun x => (fst x <= d + second_ns)%N) evs ->
  exists t st, rrun rinit (evs ++ [((d + second_ns)%N, RDeadline)]) = [(t, st)] /\ (t <= d + second_ns)%N.
Proof. intros. apply (deadline_from recv); [reflexivity | assumption]. Qed.

(* ================================================================== 4. the validator *)

Lemma memb_false : forall x l, memb x l = false -> ~ In x l.
Proof.
  intros x l H Hin. unfold memb in H.
  assert (existsb (Nat.eqb x) l = true) by (apply existsb_exists; exists x; split; [assumption | apply Nat.eqb_refl]).
  congruence.
Qed.

Lemma pigeon : forall n seen,
  NoDup seen -> (forall x, In x seen -> x < n) -> length seen = n -> forall i, i < n -> In i seen.
Proof.
  intros n seen Hnd Hb Hlen i Hi.
  assert (incl (seq 0 n) seen).
  { apply NoDup_length_incl; [assumption | rewrite seq_length; lia |].
    intros x Hx. apply in_seq. specialize (Hb _ Hx). lia. }
  apply H. apply in_seq. lia.
Qed.

Lemma check_barrier_sound_gen : forall napps tr seen,
  NoDup seen -> (forall x, In x seen -> x < napps) ->
  check_barrier napps (fun _ => false) seen false tr = true ->
  forall pre o post, tr = pre ++ o :: post -> obs_net o = true ->
  forall i, i < napps -> In i seen \/ In (OArrive i) pre.
Proof.
  induction tr as [|o0 r IH]; intros seen Hnd Hb Hc pre o post E Hnet i Hi.
  - destruct pre; discriminate.
  - destruct pre as [|p pre]; simpl in E; inversion E; subst; clear E.
    + (* the event itself *)
      left. simpl in Hc.
      assert (Hfull : Nat.eqb (length seen) napps = true).
      { destruct o; try discriminate; simpl in Hc;
          destruct (Nat.eqb (length seen) napps); try reflexivity; simpl in Hc;
          rewrite ?andb_false_r in Hc; try discriminate. }
      apply Nat.eqb_eq in Hfull. eapply pigeon; eassumption.
    + simpl in Hc. destruct p.
      * (* OArrive *)
        destruct (memb i0 seen) eqn:Hm; [discriminate|]. simpl in Hc.
        destruct (Nat.ltb i0 napps) eqn:Hlt; [|discriminate]. simpl in Hc.
        apply Nat.ltb_lt in Hlt.
        assert (Hnd' : NoDup (i0 :: seen)) by (constructor; [apply memb_false; assumption | assumption]).
        assert (Hb' : forall x, In x (i0 :: seen) -> x < napps) by (intros x [<-|Hx]; auto).
        destruct (IH _ Hnd' Hb' Hc pre o post eq_refl Hnet i Hi) as [[<-|Hs]|Hp].
        -- right. left. reflexivity.
        -- left. assumption.
        -- right. right. assumption.
      * apply andb_true_iff in Hc. destruct Hc as [_ Hc].
        destruct (IH _ Hnd Hb Hc pre o post eq_refl Hnet i Hi); [left | right; right]; assumption.
      * destruct (Nat.eqb (length seen) napps).
        -- destruct (IH _ Hnd Hb Hc pre o post eq_refl Hnet i Hi); [left | right; right]; assumption.
        -- rewrite andb_false_r in Hc. discriminate.
      * apply andb_true_iff in Hc. destruct Hc as [_ Hc].
        destruct (IH _ Hnd Hb Hc pre o post eq_refl Hnet i Hi); [left | right; right]; assumption.
      * apply andb_true_iff in Hc. destruct Hc as [_ Hc].
        destruct (IH _ Hnd Hb Hc pre o post eq_refl Hnet i Hi); [left | right; right]; assumption.
      * destruct (IH _ Hnd Hb Hc pre o post eq_refl Hnet i Hi); [left | right; right]; assumption.
      * destruct (IH _ Hnd Hb Hc pre o post eq_refl Hnet i Hi); [left | right; right]; assumption.
      * destruct (IH _ Hnd Hb Hc pre o post eq_refl Hnet i Hi); [left | right; right]; assumption.
Qed.

Lemma check_barrier_ext : forall napps ok tr seen taint,
  (forall m, ok m = false) ->
  check_barrier napps ok seen taint tr = check_barrier napps (fun _ => false) seen taint tr.
Proof.
  induction tr as [|o r IH]; intros seen taint H; simpl; [reflexivity|].
  destruct o; rewrite ?IH by assumption; try reflexivity.
  rewrite H. rewrite ?IH by assumption. reflexivity.
Qed.

Lemma early_ok_disciplined : forall ms, all_disciplined ms = true -> forall m, early_ok ms m = false.
Proof.
  intros ms H m. unfold early_ok. destruct (nth_error ms m) as [[res ps]|] eqn:E; [|reflexivity].
  unfold all_disciplined in H. rewrite forallb_forall in H.
  specialize (H _ (nth_error_In _ _ E)). simpl in H. rewrite forallb_forall in H.
  destruct (existsb (fun p => negb (ffbw res (row p))) ps) eqn:Ex; [|reflexivity].
  apply existsb_exists in Ex. destruct Ex as [p [Hp Hn]]. rewrite (H _ Hp) in Hn. discriminate.
Qed.

(* what an accepted trace guarantees *)
Theorem validate_sound : forall c tr st t,
  validate c tr st t = Accept ->
  (all_disciplined (v_machines c) = true ->
   forall pre o post, tr = pre ++ o :: post -> obs_net o = true ->
   forall i, i < v_napps c -> In (OArrive i) pre) /\
  (forall d, v_timeout c = Some d ->
     (t <= d + second_ns + v_slack c)%N) /\
  (v_paused c = true -> (v_napps c <> 0 \/ existsb (status_eqb st) (v_builtin_sts c) = false) ->
     check_paused (v_timeout c) tr st t = true).
Proof.
  intros c tr st t H. unfold validate in H.
  destruct (check_barrier (v_napps c) (early_ok (v_machines c)) [] false tr) eqn:Hb; simpl in H; [|discriminate].
  destruct (deadline_ok (v_timeout c) (v_slack c) t) eqn:Hd; simpl in H; [|discriminate].
  split; [|split].
  - intros Hdis pre o post E Hnet i Hi.
    rewrite (check_barrier_ext _ _ _ _ _ (early_ok_disciplined _ Hdis)) in Hb.
    destruct (check_barrier_sound_gen _ _ [] (NoDup_nil _) (fun x (F : In x []) => match F with end) Hb
                pre o post E Hnet i Hi) as [[]|Hp].
    assumption.
  - intros d Ht. unfold deadline_ok in Hd. rewrite Ht in Hd. apply N.leb_le in Hd. exact Hd.
  - intros Hp Hor. rewrite Hp in H.
    destruct (Nat.eqb (v_napps c) 0 && existsb (status_eqb st) (v_builtin_sts c)) eqn:Hloose.
    + apply andb_true_iff in Hloose. destruct Hloose as [H0 H1]. apply Nat.eqb_eq in H0.
      destruct Hor as [Hor|Hor]; [congruence | rewrite Hor in H1; discriminate].
    + destruct (check_paused (v_timeout c) tr st t); [reflexivity | discriminate].
Qed.

Lemma status_eqb_eq : forall a b, status_eqb a b = true -> a = b.
Proof.
  intros [x| |] [y| |] H; simpl in H; try discriminate; try reflexivity.
  apply N.eqb_eq in H. subst. reflexivity.
Qed.

(* an accepted exact run without a tie is the closed form of the run model *)
Theorem check_paused_predict : forall d tr st t,
  check_paused (Some d) tr st t = true ->
  (forall s, first_req tr <> Some (s, d)) ->
  (st, t) = predict (Some d) (first_req tr).
Proof.
  intros d tr st t H Htie. unfold check_paused in H.
  destruct (first_req tr) as [[s t0]|] eqn:Ef; simpl.
  - destruct (N.ltb t0 d) eqn:Hlt.
    + apply andb_true_iff in H. destruct H as [H1 H2].
      apply status_eqb_eq in H1. apply N.eqb_eq in H2. subst. reflexivity.
    + destruct (N.eqb t0 d) eqn:Heq.
      * apply N.eqb_eq in Heq. subst. exfalso. apply (Htie s). reflexivity.
      * apply andb_true_iff in H. destruct H as [H1 H2].
        apply status_eqb_eq in H1. apply N.eqb_eq in H2. subst. reflexivity.
  - apply andb_true_iff in H. destruct H as [H1 H2].
    apply status_eqb_eq in H1. apply N.eqb_eq in H2. subst. reflexivity.
Qed.

(* ================================================================== 5. built-in configurations *)

Lemma row_ffbw : forall res p, (p = PForward -> res = false) -> frame_free_before_wait res (row p) = true.
Proof.
  intros res p H. destruct res.
  - assert (p <> PForward) by (intro E; specialize (H E); discriminate).
    pose proof (row_disciplined_except_forward p H0) as D. unfold disciplined in D.
    apply andb_true_iff in D. apply D.
  - pose proof (row_disciplined_not_resolving p) as D. unfold disciplined in D.
    apply andb_true_iff in D. apply D.
Qed.

(* any mix of the built-in protocols, Forward only on machines whose routes name the MAC or that have no Arp *)
Theorem barrier_builtin : forall (cfg : list (bool * proto)) sched,
  (forall res p, In (res, p) cfg -> p = PForward -> res = false) ->
  forall pre ev post,
    run (init (map (fun x => (fst x, row (snd x))) cfg)) sched = pre ++ ev :: post -> net_event ev = true ->
    forall i, i < length cfg -> In (EvAct i ABarrierWait) pre.
Proof.
  intros cfg sched H pre ev post E Hnet i Hi.
  eapply barrier_all_interleavings; try eassumption.
  - intros x Hx. apply in_map_iff in Hx. destruct Hx as [[res p] [<- Hin]]. simpl.
    apply row_ffbw. intro Ep. eapply H; eassumption.
  - rewrite map_length. assumption.
Qed.

Lemma table_has_offender :
  exists r, In r builtin_table /\ frame_free_before_wait true (snd r) = false.
Proof. exists (PForward, row PForward). split; [apply builtin_table_rows | reflexivity]. Qed.
