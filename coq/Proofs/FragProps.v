(* Statements in the exact form pinned in Props/C10.v, plus witnesses. *)
From Elvis Require Import Model.Base Model.Frag Proofs.FragFacts Proofs.FragChain.
From Coq Require Import ZifyBool.
Local Open Scope Z_scope.
Ltac Zify.zify_post_hook ::= Z.div_mod_to_equations.

(* the property's predicate, every conjunct spelled out *)
Definition PartitionSpec {A : Type} (o : hdr) (body : list A) (mtu : Z) (frs : list (frag A)) : Prop :=
  frs <> [] /\
  concat (map snd frs) = body /\
  (forall i h p, nth_error frs i = Some (h, p) ->
     (* fits the MTU; header length + payload length *)
     total_length h <= mtu /\
     total_length h = 4 * ihl o + Z.of_nat (length p) /\
     (* position: recorded offset = original offset + bytes of the earlier pieces *)
     8 * fragment_offset h = 8 * fragment_offset o + sumlen (firstn i frs) /\
     (* every field the fragmentation must not touch *)
     ihl h = ihl o /\ oth h = oth o /\
     (* flags: the piece that ends the datagram keeps the original flags (so MF = MF_orig);
        every earlier piece has the original flags with MF set, and a payload of whole 8-byte blocks *)
     (S i = length frs -> flags h = flags o) /\
     (S i <> length frs -> flags h = set_mf (flags o) /\ Z.of_nat (length p) mod 8 = 0)) /\
  (* several pieces => none is empty *)
  (length frs = 1%nat \/ Forall (fun f : frag A => snd f <> []) frs).

Lemma Partition_spec {A : Type} o (body : list A) mtu frs :
  Partition o body mtu frs <-> PartitionSpec o body mtu frs.
Proof.
  unfold PartitionSpec. split.
  - intros [H1 H2 H3 H4]. split; [exact H1|]. split; [exact H2|]. split; [|exact H4].
    intros i h p Hn. specialize (H3 i (h, p) Hn). unfold PieceOK, plen in H3; cbn [fst snd] in H3.
    destruct H3 as (Q1 & Q2 & Q3 & Q4 & Q5 & Q6).
    split; [exact Q1|]. split; [exact Q2|]. split; [exact Q5|]. split; [exact Q3|]. split; [exact Q4|].
    split.
    + intros E. apply Nat.eqb_eq in E. rewrite E in Q6. exact Q6.
    + intros E. apply Nat.eqb_neq in E. rewrite E in Q6. exact Q6.
  - intros (H1 & H2 & H3 & H4). constructor; try assumption.
    intros i [h p] Hn. specialize (H3 i h p Hn).
    destruct H3 as (Q1 & Q2 & Q3 & Q4 & Q5 & Q6 & Q7).
    unfold PieceOK, plen; cbn [fst snd]. repeat split; try assumption.
    destruct (Nat.eqb (S i) (length frs)) eqn:E.
    + apply Nat.eqb_eq in E. apply Q6, E.
    + apply Nat.eqb_neq in E. apply Q7, E.
Qed.

Lemma partition_ok_spec {A : Type} (eqb : A -> A -> bool) :
  (forall x y, eqb x y = true <-> x = y) ->
  forall o body mtu frs, partition_ok eqb o body mtu frs = true <-> PartitionSpec o body mtu frs.
Proof. intros He o body mtu frs. rewrite (partition_ok_iff eqb He). apply Partition_spec. Qed.

(* flags reading *)
Lemma flags_reading f :
  is_last_fragment (set_mf f) = false /\
  may_fragment (set_mf f) = may_fragment f /\
  set_mf (set_mf f) = set_mf f /\
  (0 <= f < 4 -> set_mf f = Z.lor f 1 /\ 0 <= set_mf f < 4).
Proof.
  split; [apply is_last_set_mf|]. split; [apply may_fragment_set_mf|].
  split; [apply set_mf_idem | apply set_mf_valid].
Qed.

(* the theorems' domain contains every header a parser can produce *)
Lemma valid_domain {A : Type} h (body : list A) :
  ihl h = 5 -> Z.of_nat (length body) <= 65515 ->
  total_length h = 20 + Z.of_nat (length body) -> 0 <= fragment_offset h <= 8191 ->
  Valid h body /\ (forall mtu, 68 <= mtu <= 65535 -> MtuOk h mtu).
Proof.
  intros Hi Hl Ht Hf. split.
  - apply Valid_of_fields; unfold len, U16MAX; lia.
  - intros mtu Hm. unfold MtuOk, U16MAX. lia.
Qed.

Lemma domain_ok_iff {A : Type} h (body : list A) mtu :
  (valid_ok h body = true <-> Valid h body) /\ (mtu_ok h mtu = true <-> MtuOk h mtu).
Proof. split; [apply valid_ok_iff | apply mtu_ok_iff]. Qed.

(* C10_fragment in one statement *)
Lemma fragment_spec {A : Type} h (body : list A) mtu :
  Valid h body -> MtuOk h mtu -> may_fragment (flags h) = true -> mtu < total_length h ->
  exists frs, fragment h body mtu = Ok (Fragmented frs) /\ PartitionSpec h body mtu frs /\
              (2 <= length frs)%nat /\ Forall (fun f : frag A => snd f <> []) frs.
Proof.
  intros Hv Hm Hdf Hbig.
  destruct (fragment_fragments h body mtu Hv Hm Hdf Hbig) as (frs & H1 & H2 & H3 & H4).
  exists frs. split; [exact H1|]. split; [apply Partition_spec, H2|]. split; assumption.
Qed.

Lemma refragment_spec {A : Type} o (body : list A) m m' frs pss :
  PartitionSpec o body m frs ->
  Forall2 (fun f ps => PartitionSpec (fst f) (snd f) m' ps) frs pss ->
  PartitionSpec o body m' (concat pss).
Proof.
  intros HP HF. apply Partition_spec. apply (refragment_partition o body m m' frs pss).
  - apply Partition_spec, HP.
  - clear HP. induction HF as [|f ps frs' pss' H HF IH]; [apply Forall2_nil | apply Forall2_cons; [apply Partition_spec, H | exact IH]].
Qed.

Lemma refrag_step_spec {A : Type} o (body : list A) m m' frs :
  PartitionSpec o body m frs -> Valid o body -> MtuOk o m' -> may_fragment (flags o) = true ->
  exists rs frs', refrag_all m' frs = Ok rs /\ flatten rs = Some frs' /\ PartitionSpec o body m' frs'.
Proof.
  intros HP Hv Hm Hdf. apply Partition_spec in HP.
  destruct (refrag_step o body m m' frs HP Hv Hm Hdf) as (rs & frs' & H1 & H2 & H3).
  exists rs, frs'. split; [exact H1|]. split; [exact H2 | apply Partition_spec, H3].
Qed.

Lemma chain_spec {A : Type} mtus o (body : list A) m :
  Valid o body -> may_fragment (flags o) = true -> Forall (MtuOk o) (mtus ++ [m]) ->
  exists frs, chain (mtus ++ [m]) [(o, body)] = Ok (Some frs) /\ PartitionSpec o body m frs.
Proof.
  intros Hv Hdf Hall. destruct (chain_from_datagram mtus o body m Hv Hdf Hall) as (frs & H1 & H2).
  exists frs. split; [exact H1 | apply Partition_spec, H2].
Qed.

Lemma weaken_spec {A : Type} o (body : list A) m m' frs :
  m <= m' -> PartitionSpec o body m frs -> PartitionSpec o body m' frs.
Proof. intros Hle HP. apply Partition_spec. apply (Partition_weaken o body m m'); [exact Hle | apply Partition_spec, HP]. Qed.

Lemma offsets_13bit_spec {A : Type} o (body : list A) mtu frs f :
  PartitionSpec o body mtu frs -> Valid o body ->
  8 * fragment_offset o + Z.of_nat (length body) <= 65535 ->
  In f frs -> 0 <= fragment_offset (fst f) <= 8191.
Proof.
  intros HP Hv Hfit Hin. apply (Partition_offsets_13bit o body mtu frs f); try assumption.
  apply Partition_spec, HP.
Qed.

Definition OutcomeSpec {A : Type} (h : hdr) (body : list A) (mtu : Z) (r : fragments A) : Prop :=
  match r with
  | DontFragment f => total_length h <= mtu /\ f = (h, body)
  | Discard => mtu < total_length h /\ may_fragment (flags h) = false
  | Fragmented frs => mtu < total_length h /\ may_fragment (flags h) = true /\ PartitionSpec h body mtu frs
  end.

Lemma outcome_spec_iff {A : Type} (h : hdr) (body : list A) mtu r :
  OutcomeOK h body mtu r <-> OutcomeSpec h body mtu r.
Proof.
  destruct r; unfold OutcomeOK, OutcomeSpec; try tauto.
  rewrite Partition_spec. tauto.
Qed.

Lemma outcome_ok_spec {A : Type} (eqb : A -> A -> bool) :
  (forall x y, eqb x y = true <-> x = y) ->
  forall h body mtu r, outcome_ok eqb h body mtu r = true <-> OutcomeSpec h body mtu r.
Proof. intros He h body mtu r. rewrite (outcome_ok_iff eqb He). apply outcome_spec_iff. Qed.

Lemma fragment_outcome_spec {A : Type} h (body : list A) mtu :
  Valid h body -> MtuOk h mtu ->
  exists r, fragment h body mtu = Ok r /\ OutcomeSpec h body mtu r.
Proof.
  intros Hv Hm. destruct (fragment_outcome h body mtu Hv Hm) as (r & H1 & H2).
  exists r. split; [exact H1 | apply outcome_spec_iff, H2].
Qed.

(* ------------------------------------------------------------ witnesses *)

Definition ex_oth : others := mkOthers 0 4660 64 17 0 167772161 167772162.
Definition ex_hdr (tl fo fl : Z) : hdr := mkHdr 5 tl fo fl ex_oth.
Definition ex_body (n : nat) : list Z := map Z.of_nat (seq 0 n).

(* 30 payload bytes, MTU 37: NFB = (37-20)/8 = 2 -> pieces of 16 and 14 bytes *)
Lemma example_fragment :
  fragment (ex_hdr 50 0 0) (ex_body 30) 37 =
  Ok (Fragmented [ (ex_hdr 36 0 1, ex_body 16);
                   (ex_hdr 34 2 0, map Z.of_nat (seq 16 14)) ]).
Proof. vm_compute. reflexivity. Qed.

Lemma example_hypotheses :
  Valid (ex_hdr 50 0 0) (ex_body 30) /\ MtuOk (ex_hdr 50 0 0) 37 /\
  may_fragment (flags (ex_hdr 50 0 0)) = true /\ 37 < total_length (ex_hdr 50 0 0).
Proof. unfold Valid, MtuOk, U16MAX. cbn. repeat split; lia. Qed.

(* a middle fragment (MF set, offset 100) fragmented again: the last piece keeps MF *)
Lemma example_refragment_middle :
  fragment (ex_hdr 44 100 1) (ex_body 24) 36 =
  Ok (Fragmented [ (ex_hdr 36 100 1, ex_body 16);
                   (ex_hdr 28 102 1, map Z.of_nat (seq 16 8)) ]).
Proof. vm_compute. reflexivity. Qed.

Lemma example_chain :
  chain [45; 29] [(ex_hdr 60 0 0, ex_body 40)] =
  Ok (Some [ (ex_hdr 28 0 1, ex_body 8);
             (ex_hdr 28 1 1, map Z.of_nat (seq 8 8));
             (ex_hdr 28 2 1, map Z.of_nat (seq 16 8));
             (ex_hdr 28 3 1, map Z.of_nat (seq 24 8));
             (ex_hdr 28 4 0, map Z.of_nat (seq 32 8)) ]).
Proof. vm_compute. reflexivity. Qed.

(* outside the property's quantifier *)
Lemma remark_offset_overflow :
  fragment (ex_hdr 36 65535 0) (ex_body 16) 28 = Panic SITE_FO.
Proof. vm_compute. reflexivity. Qed.

Lemma remark_short_body :
  fragment (ex_hdr 100 0 0) (ex_body 4) 28 = Panic SITE_CUT.
Proof. vm_compute. reflexivity. Qed.

Lemma remark_nfb0 {A : Type} fuel mtu h (body : list A) :
  0 <= ihl h -> 4 * ihl h <= mtu < 4 * ihl h + 8 -> mtu <= 65535 ->
  mtu < total_length h -> 0 <= fragment_offset h <= 65535 ->
  frag_rec fuel mtu h body = OutOfFuel.
Proof. apply frag_rec_nfb0. Qed.

Lemma remark_small_mtu {A : Type} fuel mtu h (body : list A) :
  0 <= ihl h <= 255 -> mtu < 4 * ihl h -> mtu < total_length h ->
  frag_rec (S fuel) mtu h body = Panic SITE_MTU_SUB.
Proof. apply frag_rec_small_mtu_panics. Qed.
