(* Concrete histories: the code BEFORE the repairs violates the property
   (model functions suffixed _orig), the repaired code handles the same
   histories, and the hypotheses of the positive theorems are satisfiable. *)
From Coq Require Import ZArith List Bool Lia.
From Elvis Require Import Model.Base Model.Reasm Proofs.ReasmFacts Proofs.ReasmTrace.
Import ListNotations.
Local Open Scope Z_scope.

(* a 16-octet datagram in two fragments of one 8-octet block each *)
Definition w_body : list Z := [0; 1; 2; 3; 4; 5; 6; 7; 8; 9; 10; 11; 12; 13; 14; 15].
Definition w_oh : hdr := mkHdr 5 0 36 7 0 0 64 17 0 1 2.
Definition w_p1 : hdr * list Z := (mkHdr 5 0 28 7 0 1 64 17 0 1 2, [0; 1; 2; 3; 4; 5; 6; 7]).
Definition w_p2 : hdr * list Z := (mkHdr 5 0 28 7 1 0 64 17 0 1 2, [8; 9; 10; 11; 12; 13; 14; 15]).
Definition w_D : bufid -> hdr * list Z := fun _ => (w_oh, w_body).
Definition w_key : bufid := (1, 2, 17, 7).
(* the second fragment arrives twice, then the first *)
Definition w_dup : list (event Z) :=
  [EvRecv (fst w_p2) (snd w_p2); EvRecv (fst w_p2) (snd w_p2); EvRecv (fst w_p1) (snd w_p1)].

Lemma w_wf : WfDgram w_oh w_body.
Proof. unfold WfDgram. cbn. lia. Qed.
Lemma w_piece1 : Piece w_oh w_body w_p1.
Proof. unfold Piece, pend. cbn. repeat split; try lia; try reflexivity. Qed.
Lemma w_piece2 : Piece w_oh w_body w_p2.
Proof. unfold Piece, pend. cbn. repeat split; try lia; try reflexivity. Qed.

Lemma w_dup_good : Forall (GoodEvent w_D) w_dup.
Proof.
  repeat constructor; try apply w_wf; try apply w_piece1; try apply w_piece2.
Qed.

(* original code: 24 octets come back for the 16-octet datagram *)
Lemma returns_original_orig_refuted :
  exists (D : bufid -> hdr * list Z) (evs : list (event Z)) r outs h m,
    Forall (GoodEvent D) evs /\ run_orig reasm_new evs = Ok (r, outs) /\
    In (ObsRecv (Complete h m)) outs /\ (h, m) <> D (buf_id h).
Proof.
  exists w_D, w_dup. eexists. eexists. eexists. eexists.
  split; [exact w_dup_good|]. split; [vm_compute; reflexivity|].
  split; [right; right; left; reflexivity|]. vm_compute. discriminate.
Qed.

(* repaired code, same history: the original datagram comes back *)
Lemma returns_original_witness :
  exists r t1 e1 t2 e2,
    run reasm_new w_dup =
      Ok (r, [ObsRecv (Incomplete t1 w_key e1); ObsRecv (Incomplete t2 w_key e2);
              ObsRecv (Complete w_oh w_body)]).
Proof. eexists. eexists. eexists. eexists. eexists. vm_compute. reflexivity. Qed.

(* original code: the first fragment arms the callback (k, 1); the datagram
   completes; its first fragment arrives again (the sender of elvis uses
   identification 0 for every datagram) and the stale callback discards the
   new buffer although a packet for k arrived after the callback was armed *)
Lemma expiry_orig_refuted :
  exists (h : hdr) (b : list Z) r1 t k e evs r2 outs,
    receive_orig reasm_new h b = Ok (r1, Incomplete t k e) /\
    run_orig r1 evs = Ok (r2, outs) /\
    recv_for k evs = true /\
    find k (r_segs r2) <> None /\ find k (r_segs (maybe_cull_orig r2 k e)) = None.
Proof.
  exists (fst w_p1), (snd w_p1). eexists. eexists. eexists. eexists.
  exists [EvRecv (fst w_p2) (snd w_p2); EvRecv (fst w_p1) (snd w_p1)]. eexists. eexists.
  split; [vm_compute; reflexivity|]. split; [vm_compute; reflexivity|].
  split; [vm_compute; reflexivity|]. split; [vm_compute; discriminate|vm_compute; reflexivity].
Qed.

(* repaired code, same history: the stale callback leaves the new buffer alone *)
Lemma expiry_witness :
  exists r1 t e r2 outs,
    receive reasm_new (fst w_p1) (snd w_p1) = Ok (r1, Incomplete t w_key e) /\
    run r1 [EvRecv (fst w_p2) (snd w_p2); EvRecv (fst w_p1) (snd w_p1)] = Ok (r2, outs) /\
    find w_key (r_segs r2) <> None /\ maybe_cull r2 w_key e = r2.
Proof.
  eexists. eexists. eexists. eexists. eexists.
  split; [vm_compute; reflexivity|]. split; [vm_compute; reflexivity|].
  split; [vm_compute; discriminate|vm_compute; reflexivity].
Qed.

(* the hypotheses of trace_returns_original are satisfiable *)
Lemma good_history_example :
  Forall (GoodEvent w_D) w_dup /\ Z.of_nat (length w_dup) < U64MAX.
Proof. split; [exact w_dup_good|]. cbn. unfold U64MAX. lia. Qed.
