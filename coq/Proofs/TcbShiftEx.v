(* C12 equivariance, part 6: concrete instances, evaluated independently on
   both sides by vm_compute.
   (1) a wrap-forcing pair of ISNs: A's sequence space wraps between the
       handshake and the data in the original run and does not in the shifted
       one; the hypotheses of the trace theorem hold and the two normal forms
       coincide.
   (2) the witness that a PLAIN shift of SND.WL2 is not preserved
       (simultaneous open, close in SYN-RECEIVED, then the peer's SYN-ACK):
       tcb.rs l.539-540 copies the ack FIELD of an ACK-less SYN into SND.WL2
       and ack_established_processing l.716-717 later compares it. *)
From Elvis Require Import Model.Base Model.U32 Model.Tcb Model.TcpNet
  Proofs.U32Facts Proofs.TcbShift Proofs.TcbShiftInv Proofs.TcbShiftOps Proofs.TcbShiftNet Proofs.TcbShiftObs.
Local Open Scope Z_scope.

Definition exC : config := mkCfg 1000 2000 4294967290 4294967000 1500 1500.
Definition ex_dA : Z := 100.
Definition ex_dB : Z := 500.
Definition exT : list label :=
  [LOpen SA; LEmit SA; LDeliver SA 0; LEmit SB; LDeliver SB 0; LEmit SA; LDeliver SA 0;
   LSend SA [1;2;3;4;5;6;7;8;9;10]; LEmit SA; LDeliver SA 0; LRecv SB; LEmit SB; LDeliver SB 0;
   LSend SB [7;7]; LTick SB 10; LDeliver SB 0; LRecv SA; LClose SA; LFair 3; LClose SB; LFair 3].

Definition live (e : endpoint) : option tcb := match e with ELive t => Some t | _ => None end.

Lemma ex_hyps : u32 (issA exC) /\ u32 (issB exC) /\ forallb closed_label exT = true /\
  run_ok exC (init_sys true) exT.
Proof.
  split; [|split; [|split]].
  - unfold u32, M32. cbn. lia.
  - unfold u32, M32. cbn. lia.
  - reflexivity.
  - apply run_okb_ok. vm_compute. reflexivity.
Qed.

(* both runs evaluated separately; the ISN-relative views are identical *)
Lemma ex_agree :
  nz_sys (shift_cfg ex_dA ex_dB exC) (run (shift_cfg ex_dA ex_dB exC) (init_sys true) exT) =
  nz_sys exC (run exC (init_sys true) exT) /\
  nz_obs_list (shift_cfg ex_dA ex_dB exC) exT (run_obs (shift_cfg ex_dA ex_dB exC) (init_sys true) exT) =
  nz_obs_list exC exT (run_obs exC (init_sys true) exT).
Proof. split; vm_compute; reflexivity. Qed.

(* the original run wraps (SND.NXT = 5 below SND.UNA = 2^32-5 after ten bytes),
   the shifted one does not; the data arrives all the same *)
Lemma ex_wraps :
  option_map (fun t => (snd_iss t, snd_una t, snd_nxt t)) (live (endA (run exC (init_sys true) (firstn 10 exT)))) =
    Some (4294967290, 4294967291, 5) /\
  option_map (fun t => (snd_iss t, snd_una t, snd_nxt t))
             (live (endA (run (shift_cfg ex_dA ex_dB exC) (init_sys true) (firstn 10 exT)))) =
    Some (94, 95, 105) /\
  delivered (run exC (init_sys true) exT) SB = [1;2;3;4;5;6;7;8;9;10] /\
  delivered (run (shift_cfg ex_dA ex_dB exC) (init_sys true) exT) SB = [1;2;3;4;5;6;7;8;9;10] /\
  delivered (run exC (init_sys true) exT) SA = [7;7] /\
  panicked (run exC (init_sys true) exT) = false.
Proof. repeat split; vm_compute; reflexivity. Qed.

(* ---- (2) SND.WL2 does not follow the shift ---- *)
Definition wC : config := mkCfg 1000 2000 5 77 1500 1500.
Definition w_dA : Z := 2999999995.
Definition wT : list label :=
  [LOpen SA; LOpen SB; LEmit SA; LEmit SB; LDeliver SA 0; LDeliver SB 0; LClose SA; LEmit SB; LDeliver SB 0].

Lemma wl2_not_shifted :
  u32 (issA wC) /\ u32 (issB wC) /\ forallb closed_label wT = true /\ run_ok wC (init_sys false) wT /\
  option_map (fun t => (st t, snd_wl1 t, snd_wl2 t, snd_wnd t))
             (live (endA (run wC (init_sys false) wT))) = Some (FinWait1, 77, 6, 65535) /\
  option_map (fun t => (st t, snd_wl1 t, snd_wl2 t, snd_wnd t))
             (live (endA (run (shift_cfg w_dA 0 wC) (init_sys false) wT))) = Some (FinWait1, 77, 0, 65535) /\
  wadd 6 w_dA = 3000000001.
Proof.
  split; [|split; [|split; [|split; [|split; [|split]]]]].
  - unfold u32, M32. cbn. lia.
  - unfold u32, M32. cbn. lia.
  - reflexivity.
  - apply run_okb_ok. vm_compute. reflexivity.
  - vm_compute. reflexivity.
  - vm_compute. reflexivity.
  - vm_compute. reflexivity.
Qed.

(* the plain shift is related to the original, and is THE related state when
   the four ghost fields are valid *)
Lemma trel_shift_tcb dO dP t : trel dO dP t (shift_tcb dO dP t).
Proof.
  unfold shift_tcb. eexists. split; [reflexivity|]. intros _. split; [split|]; reflexivity.
Qed.
