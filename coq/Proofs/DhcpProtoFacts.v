(* Facts about Model/DhcpProto.v: in every reachable state the addresses acknowledged to
   distinct clients are pairwise distinct, lie in the pool and are still withheld by the
   server's generator - for every trace without Release, and for every trace without
   duplication; the combination (duplication + release) is refuted by a witness trace.
   Pool exhaustion crashes the server (witness) and cannot happen while the pool is
   large enough (theorem). *)
From Coq Require Import ZifyBool Permutation.
From Elvis Require Import Model.Base Model.IpGen Proofs.IpGenFacts Model.DhcpProto.
Local Open Scope Z_scope.

(* ------------------------------------------------------------------ lists *)
Lemma In_remove_nth {A} i (l : list A) x : In x (remove_nth i l) -> In x l.
Proof.
  revert i; induction l as [|y t IH]; intros i H; destruct i; cbn [remove_nth] in H; auto.
  - right; auto.
  - destruct H as [->|H]; [left; auto|right; eauto].
Qed.

Lemma nth_error_perm {A} i (l : list A) m :
  nth_error l i = Some m -> Permutation l (m :: remove_nth i l).
Proof.
  revert i; induction l as [|y t IH]; intros i H; destruct i; cbn [nth_error remove_nth] in *; try discriminate.
  - inversion H; subst. apply Permutation_refl.
  - eapply perm_trans; [apply perm_skip, IH, H|apply perm_swap].
Qed.

Lemma remove_nth_none {A} i (l : list A) : nth_error l i = None -> remove_nth i l = l.
Proof.
  revert i; induction l as [|y t IH]; intros i H; destruct i; cbn [nth_error remove_nth] in *; try discriminate; auto.
  f_equal; auto.
Qed.

Lemma set_nth_same {A} i (l : list A) v : nth_error l i = Some v -> set_nth i v l = l.
Proof.
  revert i; induction l as [|y t IH]; intros i H; destruct i; cbn [nth_error set_nth] in *; try discriminate.
  - inversion H; subst; auto.
  - f_equal; auto.
Qed.

Lemma nth_error_set_nth {A} i j (l : list A) v old : nth_error l i = Some old ->
  nth_error (set_nth i v l) j = if Nat.eqb i j then Some v else nth_error l j.
Proof.
  revert i j; induction l as [|y t IH]; intros i j H; destruct i; cbn [nth_error set_nth] in *; try discriminate.
  - destruct j; reflexivity.
  - destruct j; cbn [nth_error Nat.eqb]; [reflexivity|]. eapply IH; eauto.
Qed.

(* ------------------------------------------------------------------ tokens: who has been told which address *)
Definition opt_tok (c : nat) (o : option Z) : list (nat * Z) :=
  match o with Some a => [(c, a)] | None => [] end.
Fixpoint client_tokens (k : nat) (cl : list (option Z)) : list (nat * Z) :=
  match cl with
  | [] => []
  | o :: t => opt_tok k o ++ client_tokens (S k) t
  end.
Definition msg_tok (m : msg) : list (nat * Z) :=
  if is_discover (m_type m) then [] else [(m_cid m, m_ip m)].
Definition msg_tokens (l : list msg) : list (nat * Z) := flat_map msg_tok l.
Definition tokens (st : state) : list (nat * Z) :=
  msg_tokens (net st) ++ client_tokens 0 (clients st).

Lemma msg_tokens_app l1 l2 : msg_tokens (l1 ++ l2) = msg_tokens l1 ++ msg_tokens l2.
Proof. unfold msg_tokens. apply flat_map_app. Qed.

Lemma msg_tokens_perm l l' : Permutation l l' -> Permutation (msg_tokens l) (msg_tokens l').
Proof.
  unfold msg_tokens. induction 1; cbn [flat_map].
  - constructor.
  - apply Permutation_app_head; auto.
  - rewrite !app_assoc. apply Permutation_app_tail, Permutation_app_comm.
  - eapply perm_trans; eauto.
Qed.

Lemma client_tokens_In cl : forall k c a,
  In (c, a) (client_tokens k cl) <-> (k <= c)%nat /\ nth_error cl (c - k) = Some (Some a).
Proof.
  induction cl as [|o t IH]; intros k c a; cbn [client_tokens].
  - split; [intros []|]. intros [_ H]. destruct (c - k)%nat; discriminate.
  - rewrite in_app_iff, IH. split.
    + intros [H|[H1 H2]].
      * destruct o as [b|]; cbn [opt_tok] in H; [|destruct H]. destruct H as [H|[]]. inversion H; subst.
        split; [lia|]. rewrite Nat.sub_diag. reflexivity.
      * split; [lia|]. replace (c - k)%nat with (S (c - S k)) by lia. exact H2.
    + intros [H1 H2]. destruct (Nat.eq_dec c k) as [->|Hne].
      * left. rewrite Nat.sub_diag in H2. cbn [nth_error] in H2. inversion H2; subst. left; reflexivity.
      * right. split; [lia|]. replace (c - k)%nat with (S (c - S k)) in H2 by lia. exact H2.
Qed.

Lemma acked_tokens st c a : acked st c a <-> In (c, a) (client_tokens 0 (clients st)).
Proof. unfold acked. rewrite client_tokens_In, Nat.sub_0_r. split; [intros; split; [lia|auto]|tauto]. Qed.

Lemma client_tokens_set cl : forall k c cur v, nth_error cl c = Some cur ->
  Permutation (opt_tok (k + c) cur ++ client_tokens k (set_nth c v cl))
              (opt_tok (k + c) v ++ client_tokens k cl).
Proof.
  induction cl as [|o t IH]; intros k c cur v H; destruct c; cbn [nth_error] in H; try discriminate.
  - inversion H; subst. cbn [set_nth client_tokens]. rewrite Nat.add_0_r.
    rewrite !app_assoc. apply Permutation_app_tail, Permutation_app_comm.
  - cbn [set_nth client_tokens]. specialize (IH (S k) c cur v H).
    replace (k + S c)%nat with (S k + c)%nat by lia.
    eapply perm_trans; [apply Permutation_app_swap_app|].
    eapply perm_trans; [apply Permutation_app_head, IH|]. apply Permutation_app_swap_app.
Qed.

(* ------------------------------------------------------------------ the server *)
Definition offer (c : nat) (a : Z) : msg := {| m_up := false; m_cid := c; m_type := Offer; m_ip := a |}.

Lemma avail_u32 g a : gen_u32 g -> avail g a -> u32 a.
Proof.
  unfold gen_u32. rewrite Forall_forall. intros Hg [r [Hr Ha]]. specialize (Hg r Hr).
  unfold range_u32, u32, inr in *. lia.
Qed.

Lemma server_discover g m : gen_u32 g -> m_type m = Discover ->
  (exists a g', server_demux g m = Ok (g', [offer (m_cid m) a]) /\ avail g a /\ gen_u32 g' /\
                forall b, avail g' b <-> avail g b /\ b <> a) \/
  (server_demux g m = Panic 60 /\ forall a, ~ avail g a).
Proof.
  intros Hg Ht. unfold server_demux. rewrite Ht.
  destruct (fetch_ip_spec g Hg) as [oa [g' [E H]]]. rewrite E; cbn [bind fst snd].
  destruct oa as [a|].
  - left. exists a, g'. destruct H as [H1 [H2 H3]]. auto.
  - right. destruct H as [_ H]. auto.
Qed.

Lemma server_release g m : gen_u32 g -> m_type m = Release -> u32 (m_ip m) ->
  exists g', server_demux g m = Ok (g', []) /\ gen_u32 g' /\
    forall b, avail g' b <-> avail g b \/ b = m_ip m.
Proof.
  intros Hg Ht Hu. unfold server_demux. rewrite Ht. unfold return_ip.
  destruct (net_new_1_wf _ Hu) as [Hwf Hone].
  destruct (return_subnet_spec g _ Hg Hwf) as [g' [E [Hg' Hs]]]. rewrite E; cbn [bind].
  exists g'. split; [reflexivity|]. split; [exact Hg'|]. intro b. rewrite Hs, Hone. reflexivity.
Qed.

(* ------------------------------------------------------------------ one step, classified *)
Inductive step_kind (st : state) (l : label) (st' : state) : Prop :=
| SK_sub extra :
    srv st' = srv st -> Permutation (tokens st) (extra ++ tokens st') -> step_kind st l st'
| SK_fetch c a :
    avail (srv st) a -> gen_u32 (srv st') ->
    (forall b, avail (srv st') b <-> avail (srv st) b /\ b <> a) ->
    Permutation (tokens st') ((c, a) :: tokens st) -> step_kind st l st'
| SK_release c a :
    (exists m, In m (net st) /\ m_type m = Release) ->
    (u32 a -> gen_u32 (srv st') /\ forall b, avail (srv st') b <-> avail (srv st) b \/ b = a) ->
    Permutation (tokens st) ((c, a) :: tokens st') -> step_kind st l st'
| SK_dup i :
    l = Dup i -> srv st' = srv st -> (forall t, In t (tokens st') -> In t (tokens st)) ->
    step_kind st l st'.

Lemma perm_sub_move {A} (x : list A) rest cl : Permutation (x ++ rest ++ cl) ((rest ++ x) ++ cl).
Proof. rewrite app_assoc. apply Permutation_app_tail, Permutation_app_comm. Qed.

Lemma step_analysis st l st' : gen_u32 (srv st) ->
  step st l = Ok st' -> step_kind st l st'.
Proof.
  intros Hg E. destruct l as [i|i|i|c]; cbn [step] in E.
  - (* Deliver *)
    destruct (nth_error (net st) i) as [m|] eqn:En.
    2:{ inversion E; subst. apply SK_sub with (extra := []); [reflexivity|apply Permutation_refl]. }
    pose proof (msg_tokens_perm _ _ (nth_error_perm _ _ _ En)) as Hp.
    change (msg_tokens (m :: remove_nth i (net st))) with (msg_tok m ++ msg_tokens (remove_nth i (net st))) in Hp.
    destruct (m_up m).
    + (* to the server *)
      destruct (m_type m) eqn:Ht.
      * destruct (server_discover (srv st) m Hg Ht) as [[a [g' [Es [Ha [Hg' Hs]]]]]|[Es _]];
          rewrite Es in E; cbn [bind] in E; [|discriminate].
        inversion E; subst st'; clear E. cbn [fst snd].
        apply SK_fetch with (c := m_cid m) (a := a); cbn [srv]; auto.
        unfold tokens; cbn [net clients]. rewrite msg_tokens_app.
        unfold msg_tok in Hp. rewrite Ht in Hp. cbn [is_discover app] in Hp.
        cbn [msg_tokens flat_map offer msg_tok m_type is_discover m_cid m_ip app].
        eapply perm_trans; [apply Permutation_app_tail, Permutation_app_comm|]. cbn [app].
        apply perm_skip. apply Permutation_app_tail. apply Permutation_sym, Hp.
      * (* an Offer sent upwards: ignored *)
        unfold server_demux in E. rewrite Ht in E. cbn [bind fst snd] in E. inversion E; subst st'; clear E.
        apply SK_sub with (extra := msg_tok m); cbn [srv]; auto.
        unfold tokens; cbn [net clients]. rewrite app_nil_r, app_assoc. apply Permutation_app_tail, Hp.
      * (* Request -> Ack *)
        unfold server_demux in E. rewrite Ht in E. cbn [bind fst snd] in E. inversion E; subst st'; clear E.
        apply SK_sub with (extra := []); cbn [srv app]; auto.
        unfold tokens; cbn [net clients]. rewrite msg_tokens_app.
        unfold msg_tok in Hp. rewrite Ht in Hp. cbn [is_discover] in Hp.
        cbn [msg_tokens flat_map msg_tok m_type is_discover m_cid m_ip app].
        apply Permutation_app_tail. eapply perm_trans; [exact Hp|]. apply Permutation_app_comm.
      * unfold server_demux in E. rewrite Ht in E. cbn [bind fst snd] in E. inversion E; subst st'; clear E.
        apply SK_sub with (extra := msg_tok m); cbn [srv]; auto.
        unfold tokens; cbn [net clients]. rewrite app_nil_r, app_assoc. apply Permutation_app_tail, Hp.
      * unfold server_demux in E. rewrite Ht in E. cbn [bind fst snd] in E. inversion E; subst st'; clear E.
        apply SK_sub with (extra := msg_tok m); cbn [srv]; auto.
        unfold tokens; cbn [net clients]. rewrite app_nil_r, app_assoc. apply Permutation_app_tail, Hp.
      * unfold server_demux in E. rewrite Ht in E. cbn [bind fst snd] in E. inversion E; subst st'; clear E.
        apply SK_sub with (extra := msg_tok m); cbn [srv]; auto.
        unfold tokens; cbn [net clients]. rewrite app_nil_r, app_assoc. apply Permutation_app_tail, Hp.
      * (* Release *)
        destruct (server_demux (srv st) m) as [[g' outs]| | |] eqn:Es; cbn [bind] in E; try discriminate.
        inversion E; subst st'; clear E. cbn [fst snd].
        apply SK_release with (c := m_cid m) (a := m_ip m); cbn [srv].
        -- exists m. split; [eapply nth_error_In; eauto|auto].
        -- intros Hu. destruct (server_release (srv st) m Hg Ht Hu) as [g2 [E2 [Hg2 Hs2]]].
           rewrite Es in E2. inversion E2; subst. auto.
        -- unfold server_demux in Es. rewrite Ht in Es.
           destruct (return_ip (srv st) (m_ip m)); cbn [bind] in Es; try discriminate. inversion Es; subst.
           unfold tokens; cbn [net clients]. rewrite app_nil_r.
           unfold msg_tok in Hp. rewrite Ht in Hp. cbn [is_discover app] in Hp.
           apply (Permutation_app_tail (client_tokens 0 (clients st))) in Hp. exact Hp.
    + (* to a client *)
      destruct (nth_error (clients st) (m_cid m)) as [cur|] eqn:Ec.
      2:{ inversion E; subst st'; clear E. apply SK_sub with (extra := msg_tok m); cbn [srv]; auto.
          unfold tokens; cbn [net clients]. rewrite app_assoc. apply Permutation_app_tail, Hp. }
      inversion E; subst st'; clear E.
      unfold client_demux. destruct (m_type m) eqn:Ht; cbn [fst snd].
      * rewrite (set_nth_same _ _ _ Ec), app_nil_r.
        apply SK_sub with (extra := msg_tok m); cbn [srv]; auto.
        unfold tokens; cbn [net clients]. rewrite app_assoc. apply Permutation_app_tail, Hp.
      * (* Offer -> Request *)
        rewrite (set_nth_same _ _ _ Ec).
        apply SK_sub with (extra := []); cbn [srv app]; auto.
        unfold tokens; cbn [net clients]. rewrite msg_tokens_app.
        unfold msg_tok in Hp. rewrite Ht in Hp. cbn [is_discover] in Hp.
        cbn [msg_tokens flat_map msg_tok m_type is_discover m_cid m_ip app].
        apply Permutation_app_tail. eapply perm_trans; [exact Hp|]. apply Permutation_app_comm.
      * rewrite (set_nth_same _ _ _ Ec), app_nil_r.
        apply SK_sub with (extra := msg_tok m); cbn [srv]; auto.
        unfold tokens; cbn [net clients]. rewrite app_assoc. apply Permutation_app_tail, Hp.
      * rewrite (set_nth_same _ _ _ Ec), app_nil_r.
        apply SK_sub with (extra := msg_tok m); cbn [srv]; auto.
        unfold tokens; cbn [net clients]. rewrite app_assoc. apply Permutation_app_tail, Hp.
      * (* Ack: the client stores the address *)
        rewrite app_nil_r.
        apply SK_sub with (extra := opt_tok (m_cid m) cur); cbn [srv]; auto.
        unfold tokens; cbn [net clients].
        unfold msg_tok in Hp. rewrite Ht in Hp. cbn [is_discover app] in Hp.
        pose proof (client_tokens_set (clients st) 0 (m_cid m) cur (Some (m_ip m)) Ec) as Hc.
        cbn [Nat.add opt_tok app] in Hc.
        eapply perm_trans; [apply Permutation_app_tail, Hp|]. cbn [app].
        eapply perm_trans; [apply Permutation_middle|].
        eapply perm_trans; [apply Permutation_app_head, Permutation_sym, Hc|].
        apply Permutation_app_swap_app.
      * rewrite (set_nth_same _ _ _ Ec), app_nil_r.
        apply SK_sub with (extra := msg_tok m); cbn [srv]; auto.
        unfold tokens; cbn [net clients]. rewrite app_assoc. apply Permutation_app_tail, Hp.
      * rewrite (set_nth_same _ _ _ Ec), app_nil_r.
        apply SK_sub with (extra := msg_tok m); cbn [srv]; auto.
        unfold tokens; cbn [net clients]. rewrite app_assoc. apply Permutation_app_tail, Hp.
  - (* Dup *)
    destruct (nth_error (net st) i) as [m|] eqn:En.
    2:{ inversion E; subst. apply SK_sub with (extra := []); [reflexivity|apply Permutation_refl]. }
    inversion E; subst st'; clear E. apply SK_dup with (i := i); cbn [srv]; auto.
    intros t. unfold tokens; cbn [net clients]. rewrite msg_tokens_app, !in_app_iff.
    intros [[H|H]|H]; auto. left.
    cbn [msg_tokens flat_map] in H. rewrite app_nil_r in H.
    unfold msg_tokens. apply in_flat_map. exists m. split; [eapply nth_error_In; eauto|auto].
  - (* Drop *)
    inversion E; subst st'; clear E.
    destruct (nth_error (net st) i) as [m|] eqn:En.
    + pose proof (msg_tokens_perm _ _ (nth_error_perm _ _ _ En)) as Hp.
      change (msg_tokens (m :: remove_nth i (net st))) with (msg_tok m ++ msg_tokens (remove_nth i (net st))) in Hp.
      apply SK_sub with (extra := msg_tok m); cbn [srv]; auto.
      unfold tokens; cbn [net clients]. rewrite app_assoc. apply Permutation_app_tail, Hp.
    + rewrite (remove_nth_none _ _ En). apply SK_sub with (extra := []); [reflexivity|apply Permutation_refl].
  - (* AppRelease *)
    destruct (nth_error (clients st) c) as [[a|]|] eqn:Ec.
    2,3: inversion E; subst; apply SK_sub with (extra := []); [reflexivity|apply Permutation_refl].
    inversion E; subst st'; clear E.
    apply SK_sub with (extra := []); cbn [srv app]; auto.
    unfold tokens; cbn [net clients]. rewrite msg_tokens_app.
    cbn [msg_tokens flat_map msg_tok m_type is_discover m_cid m_ip app].
    pose proof (client_tokens_set (clients st) 0 c (Some a) None Ec) as Hc.
    cbn [Nat.add opt_tok app] in Hc.
    rewrite <- app_assoc. apply Permutation_app_head. cbn [app]. apply Permutation_sym, Hc.
Qed.
(* ------------------------------------------------------------------ traces *)
Definition is_release_label (l : label) : bool := match l with AppRelease _ => true | _ => false end.
Definition is_dup_label (l : label) : bool := match l with Dup _ => true | _ => false end.
Definition no_release (tr : list label) : Prop := forallb (fun l => negb (is_release_label l)) tr = true.
Definition no_dup (tr : list label) : Prop := forallb (fun l => negb (is_dup_label l)) tr = true.

Lemma run_inv (P : state -> Prop) (ok : label -> bool) :
  (forall st l st', P st -> ok l = true -> step st l = Ok st' -> P st') ->
  forall tr st st', P st -> forallb ok tr = true -> DhcpProto.run st tr = Ok st' -> P st'.
Proof.
  intros Hstep. induction tr as [|l t IH]; intros st st' HP Hok E; cbn [DhcpProto.run] in E.
  - inversion E; subst; auto.
  - cbn [forallb] in Hok. apply andb_true_iff in Hok. destruct Hok as [Hl Ht].
    destruct (step st l) as [st1| | |] eqn:E1; cbn [bind] in E; try discriminate.
    apply (IH st1 st'); auto. apply (Hstep st l st1); auto.
Qed.

(* no Release message exists unless an application released *)
Definition NR (st : state) : Prop := forall m, In m (net st) -> m_type m <> Release.

Lemma server_out_types g m g' outs : server_demux g m = Ok (g', outs) ->
  forall x, In x outs -> m_type x = Offer \/ m_type x = Ack.
Proof.
  unfold server_demux. destruct (m_type m).
  - destruct (fetch_ip g) as [[oa g2]| | |]; cbn [bind fst snd]; try discriminate.
    destruct oa; [|discriminate]. intros H; inversion H; subst. intros x [<-|[]]; auto.
  - intros H; inversion H; subst. intros x [].
  - intros H; inversion H; subst. intros x [<-|[]]; auto.
  - intros H; inversion H; subst. intros x [].
  - intros H; inversion H; subst. intros x [].
  - intros H; inversion H; subst. intros x [].
  - destruct (return_ip g (m_ip m)); cbn [bind]; try discriminate. intros H; inversion H; subst. intros x [].
Qed.

Lemma client_out_types c cur m x : In x (snd (client_demux c cur m)) -> m_type x = Request.
Proof. unfold client_demux. destruct (m_type m); cbn [snd In]; intros H; try contradiction. destruct H as [<-|[]]; reflexivity. Qed.

Lemma NR_step st l st' : NR st -> is_release_label l = false -> step st l = Ok st' -> NR st'.
Proof.
  intros Hnr Hl E. destruct l as [i|i|i|c]; cbn [step] in E; try discriminate.
  - destruct (nth_error (net st) i) as [m|] eqn:En; [|inversion E; subst; auto].
    destruct (m_up m).
    + destruct (server_demux (srv st) m) as [[g' outs]| | |] eqn:Es; cbn [bind fst snd] in E; try discriminate.
      inversion E; subst st'; clear E. intros x Hx. cbn [net] in Hx. apply in_app_iff in Hx.
      destruct Hx as [Hx|Hx]; [apply Hnr; eapply In_remove_nth; eauto|].
      destruct (server_out_types _ _ _ _ Es x Hx) as [-> | ->]; discriminate.
    + destruct (nth_error (clients st) (m_cid m)) as [cur|].
      * inversion E; subst st'; clear E. intros x Hx. cbn [net] in Hx. apply in_app_iff in Hx.
        destruct Hx as [Hx|Hx]; [apply Hnr; eapply In_remove_nth; eauto|].
        rewrite (client_out_types _ _ _ _ Hx). discriminate.
      * inversion E; subst st'; clear E. intros x Hx. cbn [net] in Hx. apply Hnr; eapply In_remove_nth; eauto.
  - destruct (nth_error (net st) i) as [m|] eqn:En; [|inversion E; subst; auto].
    inversion E; subst st'; clear E. intros x Hx. cbn [net] in Hx. apply in_app_iff in Hx.
    destruct Hx as [Hx|[<-|[]]]; [apply Hnr; auto|]. apply Hnr. eapply nth_error_In; eauto.
  - inversion E; subst st'; clear E. intros x Hx. cbn [net] in Hx. apply Hnr; eapply In_remove_nth; eauto.
Qed.

(* ------------------------------------------------------------------ invariants *)
Definition TokOK (g0 : gen) (st : state) : Prop :=
  forall c a, In (c, a) (tokens st) -> avail g0 a /\ ~ avail (srv st) a.

(* A: arbitrary duplication, no release *)
Definition InvA (g0 : gen) (st : state) : Prop :=
  gen_u32 (srv st) /\ (forall a, avail (srv st) a -> avail g0 a) /\ NR st /\ TokOK g0 st /\
  (forall c1 c2 a, In (c1, a) (tokens st) -> In (c2, a) (tokens st) -> c1 = c2).

(* B: releases, no duplication *)
Definition InvB (g0 : gen) (st : state) : Prop :=
  gen_u32 (srv st) /\ (forall a, avail (srv st) a -> avail g0 a) /\ TokOK g0 st /\
  NoDup (map snd (tokens st)).

Lemma InvA_step g0 st l st' : InvA g0 st -> negb (is_release_label l) = true -> step st l = Ok st' -> InvA g0 st'.
Proof.
  intros [Hg [Hsub [Hnr [Htok Huniq]]]] Hl E. apply negb_true_iff in Hl.
  pose proof (NR_step st l st' Hnr Hl E) as Hnr'.
  destruct (step_analysis st l st' Hg E) as [extra Hs Hp|c a Ha Hg' Hs Hp|c a [m [Hin Ht]] _ _|i _ Hs Hin].
  - assert (Hin : forall t, In t (tokens st') -> In t (tokens st)).
    { intros t Ht. eapply Permutation_in; [apply Permutation_sym, Hp|]. apply in_app_iff; auto. }
    unfold InvA, TokOK. rewrite Hs. repeat split; auto.
    + apply (Htok c a); auto.
    + apply (Htok c a); auto.
    + intros; eapply Huniq; eauto.
  - assert (Hin : forall t, In t (tokens st') -> t = (c, a) \/ In t (tokens st)).
    { intros t Ht. apply (Permutation_in _ Hp) in Ht. destruct Ht; auto. }
    unfold InvA, TokOK. split; [exact Hg'|]. split; [|split; [exact Hnr'|split]].
    + intros b Hb. apply Hs in Hb. apply Hsub, Hb.
    + intros c' a' Ht. destruct (Hin _ Ht) as [Heq|Hold].
      * inversion Heq; subst. split; [auto|]. intro Hb. apply Hs in Hb. destruct Hb; congruence.
      * destruct (Htok _ _ Hold) as [H1 H2]. split; auto. intro Hb. apply Hs in Hb. tauto.
    + intros c1 c2 a' H1 H2. destruct (Hin _ H1) as [E1|O1]; destruct (Hin _ H2) as [E2|O2].
      * congruence.
      * inversion E1; subst. destruct (Htok _ _ O2); contradiction.
      * inversion E2; subst. destruct (Htok _ _ O1); contradiction.
      * eapply Huniq; eauto.
  - exfalso. apply (Hnr m Hin Ht).
  - unfold InvA, TokOK. rewrite Hs. repeat split; auto.
    + apply (Htok c a); auto.
    + apply (Htok c a); auto.
    + intros; eapply Huniq; eauto.
Qed.

Lemma NoDup_app_r {A} (l1 l2 : list A) : NoDup (l1 ++ l2) -> NoDup l2.
Proof. induction l1 as [|x t IH]; cbn [app]; auto. intros H; inversion H; auto. Qed.

Lemma InvB_step g0 st l st' : gen_u32 g0 -> InvB g0 st -> negb (is_dup_label l) = true ->
  step st l = Ok st' -> InvB g0 st'.
Proof.
  intros Hg0 [Hg [Hsub [Htok Hnd]]] Hl E. apply negb_true_iff in Hl.
  destruct (step_analysis st l st' Hg E) as [extra Hs Hp|c a Ha Hg' Hs Hp|c a _ Hrel Hp|i Hi _ _].
  - assert (Hin : forall t, In t (tokens st') -> In t (tokens st)).
    { intros t Ht. eapply Permutation_in; [apply Permutation_sym, Hp|]. apply in_app_iff; auto. }
    unfold InvB, TokOK. rewrite Hs. split; [auto|]. split; [auto|]. split.
    + intros c a Ht. apply (Htok c a); auto.
    + apply (Permutation_map snd) in Hp. apply (Permutation_NoDup Hp) in Hnd.
      rewrite map_app in Hnd. eapply NoDup_app_r; eauto.
  - unfold InvB, TokOK. split; [exact Hg'|]. split; [|split].
    + intros b Hb. apply Hs in Hb. apply Hsub, Hb.
    + intros c' a' Ht. apply (Permutation_in _ Hp) in Ht. destruct Ht as [Heq|Hold].
      * inversion Heq; subst. split; [auto|]. intro Hb. apply Hs in Hb. destruct Hb; congruence.
      * destruct (Htok _ _ Hold) as [H1 H2]. split; auto. intro Hb. apply Hs in Hb. tauto.
    + apply (Permutation_map snd) in Hp. apply (Permutation_NoDup (Permutation_sym Hp)).
      cbn [map snd]. constructor; auto. intro Hx. apply in_map_iff in Hx. destruct Hx as [[c' a'] [Heq Hx]].
      cbn [snd] in Heq; subst a'. destruct (Htok _ _ Hx); contradiction.
  - assert (Hca : In (c, a) (tokens st)) by (eapply Permutation_in; [apply Permutation_sym, Hp|left; auto]).
    destruct (Htok _ _ Hca) as [Hpool _].
    destruct (Hrel (avail_u32 _ _ Hg0 Hpool)) as [Hg' Hs].
    assert (Hin : forall t, In t (tokens st') -> In t (tokens st)).
    { intros t Ht. eapply Permutation_in; [apply Permutation_sym, Hp|]. right; auto. }
    pose proof (Permutation_map snd Hp) as Hp2. apply (Permutation_NoDup Hp2) in Hnd. cbn [map snd] in Hnd.
    inversion Hnd as [|? ? Hnotin Hnd']; subst.
    unfold InvB, TokOK. split; [exact Hg'|]. split; [|split; [|exact Hnd']].
    + intros b Hb. apply Hs in Hb. destruct Hb as [Hb| -> ]; auto.
    + intros c' a' Ht. destruct (Htok _ _ (Hin _ Ht)) as [H1 H2]. split; auto.
      intro Hb. apply Hs in Hb. destruct Hb as [Hb| -> ]; [contradiction|].
      apply Hnotin. apply in_map_iff. exists (c', a). auto.
  - subst l. discriminate.
Qed.

Lemma msg_tokens_discovers l : msg_tokens (map discover_of l) = [].
Proof. induction l; cbn; auto. Qed.
Lemma client_tokens_none n : forall k, client_tokens k (repeat None n) = [].
Proof. induction n; intros k; cbn [repeat client_tokens opt_tok app]; auto. Qed.

Lemma tokens_init n g : tokens (init n g) = [].
Proof. unfold tokens, init; cbn [net clients]. rewrite msg_tokens_discovers, client_tokens_none. reflexivity. Qed.

Lemma NR_init n g : NR (init n g).
Proof.
  intros m Hm. unfold init in Hm; cbn [net] in Hm. apply in_map_iff in Hm. destruct Hm as [c [<- _]].
  cbn. discriminate.
Qed.

Lemma InvA_init n g0 : gen_u32 g0 -> InvA g0 (init n g0).
Proof.
  intros Hg. unfold InvA, TokOK. rewrite tokens_init. cbn [srv init].
  split; [auto|]. split; [auto|]. split; [apply NR_init|]. split; intros; contradiction.
Qed.

Lemma InvB_init n g0 : gen_u32 g0 -> InvB g0 (init n g0).
Proof.
  intros Hg. unfold InvB, TokOK. rewrite tokens_init. cbn [srv init].
  split; [auto|]. split; [auto|]. split; [intros; contradiction|constructor].
Qed.

Lemma NoDup_map_snd_inj (l : list (nat * Z)) c1 c2 a :
  NoDup (map snd l) -> In (c1, a) l -> In (c2, a) l -> c1 = c2.
Proof.
  induction l as [|[c b] t IH]; intros Hnd H1 H2; [destruct H1|].
  cbn [map snd] in Hnd. inversion Hnd as [|? ? Hn Hnd']; subst.
  destruct H1 as [E1|H1]; destruct H2 as [E2|H2].
  - congruence.
  - inversion E1; subst. exfalso. apply Hn. apply in_map_iff. exists (c2, a); auto.
  - inversion E2; subst. exfalso. apply Hn. apply in_map_iff. exists (c1, a); auto.
  - auto.
Qed.

Lemma acked_token st c a : acked st c a -> In (c, a) (tokens st).
Proof. intros H. unfold tokens. apply in_app_iff. right. apply acked_tokens, H. Qed.

(* the distinctness theorem *)
Lemma dhcp_distinct n g0 tr st : gen_u32 g0 -> no_release tr \/ no_dup tr ->
  DhcpProto.run (init n g0) tr = Ok st ->
  (forall c1 c2 a, acked st c1 a -> acked st c2 a -> c1 = c2) /\
  (forall c a, acked st c a -> avail g0 a /\ ~ avail (srv st) a).
Proof.
  intros Hg [Hnr|Hnd] E.
  - assert (HI : InvA g0 st).
    { eapply (run_inv (InvA g0) (fun l => negb (is_release_label l))); eauto.
      - intros; eapply InvA_step; eauto.
      - apply InvA_init; auto. }
    destruct HI as [_ [_ [_ [Htok Huniq]]]]. split.
    + intros c1 c2 a H1 H2. eapply Huniq; apply acked_token; eauto.
    + intros c a H. apply (Htok c a), acked_token, H.
  - assert (HI : InvB g0 st).
    { eapply (run_inv (InvB g0) (fun l => negb (is_dup_label l))); eauto.
      - intros; eapply InvB_step; eauto.
      - apply InvB_init; auto. }
    destruct HI as [_ [_ [Htok Hnodup]]]. split.
    + intros c1 c2 a H1 H2. eapply NoDup_map_snd_inj; [exact Hnodup| |]; apply acked_token; eauto.
    + intros c a H. apply (Htok c a), acked_token, H.
Qed.

(* duplication AND release together: the same address ends up acknowledged to two clients *)
Definition double_lease_trace : list label :=
  [ Deliver 0; Deliver 1; Deliver 1;   (* client 0: Discover -> Offer 10 -> Request 10 -> Ack 10 in flight *)
    Dup 1;                             (* the Ack is duplicated *)
    Deliver 1;                         (* client 0 learns 10 *)
    AppRelease 0; Deliver 2;           (* client 0 releases 10; the server takes it back *)
    Deliver 0; Deliver 1; Deliver 1; Deliver 1;   (* client 1: Discover -> Offer 10 -> ... -> learns 10 *)
    Deliver 0 ].                       (* the stale duplicate Ack reaches client 0 *)

Lemma dhcp_dup_release_refuted :
  exists st, DhcpProto.run (init 2 (gen_new (10, 12))) double_lease_trace = Ok st /\
             acked st 0 10 /\ acked st 1 10.
Proof. eexists. split; [vm_compute; reflexivity|]. split; reflexivity. Qed.

(* exhaustion: the server panics (dhcp_server.rs:60) *)
Lemma dhcp_exhaustion_panics :
  DhcpProto.run (init 2 (gen_new (10, 10))) [Deliver 0; Deliver 0] = Panic 60.
Proof. vm_compute. reflexivity. Qed.

(* a released address is available to the server again, and the next Discover gets an Offer *)
Lemma dhcp_release_returns g m : gen_u32 g -> m_type m = Release -> u32 (m_ip m) ->
  exists g', server_demux g m = Ok (g', []) /\ avail g' (m_ip m) /\
    forall d, m_type d = Discover -> exists a g'', server_demux g' d = Ok (g'', [offer (m_cid d) a]) /\ avail g' a.
Proof.
  intros Hg Ht Hu. destruct (server_release g m Hg Ht Hu) as [g' [E [Hg' Hs]]].
  exists g'. split; [exact E|]. split; [apply Hs; right; reflexivity|].
  intros d Hd. destruct (server_discover g' d Hg' Hd) as [[a [g'' [E' [Ha _]]]]|[_ Hno]].
  - exists a, g''. auto.
  - exfalso. apply (Hno (m_ip m)). apply Hs. right; reflexivity.
Qed.

Example dhcp_release_reuse :
  exists st, DhcpProto.run (init 2 (gen_new (10, 10)))
     [Deliver 0; Deliver 1; Deliver 1; Deliver 1; AppRelease 0; Deliver 1;
      Deliver 0; Deliver 0; Deliver 0; Deliver 0] = Ok st /\
     clients st = [None; Some 10].
Proof. eexists. split; vm_compute; reflexivity. Qed.

(* ------------------------------------------------------------------ no crash while the pool is large enough *)
Definition is_updisc (m : msg) : bool := m_up m && is_discover (m_type m).
Definition discovers (l : list msg) : nat := length (filter is_updisc l).
Definition count_dups (tr : list label) : nat := length (filter is_dup_label tr).
Definition Free (g : gen) (k : nat) : Prop :=
  exists L, NoDup L /\ (forall a, In a L -> avail g a) /\ (k <= length L)%nat.

Lemma Free_le g k k' : (k' <= k)%nat -> Free g k -> Free g k'.
Proof. intros Hle [L [H1 [H2 H3]]]. exists L. repeat split; auto. lia. Qed.

Lemma Free_nonempty g k : Free g (S k) -> exists a, avail g a.
Proof. intros [L [_ [H2 H3]]]. destruct L as [|a t]; cbn [length] in H3; [lia|]. exists a. apply H2. left; auto. Qed.

Lemma Free_fetch g g' a k : Free g (S k) -> (forall b, avail g' b <-> avail g b /\ b <> a) -> Free g' k.
Proof.
  intros [L [Hnd [Hav Hlen]]] Hs. destruct (in_dec Z.eq_dec a L) as [Hin|Hnin].
  - apply in_split in Hin. destruct Hin as [l1 [l2 ->]].
    exists (l1 ++ l2). split; [eapply NoDup_remove_1; eauto|]. split.
    + intros b Hb. apply Hs. split.
      * apply Hav. apply in_app_iff in Hb. apply in_app_iff. destruct Hb; [left|right; right]; auto.
      * intros ->. eapply NoDup_remove_2; eauto.
    + rewrite app_length in *. cbn [length] in Hlen. lia.
  - exists L. split; [auto|]. split; [|lia].
    intros b Hb. apply Hs. split; [auto|]. intros ->. contradiction.
Qed.

Lemma discovers_app l1 l2 : discovers (l1 ++ l2) = (discovers l1 + discovers l2)%nat.
Proof. unfold discovers. rewrite filter_app, app_length. reflexivity. Qed.

Lemma discovers_nth l : forall i m, nth_error l i = Some m ->
  discovers l = ((if is_updisc m then 1 else 0) + discovers (remove_nth i l))%nat.
Proof.
  induction l as [|x t IH]; intros i m H; destruct i; cbn [nth_error remove_nth] in *; try discriminate.
  - inversion H; subst. unfold discovers. cbn [filter]. destruct (is_updisc m); reflexivity.
  - specialize (IH i m H). unfold discovers in *. cbn [filter]. destruct (is_updisc x); cbn [length]; lia.
Qed.

Lemma discovers_remove l i : (discovers (remove_nth i l) <= discovers l)%nat.
Proof.
  destruct (nth_error l i) as [m|] eqn:E.
  - rewrite (discovers_nth l i m E). lia.
  - rewrite (remove_nth_none _ _ E). lia.
Qed.

Lemma discovers_client_out c cur m : discovers (snd (client_demux c cur m)) = 0%nat.
Proof. unfold client_demux. destruct (m_type m); reflexivity. Qed.

Lemma step_free st l k : NR st -> gen_u32 (srv st) -> is_release_label l = false ->
  Free (srv st) (discovers (net st) + (if is_dup_label l then 1 else 0) + k) ->
  exists st', step st l = Ok st' /\ gen_u32 (srv st') /\ Free (srv st') (discovers (net st') + k).
Proof.
  intros Hnr Hg Hl Hf. destruct l as [i|i|i|c]; cbn [step is_dup_label] in *; try discriminate.
  - destruct (nth_error (net st) i) as [m|] eqn:En.
    2:{ exists st. repeat split; auto. eapply Free_le; [|exact Hf]. lia. }
    pose proof (discovers_nth _ _ _ En) as Hd. unfold is_updisc in Hd.
    destruct (m_up m).
    + destruct (m_type m) eqn:Ht; cbn [andb is_discover] in Hd.
      * rewrite Hd in Hf. cbn [Nat.add] in Hf. rewrite Nat.add_0_r in Hf.
        destruct (Free_nonempty _ _ Hf) as [a0 Ha0].
        destruct (server_discover (srv st) m Hg Ht) as [[a [g' [Es [Ha [Hg' Hs]]]]]|[_ Hno]];
          [|exfalso; eapply Hno; eauto].
        rewrite Es; cbn [bind fst snd]. eexists; split; [reflexivity|]. cbn [srv net]. split; [exact Hg'|].
        rewrite discovers_app. change (discovers [offer (m_cid m) a]) with 0%nat. rewrite Nat.add_0_r.
        eapply Free_fetch; eauto.
      * unfold server_demux. rewrite Ht. cbn [bind fst snd]. eexists; split; [reflexivity|]. cbn [srv net].
        split; [exact Hg|]. rewrite app_nil_r. eapply Free_le; [|exact Hf]. lia.
      * unfold server_demux. rewrite Ht. cbn [bind fst snd]. eexists; split; [reflexivity|]. cbn [srv net].
        split; [exact Hg|]. rewrite discovers_app. eapply Free_le; [|exact Hf].
        unfold discovers at 2. cbn. lia.
      * unfold server_demux. rewrite Ht. cbn [bind fst snd]. eexists; split; [reflexivity|]. cbn [srv net].
        split; [exact Hg|]. rewrite app_nil_r. eapply Free_le; [|exact Hf]. lia.
      * unfold server_demux. rewrite Ht. cbn [bind fst snd]. eexists; split; [reflexivity|]. cbn [srv net].
        split; [exact Hg|]. rewrite app_nil_r. eapply Free_le; [|exact Hf]. lia.
      * unfold server_demux. rewrite Ht. cbn [bind fst snd]. eexists; split; [reflexivity|]. cbn [srv net].
        split; [exact Hg|]. rewrite app_nil_r. eapply Free_le; [|exact Hf]. lia.
      * exfalso. apply (Hnr m); [eapply nth_error_In; eauto|auto].
    + destruct (nth_error (clients st) (m_cid m)) as [cur|].
      * eexists; split; [reflexivity|]. cbn [srv net]. split; [exact Hg|].
        rewrite discovers_app, discovers_client_out. eapply Free_le; [|exact Hf]. lia.
      * eexists; split; [reflexivity|]. cbn [srv net]. split; [exact Hg|].
        eapply Free_le; [|exact Hf]. lia.
  - destruct (nth_error (net st) i) as [m|] eqn:En.
    2:{ exists st. repeat split; auto. eapply Free_le; [|exact Hf]. lia. }
    eexists; split; [reflexivity|]. cbn [srv net]. split; [exact Hg|].
    rewrite discovers_app. eapply Free_le; [|exact Hf].
    unfold discovers at 2. cbn [filter]. destruct (is_updisc m); cbn [length]; lia.
  - eexists; split; [reflexivity|]. cbn [srv net]. split; [exact Hg|].
    eapply Free_le; [|exact Hf]. pose proof (discovers_remove (net st) i). lia.
Qed.

Lemma run_no_panic tr : forall st, NR st -> gen_u32 (srv st) -> no_release tr ->
  Free (srv st) (discovers (net st) + count_dups tr) -> exists st', DhcpProto.run st tr = Ok st'.
Proof.
  induction tr as [|l t IH]; intros st Hnr Hg Hrel Hf; cbn [DhcpProto.run].
  - eauto.
  - unfold no_release in Hrel. cbn [forallb] in Hrel. apply andb_true_iff in Hrel. destruct Hrel as [Hl Ht].
    apply negb_true_iff in Hl.
    assert (Hf' : Free (srv st) (discovers (net st) + (if is_dup_label l then 1 else 0) + count_dups t)).
    { eapply Free_le; [|exact Hf]. unfold count_dups. cbn [filter]. destruct (is_dup_label l); cbn [length]; lia. }
    destruct (step_free st l (count_dups t) Hnr Hg Hl Hf') as [st1 [E1 [Hg1 Hf1]]].
    rewrite E1; cbn [bind]. apply IH; auto. eapply NR_step; eauto.
Qed.

Lemma discovers_init l : discovers (map discover_of l) = length l.
Proof. unfold discovers. induction l; cbn; auto. Qed.

Lemma dhcp_no_panic n g0 tr L : gen_u32 g0 -> no_release tr ->
  NoDup L -> (forall a, In a L -> avail g0 a) -> (n + count_dups tr <= length L)%nat ->
  exists st, DhcpProto.run (init n g0) tr = Ok st.
Proof.
  intros Hg Hrel Hnd Hav Hlen. apply run_no_panic; auto.
  - apply NR_init.
  - unfold init; cbn [srv net]. rewrite discovers_init, seq_length. exists L. auto.
Qed.

(* ------------------------------------------------------------------ every client learns an address *)
Definition progress (m : msg) : bool :=
  if m_up m then match m_type m with Discover | Request => true | _ => false end
  else match m_type m with Offer | Ack => true | _ => false end.
Definition served (st : state) (c : nat) : Prop :=
  (exists a, acked st c a) \/ (exists m, In m (net st) /\ m_cid m = c /\ progress m = true).
Definition InvE (n : nat) (st : state) : Prop :=
  length (clients st) = n /\ forall c, (c < n)%nat -> served st c.
Definition is_lossless (l : label) : bool := match l with Deliver _ | Dup _ => true | _ => false end.

Lemma In_nth_or_rest {A} (l : list A) : forall i m x, nth_error l i = Some m -> In x l ->
  x = m \/ In x (remove_nth i l).
Proof.
  induction l as [|y t IH]; intros i m x H Hin; destruct i; cbn [nth_error remove_nth] in *; try discriminate.
  - inversion H; subst. destruct Hin; auto.
  - destruct Hin as [->|Hin]; [right; left; auto|]. destruct (IH i m x H Hin); auto. right; right; auto.
Qed.

Lemma set_nth_length {A} (l : list A) : forall i v, length (set_nth i v l) = length l.
Proof. induction l; intros i v; destruct i; cbn [set_nth length]; auto. Qed.

Lemma InvE_step n st l st' : InvE n st -> is_lossless l = true -> step st l = Ok st' -> InvE n st'.
Proof.
  intros [Hlen Hs] Hl E. destruct l as [i|i|i|c0]; cbn [step is_lossless] in *; try discriminate.
  - destruct (nth_error (net st) i) as [m|] eqn:En; [|inversion E; subst; split; auto].
    destruct (m_up m) eqn:Hup.
    + destruct (server_demux (srv st) m) as [[g' outs]| | |] eqn:Es; cbn [bind fst snd] in E; try discriminate.
      inversion E; subst st'; clear E. split; [exact Hlen|]. intros c Hc.
      destruct (Hs c Hc) as [Hack|[m' [Hin [Hcid Hp]]]]; [left; exact Hack|].
      destruct (In_nth_or_rest _ _ _ _ En Hin) as [->|Hrest].
      * right. unfold progress in Hp. rewrite Hup in Hp. unfold server_demux in Es.
        destruct (m_type m) eqn:Ht; try discriminate.
        -- destruct (fetch_ip (srv st)) as [[oa g2]| | |]; cbn [bind fst snd] in Es; try discriminate.
           destruct oa as [a|]; [|discriminate]. inversion Es; subst.
           eexists. split; [cbn [net]; apply in_app_iff; right; left; reflexivity|]. split; auto.
        -- inversion Es; subst.
           eexists. split; [cbn [net]; apply in_app_iff; right; left; reflexivity|]. split; auto.
      * right. exists m'. split; [cbn [net]; apply in_app_iff; left; auto|auto].
    + destruct (nth_error (clients st) (m_cid m)) as [cur|] eqn:Ec.
      * inversion E; subst st'; clear E. split; [cbn [clients]; rewrite set_nth_length; exact Hlen|].
        intros c Hc.
        assert (Hkeep : forall a, acked st c a -> exists a', acked {| srv := srv st;
                   clients := set_nth (m_cid m) (fst (client_demux (m_cid m) cur m)) (clients st);
                   net := remove_nth i (net st) ++ snd (client_demux (m_cid m) cur m) |} c a').
        { intros a Ha. unfold acked in *. cbn [clients]. rewrite (nth_error_set_nth _ c _ _ _ Ec).
          destruct (Nat.eqb (m_cid m) c) eqn:Eq; [|eauto]. apply Nat.eqb_eq in Eq. subst c.
          rewrite Ec in Ha. inversion Ha; subst. unfold client_demux. destruct (m_type m); cbn [fst]; eauto. }
        destruct (Hs c Hc) as [[a Hack]|[m' [Hin [Hcid Hp]]]]; [left; eauto|].
        destruct (In_nth_or_rest _ _ _ _ En Hin) as [->|Hrest].
        -- unfold progress in Hp. rewrite Hup in Hp. unfold client_demux.
           destruct (m_type m) eqn:Ht; try discriminate; cbn [fst snd].
           ++ right. eexists. split; [cbn [net]; apply in_app_iff; right; left; reflexivity|]. split; auto.
           ++ left. exists (m_ip m). unfold acked. cbn [clients]. rewrite (nth_error_set_nth _ c _ _ _ Ec).
              subst c. rewrite Nat.eqb_refl. reflexivity.
        -- right. exists m'. split; [cbn [net]; apply in_app_iff; left; auto|auto].
      * inversion E; subst st'; clear E. split; [exact Hlen|]. intros c Hc.
        destruct (Hs c Hc) as [Hack|[m' [Hin [Hcid Hp]]]]; [left; exact Hack|].
        destruct (In_nth_or_rest _ _ _ _ En Hin) as [->|Hrest].
        -- exfalso. apply nth_error_None in Ec. lia.
        -- right. exists m'. split; [cbn [net]; auto|auto].
  - destruct (nth_error (net st) i) as [m|] eqn:En; [|inversion E; subst; split; auto].
    inversion E; subst st'; clear E. split; [exact Hlen|]. intros c Hc.
    destruct (Hs c Hc) as [Hack|[m' [Hin [Hcid Hp]]]]; [left; exact Hack|].
    right. exists m'. split; [cbn [net]; apply in_app_iff; left; auto|auto].
Qed.

Lemma InvE_init n g : InvE n (init n g).
Proof.
  split; [unfold init; cbn [clients]; apply repeat_length|].
  intros c Hc. right. exists (discover_of c). split; [|split; reflexivity].
  unfold init; cbn [net]. apply in_map. apply in_seq. lia.
Qed.

(* at quiescence of a loss-free run every client has learned an address *)
Lemma dhcp_all_learn n g0 tr st : forallb is_lossless tr = true ->
  DhcpProto.run (init n g0) tr = Ok st -> net st = [] ->
  forall c, (c < n)%nat -> exists a, acked st c a.
Proof.
  intros Hl E Hnet c Hc.
  assert (HI : InvE n st).
  { eapply (run_inv (InvE n) is_lossless); eauto.
    - intros; eapply InvE_step; eauto.
    - apply InvE_init. }
  destruct HI as [_ Hs]. destruct (Hs c Hc) as [H|[m [Hin _]]]; auto.
  rewrite Hnet in Hin. destruct Hin.
Qed.

(* the hypotheses of the theorems are satisfiable: the canonical run of two clients *)
Example dhcp_two_clients :
  exists st, DhcpProto.run (init 2 (gen_new (1, 255)))
      [Deliver 0; Deliver 0; Deliver 0; Deliver 0; Deliver 0; Deliver 0; Deliver 0; Deliver 0] = Ok st /\
    net st = [] /\ clients st = [Some 1; Some 2].
Proof. eexists. split; [vm_compute; reflexivity|]. split; reflexivity. Qed.

(* DhcpServer::new(_, IpRange::new(s, e)): no crash while clients + duplications fit in the range *)
Lemma range_list s e : s <= e ->
  exists L, NoDup L /\ (forall a, In a L <-> s <= a <= e) /\ length L = Z.to_nat (e - s + 1).
Proof.
  intros Hle. exists (map (fun i => s + Z.of_nat i) (seq 0 (Z.to_nat (e - s + 1)))). split; [|split].
  - apply FinFun.Injective_map_NoDup; [|apply seq_NoDup]. intros x y H. lia.
  - intro a. rewrite in_map_iff. split.
    + intros [i [<- Hi]]. apply in_seq in Hi. lia.
    + intros Ha. exists (Z.to_nat (a - s)). split; [lia|]. apply in_seq. lia.
  - rewrite map_length, seq_length. reflexivity.
Qed.

Lemma dhcp_no_panic_range n s e tr : u32 s -> u32 e -> s <= e -> no_release tr ->
  Z.of_nat (n + count_dups tr) <= e - s + 1 ->
  exists st, DhcpProto.run (init n (gen_new (s, e))) tr = Ok st.
Proof.
  intros Hs He Hle Hrel Hn. destruct (range_list s e Hle) as [L [Hnd [Hin Hlen]]].
  apply (dhcp_no_panic n _ tr L); auto.
  - apply gen_new_u32. split; auto.
  - intros a Ha. apply avail_new. apply Hin in Ha. exact Ha.
  - rewrite Hlen. lia.
Qed.
