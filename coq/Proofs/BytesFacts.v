(* Characterising lemmas of the byte-level helpers (Model/Bytes.v): every shift
   and mask in div/mod form, big-endian conversions, reader inversion. *)
From Elvis Require Import Model.Base Model.Bytes.
From Coq Require Import ZifyBool.
Ltac Zify.zify_post_hook ::= Z.div_mod_to_equations.
Local Open Scope Z_scope.

(* ---- finite sweeps ------------------------------------------------------- *)
Definition zrange (n : nat) : list Z := map Z.of_nat (seq 0 n).
Lemma zrange_in : forall n x, 0 <= x < Z.of_nat n -> In x (zrange n).
Proof.
  intros n x Hx. unfold zrange. apply in_map_iff. exists (Z.to_nat x). split.
  - lia.
  - apply in_seq. lia.
Qed.
Lemma zrange_forallb : forall n f, forallb f (zrange n) = true ->
  forall x, 0 <= x < Z.of_nat n -> f x = true.
Proof.
  intros n f H x Hx. rewrite forallb_forall in H. apply H. apply zrange_in. exact Hx.
Qed.

(* ---- shifts and masks ---------------------------------------------------- *)
Lemma shr_div : forall a k, 0 <= k -> shr a k = a / 2 ^ k.
Proof. intros. unfold shr. apply Z.shiftr_div_pow2. assumption. Qed.
Lemma shl_mul : forall a k, 0 <= k -> shl a k = a * 2 ^ k.
Proof. intros. unfold shl. apply Z.shiftl_mul_pow2. assumption. Qed.
Lemma band_ones : forall a k, 0 <= k -> band a (2 ^ k - 1) = a mod 2 ^ k.
Proof.
  intros a k Hk. unfold band. replace (2 ^ k - 1) with (Z.ones k).
  - apply Z.land_ones. assumption.
  - rewrite Z.ones_equiv. lia.
Qed.

Lemma shr_4 : forall a, shr a 4 = a / 16.
Proof. intros. rewrite shr_div by lia. reflexivity. Qed.
Lemma shr_13 : forall a, shr a 13 = a / 8192.
Proof. intros. rewrite shr_div by lia. reflexivity. Qed.
Lemma shl_13 : forall a, shl a 13 = a * 8192.
Proof. intros. rewrite shl_mul by lia. reflexivity. Qed.
Lemma shl_4 : forall a, shl a 4 = a * 16.
Proof. intros. rewrite shl_mul by lia. reflexivity. Qed.
Lemma band_3 : forall a, band a 3 = a mod 4.
Proof. intros. exact (band_ones a 2 ltac:(lia)). Qed.
Lemma band_15 : forall a, band a 15 = a mod 16.
Proof. intros. exact (band_ones a 4 ltac:(lia)). Qed.
Lemma band_63 : forall a, band a 63 = a mod 64.
Proof. intros. exact (band_ones a 6 ltac:(lia)). Qed.
Lemma band_8191 : forall a, band a 8191 = a mod 8192.
Proof. intros. exact (band_ones a 13 ltac:(lia)). Qed.
Lemma band_1 : forall a, band a 1 = a mod 2.
Proof. intros. exact (band_ones a 1 ltac:(lia)). Qed.

(* a single-bit mask: a & 2^k = 2^k * bit k of a *)
Lemma band_pow2 : forall a k, 0 <= k -> band a (2 ^ k) = (a / 2 ^ k mod 2) * 2 ^ k.
Proof.
  intros a k Hk. unfold band. rewrite <- Z.testbit_spec' by assumption.
  apply Z.bits_inj'. intros n Hn. rewrite Z.land_spec, Z.pow2_bits_eqb by assumption.
  destruct (Z.testbit a k) eqn:E; cbn [Z.b2z].
  - rewrite Z.mul_1_l, Z.pow2_bits_eqb by assumption.
    destruct (Z.eqb_spec k n); [subst; rewrite E; reflexivity | apply andb_false_r].
  - rewrite Z.mul_0_l, Z.bits_0.
    destruct (Z.eqb_spec k n); [subst; rewrite E; reflexivity | apply andb_false_r].
Qed.
Lemma band_4 : forall a, band a 4 = (a / 4 mod 2) * 4.
Proof. intros. exact (band_pow2 a 2 ltac:(lia)). Qed.
Lemma band_2 : forall a, band a 2 = (a / 2 mod 2) * 2.
Proof. intros. exact (band_pow2 a 1 ltac:(lia)). Qed.

(* disjoint or = sum *)
Lemma land_shifted_low : forall a b k, 0 <= k -> 0 <= b < 2 ^ k -> Z.land (a * 2 ^ k) b = 0.
Proof.
  intros a b k Hk Hb. apply Z.bits_inj'. intros n Hn. rewrite Z.land_spec, Z.bits_0.
  destruct (Z.ltb_spec n k) as [Hlt|Hge].
  - rewrite Z.mul_pow2_bits_low by lia. reflexivity.
  - destruct (Z.eq_dec b 0) as [->|Hnz].
    + rewrite Z.bits_0. apply andb_false_r.
    + rewrite (Z.bits_above_log2 b n).
      * apply andb_false_r.
      * lia.
      * apply Z.log2_lt_pow2; try lia.
        apply Z.lt_le_trans with (2 ^ k); try lia. apply Z.pow_le_mono_r; lia.
Qed.
Lemma bor_add : forall a b k, 0 <= k -> 0 <= b < 2 ^ k -> bor (a * 2 ^ k) b = a * 2 ^ k + b.
Proof.
  intros a b k Hk Hb. unfold bor.
  pose proof (land_shifted_low a b k Hk Hb) as H0.
  rewrite <- Z.lxor_lor by assumption. symmetry. apply Z.add_nocarry_lxor. assumption.
Qed.
Lemma bor_add_8192 : forall a b, 0 <= b < 8192 -> bor (a * 8192) b = a * 8192 + b.
Proof. intros. exact (bor_add a b 13 ltac:(lia) ltac:(lia)). Qed.

(* !x on a u16 *)
Lemma bnot16_sub : forall x, 0 <= x < 65536 -> bnot16 x = 65535 - x.
Proof.
  intros x Hx. unfold bnot16.
  destruct (Z.eq_dec x 0) as [->|Hnz]; [reflexivity|].
  assert (Hl : Z.log2 x < 16) by (apply Z.log2_lt_pow2; lia).
  pose proof (Z.add_nocarry_lxor x (Z.lxor x 65535)) as Hadd.
  assert (Hland : Z.land x (Z.lxor x 65535) = 0).
  { apply Z.bits_inj'. intros n Hn. rewrite Z.land_spec, Z.lxor_spec, Z.bits_0.
    destruct (Z.testbit x n) eqn:E; [|reflexivity].
    change 65535 with (Z.ones 16).
    destruct (Z.ltb_spec n 16).
    - rewrite Z.ones_spec_low by lia. reflexivity.
    - rewrite (Z.bits_above_log2 x n) in E by lia. discriminate. }
  specialize (Hadd Hland).
  rewrite <- Z.lxor_assoc, Z.lxor_nilpotent, Z.lxor_0_l in Hadd.
  lia.
Qed.

(* ---- big-endian conversions ---------------------------------------------- *)
Lemma of_be16_be16 : forall v, u16 v -> of_be16 (v / 256 mod 256) (v mod 256) = v.
Proof. unfold u16, of_be16. intros. lia. Qed.
Lemma of_be32_be32 : forall v, u32 v ->
  of_be32 (v / 16777216 mod 256) (v / 65536 mod 256) (v / 256 mod 256) (v mod 256) = v.
Proof. unfold u32, of_be32. intros. lia. Qed.
Lemma be16_of_be16 : forall a b, byte a -> byte b -> be16 (of_be16 a b) = [a; b].
Proof. unfold byte, of_be16, be16. intros. f_equal; [|f_equal]; lia. Qed.
Lemma be32_of_be32 : forall a b c d, byte a -> byte b -> byte c -> byte d ->
  be32 (of_be32 a b c d) = [a; b; c; d].
Proof. unfold byte, of_be32, be32. intros. repeat (f_equal; try lia). Qed.
Lemma of_be16_range : forall a b, byte a -> byte b -> u16 (of_be16 a b).
Proof. unfold byte, u16, of_be16. intros. lia. Qed.
Lemma of_be32_range : forall a b c d, byte a -> byte b -> byte c -> byte d -> u32 (of_be32 a b c d).
Proof. unfold byte, u32, of_be32. intros. lia. Qed.
Lemma be16_bytes : forall v, bytes (be16 v).
Proof. intros. unfold bytes, be16, byte. repeat constructor; lia. Qed.
Lemma be32_bytes : forall v, bytes (be32 v).
Proof. intros. unfold bytes, be32, byte. repeat constructor; lia. Qed.

(* ---- readers -------------------------------------------------------------- *)
Lemma next_u8_Some : forall bs v r, next_u8 bs = Some (v, r) -> bs = v :: r.
Proof. intros [|b bs] v r H; inversion H; reflexivity. Qed.
Lemma next_u16_be_Some : forall bs v r, next_u16_be bs = Some (v, r) ->
  exists a b, bs = a :: b :: r /\ v = of_be16 a b.
Proof. intros [|a [|b bs]] v r H; inversion H. eauto. Qed.
Lemma next_u32_be_Some : forall bs v r, next_u32_be bs = Some (v, r) ->
  exists a b c d, bs = a :: b :: c :: d :: r /\ v = of_be32 a b c d.
Proof. intros [|a [|b [|c [|d bs]]]] v r H; inversion H. eauto 6. Qed.

Lemma bytes_cons : forall b bs, bytes (b :: bs) <-> byte b /\ bytes bs.
Proof. intros. unfold bytes. split; intro H; [inversion H; auto | constructor; tauto]. Qed.
Lemma bytes_app : forall a b, bytes (a ++ b) <-> bytes a /\ bytes b.
Proof. intros. unfold bytes. apply Forall_app. Qed.
Lemma bytes_firstn : forall n l, bytes l -> bytes (firstn n l).
Proof.
  induction n as [|n IH]; intros [|b l] H; cbn [firstn]; try constructor.
  - apply bytes_cons in H. tauto.
  - apply IH. apply bytes_cons in H. tauto.
Qed.
Lemma bytes_skipn : forall n l, bytes l -> bytes (skipn n l).
Proof.
  induction n as [|n IH]; intros [|b l] H; cbn [skipn]; try assumption.
  apply IH. apply bytes_cons in H. tauto.
Qed.

(* ---- generic: no panic through bind / ok_or / if --------------------------- *)
Lemma np_bind : forall A B (r : result A) (k : A -> result B),
  is_panic r = false -> (forall a, is_panic (k a) = false) -> is_panic (bind r k) = false.
Proof. intros A B [a|e|s|] k H K; cbn in *; auto; discriminate. Qed.
Lemma np_ok_or : forall A (o : option A) e, is_panic (ok_or o e) = false.
Proof. intros A [a|] e; reflexivity. Qed.
Lemma np_if : forall A (c : bool) (x y : result A),
  is_panic x = false -> is_panic y = false -> is_panic (if c then x else y) = false.
Proof. intros A [|] x y; auto. Qed.
Lemma nf_bind : forall A B (r : result A) (k : A -> result B),
  r <> OutOfFuel -> (forall a, k a <> OutOfFuel) -> bind r k <> OutOfFuel.
Proof. intros A B [a|e|s|] k H K; cbn in *; auto; discriminate. Qed.
Lemma nf_ok_or : forall A (o : option A) e, ok_or o e <> OutOfFuel.
Proof. intros A [a|] e; discriminate. Qed.
Lemma nf_if : forall A (c : bool) (x y : result A),
  x <> OutOfFuel -> y <> OutOfFuel -> (if c then x else y) <> OutOfFuel.
Proof. intros A [|] x y; auto. Qed.
Lemma Ok_inj : forall A (a b : A), @Ok A a = Ok b -> a = b.
Proof. intros A a b H. injection H. auto. Qed.
Lemma is_panic_false : forall A (r : result A), is_panic r = false -> forall s, r <> Panic s.
Proof. intros A [a|e|s'|] H s; try discriminate. Qed.

Ltac no_panic :=
  repeat first
    [ reflexivity
    | apply np_ok_or
    | apply np_bind; [| intros [? ?]; cbv beta iota ]
    | apply np_if
    | progress cbv zeta ].
Ltac no_fuel :=
  repeat first
    [ discriminate
    | apply nf_ok_or
    | apply nf_bind; [| intros [? ?]; cbv beta iota ]
    | apply nf_if
    | progress cbv zeta ].


Ltac norm_pow :=
  repeat match goal with
         | |- context [2 ^ ?k] =>
             let v := eval vm_compute in (2 ^ k) in change (2 ^ k) with v
         end.
Ltac list_eq := repeat (apply (f_equal2 (@cons Z)); [try lia|]); try reflexivity.

Lemma nth_firstn_lt : forall (n i : nat) (l : list Z) d, (i < n)%nat -> nth i (firstn n l) d = nth i l d.
Proof.
  induction n as [|n IH]; intros i l d Hi; [lia|].
  destruct l as [|b r]; [destruct i; reflexivity|].
  destruct i as [|i]; cbn [firstn nth]; [reflexivity|]. apply IH. lia.
Qed.
