(* C01 liveness: a write whose flight loses ONE segment at an ARBITRARY position is repaired by the
   retransmission timeout within two loss-free rounds. *)
From Elvis Require Import Model.Base Model.U32 Model.Tcb Model.TcpNet
  Proofs.U32Facts Proofs.TcbSafetyDefs Proofs.TcbSafetyBase Proofs.TcbSafetySnd Proofs.TcbSafetyRcv
  Proofs.TcbSafetySys Proofs.TcbLive Proofs.TcbLiveSys Proofs.TcbLiveThm
  Proofs.TcbLiveWin Proofs.TcbLiveWinSys Proofs.TcbLiveWinThm Proofs.TcbLiveWinRound
  Proofs.TcbLiveLoss Proofs.TcbLiveLossThm Proofs.TcbLiveLossRound Proofs.TcbLiveMidThm.
From Coq Require Import ZifyBool.
Local Open Scope Z_scope.
Ltac Zify.zify_post_hook ::= Z.div_mod_to_equations.

Lemma remove_nth_split {A} : forall (l : list A) i, (i < length l)%nat ->
  exists pre x0 suf, l = pre ++ x0 :: suf /\ length pre = i /\ remove_nth l i = pre ++ suf.
Proof.
  induction l as [|a l IH]; intros i Hi; [cbn in Hi; lia|].
  destruct i as [|i].
  - exists [], a, l. auto.
  - destruct (IH i ltac:(cbn in Hi; lia)) as (pre & x0 & suf & E & L & R).
    exists (a :: pre), x0, suf. cbn [app length remove_nth]. rewrite <- E, L, R. auto.
Qed.

Section MidRound.
  Variable c : config.

  Theorem one_loss_recovery s a b x bytes :
    Quiescent c s a b -> 0 < zlen bytes <= 65535 ->
    let n := zlen bytes in
    let s1 := run c s [LSend x bytes; LEmit x] in
    let nseg := length (net_of s1 x) in
    forall i, (i < nseg)%nat ->
    let s' := run c s1 [LDrop x i; LFair 2] in
    Quiescent c s' (sel x (wadd a n) a) (sel x b (wadd b n)) /\
    sub_of s' x = sub_of s x ++ bytes /\ sub_of s' (other x) = sub_of s (other x) /\
    delivered s' (other x) = delivered s (other x) ++ bytes /\ del_of s' x = del_of s x.
  Proof.
    intros HQ Hn n s1 nseg i Hi s'.
    destruct (quiescent_at c s a b x HQ) as (tx & ty & Ex & Ey & Qx & Qy & Mx & My & Nx & Ny & Pn).
    set (p := sel x a b) in *. set (q := sel x b a) in *.
    assert (Est : st tx = Established) by apply Qx.
    set (s0 := fst (sys_step c s (LSend x bytes))).
    assert (E0 : s0 = set_end (set_sub s x (sub_of s x ++ bytes)) x (ELive (tcb_send tx bytes)))
      by (apply (send_step c s x tx Pn Ex Est)).
    assert (HW0 : WriterState c x s0 p q bytes).
    { rewrite E0. exists (tcb_send tx bytes), ty. sysr. splits; auto.
      - apply writer_of_quiet, Qx.
      - unfold tcb_send. rewrite Est. cbn [accepts_send]. exact Mx. }
    destruct (emit_inflight c s0 x p q bytes HW0 Hn) as (lp & rp & segs & HI1 & HB & S1 & D1).
    cbv zeta in *. change (fst (sys_step c s0 (LEmit x))) with s1 in *.
    destruct HI1 as (tx1 & ty1 & Ex1 & Ey1 & HS1 & F1 & Hne1 & Qy1 & Mx1 & My1 & Nx1 & Ny1 & Pn1).
    rewrite app_nil_r in HS1, F1.
    subst nseg. rewrite Nx1 in Hi.
    destruct (remove_nth_split segs i Hi) as (pre & x0 & suf & Esegs & Lpre & Erm).
    (* the drop *)
    subst s'. cbn [run fold_left].
    assert (Hnes : segs <> []) by (rewrite Esegs; destruct pre; discriminate).
    rewrite (ldrop_step c s1 x i segs Pn1 Nx1 Hnes).
    rewrite Nat.mod_small by exact Hi. rewrite Erm.
    set (s2 := set_net s1 x (pre ++ suf)).
    assert (Ex2 : end_of s2 x = ELive tx1) by (subst s2; now sysr).
    assert (Ey2 : end_of s2 (other x) = ELive ty1) by (subst s2; now sysr).
    assert (Nx2 : net_of s2 x = pre ++ suf) by (subst s2; now sysr).
    assert (Ny2 : net_of s2 (other x) = []) by (subst s2; now sysr).
    assert (Pn2 : panicked s2 = false) by (subst s2; now sysr).
    rewrite Esegs in HS1, F1.
    rewrite (fairk c s2 2 Pn2). cbn [fair_rounds].
    set (R := wadd p n) in *.
    assert (Hmain : exists s3 tx' ty',
      fair_half c (fair_half c (fair_half c (fair_half c s2 SA) SB) SA) SB = s3 /\
      end_of s3 x = ELive tx' /\ end_of s3 (other x) = ELive ty' /\
      net_of s3 x = [] /\ net_of s3 (other x) = [] /\ panicked s3 = false /\
      (forall y, sub_of s3 y = sub_of s2 y) /\ del_of s3 x = del_of s2 x /\
      del_of s3 (other x) = del_of s2 (other x) ++ [flight_bytes (pre ++ x0 :: suf)] /\
      quiet tx' R q /\ quiet ty' q R /\ mtu tx' = mtu_of c x /\ mtu ty' = mtu_of c (other x)).
    { destruct x; cbn [other] in *.
      - destruct (half_send_mid c s2 SA tx1 ty1 p q R lp rp pre x0 suf Ex2 Ey2 Nx2 Ny2 Pn2 HS1 F1 Qy1)
          as (tx2 & ty2 & E1 & E2 & E3 & E4 & E5 & E6 & E7 & E8 & E9 & E10 & E11 & E12).
        set (s3 := fair_half c s2 SA) in *. cbn [other] in *.
        destruct (half_ack_mid c s3 SB ty2 tx2 p q R pre x0 suf E2 E1 E4 E3 E5 E10 E9)
          as (ty3 & tx3 & F1' & F2 & F3 & F4 & F5 & F6 & F7 & F8 & F9 & F10 & F11).
        set (s4 := fair_half c s3 SB) in *. cbn [other] in *.
        rewrite (half_idle c s4 SA tx3 ty3 _ _ F2 F9 F4 F1' (quiet_in_text _ _ _ F8)).
        rewrite (half_idle c s4 SB ty3 tx3 _ _ F1' F8 F3 F2 (quiet_in_text _ _ _ F9)).
        exists s4, tx3, ty3. splits; auto.
        + intros y. rewrite F6. apply E6.
        + rewrite (F7 SA). exact E7.
        + rewrite (F7 SB). exact E8.
        + congruence.
        + congruence.
      - assert (Hit : in_text tx1 = []) by apply HS1.
        rewrite (half_idle c s2 SA ty1 tx1 _ _ Ey2 Qy1 Ny2 Ex2 Hit).
        destruct (half_send_mid c s2 SB tx1 ty1 p q R lp rp pre x0 suf Ex2 Ey2 Nx2 Ny2 Pn2 HS1 F1 Qy1)
          as (tx2 & ty2 & E1 & E2 & E3 & E4 & E5 & E6 & E7 & E8 & E9 & E10 & E11 & E12).
        set (s3 := fair_half c s2 SB) in *. cbn [other] in *.
        destruct (half_ack_mid c s3 SA ty2 tx2 p q R pre x0 suf E2 E1 E4 E3 E5 E10 E9)
          as (ty3 & tx3 & F1' & F2 & F3 & F4 & F5 & F6 & F7 & F8 & F9 & F10 & F11).
        set (s4 := fair_half c s3 SA) in *. cbn [other] in *.
        rewrite (half_idle c s4 SB tx3 ty3 _ _ F2 F9 F4 F1' (quiet_in_text _ _ _ F8)).
        exists s4, tx3, ty3. splits; auto.
        + intros y. rewrite F6. apply E6.
        + rewrite (F7 SB). exact E7.
        + rewrite (F7 SA). exact E8.
        + congruence.
        + congruence. }
    destruct Hmain as (s3 & tx' & ty' & -> & G1 & G2 & G3 & G4 & G5 & G6 & G7 & G8 & G9 & G10 & G11 & G12).
    pose proof (quiescent_from c s3 x tx' ty' R q G1 G2 G9 G10 G11 G12 G3 G4 G5) as HQ'.
    assert (Esel1 : sel x R q = sel x (wadd a n) a) by (subst R p q; destruct x; reflexivity).
    assert (Esel2 : sel x q R = sel x b (wadd b n)) by (subst R p q; destruct x; reflexivity).
    rewrite Esel1, Esel2 in HQ'.
    split; [exact HQ'|].
    rewrite !G6. unfold delivered. rewrite G7, G8. subst s2. sysr.
    rewrite !S1, !D1, E0. sysr. rewrite concat_app. cbn [concat]. rewrite app_nil_r, <- Esegs, HB. auto.
  Qed.
End MidRound.

Lemma one_loss_explicit : forall (c : config) (s : sys) (a b : Z) (x : side) (bytes : list Z),
  Quiescent c s a b -> 0 < zlen bytes <= 65535 ->
  let s1 := run c s [LSend x bytes; LEmit x] in
  let nseg := length (net_of s1 x) in
  forall i, (i < nseg)%nat ->
  let s' := run c s1 [LDrop x i; LFair 2] in
  (exists a' b', Quiescent c s' a' b') /\
  sub_of s' x = sub_of s x ++ bytes /\ sub_of s' (other x) = sub_of s (other x) /\
  delivered s' (other x) = delivered s (other x) ++ bytes /\ delivered s' x = delivered s x.
Proof.
  intros c s a b x bytes HQ Hn s1 nseg i Hi s'.
  destruct (one_loss_recovery c s a b x bytes HQ Hn i Hi) as (H1 & H2 & H3 & H4 & H5).
  cbv zeta in H5. split; [eauto|]. splits; auto. unfold delivered. subst s' nseg s1. now rewrite H5.
Qed.
