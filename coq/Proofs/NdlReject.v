(* Facts about the NDL parser model, part 5: rejection of structural errors.
   Each lemma is about one loop of the parser stack positioned at a rendered
   line (any accumulated state, any fuel, any line number, anything behind the
   line); the *_peel lemmas of NdlFile bring the parser to such a position
   behind an arbitrary well-formed prefix. *)
From Elvis Require Import Model.Base Model.Ndl Proofs.NdlFacts Proofs.NdlRound Proofs.NdlFile
  Proofs.NdlRewrite.
From Coq Require Import NArith ZifyBool.
Local Open Scope Z_scope.

Definition wf_sim (s : sim) : Prop := psim s /\ csim s.

Definition is_err {A} (r : result A) : Prop := exists e, r = Err e.

(* ------------------------------------------------------------ the head line fails to parse *)

(* whatever makes general_parser fail on the line at the head (duplicate
   argument, unknown type word, broken brackets/quotes): every loop stops with Err *)
Section HeadFails.
  Variable s s1 : text.
  Variable nt : nat.
  Variable ln e : Z.
  Variable Hnil : is_nil s = false.
  Variable Htabs : count_leading c_tab s = nt.
  Variable Hgp : general_parser get_type (skipn nt s) ln = Err e.

  Lemma str_from_head : str_from nt s = Ok (skipn nt s).
  Proof. apply str_from_tabs. lia. Qed.

  Lemma items_loop_head_fails f expect l0 acc :
    items_loop get_type (S f) expect nt l0 acc s ln = Err (wrapline l0 e).
  Proof. cbn [items_loop]. rewrite Hnil, str_from_head, Hgp. reflexivity. Qed.

  Lemma network_loop_head_fails f l0 acc :
    network_loop get_type (S f) nt l0 acc s ln = Err (wrapline l0 e).
  Proof. cbn [network_loop]. rewrite Hnil, str_from_head, Hgp. reflexivity. Qed.

  Lemma networks_loop_head_fails f l0 acc :
    networks_loop get_type (S f) nt l0 acc s ln = Err (wrapline l0 e).
  Proof.
    cbn [networks_loop]. rewrite Hnil, Htabs, Nat.ltb_irrefl, str_from_head, Hgp. reflexivity.
  Qed.

  Lemma machines_loop_head_fails f l0 acc :
    machines_loop get_type (S f) nt l0 acc s ln = Err (wrapline l0 e).
  Proof.
    cbn [machines_loop]. rewrite Hnil, Htabs, Nat.ltb_irrefl, str_from_head, Hgp. reflexivity.
  Qed.

  Lemma machine_loop_head_fails f l0 req a b c :
    machine_loop get_type (S f) nt l0 req a b c s ln = Err (wrapline l0 e).
  Proof.
    cbn [machine_loop]. rewrite Hnil, Htabs, Nat.ltb_irrefl, str_from_head, Hgp. reflexivity.
  Qed.
End HeadFails.

Lemma core_loop_head_fails f nets ms s ln e :
  is_nil s = false -> general_parser get_type s ln = Err e ->
  core_loop get_type (S f) nets ms s ln = Err e.
Proof. intros Hn Hg. cbn [core_loop]. rewrite Hn, Hg. reflexivity. Qed.

(* ------------------------------------------------------------ wrong nesting: too deep *)

Lemma networks_loop_too_deep f nt l0 acc s ln :
  is_nil s = false -> (nt < count_leading c_tab s)%nat ->
  networks_loop get_type (S f) nt l0 acc s ln = Err (ecode E_TABCOUNT ln).
Proof.
  intros Hn Hc. cbn [networks_loop]. rewrite Hn.
  replace (Nat.ltb (count_leading c_tab s) nt) with false by (symmetry; apply Nat.ltb_ge; lia).
  apply Nat.ltb_lt in Hc. rewrite Hc. reflexivity.
Qed.

Lemma machines_loop_too_deep f nt l0 acc s ln :
  is_nil s = false -> (nt < count_leading c_tab s)%nat ->
  machines_loop get_type (S f) nt l0 acc s ln = Err (ecode E_TABCOUNT ln).
Proof.
  intros Hn Hc. cbn [machines_loop]. rewrite Hn.
  replace (Nat.ltb (count_leading c_tab s) nt) with false by (symmetry; apply Nat.ltb_ge; lia).
  apply Nat.ltb_lt in Hc. rewrite Hc. reflexivity.
Qed.

Lemma machine_loop_too_deep f nt l0 req a b c s ln :
  is_nil s = false -> (nt < count_leading c_tab s)%nat ->
  machine_loop get_type (S f) nt l0 req a b c s ln = Err (ecode E_TABCOUNT ln).
Proof.
  intros Hn Hc. cbn [machine_loop]. rewrite Hn.
  replace (Nat.ltb (count_leading c_tab s) nt) with false by (symmetry; apply Nat.ltb_ge; lia).
  apply Nat.ltb_lt in Hc. rewrite Hc. reflexivity.
Qed.

(* behind an item line (IP / machine Network / Protocol / Application) a deeper line is an error *)
Lemma items_loop_child_too_deep f expect nt l0 acc i tail ln :
  pitem expect i -> not_nl_head tail -> (nt < count_leading c_tab tail)%nat ->
  items_loop get_type (S f) expect nt l0 acc (render_item nt i ++ tail) ln
  = Err (ecode E_TABCOUNT (ln + 1)).
Proof.
  intros Hi Ht Hc. rewrite (items_loop_step f expect nt l0 acc i tail ln Hi Ht).
  replace (Nat.ltb (count_leading c_tab tail) nt) with false by (symmetry; apply Nat.ltb_ge; lia).
  apply Nat.ltb_lt in Hc. rewrite Hc. reflexivity.
Qed.

Lemma network_loop_child_too_deep f nt l0 acc i tail ln :
  pitem IP i -> not_nl_head tail -> (nt < count_leading c_tab tail)%nat ->
  network_loop get_type (S f) nt l0 acc (render_item nt i ++ tail) ln
  = Err (ecode E_TABCOUNT (ln + 1)).
Proof.
  intros Hi Ht Hc. rewrite (network_loop_step f nt l0 acc i tail ln Hi Ht).
  replace (Nat.ltb (count_leading c_tab tail) nt) with false by (symmetry; apply Nat.ltb_ge; lia).
  apply Nat.ltb_lt in Hc. rewrite Hc. reflexivity.
Qed.

(* a section header with nothing nested under it (the next line is not one level deeper) *)
Lemma items_parser_empty expect s nt ln :
  count_leading c_tab s <> nt -> items_parser get_type expect s nt ln = Err (ecode E_FORMAT (-1)).
Proof.
  intros H. unfold items_parser. apply Nat.eqb_neq in H. rewrite H. reflexivity.
Qed.

Lemma network_parser_empty dec args s nt ln :
  count_leading c_tab s <> nt -> network_parser get_type dec args s nt ln = Err (ecode E_TABSGOT ln).
Proof.
  intros H. unfold network_parser. apply Nat.eqb_neq in H. rewrite H. reflexivity.
Qed.

(* ------------------------------------------------------------ wrong nesting: wrong kind of line here *)

Lemma dectype_eqb_neq a b : a <> b -> dectype_eqb a b = false.
Proof. destruct a, b; intros H; try reflexivity; contradiction H; reflexivity. Qed.

Lemma networks_loop_wrong_type f l0 acc n d a tail ln :
  d <> Network -> pargs a -> not_nl_head tail ->
  networks_loop get_type (S f) n l0 acc (render_line n d a ++ tail) ln = Err (ecode E_EXPECTED (ln + 1)).
Proof.
  intros Hd Ha Ht. cbn [networks_loop].
  rewrite line_is_nil, line_count, Nat.ltb_irrefl, line_str_from, (gp_line _ _ _ _ Ha Ht).
  rewrite (dectype_eqb_neq _ _ Hd). reflexivity.
Qed.

Lemma machines_loop_wrong_type f l0 acc n d a tail ln :
  d <> Machine -> pargs a -> not_nl_head tail ->
  machines_loop get_type (S f) n l0 acc (render_line n d a ++ tail) ln = Err (ecode E_EXPECTED (ln + 1)).
Proof.
  intros Hd Ha Ht. cbn [machines_loop].
  rewrite line_is_nil, line_count, Nat.ltb_irrefl, line_str_from, (gp_line _ _ _ _ Ha Ht).
  rewrite (dectype_eqb_neq _ _ Hd). reflexivity.
Qed.

Lemma network_loop_wrong_type f l0 acc n d a tail ln :
  d <> IP -> pargs a -> not_nl_head tail ->
  network_loop get_type (S f) n l0 acc (render_line n d a ++ tail) ln = Err (ecode E_EXPECTED ln).
Proof.
  intros Hd Ha Ht. cbn [network_loop].
  rewrite line_is_nil, line_str_from, (gp_line _ _ _ _ Ha Ht).
  rewrite (dectype_eqb_neq _ _ Hd). reflexivity.
Qed.

Lemma items_loop_wrong_type f expect l0 acc n d a tail ln :
  d <> expect -> pargs a -> not_nl_head tail ->
  items_loop get_type (S f) expect n l0 acc (render_line n d a ++ tail) ln = Err (ecode E_EXPECTED ln).
Proof.
  intros Hd Ha Ht. cbn [items_loop].
  rewrite line_is_nil, line_str_from, (gp_line _ _ _ _ Ha Ht).
  rewrite (dectype_eqb_neq _ _ Hd). cbn [negb]. f_equal. f_equal. lia.
Qed.

(* in a machine: a line that is not one of the still-missing sections
   (a second [Protocols], an item without its section header, ...) *)
Lemma machine_loop_unexpected f l0 req x y z n d a tail ln :
  req_contains d req = false -> pargs a -> not_nl_head tail ->
  machine_loop get_type (S f) n l0 req x y z (render_line n d a ++ tail) ln
  = Err (ecode E_UNEXPECTED ln).
Proof.
  intros Hd Ha Ht. cbn [machine_loop].
  rewrite line_is_nil, line_count, Nat.ltb_irrefl, line_str_from, (gp_line _ _ _ _ Ha Ht), Hd.
  f_equal. f_equal. lia.
Qed.

(* at the top level only Template, Networks and Machines may be declared *)
Lemma core_loop_cannot_declare f nets ms d a tail ln :
  d <> Template -> d <> Networks -> d <> Machines -> pargs a -> not_nl_head tail ->
  core_loop get_type (S f) nets ms (render_line 0 d a ++ tail) ln = Err (ecode E_CANNOT ln).
Proof.
  intros H1 H2 H3 Ha Ht. cbn [core_loop].
  rewrite line_is_nil, render_line0, (gp_line _ _ _ _ Ha Ht).
  destruct d; try contradiction; f_equal; f_equal; lia.
Qed.

(* ------------------------------------------------------------ missing required section *)

(* the machine loop has ended (end of input or a shallower line) with a section still missing *)
Lemma machine_parser_missing args s ln req x y z rem ln' :
  machine_loop get_type (S (length s)) 2 (ln - 1) [Networks; Protocols; Applications] [] [] [] s ln
    = Ok (req, x, y, z, rem, ln') ->
  req <> [] -> machine_parser get_type args s 2 ln = Err (ecode E_REQUIRED (ln - 1)).
Proof.
  intros H Hr. unfold machine_parser. rewrite H. destruct req; [contradiction|]. reflexivity.
Qed.

(* canonical instances: a machine body with one of the three sections left out, followed by
   anything shallower *)
Definition msec (sec : dectype) (its : list item) : text :=
  render_line 2 sec [] ++ flat_map (render_item 3) its.

Lemma machine_missing_one args sec1 its1 sec2 its2 rest ln :
  (sec1, sec2) = (Networks, Protocols) \/ (sec1, sec2) = (Networks, Applications) \/
  (sec1, sec2) = (Protocols, Applications) ->
  its1 <> [] -> Forall (pitem (item_type_of sec1)) its1 ->
  its2 <> [] -> Forall (pitem (item_type_of sec2)) its2 ->
  (count_leading c_tab rest < 2)%nat -> not_nl_head rest ->
  machine_parser get_type args (msec sec1 its1 ++ msec sec2 its2 ++ rest) 2 ln
  = Err (ecode E_REQUIRED (ln - 1)).
Proof.
  intros Hs N1 F1 N2 F2 Hc Ht. unfold machine_parser, msec. repeat rewrite <- app_assoc.
  set (fuel := S (length _)).
  assert (Hfuel : (3 <= fuel)%nat).
  { unfold fuel. repeat rewrite app_length.
    pose proof (line_len 2 sec1 []). pose proof (line_len 2 sec2 []). lia. }
  destruct fuel as [|[|[|f]]]; try lia.
  set (t2 := render_line 2 sec2 [] ++ (flat_map (render_item 3) its2 ++ rest)).
  assert (C2 : (count_leading c_tab t2 < 3)%nat) by (unfold t2; rewrite line_count; lia).
  assert (N2' : not_nl_head t2) by apply line_not_nl.
  destruct Hs as [Hs|[Hs|Hs]]; injection Hs as -> ->.
  - rewrite (machine_loop_step _ (ln - 1) [Networks; Protocols; Applications] [Protocols; Applications] [] [] [] Networks its1 t2 ln
               (or_introl eq_refl) eq_refl eq_refl N1 F1 C2 N2').
    unfold t2.
    rewrite (machine_loop_step _ (ln - 1) [Protocols; Applications] [Applications] _ [] [] Protocols its2 rest _
               (or_intror (or_introl eq_refl)) eq_refl eq_refl N2 F2 ltac:(lia) Ht).
    rewrite machine_loop_exit by (try exact Hc; lia). reflexivity.
  - rewrite (machine_loop_step _ (ln - 1) [Networks; Protocols; Applications] [Protocols; Applications] [] [] [] Networks its1 t2 ln
               (or_introl eq_refl) eq_refl eq_refl N1 F1 C2 N2').
    unfold t2.
    rewrite (machine_loop_step _ (ln - 1) [Protocols; Applications] [Protocols] _ [] [] Applications its2 rest _
               (or_intror (or_intror eq_refl)) eq_refl eq_refl N2 F2 ltac:(lia) Ht).
    rewrite machine_loop_exit by (try exact Hc; lia). reflexivity.
  - rewrite (machine_loop_step _ (ln - 1) [Networks; Protocols; Applications] [Networks; Applications] [] [] [] Protocols its1 t2 ln
               (or_intror (or_introl eq_refl)) eq_refl eq_refl N1 F1 C2 N2').
    unfold t2.
    rewrite (machine_loop_step _ (ln - 1) [Networks; Applications] [Networks] [] _ [] Applications its2 rest _
               (or_intror (or_intror eq_refl)) eq_refl eq_refl N2 F2 ltac:(lia) Ht).
    rewrite machine_loop_exit by (try exact Hc; lia). reflexivity.
Qed.

(* a machine line with nothing under it *)
Lemma machine_missing_all args rest ln : (count_leading c_tab rest < 2)%nat ->
  machine_parser get_type args rest 2 ln = Err (ecode E_REQUIRED (ln - 1)).
Proof.
  intros Hc. unfold machine_parser. rewrite machine_loop_exit by (try exact Hc; lia). reflexivity.
Qed.

(* ------------------------------------------------------------ round trips *)

Lemma core_parse_render s : wf_sim s -> core_parse (render s) = Ok s.
Proof.
  intros [Hp Hc]. unfold core_parse, core_parse_gen. rewrite (rewrite_render s Hc).
  apply core_loop_render; [exact Hp|].
  unfold render. repeat rewrite app_length.
  pose proof (line_len 0 Networks []). pose proof (line_len 0 Machines []). lia.
Qed.

Lemma core_parse_render4 s : wf_sim s -> core_parse (render4 s) = Ok s.
Proof.
  intros [Hp Hc]. unfold core_parse, core_parse_gen. rewrite (rewrite_render4 s Hc).
  apply core_loop_render; [exact Hp|].
  unfold render. repeat rewrite app_length.
  pose proof (line_len 0 Networks []). pose proof (line_len 0 Machines []). lia.
Qed.

Lemma core_parse_crlf t : core_parse (crlf t) = core_parse t.
Proof.
  unfold core_parse, core_parse_gen. rewrite rewrite_crlf. reflexivity.
Qed.
