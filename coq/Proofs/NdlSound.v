(* Facts about the NDL parser model, part 6: soundness of acceptance.  Whatever
   text the parser accepts, the structure it returns is well-formed (wf_sim):
   every line has distinct, well-formed, clean arguments, network ids are present
   and distinct, every network has an address line, every machine has its three
   non-empty sections with items of the right kind.  Hence parsing is idempotent
   through rendering: an accepted description, rendered canonically, parses to
   the same structure. *)
From Elvis Require Import Model.Base Model.Ndl Proofs.NdlFacts Proofs.NdlRound Proofs.NdlFile
  Proofs.NdlRewrite Proofs.NdlReject.
From Coq Require Import NArith ZifyBool.
Local Open Scope N_scope.

(* ------------------------------------------------------------ substrings *)

Definition infix (x s : text) : Prop := exists a b, s = a ++ x ++ b.
Definition suffix (r s : text) : Prop := exists a, s = a ++ r.

Lemma suffix_refl s : suffix s s.
Proof. exists []. reflexivity. Qed.

Lemma suffix_trans a b c : suffix a b -> suffix b c -> suffix a c.
Proof. intros [x ->] [y ->]. exists (y ++ x). rewrite app_assoc. reflexivity. Qed.

Lemma suffix_skipn n (s : text) : suffix (skipn n s) s.
Proof. exists (firstn n s). symmetry. apply firstn_skipn. Qed.

Lemma suffix_app a (b : text) : suffix b (a ++ b).
Proof. exists a. reflexivity. Qed.

Lemma suffix_cons c (b : text) : suffix b (c :: b).
Proof. exists [c]. reflexivity. Qed.

Lemma infix_suffix x r s : infix x r -> suffix r s -> infix x s.
Proof. intros (a & b & ->) [p ->]. exists (p ++ a), b. rewrite <- app_assoc. reflexivity. Qed.

Lemma infix_in c x s : infix x s -> In c x -> In c s.
Proof. intros (a & b & ->) H. apply in_or_app. right. apply in_or_app. left. exact H. Qed.

Lemma suffix_len (r s : text) : suffix r s -> (length r <= length s)%nat.
Proof. intros [a ->]. rewrite app_length. lia. Qed.

Lemma NoDup_snoc {A} (l : list A) x : NoDup l -> ~ In x l -> NoDup (l ++ [x]).
Proof.
  induction l as [|y l IH]; intros Hn Hx; cbn [app]; [repeat constructor; intros []|].
  inversion Hn as [|? ? Hy Hl]. subst. constructor.
  - intros Hi. apply in_app_or in Hi. destruct Hi as [Hi|[Hi|[]]]; [exact (Hy Hi)|].
    subst. apply Hx. left. reflexivity.
  - apply IH; [exact Hl|]. intros Hi. apply Hx. right. exact Hi.
Qed.

(* ------------------------------------------------------------ clean texts *)

Lemma norun4_mono s : forall k1 k2, (k1 <= k2)%nat -> norun4 k2 s = true -> norun4 k1 s = true.
Proof.
  induction s as [|c s IH]; intros k1 k2 Hk H; [reflexivity|]. cbn [norun4] in *.
  destruct (c =? c_sp).
  - apply andb_prop in H. destruct H as [H1 H2]. apply Nat.ltb_lt in H1.
    replace (Nat.ltb k1 3) with true by (symmetry; apply Nat.ltb_lt; lia). cbn [andb].
    apply (IH (S k1) (S k2)); [lia|exact H2].
  - exact H.
Qed.

Lemma norun4_app_l a : forall k b, norun4 k (a ++ b) = true -> norun4 k a = true.
Proof.
  induction a as [|x a IH]; intros k b H; [reflexivity|]. cbn [app norun4] in *.
  destruct (x =? c_sp).
  - apply andb_prop in H. destruct H as [H1 H2]. rewrite H1. cbn [andb]. exact (IH _ _ H2).
  - exact (IH _ _ H).
Qed.

Lemma norun4_app_r a : forall k b, norun4 k (a ++ b) = true -> norun4 0 b = true.
Proof.
  induction a as [|x a IH]; intros k b H.
  - cbn [app] in H. apply (norun4_mono b 0%nat k); [lia|exact H].
  - cbn [app norun4] in H. destruct (x =? c_sp).
    + apply andb_prop in H. destruct H as [_ H2]. exact (IH _ _ H2).
    + exact (IH _ _ H).
Qed.

Lemma clean_infix x s : clean s -> infix x s -> clean x.
Proof.
  intros [Hc Hn] Hi. split.
  - intros H. apply Hc. exact (infix_in _ _ _ Hi H).
  - destruct Hi as (a & b & ->). apply norun4_app_r in Hn. apply norun4_app_l in Hn. exact Hn.
Qed.

Lemma remove_cr_no_cr s : ~ In c_cr (remove_cr s).
Proof.
  induction s as [|c s IH]; cbn [remove_cr]; [intros []|].
  destruct (c =? c_cr) eqn:E; [exact IH|]. intros [H|H]; [|exact (IH H)].
  subst c. rewrite N.eqb_refl in E. discriminate.
Qed.

Lemma sp4_unfold c1 r1 :
  sp4 (c1 :: r1) =
  match r1 with
  | c2 :: c3 :: c4 :: r4 =>
    if (c1 =? c_sp) && (c2 =? c_sp) && (c3 =? c_sp) && (c4 =? c_sp) then c_tab :: sp4 r4 else c1 :: sp4 r1
  | _ => c1 :: sp4 r1
  end.
Proof. reflexivity. Qed.

Lemma sp4_in x : forall n s, (length s <= n)%nat -> In x (sp4 s) -> x = c_tab \/ In x s.
Proof.
  induction n as [|n IH]; intros s Hl H.
  - destruct s; [destruct H|cbn in Hl; lia].
  - destruct s as [|c1 r1]; [destruct H|]. rewrite sp4_unfold in H. cbn [length] in Hl.
    assert (K : In x (c1 :: sp4 r1) -> x = c_tab \/ In x (c1 :: r1)).
    { intros [Hx|Hx]; [right; left; exact Hx|].
      destruct (IH r1 ltac:(lia) Hx) as [Ht|Hi]; [left; exact Ht|right; right; exact Hi]. }
    destruct r1 as [|c2 [|c3 [|c4 r4]]]; try exact (K H).
    destruct ((c1 =? c_sp) && (c2 =? c_sp) && (c3 =? c_sp) && (c4 =? c_sp)); [|exact (K H)].
    destruct H as [Hx|Hx]; [left; symmetry; exact Hx|].
    cbn [length] in Hl. destruct (IH r4 ltac:(lia) Hx) as [Ht|Hi]; [left; exact Ht|].
    right. right. right. right. right. exact Hi.
Qed.

(* after the replacement no run of four spaces is left *)
Lemma sp4_norun : forall n s k, (length s <= n)%nat ->
  (4 <= count_leading c_sp s \/ k + count_leading c_sp s <= 3)%nat -> norun4 k (sp4 s) = true.
Proof.
  induction n as [|n IH]; intros s k Hl Hk.
  - destruct s; [reflexivity|cbn in Hl; lia].
  - destruct s as [|c1 r1]; [reflexivity|]. cbn [length] in Hl.
    destruct (c1 =? c_sp) eqn:E1.
    + apply N.eqb_eq in E1. subst c1. cbn [count_leading] in Hk.
      change (c_sp =? c_sp) with true in Hk. cbn iota in Hk.
      destruct (Nat.le_gt_cases 3 (count_leading c_sp r1)) as [Hge|Hlt].
      * (* at least four spaces: a tab *)
        destruct r1 as [|c2 r2]; [cbn in Hge; lia|]. cbn [count_leading] in Hge.
        destruct (c2 =? c_sp) eqn:E2; [|lia].
        destruct r2 as [|c3 r3]; [cbn in Hge; lia|]. cbn [count_leading] in Hge.
        destruct (c3 =? c_sp) eqn:E3; [|lia].
        destruct r3 as [|c4 r4]; [cbn in Hge; lia|]. cbn [count_leading] in Hge.
        destruct (c4 =? c_sp) eqn:E4; [|lia].
        rewrite sp4_unfold. change (c_sp =? c_sp) with true. rewrite E2, E3, E4. cbn [andb].
        cbn [norun4]. change (c_tab =? c_sp) with false. cbn iota.
        cbn [length] in Hl. apply IH; [lia|]. lia.
      * (* fewer: the space stays *)
        rewrite sp4_space_short.
        -- cbn [norun4]. change (c_sp =? c_sp) with true. cbn iota.
           replace (Nat.ltb k 3) with true by (symmetry; apply Nat.ltb_lt; lia). cbn [andb].
           apply IH; [lia|]. right. lia.
        -- intros c2 c3 c4 r4 ->. cbn [count_leading] in Hlt.
           destruct (c2 =? c_sp); [|reflexivity]. destruct (c3 =? c_sp); [|reflexivity].
           destruct (c4 =? c_sp); [|reflexivity]. lia.
    + assert (Hne : c1 <> c_sp) by (apply N.eqb_neq; exact E1).
      rewrite sp4_nonspace by exact Hne. cbn [norun4]. rewrite E1. apply IH; [lia|]. lia.
Qed.

Lemma rewrite_clean txt : clean (rewrite txt).
Proof.
  unfold rewrite. split.
  - intros H. apply (sp4_in c_cr _ _ (Nat.le_refl _)) in H. destruct H as [H|H]; [discriminate H|].
    exact (remove_cr_no_cr _ H).
  - apply (sp4_norun _ _ 0%nat (Nat.le_refl _)). lia.
Qed.

(* ------------------------------------------------------------ one argument, read back *)

Lemma span_ws_spec s a b : span_ws s = (a, b) -> s = a ++ b /\ head_not_ws b.
Proof.
  revert a b. induction s as [|c r IH]; intros a b H; cbn [span_ws] in H.
  - injection H as <- <-. split; [reflexivity|exact I].
  - destruct (is_ws c) eqn:E.
    + destruct (span_ws r) as [a' b'] eqn:E2. injection H as <- <-.
      destruct (IH _ _ eq_refl) as [-> Hh]. split; [reflexivity|exact Hh].
    + injection H as <- <-. split; [reflexivity|exact E].
Qed.

Lemma escaped_wf_val : forall n f i v r, (length i <= n)%nat -> escaped f i = Some (v, r) -> wf_val v.
Proof.
  induction n as [|n IH]; intros f i v r Hl H.
  - destruct i; [|cbn in Hl; lia]. cbn in H. injection H as <- <-. constructor.
  - destruct i as [|c i]; cbn [escaped] in H.
    + injection H as <- <-. constructor.
    + cbn [length] in Hl. destruct (c =? c_bslash) eqn:Eb.
      * apply N.eqb_eq in Eb. subst c. destruct i as [|d i]; [discriminate|].
        destruct (d =? c_quote) eqn:Eq; [|discriminate]. apply N.eqb_eq in Eq. subst d.
        destruct (escaped false i) as [[v' r']|] eqn:E; [|discriminate]. injection H as <- <-.
        cbn [length] in Hl. apply wfv_esc. exact (IH false i v' r' ltac:(lia) E).
      * destruct (c =? c_quote) eqn:Eq.
        -- destruct f; [discriminate|]. injection H as <- <-. constructor.
        -- destruct (escaped false i) as [[v' r']|] eqn:E; [|discriminate]. injection H as <- <-.
           apply wfv_normal; [apply N.eqb_neq; exact Eb|apply N.eqb_neq; exact Eq|].
           exact (IH false i v' r' ltac:(lia) E).
Qed.

Lemma value_body_wf_val i v r : value_body i = (v, r) -> wf_val v.
Proof.
  unfold value_body. destruct (escaped true i) as [[v' r']|] eqn:E; intros H; injection H as <- <-.
  - exact (escaped_wf_val _ _ _ _ _ (Nat.le_refl _) E).
  - constructor.
Qed.

Lemma arg1_spec i k v r : arg1 i = Some ((k, v), r) ->
  (exists ws, i = ws ++ k ++ c_eq :: c_quote :: v ++ c_quote :: r) /\
  ~ In c_eq k /\ head_not_ws k /\ wf_val v.
Proof.
  unfold arg1. destruct (span_ws i) as [ws r0] eqn:HS. apply span_ws_spec in HS. destruct HS as [-> Hh].
  destruct ws as [|w ws]; [discriminate|].
  destruct (take_until c_eq r0) as [[key r2]|] eqn:T; [|discriminate].
  apply take_until_split in T. destruct T as (-> & (r3' & ->) & Hn).
  destruct r3' as [|q r4]; [discriminate|].
  destruct (q =? c_quote) eqn:Eq; [|discriminate]. apply N.eqb_eq in Eq. subst q.
  destruct (value_body r4) as [v' r5] eqn:V. pose proof (value_body_wf_val _ _ _ V) as Hv.
  apply value_body_app in V. subst r4.
  destruct r5 as [|q2 r6]; [discriminate|]. destruct (q2 =? c_quote) eqn:Eq2; [|discriminate].
  apply N.eqb_eq in Eq2. subst q2. intros H. injection H as <- <- <-.
  split; [exists (w :: ws); reflexivity|]. split; [exact Hn|]. split; [|exact Hv].
  destruct key as [|c key]; [exact I|exact Hh].
Qed.

(* what [arguments] returns: every pair is well-formed and a substring of the input *)
Definition arg_ok (src : text) (kv : text * text) : Prop :=
  ~ In c_eq (fst kv) /\ head_not_ws (fst kv) /\ wf_val (snd kv) /\ infix (fst kv) src /\ infix (snd kv) src.

Lemma arguments_spec fuel : forall i args r, arguments fuel i = Ok (args, r) -> Forall (arg_ok i) args.
Proof.
  induction fuel as [|f IH]; intros i args r H; cbn [arguments] in H; [discriminate|].
  destruct (arg1 i) as [[[k v] r1]|] eqn:A.
  - destruct (Nat.eqb (length r1) (length i)); [discriminate|].
    destruct (arguments f r1) as [[l r']| | |] eqn:E; try discriminate. injection H as <- <-.
    apply arg1_spec in A. destruct A as ((ws & Hi) & Hn & Hh & Hv).
    constructor.
    + unfold arg_ok. cbn [fst snd]. split; [exact Hn|]. split; [exact Hh|]. split; [exact Hv|]. split.
      * exists ws, (c_eq :: c_quote :: v ++ c_quote :: r1). exact Hi.
      * exists (ws ++ k ++ [c_eq; c_quote]), (c_quote :: r1). rewrite Hi.
        repeat rewrite <- app_assoc. reflexivity.
    + specialize (IH _ _ _ E). eapply Forall_impl; [|exact IH].
      intros [k' v'] (H1 & H2 & H3 & H4 & H5). unfold arg_ok. cbn [fst snd] in *.
      assert (Hsuf : suffix r1 i).
      { exists (ws ++ k ++ c_eq :: c_quote :: v ++ [c_quote]). rewrite Hi.
        repeat rewrite <- app_assoc. cbn [app]. repeat rewrite <- app_assoc. reflexivity. }
      repeat split; try assumption; eapply infix_suffix; eassumption.
  - injection H as <- <-. constructor.
Qed.

(* ------------------------------------------------------------ get_type returns a suffix *)

Lemma kw_suffix tag : forall i r, kw tag i = Some r -> suffix r i.
Proof.
  induction tag as [|b t IH]; intros i r H; cbn [kw] in H.
  - injection H as <-. apply suffix_refl.
  - destruct i as [|a i]; [discriminate|]. destruct (ascii_lower a =? b); [|discriminate].
    eapply suffix_trans; [exact (IH _ _ H)|apply suffix_cons].
Qed.

Lemma get_type_suffix i d r : get_type i = Ok (d, r) -> suffix r i.
Proof.
  unfold get_type. generalize tags_fixed. intros tags. induction tags as [|t ts IH]; cbn [get_type_alt].
  - discriminate.
  - destruct (kw (tag_name t) i) as [r'|] eqn:E.
    + intros H. injection H as <- <-. exact (kw_suffix _ _ _ E).
    + exact IH.
Qed.

Lemma section_spec s content rem : section s = Some (content, rem) ->
  s = c_lbr :: content ++ c_rbr :: rem /\ ~ In c_rbr content.
Proof.
  unfold section. destruct s as [|x s]; [discriminate|].
  destruct (x =? c_lbr) eqn:E; [|discriminate]. apply N.eqb_eq in E. subst x.
  destruct (take_until c_rbr s) as [[a b]|] eqn:T; [|discriminate].
  destruct b as [|y b]; [discriminate|]. intros H. injection H as <- <-.
  apply take_until_split in T. destruct T as (-> & (r & Hr) & Hn). injection Hr as -> ->.
  split; [reflexivity|exact Hn].
Qed.

(* ------------------------------------------------------------ the structure returned for an accepted text *)

Local Open Scope Z_scope.

Definition good_args (a : params) : Prop := pargs a /\ Forall carg a.
Definition gitem (ty : dectype) (i : item) : Prop := it_ty i = ty /\ good_args (it_opts i).

Lemma gitem_p ty i : gitem ty i -> pitem ty i.
Proof. intros [H [H1 _]]. split; assumption. Qed.
Lemma gitem_c ty i : gitem ty i -> citem i.
Proof. intros [_ [[H1 _] H2]]. split; assumption. Qed.

Lemma dectype_eqb_eq a b : dectype_eqb a b = true -> a = b.
Proof. destruct a, b; intros H; try reflexivity; discriminate H. Qed.

Section Sound.
  Variable T : text.
  Variable T_clean : clean T.

  Lemma general_parser_sound s ln ty args rem ln' : suffix s T ->
    general_parser get_type s ln = Ok (ty, args, rem, ln') ->
    suffix rem T /\ (length rem < length s)%nat /\ good_args args.
  Proof.
    intros Hs H. unfold general_parser in H.
    destruct (section s) as [[content rem0]|] eqn:HS; [|discriminate].
    pose proof (section_len _ _ _ HS) as Hlen.
    apply section_spec in HS. destruct HS as [Hseq Hnb].
    destruct (get_type content) as [[ty0 r]| | |] eqn:G; try discriminate.
    apply get_type_suffix in G.
    destruct (arguments (S (length r)) r) as [[args0 r2]| | |] eqn:A; try discriminate.
    destruct (negb (is_nil r2)); [discriminate|].
    destruct (negb (dupcheck [] args0)) eqn:D; [discriminate|].
    injection H as <- <- <- <-.
    apply negb_false_iff, dupcheck_nodup in D. apply arguments_spec in A.
    assert (Hcs : infix content s).
    { exists [c_lbr], (c_rbr :: rem0). rewrite Hseq. reflexivity. }
    assert (Hrem0 : suffix rem0 s).
    { exists (c_lbr :: content ++ [c_rbr]). rewrite Hseq. cbn [app]. rewrite <- app_assoc. reflexivity. }
    split; [|split].
    - eapply suffix_trans; [apply suffix_skipn|]. eapply suffix_trans; eassumption.
    - pose proof (skipn_len (count_leading c_nl rem0) rem0). lia.
    - assert (Hinf : forall x, infix x r -> infix x T /\ ~ In c_rbr x).
      { intros x Hx. assert (Hxc : infix x content) by (eapply infix_suffix; eassumption).
        split.
        - destruct Hxc as (a & b & Hc). destruct Hcs as (a' & b' & Hs'). destruct Hs as [p Hp].
          exists (p ++ a' ++ a), (b ++ b'). rewrite Hp, Hs', Hc. repeat rewrite <- app_assoc. reflexivity.
        - intros Hi. apply Hnb. exact (infix_in _ _ _ Hxc Hi). }
      split; [split; [|exact D]|].
      + eapply Forall_impl; [|exact A]. intros [k v] (H1 & H2 & H3 & H4 & H5). cbn [fst snd] in *.
        split; cbn [fst snd].
        * split; [exact H1|]. split; [exact (proj2 (Hinf _ H4))|exact H2].
        * split; [exact H3|exact (proj2 (Hinf _ H5))].
      + eapply Forall_impl; [|exact A]. intros [k v] (H1 & H2 & H3 & H4 & H5). cbn [fst snd] in *.
        split; cbn [fst snd]; eapply clean_infix; try exact T_clean; [exact (proj1 (Hinf _ H4))|exact (proj1 (Hinf _ H5))].
  Qed.

  Lemma suffix_str_from nt s s1 : suffix s T -> str_from nt s = Ok s1 -> suffix s1 T /\ (length s1 <= length s)%nat.
  Proof.
    intros Hs H. unfold str_from in H.
    destruct (split_bytes (S nt) (N.of_nat nt) s) as [[a b]|] eqn:E; [|discriminate]. injection H as <-.
    assert (K : forall f n x a b, split_bytes f n x = Some (a, b) -> x = a ++ b).
    { clear. induction f as [|f IH]; intros n x a b H; cbn [split_bytes] in H.
      - destruct (n =? 0)%N; [|discriminate]. injection H as <- <-. reflexivity.
      - destruct (n =? 0)%N; [injection H as <- <-; reflexivity|].
        destruct x as [|c r]; [discriminate|]. destruct (u8len c <=? n)%N; [|discriminate].
        destruct (split_bytes f (n - u8len c) r) as [[a' b']|] eqn:E; [|discriminate].
        injection H as <- <-. rewrite (IH _ _ _ _ E). reflexivity. }
    apply K in E. subst s. split.
    - eapply suffix_trans; [apply suffix_app|exact Hs].
    - rewrite app_length. lia.
  Qed.

  (* ---- item loops *)
  Lemma items_loop_sound fuel expect nt l0 : forall acc s ln l rem ln',
    suffix s T -> Forall (gitem expect) acc ->
    items_loop get_type fuel expect nt l0 acc s ln = Ok (l, rem, ln') ->
    suffix rem T /\ (length rem <= length s)%nat /\ Forall (gitem expect) l /\ (s <> [] \/ acc <> [] -> l <> []).
  Proof.
    induction fuel as [|f IH]; intros acc s ln l rem ln' Hs Hacc H; cbn [items_loop] in H; [discriminate|].
    destruct (is_nil s) eqn:En.
    - injection H as <- <- <-. destruct s; [|discriminate]. repeat split; auto. intros [Hc|Hc]; [contradiction|exact Hc].
    - destruct (str_from nt s) as [s1| | |] eqn:E1; try discriminate.
      destruct (suffix_str_from _ _ _ Hs E1) as [Hs1 Hl1].
      destruct (general_parser get_type s1 ln) as [[[[ty opts] rem1] ln1]| | |] eqn:G; try discriminate.
      destruct (general_parser_sound _ _ _ _ _ _ Hs1 G) as (Hr1 & Hlen & Hg).
      destruct (negb (dectype_eqb ty expect)) eqn:Et; [discriminate|].
      apply negb_false_iff, dectype_eqb_eq in Et. subst ty.
      assert (Hacc' : Forall (gitem expect) (acc ++ [{| it_ty := expect; it_opts := opts |}])).
      { apply Forall_app. split; [exact Hacc|]. constructor; [|constructor]. split; [reflexivity|exact Hg]. }
      destruct (Nat.ltb (count_leading c_tab rem1) nt).
      + injection H as <- <- <-. repeat split; auto; [lia|]. intros _ Hc. destruct acc; discriminate Hc.
      + destruct (Nat.ltb nt (count_leading c_tab rem1)); [discriminate|].
        destruct (IH _ _ _ _ _ _ Hr1 Hacc' H) as (Ha & Hb & Hc & Hd).
        repeat split; auto; [lia|]. intros _. apply Hd. right. destruct acc; discriminate.
  Qed.

  Lemma network_loop_sound fuel nt l0 : forall acc s ln l rem ln',
    suffix s T -> Forall (gitem IP) acc ->
    network_loop get_type fuel nt l0 acc s ln = Ok (l, rem, ln') ->
    suffix rem T /\ (length rem <= length s)%nat /\ Forall (gitem IP) l /\ (s <> [] \/ acc <> [] -> l <> []).
  Proof.
    induction fuel as [|f IH]; intros acc s ln l rem ln' Hs Hacc H; cbn [network_loop] in H; [discriminate|].
    destruct (is_nil s) eqn:En.
    - injection H as <- <- <-. destruct s; [|discriminate]. repeat split; auto. intros [Hc|Hc]; [contradiction|exact Hc].
    - destruct (str_from nt s) as [s1| | |] eqn:E1; try discriminate.
      destruct (suffix_str_from _ _ _ Hs E1) as [Hs1 Hl1].
      destruct (general_parser get_type s1 ln) as [[[[ty opts] rem1] ln1]| | |] eqn:G; try discriminate.
      destruct (general_parser_sound _ _ _ _ _ _ Hs1 G) as (Hr1 & Hlen & Hg).
      destruct (negb (dectype_eqb ty IP)) eqn:Et; [discriminate|].
      apply negb_false_iff, dectype_eqb_eq in Et. subst ty.
      assert (Hacc' : Forall (gitem IP) (acc ++ [{| it_ty := IP; it_opts := opts |}])).
      { apply Forall_app. split; [exact Hacc|]. constructor; [|constructor]. split; [reflexivity|exact Hg]. }
      destruct (Nat.ltb (count_leading c_tab rem1) nt).
      + injection H as <- <- <-. repeat split; auto; [lia|]. intros _ Hc. destruct acc; discriminate Hc.
      + destruct (Nat.ltb nt (count_leading c_tab rem1)); [discriminate|].
        destruct (IH _ _ _ _ _ _ Hr1 Hacc' H) as (Ha & Hb & Hc & Hd).
        repeat split; auto; [lia|]. intros _. apply Hd. right. destruct acc; discriminate.
  Qed.

  Lemma count_pos_nonnil (s : text) nt : count_leading c_tab s = S nt -> s <> [].
  Proof. destruct s; [discriminate|discriminate]. Qed.

  Lemma items_parser_sound expect s nt ln l rem ln' : suffix s T ->
    items_parser get_type expect s (S nt) ln = Ok (l, rem, ln') ->
    suffix rem T /\ (length rem <= length s)%nat /\ Forall (gitem expect) l /\ l <> [].
  Proof.
    intros Hs H. unfold items_parser in H.
    destruct (negb (Nat.eqb (count_leading c_tab s) (S nt))) eqn:E; [discriminate|].
    apply negb_false_iff, Nat.eqb_eq in E.
    destruct (items_loop_sound _ _ _ _ _ _ _ _ _ _ Hs (Forall_nil _) H) as (Ha & Hb & Hc & Hd).
    repeat split; auto. apply Hd. left. exact (count_pos_nonnil _ _ E).
  Qed.

  Definition gnetwork (kn : text * network) : Prop := pnetwork kn /\ cnetwork kn.

  Lemma network_parser_sound opts s nt ln net rem ln' : suffix s T -> good_args opts ->
    network_parser get_type Network opts s (S nt) ln = Ok (net, rem, ln') ->
    suffix rem T /\ (length rem <= length s)%nat /\
    net_ty net = Network /\ net_opts net = opts /\ Forall (gitem IP) (net_ips net) /\ net_ips net <> [].
  Proof.
    intros Hs Ho H. unfold network_parser in H.
    destruct (negb (Nat.eqb (count_leading c_tab s) (S nt))) eqn:E; [discriminate|].
    apply negb_false_iff, Nat.eqb_eq in E.
    destruct (network_loop get_type (S (length s)) (S nt) (ln - 1) [] s ln) as [[[ips rem0] ln0]| | |] eqn:L;
      try discriminate.
    injection H as <- <- <-. cbn [net_ty net_opts net_ips].
    destruct (network_loop_sound _ _ _ _ _ _ _ _ _ Hs (Forall_nil _) L) as (Ha & Hb & Hc & Hd).
    repeat split; auto. apply Hd. left. exact (count_pos_nonnil _ _ E).
  Qed.

  (* ---- networks *)
  Lemma gnetwork_intro id opts net : good_args opts -> lookup k_id opts = Some id ->
    net_ty net = Network -> net_opts net = opts -> Forall (gitem IP) (net_ips net) -> net_ips net <> [] ->
    gnetwork (id, net).
  Proof.
    intros [Hp Hc] Hid Hty Ho Hips Hne. split.
    - unfold pnetwork. cbn [fst snd]. rewrite Ho. repeat split; auto.
      + exact (proj1 Hp).
      + exact (proj2 Hp).
      + eapply Forall_impl; [|exact Hips]. intros i. apply gitem_p.
    - unfold cnetwork. cbn [snd]. rewrite Ho. split; [split; [exact Hc|exact (proj1 Hp)]|].
      eapply Forall_impl; [|exact Hips]. intros i. apply gitem_c.
  Qed.

  Lemma networks_loop_sound fuel nt l0 : forall acc s ln l rem ln',
    suffix s T -> Forall gnetwork acc -> NoDup (map fst acc) ->
    networks_loop get_type fuel nt l0 acc s ln = Ok (l, rem, ln') ->
    suffix rem T /\ (length rem <= length s)%nat /\ Forall gnetwork l /\ NoDup (map fst l).
  Proof.
    induction fuel as [|f IH]; intros acc s ln l rem ln' Hs Hacc Hnd H; cbn [networks_loop] in H; [discriminate|].
    destruct (is_nil s); [injection H as <- <- <-; repeat split; auto|].
    destruct (Nat.ltb (count_leading c_tab s) nt); [injection H as <- <- <-; repeat split; auto|].
    destruct (Nat.ltb nt (count_leading c_tab s)); [discriminate|].
    destruct (str_from nt s) as [s1| | |] eqn:E1; try discriminate.
    destruct (suffix_str_from _ _ _ Hs E1) as [Hs1 Hl1].
    destruct (general_parser get_type s1 ln) as [[[[ty opts] rem1] ln1]| | |] eqn:G; try discriminate.
    destruct (general_parser_sound _ _ _ _ _ _ Hs1 G) as (Hr1 & Hlen & Hg).
    destruct (dectype_eqb ty Network) eqn:Et; [|discriminate]. apply dectype_eqb_eq in Et. subst ty.
    destruct (network_parser get_type Network opts rem1 (S nt) ln1) as [[[net rem2] ln2]| | |] eqn:P;
      try discriminate.
    destruct (network_parser_sound _ _ _ _ _ _ _ Hr1 Hg P) as (Hr2 & Hl2 & Hty & Ho & Hips & Hne).
    destruct (lookup k_id opts) as [id|] eqn:Hid; [|discriminate].
    destruct (has_id id acc) eqn:Hh; [discriminate|].
    assert (Hacc' : Forall gnetwork (acc ++ [(id, net)])).
    { apply Forall_app. split; [exact Hacc|]. constructor; [|constructor].
      exact (gnetwork_intro id opts net Hg Hid Hty Ho Hips Hne). }
    assert (Hnd' : NoDup (map fst (acc ++ [(id, net)]))).
    { rewrite map_app. cbn [map fst]. apply NoDup_snoc; [exact Hnd|].
      intros Hx. apply has_id_in in Hx. congruence. }
    destruct (IH _ _ _ _ _ _ Hr2 Hacc' Hnd' H) as (Ha & Hb & Hc & Hd). repeat split; auto. lia.
  Qed.
End Sound.

Definition gmachine (m : machine) : Prop := pmachine m /\ cmachine m.

Definition three (d : dectype) : Prop := d = Networks \/ d = Protocols \/ d = Applications.

Lemma req_remove_sub d req req' : req_remove d req = Some req' ->
  forall x, req_contains x req' = true -> req_contains x req = true.
Proof.
  revert req'. induction req as [|y r IH]; intros req' H x Hx; cbn [req_remove] in H; [discriminate|].
  cbn [req_contains]. destruct (dectype_eqb y d).
  - injection H as <-. rewrite Hx. apply orb_true_r.
  - destruct (req_remove d r) as [r'|] eqn:E; [|discriminate]. injection H as <-.
    cbn [req_contains] in Hx. apply orb_prop in Hx. destruct Hx as [Hx|Hx].
    + rewrite Hx. reflexivity.
    + rewrite (IH _ eq_refl x Hx). apply orb_true_r.
Qed.

Lemma req_contains_in d req : req_contains d req = true -> In d req.
Proof.
  induction req as [|y r IH]; cbn [req_contains]; [discriminate|]. intros H.
  apply orb_prop in H. destruct H as [H|H]; [left; exact (dectype_eqb_eq _ _ H)|right; exact (IH H)].
Qed.

Lemma req_remove_forall (P : dectype -> Prop) d req req' :
  req_remove d req = Some req' -> Forall P req -> Forall P req'.
Proof.
  revert req'. induction req as [|y r IH]; intros req' H Hall; cbn [req_remove] in H; [discriminate|].
  inversion Hall as [|? ? Hy Hr]. subst. destruct (dectype_eqb y d).
  - injection H as <-. exact Hr.
  - destruct (req_remove d r) as [r'|] eqn:E; [|discriminate]. injection H as <-.
    constructor; [exact Hy|exact (IH _ eq_refl Hr)].
Qed.

Lemma req_remove_other d req req' x : req_remove d req = Some req' -> x <> d ->
  req_contains x req' = false -> req_contains x req = false.
Proof.
  revert req'. induction req as [|y r IH]; intros req' H Hx Hc; cbn [req_remove] in H; [discriminate|].
  cbn [req_contains]. destruct (dectype_eqb y d) eqn:E.
  - injection H as <-. apply dectype_eqb_eq in E. subst y. rewrite Hc.
    rewrite dectype_eqb_neq by (intros Hq; apply Hx; symmetry; exact Hq). reflexivity.
  - destruct (req_remove d r) as [r'|] eqn:E2; [|discriminate]. injection H as <-.
    cbn [req_contains] in Hc. apply orb_false_elim in Hc. destruct Hc as [H1 H2].
    rewrite H1. cbn [orb]. exact (IH _ eq_refl Hx H2).
Qed.

Section Sound2.
  Variable T : text.
  Variable T_clean : clean T.

  (* the lists of the sections already seen are non-empty and hold items of the right kind *)
  Definition minv (req : list dectype) (nets protos apps : list item) : Prop :=
    Forall three req /\
    Forall (gitem Network) nets /\ Forall (gitem Protocol) protos /\ Forall (gitem Application) apps /\
    (req_contains Networks req = false -> nets <> []) /\
    (req_contains Protocols req = false -> protos <> []) /\
    (req_contains Applications req = false -> apps <> []).

  Lemma app_nonnil {A} (a b : list A) : b <> [] -> a ++ b <> [].
  Proof. destruct a; [auto|discriminate]. Qed.

  Lemma machine_loop_sound fuel nt l0 : forall req nets protos apps s ln req' n' p' a' rem ln',
    suffix s T -> minv req nets protos apps ->
    machine_loop get_type fuel nt l0 req nets protos apps s ln = Ok (req', n', p', a', rem, ln') ->
    suffix rem T /\ (length rem <= length s)%nat /\ minv req' n' p' a'.
  Proof.
    induction fuel as [|f IH]; intros req nets protos apps s ln req' n' p' a' rem ln' Hs Hinv H;
      cbn [machine_loop] in H; [discriminate|].
    destruct (is_nil s); [injection H as <- <- <- <- <- <-; repeat split; auto; apply Hinv|].
    destruct (Nat.ltb (count_leading c_tab s) nt); [injection H as <- <- <- <- <- <-; repeat split; auto; apply Hinv|].
    destruct (Nat.ltb nt (count_leading c_tab s)); [discriminate|].
    destruct (str_from nt s) as [s1| | |] eqn:E1; try discriminate.
    destruct (suffix_str_from T _ _ _ Hs E1) as [Hs1 Hl1].
    destruct (general_parser get_type s1 ln) as [[[[ty opts] rem1] ln1]| | |] eqn:G; try discriminate.
    destruct (general_parser_sound T T_clean _ _ _ _ _ _ Hs1 G) as (Hr1 & Hlen & Hg).
    destruct (req_contains ty req) eqn:Ec; [|discriminate].
    destruct (req_remove ty req) as [req1|] eqn:Er; [|discriminate].
    destruct (items_parser get_type (item_type_of ty) rem1 (S nt) ln1) as [[[its rem2] ln2]| | |] eqn:P;
      try discriminate.
    destruct (items_parser_sound T T_clean _ _ _ _ _ _ _ Hr1 P) as (Hr2 & Hl2 & Hits & Hne).
    destruct Hinv as (H3 & Hn & Hp & Ha & Nn & Np & Na).
    assert (Hty : three ty).
    { apply req_contains_in in Ec. rewrite Forall_forall in H3. exact (H3 _ Ec). }
    assert (H3' : Forall three req1) by exact (req_remove_forall _ _ _ _ Er H3).
    assert (K : forall a b c, minv req1 a b c ->
              machine_loop get_type f nt l0 req1 a b c rem2 ln2 = Ok (req', n', p', a', rem, ln') ->
              suffix rem T /\ (length rem <= length s)%nat /\ minv req' n' p' a').
    { intros a b c Hi Hm. destruct (IH _ _ _ _ _ _ _ _ _ _ _ _ Hr2 Hi Hm) as (X & Y & Z).
      split; [exact X|]. split; [lia|exact Z]. }
    destruct Hty as [->|[->| ->]]; cbn [item_type_of] in Hits.
    - apply (K (nets ++ its) protos apps); [|exact H]. repeat split; auto.
      + apply Forall_app. split; assumption.
      + intros _. apply app_nonnil. exact Hne.
      + intros Hc. apply Np. exact (req_remove_other _ _ _ Protocols Er ltac:(discriminate) Hc).
      + intros Hc. apply Na. exact (req_remove_other _ _ _ Applications Er ltac:(discriminate) Hc).
    - apply (K nets (protos ++ its) apps); [|exact H]. repeat split; auto.
      + apply Forall_app. split; assumption.
      + intros Hc. apply Nn. exact (req_remove_other _ _ _ Networks Er ltac:(discriminate) Hc).
      + intros _. apply app_nonnil. exact Hne.
      + intros Hc. apply Na. exact (req_remove_other _ _ _ Applications Er ltac:(discriminate) Hc).
    - apply (K nets protos (apps ++ its)); [|exact H]. repeat split; auto.
      + apply Forall_app. split; assumption.
      + intros Hc. apply Nn. exact (req_remove_other _ _ _ Networks Er ltac:(discriminate) Hc).
      + intros Hc. apply Np. exact (req_remove_other _ _ _ Protocols Er ltac:(discriminate) Hc).
      + intros _. apply app_nonnil. exact Hne.
  Qed.
End Sound2.

Section Sound3.
  Variable T : text.
  Variable T_clean : clean T.

  Lemma machine_parser_sound opts s nt ln m rem ln' : suffix s T -> good_args opts ->
    machine_parser get_type opts s nt ln = Ok (m, rem, ln') ->
    suffix rem T /\ (length rem <= length s)%nat /\ gmachine m.
  Proof.
    intros Hs [Hp Hc] H. unfold machine_parser in H.
    destruct (machine_loop get_type (S (length s)) nt (ln - 1) [Networks; Protocols; Applications] [] [] [] s ln)
      as [[[[[[req n] p] a] rem0] ln0]| | |] eqn:L; try discriminate.
    destruct (negb (is_nil req)) eqn:E; [discriminate|]. injection H as <- <- <-.
    destruct req; [|discriminate].
    assert (Hi : minv [Networks; Protocols; Applications] [] [] []).
    { unfold minv. repeat split; try constructor; try discriminate.
      - left. reflexivity.
      - constructor; [right; left; reflexivity|]. constructor; [right; right; reflexivity|constructor]. }
    destruct (machine_loop_sound T T_clean _ _ _ _ _ _ _ _ _ _ _ _ _ _ _ Hs Hi L)
      as (Hr & Hl & (_ & Hn & Hpp & Ha & Nn & Np & Na)).
    split; [exact Hr|]. split; [exact Hl|]. split.
    - unfold pmachine. cbn [m_ty m_opts m_nets m_protos m_apps].
      split; [reflexivity|]. split; [exact Hp|].
      split; [apply Nn; reflexivity|]. split; [eapply Forall_impl; [|exact Hn]; intros i; apply gitem_p|].
      split; [apply Np; reflexivity|]. split; [eapply Forall_impl; [|exact Hpp]; intros i; apply gitem_p|].
      split; [apply Na; reflexivity|]. eapply Forall_impl; [|exact Ha]. intros i. apply gitem_p.
    - unfold cmachine. cbn [m_opts m_nets m_protos m_apps].
      split; [split; [exact Hc|exact (proj1 Hp)]|].
      split; [eapply Forall_impl; [|exact Hn]; intros i; apply gitem_c|].
      split; [eapply Forall_impl; [|exact Hpp]; intros i; apply gitem_c|].
      eapply Forall_impl; [|exact Ha]. intros i. apply gitem_c.
  Qed.

  Lemma machines_loop_sound fuel nt l0 : forall acc s ln l rem ln',
    suffix s T -> Forall gmachine acc ->
    machines_loop get_type fuel nt l0 acc s ln = Ok (l, rem, ln') ->
    suffix rem T /\ (length rem <= length s)%nat /\ Forall gmachine l.
  Proof.
    induction fuel as [|f IH]; intros acc s ln l rem ln' Hs Hacc H; cbn [machines_loop] in H; [discriminate|].
    destruct (is_nil s); [injection H as <- <- <-; repeat split; auto|].
    destruct (Nat.ltb (count_leading c_tab s) nt); [injection H as <- <- <-; repeat split; auto|].
    destruct (Nat.ltb nt (count_leading c_tab s)); [discriminate|].
    destruct (str_from nt s) as [s1| | |] eqn:E1; try discriminate.
    destruct (suffix_str_from T _ _ _ Hs E1) as [Hs1 Hl1].
    destruct (general_parser get_type s1 ln) as [[[[ty opts] rem1] ln1]| | |] eqn:G; try discriminate.
    destruct (general_parser_sound T T_clean _ _ _ _ _ _ Hs1 G) as (Hr1 & Hlen & Hg).
    destruct (dectype_eqb ty Machine); [|discriminate].
    destruct (machine_parser get_type opts rem1 (S nt) ln1) as [[[m rem2] ln2]| | |] eqn:P; try discriminate.
    destruct (machine_parser_sound _ _ _ _ _ _ _ Hr1 Hg P) as (Hr2 & Hl2 & Hm).
    assert (Hacc' : Forall gmachine (acc ++ [m])).
    { apply Forall_app. split; [exact Hacc|]. constructor; [exact Hm|constructor]. }
    destruct (IH _ _ _ _ _ _ Hr2 Hacc' H) as (Ha & Hb & Hc). split; [exact Ha|]. split; [lia|exact Hc].
  Qed.

  Lemma merge_networks_sound new : forall acc res, merge_networks acc new = Some res ->
    Forall gnetwork acc -> NoDup (map fst acc) -> Forall gnetwork new ->
    Forall gnetwork res /\ NoDup (map fst res).
  Proof.
    induction new as [|[id n] new IH]; intros acc res H Hacc Hnd Hnew; cbn [merge_networks] in H.
    - injection H as <-. split; assumption.
    - destruct (has_id id acc) eqn:E; [discriminate|]. inversion Hnew as [|? ? Hx Hr]. subst.
      apply (IH _ _ H).
      + apply Forall_app. split; [exact Hacc|]. constructor; [exact Hx|constructor].
      + rewrite map_app. cbn [map fst]. apply NoDup_snoc; [exact Hnd|].
        intros Hi. apply has_id_in in Hi. congruence.
      + exact Hr.
  Qed.

  Lemma core_loop_sound fuel : forall nets ms s ln r,
    suffix s T -> Forall gnetwork nets -> NoDup (map fst nets) -> Forall gmachine ms ->
    core_loop get_type fuel nets ms s ln = Ok r ->
    Forall gnetwork (s_networks r) /\ NoDup (map fst (s_networks r)) /\ Forall gmachine (s_machines r).
  Proof.
    induction fuel as [|f IH]; intros nets ms s ln r Hs Hn Hnd Hm H; cbn [core_loop] in H; [discriminate|].
    destruct (is_nil s); [injection H as <-; cbn [s_networks s_machines]; repeat split; assumption|].
    destruct (general_parser get_type s ln) as [[[[ty opts] rem1] ln1]| | |] eqn:G; try discriminate.
    destruct (general_parser_sound T T_clean _ _ _ _ _ _ Hs G) as (Hr1 & Hlen & Hg).
    destruct ty; try discriminate.
    - exact (IH _ _ _ _ _ Hr1 Hn Hnd Hm H).
    - destruct (networks_parser get_type rem1 1 ln1) as [[[new rem2] ln2]| | |] eqn:P; try discriminate.
      unfold networks_parser in P.
      destruct (networks_loop_sound T T_clean _ _ _ _ _ _ _ _ _ Hr1 (Forall_nil _) (NoDup_nil _) P)
        as (Hr2 & Hl2 & Hnew & Hndn).
      destruct (merge_networks nets new) as [nets'|] eqn:M; [|discriminate].
      destruct (merge_networks_sound _ _ _ M Hn Hnd Hnew) as [Hn' Hnd'].
      exact (IH _ _ _ _ _ Hr2 Hn' Hnd' Hm H).
    - destruct (machines_parser get_type rem1 1 ln1) as [[[new rem2] ln2]| | |] eqn:P; try discriminate.
      unfold machines_parser in P.
      destruct (machines_loop_sound _ _ _ _ _ _ _ _ _ Hr1 (Forall_nil _) P) as (Hr2 & Hl2 & Hnew).
      apply (IH nets (ms ++ new) rem2 ln2 r Hr2 Hn Hnd); [apply Forall_app; split; assumption|exact H].
  Qed.
End Sound3.

(* every accepted text yields a well-formed description *)
Lemma core_parse_sound txt s : core_parse txt = Ok s -> wf_sim s.
Proof.
  unfold core_parse, core_parse_gen. intros H.
  destruct (core_loop_sound (rewrite txt) (rewrite_clean txt) _ _ _ _ _ _ (suffix_refl _)
              (Forall_nil _) (NoDup_nil _) (Forall_nil _) H) as (Hn & Hnd & Hm).
  split.
  - split; [|split].
    + eapply Forall_impl; [|exact Hn]. intros kn [Hp _]. exact Hp.
    + exact Hnd.
    + eapply Forall_impl; [|exact Hm]. intros m [Hp _]. exact Hp.
  - split.
    + eapply Forall_impl; [|exact Hn]. intros kn [_ Hc]. exact Hc.
    + eapply Forall_impl; [|exact Hm]. intros m [_ Hc]. exact Hc.
Qed.

(* parsing is idempotent through rendering, in all renderings of the quantifier *)
Lemma core_parse_idempotent txt s : core_parse txt = Ok s ->
  core_parse (render s) = Ok s /\ core_parse (render4 s) = Ok s /\
  core_parse (crlf (render s)) = Ok s /\ core_parse (crlf (render4 s)) = Ok s.
Proof.
  intros H. apply core_parse_sound in H.
  repeat split; try rewrite core_parse_crlf;
    first [exact (core_parse_render s H)|exact (core_parse_render4 s H)].
Qed.
