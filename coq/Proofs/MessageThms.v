(* C07: the statements of Props/C07.v in their final, definition-free form. *)
From Coq Require Import ZifyBool.
From Elvis Require Import Model.Base Model.Message Proofs.MessageFacts Proofs.MessagePool.
Local Open Scope N_scope.
Ltac Zify.zify_post_hook ::= Z.div_mod_to_equations.

Lemma slice_refines : forall m start len, WF m ->
  start + match len with Some l => l | None => 0 end <= mlen m ->
  exists m', msg_slice_inner m start len = Ok m' /\ WF m' /\
    bytes_of m' = firstn (N.to_nat (match len with Some l => l | None => mlen m - start end))
                         (skipn (N.to_nat start) (bytes_of m)).
Proof. exact slice_inner_ok. Qed.

Lemma slice_panics : forall m start len,
  mlen m < start + match len with Some l => l | None => 0 end ->
  exists s, msg_slice_inner m start len = Panic s.
Proof. exact slice_inner_panic. Qed.

Lemma vslice_not_err : forall v r e, vslice v r <> Err e.
Proof.
  intros v r e. destruct r; cbn [vslice]; unfold vsub;
    repeat match goal with |- context [if ?c then _ else _] => destruct c end; discriminate.
Qed.

Lemma slice_forms : forall m r, WF m -> range_ok r ->
  match msg_slice m r, vslice (bytes_of m) r with
  | Ok m', Ok v => WF m' /\ bytes_of m' = v
  | Panic _, Panic _ => True
  | _, _ => False
  end.
Proof.
  intros m r W K. pose proof (rel_slice m (bytes_of m) r (conj W eq_refl) K) as H.
  pose proof (vslice_not_err (bytes_of m) r) as NE.
  unfold rel, Pm in H. destruct (msg_slice m r), (vslice (bytes_of m) r); auto.
  now apply (NE e0).
Qed.

(* the sum start + len of slice_inner's assert cannot overflow for any std range over usize *)
Lemma range_sum_no_overflow : forall r s l,
  match r with
  | RRange a b | RIncl a b => a <= USIZE_MAX /\ b <= USIZE_MAX
  | RFrom a | RTo a | RToIncl a => a <= USIZE_MAX
  | RFull => True
  end ->
  range_into r = Ok (s, l) -> s + match l with Some x => x | None => 0 end <= USIZE_MAX.
Proof.
  intros r s l Hb H. destruct r as [a b|a| |a b|b|b]; cbn [range_into] in H.
  - injection H as <- <-. destruct (N.ltb_spec a b); lia.
  - injection H as <- <-. lia.
  - injection H as <- <-. lia.
  - unfold uadd, usub in H. destruct (N.leb_spec (b + 1) USIZE_MAX); cbn [bind] in H; [|discriminate].
    destruct (N.leb_spec a (b + 1)); cbn [bind] in H; [|discriminate]. injection H as <- <-. lia.
  - injection H as <- <-. lia.
  - unfold uadd in H. destruct (N.leb_spec (b + 1) USIZE_MAX); cbn [bind] in H; [|discriminate].
    injection H as <- <-. lia.
Qed.

Lemma header_refines : forall m b, WF m -> is_vec b ->
  (blen b + mlen m <= USIZE_MAX ->
     exists m', msg_header m b = Ok m' /\ WF m' /\ bytes_of m' = b ++ bytes_of m) /\
  (USIZE_MAX < blen b + mlen m -> exists s, msg_header m b = Panic s).
Proof.
  intros m b W Hb. split; intros H.
  - now apply header_ok.
  - eexists. now apply header_panic.
Qed.

Lemma concat_refines : forall m o, WF m -> WF o ->
  (mlen m + mlen o <= USIZE_MAX ->
     exists m', msg_concat m o = Ok m' /\ WF m' /\ bytes_of m' = bytes_of m ++ bytes_of o) /\
  (USIZE_MAX < mlen m + mlen o -> exists s, msg_concat m o = Panic s).
Proof.
  intros m o W Wo. split; intros H.
  - now apply concat_ok.
  - eexists. now apply concat_panic.
Qed.

Lemma cut_refines : forall m n, WF m ->
  (n <= mlen m -> exists rest front, msg_cut m n = Ok (rest, front) /\ WF rest /\ WF front /\
     bytes_of front = firstn (N.to_nat n) (bytes_of m) /\
     bytes_of rest = skipn (N.to_nat n) (bytes_of m)) /\
  (mlen m < n -> exists s, msg_cut m n = Panic s).
Proof.
  intros m n W. split; intros H.
  - now apply cut_ok.
  - eexists. now apply cut_panic.
Qed.

Lemma remove_front_refines : forall m n, WF m ->
  (n <= mlen m -> exists m', msg_remove_front m n = Ok m' /\ WF m' /\
     bytes_of m' = skipn (N.to_nat n) (bytes_of m)) /\
  (mlen m < n -> exists s, msg_remove_front m n = Panic s).
Proof.
  intros m n W. split; intros H.
  - now apply remove_front_ok.
  - eexists. now apply remove_front_panic.
Qed.

Lemma observations : forall m, WF m ->
  msg_len m = blen (bytes_of m) /\
  msg_iter m = Ok (bytes_of m) /\
  msg_to_vec m = Ok (bytes_of m) /\
  (msg_is_empty m = true <-> bytes_of m = []).
Proof.
  intros m W.
  split; [now apply len_ok|split; [now apply msg_iter_ok|split; [now apply msg_iter_ok|now apply is_empty_ok]]].
Qed.

Lemma step_thm : forall o pool, Forall WF pool -> op_ok o ->
  match step o pool, vstep o (map bytes_of pool) with
  | Ok p', Ok vs' => Forall WF p' /\ map bytes_of p' = vs'
  | Panic _, Panic _ => True
  | Err _, Err _ => True
  | _, _ => False
  end.
Proof. intros o pool W K. exact (step_refines o pool _ (conj W eq_refl) K). Qed.

Lemma history_thm : forall ops pool, Forall WF pool -> Forall op_ok ops ->
  match run_pool ops pool, run_vecs ops (map bytes_of pool) with
  | Ok p', Ok vs' => Forall WF p' /\ map bytes_of p' = vs'
  | Panic _, Panic _ => True
  | Err _, Err _ => True
  | _, _ => False
  end.
Proof. intros ops pool W K. exact (history ops pool _ (conj W eq_refl) K). Qed.

(* observations after any history: what the accessors return on every slot is what the
   plain vectors hold *)
Lemma history_observed : forall ops pool p' vs', Forall WF pool -> Forall op_ok ops ->
  run_pool ops pool = Ok p' -> run_vecs ops (map bytes_of pool) = Ok vs' ->
  forall i m, nth_error p' i = Some m ->
    exists v, nth_error vs' i = Some v /\ msg_len m = blen v /\ msg_to_vec m = Ok v /\ msg_iter m = Ok v /\
    forall j m2, nth_error p' j = Some m2 ->
      exists v2 b, nth_error vs' j = Some v2 /\ msg_eq m m2 = Ok b /\ (b = true <-> v = v2).
Proof.
  intros ops pool p' vs' W K E1 E2 i m Hi. pose proof (history_thm ops pool W K) as H.
  rewrite E1, E2 in H. destruct H as (W' & <-).
  assert (Wm : WF m) by (rewrite Forall_forall in W'; apply W'; eapply nth_error_In; eassumption).
  exists (bytes_of m). rewrite nth_error_map, Hi. cbn [option_map].
  repeat split; try (now apply len_ok); try (now apply msg_iter_ok).
  intros j m2 Hj.
  assert (Wm2 : WF m2) by (rewrite Forall_forall in W'; apply W'; eapply nth_error_In; eassumption).
  destruct (msg_eq_ok m m2 Wm Wm2) as (b & Eb & Hb).
  exists (bytes_of m2), b. rewrite nth_error_map, Hj. cbn [option_map]. repeat split; try assumption; apply Hb.
Qed.

Lemma frame_bytes : forall o pool pool' k, step o pool = Ok pool' -> ~ In k (targets o) ->
  nth_error pool' k = nth_error pool k /\
  nth_error (map bytes_of pool') k = nth_error (map bytes_of pool) k.
Proof.
  intros o pool pool' k H Hk. pose proof (frame o pool pool' k H Hk) as F. split; [assumption|].
  now rewrite !nth_error_map, F.
Qed.

(* satisfiability of the hypotheses, and both outcomes occur *)
Definition ex_pool : list msg := repeat msg_default 8.
Definition ex_ops : list op :=
  [ONew 0 [1;2;3]; OHeader 0 [9]; OClone 1 0; OCut 2 0 2; OConcat 1 2; OSlice 1 (RIncl 1 3);
   ORemoveFront 0 1].

Lemma example_sat :
  Forall WF ex_pool /\ Forall op_ok ex_ops /\
  (exists p', run_pool ex_ops ex_pool = Ok p' /\
     map bytes_of p' = [[3]; [1;2;3]; [9;1]; []; []; []; []; []]) /\
  (exists s, run_pool (ex_ops ++ [OCut 3 0 2]) ex_pool = Panic s) /\
  (exists s, run_vecs (ex_ops ++ [OCut 3 0 2]) (map bytes_of ex_pool) = Panic s).
Proof.
  split; [|split; [|split; [|split]]].
  - unfold ex_pool. cbn [repeat]. repeat (apply Forall_cons; [apply default_wf|]). apply Forall_nil.
  - unfold ex_ops. repeat (apply Forall_cons; [cbn [op_ok range_ok]; try exact I; unfold is_vec; vm_compute; discriminate|]).
    apply Forall_nil.
  - eexists. split; vm_compute; reflexivity.
  - eexists. vm_compute. reflexivity.
  - eexists. vm_compute. reflexivity.
Qed.
