(* Second tie for C03: Gen/StateGen.v is regenerated on every run by tools/translate_state.py from state.rs (the enum
   State, its derived PartialEq) and from tcb.rs (the arm groups of every `match self.state` of impl Tcb, as dispatch
   tables state -> arm index).  Here: the generated enum IS the hand model's [state] (same variants, same order),
   derived equality is [state_eqb], and every function of Model/Tcb.v that branches on the state branches exactly
   along the generated table of the corresponding Rust match: the hand model's code per arm is restated below with
   the ARM INDEX as the case selector ([*_arm] definitions) and proved equal to the model function.  Moving a state
   from one arm to another in tcb.rs, adding / removing / reordering variants in state.rs, or adding a match breaks
   these proofs (or the translator). *)
From Elvis Require Import Model.Base Model.U32 Model.Tcb Model.RsSem Gen.StateGen.
Local Open Scope Z_scope.

(* ---- the enum ------------------------------------------------------------- *)
Definition to_model (s : g_State) : state :=
  match s with
  | g_State_SynSent => SynSent
  | g_State_SynReceived => SynReceived
  | g_State_Established => Established
  | g_State_FinWait1 => FinWait1
  | g_State_FinWait2 => FinWait2
  | g_State_CloseWait => CloseWait
  | g_State_Closing => Closing
  | g_State_LastAck => LastAck
  | g_State_TimeWait => TimeWait
  end.
Definition of_model (s : state) : g_State :=
  match s with
  | SynSent => g_State_SynSent
  | SynReceived => g_State_SynReceived
  | Established => g_State_Established
  | FinWait1 => g_State_FinWait1
  | FinWait2 => g_State_FinWait2
  | CloseWait => g_State_CloseWait
  | Closing => g_State_Closing
  | LastAck => g_State_LastAck
  | TimeWait => g_State_TimeWait
  end.

Lemma to_of_model s : to_model (of_model s) = s.
Proof. destruct s; reflexivity. Qed.
Lemma of_to_model s : of_model (to_model s) = s.
Proof. destruct s; reflexivity. Qed.
(* same variants in the same declaration order *)
Lemma gen_state_order :
  map to_model g_State_all =
  [SynSent; SynReceived; Established; FinWait1; FinWait2; CloseWait; Closing; LastAck; TimeWait].
Proof. reflexivity. Qed.
Lemma gen_state_all_complete s : In s g_State_all.
Proof. destruct s; cbn [g_State_all In]; tauto. Qed.
Lemma gen_state_index_order : map g_State_index g_State_all = [0; 1; 2; 3; 4; 5; 6; 7; 8].
Proof. reflexivity. Qed.
(* #[derive(PartialEq)] = state_eqb, used by `self.state == State::SynSent` / `!=` (tcb.rs l.365, 591, 640) *)
Lemma gen_state_eqb a b : g_State_eqb (of_model a) (of_model b) = state_eqb a b.
Proof. destruct a, b; reflexivity. Qed.
Lemma gen_state_eqb_eq a b : g_State_eqb a b = true <-> a = b.
Proof. destruct a, b; cbv; split; intros H; try reflexivity; discriminate. Qed.

(* ---- send (tcb.rs l.150) --------------------------------------------------- *)
Lemma gen_send_table s : accepts_send s = (g_Tcb_send_m1 (of_model s) =? 0).
Proof. destruct s; reflexivity. Qed.
Lemma gen_send t bytes :
  tcb_send t bytes =
  match g_Tcb_send_m1 (of_model (st t)) with
  | 0 => set_out_text t (out_text t ++ bytes)       (* l.154-156 *)
  | _ => t                                          (* l.158-165 *)
  end.
Proof. unfold tcb_send. destruct (st t); reflexivity. Qed.

(* ---- receive (l.174): one arm for every state ----------------------------- *)
Lemma gen_receive_table s : g_Tcb_receive_m1 s = 0.
Proof. destruct s; reflexivity. Qed.

(* ---- close (l.207) --------------------------------------------------------- *)
Lemma gen_close t :
  tcb_close t =
  match g_Tcb_close_m1 (of_model (st t)) with
  | 0 => (queue_pending_fin (set_st (set_fin_pending t true) FinWait1), CloseOk)
  | 1 => (queue_pending_fin (set_st (set_fin_pending t true) LastAck), CloseOk)
  | _ => (t, CloseClosing)
  end.
Proof. unfold tcb_close. destruct (st t); reflexivity. Qed.

(* ---- abort (l.250) is not in the hand model: its table is recorded ---------- *)
Lemma gen_abort_table : map g_Tcb_abort_m1 g_State_all = [1; 0; 0; 0; 0; 0; 1; 1; 1].
Proof. reflexivity. Qed.

(* ---- segments (l.270) ------------------------------------------------------ *)
Lemma gen_segments_table s : segmentizes s = (g_Tcb_segments_m1 (of_model s) =? 0).
Proof. destruct s; reflexivity. Qed.

(* ---- process_segment (l.357): the six matches, one per stage ---------------- *)
(* #1 l.389: the sequence check is skipped in SYN-SENT only *)
Definition seq_bad_arm (k : Z) (t : tcb) (text_len : Z) (h : header) : bool :=
  match k with
  | 0 => false
  | _ => negb (is_seq_ok t text_len (h_seq h) (c_syn (h_ctl h)) (c_fin (h_ctl h)))
  end.
Lemma gen_ps_seq_check t text_len h :
  match st t with
  | SynSent => false
  | _ => negb (is_seq_ok t text_len (h_seq h) (c_syn (h_ctl h)) (c_fin (h_ctl h)))
  end = seq_bad_arm (g_Tcb_process_segment_m1 (of_model (st t))) t text_len h.
Proof. destruct (st t); reflexivity. Qed.

(* #2 l.405: the ACK stage, seven arms *)
Definition ps_ack_arm (k : Z) (t : tcb) (h : header) : tcb * option psr :=
  match k with
  | 0 =>
    if mod_bounded (snd_nxt t) CLt (h_ack h) CLeq (snd_iss t) then
      if c_rst (h_ctl h) then (t, Some PDiscard)
      else (enqueue t (rst_hdr t (h_ack h)), Some PInvalidAck)
    else if mod_bounded (snd_una t) CLt (h_ack h) CLeq (snd_nxt t) then
      if c_syn (h_ctl h)
      then (remove_acked (set_snd_una t (h_ack h)) (h_ack h), None)
      else (t, None)
    else (enqueue t (rst_hdr t (h_ack h)), Some PInvalidAck)
  | 1 =>
    if mod_bounded (snd_una t) CLt (h_ack h) CLeq (snd_nxt t) then
      let t1 := set_snd_window (set_st t Established) (h_wnd h) (h_seq h) (h_ack h) in
      let '(t2, r) := ack_est t1 h in
      match r with PSuccess => (t2, None) | other => (t2, Some other) end
    else (enqueue t (rst_hdr t (h_ack h)), None)
  | 2 =>
    let '(t2, r) := ack_est t h in
    match r with PSuccess => (t2, None) | other => (t2, Some other) end
  | 3 =>
    let '(t2, r) := ack_est t h in
    let t3 := if is_fin_acked t2 then set_st t2 FinWait2 else t2 in
    match r with PSuccess => (t3, None) | other => (t3, Some other) end
  | 4 =>
    let '(t2, r) := ack_est t h in
    let t3 := if is_fin_acked t2 then set_time_wait (set_st t2 TimeWait) (Some MSL2) else t2 in
    match r with PSuccess => (t3, None) | other => (t3, Some other) end
  | 5 =>
    let '(t2, r) := ack_est t h in
    if is_fin_acked t2 then (t2, Some PFinalizeClose)
    else match r with PSuccess => (t2, None) | other => (t2, Some other) end
  | _ =>
    if c_fin (h_ctl h) then
      let a := hb_wnd (hb_ack (hb t (snd_nxt t)) (wadd (h_seq h) 1)) (rcv_wnd t) in
      (set_time_wait (enqueue t a) (Some MSL2), None)
    else (t, None)
  end.
Lemma gen_ps_ack t h :
  ps_ack t h =
  if negb (c_ack (h_ctl h)) then (t, None) else ps_ack_arm (g_Tcb_process_segment_m2 (of_model (st t))) t h.
Proof. unfold ps_ack. destruct (negb (c_ack (h_ctl h))); [reflexivity|]. destruct (st t); reflexivity. Qed.

(* #3 l.516: the RST stage *)
Definition ps_rst_arm (k : Z) (t : tcb) (h : header) : option psr :=
  match k with
  | 0 => if h_seq h =? rcv_nxt t then Some PConnectionReset else Some PBlindReset
  | 1 => if listen_init t then Some PReturnToListen else Some PConnectionRefused
  | 2 => Some PConnectionReset
  | _ => Some PFinalizeClose
  end.
Lemma gen_ps_rst t h :
  ps_rst t h =
  if negb (c_rst (h_ctl h)) then None else ps_rst_arm (g_Tcb_process_segment_m3 (of_model (st t))) t h.
Proof. unfold ps_rst. destruct (negb (c_rst (h_ctl h))); [reflexivity|]. destruct (st t); reflexivity. Qed.

(* #4 l.545: the SYN stage *)
Definition ps_syn_arm (k : Z) (t : tcb) (h : header) : tcb * option psr :=
  match k with
  | 0 =>
    let t1 := set_snd_window (set_rcv_nxt (set_rcv_irs t (h_seq h)) (wadd (h_seq h) 1))
                             (h_wnd h) (h_seq h) (h_ack h) in
    if mod_gt (snd_una t1) (snd_iss t1) then
      let t2 := set_st t1 Established in
      (enqueue t2 (ack_hdr t2), None)
    else
      let t2 := set_st t1 SynReceived in
      (enqueue t2 (hb_wnd (hb_ack (hb_syn (hb t2 (snd_iss t2))) (rcv_nxt t2)) (rcv_wnd t2)), Some PSuccess)
  | _ => (enqueue t (ack_hdr t), Some PDiscard)
  end.
Lemma gen_ps_syn t h :
  ps_syn t h =
  if negb (c_syn (h_ctl h)) then (t, None) else ps_syn_arm (g_Tcb_process_segment_m4 (of_model (st t))) t h.
Proof. unfold ps_syn. destruct (negb (c_syn (h_ctl h))); [reflexivity|]. destruct (st t); reflexivity. Qed.

(* #5 l.600: segment text is taken in five states, ignored in the others *)
Definition ps_text_arm (k : Z) (t : tcb) (h : header) (text : list Z) : result tcb :=
  let text_len := zlen text in
  match k with
  | 0 =>
    if negb (is_in_rcv_window t (h_seq h) || is_in_rcv_window t (wadd (h_seq h) text_len))
    then Panic 2
    else
      let already := Z.min (wsub (wsub (rcv_nxt t) (h_seq h)) (b2z (c_syn (h_ctl h)))) text_len in
      let unreceived := text_len - already in
      if rcv_wnd t <? zlen (in_text t) then Panic 3
      else
        let space := rcv_wnd t - zlen (in_text t) in
        let accept := Z.min unreceived space in
        let t1 := set_rcv_nxt t (wadd (rcv_nxt t) accept) in
        let piece := firstn (Z.to_nat accept) (skipn (Z.to_nat already) text) in
        let t2 := set_in_text t1 (in_text t1 ++ piece) in
        Ok (enqueue t2 (ack_hdr t2))
  | _ => Ok t
  end.
Lemma gen_ps_text t h text :
  ps_text t h text =
  if zlen text =? 0 then Ok t else ps_text_arm (g_Tcb_process_segment_m5 (of_model (st t))) t h text.
Proof. unfold ps_text. destruct (zlen text =? 0); [reflexivity|]. destruct (st t); reflexivity. Qed.

(* #6 l.656: the FIN stage *)
Definition ps_fin_arm (k : Z) (t1 : tcb) : tcb :=
  match k with
  | 0 => set_st t1 CloseWait
  | 1 => if is_fin_acked t1 then set_time_wait (set_st t1 TimeWait) (Some MSL2) else set_st t1 Closing
  | 2 => set_rto (set_time_wait (set_st t1 TimeWait) (Some MSL2)) RTO
  | 3 => set_time_wait t1 (Some MSL2)
  | _ => t1
  end.
Definition ps_fin_pre (t : tcb) (h : header) (text_len : Z) : tcb :=
  if state_eqb (st t) SynSent then t else
  let last := wadd (h_seq h) text_len in
  if (rcv_nxt t =? last) || (rcv_nxt t =? wadd last 1) then
    let t' := set_rcv_nxt t (wadd last 1) in enqueue t' (ack_hdr t')
  else t.
Lemma gen_ps_fin t h text_len :
  ps_fin t h text_len =
  if negb (c_fin (h_ctl h)) then t else
  let t1 := ps_fin_pre t h text_len in
  ps_fin_arm (g_Tcb_process_segment_m6 (of_model (st t1))) t1.
Proof.
  unfold ps_fin. destruct (negb (c_fin (h_ctl h))); [reflexivity|].
  fold (ps_fin_pre t h text_len). cbv zeta. destruct (st (ps_fin_pre t h text_len)); reflexivity.
Qed.

(* ---- comparisons with a literal state -------------------------------------- *)
(* segment_arrives l.365 `self.state != State::SynSent`; process_segment l.591 `==`, l.640 `!=` *)
Lemma gen_comparisons s :
  g_Tcb_segment_arrives_c1 (of_model s) = negb (state_eqb s SynSent) /\
  g_Tcb_process_segment_c1 (of_model s) = state_eqb s SynSent /\
  g_Tcb_process_segment_c2 (of_model s) = negb (state_eqb s SynSent).
Proof. destruct s; repeat split; reflexivity. Qed.

(* no other `match self.state` / comparison exists in impl Tcb: the translator lists everything it found, and the
   lists are exactly the tables and comparisons treated above (a new match or comparison in tcb.rs changes them) *)
Lemma gen_tables_complete :
  g_Tcb_state_tables =
  [g_Tcb_send_m1; g_Tcb_receive_m1; g_Tcb_close_m1; g_Tcb_abort_m1; g_Tcb_segments_m1;
   g_Tcb_process_segment_m1; g_Tcb_process_segment_m2; g_Tcb_process_segment_m3; g_Tcb_process_segment_m4;
   g_Tcb_process_segment_m5; g_Tcb_process_segment_m6] /\
  g_Tcb_state_comparisons = [g_Tcb_segment_arrives_c1; g_Tcb_process_segment_c1; g_Tcb_process_segment_c2].
Proof. split; reflexivity. Qed.
