(* Basic facts for the reassembly model: the bit vector, list slices and the
   cursor-based assembly of sorted pieces (repaired segment.rs step 15). *)
From Coq Require Import ZArith List Bool Lia Arith Permutation Sorted.
From Coq Require Import ZifyBool ZifyNat.
From Elvis Require Import Model.Base Model.Reasm.
Import ListNotations.
Ltac Zify.zify_post_hook ::= Z.div_mod_to_equations.

(* ------------------------------------------------------------------ BitVec *)
Lemma bv_get_nil : forall j, bv_get [] j = false.
Proof. intros [|j]; reflexivity. Qed.

Lemma bv_get_tl : forall b j, bv_get (tl b) j = bv_get b (S j).
Proof. intros [|x t] j; cbn [tl]; [now rewrite !bv_get_nil|reflexivity]. Qed.

Lemma bv_get_set : forall i b j, bv_get (bv_set b i) j = (j =? i)%nat || bv_get b j.
Proof.
  induction i as [|i IH]; intros b j.
  - destruct b as [|x t]; destruct j as [|j]; cbn [bv_set bv_get nth Nat.eqb orb]; try reflexivity.
    now destruct j.
  - destruct b as [|x t]; destruct j as [|j]; cbn [bv_set].
    + reflexivity.
    + change (bv_get (false :: bv_set [] i) (S j)) with (bv_get (bv_set [] i) j).
      rewrite IH. rewrite !bv_get_nil. reflexivity.
    + reflexivity.
    + change (bv_get (x :: bv_set t i) (S j)) with (bv_get (bv_set t i) j).
      rewrite IH. reflexivity.
Qed.

Lemma bv_get_fill : forall n b j, bv_get (bv_fill b n) j = (j <? n)%nat || bv_get b j.
Proof.
  induction n as [|n IH]; intros b j.
  - cbn [bv_fill]. reflexivity.
  - cbn [bv_fill]. destruct j as [|j].
    + reflexivity.
    + change (bv_get (true :: bv_fill (tl b) n) (S j)) with (bv_get (bv_fill (tl b) n) j).
      rewrite IH, bv_get_tl. reflexivity.
Qed.

Lemma bv_get_set_range_nat : forall s b n j,
  bv_get (bv_set_range_nat b s n) j = ((s <=? j)%nat && (j <? s + n)%nat) || bv_get b j.
Proof.
  induction s as [|s IH]; intros b n j.
  - cbn [bv_set_range_nat]. rewrite bv_get_fill. reflexivity.
  - cbn [bv_set_range_nat]. destruct b as [|x t].
    + destruct n as [|n].
      * rewrite bv_get_nil. destruct (Nat.leb_spec (S s) j); destruct (Nat.ltb_spec j (S s + 0)); try reflexivity; lia.
      * destruct j as [|j]; [reflexivity|].
        change (bv_get (false :: bv_set_range_nat [] s (S n)) (S j)) with (bv_get (bv_set_range_nat [] s (S n)) j).
        rewrite IH, !bv_get_nil. reflexivity.
    + destruct j as [|j]; [reflexivity|].
      change (bv_get (x :: bv_set_range_nat t s n) (S j)) with (bv_get (bv_set_range_nat t s n) j).
      rewrite IH. reflexivity.
Qed.

Lemma bv_set_range_nat_0 : forall s b, bv_set_range_nat b s 0 = b.
Proof.
  induction s as [|s IH]; intros b; cbn [bv_set_range_nat bv_fill]; [reflexivity|].
  destruct b as [|x t]; [reflexivity|]. now rewrite IH.
Qed.

Lemma bsrn_S_cons : forall x t s n,
  bv_set_range_nat (x :: t) (S s) n = x :: bv_set_range_nat t s n.
Proof. reflexivity. Qed.
Lemma bsrn_S_nil_S : forall s n,
  bv_set_range_nat [] (S s) (S n) = false :: bv_set_range_nat [] s (S n).
Proof. reflexivity. Qed.

Lemma bv_set_range_nat_step : forall s b n,
  bv_set_range_nat (bv_set b s) (S s) n = bv_set_range_nat b s (S n).
Proof.
  induction s as [|s IH]; intros b n.
  - destruct b as [|x t]; reflexivity.
  - destruct b as [|x t].
    + change (bv_set [] (S s)) with (false :: bv_set [] s).
      rewrite bsrn_S_cons, IH, bsrn_S_nil_S. reflexivity.
    + change (bv_set (x :: t) (S s)) with (x :: bv_set t s).
      rewrite !bsrn_S_cons, IH. reflexivity.
Qed.

(* the single-pass functions of the model are the loops of bitvec.rs *)
Lemma bv_set_range_nat_loop : forall n s b,
  fold_left bv_set (seq s n) b = bv_set_range_nat b s n.
Proof.
  induction n as [|n IH]; intros s b.
  - cbn [seq fold_left]. now rewrite bv_set_range_nat_0.
  - cbn [seq fold_left]. rewrite IH. apply bv_set_range_nat_step.
Qed.

Lemma bv_set_range_is_loop : forall b s e, bv_set_range b s e = bv_set_range_loop b s e.
Proof. intros. unfold bv_set_range, bv_set_range_loop. symmetry. apply bv_set_range_nat_loop. Qed.

Lemma bv_complete_nat_spec : forall n b,
  bv_complete_nat b n = true <-> (forall j, (j < n)%nat -> bv_get b j = true).
Proof.
  induction n as [|n IH]; intros b.
  - cbn [bv_complete_nat]. split; [intros _ j Hj; lia|reflexivity].
  - cbn [bv_complete_nat]. destruct b as [|x t].
    + split; [discriminate|]. intros H. specialize (H 0%nat ltac:(lia)). now rewrite bv_get_nil in H.
    + rewrite andb_true_iff, IH. split.
      * intros [Hx Ht] [|j] Hj; [exact Hx|]. apply Ht. lia.
      * intros H. split; [apply (H 0%nat); lia|]. intros j Hj. apply (H (S j)). lia.
Qed.

Lemma forallb_seq_shift : forall (f : nat -> bool) n s,
  forallb f (seq (S s) n) = forallb (fun j => f (S j)) (seq s n).
Proof. intros f n. induction n as [|n IH]; intros s; cbn [seq forallb]; [reflexivity|]. now rewrite IH. Qed.

Lemma bv_complete_nat_loop : forall n b, bv_complete_nat b n = forallb (bv_get b) (seq 0 n).
Proof.
  induction n as [|n IH]; intros b; [reflexivity|].
  cbn [bv_complete_nat seq forallb]. rewrite forallb_seq_shift. destruct b as [|x t].
  - reflexivity.
  - rewrite IH. reflexivity.
Qed.

Lemma bv_complete_is_loop : forall b len, bv_complete b len = bv_complete_loop b len.
Proof. intros. unfold bv_complete, bv_complete_loop. apply bv_complete_nat_loop. Qed.

(* ------------------------------------------------------------------ slices *)
Section Slices.
  Context {A : Type}.

  Lemma firstn_split : forall a b (l : list A), firstn (a + b) l = firstn a l ++ firstn b (skipn a l).
  Proof.
    induction a as [|a IH]; intros b l; [reflexivity|].
    destruct l as [|x t]; cbn [Nat.add firstn skipn app].
    - now rewrite firstn_nil.
    - now rewrite IH.
  Qed.

  Lemma skipn_add : forall a b (l : list A), skipn a (skipn b l) = skipn (b + a) l.
  Proof.
    intros a b. revert a. induction b as [|b IH]; intros a l; [reflexivity|].
    destruct l as [|x t]; cbn [Nat.add skipn]; [now rewrite skipn_nil|apply IH].
  Qed.

  (* the cursor step of the repaired assembly, on nat positions *)
  Definition place_nat (msg : list A) (s : nat) (pb : list A) : list A :=
    msg ++ skipn (Nat.min (length msg - s) (length pb)) pb.

  Lemma place_is_place_nat : forall (msg : list A) (p : frag A), (0 <= fst p)%Z ->
    place msg p = place_nat msg (Z.to_nat (fst p * 8)) (snd p).
  Proof.
    intros msg [off pb] H. unfold place, place_nat. cbn [fst snd] in *. f_equal. f_equal. lia.
  Qed.

  Lemma place_nat_prefix : forall (body : list A) c s k,
    (c <= length body)%nat -> (s + k <= length body)%nat -> (s <= c)%nat ->
    place_nat (firstn c body) s (firstn k (skipn s body)) = firstn (Nat.max c (s + k)) body.
  Proof.
    intros body c s k Hc Hk Hs. unfold place_nat.
    assert (L1 : length (firstn c body) = c) by (rewrite firstn_length; lia).
    assert (L2 : length (firstn k (skipn s body)) = k) by (rewrite firstn_length, skipn_length; lia).
    rewrite L1, L2.
    destruct (Nat.le_gt_cases k (c - s)) as [Hge|Hlt].
    - rewrite Nat.min_r by lia. rewrite skipn_all2 by lia. rewrite app_nil_r. f_equal. lia.
    - rewrite Nat.min_l by lia. rewrite skipn_firstn_comm, skipn_add.
      replace (s + (c - s))%nat with c by lia.
      replace (Nat.max c (s + k)) with (c + (k - (c - s)))%nat by lia.
      now rewrite firstn_split.
  Qed.
End Slices.
