(* Segment level: pieces of a datagram, the buffer invariant, and what
   Segment::receive_packet (repaired) returns for a piece. *)
From Coq Require Import ZArith List Bool Lia Arith Permutation Sorted.
From Coq Require Import ZifyBool ZifyNat.
From Elvis Require Import Model.Base Model.Reasm Proofs.ReasmHeap Proofs.ReasmBits.
Import ListNotations.
Local Open Scope Z_scope.
Ltac Zify.zify_post_hook ::= Z.div_mod_to_equations.

Lemma frag_le_total {A} : forall x y : frag A, frag_le x y = true \/ frag_le y x = true.
Proof. intros x y. unfold frag_le. lia. Qed.
Lemma frag_le_trans {A} : forall x y z : frag A,
  frag_le x y = true -> frag_le y z = true -> frag_le x z = true.
Proof. intros x y z. unfold frag_le. lia. Qed.

Section Pieces.
  Context {A : Type}.
  Notation len l := (Z.of_nat (length l)).

  (* a received packet: header and payload *)
  Definition piece : Type := (hdr * list A)%type.
  Definition pfrag (p : piece) : frag A := (h_fo (fst p), snd p).
  (* first octet after the piece *)
  Definition pend (p : piece) : Z := 8 * h_fo (fst p) + len (snd p).

  (* an unfragmented datagram as its sender built it *)
  Definition WfDgram (oh : hdr) (body : list A) : Prop :=
    5 <= h_ihl oh <= 15 /\ h_fo oh = 0 /\ (h_flags oh = 0 \/ h_flags oh = 2) /\
    h_tl oh = h_ihl oh * 4 + len body /\ h_tl oh <= 65535.

  (* p carries a slice of the payload of (oh, body) at octet 8*FO, MF is clear
     exactly when the slice ends where the payload ends, every piece but the
     last is a whole number of 8-octet blocks, and the other header fields are
     those of oh.  The unfragmented datagram itself is a piece. *)
  Definition Piece (oh : hdr) (body : list A) (p : piece) : Prop :=
    0 <= h_fo (fst p) /\ 0 < len (snd p) /\ pend p <= len body /\
    snd p = firstn (length (snd p)) (skipn (Z.to_nat (8 * h_fo (fst p))) body) /\
    h_tl (fst p) = h_ihl oh * 4 + len (snd p) /\
    h_flags (fst p) = (if pend p =? len body then h_flags oh else h_flags oh + 1) /\
    (pend p < len body -> len (snd p) mod 8 = 0) /\
    h_ihl (fst p) = h_ihl oh /\ h_tos (fst p) = h_tos oh /\ h_id (fst p) = h_id oh /\
    h_ttl (fst p) = h_ttl oh /\ h_proto (fst p) = h_proto oh /\ h_ck (fst p) = h_ck oh /\
    h_src (fst p) = h_src oh /\ h_dst (fst p) = h_dst oh.

  (* FO = 0 and MF = 0: reassembly.rs step (2) *)
  Definition Whole (p : piece) : Prop :=
    h_fo (fst p) = 0 /\ is_last_fragment (h_flags (fst p)) = true.

  Definition covers_byte (p : piece) (i : Z) : Prop := 8 * h_fo (fst p) <= i < pend p.
  (* the pieces cover every octet of [0, n) *)
  Definition Covers (ps : list piece) (n : Z) : Prop :=
    forall i, 0 <= i < n -> exists p, In p ps /\ covers_byte p i.
  Definition covers_blk (p : piece) (j : Z) : Prop :=
    h_fo (fst p) <= j < h_fo (fst p) + (len (snd p) + 7) / 8.

  (* ------------------------------------------------------------------ flags *)
  Lemma is_last_wf : forall oh body, WfDgram oh body -> is_last_fragment (h_flags oh) = true.
  Proof. intros oh body (_ & _ & [E|E] & _); rewrite E; reflexivity. Qed.
  Lemma is_last_wf_succ : forall oh body, WfDgram oh body -> is_last_fragment (h_flags oh + 1) = false.
  Proof. intros oh body (_ & _ & [E|E] & _); rewrite E; reflexivity. Qed.
  Lemma set_last_wf_succ : forall oh body, WfDgram oh body ->
    set_last_fragment_true (h_flags oh + 1) = h_flags oh.
  Proof. intros oh body (_ & _ & [E|E] & _); rewrite E; reflexivity. Qed.

  Lemma piece_last_iff : forall oh body p, WfDgram oh body -> Piece oh body p ->
    (is_last_fragment (h_flags (fst p)) = true <-> pend p = len body).
  Proof.
    intros oh body p Hwf Hp. destruct Hp as (_ & _ & _ & _ & _ & Hf & _). rewrite Hf.
    destruct (Z.eqb_spec (pend p) (len body)) as [E|N].
    - rewrite (is_last_wf _ _ Hwf). tauto.
    - rewrite (is_last_wf_succ _ _ Hwf). split; [discriminate|tauto].
  Qed.

  Lemma piece_whole_is_dgram : forall oh body p, WfDgram oh body -> Piece oh body p -> Whole p ->
    p = (oh, body).
  Proof.
    intros oh body [ph pb] Hwf Hp [Hfo Hl].
    pose proof (proj1 (piece_last_iff _ _ _ Hwf Hp) Hl) as Hend.
    destruct Hp as (H0 & Hk & Hle & Hs & Htl & Hf & Hm & E1 & E2 & E3 & E4 & E5 & E6 & E7 & E8).
    unfold pend in *. cbn [fst snd] in *.
    destruct Hwf as (Wi & Wfo & Wfl & Wtl & Wmax).
    rewrite Hfo in *. rewrite Z.eqb_refl in Hf || (replace (8 * 0 + len pb =? len body) with true in Hf by lia).
    assert (Hlen : length pb = length body) by lia.
    assert (Hb : pb = body).
    { rewrite Hs. cbn [Z.mul Z.to_nat skipn]. rewrite Hlen. apply firstn_all. }
    subst pb. f_equal.
    destruct ph, oh; cbn in *. subst. f_equal; lia.
  Qed.

  (* --------------------------------------------------- blocks versus octets *)
  Lemma blocks_iff_bytes : forall oh body ps, WfDgram oh body -> Forall (Piece oh body) ps ->
    ((forall j : nat, Z.of_nat j < (len body + 7) / 8 -> exists p, In p ps /\ covers_blk p (Z.of_nat j))
     <-> Covers ps (len body)).
  Proof.
    intros oh body ps Hwf Hall. rewrite Forall_forall in Hall. split.
    - intros H i Hi.
      destruct (H (Z.to_nat (i / 8)) ltac:(lia)) as (p & Hin & Hb).
      exists p. split; [exact Hin|].
      destruct (Hall p Hin) as (H0 & Hk & Hle & _ & _ & _ & Hm & _).
      unfold covers_blk in Hb. unfold covers_byte, pend in *.
      destruct (Z.eq_dec (8 * h_fo (fst p) + len (snd p)) (len body)) as [E|N].
      + lia.
      + specialize (Hm ltac:(lia)). lia.
    - intros H j Hj.
      destruct (H (8 * Z.of_nat j) ltac:(lia)) as (p & Hin & Hb).
      exists p. split; [exact Hin|].
      unfold covers_byte, pend in Hb. unfold covers_blk. lia.
  Qed.

  (* only a piece with MF clear reaches the last octet *)
  Lemma covers_has_last : forall oh body ps, WfDgram oh body -> Forall (Piece oh body) ps ->
    0 < len body -> Covers ps (len body) ->
    existsb (fun p => is_last_fragment (h_flags (fst p))) ps = true.
  Proof.
    intros oh body ps Hwf Hall Hn Hc. rewrite Forall_forall in Hall.
    destruct (Hc (len body - 1) ltac:(lia)) as (p & Hin & Hb).
    apply existsb_exists. exists p. split; [exact Hin|].
    apply (piece_last_iff _ _ _ Hwf (Hall p Hin)).
    destruct (Hall p Hin) as (_ & _ & Hle & _). unfold covers_byte in Hb. lia.
  Qed.

  (* ------------------------------------------------ assembly with a cursor *)
  Definition FragOf (body : list A) (f : frag A) : Prop :=
    0 <= fst f /\ 8 * fst f + len (snd f) <= len body /\
    snd f = firstn (length (snd f)) (skipn (Z.to_nat (8 * fst f)) body).

  Lemma fold_place_prefix : forall (body : list A) l c,
    ge_sorted frag_le l -> Forall (FragOf body) l -> (c <= length body)%nat ->
    (forall i, (c <= i < length body)%nat ->
       exists f, In f l /\ 8 * fst f <= Z.of_nat i < 8 * fst f + len (snd f)) ->
    fold_left place l (firstn c body) = body.
  Proof.
    intros body l. induction l as [|f l IH]; intros c Hs Hall Hc Hcov.
    - cbn [fold_left]. destruct (Nat.eq_dec c (length body)) as [->|N]; [apply firstn_all|].
      destruct (Hcov c ltac:(lia)) as (f & [] & _).
    - cbn [fold_left]. inversion Hs as [|? ? Hs' Hge]; subst. inversion Hall as [|? ? Hf Hall']; subst.
      destruct Hf as (H0 & Hle & Hsl).
      assert (Hstart : (Z.to_nat (fst f * 8) <= c)%nat).
      { destruct (Nat.eq_dec c (length body)) as [->|N]; [lia|].
        destruct (Hcov c ltac:(lia)) as (g & [<-|Hin] & Hg); [lia|].
        rewrite Forall_forall in Hge. specialize (Hge g Hin). unfold frag_le in Hge. lia. }
      rewrite place_is_place_nat by exact H0. rewrite Hsl.
      replace (Z.to_nat (8 * fst f)) with (Z.to_nat (fst f * 8)) by lia.
      rewrite place_nat_prefix by lia.
      apply IH; [exact Hs'|exact Hall'|lia|].
      intros i Hi. destruct (Hcov i ltac:(lia)) as (g & [<-|Hin] & Hg).
      + lia.
      + exists g. split; assumption.
  Qed.

  Lemma piece_frag_of : forall oh body p, Piece oh body p -> FragOf body (pfrag p).
  Proof.
    intros oh body p (H0 & _ & Hle & Hs & _). unfold FragOf, pfrag, pend in *. cbn [fst snd].
    split; [exact H0|]. split; [exact Hle|exact Hs].
  Qed.

  Lemma assemble_pieces : forall oh body ps h,
    Forall (Piece oh body) ps -> Permutation h (map pfrag ps) -> heap_ok frag_le dfrag h ->
    Covers ps (len body) -> assemble h = body.
  Proof.
    intros oh body ps h Hall Hperm Hok Hcov. unfold assemble.
    destruct (heap_drain_ok frag_le dfrag frag_le_total frag_le_trans (length h) h Hok (le_n _))
      as [Hp Hs].
    set (l := heap_drain frag_le dfrag (length h) h) in *.
    assert (Hpl : Permutation l (map pfrag ps)).
    { eapply Permutation_trans; [apply Permutation_sym; exact Hp|exact Hperm]. }
    change (@nil A) with (firstn 0 body).
    apply fold_place_prefix; [exact Hs| |lia|].
    - rewrite Forall_forall in *. intros f Hf.
      apply (Permutation_in f Hpl) in Hf. apply in_map_iff in Hf. destruct Hf as (p & <- & Hin).
      eapply piece_frag_of. apply Hall. exact Hin.
    - intros i Hi. destruct (Hcov (Z.of_nat i) ltac:(lia)) as (p & Hin & Hb).
      exists (pfrag p). split.
      + apply (Permutation_in (pfrag p) (Permutation_sym Hpl)). apply in_map. exact Hin.
      + unfold covers_byte, pend in Hb. unfold pfrag. cbn [fst snd]. lia.
  Qed.

  (* -------------------------------------------------------- buffer invariant *)
  Definition saw_last (ps : list piece) : bool :=
    existsb (fun p => is_last_fragment (h_flags (fst p))) ps.

  (* what a buffer holds after receiving the proper fragments ps of (oh, body) *)
  Record SInv (oh : hdr) (body : list A) (ps : list piece) (s : segment A) : Prop := {
    si_pieces : Forall (Piece oh body) ps;
    si_proper : Forall (fun p => ~ Whole p) ps;
    si_perm : Permutation (s_frags s) (map pfrag ps);
    si_heap : heap_ok frag_le dfrag (s_frags s);
    si_bits : forall j : nat,
      bv_get (s_bits s) j = true <-> exists p, In p ps /\ covers_blk p (Z.of_nat j);
    si_tdl : s_tdl s = if saw_last ps then len body else 0;
    si_hdr_some : forall p, In p ps -> h_fo (fst p) = 0 -> s_header s <> None;
    si_hdr_in : forall h, s_header s = Some h -> h_fo h = 0 /\ exists pb, In (h, pb) ps;
    si_timeout : s_timeout s = match ps with [] => 15 | _ => Z.max 15 (h_ttl oh) end
  }.

  Lemma SInv_new : forall oh body, SInv oh body [] seg_new.
  Proof.
    intros. constructor; cbn [seg_new s_frags s_bits s_tdl s_header s_timeout saw_last existsb map].
    - constructor.
    - constructor.
    - constructor.
    - intros i Hi. cbn [length] in Hi. lia.
    - intros j. rewrite bv_get_nil. split; [discriminate|]. intros (p & [] & _).
    - reflexivity.
    - intros p [].
    - discriminate.
    - reflexivity.
  Qed.

  (* the header rebuilt at step (14) from a stored first fragment *)
  Lemma rebuilt_header : forall oh body h pb, WfDgram oh body -> Piece oh body (h, pb) ->
    ~ Whole (h, pb) -> h_fo h = 0 ->
    mkHdr (h_ihl h) (h_tos h) (len body + h_ihl h * 4) (h_id h) (h_fo h)
          (set_last_fragment_true (h_flags h)) (h_ttl h) (h_proto h) (h_ck h) (h_src h) (h_dst h) = oh.
  Proof.
    intros oh body h pb Hwf Hp Hnw Hfo.
    assert (Hnl : is_last_fragment (h_flags h) = false).
    { destruct (is_last_fragment (h_flags h)) eqn:E; [|reflexivity]. exfalso. apply Hnw. split; assumption. }
    pose proof (piece_last_iff _ _ _ Hwf Hp) as Hli. cbn [fst] in Hli.
    destruct Hp as (H0 & Hk & Hle & Hs & Htl & Hf & Hm & E1 & E2 & E3 & E4 & E5 & E6 & E7 & E8).
    cbn [fst snd] in *.
    destruct (Z.eqb_spec (pend (h, pb)) (len body)) as [E|N].
    { rewrite (proj2 Hli E) in Hnl. discriminate. }
    rewrite Hf, (set_last_wf_succ _ _ Hwf).
    destruct Hwf as (Wi & Wfo & Wfl & Wtl & Wmax).
    destruct h, oh; cbn in *. subst. f_equal; lia.
  Qed.

  (* Segment::receive_packet on a proper fragment of the buffer's datagram *)
  Lemma seg_receive_spec : forall oh body ps s p,
    WfDgram oh body -> SInv oh body ps s -> Piece oh body p -> ~ Whole p -> s_epoch s < U64MAX ->
    exists s' out, seg_receive s (fst p) (snd p) = Ok (s', out) /\
      ((Covers (p :: ps) (len body) /\ out = Some (oh, body) /\ s_epoch s' = s_epoch s) \/
       (~ Covers (p :: ps) (len body) /\ out = None /\ SInv oh body (p :: ps) s' /\
        s_epoch s' = s_epoch s + 1)).
  Proof.
    intros oh body ps s [ph pb] Hwf Hinv Hp Hnw Hep.
    pose proof Hp as (H0 & Hk & Hle & Hsl & Htl & Hfl & Hm & Ei & Etos & Eid & Ettl & Epr & Eck & Esrc & Edst).
    pose proof Hwf as (Wi & Wfo & Wfl & Wtl & Wmax).
    unfold pend in *. cbn [fst snd] in *.
    set (n := len body) in *. set (k := len pb) in *.
    set (frags' := heap_push frag_le dfrag (s_frags s) (h_fo ph, pb)).
    set (bits' := bv_set_range (s_bits s) (h_fo ph) (h_fo ph + (k + 7) / 8)).
    set (tdl' := if is_last_fragment (h_flags ph) then n else s_tdl s).
    set (header' := if h_fo ph =? 0 then Some ph else s_header s).
    set (s' := mkSeg header' bits' frags' tdl' (Z.max (s_timeout s) (h_ttl ph)) (s_epoch s + 1)).
    pose proof (piece_last_iff _ _ _ Hwf Hp) as Hli. unfold pend in Hli. cbn [fst snd] in Hli.
    fold n k in Hli.
    (* the invariant holds for the updated buffer *)
    assert (Hs' : SInv oh body ((ph, pb) :: ps) s').
    { destruct Hinv as [I1 I2 I3 I4 I5 I6 I7 I8 I9].
      destruct (heap_push_ok frag_le dfrag frag_le_total frag_le_trans (s_frags s) (h_fo ph, pb) I4)
        as [Hok' Hperm'].
      constructor; cbn [s' s_frags s_bits s_tdl s_header s_timeout].
      - constructor; assumption.
      - constructor; assumption.
      - cbn [map]. change (pfrag (ph, pb)) with (h_fo ph, pb).
        eapply Permutation_trans; [apply Permutation_sym; exact Hperm'|]. apply perm_skip. exact I3.
      - exact Hok'.
      - intros j. unfold bits', bv_set_range. rewrite bv_get_set_range_nat.
        rewrite orb_true_iff, andb_true_iff, I5. split.
        + intros [[Ha Hb]|(q & Hq & Hc)].
          * exists (ph, pb). split; [left; reflexivity|]. unfold covers_blk. cbn [fst snd]. fold k. lia.
          * exists q. split; [right; exact Hq|exact Hc].
        + intros (q & [<-|Hq] & Hc).
          * left. unfold covers_blk in Hc. cbn [fst snd] in Hc. fold k in Hc. lia.
          * right. exists q. split; assumption.
      - unfold tdl', saw_last. cbn [existsb fst]. fold (saw_last ps). rewrite I6.
        destruct (is_last_fragment (h_flags ph)); reflexivity.
      - intros q [<-|Hq] Hq0; cbn [fst] in *.
        + unfold header'. rewrite Hq0. cbn. discriminate.
        + unfold header'. destruct (h_fo ph =? 0); [discriminate|]. eapply I7; eassumption.
      - intros h. unfold header'. destruct (Z.eqb_spec (h_fo ph) 0) as [E0|N0].
        + intros [= <-]. split; [exact E0|]. exists pb. left. reflexivity.
        + intros Hh. destruct (I8 h Hh) as [Hh0 (qb & Hq)]. split; [exact Hh0|]. exists qb. right. exact Hq.
      - rewrite I9, Ettl. destruct ps; lia. }
    (* arithmetic of steps (9) and (10) stays inside u16 *)
    assert (Edl : h_tl ph - h_ihl ph * 4 = k) by lia.
    assert (Hn : 0 < n) by lia.
    assert (Hcomp : seg_receive s ph pb =
      if tdl' =? 0 then Ok (s', None) else
      if bv_complete bits' ((tdl' + 7) / 8) then
        match header' with
        | None => Panic 7
        | Some hh =>
          if U16MAX <? tdl' + h_ihl hh * 4 then Panic 8 else
          Ok (mkSeg header' bits' [] tdl' (s_timeout s) (s_epoch s),
              Some (mkHdr (h_ihl hh) (h_tos hh) (tdl' + h_ihl hh * 4) (h_id hh) (h_fo hh)
                      (set_last_fragment_true (h_flags hh)) (h_ttl hh) (h_proto hh) (h_ck hh)
                      (h_src hh) (h_dst hh), assemble frags'))
        end
      else Ok (s', None)).
    { unfold seg_receive, seg_receive_gen. cbv beta iota zeta. rewrite Edl.
      destruct (Z.leb_spec U64MAX (s_epoch s)); [lia|].
      destruct (Z.ltb_spec (h_tl ph) (h_ihl ph * 4)); [lia|].
      unfold U16MAX.
      destruct (Z.ltb_spec 65535 (k + 7)); [lia|].
      destruct (Z.ltb_spec 65535 (h_fo ph + (k + 7) / 8)); [lia|].
      fold frags' bits' header'.
      assert (Etdl : (if is_last_fragment (h_flags ph)
                      then if 65535 <? h_fo ph * 8 then Panic 4
                           else if 65535 <? k + h_fo ph * 8 then Panic 5 else Ok (k + h_fo ph * 8)
                      else Ok (s_tdl s)) = Ok tdl').
      { unfold tdl'. destruct (is_last_fragment (h_flags ph)) eqn:El; [|reflexivity].
        pose proof (proj1 Hli eq_refl).
        destruct (Z.ltb_spec 65535 (h_fo ph * 8)); [lia|].
        destruct (Z.ltb_spec 65535 (k + h_fo ph * 8)); [lia|]. f_equal. lia. }
      rewrite Etdl. cbn [bind]. fold s'.
      assert (Htdl : tdl' = 0 \/ tdl' = n).
      { unfold tdl'. destruct (is_last_fragment (h_flags ph)); [right; reflexivity|].
        rewrite (si_tdl _ _ _ _ Hinv). destruct (saw_last ps); [right|left]; reflexivity. }
      destruct (Z.eqb_spec tdl' 0); [reflexivity|].
      destruct (Z.ltb_spec 65535 (tdl' + 7)); [lia|]. reflexivity. }
    rewrite Hcomp.
    pose proof (si_tdl _ _ _ _ Hs') as Htdl'. cbn [s' s_tdl] in Htdl'. fold n in Htdl'.
    destruct (saw_last ((ph, pb) :: ps)) eqn:Esaw.
    - (* the end of the datagram is known *)
      rewrite Htdl'. destruct (Z.eqb_spec n 0); [lia|].
      assert (Hdec : bv_complete bits' ((n + 7) / 8) = true <-> Covers ((ph, pb) :: ps) n).
      { unfold bv_complete. rewrite bv_complete_nat_spec. unfold n.
        rewrite <- (blocks_iff_bytes oh body _ Hwf (si_pieces _ _ _ _ Hs')).
        split.
        - intros H j Hj. apply (proj1 (si_bits _ _ _ _ Hs' j)). apply H. lia.
        - intros H j Hj. apply (proj2 (si_bits _ _ _ _ Hs' j)). apply H. lia. }
      destruct (bv_complete bits' ((n + 7) / 8)) eqn:Ecomp.
      + (* complete *)
        pose proof (proj1 Hdec eq_refl) as Hcov.
        destruct (Hcov 0 ltac:(lia)) as (q & Hq & Hq0).
        assert (Hqfo : h_fo (fst q) = 0).
        { pose proof (si_pieces _ _ _ _ Hs') as Hall. rewrite Forall_forall in Hall.
          destruct (Hall q Hq) as (Hq1 & _). unfold covers_byte in Hq0. lia. }
        pose proof (si_hdr_some _ _ _ _ Hs' q Hq Hqfo) as Hsome. cbn [s' s_header] in Hsome.
        destruct header' as [hh|] eqn:Eh; [|congruence].
        destruct (si_hdr_in _ _ _ _ Hs' hh) as [Hh0 (hb & Hhin)]; [cbn [s' s_header]; first [exact Eh|reflexivity]|].
        assert (Hhp : Piece oh body (hh, hb)).
        { pose proof (si_pieces _ _ _ _ Hs') as Hall. rewrite Forall_forall in Hall. apply Hall. exact Hhin. }
        assert (Hhnw : ~ Whole (hh, hb)).
        { pose proof (si_proper _ _ _ _ Hs') as Hall. rewrite Forall_forall in Hall. apply Hall. exact Hhin. }
        assert (Ehi : h_ihl hh = h_ihl oh) by (destruct Hhp as (_ & _ & _ & _ & _ & _ & _ & E & _); exact E).
        destruct (Z.ltb_spec U16MAX (n + h_ihl hh * 4)); [unfold U16MAX in *; lia|].
        eexists. eexists. split; [reflexivity|]. left. split; [exact Hcov|].
        split; [|reflexivity].
        f_equal. f_equal.
        * apply (rebuilt_header oh body hh hb Hwf Hhp Hhnw Hh0).
        * apply (assemble_pieces oh body ((ph, pb) :: ps) frags'
                   (si_pieces _ _ _ _ Hs') (si_perm _ _ _ _ Hs') (si_heap _ _ _ _ Hs') Hcov).
      + eexists. eexists. split; [reflexivity|]. right.
        split; [|split; [reflexivity|split; [exact Hs'|reflexivity]]].
        intros Hc. apply Hdec in Hc. congruence.
    - (* no fragment with MF = 0 so far *)
      rewrite Htdl'. cbn [Z.eqb].
      eexists. eexists. split; [reflexivity|]. right.
      split; [|split; [reflexivity|split; [exact Hs'|reflexivity]]].
      intros Hc. pose proof (covers_has_last oh body _ Hwf (si_pieces _ _ _ _ Hs') Hn Hc) as Hl.
      unfold saw_last in Esaw. congruence.
  Qed.
End Pieces.
