(* Facts about the NDL parser model, part 4: the global rewrites of core_parser
   (CR removal, four spaces -> tab) on the three renderings of a description. *)
From Elvis Require Import Model.Base Model.Ndl Proofs.NdlFacts Proofs.NdlRound Proofs.NdlFile.
From Coq Require Import NArith ZifyBool.
Local Open Scope N_scope.

(* ------------------------------------------------------------ CR removal *)

Lemma remove_cr_app a b : remove_cr (a ++ b) = remove_cr a ++ remove_cr b.
Proof.
  induction a as [|c a IH]; cbn [app remove_cr]; [reflexivity|].
  destruct (c =? c_cr); rewrite IH; reflexivity.
Qed.

Lemma remove_cr_id a : ~ In c_cr a -> remove_cr a = a.
Proof.
  induction a as [|c a IH]; intros H; cbn [remove_cr]; [reflexivity|].
  destruct (c =? c_cr) eqn:E.
  - apply N.eqb_eq in E. subst. exfalso. apply H. left. reflexivity.
  - rewrite IH; [reflexivity|]. intros Hi. apply H. right. exact Hi.
Qed.

(* CRLF line ends are invisible to the parser: for EVERY text *)
Lemma remove_cr_crlf t : remove_cr (crlf t) = remove_cr t.
Proof.
  induction t as [|c t IH]; cbn [crlf remove_cr]; [reflexivity|].
  destruct (c =? c_nl) eqn:E.
  - apply N.eqb_eq in E. subst c. cbn [remove_cr]. change (c_cr =? c_cr) with true.
    change (c_nl =? c_cr) with false. cbn iota. rewrite IH. reflexivity.
  - cbn [remove_cr]. destruct (c =? c_cr); rewrite IH; reflexivity.
Qed.

Lemma rewrite_crlf t : rewrite (crlf t) = rewrite t.
Proof. unfold rewrite. rewrite remove_cr_crlf. reflexivity. Qed.

(* ------------------------------------------------------------ four spaces -> tab *)

Lemma sp4_nonspace c r : c <> c_sp -> sp4 (c :: r) = c :: sp4 r.
Proof.
  intros H. apply N.eqb_neq in H. cbn [sp4].
  destruct r as [|c2 [|c3 [|c4 r4]]]; try reflexivity. rewrite H. reflexivity.
Qed.

(* a space that does not start a run of four *)
Lemma sp4_space_short r : (forall c2 c3 c4 r4, r = c2 :: c3 :: c4 :: r4 ->
                             (c2 =? c_sp) && (c3 =? c_sp) && (c4 =? c_sp) = false) ->
  sp4 (c_sp :: r) = c_sp :: sp4 r.
Proof.
  intros H. cbn [sp4]. destruct r as [|c2 [|c3 [|c4 r4]]]; try reflexivity.
  change (c_sp =? c_sp) with true. cbn [andb].
  rewrite (H c2 c3 c4 r4 eq_refl). reflexivity.
Qed.

(* a text without a run of four spaces, followed by a non-space character, is
   left alone and does not influence what follows *)
Lemma sp4_norun_app a : forall k c b, norun4 k a = true -> c <> c_sp ->
  sp4 (a ++ c :: b) = a ++ c :: sp4 b.
Proof.
  induction a as [|x a IH]; intros k c b Hn Hc.
  - cbn [app]. apply sp4_nonspace. exact Hc.
  - cbn [app]. cbn [norun4] in Hn. destruct (x =? c_sp) eqn:Ex.
    + apply N.eqb_eq in Ex. subst x. apply andb_prop in Hn. destruct Hn as [Hk Hn].
      rewrite sp4_space_short.
      * rewrite (IH (S k) c b Hn Hc). reflexivity.
      * intros c2 c3 c4 r4 Heq. apply N.eqb_neq in Hc.
        destruct a as [|y1 [|y2 [|y3 a3]]]; cbn [app] in Heq.
        -- injection Heq as <- _. rewrite Hc. reflexivity.
        -- injection Heq as <- <- _. rewrite Hc, andb_false_r. reflexivity.
        -- injection Heq as <- <- <- _. rewrite Hc. apply andb_false_r.
        -- injection Heq as <- <- <- _. cbn [norun4] in Hn. apply Nat.ltb_lt in Hk.
           destruct (y1 =? c_sp); [|reflexivity].
           destruct (y2 =? c_sp); [|reflexivity].
           destruct (y3 =? c_sp); [|reflexivity].
           exfalso.
           apply andb_prop in Hn. destruct Hn as [_ Hn].
           apply andb_prop in Hn. destruct Hn as [_ Hn].
           apply andb_prop in Hn. destruct Hn as [Hn _].
           apply Nat.ltb_lt in Hn. lia.
    + apply N.eqb_neq in Ex. rewrite sp4_nonspace by exact Ex.
      rewrite (IH 0%nat c b Hn Hc). reflexivity.
Qed.

Lemma sp4_spaces4 n c r : c <> c_sp -> sp4 (spaces4 n ++ c :: r) = tabs n ++ sp4 (c :: r).
Proof.
  intros Hc. unfold spaces4, tabs. induction n as [|n IH]; [reflexivity|].
  replace (4 * S n)%nat with (S (S (S (S (4 * n))))) by lia. cbn [repeat app].
  cbn [sp4]. change (c_sp =? c_sp) with true. cbn [andb]. rewrite IH. reflexivity.
Qed.

(* the separator character resets the run counter *)
Lemma norun4_app a : forall k c b, norun4 k a = true -> c <> c_sp -> norun4 0 b = true ->
  norun4 k (a ++ c :: b) = true.
Proof.
  induction a as [|x a IH]; intros k c b Ha Hc Hb.
  - cbn [app norun4]. apply N.eqb_neq in Hc. rewrite Hc. exact Hb.
  - cbn [app norun4] in *. destruct (x =? c_sp).
    + apply andb_prop in Ha. destruct Ha as [Hk Ha]. rewrite Hk. cbn [andb]. apply IH; assumption.
    + apply IH; assumption.
Qed.

Lemma norun4_tabs n k : norun4 k (tabs n) = true.
Proof. revert k. unfold tabs. induction n as [|n IH]; intros k; cbn [repeat norun4]; [reflexivity|].
  change (c_tab =? c_sp) with false. cbn iota. apply IH. Qed.

(* ------------------------------------------------------------ cleanliness of a rendered section *)

Definition cargs (a : params) : Prop := Forall carg a /\ Forall parg a.

Lemma norun4_key k : head_not_ws k -> norun4 0 k = true -> norun4 1 k = true.
Proof.
  destruct k as [|c k]; [reflexivity|]. cbn [head_not_ws norun4]. intros Hw.
  destruct (c =? c_sp) eqn:E; [|auto].
  apply N.eqb_eq in E. subst c. discriminate Hw.
Qed.

Lemma render_args_norun a tail : cargs a -> norun4 0 tail = true ->
  norun4 0 (render_args a ++ c_rbr :: tail) = true.
Proof.
  intros [Hc Hp]. revert Hp. induction Hc as [|[k v] a [Hk Hv] Ha IH]; intros Hp Ht.
  - cbn [render_args flat_map app norun4]. exact Ht.
  - inversion Hp as [|? ? [(_ & _ & Hws) _] Hp']. subst.
    unfold render_args. cbn [flat_map]. fold (render_args a). rewrite <- app_assoc.
    rewrite render_arg_app. cbn [norun4]. change (c_sp =? c_sp) with true. cbn [Nat.ltb Nat.leb andb].
    cbn [fst snd] in *. destruct Hk as [_ Hk]. destruct Hv as [_ Hv].
    apply norun4_app; [apply norun4_key; assumption|discriminate|].
    cbn [norun4]. change (c_quote =? c_sp) with false. cbn iota.
    apply norun4_app; [exact Hv|discriminate|]. exact (IH Hp' Ht).
Qed.

Lemma render_sec_norun d a tail : cargs a -> norun4 0 tail = true ->
  norun4 0 (render_sec d a ++ c_nl :: tail) = true.
Proof.
  intros Ha Ht. unfold render_sec. cbn [app]. cbn [norun4]. change (c_lbr =? c_sp) with false. cbn iota.
  rewrite <- app_assoc. rewrite <- app_assoc. cbn [app].
  assert (H : norun4 0 (render_args a ++ c_rbr :: c_nl :: tail) = true).
  { apply render_args_norun; [exact Ha|]. cbn [norun4]. change (c_nl =? c_sp) with false. exact Ht. }
  destruct d; cbn; exact H.
Qed.

Lemma render_args_no_cr a : Forall carg a -> ~ In c_cr (render_args a).
Proof.
  induction 1 as [|[k v] a [[Hk _] [Hv _]] Ha IH]; [intros []|].
  unfold render_args. cbn [flat_map]. fold (render_args a). apply not_in_app; [|exact IH].
  unfold render_arg. cbn [fst snd] in *. intros [H|H]; [discriminate H|].
  apply in_app_or in H. destruct H as [H|H]; [exact (Hk H)|].
  cbn [app] in H. destruct H as [H|[H|H]]; [discriminate H|discriminate H|].
  apply in_app_or in H. destruct H as [H|[H|[]]]; [exact (Hv H)|discriminate H].
Qed.

Lemma render_sec_no_cr d a : Forall carg a -> ~ In c_cr (render_sec d a).
Proof.
  intros Ha. unfold render_sec. intros [H|H]; [discriminate H|].
  apply in_app_or in H. destruct H as [H|H].
  - destruct d; cbn in H; repeat (destruct H as [H|H]; [discriminate H|]); exact H.
  - apply in_app_or in H. destruct H as [H|[H|[]]]; [exact (render_args_no_cr a Ha H)|discriminate H].
Qed.

(* ------------------------------------------------------------ line lists *)

(* a line body: "[...]" text that is clean *)
Definition cbody (b : text) : Prop :=
  ~ In c_cr b /\ (forall tail, norun4 0 tail = true -> norun4 0 (b ++ c_nl :: tail) = true) /\
  (exists r, b = c_lbr :: r).

Lemma cbody_sec d a : cargs a -> cbody (render_sec d a).
Proof.
  intros Ha. split; [apply render_sec_no_cr; exact (proj1 Ha)|]. split.
  - intros tail Ht. apply render_sec_norun; assumption.
  - unfold render_sec. eauto.
Qed.

Lemma tabs_no_cr n : ~ In c_cr (tabs n).
Proof. unfold tabs. induction n; cbn; [tauto|]. intros [H|H]; [discriminate H|tauto]. Qed.

Lemma spaces4_no_cr n : ~ In c_cr (spaces4 n).
Proof. unfold spaces4. induction (4 * n)%nat; cbn; [tauto|]. intros [H|H]; [discriminate H|tauto]. Qed.

Lemma render_lines_no_cr ind l : (forall n, ~ In c_cr (ind n)) -> Forall (fun nb => cbody (snd nb)) l ->
  ~ In c_cr (render_lines ind l).
Proof.
  intros Hi. induction 1 as [|[n b] l (Hb & _) Hl IH]; [intros []|].
  unfold render_lines. cbn [flat_map fst snd]. fold (render_lines ind l).
  apply not_in_app; [|exact IH]. apply not_in_app; [apply Hi|].
  apply not_in_app; [exact Hb|]. intros [H|[]]. discriminate H.
Qed.

Lemma render_lines_norun l : Forall (fun nb => cbody (snd nb)) l ->
  norun4 0 (render_lines tabs l) = true.
Proof.
  induction 1 as [|[n b] l (_ & Hb & (r & Hr)) Hl IH]; [reflexivity|].
  unfold render_lines. cbn [flat_map fst snd]. fold (render_lines tabs l).
  cbn [snd] in Hr, Hb. repeat rewrite <- app_assoc. cbn [app]. subst b. cbn [app].
  apply norun4_app; [apply norun4_tabs|discriminate|].
  specialize (Hb _ IH). cbn [app norun4] in Hb. exact Hb.
Qed.

Lemma norun4_sp4 t : forall k, norun4 k t = true -> sp4 t = t.
Proof.
  induction t as [|c t IH]; intros k H; [reflexivity|]. cbn [norun4] in H.
  destruct (c =? c_sp) eqn:E.
  - apply N.eqb_eq in E. subst c. apply andb_prop in H. destruct H as [Hk H].
    rewrite sp4_space_short; [rewrite (IH _ H); reflexivity|].
    intros c2 c3 c4 r4 ->. cbn [norun4] in H. apply Nat.ltb_lt in Hk.
    destruct (c2 =? c_sp); [|reflexivity]. destruct (c3 =? c_sp); [|reflexivity].
    destruct (c4 =? c_sp); [|reflexivity]. exfalso.
    apply andb_prop in H. destruct H as [_ H].
    apply andb_prop in H. destruct H as [_ H].
    apply andb_prop in H. destruct H as [H _]. apply Nat.ltb_lt in H. lia.
  - apply N.eqb_neq in E. rewrite sp4_nonspace by exact E. rewrite (IH _ H). reflexivity.
Qed.

(* the 4-space rendering is rewritten into the tab rendering, line by line *)
Lemma sp4_render_lines4 l : Forall (fun nb => cbody (snd nb)) l ->
  sp4 (render_lines spaces4 l) = render_lines tabs l.
Proof.
  induction 1 as [|[n b] l (_ & Hb & (r & Hr)) Hl IH]; [reflexivity|].
  unfold render_lines. cbn [flat_map fst snd].
  fold (render_lines spaces4 l). fold (render_lines tabs l).
  cbn [snd] in Hr, Hb. repeat rewrite <- app_assoc. cbn [app]. subst b. cbn [app].
  rewrite sp4_spaces4 by discriminate. f_equal.
  specialize (Hb [] eq_refl). cbn [app norun4] in Hb.
  change (c_lbr =? c_sp) with false in Hb. cbn iota in Hb.
  rewrite sp4_nonspace by discriminate. f_equal.
  assert (Hr' : norun4 0 r = true).
  { clear -Hb. revert Hb. generalize 0%nat. induction r as [|x r IH]; intros k H; [reflexivity|].
    cbn [app norun4] in *. destruct (x =? c_sp).
    - apply andb_prop in H. destruct H as [Hk H]. rewrite Hk. cbn [andb]. exact (IH _ H).
    - exact (IH _ H). }
  rewrite (sp4_norun_app r 0%nat c_nl _ Hr') by discriminate. rewrite IH. reflexivity.
Qed.

(* ------------------------------------------------------------ render = render_lines tabs *)

Lemma render_lines_app ind a b : render_lines ind (a ++ b) = render_lines ind a ++ render_lines ind b.
Proof. unfold render_lines. apply flat_map_app. Qed.

Lemma render_items_lines n l : flat_map (render_item n) l = render_lines tabs (item_lines n l).
Proof.
  induction l as [|i l IH]; [reflexivity|]. cbn [flat_map item_lines map].
  unfold render_lines at 1. cbn [flat_map fst snd]. fold (render_lines tabs (item_lines n l)).
  rewrite IH. unfold render_item, render_line. repeat rewrite <- app_assoc. reflexivity.
Qed.

Lemma render_line_lines n d a : render_line n d a = render_lines tabs [(n, render_sec d a)].
Proof. unfold render_lines. cbn [flat_map fst snd]. rewrite app_nil_r. unfold render_line. reflexivity. Qed.

Lemma render_networks_lines l :
  flat_map render_network l = render_lines tabs (flat_map network_lines l).
Proof.
  induction l as [|kn l IH]; [reflexivity|]. cbn [flat_map]. rewrite render_lines_app, <- IH.
  f_equal. unfold render_network, network_lines.
  change ((1%nat, render_sec (net_ty (snd kn)) (net_opts (snd kn))) :: item_lines 2 (net_ips (snd kn)))
    with ([(1%nat, render_sec (net_ty (snd kn)) (net_opts (snd kn)))] ++ item_lines 2 (net_ips (snd kn))).
  rewrite render_lines_app, <- render_line_lines, <- render_items_lines. reflexivity.
Qed.

Lemma render_machines_lines l :
  flat_map render_machine l = render_lines tabs (flat_map machine_lines l).
Proof.
  induction l as [|m l IH]; [reflexivity|]. cbn [flat_map]. rewrite render_lines_app, <- IH.
  f_equal. unfold render_machine, machine_lines.
  repeat match goal with
  | |- context [?x :: ?l] =>
    lazymatch l with
    | nil => fail
    | _ => lazymatch x with (_, _) => change (x :: l) with ([x] ++ l) end
    end
  end.
  repeat rewrite render_lines_app. repeat rewrite <- render_line_lines.
  repeat rewrite <- render_items_lines. repeat rewrite <- app_assoc. reflexivity.
Qed.

Lemma render_as_lines s : render s = render_lines tabs (lines_of s).
Proof.
  unfold render, lines_of.
  change ((0%nat, render_sec Networks []) :: flat_map network_lines (s_networks s)
          ++ (0%nat, render_sec Machines []) :: flat_map machine_lines (s_machines s))
    with ([(0%nat, render_sec Networks [])] ++ flat_map network_lines (s_networks s)
          ++ [(0%nat, render_sec Machines [])] ++ flat_map machine_lines (s_machines s)).
  repeat rewrite render_lines_app. repeat rewrite <- render_line_lines.
  rewrite <- render_networks_lines, <- render_machines_lines. reflexivity.
Qed.

(* ------------------------------------------------------------ clean descriptions *)

Definition citem (i : item) : Prop := cargs (it_opts i).
Definition cnetwork (kn : text * network) : Prop :=
  cargs (net_opts (snd kn)) /\ Forall citem (net_ips (snd kn)).
Definition cmachine (m : machine) : Prop :=
  cargs (m_opts m) /\ Forall citem (m_nets m) /\ Forall citem (m_protos m) /\ Forall citem (m_apps m).
Definition csim (s : sim) : Prop := Forall cnetwork (s_networks s) /\ Forall cmachine (s_machines s).

Lemma cargs_nil : cargs [].
Proof. split; constructor. Qed.

Lemma item_lines_clean n l : Forall citem l -> Forall (fun nb => cbody (snd nb)) (item_lines n l).
Proof.
  induction 1 as [|i l Hi Hl IH]; [constructor|]. cbn [item_lines map]. constructor; [|exact IH].
  cbn [snd]. apply cbody_sec. exact Hi.
Qed.

Lemma lines_of_clean s : csim s -> Forall (fun nb => cbody (snd nb)) (lines_of s).
Proof.
  intros [Hn Hm]. unfold lines_of. constructor; [apply cbody_sec, cargs_nil|].
  apply Forall_app. split.
  - induction Hn as [|kn l [Ha Hi] Hl IH]; [constructor|]. cbn [flat_map]. apply Forall_app. split; [|exact IH].
    unfold network_lines. constructor; [apply cbody_sec; exact Ha|apply item_lines_clean; exact Hi].
  - constructor; [apply cbody_sec, cargs_nil|].
    induction Hm as [|m l (Ha & H1 & H2 & H3) Hl IH]; [constructor|]. cbn [flat_map]. apply Forall_app.
    split; [|exact IH]. unfold machine_lines.
    constructor; [apply cbody_sec; exact Ha|].
    constructor; [apply cbody_sec, cargs_nil|]. apply Forall_app. split; [apply item_lines_clean; exact H1|].
    constructor; [apply cbody_sec, cargs_nil|]. apply Forall_app. split; [apply item_lines_clean; exact H2|].
    constructor; [apply cbody_sec, cargs_nil|]. apply item_lines_clean; exact H3.
Qed.

Lemma rewrite_render s : csim s -> rewrite (render s) = render s.
Proof.
  intros Hc. pose proof (lines_of_clean s Hc) as Hl. rewrite render_as_lines. unfold rewrite.
  rewrite remove_cr_id by (apply render_lines_no_cr; [apply tabs_no_cr|exact Hl]).
  apply (norun4_sp4 _ 0%nat). apply render_lines_norun. exact Hl.
Qed.

Lemma rewrite_render4 s : csim s -> rewrite (render4 s) = render s.
Proof.
  intros Hc. pose proof (lines_of_clean s Hc) as Hl. rewrite render_as_lines. unfold rewrite, render4.
  rewrite remove_cr_id by (apply render_lines_no_cr; [apply spaces4_no_cr|exact Hl]).
  apply sp4_render_lines4. exact Hl.
Qed.
