(* C12 equivariance, part 3: every operation of Model/Tcb.v maps [trel]-related
   TCBs (and shifted arguments) to [trel]-related TCBs and shifted results.

   WHY A RELATION AND NOT A FUNCTION.  Four fields can hold raw values that are
   not in any sequence space:
     - after tcb_open (SynSent) RCV.IRS = RCV.NXT = 0 and SND.WL1 = SND.WL2 = 0;
     - arrives_listen and the SynSent -> SynReceived move copy the ack FIELD of
       an ACK-less SYN (the header builder's raw 0) into SND.WL2.
   [gsh] therefore takes these four fields of the shifted TCB from a ghost;
   [rcv_valid] says that RCV.IRS / RCV.NXT / SND.WL1 are properly shifted as
   soon as the state is not SynSent.  Only SND.WL2 stays unconstrained.  It only
   gates the update of SND.WND in ack_est, and is decisive only for a segment
   with seq = SND.WL1; the stack advertises the constant window DEFAULT_WND in
   every SYN- or ACK-bearing segment ([hok]), so when the two runs decide the
   gate differently the update changes neither SND.WND nor SND.WL1 (it writes
   seq = SND.WL1 back) - only SND.WL2 (lemma ack_est_rel; the strict version
   for a valid WL2, which needs no assumption on windows, is ack_est_wl_valid). *)
From Elvis Require Import Model.Base Model.U32 Model.Tcb Proofs.U32Facts Proofs.TcbShift Proofs.TcbShiftInv.
From Coq Require Import ZifyBool.
Local Open Scope Z_scope.
Ltac Zify.zify_post_hook ::= Z.div_mod_to_equations.

(* result relations *)
Definition rrel {A} (R : A -> A -> Prop) (r r' : result A) : Prop :=
  match r, r' with
  | Ok a, Ok a' => R a a'
  | Err e, Err e' => e = e'
  | Panic p, Panic p' => p = p'
  | OutOfFuel, OutOfFuel => True
  | _, _ => False
  end.

(* obstacle (b): in SynSent a RST is classified by comparing with the raw
   RCV.NXT; both classes delete the TCB *)
Definition psr_rel (r r' : psr) : Prop :=
  r = r' \/ (should_delete r = true /\ should_delete r' = true).
Definition opsr_rel (o o' : option psr) : Prop :=
  match o, o' with
  | None, None => True
  | Some r, Some r' => psr_rel r r'
  | _, _ => False
  end.
Lemma psr_rel_delete r r' : psr_rel r r' -> should_delete r' = should_delete r.
Proof. intros [->|[-> ->]]; reflexivity. Qed.

Section Ops.
Variables dO dP : Z.
Notation G := (gsh dO dP).
Notation HO := (sh_hdr dO dP).
Notation HI := (sh_hdr dP dO).
Notation SO := (sh_seg dO dP).
Notation SI := (sh_seg dP dO).
Notation TR := (trel dO dP).
Notation RV := (rcv_valid dP).

Local Hint Resolve wadd_u32 wsub_u32 u32_0 : tinv.

Lemma trel_intro g t : RV g t -> TR t (G g t).
Proof. intros H. exists g. split; [reflexivity | exact H]. Qed.

Lemma trel_intro_eq g t t' : t' = G g t -> RV g t -> TR t t'.
Proof. intros -> H. apply trel_intro. exact H. Qed.

Lemma RV_eq g g' t t1 :
  st t1 = st t -> rcv_irs t1 = rcv_irs t -> rcv_nxt t1 = rcv_nxt t -> snd_wl1 t1 = snd_wl1 t ->
  g_irs g' = g_irs g -> g_nxt g' = g_nxt g -> g_wl1 g' = g_wl1 g -> RV g t -> RV g' t1.
Proof. unfold rcv_valid. intros -> -> -> -> -> -> ->. auto. Qed.

Lemma RV_enqueue g t h : RV g t -> RV g (enqueue t h).
Proof. apply RV_eq; auto using enqueue_st, enqueue_rcv_irs, enqueue_rcv_nxt, enqueue_snd_wl1. Qed.

(* ---- sequence acceptability ---- *)
Lemma is_in_rcv_window_G g t n : g_nxt g = wadd (rcv_nxt t) dP -> u32 n ->
  is_in_rcv_window (G g t) (wadd n dP) = is_in_rcv_window t n.
Proof.
  intros E Hn. unfold is_in_rcv_window. tcb_cbn. rewrite E.
  rewrite wsub_wadd_l, (wadd_swap (rcv_nxt t) dP).
  apply mod_bounded_shift; auto with tinv.
Qed.

Lemma is_seq_ok_G g t len seq syn fin : g_nxt g = wadd (rcv_nxt t) dP -> u32 seq -> u32 (rcv_nxt t) ->
  is_seq_ok (G g t) len (wadd seq dP) syn fin = is_seq_ok t len seq syn fin.
Proof.
  intros E Hn Hr. unfold is_seq_ok.
  rewrite (wadd_swap seq dP), wsub_wadd_l.
  rewrite !is_in_rcv_window_G by auto with tinv.
  tcb_cbn. rewrite E. rewrite wsub_wadd_l.
  rewrite mod_bounded_shift by auto with tinv. reflexivity.
Qed.

(* ---- remove_acked ---- *)
Lemma filter_map_comm {A B} (f : A -> B) p q l : (forall x, p (f x) = q x) ->
  filter p (map f l) = map f (filter q l).
Proof.
  intros H. induction l as [|x r IH]; cbn; [reflexivity|].
  rewrite H. destruct (q x); cbn; rewrite IH; reflexivity.
Qed.

Lemma remove_acked_G g t una : remove_acked (G g t) (wadd una dO) = G g (remove_acked t una).
Proof.
  unfold remove_acked. rewrite <- G_set_retx. tcb_cbn. f_equal.
  apply filter_map_comm. intros x. tcb_cbn.
  change (seg_len (mkSeg (sh_hdr dO dP (s_hdr (t_seg x))) (s_text (t_seg x))))
    with (seg_len (sh_seg dO dP (t_seg x))).
  rewrite seg_len_sh. rewrite (wadd_swap _ dO). apply mod_lt_shift.
Qed.

Lemma is_fin_acked_G g t : u32 (snd_nxt t) -> u32 (snd_una t) ->
  is_fin_acked (G g t) = is_fin_acked t.
Proof.
  intros H1 H2. unfold is_fin_acked. tcb_cbn. rewrite eqb_shift by assumption. reflexivity.
Qed.

(* G ignores SND.WL1/WL2 of the original *)
Lemma G_wl_irrel g t w a b : snd_wnd t = w -> G g (set_snd_window t w a b) = G g t.
Proof. intros <-. reflexivity. Qed.

(* ---- ack_established_processing ---- *)
Lemma ack_est_rel t t' h : TR t t' -> u32 (snd_una t) -> u32 (snd_nxt t) -> u32 (snd_wl1 t) ->
  u32 (h_ack h) -> u32 (h_seq h) ->
  c_ack (h_ctl h) = true -> is_synsent (st t) = false -> h_wnd h = snd_wnd t ->
  TR (fst (ack_est t h)) (fst (ack_est t' (HI h))) /\ snd (ack_est t' (HI h)) = snd (ack_est t h).
Proof.
  intros (g & -> & Hv) Hu Hn Hl1 Ha Hq Hack Hst Hw.
  destruct (Hv Hst) as [Ei En].
  unfold ack_est. tcb_cbn. rewrite Hack.
  rewrite mod_leq_shift by assumption.
  destruct (mod_leq (h_ack h) (snd_una t)).
  { cbn [fst snd]. split; [apply trel_intro; exact Hv | reflexivity]. }
  rewrite mod_gt_shift.
  destruct (mod_gt (h_ack h) (snd_nxt t)).
  { cbn [fst snd]. rewrite ack_hdr_G by exact En. rewrite enqueue_G.
    split; [apply trel_intro; apply RV_enqueue; exact Hv | reflexivity]. }
  change (set_snd_una (G g t) (wadd (h_ack h) dO)) with (G g (set_snd_una t (h_ack h))).
  rewrite remove_acked_G.
  set (t1 := remove_acked (set_snd_una t (h_ack h)) (h_ack h)).
  assert (Hv1 : RV g t1) by (revert Hv; apply RV_eq; reflexivity).
  assert (Hw1 : snd_wnd t1 = h_wnd h) by (rewrite Hw; reflexivity).
  assert (Hst1 : is_synsent (st t1) = false) by exact Hst.
  assert (Hl1' : u32 (snd_wl1 t1)) by exact Hl1.
  clearbody t1.
  destruct (Hv1 Hst1) as [[Ei1 Ew1] En1].
  change (snd_wl1 (G g t1)) with (g_wl1 g). change (snd_wl2 (G g t1)) with (g_wl2 g).
  rewrite Ew1. rewrite mod_lt_shift, eqb_shift by assumption.
  assert (Hboth : TR (set_snd_window t1 (h_wnd h) (h_seq h) (h_ack h))
                     (set_snd_window (G g t1) (h_wnd h) (wadd (h_seq h) dP) (wadd (h_ack h) dO))).
  { rewrite (G_set_snd_window dO dP g t1 _ _ _ (h_seq h) (h_ack h)).
    apply trel_intro. intros _. split; [split|]; [exact Ei1 | reflexivity | exact En1]. }
  destruct (mod_lt (snd_wl1 t1) (h_seq h)); cbn [orb fst snd].
  { split; [exact Hboth | reflexivity]. }
  destruct (snd_wl1 t1 =? h_seq h) eqn:Eeq; cbn [andb fst snd].
  2:{ split; [apply trel_intro; exact Hv1 | reflexivity]. }
  apply Z.eqb_eq in Eeq.
  destruct (mod_leq (g_wl2 g) _); destruct (mod_leq (snd_wl2 t1) _); cbn [fst snd];
    (split; [|reflexivity]).
  - exact Hboth.
  - (* only the shifted run takes the update: it rewrites WL1 with itself *)
    rewrite G_set_snd_window_same by exact Hw1.
    apply trel_intro. intros _. split; [split|]; [exact Ei1 | cbn; rewrite Eeq; reflexivity | exact En1].
  - (* only the original run takes the update *)
    rewrite <- (G_wl_irrel g t1 (h_wnd h) (h_seq h) (h_ack h)) by exact Hw1.
    apply trel_intro. intros _. split; [split|]; [exact Ei1 | cbn; rewrite Ew1, Eeq; reflexivity | exact En1].
  - apply trel_intro. exact Hv1.
Qed.

(* the strict version: when WL1/WL2 are valid the window update itself is
   equivariant, whatever windows the segments advertise *)
Lemma ack_est_wl_valid g t h : wl_valid dO dP g t -> g_nxt g = wadd (rcv_nxt t) dP ->
  u32 (snd_una t) -> u32 (snd_nxt t) -> u32 (snd_wl1 t) -> u32 (snd_wl2 t) ->
  u32 (h_ack h) -> u32 (h_seq h) -> c_ack (h_ctl h) = true ->
  exists g', ack_est (G g t) (HI h) = (G g' (fst (ack_est t h)), snd (ack_est t h)) /\
             wl_valid dO dP g' (fst (ack_est t h)) /\ g_irs g' = g_irs g /\ g_nxt g' = g_nxt g.
Proof.
  intros [E1 E2] En Hu Hn H1 H2 Ha Hs Hack.
  unfold ack_est. tcb_cbn. rewrite Hack.
  rewrite mod_leq_shift by assumption.
  destruct (mod_leq (h_ack h) (snd_una t)).
  { exists g. cbn [fst snd]. repeat split; assumption. }
  rewrite mod_gt_shift.
  destruct (mod_gt (h_ack h) (snd_nxt t)).
  { exists g. cbn [fst snd]. rewrite ack_hdr_G by exact En. rewrite enqueue_G.
    repeat split; unfold enqueue; destruct (_ || _); tcb_cbn; assumption. }
  change (set_snd_una (G g t) (wadd (h_ack h) dO)) with (G g (set_snd_una t (h_ack h))).
  rewrite remove_acked_G.
  set (t1 := remove_acked (set_snd_una t (h_ack h)) (h_ack h)).
  assert (W1 : snd_wl1 t1 = snd_wl1 t) by reflexivity.
  assert (W2 : snd_wl2 t1 = snd_wl2 t) by reflexivity.
  clearbody t1. tcb_cbn. rewrite E1, E2, <- W1, <- W2.
  rewrite mod_lt_shift, eqb_shift, mod_leq_shift by (rewrite ?W1, ?W2; assumption).
  destruct (mod_lt (snd_wl1 t1) (h_seq h) || _); cbn [fst snd].
  - eexists (mkG _ _ _ _). split; [reflexivity|]. repeat split; reflexivity.
  - exists g. repeat split; congruence.
Qed.

(* ---- stage 2 ---- *)
Lemma ps_ack_rel t t' h : TR t t' -> tinv t -> hok h ->
  TR (fst (ps_ack t h)) (fst (ps_ack t' (HI h))) /\ snd (ps_ack t' (HI h)) = snd (ps_ack t h).
Proof.
  intros HR Hi Hh.
  unfold ps_ack. tcb_cbn.
  destruct (c_ack (h_ctl h)) eqn:Hack; cbn [negb]; [|cbn [fst snd]; auto].
  destruct Hh as (Hq & Ha & Hw).
  assert (Hw' : h_wnd h = DEFAULT_WND) by (apply Hw; rewrite Hack; reflexivity).
  pose proof (i_una _ Hi) as Hu. pose proof (i_nxt _ Hi) as Hn. pose proof (i_iss _ Hi) as Hs.
  pose proof (i_swnd _ Hi) as Hsw.
  (* the common tail: states that run ack_est on the TCB as it is *)
  assert (Hest : is_synsent (st t) = false ->
     TR (fst (ack_est t h)) (fst (ack_est t' (HI h))) /\ snd (ack_est t' (HI h)) = snd (ack_est t h) /\
     tinv (fst (ack_est t h)) /\ st (fst (ack_est t h)) = st t).
  { intros Hst. rewrite Hst in Hsw.
    destruct (ack_est_rel t t' h HR Hu Hn (i_wl1 _ Hi) Ha Hq Hack Hst ltac:(congruence)) as [A B].
    split; [exact A | split; [exact B | split; [|apply ack_est_st]]].
    apply tinv_ack_est; auto. split; [|split]; assumption. }
  destruct HR as (g & -> & Hv). tcb_cbn.
  destruct (st t) eqn:Hst.
  - (* SynSent *)
    clear Hest. tcb_cbn. rewrite !mod_bounded_shift by assumption.
    destruct (mod_bounded (snd_nxt t) CLt (h_ack h) CLeq (snd_iss t)).
    { destruct (c_rst (h_ctl h)); cbn [fst snd].
      - split; [apply trel_intro; exact Hv | reflexivity].
      - rewrite rst_hdr_G, enqueue_G. split; [apply trel_intro; apply RV_enqueue; exact Hv | reflexivity]. }
    destruct (mod_bounded (snd_una t) CLt (h_ack h) CLeq (snd_nxt t)).
    { destruct (c_syn (h_ctl h)); cbn [fst snd].
      - change (set_snd_una (G g t) (wadd (h_ack h) dO)) with (G g (set_snd_una t (h_ack h))).
        rewrite remove_acked_G. split; [|reflexivity]. apply trel_intro.
        revert Hv. apply RV_eq; reflexivity.
      - split; [apply trel_intro; exact Hv | reflexivity]. }
    cbn [fst snd]. rewrite rst_hdr_G, enqueue_G.
    split; [apply trel_intro; apply RV_enqueue; exact Hv | reflexivity].
  - (* SynReceived *)
    clear Hest. tcb_cbn. rewrite !mod_bounded_shift by assumption.
    destruct (mod_bounded (snd_una t) CLt (h_ack h) CLeq (snd_nxt t)).
    2:{ cbn [fst snd]. rewrite rst_hdr_G, enqueue_G.
        split; [apply trel_intro; apply RV_enqueue; exact Hv | reflexivity]. }
    set (t1 := set_snd_window (set_st t Established) (h_wnd h) (h_seq h) (h_ack h)).
    rewrite (G_set_snd_window dO dP g (set_st t Established) _ _ _ (h_seq h) (h_ack h)).
    fold t1.
    assert (HR1 : TR t1 (G (set_gwl g (wadd (h_seq h) dP) (wadd (h_ack h) dO)) t1)).
    { apply trel_intro. intros _.
      destruct (Hv ltac:(rewrite Hst; reflexivity)) as [[Ei Ew] En].
      split; [split|]; [exact Ei | reflexivity | exact En]. }
    destruct (ack_est_rel t1 _ h HR1 Hu Hn Hq Ha Hq Hack eq_refl eq_refl) as [A B].
    destruct (ack_est t1 h) as [t2 r]. destruct (ack_est (G _ t1) (HI h)) as [t2' r'].
    cbn [fst snd] in A, B. subst r'. destruct r; cbn [fst snd]; auto.
  - destruct (Hest eq_refl) as (A & B & _ & _).
    destruct (ack_est t h) as [t2 r]. destruct (ack_est (G g t) (HI h)) as [t2' r'].
    cbn [fst snd] in A, B. subst r'. destruct r; cbn [fst snd]; auto.
  - (* FinWait1 *)
    destruct (Hest eq_refl) as (A & B & C & D).
    destruct (ack_est t h) as [t2 r]. destruct (ack_est (G g t) (HI h)) as [t2' r'].
    cbn [fst snd] in A, B, C, D. subst r'. destruct A as (g2 & -> & Hv2).
    rewrite is_fin_acked_G by apply C.
    assert (A : TR (if is_fin_acked t2 then set_st t2 FinWait2 else t2)
                   (if is_fin_acked t2 then set_st (G g2 t2) FinWait2 else G g2 t2)).
    { destruct (is_fin_acked t2); (apply (trel_intro_eq g2); [reflexivity|]); [|exact Hv2].
      intros _. apply Hv2. rewrite D. reflexivity. }
    destruct r; cbn [fst snd]; auto.
  - destruct (Hest eq_refl) as (A & B & _ & _).
    destruct (ack_est t h) as [t2 r]. destruct (ack_est (G g t) (HI h)) as [t2' r'].
    cbn [fst snd] in A, B. subst r'. destruct r; cbn [fst snd]; auto.
  - destruct (Hest eq_refl) as (A & B & _ & _).
    destruct (ack_est t h) as [t2 r]. destruct (ack_est (G g t) (HI h)) as [t2' r'].
    cbn [fst snd] in A, B. subst r'. destruct r; cbn [fst snd]; auto.
  - (* Closing *)
    destruct (Hest eq_refl) as (A & B & C & D).
    destruct (ack_est t h) as [t2 r]. destruct (ack_est (G g t) (HI h)) as [t2' r'].
    cbn [fst snd] in A, B, C, D. subst r'. destruct A as (g2 & -> & Hv2).
    rewrite is_fin_acked_G by apply C.
    assert (A : TR (if is_fin_acked t2 then set_time_wait (set_st t2 TimeWait) (Some MSL2) else t2)
                   (if is_fin_acked t2 then set_time_wait (set_st (G g2 t2) TimeWait) (Some MSL2) else G g2 t2)).
    { destruct (is_fin_acked t2); (apply (trel_intro_eq g2); [reflexivity|]); [|exact Hv2].
      intros _. apply Hv2. rewrite D. reflexivity. }
    destruct r; cbn [fst snd]; auto.
  - (* LastAck *)
    destruct (Hest eq_refl) as (A & B & C & D).
    destruct (ack_est t h) as [t2 r]. destruct (ack_est (G g t) (HI h)) as [t2' r'].
    cbn [fst snd] in A, B, C, D. subst r'. pose proof A as A'. destruct A' as (g2 & -> & Hv2).
    rewrite is_fin_acked_G by apply C.
    destruct (is_fin_acked t2); [cbn [fst snd]; auto|].
    destruct r; cbn [fst snd]; auto.
  - (* TimeWait *)
    clear Hest. destruct (c_fin (h_ctl h)); cbv zeta; cbn [fst snd];
      [|split; [apply trel_intro; exact Hv | reflexivity]].
    split; [|reflexivity].
    rewrite (wadd_swap (h_seq h) dP 1).
    change (hb_wnd (hb_ack (hb (G g t) (wadd (snd_nxt t) dO)) (wadd (wadd (h_seq h) 1) dP)) (rcv_wnd t))
      with (HO (hb_wnd (hb_ack (hb t (snd_nxt t)) (wadd (h_seq h) 1)) (rcv_wnd t))).
    rewrite enqueue_G. apply (trel_intro_eq g); [reflexivity|].
    revert Hv. apply RV_eq; tcb_cbn; auto using enqueue_st, enqueue_rcv_irs, enqueue_rcv_nxt, enqueue_snd_wl1.
Qed.

(* ---- stage 3 ---- *)
Lemma ps_rst_rel t t' h : TR t t' -> opsr_rel (ps_rst t h) (ps_rst t' (HI h)).
Proof.
  intros (g & -> & Hv). unfold ps_rst. tcb_cbn.
  destruct (c_rst (h_ctl h)); cbn [negb opsr_rel]; [|exact I].
  destruct (st t); cbn [opsr_rel]; try (left; reflexivity).
  - destruct (_ =? _), (_ =? _); cbn [opsr_rel]; (left; reflexivity) || (right; split; reflexivity).
  - destruct (listen_init t); left; reflexivity.
Qed.

(* ---- stage 4 ---- *)
Lemma ps_syn_rel t t' h : TR t t' -> tinv t -> hok h ->
  TR (fst (ps_syn t h)) (fst (ps_syn t' (HI h))) /\ snd (ps_syn t' (HI h)) = snd (ps_syn t h).
Proof.
  intros (g & -> & Hv) Hi Hh. unfold ps_syn. tcb_cbn.
  destruct (c_syn (h_ctl h)) eqn:Hsyn; cbn [negb]; [|cbn [fst snd]; split; [apply trel_intro; exact Hv|reflexivity]].
  assert (Hother : is_synsent (st t) = false ->
    TR (fst (enqueue t (ack_hdr t), Some PDiscard)) (fst (enqueue (G g t) (ack_hdr (G g t)), Some PDiscard)) /\
    snd (enqueue (G g t) (ack_hdr (G g t)), Some PDiscard) = snd (enqueue t (ack_hdr t), Some PDiscard)).
  { intros Hst. destruct (Hv Hst) as [Ei En]. cbn [fst snd]. rewrite ack_hdr_G by exact En.
    rewrite enqueue_G. split; [apply trel_intro; apply RV_enqueue; exact Hv | reflexivity]. }
  destruct (st t) eqn:Hst; try (apply Hother; reflexivity). clear Hother.
  (* SynSent *)
  set (t1 := set_snd_window (set_rcv_nxt (set_rcv_irs t (h_seq h)) (wadd (h_seq h) 1)) (h_wnd h) (h_seq h) (h_ack h)).
  set (g1 := mkG (wadd (h_seq h) dP) (if c_ack (h_ctl h) then wadd (h_ack h) dO else h_ack h)
                 (wadd (h_seq h) dP) (wadd (wadd (h_seq h) 1) dP)).
  rewrite (wadd_swap (h_seq h) dP 1).
  change (set_snd_window (set_rcv_nxt (set_rcv_irs (G g t) (wadd (h_seq h) dP)) (wadd (wadd (h_seq h) 1) dP))
            (h_wnd h) (wadd (h_seq h) dP) (if c_ack (h_ctl h) then wadd (h_ack h) dO else h_ack h))
    with (G g1 t1).
  tcb_cbn. rewrite mod_gt_shift.
  destruct (mod_gt (snd_una t) (snd_iss t)); cbn [fst snd].
  - change (set_st (G g1 t1) Established) with (G g1 (set_st t1 Established)).
    rewrite ack_hdr_G by reflexivity. rewrite enqueue_G. split; [|reflexivity].
    apply trel_intro. apply RV_enqueue. intros _. split; [split|]; reflexivity.
  - change (set_st (G g1 t1) SynReceived) with (G g1 (set_st t1 SynReceived)).
    split; [|reflexivity].
    match goal with |- TR (enqueue ?a ?hh) (enqueue (G ?gg ?a) ?hh') => change hh' with (HO hh) end.
    rewrite enqueue_G. apply trel_intro. apply RV_enqueue. intros _. split; [split|]; reflexivity.
Qed.

(* ---- stage 6 ---- *)
Lemma ps_text_rel t t' h text : TR t t' -> tinv t -> u32 (h_seq h) -> is_synsent (st t) = false ->
  rrel TR (ps_text t h text) (ps_text t' (HI h) text).
Proof.
  intros (g & -> & Hv) Hi Hq Hst. destruct (Hv Hst) as [Ei En].
  unfold ps_text. tcb_cbn.
  destruct (zlen text =? 0); [cbn [rrel]; apply trel_intro; exact Hv|].
  assert (Hmain : rrel TR
    (if negb (is_in_rcv_window t (h_seq h) || is_in_rcv_window t (wadd (h_seq h) (zlen text)))
     then Panic 2
     else
       let already := Z.min (wsub (wsub (rcv_nxt t) (h_seq h)) (b2z (c_syn (h_ctl h)))) (zlen text) in
       let unreceived := zlen text - already in
       if rcv_wnd t <? zlen (in_text t) then Panic 3
       else
         let space := rcv_wnd t - zlen (in_text t) in
         let accept := Z.min unreceived space in
         let t1 := set_rcv_nxt t (wadd (rcv_nxt t) accept) in
         let piece := firstn (Z.to_nat accept) (skipn (Z.to_nat already) text) in
         let t2 := set_in_text t1 (in_text t1 ++ piece) in
         Ok (enqueue t2 (ack_hdr t2)))
    (if negb (is_in_rcv_window (G g t) (wadd (h_seq h) dP) ||
              is_in_rcv_window (G g t) (wadd (wadd (h_seq h) dP) (zlen text)))
     then Panic 2
     else
       let already := Z.min (wsub (wsub (g_nxt g) (wadd (h_seq h) dP)) (b2z (c_syn (h_ctl h)))) (zlen text) in
       let unreceived := zlen text - already in
       if rcv_wnd t <? zlen (in_text t) then Panic 3
       else
         let space := rcv_wnd t - zlen (in_text t) in
         let accept := Z.min unreceived space in
         let t1 := set_rcv_nxt (G g t) (wadd (g_nxt g) accept) in
         let piece := firstn (Z.to_nat accept) (skipn (Z.to_nat already) text) in
         let t2 := set_in_text t1 (in_text t1 ++ piece) in
         Ok (enqueue t2 (ack_hdr t2)))).
  { rewrite (wadd_swap (h_seq h) dP). rewrite !is_in_rcv_window_G by auto with tinv.
    destruct (negb _); [reflexivity|]. cbv zeta.
    rewrite En. rewrite wsub_shift.
    destruct (rcv_wnd t <? zlen (in_text t)); [reflexivity|]. cbn [rrel].
    set (acc := Z.min _ _). set (al := Z.min _ _) in *.
    rewrite (wadd_swap (rcv_nxt t) dP acc).
    rewrite (G_set_rcv_nxt dO dP g t _ (wadd (rcv_nxt t) acc)).
    set (t1 := set_rcv_nxt t (wadd (rcv_nxt t) acc)).
    set (g1 := set_gnxt g (wadd (wadd (rcv_nxt t) acc) dP)).
    change (in_text (G g1 t1)) with (in_text t1).
    rewrite G_set_in_text. rewrite ack_hdr_G by reflexivity. rewrite enqueue_G.
    apply trel_intro. apply RV_enqueue. intros _. split; [exact Ei | reflexivity]. }
  destruct (st t) eqn:Hst'; try exact Hmain; cbn [rrel]; apply trel_intro; exact Hv.
Qed.

(* ---- stage 7 ---- *)
Lemma ps_fin_rel t t' h n : TR t t' -> tinv t -> u32 (h_seq h) -> TR (ps_fin t h n) (ps_fin t' (HI h) n).
Proof.
  intros (g & -> & Hv) Hi Hq. unfold ps_fin. tcb_cbn.
  destruct (c_fin (h_ctl h)); cbn [negb]; [|apply trel_intro; exact Hv].
  set (t1 := if state_eqb (st t) SynSent then t else _).
  set (t1' := if state_eqb (st t) SynSent then G g t else _).
  assert (H1 : exists g1, t1' = G g1 t1 /\ RV g1 t1 /\ st t1 = st t /\
                          snd_nxt t1 = snd_nxt t /\ snd_una t1 = snd_una t).
  { assert (Hsame : exists g1, G g t = G g1 t /\ RV g1 t /\ st t = st t /\
                               snd_nxt t = snd_nxt t /\ snd_una t = snd_una t).
    { exists g. split; [reflexivity | split; [exact Hv | split; [reflexivity | split; reflexivity]]]. }
    subst t1 t1'. destruct (state_eqb (st t) SynSent) eqn:Ess; [exact Hsame|].
    assert (Hst : is_synsent (st t) = false) by (destruct (st t); try reflexivity; discriminate).
    destruct (Hv Hst) as [Ei En].
    rewrite En. rewrite (wadd_swap (h_seq h) dP n), (wadd_swap (wadd (h_seq h) n) dP 1).
    rewrite !eqb_shift by (auto with tinv; apply Hi).
    destruct (_ || _); [|exact Hsame]. cbv zeta.
    rewrite (G_set_rcv_nxt dO dP g t _ (wadd (wadd (h_seq h) n) 1)).
    rewrite ack_hdr_G by reflexivity. rewrite enqueue_G.
    eexists. split; [reflexivity|].
    rewrite enqueue_st, enqueue_snd_nxt, enqueue_snd_una.
    split; [|split; [reflexivity | split; reflexivity]].
    apply RV_enqueue. intros _. split; [exact Ei | reflexivity]. }
  destruct H1 as (g1 & -> & Hv1 & Est & En1 & Eu1). clearbody t1. tcb_cbn.
  assert (Hfa : is_fin_acked (G g1 t1) = is_fin_acked t1).
  { apply is_fin_acked_G; [rewrite En1 | rewrite Eu1]; apply Hi. }
  destruct (st t1) eqn:Hst1; try (apply trel_intro; exact Hv1);
    try rewrite Hfa; try destruct (is_fin_acked t1);
    (apply (trel_intro_eq g1); [reflexivity|]; intros _; apply Hv1; rewrite Hst1; reflexivity).
Qed.

(* ---- process_segment ---- *)
Definition pp_rel (p p' : tcb * psr) : Prop := TR (fst p) (fst p') /\ psr_rel (snd p) (snd p').

Lemma process_segment_rel t t' s : TR t t' -> tinv t -> sok s ->
  rrel pp_rel (process_segment t s) (process_segment t' (SI s)).
Proof.
  intros HR Hi Hs. unfold process_segment. tcb_cbn.
  pose proof Hs as (Hq & Ha & Hw).
  (* stage 1 *)
  assert (E1 :
    match st t' with
    | SynSent => false
    | _ => negb (is_seq_ok t' (zlen (s_text s)) (wadd (h_seq (s_hdr s)) dP)
                   (c_syn (h_ctl (s_hdr s))) (c_fin (h_ctl (s_hdr s))))
    end =
    match st t with
    | SynSent => false
    | _ => negb (is_seq_ok t (zlen (s_text s)) (h_seq (s_hdr s))
                   (c_syn (h_ctl (s_hdr s))) (c_fin (h_ctl (s_hdr s))))
    end).
  { destruct HR as (g & -> & Hv). tcb_cbn.
    destruct (st t) eqn:Hst; try reflexivity;
      (destruct (Hv ltac:(rewrite Hst; reflexivity)) as [Ei En]; rewrite is_seq_ok_G by (try assumption; apply Hi); reflexivity). }
  rewrite E1. clear E1.
  match goal with |- rrel _ (if ?c then _ else _) _ => destruct c eqn:Ebad end.
  { cbn [rrel]. destruct HR as (g & -> & Hv).
    assert (Hst : is_synsent (st t) = false) by (destruct (st t); try reflexivity; discriminate).
    destruct (Hv Hst) as [Ei En]. rewrite ack_hdr_G by exact En. rewrite enqueue_G.
    split; cbn [fst snd]; [apply trel_intro; apply RV_enqueue; exact Hv | left; reflexivity]. }
  (* stage 2 *)
  destruct (ps_ack_rel t t' (s_hdr s) HR Hi Hs) as [A2 B2].
  pose proof (tinv_ps_ack t (s_hdr s) Hi Hs) as Hi2.
  destruct (ps_ack t (s_hdr s)) as [t2 r2]. destruct (ps_ack t' (HI (s_hdr s))) as [t2' r2'].
  cbn [fst snd] in A2, B2, Hi2. subst r2'.
  destruct r2 as [r|]; [cbn [rrel]; split; cbn [fst snd]; [exact A2 | left; reflexivity]|].
  (* stage 3 *)
  pose proof (ps_rst_rel t2 t2' (s_hdr s) A2) as A3.
  destruct (ps_rst t2 (s_hdr s)) as [r3|]; destruct (ps_rst t2' (HI (s_hdr s))) as [r3'|];
    cbn [opsr_rel] in A3; try contradiction.
  { cbn [rrel]. split; cbn [fst snd]; assumption. }
  (* stage 4 *)
  destruct (ps_syn_rel t2 t2' (s_hdr s) A2 Hi2 Hs) as [A4 B4].
  pose proof (tinv_ps_syn t2 (s_hdr s) Hi2 Hs) as Hi4.
  destruct (ps_syn t2 (s_hdr s)) as [t4 r4]. destruct (ps_syn t2' (HI (s_hdr s))) as [t4' r4'].
  cbn [fst snd] in A4, B4, Hi4. subst r4'.
  destruct r4 as [r|]; [cbn [rrel]; split; cbn [fst snd]; [exact A4 | left; reflexivity]|].
  assert (Est : st t4' = st t4) by (destruct A4 as (g4 & -> & _); reflexivity).
  rewrite Est.
  destruct (state_eqb (st t4) SynSent) eqn:E5.
  { cbn [rrel]. split; cbn [fst snd]; [exact A4 | left; reflexivity]. }
  assert (Hst4 : is_synsent (st t4) = false) by (destruct (st t4); try reflexivity; discriminate).
  (* stage 6 *)
  pose proof (ps_text_rel t4 t4' (s_hdr s) (s_text s) A4 Hi4 Hq Hst4) as A6.
  pose proof (tinv_ps_text t4 (s_hdr s) (s_text s)) as Hi6.
  destruct (ps_text t4 (s_hdr s) (s_text s)) as [t6| | |];
    destruct (ps_text t4' (HI (s_hdr s)) (s_text s)) as [t6'| | |]; cbn [rrel] in A6 |- *; try contradiction; auto.
  split; cbn [fst snd]; [|left; reflexivity].
  apply ps_fin_rel; auto.
Qed.

(* ---- segment_arrives ---- *)
Definition pa_rel (p p' : tcb * arrives_result) : Prop := TR (fst p) (fst p') /\ snd p' = snd p.

Lemma Forall_sok_squ32 l : Forall sok l -> Forall squ32 l.
Proof. apply Forall_impl. intros a Ha. apply Ha. Qed.

Lemma arrives_loop_rel fuel : forall t t', TR t t' -> tinv t ->
  rrel pa_rel (arrives_loop fuel t) (arrives_loop fuel t').
Proof.
  induction fuel as [|f IH]; intros t t' HR Hi; cbn [arrives_loop]; [exact I|].
  pose proof HR as (g & -> & Hv). tcb_cbn.
  rewrite heap_peek_sh.
  destruct (heap_peek (in_segs t)) as [top|] eqn:Etop; cbn [option_map].
  2:{ cbn [rrel]. split; [exact HR | reflexivity]. }
  assert (Hseg : Forall sok (in_segs t)) by apply Hi.
  assert (Htop : sok top).
  { destruct (in_segs t); [discriminate|]. injection Etop as <-. inversion Hseg; assumption. }
  assert (Ec : negb (state_eqb (st t) SynSent) && mod_gt (h_seq (s_hdr (SI top))) (g_nxt g) =
               negb (state_eqb (st t) SynSent) && mod_gt (h_seq (s_hdr top)) (rcv_nxt t)).
  { destruct (st t) eqn:Hst; cbn [state_eqb negb andb]; try reflexivity;
      (destruct (Hv ltac:(rewrite Hst; reflexivity)) as [Ei En]; rewrite En; tcb_cbn; apply mod_gt_shift). }
  rewrite Ec. clear Ec.
  destruct (_ && _). { cbn [rrel]. split; [exact HR | reflexivity]. }
  rewrite heap_pop_sh by (apply Forall_sok_squ32; exact Hseg).
  destruct (heap_pop (in_segs t)) as [[s rest]|] eqn:Ep; cbn [opt_pop_sh]; [|reflexivity].
  destruct (heap_pop_Forall sok _ _ _ Hseg Ep) as [Hs Hrest].
  rewrite G_set_in_segs.
  assert (HR1 : TR (set_in_segs t rest) (G g (set_in_segs t rest))).
  { apply trel_intro. revert Hv. apply RV_eq; reflexivity. }
  assert (Hi1 : tinv (set_in_segs t rest)) by (apply tinv_set_in_segs; assumption).
  pose proof (process_segment_rel _ _ s HR1 Hi1 Hs) as A.
  pose proof (tinv_process_segment (set_in_segs t rest) s) as Hi2.
  destruct (process_segment (set_in_segs t rest) s) as [[t2 r2]| | |];
    destruct (process_segment (G g (set_in_segs t rest)) (SI s)) as [[t2' r2']| | |];
    cbn [rrel] in A |- *; try contradiction; auto.
  destruct A as [A B]. cbn [fst snd] in A, B.
  rewrite (psr_rel_delete _ _ B).
  destruct (should_delete r2).
  - cbn [rrel]. split; [exact A | reflexivity].
  - apply IH; [exact A|]. eapply Hi2; [exact Hi1 | exact Hs | reflexivity].
Qed.

Lemma segment_arrives_rel t t' s : TR t t' -> tinv t -> sok s ->
  rrel pa_rel (segment_arrives t s) (segment_arrives t' (SI s)).
Proof.
  intros (g & -> & Hv) Hi Hs. unfold segment_arrives. tcb_cbn.
  assert (Hseg : Forall sok (in_segs t)) by apply Hi.
  rewrite heap_push_sh by (try (apply Forall_sok_squ32; exact Hseg); apply Hs).
  rewrite map_length. rewrite G_set_in_segs.
  apply arrives_loop_rel.
  - apply trel_intro. revert Hv. apply RV_eq; reflexivity.
  - apply tinv_set_in_segs; [exact Hi|]. apply heap_push_Forall; assumption.
Qed.

(* ---- open ---- *)
Lemma tcb_open_rel lp rp iss m : TR (tcb_open lp rp iss m) (tcb_open lp rp (wadd iss dO) m).
Proof.
  unfold tcb_open.
  set (t := mkTcb lp rp m false SynSent iss (wadd iss 1) 0 0 0 iss 0 0 DEFAULT_WND [] [] [] false [] [] RTO None).
  rewrite (wadd_swap iss dO 1).
  change (mkTcb lp rp m false SynSent (wadd iss dO) (wadd (wadd iss 1) dO) 0 0 0 (wadd iss dO) 0 0 DEFAULT_WND
                [] [] [] false [] [] RTO None) with (G (mkG 0 0 0 0) t).
  change (hb_wnd (hb_syn (hb (G (mkG 0 0 0 0) t) (wadd iss dO))) DEFAULT_WND)
    with (HO (hb_wnd (hb_syn (hb t iss)) DEFAULT_WND)).
  rewrite enqueue_G. apply trel_intro. apply RV_enqueue. intros H. discriminate H.
Qed.

(* ---- listen ---- *)
Definition lrel (r r' : listen_result) : Prop :=
  match r, r' with
  | LNone, LNone => True
  | LResponse h, LResponse h' => h' = HO h
  | LTcb t, LTcb t' => TR t t'
  | _, _ => False
  end.

Lemma arrives_listen_rel s iss m : sok s ->
  lrel (arrives_listen s iss m) (arrives_listen (SI s) (wadd iss dO) m).
Proof.
  intros (Hq & Ha & Hw). unfold arrives_listen. tcb_cbn.
  destruct (c_rst (h_ctl (s_hdr s))); [exact I|].
  destruct (c_ack (h_ctl (s_hdr s))) eqn:Hack; [reflexivity|].
  destruct (c_syn (h_ctl (s_hdr s))); [|exact I]. cbn [lrel].
  rewrite (wadd_swap iss dO 1), (wadd_swap (h_seq (s_hdr s)) dP 1).
  set (h := s_hdr s) in *.
  set (t := mkTcb (h_dport h) (h_sport h) m true SynReceived iss (wadd iss 1) (h_wnd h) (h_seq h) (h_ack h) iss
                  (h_seq h) (wadd (h_seq h) 1) DEFAULT_WND [] [] [] false [] [] RTO None).
  set (g := mkG (wadd (h_seq h) dP) (h_ack h) (wadd (h_seq h) dP) (wadd (wadd (h_seq h) 1) dP)).
  change (mkTcb (h_dport h) (h_sport h) m true SynReceived (wadd iss dO) (wadd (wadd iss 1) dO) (h_wnd h)
                (wadd (h_seq h) dP) (h_ack h) (wadd iss dO) (wadd (h_seq h) dP) (wadd (wadd (h_seq h) 1) dP)
                DEFAULT_WND [] [] [] false [] [] RTO None) with (G g t).
  change (hb_wnd (hb_ack (hb_syn (hb (G g t) (wadd iss dO))) (wadd (wadd (h_seq h) 1) dP)) DEFAULT_WND)
    with (HO (hb_wnd (hb_ack (hb_syn (hb t iss)) (wadd (h_seq h) 1)) DEFAULT_WND)).
  rewrite enqueue_G.
  set (t1 := enqueue t _).
  assert (Ein : in_segs t1 = []) by (subst t1; rewrite enqueue_in_segs; reflexivity).
  change (in_segs (G g t1)) with (map SI (in_segs t1)).
  match goal with |- TR (set_in_segs _ (heap_push _ ?x)) (set_in_segs _ (heap_push _ ?x')) => change x' with (SI x) end.
  rewrite heap_push_sh; [| rewrite Ein; constructor | exact Hq].
  rewrite G_set_in_segs. apply trel_intro.
  intros _. subst t1. unfold enqueue. destruct (_ || _); (split; [split|]); reflexivity.
Qed.

(* ---- user calls ---- *)
Lemma tcb_send_rel t t' b : TR t t' -> TR (tcb_send t b) (tcb_send t' b).
Proof.
  intros (g & -> & Hv). unfold tcb_send. tcb_cbn.
  destruct (accepts_send (st t)); (apply (trel_intro_eq g); [reflexivity|]); [|exact Hv].
  revert Hv. apply RV_eq; reflexivity.
Qed.

Lemma tcb_receive_rel t t' : TR t t' ->
  TR (fst (tcb_receive t)) (fst (tcb_receive t')) /\ snd (tcb_receive t') = snd (tcb_receive t).
Proof.
  intros (g & -> & Hv). unfold tcb_receive. cbn [fst snd]. split; [|reflexivity].
  apply (trel_intro_eq g); [reflexivity|]. revert Hv. apply RV_eq; reflexivity.
Qed.

Lemma queue_pending_fin_rel t t' : TR t t' -> tinv t -> TR (queue_pending_fin t) (queue_pending_fin t').
Proof.
  intros (g & -> & Hv) Hi. unfold queue_pending_fin. tcb_cbn.
  destruct (fin_pending t) eqn:Hf; cbn [andb]; [|apply trel_intro; exact Hv].
  destruct (out_text t); [|apply trel_intro; exact Hv].
  assert (Hst : is_synsent (st t) = false).
  { destruct (is_synsent (st t)) eqn:E; [|reflexivity].
    pose proof (i_swnd _ Hi) as H. rewrite E in H. destruct H as [_ H]. congruence. }
  destruct (Hv Hst) as [Ei En]. cbv zeta.
  change (set_fin_pending (G g t) false) with (G g (set_fin_pending t false)).
  set (t1 := set_fin_pending t false).
  assert (Hv1 : RV g t1) by (revert Hv; apply RV_eq; reflexivity).
  assert (En1 : g_nxt g = wadd (rcv_nxt t1) dP) by exact En.
  try (change (rcv_nxt (G g t1)) with (g_nxt g)). rewrite ?En1.
  match goal with |- TR (set_snd_nxt (enqueue _ ?hh) _) (set_snd_nxt (enqueue _ ?hh') _) =>
    change hh' with (HO hh) end.
  rewrite enqueue_G.
  match goal with |- context [snd_nxt (G g ?x)] => change (snd_nxt (G g x)) with (wadd (snd_nxt x) dO) end.
  rewrite (wadd_swap _ dO 1).
  rewrite G_set_snd_nxt. apply (trel_intro_eq g); [reflexivity|].
  apply (RV_eq g g t1); auto using enqueue_st, enqueue_rcv_irs, enqueue_rcv_nxt, enqueue_snd_wl1.
Qed.

Lemma tcb_close_rel t t' : TR t t' -> tinv t ->
  TR (fst (tcb_close t)) (fst (tcb_close t')) /\ snd (tcb_close t') = snd (tcb_close t).
Proof.
  intros HR Hi. pose proof HR as (g & -> & Hv). unfold tcb_close. tcb_cbn.
  destruct (st t) eqn:Hst; cbn [fst snd]; (split; [|reflexivity]); try exact HR;
  (apply queue_pending_fin_rel;
   [ apply (trel_intro_eq g); [reflexivity|]; intros _; apply Hv; rewrite Hst; reflexivity
   | apply tinv_set_st; [apply tinv_set_fin_pending; [exact Hi | rewrite Hst; reflexivity]
                        | tcb_cbn; rewrite Hst; reflexivity] ]).
Qed.

(* ---- timers ---- *)
Lemma advance_time_rel t t' dt : TR t t' ->
  TR (fst (advance_time t dt)) (fst (advance_time t' dt)) /\ snd (advance_time t' dt) = snd (advance_time t dt).
Proof.
  intros (g & -> & Hv). unfold advance_time. tcb_cbn.
  set (t1 := if rto t <? dt then _ else _).
  set (t1' := if rto t <? dt then _ else _).
  assert (H1 : t1' = G g t1 /\ RV g t1).
  { subst t1 t1'. destruct (rto t <? dt).
    - split; [|revert Hv; apply RV_eq; reflexivity].
      rewrite G_set_rto. rewrite <- G_set_retx. f_equal. rewrite !map_map. reflexivity.
    - split; [reflexivity | revert Hv; apply RV_eq; reflexivity]. }
  destruct H1 as [-> Hv1]. clearbody t1. tcb_cbn.
  destruct (time_wait t1) as [tw|]; [|cbn [fst snd]; split; [apply trel_intro; exact Hv1 | reflexivity]].
  destruct (tw <? dt); cbn [fst snd]; (split; [|reflexivity]); (apply (trel_intro_eq g); [reflexivity|]); [exact Hv1|].
  revert Hv1. apply RV_eq; reflexivity.
Qed.

(* ---- segments() ---- *)
Lemma seg_loop_rel fuel : forall t t' mss rem, TR t t' -> tinv t -> 0 <= mss -> 0 <= rem ->
  rrel TR (seg_loop fuel t mss rem) (seg_loop fuel t' mss rem).
Proof.
  induction fuel as [|f IH]; intros t t' mss rem HR Hi Hmss Hrem; cbn [seg_loop]; [exact I|]. cbv zeta.
  pose proof HR as (g & -> & Hv). tcb_cbn. rewrite wsub_shift.
  set (bytes := Z.min (Z.min mss (Z.max 0 (snd_wnd t - wsub (snd_nxt t) (snd_una t)))) rem).
  destruct (bytes =? 0) eqn:Eb; [cbn [rrel]; exact HR|].
  destruct (65535 <? bytes + 20); [reflexivity|].
  assert (Hst : is_synsent (st t) = false).
  { destruct (is_synsent (st t)) eqn:E; [|reflexivity]. exfalso.
    pose proof (i_swnd _ Hi) as H. rewrite E in H. destruct H as [H _].
    pose proof (wsub_u32 (snd_nxt t) (snd_una t)) as Hu. unfold u32 in Hu.
    subst bytes. rewrite H in Eb. lia. }
  destruct (Hv Hst) as [Ei En]. rewrite En.
  rewrite (wadd_swap (snd_nxt t) dO bytes).
  apply IH; [| | exact Hmss | subst bytes; lia].
  - apply (trel_intro_eq g).
    + unfold gsh. tcb_cbn. rewrite map_app. reflexivity.
    + revert Hv. apply RV_eq; reflexivity.
  - apply tinv_set_retx.
    + apply tinv_set_snd_nxt; [apply tinv_set_out_text; exact Hi | apply wadd_u32].
    + tcb_cbn. apply Forall_app. split; [apply Hi|]. constructor; [|constructor].
      destruct Hi. hok_tac.
Qed.

Definition ps_rel (p p' : tcb * list segment) : Prop := TR (fst p) (fst p') /\ snd p' = map SO (snd p).

Lemma tcb_segments_rel t t' : TR t t' -> tinv t -> rrel ps_rel (tcb_segments t) (tcb_segments t').
Proof.
  intros (g & -> & Hv) Hi. unfold tcb_segments.
  change (oneshot (G g t)) with (map HO (oneshot t)).
  change (set_oneshot (G g t) []) with (G g (set_oneshot t [])).
  set (t0 := set_oneshot t []).
  assert (Hv0 : RV g t0) by (revert Hv; apply RV_eq; reflexivity).
  assert (Hi0 : tinv t0) by (apply tinv_set_oneshot; [exact Hi | constructor]).
  assert (E0 : map (fun h => mkSeg h []) (map HO (oneshot t)) = map SO (map (fun h => mkSeg h []) (oneshot t))).
  { rewrite !map_map. reflexivity. }
  rewrite E0. clear E0. set (out0 := map (fun h => mkSeg h []) (oneshot t)).
  clearbody t0 out0.
  change (st (G g t0)) with (st t0). change (mtu (G g t0)) with (mtu t0).
  change (out_text (G g t0)) with (out_text t0).
  match goal with |- rrel _ (match ?a with Ok _ => _ | _ => _ end) (match ?b with Ok _ => _ | _ => _ end) =>
    set (r1 := a); set (r1' := b) end.
  assert (Hr : rrel TR r1 r1' /\ forall t1, r1 = Ok t1 -> tinv t1).
  { subst r1 r1'. destruct (segmentizes (st t0)); [|split; [apply trel_intro; exact Hv0 | intros ? [= <-]; exact Hi0]].
    destruct (mtu t0 <? SPACE_FOR_HEADERS) eqn:Emtu; [split; [reflexivity | discriminate]|].
    pose proof (seg_loop_rel (S (length (out_text t0))) t0 (G g t0) (mtu t0 - SPACE_FOR_HEADERS)
                  (zlen (out_text t0)) (trel_intro g t0 Hv0) Hi0 ltac:(lia) ltac:(unfold zlen; lia)) as A.
    pose proof (tinv_seg_loop (S (length (out_text t0))) t0 (mtu t0 - SPACE_FOR_HEADERS) (zlen (out_text t0))) as B.
    destruct (seg_loop _ t0 _ _) as [t1| | |]; destruct (seg_loop _ (G g t0) _ _) as [t1'| | |];
      cbn [rrel] in A |- *; try contradiction; (split; [auto | try discriminate]).
    - apply queue_pending_fin_rel; [exact A | apply (B t1); auto].
    - intros ? [= <-]. apply tinv_queue_pending_fin. apply (B t1); auto. }
  destruct Hr as [Hr Hir]. clearbody r1 r1'.
  destruct r1 as [t1| | |]; destruct r1' as [t1'| | |]; cbn [rrel] in Hr |- *; try contradiction; auto.
  destruct Hr as (g1 & -> & Hv1). tcb_cbn.
  assert (E1 : map t_seg (filter t_needs (map (sh_tx dO dP) (retx t1))) = map SO (map t_seg (filter t_needs (retx t1)))).
  { rewrite (filter_map_comm (sh_tx dO dP) t_needs t_needs) by reflexivity. rewrite !map_map. reflexivity. }
  rewrite E1. clear E1. rewrite <- map_app.
  set (out := out0 ++ map t_seg (filter t_needs (retx t1))).
  assert (E2 : map (fun tx => mkTx (t_seg tx) false) (map (sh_tx dO dP) (retx t1)) =
               map (sh_tx dO dP) (map (fun tx => mkTx (t_seg tx) false) (retx t1))).
  { rewrite !map_map. reflexivity. }
  rewrite E2. clear E2. rewrite G_set_retx.
  split; cbn [fst snd]; [|reflexivity].
  destruct (map t_seg (filter t_needs (retx t1))); cbn [map]; (apply (trel_intro_eq g1); [reflexivity|]); revert Hv1; apply RV_eq; reflexivity.
Qed.

End Ops.
