(* Specifications of the circular comparison primitives. *)
From Elvis Require Import Model.Base Model.U32.
From Coq Require Import ZifyBool.
Local Open Scope Z_scope.
Ltac Zify.zify_post_hook ::= Z.div_mod_to_equations.

Lemma wrap_spec x : wrap x = x mod M32.
Proof.
  unfold wrap, M32.
  repeat match goal with
         | |- context [if ?c then _ else _] => destruct c eqn:?; [lia|]
         end.
  reflexivity.
Qed.
Lemma wadd_spec a b : wadd a b = (a + b) mod M32.
Proof. apply wrap_spec. Qed.
Lemma wsub_spec a b : wsub a b = (a - b) mod M32.
Proof. apply wrap_spec. Qed.

Ltac u32_unfold :=
  unfold mod_geq, mod_gt, mod_leq, mod_lt, mod_bounded in *;
  rewrite ?wadd_spec, ?wsub_spec in *;
  unfold cmp_offset, u32, M32, H31 in *.

(* mod_lt is the mathematical circular order for pairs less than 2^31 apart *)
Lemma mod_lt_spec a d : u32 a -> 0 < d < H31 ->
  mod_lt a (wadd a d) = true /\ mod_lt (wadd a d) a = false.
Proof. u32_unfold. intros Ha Hd. split; lia. Qed.

Lemma mod_lt_irrefl a : mod_lt a a = false.
Proof. u32_unfold. rewrite Z.sub_diag. reflexivity. Qed.

(* exactly 2^31 apart: neither is before the other (stated, not hidden) *)
Lemma mod_lt_antipode a : u32 a ->
  mod_lt a (wadd a H31) = false /\ mod_lt (wadd a H31) a = false.
Proof. u32_unfold. intros Ha. split; lia. Qed.

Lemma mod_lt_asym a b : u32 a -> u32 b -> mod_lt a b = true -> mod_lt b a = false.
Proof. u32_unfold. intros Ha Hb. lia. Qed.

(* trichotomy away from the antipode *)
Lemma mod_lt_total a b : u32 a -> u32 b -> a <> b -> wsub b a <> H31 ->
  mod_lt a b = true \/ mod_lt b a = true.
Proof. u32_unfold. intros Ha Hb Hn Hh. lia. Qed.

Lemma mod_leq_spec a b : mod_leq a b = ((a =? b) || mod_lt a b).
Proof. reflexivity. Qed.
Lemma mod_geq_spec a b : mod_geq a b = ((a =? b) || mod_lt b a).
Proof. reflexivity. Qed.
Lemma mod_gt_spec a b : mod_gt a b = mod_lt b a.
Proof. reflexivity. Qed.

(* non-strict order agrees with the circular order for every distance < 2^31 *)
Lemma mod_leq_dist a d : u32 a -> 0 <= d < H31 ->
  mod_leq a (wadd a d) = true /\ mod_geq (wadd a d) a = true.
Proof.
  intros Ha Hd. unfold mod_leq, mod_geq.
  destruct (Z.eq_dec d 0) as [->|Hn].
  - replace (wadd a 0) with a by (u32_unfold; lia). rewrite Z.eqb_refl. auto.
  - destruct (mod_lt_spec a d Ha ltac:(lia)) as [H1 _]. rewrite H1, !orb_true_r. auto.
Qed.
Lemma mod_leq_dist_neg a d : u32 a -> 0 < d < H31 ->
  mod_leq (wadd a d) a = false /\ mod_geq a (wadd a d) = false.
Proof.
  intros Ha Hd. unfold mod_leq, mod_geq.
  destruct (mod_lt_spec a d Ha Hd) as [_ H2]. rewrite H2.
  assert (E: (wadd a d =? a) = false) by (u32_unfold; lia).
  rewrite E. rewrite Z.eqb_sym in E. rewrite E. auto.
Qed.

(* strict / non-strict consistency *)
Lemma mod_leq_geq_swap a b : mod_leq a b = mod_geq b a.
Proof. unfold mod_leq, mod_geq. rewrite (Z.eqb_sym b a). reflexivity. Qed.
Lemma mod_lt_leq a b : mod_lt a b = true -> mod_leq a b = true.
Proof. unfold mod_leq. intros ->. apply orb_true_r. Qed.
Lemma mod_leq_not_gt a b : u32 a -> u32 b -> mod_leq a b = true -> mod_gt a b = false.
Proof. unfold mod_leq, mod_gt. u32_unfold. intros Ha Hb H. lia. Qed.

(* The pre-fix formulas: equal to the fixed ones except exactly 2^31-1 apart,
   where they contradict the strict order (the defect repaired by the fix). *)
Lemma mod_leq_orig_agrees a b : u32 a -> u32 b -> wsub b a <> H31 - 1 ->
  mod_leq_orig a b = mod_leq a b.
Proof.
  unfold mod_leq_orig, mod_leq. u32_unfold. intros Ha Hb Hd.
  destruct (a =? b) eqn:E; cbn [orb].
  - lia.
  - destruct (2147483648 <? (a - b) mod 4294967296) eqn:E1; lia.
Qed.
Lemma mod_leq_orig_differs a : u32 a ->
  mod_lt a (wadd a (H31 - 1)) = true /\ mod_leq_orig a (wadd a (H31 - 1)) = false.
Proof. unfold mod_leq_orig. u32_unfold. intros Ha. split; lia. Qed.
Lemma mod_geq_orig_agrees a b : u32 a -> u32 b -> wsub a b <> H31 - 1 ->
  mod_geq_orig a b = mod_geq a b.
Proof.
  unfold mod_geq_orig, mod_geq. u32_unfold. intros Ha Hb Hd.
  destruct (a =? b) eqn:E; cbn [orb].
  - lia.
  - destruct (2147483648 <? (b - a) mod 4294967296) eqn:E1; lia.
Qed.

(* shift invariance: the ISN-independence of every comparison *)
Lemma mod_lt_shift a b d : mod_lt (wadd a d) (wadd b d) = mod_lt a b.
Proof. u32_unfold. f_equal. lia. Qed.

Lemma eqb_shift a b d : u32 a -> u32 b -> (wadd a d =? wadd b d) = (a =? b).
Proof. u32_unfold. intros Ha Hb. lia. Qed.
Lemma mod_leq_shift a b d : u32 a -> u32 b -> mod_leq (wadd a d) (wadd b d) = mod_leq a b.
Proof. intros. unfold mod_leq. rewrite eqb_shift, mod_lt_shift by assumption. reflexivity. Qed.
Lemma mod_geq_shift a b d : u32 a -> u32 b -> mod_geq (wadd a d) (wadd b d) = mod_geq a b.
Proof. intros. unfold mod_geq. rewrite eqb_shift, mod_lt_shift by assumption. reflexivity. Qed.

(* mod_bounded is cyclic betweenness: b lies on the clockwise arc from a to c.
   off = distance from the (adjusted) lower bound to b, len = arc length. *)
Definition on_arc (a : Z) (ab : modcmp) (b : Z) (bc : modcmp) (c : Z) : bool :=
  let a' := wsub a (cmp_offset ab) in
  let c' := wadd c (cmp_offset bc) in
  (0 <? wsub b a') && (wsub b a' <? wsub c' a').

Lemma mod_bounded_spec a ab b bc c : u32 a -> u32 b -> u32 c ->
  mod_bounded a ab b bc c = on_arc a ab b bc c.
Proof.
  unfold on_arc. u32_unfold. intros Ha Hb Hc.
  destruct ab, bc; cbn [cmp_offset];
  match goal with |- ?L = ?R => destruct L eqn:EL; destruct R eqn:ER; try reflexivity; exfalso; lia end.
Qed.

Lemma on_arc_shift a ab b bc c d :
  on_arc (wadd a d) ab (wadd b d) bc (wadd c d) = on_arc a ab b bc c.
Proof.
  unfold on_arc. u32_unfold.
  replace ((((b + d) mod 4294967296) - (((a + d) mod 4294967296 - match ab with CLt => 0 | CLeq => 1 end) mod 4294967296)) mod 4294967296)
    with ((b - (a - match ab with CLt => 0 | CLeq => 1 end) mod 4294967296) mod 4294967296) by (destruct ab; lia).
  replace (((((c + d) mod 4294967296 + match bc with CLt => 0 | CLeq => 1 end) mod 4294967296) - (((a + d) mod 4294967296 - match ab with CLt => 0 | CLeq => 1 end) mod 4294967296)) mod 4294967296)
    with ((((c + match bc with CLt => 0 | CLeq => 1 end) mod 4294967296) - (a - match ab with CLt => 0 | CLeq => 1 end) mod 4294967296) mod 4294967296) by (destruct ab, bc; lia).
  reflexivity.
Qed.

Lemma wadd_u32 a b : u32 (wadd a b).
Proof. u32_unfold. lia. Qed.
Lemma wsub_u32 a b : u32 (wsub a b).
Proof. u32_unfold. lia. Qed.

Lemma mod_bounded_shift a ab b bc c d : u32 a -> u32 b -> u32 c ->
  mod_bounded (wadd a d) ab (wadd b d) bc (wadd c d) = mod_bounded a ab b bc c.
Proof.
  intros Ha Hb Hc.
  rewrite !mod_bounded_spec by (try assumption; apply wadd_u32).
  apply on_arc_shift.
Qed.

(* the readable form for arcs shorter than 2^31 that do not degenerate *)
Lemma mod_bounded_arc a ab b bc c : u32 a -> u32 b -> u32 c ->
  0 < wsub c a < H31 ->
  mod_bounded a ab b bc c =
    ((match ab with CLt => 0 <? wsub b a | CLeq => true end) &&
     (match bc with CLt => wsub b a <? wsub c a | CLeq => wsub b a <=? wsub c a end)).
Proof.
  intros Ha Hb Hc Hlen. rewrite mod_bounded_spec by assumption.
  unfold on_arc. u32_unfold.
  destruct ab, bc; cbn [cmp_offset];
  match goal with |- ?L = ?R => destruct L eqn:EL; destruct R eqn:ER; try reflexivity; exfalso; lia end.
Qed.
