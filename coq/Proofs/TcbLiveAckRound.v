(* C01 liveness: a flight is delivered completely and read, but every ACK of that round is lost.
   Two loss-free rounds repair it: the sender's timer fires and the flight is retransmitted, the
   receiver treats all of it as old data (nothing is delivered twice) and answers with duplicate
   ACKs, the first of which empties the sender's queue. *)
From Elvis Require Import Model.Base Model.U32 Model.Tcb Model.TcpNet
  Proofs.U32Facts Proofs.TcbSafetyDefs Proofs.TcbSafetyBase Proofs.TcbSafetySnd Proofs.TcbSafetyRcv
  Proofs.TcbSafetySys Proofs.TcbLive Proofs.TcbLiveSys Proofs.TcbLiveThm
  Proofs.TcbLiveWin Proofs.TcbLiveWinSys Proofs.TcbLiveWinThm Proofs.TcbLiveWinRound
  Proofs.TcbLiveLoss Proofs.TcbLiveLossThm Proofs.TcbLiveLossRound Proofs.TcbLiveAck Proofs.TcbLiveAckThm.
From Coq Require Import ZifyBool.
Local Open Scope Z_scope.
Ltac Zify.zify_post_hook ::= Z.div_mod_to_equations.

(* x has the flight segs outstanding; the peer has received and read all of it; no ACK survived *)
Definition Unacked (c : config) (x : side) (s : sys) (p q R lp rp : Z) (segs : list segment) : Prop :=
  exists tx ty, end_of s x = ELive tx /\ end_of s (other x) = ELive ty /\
    sending tx p R q segs [] /\ flight lp rp q p segs /\ segs <> [] /\
    quiet ty q R /\ mtu tx = mtu_of c x /\ mtu ty = mtu_of c (other x) /\
    net_of s x = [] /\ net_of s (other x) = [] /\ panicked s = false.

Lemma set_net_same s y : net_of s y = [] -> set_net s y [] = s.
Proof. intros H. destruct s, y; cbn in *; subst; reflexivity. Qed.
Lemma set_net_twice s y n m : set_net (set_net s y n) y m = set_net s y m.
Proof. destruct s, y; reflexivity. Qed.

Lemma forall2_len {A B} (P : A -> B -> Prop) l m : Forall2 P l m -> length l = length m.
Proof. induction 1; cbn [length]; congruence. Qed.

Section AckRound.
  Variable c : config.

  Lemma arrive_panicked s r seg : panicked s = true -> panicked (fst (arrive c s r seg)) = true.
  Proof.
    intros H. unfold arrive, final_read.
    repeat match goal with |- context [match ?e with _ => _ end] => destruct e end;
      destruct s, r; cbn in *; auto.
  Qed.

  Lemma deliver_all_panicked : forall f s x, panicked s = true -> panicked (deliver_all f c s x) = true.
  Proof.
    induction f as [|f IH]; intros s x H; cbn [deliver_all]; [exact H|].
    destruct (net_of s x) as [|seg rest] eqn:En; [exact H|].
    apply IH, arrive_panicked. now sysr.
  Qed.

  (* in-order delivery of the whole network, one label at a time *)
  Lemma run_delivers : forall k s x, panicked (deliver_all k c s x) = false ->
    run c s (repeat (LDeliver x 0) k) = deliver_all k c s x.
  Proof.
    induction k as [|k IH]; intros s x H; [reflexivity|].
    assert (Pn : panicked s = false).
    { destruct (panicked s) eqn:E; [|reflexivity]. rewrite deliver_all_panicked in H; [discriminate|exact E]. }
    cbn [repeat]. change (run c s (LDeliver x 0 :: repeat (LDeliver x 0) k))
      with (run c (fst (sys_step c s (LDeliver x 0))) (repeat (LDeliver x 0) k)).
    cbn [deliver_all] in *. unfold sys_step. rewrite Pn.
    destruct (net_of s x) as [|seg rest] eqn:En.
    - cbn [fst]. rewrite IH; [apply deliver_all_nil; exact En|].
      rewrite deliver_all_nil by exact En. exact Pn.
    - rewrite Nat.mod_0_l by (cbn [length]; lia). cbn [nth_error remove_nth].
      apply IH. exact H.
  Qed.

  (* the whole network is dropped, one label at a time *)
  Lemma run_drops0 y : forall n s, panicked s = false -> net_of s y = n ->
    run c s (repeat (LDrop y 0) (length n)) = set_net s y [].
  Proof.
    induction n as [|e n IH]; intros s Pn Hn.
    - cbn [length repeat]. symmetry. now apply set_net_same.
    - cbn [length repeat]. change (run c s (LDrop y 0 :: repeat (LDrop y 0) (length n)))
        with (run c (fst (sys_step c s (LDrop y 0))) (repeat (LDrop y 0) (length n))).
      rewrite (ldrop_step c s y 0 (e :: n) Pn Hn ltac:(discriminate)).
      rewrite Nat.mod_0_l by (cbn [length]; lia). cbn [remove_nth].
      rewrite IH; [apply set_net_twice| now sysr | now sysr].
  Qed.

  Lemma lrecv_step s y t : panicked s = false -> end_of s y = ELive t -> in_text t <> [] ->
    fst (sys_step c s (LRecv y)) = set_del (set_end s y (ELive (set_in_text t []))) y (del_of s y ++ [in_text t]).
  Proof. intros Pn El Hi. unfold sys_step. rewrite Pn. now apply recv_eval_data. Qed.

  (* the flight is delivered in order and read; the ACKs are emitted and all dropped *)
  Lemma inflight_unacked s x p q R lp rp segs :
    InFlight c x s p q R lp rp segs [] ->
    let k := length segs in
    let s2 := run c s (repeat (LDeliver x 0) k ++ [LRecv (other x); LEmit (other x)]) in
    let s3 := run c s2 (repeat (LDrop (other x) 0) k) in
    net_of s2 x = [] /\ length (net_of s2 (other x)) = k /\
    Unacked c x s3 p q R lp rp segs /\
    (forall y, sub_of s3 y = sub_of s y) /\ del_of s3 x = del_of s x /\
    del_of s2 (other x) = del_of s (other x) ++ [flight_bytes segs] /\
    del_of s3 (other x) = del_of s (other x) ++ [flight_bytes segs].
  Proof.
    intros (tx & ty & Ex & Ey & HS & F & Hne & Qy & Mx & My & Nx & Ny & Pn) k s2 s3.
    rewrite app_nil_r in HS, F, Hne.
    pose proof Qy as (Q1 & Q2 & Q3 & Q4 & Q5 & Q6 & Q7 & Q8 & Q9 & Q10 & Q11 & Q12 & Q13 & Q14 & Q15 & Q16 & Q17).
    pose proof HS as (A1 & A2 & A3 & A4 & A5 & A6 & A7 & A8 & A9 & A10 & A11 & A12 & A13 & A14 & A15 & A16 & A17 & _ & A19 & A20).
    pose proof (flight_len_pos _ _ _ _ _ F Hne) as Hpos.
    assert (F' : flight lp rp q (rcv_nxt ty) segs) by (rewrite Q4; exact F).
    assert (Hu' : u32 (rcv_nxt ty)) by (rewrite Q4; exact Q16).
    (* delivery *)
    assert (Nx' : net_of s x = segs ++ []) by (now rewrite app_nil_r).
    pose proof (deliver_inorder c x lp rp q segs s ty 0%nat [] Ey Nx' Q1 Q11 Q6 Hu' F'
                  ltac:(rewrite Q2; apply mod_leq_refl) ltac:(rewrite Q12; cbn; lia)) as ED.
    rewrite Nat.add_0_r in ED. cbn [deliver_all] in ED. fold k in ED.
    destruct (recv_flight_facts lp rp q segs ty F' Q6 Hu') as (C1 & R1 & I1 & _ & acks & O1 & FA1).
    pose proof (recv_flight_in_segs lp rp q segs ty F' Q6 Hu' Q11) as S1.
    cbv zeta in *. set (t1 := recv_flight ty segs) in *.
    destruct C1 as (_ & _ & Cm & Cst & Cun & Cnx & Csw & Crw & Cot & Crx & Cfp & Crto & Ctw).
    rewrite Q4 in R1. rewrite Q12 in I1. cbn [app] in I1. rewrite Q9 in O1. cbn [app] in O1.
    set (sD := set_end (set_net s x []) (other x) (ELive t1)) in ED.
    assert (PD : panicked sD = false) by (subst sD; now sysr).
    assert (RD : run c s (repeat (LDeliver x 0) k) = sD).
    { rewrite run_delivers; rewrite ED; [reflexivity|exact PD]. }
    (* the read *)
    assert (Hne1 : in_text t1 <> []).
    { rewrite I1. intros E0. unfold flight_len in Hpos. rewrite E0 in Hpos. cbn in Hpos. lia. }
    assert (EyD : end_of sD (other x) = ELive t1) by (subst sD; now sysr).
    pose proof (lrecv_step sD (other x) t1 PD EyD Hne1) as ER. rewrite I1 in ER.
    set (sR := set_del _ _ _) in ER.
    (* the ACKs *)
    set (t2 := set_in_text t1 []) in *.
    set (mk := fun h : header => mkSeg h []).
    assert (E1 : tcb_segments t2 = Ok (set_retx (set_oneshot t2 []) [], map mk acks)).
    { rewrite segments_nothing_new.
      - subst t2; tcb_simpl. rewrite Crx, Q8, O1. cbn [map filter]. now rewrite app_nil_r.
      - subst t2; tcb_simpl. congruence.
      - subst t2; tcb_simpl. congruence.
      - subst t2; tcb_simpl. rewrite Cst, Q1. reflexivity.
      - subst t2; tcb_simpl. lia. }
    set (t3 := set_retx _ _) in E1.
    assert (PR : panicked sR = false) by (subst sR; now sysr).
    assert (EyR : end_of sR (other x) = ELive t2) by (subst sR; now sysr).
    pose proof (lemit_step c sR (other x) t2 t3 (map mk acks) PR EyR E1) as EE.
    assert (NyR : net_of sR (other x) = []) by (subst sR sD; now sysr).
    rewrite NyR in EE. cbn [app] in EE. set (sE := set_net _ _ _) in EE.
    assert (E2 : s2 = sE).
    { subst s2. rewrite run_app, RD. unfold run. cbn [fold_left]. rewrite ER. exact EE. }
    assert (Hlen : length (map mk acks) = k).
    { rewrite map_length. subst k. symmetry. eapply forall2_len. exact FA1. }
    (* the drops *)
    assert (PE : panicked sE = false) by (subst sE; now sysr).
    assert (NyE : net_of sE (other x) = map mk acks) by (subst sE; now sysr).
    assert (E3 : s3 = set_net sE (other x) []).
    { subst s3. rewrite E2, <- Hlen. apply run_drops0; assumption. }
    rewrite E3, E2. splits.
    - subst sE sR sD. now sysr.
    - now rewrite NyE.
    - exists tx, t3. subst sE sR sD. sysr. splits; auto.
      + unfold quiet. subst t3 t2. tcb_simpl.
        splits; try congruence; try lia.
        * rewrite <- A19. apply wadd_u32.
      + subst t3 t2. tcb_simpl. congruence.
    - intros y. subst sE sR sD. now sysr.
    - subst sE sR sD. now sysr.
    - subst sE sR sD. now sysr.
    - subst sE sR sD. now sysr.
  Qed.

  (* two loss-free rounds repair the loss of the ACKs; nothing is delivered again *)
  Lemma unacked_recover s x p q R lp rp segs :
    Unacked c x s p q R lp rp segs ->
    let s' := fair_rounds 2 c s in
    Quiescent c s' (sel x R q) (sel x q R) /\
    (forall y, sub_of s' y = sub_of s y) /\ (forall y, del_of s' y = del_of s y).
  Proof.
    intros (tx & ty & Ex & Ey & HS & F & Hne & Qy & Mx & My & Nx & Ny & Pn) s'.
    assert (Hmain : exists s3 tx' ty', s' = s3 /\
      end_of s3 x = ELive tx' /\ end_of s3 (other x) = ELive ty' /\
      net_of s3 x = [] /\ net_of s3 (other x) = [] /\ panicked s3 = false /\
      (forall y, sub_of s3 y = sub_of s y) /\ (forall y, del_of s3 y = del_of s y) /\
      quiet tx' R q /\ quiet ty' q R /\ mtu tx' = mtu_of c x /\ mtu ty' = mtu_of c (other x)).
    { subst s'. cbn [fair_rounds]. destruct x; cbn [other] in *.
      - destruct (half_send_again c s SA tx ty p q R lp rp segs Ex Ey Nx Ny Pn HS F Hne Qy)
          as (tx2 & ty2 & E1 & E2 & E3 & E4 & E5 & E6 & E7 & E9 & E10 & E11 & E12).
        set (s2 := fair_half c s SA) in *. cbn [other] in *.
        destruct (half_ack_again c s2 SB ty2 tx2 p q R segs E2 E1 E4 E3 E5 E10 E9 Hne)
          as (ty3 & tx3 & F1 & F2 & F3 & F4 & F5 & F6 & F7 & F8 & F9 & F10 & F11).
        set (s3 := fair_half c s2 SB) in *. cbn [other] in *.
        rewrite (half_idle c s3 SA tx3 ty3 _ _ F2 F9 F4 F1 (quiet_in_text _ _ _ F8)).
        rewrite (half_idle c s3 SB ty3 tx3 _ _ F1 F8 F3 F2 (quiet_in_text _ _ _ F9)).
        exists s3, tx3, ty3. splits; auto.
        + intros y. rewrite F6. apply E6.
        + intros y. rewrite F7. apply E7.
        + congruence.
        + congruence.
      - assert (Hit : in_text tx = []) by apply HS.
        rewrite (half_idle c s SA ty tx _ _ Ey Qy Ny Ex Hit).
        destruct (half_send_again c s SB tx ty p q R lp rp segs Ex Ey Nx Ny Pn HS F Hne Qy)
          as (tx2 & ty2 & E1 & E2 & E3 & E4 & E5 & E6 & E7 & E9 & E10 & E11 & E12).
        set (s2 := fair_half c s SB) in *. cbn [other] in *.
        destruct (half_ack_again c s2 SA ty2 tx2 p q R segs E2 E1 E4 E3 E5 E10 E9 Hne)
          as (ty3 & tx3 & F1 & F2 & F3 & F4 & F5 & F6 & F7 & F8 & F9 & F10 & F11).
        set (s3 := fair_half c s2 SA) in *. cbn [other] in *.
        rewrite (half_idle c s3 SB tx3 ty3 _ _ F2 F9 F4 F1 (quiet_in_text _ _ _ F8)).
        exists s3, tx3, ty3. splits; auto.
        + intros y. rewrite F6. apply E6.
        + intros y. rewrite F7. apply E7.
        + congruence.
        + congruence. }
    destruct Hmain as (s3 & tx' & ty' & -> & G1 & G2 & G3 & G4 & G5 & G6 & G7 & G9 & G10 & G11 & G12).
    split; [eapply quiescent_from; eassumption|]. auto.
  Qed.

  Theorem lost_acks_recovery s a b x bytes :
    Quiescent c s a b -> 0 < zlen bytes <= 65535 ->
    let n := zlen bytes in
    let s1 := run c s [LSend x bytes; LEmit x] in
    let nseg := length (net_of s1 x) in
    let s2 := run c s1 (repeat (LDeliver x 0) nseg ++ [LRecv (other x); LEmit (other x)]) in
    let s' := run c s2 (repeat (LDrop (other x) 0) nseg ++ [LFair 2]) in
    (net_of s2 x = [] /\ length (net_of s2 (other x)) = nseg /\
     delivered s2 (other x) = delivered s (other x) ++ bytes) /\
    Quiescent c s' (sel x (wadd a n) a) (sel x b (wadd b n)) /\
    sub_of s' x = sub_of s x ++ bytes /\ sub_of s' (other x) = sub_of s (other x) /\
    delivered s' (other x) = delivered s (other x) ++ bytes /\ del_of s' x = del_of s x.
  Proof.
    intros HQ Hn n s1 nseg s2 s'.
    destruct (quiescent_at c s a b x HQ) as (tx & ty & Ex & Ey & Qx & Qy & Mx & My & Nx & Ny & Pn).
    set (p := sel x a b) in *. set (q := sel x b a) in *.
    assert (Est : st tx = Established) by apply Qx.
    set (s0 := fst (sys_step c s (LSend x bytes))).
    assert (E0 : s0 = set_end (set_sub s x (sub_of s x ++ bytes)) x (ELive (tcb_send tx bytes)))
      by (apply (send_step c s x tx Pn Ex Est)).
    assert (HW0 : WriterState c x s0 p q bytes).
    { rewrite E0. exists (tcb_send tx bytes), ty. sysr. splits; auto.
      - apply writer_of_quiet, Qx.
      - unfold tcb_send. rewrite Est. cbn [accepts_send]. exact Mx. }
    destruct (emit_inflight c s0 x p q bytes HW0 Hn) as (lp & rp & segs & HI1 & HB & S1 & D1).
    cbv zeta in *. change (fst (sys_step c s0 (LEmit x))) with s1 in *.
    assert (Hnet : net_of s1 x = segs) by (destruct HI1 as (? & ? & H); rewrite app_nil_r in H; apply H).
    subst s' s2 nseg. rewrite Hnet.
    set (s2 := run c s1 (repeat (LDeliver x 0) (length segs) ++ [LRecv (other x); LEmit (other x)])).
    destruct (inflight_unacked s1 x p q (wadd p n) lp rp segs HI1) as (U1 & U2 & HU & S2 & D2 & D3 & D4).
    cbv zeta in *. fold s2 in U1, U2, HU, S2, D2, D3, D4.
    set (s3 := run c s2 (repeat (LDrop (other x) 0) (length segs))) in *.
    assert (Pn3 : panicked s3 = false) by (destruct HU as (? & ? & H); apply H).
    destruct (unacked_recover s3 x p q (wadd p n) lp rp segs HU) as (HQ' & S3 & D5).
    cbv zeta in *.
    assert (Es' : run c s2 (repeat (LDrop (other x) 0) (length segs) ++ [LFair 2]) = fair_rounds 2 c s3).
    { rewrite run_app. fold s3. cbn [run fold_left]. apply (fairk c s3 2 Pn3). }
    rewrite Es'.
    assert (Esel1 : sel x (wadd p n) q = sel x (wadd a n) a) by (subst p q; destruct x; reflexivity).
    assert (Esel2 : sel x q (wadd p n) = sel x b (wadd b n)) by (subst p q; destruct x; reflexivity).
    rewrite Esel1, Esel2 in HQ'.
    assert (Dy : del_of s1 (other x) = del_of s (other x)) by (rewrite D1, E0; now sysr).
    assert (Dx : del_of s1 x = del_of s x) by (rewrite D1, E0; now sysr).
    splits; auto.
    - unfold delivered. rewrite D3, Dy, concat_app, HB. cbn [concat]. now rewrite app_nil_r.
    - rewrite S3, S2, S1, E0. now sysr.
    - rewrite S3, S2, S1, E0. now sysr.
    - unfold delivered. rewrite D5, D4, Dy, concat_app, HB. cbn [concat]. now rewrite app_nil_r.
    - rewrite D5, D2. exact Dx.
  Qed.
End AckRound.

Lemma lost_acks_explicit : forall (c : config) (s : sys) (a b : Z) (x : side) (bytes : list Z),
  Quiescent c s a b -> 0 < zlen bytes <= 65535 ->
  let s1 := run c s [LSend x bytes; LEmit x] in
  let nseg := length (net_of s1 x) in
  let s2 := run c s1 (repeat (LDeliver x 0) nseg ++ [LRecv (other x); LEmit (other x)]) in
  let s' := run c s2 (repeat (LDrop (other x) 0) nseg ++ [LFair 2]) in
  (net_of s2 x = [] /\ length (net_of s2 (other x)) = nseg /\
   delivered s2 (other x) = delivered s (other x) ++ bytes) /\
  (exists a' b', Quiescent c s' a' b') /\
  sub_of s' x = sub_of s x ++ bytes /\ sub_of s' (other x) = sub_of s (other x) /\
  delivered s' (other x) = delivered s (other x) ++ bytes /\ delivered s' x = delivered s x.
Proof.
  intros c s a b x bytes HQ Hn s1 nseg s2 s'.
  destruct (lost_acks_recovery c s a b x bytes HQ Hn) as (H0 & H1 & H2 & H3 & H4 & H5).
  cbv zeta in H5. split; [exact H0|]. split; [eauto|]. splits; auto.
  unfold delivered. subst s' s2 nseg s1. now rewrite H5.
Qed.
