(* The global invariant of the closed two-endpoint TCP system (C01 safety,
   C03 b/c).  Definitions only; proofs are in TcbSafety*.v.

   Direction X -> Y.  X has submitted the stream S = sub_of s X.  What the rest
   of the system may assume about X is collected in a "peer view"
     pv = (iss_X, S, L, frozen)
   L      = number of bytes of S that X has put into segments so far
            (|S| - |out_text| while X is live; |S| once X is dead),
   frozen = X can never extend S again and has queued its FIN at iss+1+|S|
            (live with the FIN queued, or dead).
   Views only grow (pv_le) and all facts about segments X -> Y and about the
   receiver Y are monotone in the view. *)
From Elvis Require Import Model.Base Model.U32 Model.Tcb Model.TcpNet.
Local Open Scope Z_scope.

Definition closed_state (s : state) : bool :=
  match s with FinWait1 | FinWait2 | Closing | LastAck | TimeWait => true | _ => false end.
(* states in which the peer's FIN has been consumed *)
Definition fin_consumed (s : state) : bool :=
  match s with CloseWait | Closing | LastAck | TimeWait => true | _ => false end.
(* our FIN has been put into the retransmission queue *)
Definition finq (t : tcb) : bool := closed_state (st t) && negb (fin_pending t).
Definition data_sent (S : list Z) (t : tcb) : Z := zlen S - zlen (out_text t).

Record pview := mkPv { pv_iss : Z; pv_sub : list Z; pv_lim : Z; pv_frozen : bool }.

Definition SEQ_BOUND : Z := 2147483648 - 131072.   (* 2^31 - 2^17 *)

Definition pv_wf (pv : pview) : Prop :=
  u32 (pv_iss pv) /\ 0 <= pv_lim pv <= zlen (pv_sub pv) /\ zlen (pv_sub pv) < SEQ_BOUND /\
  (pv_frozen pv = true -> pv_lim pv = zlen (pv_sub pv)).

Definition pv_le (p q : pview) : Prop :=
  pv_iss q = pv_iss p /\
  (exists more, pv_sub q = pv_sub p ++ more) /\
  pv_lim p <= pv_lim q /\
  (pv_frozen p = true -> pv_frozen q = true /\ pv_sub q = pv_sub p).

Definition pv_base (pv : pview) : Z := wadd (pv_iss pv) 1.

(* the text of seg is the slice of the submitted stream at its sequence number *)
Definition seg_ok (pv : pview) (seg : segment) : Prop :=
  let off := wsub (h_seq (s_hdr seg)) (pv_base pv) in
  s_text seg = firstn (length (s_text seg)) (skipn (Z.to_nat off) (pv_sub pv)) /\
  off + zlen (s_text seg) <= pv_lim pv.

Definition seg_inv (pv : pview) (seg : segment) : Prop :=
  let c := h_ctl (s_hdr seg) in
  (s_text seg <> [] ->
     c_syn c = false /\ c_fin c = false /\ u32 (h_seq (s_hdr seg)) /\
     zlen (s_text seg) <= 65535 /\ seg_ok pv seg) /\
  (c_syn c = true -> s_text seg = [] /\ c_fin c = false /\ h_seq (s_hdr seg) = pv_iss pv) /\
  (c_fin c = true -> s_text seg = [] /\ c_syn c = false /\ pv_frozen pv = true /\
     h_seq (s_hdr seg) = wadd (pv_base pv) (zlen (pv_sub pv))).

Definition plain_hdr (h : header) : Prop := c_syn (h_ctl h) = false /\ c_fin (h_ctl h) = false.

(* what an endpoint exposes about itself *)
Definition my_pv (iss : Z) (S : list Z) (t : tcb) : pview := mkPv iss S (data_sent S t) (finq t).

(* sender half of a live endpoint with ISS iss, MTU mtu0 and submitted stream S *)
Definition SndInv (iss mtu0 : Z) (S : list Z) (t : tcb) : Prop :=
  snd_iss t = iss /\ mtu t = mtu0 /\ rcv_wnd t = 65535 /\
  0 <= data_sent S t /\
  out_text t = skipn (Z.to_nat (data_sent S t)) S /\
  snd_nxt t = wadd (wadd iss 1) (data_sent S t + b2z (finq t)) /\
  (fin_pending t = true -> closed_state (st t) = true) /\
  (finq t = true -> out_text t = []) /\
  Forall (seg_inv (my_pv iss S t)) (map t_seg (retx t)) /\
  Forall plain_hdr (oneshot t).

(* receiver half: pv is the view of the peer, D what was handed to the application *)
Definition rcv_n (pv : pview) (t : tcb) : Z :=
  wsub (rcv_nxt t) (pv_base pv) - b2z (fin_consumed (st t)).

Definition RcvInv (pv : pview) (D : list Z) (t : tcb) : Prop :=
  Forall (seg_inv pv) (in_segs t) /\
  zlen (in_text t) <= 65535 /\
  (if state_eqb (st t) SynSent then in_text t = [] /\ D = []
   else
     rcv_irs t = pv_iss pv /\ u32 (rcv_nxt t) /\
     0 <= rcv_n pv t <= pv_lim pv /\
     D ++ in_text t = firstn (Z.to_nat (rcv_n pv t)) (pv_sub pv) /\
     (fin_consumed (st t) = true -> pv_frozen pv = true /\ rcv_n pv t = zlen (pv_sub pv))).

Definition prefix {A} (p l : list A) : Prop := exists r, l = p ++ r.

Definition pv_of (c : config) (s : sys) (x : side) : pview :=
  match end_of s x with
  | ELive t => my_pv (iss_of c x) (sub_of s x) t
  | EDead => mkPv (iss_of c x) (sub_of s x) (zlen (sub_of s x)) true
  | _ => mkPv (iss_of c x) (sub_of s x) 0 false
  end.

Definition EndInv (c : config) (s : sys) (x : side) : Prop :=
  match end_of s x with
  | ELive t =>
    SndInv (iss_of c x) (mtu_of c x) (sub_of s x) t /\
    RcvInv (pv_of c s (other x)) (delivered s x) t
  | EDead => prefix (delivered s x) (sub_of s (other x))
  | _ => delivered s x = [] /\ sub_of s x = []
  end.

Definition cfg_ok (c : config) : Prop :=
  u32 (issA c) /\ u32 (issB c) /\ 100 <= mtuA c <= 65535 /\ 100 <= mtuB c <= 65535.

Definition SysInv (c : config) (s : sys) : Prop :=
  panicked s = false /\
  (forall x, pv_wf (pv_of c s x)) /\
  (forall x, EndInv c s x) /\
  (forall x, Forall (seg_inv (pv_of c s x)) (net_of s x)).

Definition no_inject (l : label) : bool := match l with LInject _ _ => false | _ => true end.

Definition sub_bound (s : sys) : Prop := zlen (subA s) < SEQ_BOUND /\ zlen (subB s) < SEQ_BOUND.
