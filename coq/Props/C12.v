(* C12 - property theorems only.  Each is closed by [exact lemma]; statements are pinned. *)
From Elvis Require Import Model.Base Model.U32 Proofs.U32Facts.
Local Open Scope Z_scope.

(* the strict order is the mathematical circular order for all pairs < 2^31 apart *)
Theorem C12_mod_lt_circular : forall a d, u32 a -> 0 < d < H31 ->
  mod_lt a (wadd a d) = true /\ mod_lt (wadd a d) a = false.
Proof. exact mod_lt_spec. Qed.
Print Assumptions C12_mod_lt_circular.

Theorem C12_mod_leq_circular : forall a d, u32 a -> 0 <= d < H31 ->
  mod_leq a (wadd a d) = true /\ mod_geq (wadd a d) a = true.
Proof. exact mod_leq_dist. Qed.
Print Assumptions C12_mod_leq_circular.

Theorem C12_mod_leq_circular_neg : forall a d, u32 a -> 0 < d < H31 ->
  mod_leq (wadd a d) a = false /\ mod_geq a (wadd a d) = false.
Proof. exact mod_leq_dist_neg. Qed.
Print Assumptions C12_mod_leq_circular_neg.

(* mutual consistency *)
Theorem C12_leq_is_lt_or_eq : forall a b, mod_leq a b = ((a =? b) || mod_lt a b).
Proof. exact mod_leq_spec. Qed.
Print Assumptions C12_leq_is_lt_or_eq.
Theorem C12_geq_is_gt_or_eq : forall a b, mod_geq a b = ((a =? b) || mod_gt a b).
Proof. exact mod_geq_spec. Qed.
Print Assumptions C12_geq_is_gt_or_eq.
Theorem C12_lt_asym : forall a b, u32 a -> u32 b -> mod_lt a b = true -> mod_lt b a = false.
Proof. exact mod_lt_asym. Qed.
Print Assumptions C12_lt_asym.

(* bounded-between is cyclic betweenness *)
Theorem C12_bounded_is_arc : forall a ab b bc c, u32 a -> u32 b -> u32 c ->
  0 < wsub c a < H31 ->
  mod_bounded a ab b bc c =
    ((match ab with CLt => 0 <? wsub b a | CLeq => true end) &&
     (match bc with CLt => wsub b a <? wsub c a | CLeq => wsub b a <=? wsub c a end)).
Proof. exact mod_bounded_arc. Qed.
Print Assumptions C12_bounded_is_arc.

(* independence from absolute values: every primitive commutes with a shift *)
Theorem C12_lt_shift : forall a b d, mod_lt (wadd a d) (wadd b d) = mod_lt a b.
Proof. exact mod_lt_shift. Qed.
Print Assumptions C12_lt_shift.
Theorem C12_leq_shift : forall a b d, u32 a -> u32 b -> mod_leq (wadd a d) (wadd b d) = mod_leq a b.
Proof. exact mod_leq_shift. Qed.
Print Assumptions C12_leq_shift.
Theorem C12_bounded_shift : forall a ab b bc c d, u32 a -> u32 b -> u32 c ->
  mod_bounded (wadd a d) ab (wadd b d) bc (wadd c d) = mod_bounded a ab b bc c.
Proof. exact mod_bounded_shift. Qed.
Print Assumptions C12_bounded_shift.
