(* C03, second tie by translation: coq/Gen/StateGen.v is regenerated on every run by tools/translate_state.py from
   state.rs (enum State, derived PartialEq) and tcb.rs (arm groups of every `match self.state` of impl Tcb, as
   dispatch tables state -> arm index, and every comparison of self.state with a literal).  The hand model
   Model/Tcb.v has the same states in the same order and branches exactly along the generated tables.
   state.rs itself declares no predicate methods; the state predicates of the TCB are these arm groups.
   [to_model] / [of_model], the [*_arm] restatements of the model code per arm index: Proofs/StateGen.v. *)
From Elvis Require Import Model.Base Model.U32 Model.Tcb Model.RsSem Gen.StateGen Proofs.StateGen.
Local Open Scope Z_scope.

(* the enum: same variants, same declaration order, derived equality = state_eqb *)
Theorem C03gen_state_is_model :
  (forall s, to_model (of_model s) = s) /\ (forall s, of_model (to_model s) = s) /\
  map to_model g_State_all =
    [SynSent; SynReceived; Established; FinWait1; FinWait2; CloseWait; Closing; LastAck; TimeWait] /\
  (forall s, In s g_State_all) /\
  map g_State_index g_State_all = [0; 1; 2; 3; 4; 5; 6; 7; 8] /\
  (forall a b, g_State_eqb (of_model a) (of_model b) = state_eqb a b) /\
  (forall a b, g_State_eqb a b = true <-> a = b).
Proof.
  exact (conj to_of_model (conj of_to_model (conj gen_state_order (conj gen_state_all_complete
        (conj gen_state_index_order (conj gen_state_eqb gen_state_eqb_eq)))))).
Qed.
Print Assumptions C03gen_state_is_model.

(* the user calls: send accepts text in exactly the states of arm 0, receive has one arm, close has its three
   arms, segments segmentizes in exactly the states of arm 0 *)
Theorem C03gen_calls_follow_tables :
  (forall s, accepts_send s = (g_Tcb_send_m1 (of_model s) =? 0)) /\
  (forall t bytes, tcb_send t bytes =
     match g_Tcb_send_m1 (of_model (st t)) with 0 => set_out_text t (out_text t ++ bytes) | _ => t end) /\
  (forall s, g_Tcb_receive_m1 s = 0) /\
  (forall t, tcb_close t =
     match g_Tcb_close_m1 (of_model (st t)) with
     | 0 => (queue_pending_fin (set_st (set_fin_pending t true) FinWait1), CloseOk)
     | 1 => (queue_pending_fin (set_st (set_fin_pending t true) LastAck), CloseOk)
     | _ => (t, CloseClosing)
     end) /\
  (forall s, segmentizes s = (g_Tcb_segments_m1 (of_model s) =? 0)).
Proof.
  exact (conj gen_send_table (conj gen_send (conj gen_receive_table (conj gen_close gen_segments_table)))).
Qed.
Print Assumptions C03gen_calls_follow_tables.

(* process_segment: every stage of the hand model is its per-arm code selected by the generated arm index *)
Theorem C03gen_process_segment_follows_tables :
  (forall t text_len h,
     match st t with
     | SynSent => false
     | _ => negb (is_seq_ok t text_len (h_seq h) (c_syn (h_ctl h)) (c_fin (h_ctl h)))
     end = seq_bad_arm (g_Tcb_process_segment_m1 (of_model (st t))) t text_len h) /\
  (forall t h, ps_ack t h =
     if negb (c_ack (h_ctl h)) then (t, None) else ps_ack_arm (g_Tcb_process_segment_m2 (of_model (st t))) t h) /\
  (forall t h, ps_rst t h =
     if negb (c_rst (h_ctl h)) then None else ps_rst_arm (g_Tcb_process_segment_m3 (of_model (st t))) t h) /\
  (forall t h, ps_syn t h =
     if negb (c_syn (h_ctl h)) then (t, None) else ps_syn_arm (g_Tcb_process_segment_m4 (of_model (st t))) t h) /\
  (forall t h text, ps_text t h text =
     if zlen text =? 0 then Ok t else ps_text_arm (g_Tcb_process_segment_m5 (of_model (st t))) t h text) /\
  (forall t h text_len, ps_fin t h text_len =
     if negb (c_fin (h_ctl h)) then t else
     let t1 := ps_fin_pre t h text_len in ps_fin_arm (g_Tcb_process_segment_m6 (of_model (st t1))) t1).
Proof.
  exact (conj gen_ps_seq_check (conj gen_ps_ack (conj gen_ps_rst (conj gen_ps_syn (conj gen_ps_text gen_ps_fin))))).
Qed.
Print Assumptions C03gen_process_segment_follows_tables.

(* the comparisons of self.state with a literal (segment_arrives l.365, process_segment l.591 / l.640) *)
Theorem C03gen_comparisons : forall s,
  g_Tcb_segment_arrives_c1 (of_model s) = negb (state_eqb s SynSent) /\
  g_Tcb_process_segment_c1 (of_model s) = state_eqb s SynSent /\
  g_Tcb_process_segment_c2 (of_model s) = negb (state_eqb s SynSent).
Proof. exact gen_comparisons. Qed.
Print Assumptions C03gen_comparisons.

(* nothing else in impl Tcb looks at the state: the translator's complete lists are the tables / comparisons
   above; abort (not in the hand model) has its table recorded *)
Theorem C03gen_tables_complete :
  (g_Tcb_state_tables =
     [g_Tcb_send_m1; g_Tcb_receive_m1; g_Tcb_close_m1; g_Tcb_abort_m1; g_Tcb_segments_m1;
      g_Tcb_process_segment_m1; g_Tcb_process_segment_m2; g_Tcb_process_segment_m3; g_Tcb_process_segment_m4;
      g_Tcb_process_segment_m5; g_Tcb_process_segment_m6] /\
   g_Tcb_state_comparisons = [g_Tcb_segment_arrives_c1; g_Tcb_process_segment_c1; g_Tcb_process_segment_c2]) /\
  map g_Tcb_abort_m1 g_State_all = [1; 0; 0; 0; 0; 0; 1; 1; 1].
Proof. exact (conj gen_tables_complete gen_abort_table). Qed.
Print Assumptions C03gen_tables_complete.
