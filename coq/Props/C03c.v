(* C03 (part c) - the TCP session table: sessions keyed by endpoint pair, listen bindings create sessions.
   Property theorems only; each is closed by [exact lemma]; statements are pinned.

   Vocabulary (Model/TcpDemux.v, Proofs/TcpDemuxFacts.v; tbl / tget / ANY from Model/Demux.v):
     tstate            one machine: t_ip (Ipv4.listen_bindings), t_listen (Tcp.listen_bindings),
                       t_sess (Tcp.sessions: endpoint pair -> the application the session belongs to),
                       t_protos, t_routes
     sget t (l, r)     the session of the pair (local l, remote r)
     seg               a segment: s_src, s_dst, s_flags (FIN 1, SYN 2, RST 4, PSH 8, ACK 16), s_seq, s_ack, s_tlen
     tcp_listen / tcp_open / tcp_demux / arrive   Tcp::listen, Tcp::open, Tcp::demux, and Ipv4::demux followed
                       by Tcp::demux; each returns (result, state after).  tcp_demux = tcp_demux_gen closed_reply
                       false; tcp_demux_gen cr collide is the same decision with another closed-port reply and
                       with the lock collision of the code before b7a73ede (collide = "the destination endpoint
                       and (0.0.0.0, port) live in the same DashMap shard"); tcp_demux_orig collide =
                       tcp_demux_gen closed_reply_orig collide is the code before both repairs
     tdec              the decision of demux: DSession up | DClosed reply | DListenReply r | DListenCreate up |
                       DListenIgnore | DMissingProto | DDeadlock | DIpDrop | DIpOther
     trun s ops        the state after any history of listens, opens and arrivals
     vstep / chain / validate   the executable trace validator and its runs

   Claim: proof of the decision logic for ALL tables, segments and histories of the model + validation of
   the running stack's traces.  What a session does with a segment (the TCB) is property C01/C03a/b.
   Observations about the code as it is (theorems marked "as coded"): Tcp::listen overwrites silently;
   sessions are never removed.  The two `_orig_refuted` theorems record what the code did before the repairs
   b7a73ede and ba8dc528 (found by this kit). *)
From Coq Require Import ZArith List.
From Elvis Require Import Model.Base Model.Demux Model.TcpDemux Proofs.DemuxFacts Proofs.TcpDemuxFacts.
Import ListNotations.
Local Open Scope Z_scope.

(* a segment for an existing connection is handed to its session; no table changes, so no second session *)
Theorem C03c_existing_session : forall s sg up,
  sget (t_sess s) (s_dst sg, s_src sg) = Some up -> tcp_demux s sg = (DSession up, s).
Proof. exact (demux_existing closed_reply false). Qed.
Print Assumptions C03c_existing_session.

(* sessions are unique per endpoint pair, in every state any history of listens, opens and arrivals
   (any segments) leads to *)
Theorem C03c_sessions_unique : forall ops s, wf_sess s -> wf_sess (trun s ops).
Proof. exact trun_wf. Qed.
Print Assumptions C03c_sessions_unique.

(* the only effect Tcp::demux can have on the tables: one session for (local = destination, remote =
   source) is added - only if none existed and the segment is a SYN without RST and ACK *)
Theorem C03c_demux_effect : forall s sg,
  snd (tcp_demux s sg) = s \/
  (exists up, sget (t_sess s) (s_dst sg, s_src sg) = None /\
     fst (tcp_demux s sg) = DListenCreate up /\
     snd (tcp_demux s sg) = set_sess s (((s_dst sg, s_src sg), up) :: t_sess s) /\
     f_rst sg = false /\ f_ack sg = false /\ f_syn sg = true).
Proof. exact (demux_effect closed_reply false). Qed.
Print Assumptions C03c_demux_effect.

(* a SYN to a bound port creates exactly one session, keyed by (destination, source), for the application
   of the exact binding or - absent one - of the 0.0.0.0 binding ... *)
Theorem C03c_syn_creates_one : forall s sg up,
  sget (t_sess s) (s_dst sg, s_src sg) = None ->
  (tget (t_listen s) (s_dst sg) = Some up \/
   (tget (t_listen s) (s_dst sg) = None /\ tget (t_listen s) (ANY, snd (s_dst sg)) = Some up)) ->
  f_rst sg = false -> f_ack sg = false -> f_syn sg = true -> zmem up (t_protos s) = true ->
  tcp_demux s sg = (DListenCreate up, set_sess s (((s_dst sg, s_src sg), up) :: t_sess s)).
Proof.
  exact (fun s sg up G B => syn_creates_one closed_reply false s sg up G
           (match B with or_introl b => or_introl b | or_intror (conj b1 b2) => or_intror (conj b1 (conj eq_refl b2)) end)).
Qed.
Print Assumptions C03c_syn_creates_one.

(* ... and every later segment of that pair goes to it *)
Theorem C03c_later_segments : forall s sg up sg',
  s_dst sg' = s_dst sg -> s_src sg' = s_src sg ->
  tcp_demux (set_sess s (((s_dst sg, s_src sg), up) :: t_sess s)) sg' =
  (DSession up, set_sess s (((s_dst sg, s_src sg), up) :: t_sess s)).
Proof. exact (later_segments closed_reply false). Qed.
Print Assumptions C03c_later_segments.

(* an exact binding wins over the wildcard (whatever the wildcard entry is); the wildcard binding is used
   when there is no exact one *)
Theorem C03c_exact_wins : forall s sg up,
  sget (t_sess s) (s_dst sg, s_src sg) = None ->
  (tget (t_listen s) (s_dst sg) = Some up -> tcp_demux s sg = listen_branch s sg up) /\
  (tget (t_listen s) (s_dst sg) = None -> tget (t_listen s) (ANY, snd (s_dst sg)) = Some up ->
   tcp_demux s sg = listen_branch s sg up).
Proof. exact (fun s sg up G => conj (exact_wins closed_reply false s sg up G) (wildcard_used closed_reply s sg up G)). Qed.
Print Assumptions C03c_exact_wins.

(* no binding: no session, tables unchanged, at most one reply: the text-free reset of RFC 9293 3.10.7.1 with
   the endpoints swapped - none for a reset, <SEQ=SEG.ACK><CTL=RST> for an ACK segment, otherwise
   <SEQ=0><ACK=SEG.SEQ+SEG.LEN><CTL=RST,ACK> with SEG.LEN = text + SYN + FIN (C03c_closed_reply_rfc, full) *)
Theorem C03c_no_binding : forall s sg,
  sget (t_sess s) (s_dst sg, s_src sg) = None -> tget (t_listen s) (s_dst sg) = None ->
  tget (t_listen s) (ANY, snd (s_dst sg)) = None ->
  tcp_demux s sg = (DClosed (closed_reply sg), s) /\
  (f_rst sg = true -> closed_reply sg = None) /\
  (forall r, closed_reply sg = Some r ->
     f_rst sg = false /\ s_src r = s_dst sg /\ s_dst r = s_src sg /\ s_tlen r = 0 /\ f_rst r = true /\
     (f_ack sg = true -> s_flags r = FL_RST /\ s_seq r = s_ack sg) /\
     (f_ack sg = false -> s_flags r = FL_RST_ACK /\ s_seq r = 0 /\ s_ack r = wrap32 (s_seq sg + seg_len sg))).
Proof. exact (fun s sg G B1 B2 => conj (no_binding closed_reply s sg G B1 B2) (conj (closed_reply_rst sg) (closed_reply_shape sg))). Qed.
Print Assumptions C03c_no_binding.

(* RST segments and ACK segments never create a session, bound port or not: nothing changes *)
Theorem C03c_rst_ack_never_create : forall s sg,
  f_rst sg = true \/ f_ack sg = true -> snd (arrive s sg) = s /\ snd (tcp_demux s sg) = s.
Proof. exact rst_ack_never_create. Qed.
Print Assumptions C03c_rst_ack_never_create.

(* a second open of a pair is refused and changes nothing *)
Theorem C03c_open_existing_refused : forall s up p x,
  sget (t_sess s) p = Some x -> tcp_open s up p = (1, s).
Proof. exact tcp_open_existing. Qed.
Print Assumptions C03c_open_existing_refused.

(* as coded: sessions are never removed.  Whatever happens after a pair got its session - including the
   connection finishing, of which the table never learns - the pair keeps it: a new open of the pair is
   refused for ever, and a new SYN of the pair never creates a fresh session (it is handed to the old one) *)
Theorem C03c_sessions_never_removed : forall ops s p up,
  sget (t_sess s) p = Some up ->
  sget (t_sess (trun s ops)) p = Some up /\
  (forall up', tcp_open (trun s ops) up' p = (1, trun s ops)) /\
  (forall sg, (s_dst sg, s_src sg) = p -> tcp_demux (trun s ops) sg = (DSession up, trun s ops)).
Proof.
  exact (fun ops s p up H => conj (trun_keeps ops s p up H)
           (conj (proj1 (no_reuse ops s p up H)) (proj2 (no_reuse ops s p up H) closed_reply false))).
Qed.
Print Assumptions C03c_sessions_never_removed.

(* as coded: Tcp::listen never refuses; it replaces the binding of the endpoint, leaves the others alone,
   and no session is touched *)
Theorem C03c_listen_overwrites : forall s up e,
  tget (t_listen (snd (tcp_listen s up e))) e = Some up /\
  (forall k, k <> e -> tget (t_listen (snd (tcp_listen s up e))) k = tget (t_listen s) k) /\
  t_sess (snd (tcp_listen s up e)) = t_sess s /\
  ((forall u, tget (t_ip s) (fst e, TCP_PROTO) = Some u -> u = TCP_TID) -> fst (tcp_listen s up e) = 0).
Proof.
  exact (fun s up e => conj (tcp_listen_binding s up e) (conj (tcp_listen_other s up e)
         (conj (tcp_listen_sess s up e) (tcp_listen_code s up e)))).
Qed.
Print Assumptions C03c_listen_overwrites.

(* the closed-port reply is the one RFC 9293 3.10.7.1 prescribes, for every segment (full) *)
Theorem C03c_closed_reply_rfc : forall sg,
  (f_rst sg = true -> closed_reply sg = None) /\
  (f_rst sg = false -> f_ack sg = true ->
     closed_reply sg = Some (mkSeg (s_dst sg) (s_src sg) FL_RST (s_ack sg) 0 0)) /\
  (f_rst sg = false -> f_ack sg = false ->
     closed_reply sg = Some (mkSeg (s_dst sg) (s_src sg) FL_RST_ACK 0
                               (wrap32 (s_seq sg + (s_tlen sg + (if f_syn sg then 1 else 0) + (if f_fin sg then 1 else 0)))) 0)).
Proof. exact closed_reply_spec. Qed.
Print Assumptions C03c_closed_reply_rfc.

(* before ba8dc528 the reset acknowledged SEG.SEQ + text length: right exactly for segments without SYN and
   FIN, wrong for a bare SYN (ACK 100 instead of 101: an active opener drops such a reset, RFC 9293 3.10.7.3) *)
Theorem C03c_closed_reply_orig_refuted :
  (forall sg, f_syn sg = false -> f_fin sg = false -> closed_reply_orig sg = closed_reply sg) /\
  (let sg := mkSeg (167772161, 4000) (167772162, 81) 2 100 0 0 in
   f_syn sg = true /\
   closed_reply_orig sg = Some (mkSeg (167772162, 81) (167772161, 4000) FL_RST_ACK 0 100 0) /\
   closed_reply sg = Some (mkSeg (167772162, 81) (167772161, 4000) FL_RST_ACK 0 101 0)).
Proof. exact (conj closed_reply_orig_agrees closed_reply_syn_deviates). Qed.
Print Assumptions C03c_closed_reply_orig_refuted.

(* the code as it is never blocks in the lookup.  Before b7a73ede it did: without a session and without an exact
   binding, when the destination endpoint and (0.0.0.0, port) shared a shard, Tcp::demux waited for its own
   lock - e.g. (machine independent) for a segment addressed to 0.0.0.0:81 on a machine listening on 0.0.0.0:80,
   which now meets a closed port *)
Theorem C03c_lookup_deadlock_orig_refuted :
  (forall s sg, fst (tcp_demux s sg) <> DDeadlock /\ fst (arrive s sg) <> DDeadlock) /\
  (forall s sg, sget (t_sess s) (s_dst sg, s_src sg) = None -> tget (t_listen s) (s_dst sg) = None ->
     tcp_demux_orig true s sg = (DDeadlock, s)) /\
  (tcp_demux_orig true ex_t1 (mkSeg (167772417, 4000) (ANY, 81) 2 7 0 0) = (DDeadlock, ex_t1) /\
   arrive ex_t1 (mkSeg (167772417, 4000) (ANY, 81) 2 7 0 0) =
     (DClosed (Some (mkSeg (ANY, 81) (167772417, 4000) 20 0 8 0)), ex_t1)).
Proof. exact (conj demux_no_deadlock (conj lookup_deadlock deadlock_example)). Qed.
Print Assumptions C03c_lookup_deadlock_orig_refuted.

(* soundness of the validator: an accepted trace is a chain of accepted steps from the empty tables; the
   machines' session tables stay unique; every reply Tcp::demux handed down and every injected segment was
   seen on the link *)
Theorem C03c_validate_sound : forall script ms tr,
  validate script ms tr = 0 -> Forall wf_sess ms ->
  exists st', chain script (mkV ms [] []) tr st' /\
    Forall wf_sess (v_ms st') /\ v_owed st' = [] /\ v_inj st' = [].
Proof. exact validate_sound. Qed.
Print Assumptions C03c_validate_sound.

(* what an accepted step means.  A frame a machine gave to the link is an injected one, or belongs to a pair
   for which that machine has a session, or is a reply owed by Tcp::demux. *)
Theorem C03c_step_frame : forall script st m to sg st',
  vstep script st (EFrm m to sg) = Some st' ->
  In (m, to, sg) (v_inj st) \/
  (exists up, sget (t_sess (nth m (v_ms st) dummy_t)) (s_src sg, s_dst sg) = Some up) \/
  In (m, to, sg) (v_owed st).
Proof. exact vstep_frame_justified. Qed.
Print Assumptions C03c_step_frame.

(* An arrival changes the machine as Ipv4::demux ; Tcp::demux prescribe, and the reply they hand down - at
   most one - becomes owed to the interface the segment came from. *)
Theorem C03c_step_arrival : forall script st m from sg st',
  vstep script st (EArr m from sg) = Some st' ->
  let d := fst (arrive (nth m (v_ms st) dummy_t) sg) in
  let s' := snd (arrive (nth m (v_ms st) dummy_t) sg) in
  v_ms st' = upd (v_ms st) m s' /\ v_inj st' = v_inj st /\
  v_owed st' = match reply_of d with Some r => (m, from, r) :: v_owed st | None => v_owed st end.
Proof. exact vstep_arrival. Qed.
Print Assumptions C03c_step_arrival.

(* Notifications and bytes reach the application that owns the session of their endpoint pair. *)
Theorem C03c_step_app : forall script st m app p st',
  vstep script st (ENtf m app p) = Some st' \/ vstep script st (EByt m app p) = Some st' ->
  sget (t_sess (nth m (v_ms st) dummy_t)) p = Some app.
Proof. exact vstep_app. Qed.
Print Assumptions C03c_step_app.

(* the hypotheses are satisfiable: a machine listening on 0.0.0.0:80 for application 1; a SYN creates the
   session, the duplicate SYN and a later ACK go to it, an ACK of another pair is reset, a SYN to port 81 is
   answered by the closed-port reset, a RST is ignored; re-listening hands the endpoint to application 2 *)
Theorem C03c_examples :
  (let syn := mkSeg (167772417, 4000) (167772161, 80) 2 7 0 0 in
   let s2 := snd (arrive ex_t1 syn) in
   fst (arrive ex_t1 syn) = DListenCreate 1 /\
   fst (arrive s2 syn) = DSession 1 /\
   fst (arrive s2 (mkSeg (167772417, 4000) (167772161, 80) 16 8 1 0)) = DSession 1 /\
   fst (arrive s2 (mkSeg (167772417, 4001) (167772161, 80) 16 8 1 0)) =
     DListenReply (mkSeg (167772161, 80) (167772417, 4001) 4 1 0 0) /\
   fst (arrive s2 (mkSeg (167772417, 4001) (167772161, 81) 2 8 0 0)) =
     DClosed (Some (mkSeg (167772161, 81) (167772417, 4001) 20 0 9 0)) /\
   fst (arrive s2 (mkSeg (167772417, 4001) (167772162, 80) 4 8 0 0)) = DListenIgnore /\
   wf_sess s2) /\
  (let s2 := snd (tcp_listen ex_t1 2 (ANY, 80)) in
   fst (tcp_listen ex_t1 2 (ANY, 80)) = 0 /\
   fst (arrive s2 (mkSeg (167772417, 4000) (167772161, 80) 2 7 0 0)) = DListenCreate 2).
Proof. exact (conj creation_example listen_overwrites_example). Qed.
Print Assumptions C03c_examples.
