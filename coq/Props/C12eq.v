(* C12, equivariance part - property theorems only.  Each is closed by
   [exact lemma]; statements are pinned.

   Reading guide.  [trel dO dP t t'] (Proofs/TcbShift.v) says: t' is t with
   SND.UNA/NXT/ISS, the seq of every queued outgoing header and the ack of every
   queued incoming segment moved by dO, RCV.IRS/NXT and SND.WL1 (once the state
   is not SYN-SENT; before that they hold raw zeros), the seq of every queued
   incoming segment and the flagged ack of every outgoing header moved by dP,
   everything else equal - EXCEPT SND.WL2, which is unconstrained (see
   C12_wl2_plain_shift_refuted for why it has to be).  [srel dA dB s s'] lifts
   this to the two-endpoint system.
   [tinv]/[sinv] is a well-formedness invariant of the ORIGINAL run only (all
   sequence fields in u32 range; every SYN/ACK-bearing header advertises the
   constant window DEFAULT_WND); it is proved to hold from init_sys, so the
   trace theorems do not assume it.  [run_ok] says that no segment is delivered
   to a never-opened endpoint (its RST reply carries the literal seq 0, which is
   outside any connection) and that injected segments, if any, are [sok]. *)
From Elvis Require Import Model.Base Model.U32 Model.Tcb Model.TcpNet
  Proofs.U32Facts Proofs.TcbShift Proofs.TcbShiftInv Proofs.TcbShiftOps
  Proofs.TcbShiftNet Proofs.TcbShiftObs Proofs.TcbShiftEx.
Local Open Scope Z_scope.

(* every operation of Model/Tcb.v maps related TCBs and shifted arguments to
   related TCBs and shifted results *)
Theorem C12_tcb_ops_equivariant : forall dO dP,
  (forall lp rp iss m, trel dO dP (tcb_open lp rp iss m) (tcb_open lp rp (wadd iss dO) m)) /\
  (forall s iss m, sok s ->
     lrel dO dP (arrives_listen s iss m) (arrives_listen (sh_seg dP dO s) (wadd iss dO) m)) /\
  (forall t t' s, trel dO dP t t' -> tinv t -> sok s ->
     rrel (pp_rel dO dP) (process_segment t s) (process_segment t' (sh_seg dP dO s))) /\
  (forall t t' s, trel dO dP t t' -> tinv t -> sok s ->
     rrel (pa_rel dO dP) (segment_arrives t s) (segment_arrives t' (sh_seg dP dO s))) /\
  (forall t t' b, trel dO dP t t' -> trel dO dP (tcb_send t b) (tcb_send t' b)) /\
  (forall t t', trel dO dP t t' ->
     trel dO dP (fst (tcb_receive t)) (fst (tcb_receive t')) /\ snd (tcb_receive t') = snd (tcb_receive t)) /\
  (forall t t', trel dO dP t t' -> tinv t ->
     trel dO dP (fst (tcb_close t)) (fst (tcb_close t')) /\ snd (tcb_close t') = snd (tcb_close t)) /\
  (forall t t' dt, trel dO dP t t' ->
     trel dO dP (fst (advance_time t dt)) (fst (advance_time t' dt)) /\
     snd (advance_time t' dt) = snd (advance_time t dt)) /\
  (forall t t', trel dO dP t t' -> tinv t -> rrel (ps_rel dO dP) (tcb_segments t) (tcb_segments t')).
Proof. exact tcb_ops_equivariant. Qed.
Print Assumptions C12_tcb_ops_equivariant.

(* the stages of process_segment, one by one *)
Theorem C12_tcb_stages_equivariant : forall dO dP,
  (forall t t' h, trel dO dP t t' -> tinv t -> hok h ->
     trel dO dP (fst (ps_ack t h)) (fst (ps_ack t' (sh_hdr dP dO h))) /\
     snd (ps_ack t' (sh_hdr dP dO h)) = snd (ps_ack t h)) /\
  (forall t t' h, trel dO dP t t' -> opsr_rel (ps_rst t h) (ps_rst t' (sh_hdr dP dO h))) /\
  (forall t t' h, trel dO dP t t' -> tinv t -> hok h ->
     trel dO dP (fst (ps_syn t h)) (fst (ps_syn t' (sh_hdr dP dO h))) /\
     snd (ps_syn t' (sh_hdr dP dO h)) = snd (ps_syn t h)) /\
  (forall t t' h text, trel dO dP t t' -> tinv t -> u32 (h_seq h) -> is_synsent (st t) = false ->
     rrel (trel dO dP) (ps_text t h text) (ps_text t' (sh_hdr dP dO h) text)) /\
  (forall t t' h n, trel dO dP t t' -> tinv t -> u32 (h_seq h) ->
     trel dO dP (ps_fin t h n) (ps_fin t' (sh_hdr dP dO h) n)) /\
  (forall t t', trel dO dP t t' -> tinv t -> trel dO dP (queue_pending_fin t) (queue_pending_fin t')).
Proof. exact tcb_stages_equivariant. Qed.
Print Assumptions C12_tcb_stages_equivariant.

(* with a valid SND.WL2 the window update is exactly equivariant, whatever
   windows the segments advertise (no appeal to the constant window) *)
Theorem C12_ack_est_exact : forall dO dP g t h,
  wl_valid dO dP g t -> g_nxt g = wadd (rcv_nxt t) dP ->
  u32 (snd_una t) -> u32 (snd_nxt t) -> u32 (snd_wl1 t) -> u32 (snd_wl2 t) ->
  u32 (h_ack h) -> u32 (h_seq h) -> c_ack (h_ctl h) = true ->
  exists g', ack_est (gsh dO dP g t) (sh_hdr dP dO h) = (gsh dO dP g' (fst (ack_est t h)), snd (ack_est t h)) /\
             wl_valid dO dP g' (fst (ack_est t h)) /\ g_irs g' = g_irs g /\ g_nxt g' = g_nxt g.
Proof. exact ack_est_wl_valid. Qed.
Print Assumptions C12_ack_est_exact.

(* the invariant assumed of the original TCB is established and preserved *)
Theorem C12_tinv_preserved :
  (forall lp rp iss m, u32 iss -> tinv (tcb_open lp rp iss m)) /\
  (forall s iss m t, u32 iss -> sok s -> arrives_listen s iss m = LTcb t -> tinv t) /\
  (forall t s t1 r, tinv t -> sok s -> segment_arrives t s = Ok (t1, r) -> tinv t1) /\
  (forall t b, tinv t -> tinv (tcb_send t b)) /\
  (forall t, tinv t -> tinv (fst (tcb_receive t))) /\
  (forall t, tinv t -> tinv (fst (tcb_close t))) /\
  (forall t dt, tinv t -> tinv (fst (advance_time t dt))) /\
  (forall t t1 out, tinv t -> tcb_segments t = Ok (t1, out) -> tinv t1 /\ Forall sok out).
Proof. exact tinv_preserved. Qed.
Print Assumptions C12_tinv_preserved.

(* one system step *)
Theorem C12_equivariance : forall dA dB c s s' l,
  srel dA dB s s' -> sinv c s -> lbl_ok s l ->
  srel dA dB (fst (sys_step c s l)) (fst (sys_step (shift_cfg dA dB c) s' (shift_label dA dB l))) /\
  snd (sys_step (shift_cfg dA dB c) s' (shift_label dA dB l)) = shift_obs dA dB l (snd (sys_step c s l)) /\
  sinv c (fst (sys_step c s l)).
Proof. exact sys_step_rel. Qed.
Print Assumptions C12_equivariance.

(* every trace from the initial state, any pair of ISNs, any pair of shifts:
   related after every prefix, and the observation lists agree up to the shift *)
Theorem C12_trace : forall c dA dB listenB ls,
  u32 (issA c) -> u32 (issB c) -> run_ok c (init_sys listenB) ls ->
  let c' := shift_cfg dA dB c in
  let ls' := map (shift_label dA dB) ls in
  (forall n, srel dA dB (run c (init_sys listenB) (firstn n ls)) (run c' (init_sys listenB) (firstn n ls'))) /\
  run_obs c' (init_sys listenB) ls' = shift_obs_list dA dB ls (run_obs c (init_sys listenB) ls).
Proof. exact C12_trace_thm. Qed.
Print Assumptions C12_trace.

(* observables: the ISN-relative normal form of the whole system state and of
   every emitted segment is identical; delivered and submitted bytes, endpoint
   states, the panic flag are equal; in-flight segments are the shifted ones *)
Theorem C12_observables : forall c dA dB listenB ls,
  u32 (issA c) -> u32 (issB c) -> run_ok c (init_sys listenB) ls ->
  let c' := shift_cfg dA dB c in
  let ls' := map (shift_label dA dB) ls in
  let s := run c (init_sys listenB) ls in
  let s' := run c' (init_sys listenB) ls' in
  nz_sys c' s' = nz_sys c s /\
  nz_obs_list c' ls' (run_obs c' (init_sys listenB) ls') = nz_obs_list c ls (run_obs c (init_sys listenB) ls) /\
  (forall x, delivered s' x = delivered s x /\ sub_of s' x = sub_of s x /\
             ep_state (end_of s' x) = ep_state (end_of s x) /\
             net_of s' x = map (sh_seg (dsh dA dB x) (dsh dA dB (other x))) (net_of s x)) /\
  panicked s' = panicked s.
Proof. exact C12_observables_thm. Qed.
Print Assumptions C12_observables.

(* closed-system traces (no LInject): the very same label list drives both runs *)
Theorem C12_closed_traces : forall c dA dB listenB ls,
  u32 (issA c) -> u32 (issB c) -> forallb closed_label ls = true ->
  run_ok c (init_sys listenB) ls ->
  let c' := shift_cfg dA dB c in
  (forall n, srel dA dB (run c (init_sys listenB) (firstn n ls)) (run c' (init_sys listenB) (firstn n ls))) /\
  nz_sys c' (run c' (init_sys listenB) ls) = nz_sys c (run c (init_sys listenB) ls) /\
  nz_obs_list c' ls (run_obs c' (init_sys listenB) ls) = nz_obs_list c ls (run_obs c (init_sys listenB) ls).
Proof. exact C12_closed_thm. Qed.
Print Assumptions C12_closed_traces.

(* the hypotheses are satisfiable on a wrap-forcing pair of ISNs ... *)
Example C12_example_hyps :
  u32 (issA exC) /\ u32 (issB exC) /\ forallb closed_label exT = true /\ run_ok exC (init_sys true) exT.
Proof. exact ex_hyps. Qed.
Print Assumptions C12_example_hyps.

(* ... both runs evaluated separately give the same ISN-relative views ... *)
Example C12_example_agree :
  nz_sys (shift_cfg ex_dA ex_dB exC) (run (shift_cfg ex_dA ex_dB exC) (init_sys true) exT) =
  nz_sys exC (run exC (init_sys true) exT) /\
  nz_obs_list (shift_cfg ex_dA ex_dB exC) exT (run_obs (shift_cfg ex_dA ex_dB exC) (init_sys true) exT) =
  nz_obs_list exC exT (run_obs exC (init_sys true) exT).
Proof. exact ex_agree. Qed.
Print Assumptions C12_example_agree.

(* ... and the original run really wraps while the shifted one does not *)
Example C12_example_wraps :
  option_map (fun t => (snd_iss t, snd_una t, snd_nxt t)) (live (endA (run exC (init_sys true) (firstn 10 exT)))) =
    Some (4294967290, 4294967291, 5) /\
  option_map (fun t => (snd_iss t, snd_una t, snd_nxt t))
             (live (endA (run (shift_cfg ex_dA ex_dB exC) (init_sys true) (firstn 10 exT)))) =
    Some (94, 95, 105) /\
  delivered (run exC (init_sys true) exT) SB = [1;2;3;4;5;6;7;8;9;10] /\
  delivered (run (shift_cfg ex_dA ex_dB exC) (init_sys true) exT) SB = [1;2;3;4;5;6;7;8;9;10] /\
  delivered (run exC (init_sys true) exT) SA = [7;7] /\
  panicked (run exC (init_sys true) exT) = false.
Proof. exact ex_wraps. Qed.
Print Assumptions C12_example_wraps.

(* A plain functional shift of the whole TCB is NOT preserved: SND.WL2 takes the
   raw ack field of an ACK-less SYN (tcb.rs l.539-540, l.870-871) and the
   comparison at l.716-717 then depends on the absolute ISN.  Closed-system
   trace, simultaneous open, close in SYN-RECEIVED, peer's SYN-ACK: SND.WL2 is 6
   with ISS 5 but stays 0 with ISS 3000000000.  SND.WND is 65535 either way (the
   stack never advertises another window), so nothing observable differs. *)
Theorem C12_wl2_plain_shift_refuted :
  u32 (issA wC) /\ u32 (issB wC) /\ forallb closed_label wT = true /\ run_ok wC (init_sys false) wT /\
  option_map (fun t => (st t, snd_wl1 t, snd_wl2 t, snd_wnd t))
             (live (endA (run wC (init_sys false) wT))) = Some (FinWait1, 77, 6, 65535) /\
  option_map (fun t => (st t, snd_wl1 t, snd_wl2 t, snd_wnd t))
             (live (endA (run (shift_cfg w_dA 0 wC) (init_sys false) wT))) = Some (FinWait1, 77, 0, 65535) /\
  wadd 6 w_dA = 3000000001.
Proof. exact wl2_not_shifted. Qed.
Print Assumptions C12_wl2_plain_shift_refuted.
