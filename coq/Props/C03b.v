(* C03 parts (b) and (c) - property theorems only.  Same closed system and hypotheses as C01. *)
From Elvis Require Import Model.Base Model.U32 Model.Tcb Model.TcpNet
  Proofs.TcbSafetyDefs Proofs.TcbSafetyThms Proofs.TcbLiveThm Proofs.TcbLiveEnd Proofs.TcbLiveWinRound
  Proofs.TcbLiveCloseSys Proofs.TcbLiveClose2Sys Proofs.TcbLiveWin Proofs.TcbLiveFinData Proofs.TcbLiveFinDataSys Proofs.TcbLiveClose3Sys.
Local Open Scope Z_scope.

(* (b) when both sides are synchronised, each side's IRS is the peer's ISS and its next expected
   sequence number lies between the peer's ISS+1 and the peer's SND.NXT (distances measured
   from ISS+1, all below 2^31), i.e. it equals what the peer has sent *)
Theorem C03_sync : forall (c : config) (b : bool) (ls : list label) (x : side) (t t' : tcb),
  u32 (issA c) -> u32 (issB c) -> 100 <= mtuA c <= 65535 -> 100 <= mtuB c <= 65535 ->
  closed_trace ls ->
  let s := run c (init_sys b) ls in
  zlen (subA s) < 2 ^ 31 - 2 ^ 17 -> zlen (subB s) < 2 ^ 31 - 2 ^ 17 ->
  end_of s x = ELive t -> end_of s (other x) = ELive t' ->
  st t <> SynSent -> st t <> SynReceived -> st t' <> SynSent -> st t' <> SynReceived ->
  let peer_base := wadd (iss_of c (other x)) 1 in
  rcv_irs t = iss_of c (other x) /\
  wsub (rcv_nxt t) peer_base <= wsub (snd_nxt t') peer_base /\
  wsub (snd_nxt t') peer_base <= zlen (sub_of s (other x)) + 1.
Proof. exact sync_explicit. Qed.
Print Assumptions C03_sync.

(* (c) in every state in which an endpoint has consumed the peer's FIN, everything the peer ever
   submitted has been handed to (or is buffered for) the application, and the peer cannot
   submit more *)
Theorem C03_data_before_fin : forall (c : config) (b : bool) (ls : list label) (y : side) (t : tcb),
  u32 (issA c) -> u32 (issB c) -> 100 <= mtuA c <= 65535 -> 100 <= mtuB c <= 65535 ->
  closed_trace ls ->
  let s := run c (init_sys b) ls in
  zlen (subA s) < 2 ^ 31 - 2 ^ 17 -> zlen (subB s) < 2 ^ 31 - 2 ^ 17 ->
  end_of s y = ELive t ->
  (st t = CloseWait \/ st t = Closing \/ st t = LastAck \/ st t = TimeWait) ->
  delivered s y ++ in_text t = sub_of s (other y) /\
  match end_of s (other y) with
  | ELive t' => accepts_send (st t') = false
  | EDead => True
  | _ => False
  end.
Proof. exact data_before_fin_explicit. Qed.
Print Assumptions C03_data_before_fin.

(* (d), PARTIAL: release after both sides have closed.  [close_trace] = A closes, one loss-free
   round, B closes, two loss-free rounds, then A's 2*MSL timer expires (LTick SA 2001).  From EVERY
   quiescent state both endpoints are released (B by the final ACK of its FIN in LAST-ACK, A by the
   2*MSL wait in TIME-WAIT), nothing is left in flight, nothing was reset, and no data is lost.
   Missing for the full clause (see also the simultaneous close below): B closing first, closes
   with data still queued or in flight, and arbitrary fair schedules. *)
Theorem C03_release_sequential_partial : forall (c : config) (s : sys) (a b : Z),
  Quiescent c s a b ->
  let s' := run c s close_trace in
  endA s' = EDead /\ endB s' = EDead /\ netA s' = [] /\ netB s' = [] /\ panicked s' = false /\
  subA s' = subA s /\ subB s' = subB s /\ delivered s' SA = delivered s SA /\ delivered s' SB = delivered s SB.
Proof. exact release_explicit. Qed.
Print Assumptions C03_release_sequential_partial.

(* the whole life of a connection, for every configuration: open (passive or simultaneous), any
   sequence of writes of any size in both directions (each followed by its loss-free rounds), then
   the closing sequence: both endpoints are released and every byte written was delivered to the
   peer application exactly once and in order *)
Theorem C03_connection_lifecycle_partial :
  forall (c : config) (listenB : bool) (ws : list (side * list Z)),
  u32 (issA c) -> u32 (issB c) -> 100 <= mtuA c <= 65535 -> 100 <= mtuB c <= 65535 ->
  (forall w, In w ws -> 0 < zlen (snd w)) ->
  let s := run c (init_sys listenB) (open_trace listenB ++ any_write_trace ws ++ close_trace) in
  endA s = EDead /\ endB s = EDead /\ netA s = [] /\ netB s = [] /\ panicked s = false /\
  forall x, sub_of s x = concat (chunks x ws) /\ delivered s (other x) = concat (chunks x ws).
Proof. exact release_from_start_explicit. Qed.
Print Assumptions C03_connection_lifecycle_partial.

(* (d), simultaneous close: [close_both_trace] = both sides close, two loss-free rounds, then both
   2*MSL timers expire.  Both endpoints go FIN-WAIT-1 -> CLOSING -> TIME-WAIT (at A the ACKs of its
   FIN overtake B's FIN, wait in the reassembly heap and are processed right after the FIN) and are
   released by the 2*MSL wait, from EVERY quiescent state; nothing is reset, lost or left in flight. *)
Theorem C03_release_simultaneous_partial : forall (c : config) (s : sys) (a b : Z),
  Quiescent c s a b ->
  let s' := run c s close_both_trace in
  endA s' = EDead /\ endB s' = EDead /\ netA s' = [] /\ netB s' = [] /\ panicked s' = false /\
  subA s' = subA s /\ subB s' = subB s /\ delivered s' SA = delivered s SA /\ delivered s' SB = delivered s SB.
Proof. exact release_simultaneous_explicit. Qed.
Print Assumptions C03_release_simultaneous_partial.

Theorem C03_connection_lifecycle_simultaneous_partial :
  forall (c : config) (listenB : bool) (ws : list (side * list Z)),
  u32 (issA c) -> u32 (issB c) -> 100 <= mtuA c <= 65535 -> 100 <= mtuB c <= 65535 ->
  (forall w, In w ws -> 0 < zlen (snd w)) ->
  let s := run c (init_sys listenB) (open_trace listenB ++ any_write_trace ws ++ close_both_trace) in
  endA s = EDead /\ endB s = EDead /\ netA s = [] /\ netB s = [] /\ panicked s = false /\
  forall x, sub_of s x = concat (chunks x ws) /\ delivered s (other x) = concat (chunks x ws).
Proof. exact lifecycle_simultaneous_explicit. Qed.
Print Assumptions C03_connection_lifecycle_simultaneous_partial.

(* (c) at system level, with an explicit trace: side x writes up to one window of bytes and closes AT
   ONCE, while the text is still queued (the TCB goes to FIN-WAIT-1 with the FIN deferred).  One
   emission puts on the wire a flight of contiguous data segments ([flight]: plain ACK headers, no
   FIN bit, sequence numbers from p) carrying exactly the written bytes, FOLLOWED by a single FIN
   whose sequence number is p + n, right after the last byte.  After in-order delivery and a read,
   the peer's application has received every byte, the peer is in CLOSE-WAIT with RCV.NXT = p + n + 1
   (data and FIN consumed, in that order) and nothing is left in the network or the reassembly heap.
   From EVERY quiescent state, either side.  (Partial w.r.t. the whole close: the way back - the
   peer's ACKs, FIN-WAIT-2, the peer's own close and the release of both TCBs - is proved only for a
   close issued with nothing queued, see C03_release_* (A first, both at once, B first).) *)
Theorem C03_close_with_queued_data_partial : forall (c : config) (s : sys) (a b : Z) (x : side) (bytes : list Z),
  Quiescent c s a b -> 0 < zlen bytes <= 65535 ->
  let n := zlen bytes in
  let p := sel x a b in
  let q := sel x b a in
  let s1 := run c s [LSend x bytes; LClose x; LEmit x] in
  let s2 := run c s1 (repeat (LDeliver x 0) (length (net_of s1 x)) ++ [LRecv (other x)]) in
  (exists lp rp segs, net_of s1 x = segs ++ [mkSeg (fin_hdr lp rp (wadd p n) q) []] /\
      flight lp rp q p segs /\ flight_bytes segs = bytes) /\
  (exists tx ty, end_of s2 x = ELive tx /\ end_of s2 (other x) = ELive ty /\
      st tx = FinWait1 /\ snd_una tx = p /\ snd_nxt tx = wadd (wadd p n) 1 /\ out_text tx = [] /\
      st ty = CloseWait /\ rcv_nxt ty = wadd (wadd p n) 1 /\ in_text ty = [] /\ in_segs ty = []) /\
  net_of s2 x = [] /\ net_of s2 (other x) = [] /\ panicked s2 = false /\
  sub_of s2 x = sub_of s x ++ bytes /\ sub_of s2 (other x) = sub_of s (other x) /\
  delivered s2 (other x) = delivered s (other x) ++ bytes /\ delivered s2 x = delivered s x.
Proof. exact close_after_write_explicit. Qed.
Print Assumptions C03_close_with_queued_data_partial.

(* (d), B closes first: [close_trace_B] = [LClose SB; LFair 1; LClose SA; LFair 2; LTick SB 2001].
   Not the mirror image of C03_release_sequential_partial, because in every round A's half still runs
   first: A (ESTABLISHED -> CLOSE-WAIT -> LAST-ACK) sends the two ACKs of B's FIN and its own FIN with
   its copy in ONE emission, so B goes FIN-WAIT-1 -> FIN-WAIT-2 -> TIME-WAIT within a single half-round;
   B's ACKs then delete A's TCB, and B is released by its 2*MSL timer.  From EVERY quiescent state. *)
Theorem C03_release_B_first_partial : forall (c : config) (s : sys) (a b : Z),
  Quiescent c s a b ->
  let s' := run c s close_trace_B in
  endA s' = EDead /\ endB s' = EDead /\ netA s' = [] /\ netB s' = [] /\ panicked s' = false /\
  subA s' = subA s /\ subB s' = subB s /\ delivered s' SA = delivered s SA /\ delivered s' SB = delivered s SB.
Proof. exact release_B_explicit. Qed.
Print Assumptions C03_release_B_first_partial.

Theorem C03_connection_lifecycle_B_first_partial :
  forall (c : config) (listenB : bool) (ws : list (side * list Z)),
  u32 (issA c) -> u32 (issB c) -> 100 <= mtuA c <= 65535 -> 100 <= mtuB c <= 65535 ->
  (forall w, In w ws -> 0 < zlen (snd w)) ->
  let s := run c (init_sys listenB) (open_trace listenB ++ any_write_trace ws ++ close_trace_B) in
  endA s = EDead /\ endB s = EDead /\ netA s = [] /\ netB s = [] /\ panicked s = false /\
  forall x, sub_of s x = concat (chunks x ws) /\ delivered s (other x) = concat (chunks x ws).
Proof. exact lifecycle_B_explicit. Qed.
Print Assumptions C03_connection_lifecycle_B_first_partial.
