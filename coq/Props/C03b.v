(* C03 parts (b) and (c) - property theorems only.  Same closed system and hypotheses as C01. *)
From Elvis Require Import Model.Base Model.U32 Model.Tcb Model.TcpNet
  Proofs.TcbSafetyDefs Proofs.TcbSafetyThms.
Local Open Scope Z_scope.

(* (b) when both sides are synchronised, each side's IRS is the peer's ISS and its next expected
   sequence number lies between the peer's ISS+1 and the peer's SND.NXT (distances measured
   from ISS+1, all below 2^31), i.e. it equals what the peer has sent *)
Theorem C03_sync : forall (c : config) (b : bool) (ls : list label) (x : side) (t t' : tcb),
  u32 (issA c) -> u32 (issB c) -> 100 <= mtuA c <= 65535 -> 100 <= mtuB c <= 65535 ->
  closed_trace ls ->
  let s := run c (init_sys b) ls in
  zlen (subA s) < 2 ^ 31 - 2 ^ 17 -> zlen (subB s) < 2 ^ 31 - 2 ^ 17 ->
  end_of s x = ELive t -> end_of s (other x) = ELive t' ->
  st t <> SynSent -> st t <> SynReceived -> st t' <> SynSent -> st t' <> SynReceived ->
  let peer_base := wadd (iss_of c (other x)) 1 in
  rcv_irs t = iss_of c (other x) /\
  wsub (rcv_nxt t) peer_base <= wsub (snd_nxt t') peer_base /\
  wsub (snd_nxt t') peer_base <= zlen (sub_of s (other x)) + 1.
Proof. exact sync_explicit. Qed.
Print Assumptions C03_sync.

(* (c) in every state in which an endpoint has consumed the peer's FIN, everything the peer ever
   submitted has been handed to (or is buffered for) the application, and the peer cannot
   submit more *)
Theorem C03_data_before_fin : forall (c : config) (b : bool) (ls : list label) (y : side) (t : tcb),
  u32 (issA c) -> u32 (issB c) -> 100 <= mtuA c <= 65535 -> 100 <= mtuB c <= 65535 ->
  closed_trace ls ->
  let s := run c (init_sys b) ls in
  zlen (subA s) < 2 ^ 31 - 2 ^ 17 -> zlen (subB s) < 2 ^ 31 - 2 ^ 17 ->
  end_of s y = ELive t ->
  (st t = CloseWait \/ st t = Closing \/ st t = LastAck \/ st t = TimeWait) ->
  delivered s y ++ in_text t = sub_of s (other y) /\
  match end_of s (other y) with
  | ELive t' => accepts_send (st t') = false
  | EDead => True
  | _ => False
  end.
Proof. exact data_before_fin_explicit. Qed.
Print Assumptions C03_data_before_fin.
