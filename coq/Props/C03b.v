(* C03 parts (b) and (c) - property theorems only.  Same closed system and hypotheses as C01. *)
From Elvis Require Import Model.Base Model.U32 Model.Tcb Model.TcpNet
  Proofs.TcbSafetyDefs Proofs.TcbSafetyThms Proofs.TcbLiveThm Proofs.TcbLiveEnd Proofs.TcbLiveWinRound
  Proofs.TcbLiveCloseSys Proofs.TcbLiveClose2Sys.
Local Open Scope Z_scope.

(* (b) when both sides are synchronised, each side's IRS is the peer's ISS and its next expected
   sequence number lies between the peer's ISS+1 and the peer's SND.NXT (distances measured
   from ISS+1, all below 2^31), i.e. it equals what the peer has sent *)
Theorem C03_sync : forall (c : config) (b : bool) (ls : list label) (x : side) (t t' : tcb),
  u32 (issA c) -> u32 (issB c) -> 100 <= mtuA c <= 65535 -> 100 <= mtuB c <= 65535 ->
  closed_trace ls ->
  let s := run c (init_sys b) ls in
  zlen (subA s) < 2 ^ 31 - 2 ^ 17 -> zlen (subB s) < 2 ^ 31 - 2 ^ 17 ->
  end_of s x = ELive t -> end_of s (other x) = ELive t' ->
  st t <> SynSent -> st t <> SynReceived -> st t' <> SynSent -> st t' <> SynReceived ->
  let peer_base := wadd (iss_of c (other x)) 1 in
  rcv_irs t = iss_of c (other x) /\
  wsub (rcv_nxt t) peer_base <= wsub (snd_nxt t') peer_base /\
  wsub (snd_nxt t') peer_base <= zlen (sub_of s (other x)) + 1.
Proof. exact sync_explicit. Qed.
Print Assumptions C03_sync.

(* (c) in every state in which an endpoint has consumed the peer's FIN, everything the peer ever
   submitted has been handed to (or is buffered for) the application, and the peer cannot
   submit more *)
Theorem C03_data_before_fin : forall (c : config) (b : bool) (ls : list label) (y : side) (t : tcb),
  u32 (issA c) -> u32 (issB c) -> 100 <= mtuA c <= 65535 -> 100 <= mtuB c <= 65535 ->
  closed_trace ls ->
  let s := run c (init_sys b) ls in
  zlen (subA s) < 2 ^ 31 - 2 ^ 17 -> zlen (subB s) < 2 ^ 31 - 2 ^ 17 ->
  end_of s y = ELive t ->
  (st t = CloseWait \/ st t = Closing \/ st t = LastAck \/ st t = TimeWait) ->
  delivered s y ++ in_text t = sub_of s (other y) /\
  match end_of s (other y) with
  | ELive t' => accepts_send (st t') = false
  | EDead => True
  | _ => False
  end.
Proof. exact data_before_fin_explicit. Qed.
Print Assumptions C03_data_before_fin.

(* (d), PARTIAL: release after both sides have closed.  [close_trace] = A closes, one loss-free
   round, B closes, two loss-free rounds, then A's 2*MSL timer expires (LTick SA 2001).  From EVERY
   quiescent state both endpoints are released (B by the final ACK of its FIN in LAST-ACK, A by the
   2*MSL wait in TIME-WAIT), nothing is left in flight, nothing was reset, and no data is lost.
   Missing for the full clause (see also the simultaneous close below): B closing first, closes
   with data still queued or in flight, and arbitrary fair schedules. *)
Theorem C03_release_sequential_partial : forall (c : config) (s : sys) (a b : Z),
  Quiescent c s a b ->
  let s' := run c s close_trace in
  endA s' = EDead /\ endB s' = EDead /\ netA s' = [] /\ netB s' = [] /\ panicked s' = false /\
  subA s' = subA s /\ subB s' = subB s /\ delivered s' SA = delivered s SA /\ delivered s' SB = delivered s SB.
Proof. exact release_explicit. Qed.
Print Assumptions C03_release_sequential_partial.

(* the whole life of a connection, for every configuration: open (passive or simultaneous), any
   sequence of writes of any size in both directions (each followed by its loss-free rounds), then
   the closing sequence: both endpoints are released and every byte written was delivered to the
   peer application exactly once and in order *)
Theorem C03_connection_lifecycle_partial :
  forall (c : config) (listenB : bool) (ws : list (side * list Z)),
  u32 (issA c) -> u32 (issB c) -> 100 <= mtuA c <= 65535 -> 100 <= mtuB c <= 65535 ->
  (forall w, In w ws -> 0 < zlen (snd w)) ->
  let s := run c (init_sys listenB) (open_trace listenB ++ any_write_trace ws ++ close_trace) in
  endA s = EDead /\ endB s = EDead /\ netA s = [] /\ netB s = [] /\ panicked s = false /\
  forall x, sub_of s x = concat (chunks x ws) /\ delivered s (other x) = concat (chunks x ws).
Proof. exact release_from_start_explicit. Qed.
Print Assumptions C03_connection_lifecycle_partial.

(* (d), simultaneous close: [close_both_trace] = both sides close, two loss-free rounds, then both
   2*MSL timers expire.  Both endpoints go FIN-WAIT-1 -> CLOSING -> TIME-WAIT (at A the ACKs of its
   FIN overtake B's FIN, wait in the reassembly heap and are processed right after the FIN) and are
   released by the 2*MSL wait, from EVERY quiescent state; nothing is reset, lost or left in flight. *)
Theorem C03_release_simultaneous_partial : forall (c : config) (s : sys) (a b : Z),
  Quiescent c s a b ->
  let s' := run c s close_both_trace in
  endA s' = EDead /\ endB s' = EDead /\ netA s' = [] /\ netB s' = [] /\ panicked s' = false /\
  subA s' = subA s /\ subB s' = subB s /\ delivered s' SA = delivered s SA /\ delivered s' SB = delivered s SB.
Proof. exact release_simultaneous_explicit. Qed.
Print Assumptions C03_release_simultaneous_partial.

Theorem C03_connection_lifecycle_simultaneous_partial :
  forall (c : config) (listenB : bool) (ws : list (side * list Z)),
  u32 (issA c) -> u32 (issB c) -> 100 <= mtuA c <= 65535 -> 100 <= mtuB c <= 65535 ->
  (forall w, In w ws -> 0 < zlen (snd w)) ->
  let s := run c (init_sys listenB) (open_trace listenB ++ any_write_trace ws ++ close_both_trace) in
  endA s = EDead /\ endB s = EDead /\ netA s = [] /\ netB s = [] /\ panicked s = false /\
  forall x, sub_of s x = concat (chunks x ws) /\ delivered s (other x) = concat (chunks x ws).
Proof. exact lifecycle_simultaneous_explicit. Qed.
Print Assumptions C03_connection_lifecycle_simultaneous_partial.
