(* C05 - the simulated link delivers frames as configured, to the right taps.
   Property theorems only; each is closed by [exact lemma]; statements are pinned.

   Model: Model/Link.v (network.rs, pci.rs, pci/pci_session.rs transcribed: allocator and tap
   registration, MTU test of send_pci, unicast lookup / broadcast fan-out of Network::send,
   DemuxInfo of PciSession::receive, Latency::next / Throughput::next, and the timing of
   Network::send as a FIFO single server (the throughput permit) followed by the latency).
   [net_inv], [winv], [job_ok], [txf_ok], [total_bound_fails]: Proofs/LinkFacts.v;
   [TraceOK], [send_ok], [accepted_ok], [window_ok]: Proofs/LinkTrace.v.

   Timing is parametric in
     g       the timer tick (1 = ideal clock, 10^6 = tokio's millisecond wheel),
     j_wait  a scheduler delay >= 0 per frame before it takes the permit (any interleaving of
             a real runtime; 0 under paused virtual time),
     j_thr, j_lat  the rate / latency drawn for the frame (constant: the base values;
             variable: any value in the range of C05_variable_settings),
     the order of the job list = the order in which frames obtain the permit (arbitrary).
   The transmission time of the MAIN model is that of the repaired code (rounded up to whole
   ns, .cache/c05/fix.patch); [tx_time_orig] is the code as it stands (whole ms, rounded
   down), for which the throughput clause is REFUTED below.

   Not covered by theorems (runtime behaviour, validated by traces only): that tokio's Notify
   hands the permit on, spawn/wake-up order, the loss branch (loss_rate = 0 throughout), a
   target protocol missing on the receiving machine.
   A broadcast also reaches the sender's own tap as coded; the property says "every other
   tap", so this is neither required nor forbidden: C05_remark_broadcast_reaches_sender. *)
From Elvis Require Import Model.Base Model.Link Proofs.LinkFacts Proofs.LinkTrace.
Local Open Scope Z_scope.

(* ---- to the right taps *)

(* a frame sent to a hardware address is delivered to the tap owning that address and to no other *)
Theorem C05_unicast_only_owner : forall n d, net_inv n -> d <> BROADCAST_MAC ->
  forall T, In T (route n (Some d)) <-> (In T (n_taps n) /\ t_mac T = d).
Proof. exact route_unicast. Qed.
Print Assumptions C05_unicast_only_owner.

Theorem C05_unicast_at_most_one : forall n d, d <> BROADCAST_MAC -> (length (route n (Some d)) <= 1)%nat.
Proof. exact route_unicast_length. Qed.
Print Assumptions C05_unicast_at_most_one.

(* an address nobody owns reaches nobody *)
Theorem C05_unknown_address_nobody : forall n d, d <> BROADCAST_MAC ->
  (forall T, In T (n_taps n) -> t_mac T <> d) -> route n (Some d) = [].
Proof. exact route_unknown. Qed.
Print Assumptions C05_unknown_address_nobody.

(* a broadcast frame (destination None or the broadcast address) is delivered to every other tap *)
Theorem C05_broadcast_all_others : forall n dst src T,
  dst = None \/ dst = Some BROADCAST_MAC ->
  In T (n_taps n) -> t_mac T <> src -> In T (route n dst).
Proof. exact route_broadcast_others. Qed.
Print Assumptions C05_broadcast_all_others.

Theorem C05_remark_broadcast_reaches_sender : forall n dst T,
  dst = None \/ dst = Some BROADCAST_MAC -> In T (n_taps n) -> In T (route n dst).
Proof. exact route_broadcast_self. Qed.
Print Assumptions C05_remark_broadcast_reaches_sender.

(* ---- unchanged, exactly once *)

(* what the target protocol is given: the sender address, the destination, the network's MTU
   and the payload of the frame, on the machine and slot of a tap the routing function names *)
Theorem C05_payload_sender_unchanged : forall (A : Type) n (f : frame A) r, In r (deliver n f) ->
  exists T, In T (route n (f_dst f)) /\
    rx_machine r = t_machine T /\ rx_slot r = t_slot T /\
    rx_src r = f_src f /\ rx_dst r = f_dst f /\ rx_mtu r = n_mtu n /\ rx_payload r = f_payload f.
Proof. exact @deliver_fields. Qed.
Print Assumptions C05_payload_sender_unchanged.

(* loss-free network: one reception per tap named by the routing function, no tap named twice *)
Theorem C05_exactly_once : forall (A : Type) n (f : frame A), net_inv n ->
  NoDup (map t_mac (route n (f_dst f))) /\
  incl (route n (f_dst f)) (n_taps n) /\
  deliver n f = map (fun t => mkRx (t_machine t) (t_slot t) (f_src f) (f_dst f) (n_mtu n) (f_payload f))
                    (route n (f_dst f)).
Proof. exact @deliver_exactly_once. Qed.
Print Assumptions C05_exactly_once.

(* ---- MTU *)

(* a frame longer than the MTU is refused with an error (carrying the MTU); the wire is unchanged *)
Theorem C05_mtu_refused : forall (A : Type) n src (payload : list A) dst proto wire,
  n_mtu n < Z.of_nat (length payload) ->
  send_pci n src payload dst proto wire = (Err (n_mtu n), wire).
Proof. exact @send_pci_refused. Qed.
Print Assumptions C05_mtu_refused.

(* up to and including the MTU it is accepted and goes on the wire as it is *)
Theorem C05_mtu_accepted : forall (A : Type) n src (payload : list A) dst proto wire,
  Z.of_nat (length payload) <= n_mtu n ->
  send_pci n src payload dst proto wire = (Ok tt, wire ++ [mkFrame src dst proto payload]).
Proof. exact @send_pci_accepted. Qed.
Print Assumptions C05_mtu_accepted.

(* ---- addresses *)

(* one attach: the invariant (addresses pairwise distinct, below the counter, nobody
   overwritten) is kept, the new tap gets the counter's value, every earlier tap stays *)
Theorem C05_attach_step : forall n m s T n', net_inv n -> attach n m s = Ok (T, n') ->
  net_inv n' /\
  T = mkTap (n_next_mac n) m s /\
  n_taps n' = T :: n_taps n /\
  n_next_mac n' = n_next_mac n + 1 /\
  n_mtu n' = n_mtu n /\ n_lat_base n' = n_lat_base n /\ n_lat_rand n' = n_lat_rand n /\
  n_thr_base n' = n_thr_base n /\ n_thr_rand n' = n_thr_rand n.
Proof. exact attach_spec. Qed.
Print Assumptions C05_attach_step.

Theorem C05_new_network_inv : forall mtu lb lr tb tr, net_inv (new_net mtu lb lr tb tr).
Proof. exact net_inv_new. Qed.
Print Assumptions C05_new_network_inv.

(* any number of networks, machines and taps per machine: every tap on a network has a
   distinct hardware address (pairs (network, address) are pairwise distinct), every network
   satisfies the invariant and every tap is registered on its network *)
Theorem C05_macs_distinct : forall c w ts, build c = Ok (w, ts) ->
  Forall net_inv w /\
  NoDup (map tap_key ts) /\
  (forall it, In it ts -> exists n, nth_error w (fst it) = Some n /\ In (snd it) (n_taps n)).
Proof. exact build_inv. Qed.
Print Assumptions C05_macs_distinct.

(* the allocator never returns an error value, and only panics when 2^64 - 1 addresses are used up *)
Theorem C05_attach_total : forall n m s, n_next_mac n < U64_MAX -> exists T n', attach n m s = Ok (T, n').
Proof. exact attach_ok. Qed.
Print Assumptions C05_attach_total.

(* ---- timing *)

(* no frame is delivered earlier than the latency drawn for it (>= the configured base:
   C05_variable_settings); any tick, any rate, any scheduler delay, any transmission-time function *)
Theorem C05_latency_lb : forall txf g, 0 < g -> txf_ok txf -> forall js b, Forall job_ok js ->
  Forall2 (fun j k => j_arr j + j_lat j <= k_dlv k) js (sched txf g b js).
Proof. exact sched_latency. Qed.
Print Assumptions C05_latency_lb.

(* transmissions on a throttled network do not overlap *)
Theorem C05_serialised : forall txf g, 0 < g -> txf_ok txf -> forall js b p q jp jq kp kq,
  Forall job_ok js -> (p < q)%nat ->
  nth_error js p = Some jp -> nth_error js q = Some jq ->
  nth_error (sched txf g b js) p = Some kp -> nth_error (sched txf g b js) q = Some kq ->
  j_thr jp <> 0 -> j_thr jq <> 0 ->
  k_start kp <= k_end kp /\ k_end kp <= k_start kq.
Proof. exact sched_serialised. Qed.
Print Assumptions C05_serialised.

(* throughput, every window: the bytes handed over at or after s and delivered by e take at
   most (e - max(s, busy)) at the largest rate M any of the frames was given *)
Theorem C05_throughput_window : forall g M, 0 < g -> 0 < M -> forall js b s e,
  Forall job_ok js -> Forall (fun j => 0 < j_thr j <= M) js ->
  wbytes s e js (sched tx_time g b js) <= M * Z.max 0 (e - Z.max s b).
Proof. exact sched_window. Qed.
Print Assumptions C05_throughput_window.

(* throughput, the property's form: deliver_n - send_0 >= 10^9 * sum len_i / rate  (ns) *)
Theorem C05_throughput_bound : forall g M, 0 < g -> 0 < M -> forall js b s e,
  Forall job_ok js -> Forall (fun j => 0 < j_thr j <= M) js ->
  Forall2 (fun j k => s <= j_arr j /\ k_dlv k <= e) js (sched tx_time g b js) ->
  total_len js * NS <= M * Z.max 0 (e - s).
Proof. exact sched_total. Qed.
Print Assumptions C05_throughput_bound.

(* REFUTED for the code as it stands (network.rs:107, whole milliseconds rounded down): the same
   statement with [tx_time_orig] fails; minimal witness: one 1-byte frame at 1001 B/s is
   delivered at the instant it is sent *)
Theorem C05_throughput_bound_orig_refuted :
  exists g M js b s e, total_bound_fails tx_time_orig g M js b s e.
Proof. exact refuted_exists. Qed.
Print Assumptions C05_throughput_bound_orig_refuted.

Theorem C05_throughput_bound_orig_refuted_minimal :
  total_bound_fails tx_time_orig 1 1001 [mkJob 0 1 1001 0 0] 0 0 0.
Proof. exact orig_refuted_minimal. Qed.
Print Assumptions C05_throughput_bound_orig_refuted_minimal.

(* 999 one-byte frames at 1001 B/s, all handed over at 0, are all delivered at 0 (they need
   998 ms); with the ideal clock and with tokio's millisecond tick *)
Theorem C05_throughput_bound_orig_refuted_999 :
  total_bound_fails tx_time_orig 1 1001 (burst 999 1 1001) 0 0 0 /\
  total_bound_fails tx_time_orig 1000000 1001 (burst 999 1 1001) 0 0 0.
Proof. exact (conj orig_refuted_999 orig_refuted_999_tick). Qed.
Print Assumptions C05_throughput_bound_orig_refuted_999.

(* variable settings: only the bounds are claimed *)
Theorem C05_variable_settings : forall n u,
  (0 <= n_lat_rand n -> n_lat_base n <= lat_next n u <= n_lat_base n + n_lat_rand n) /\
  (forall r, 0 <= n_thr_rand n -> thr_next n u = Ok r -> n_thr_base n <= r <= thr_max n).
Proof. exact (fun n u => conj (lat_next_ge n u) (thr_next_range n u)). Qed.
Print Assumptions C05_variable_settings.

(* the hypotheses are satisfiable: both transmission-time functions are admissible, and a
   concrete schedule (1 byte at 1001 B/s, then 1500 bytes at 12.5 MB/s with 2 ms latency) *)
Theorem C05_example_hypotheses :
  txf_ok tx_time /\ txf_ok tx_time_orig /\
  let js := [mkJob 0 1 1001 0 0; mkJob 0 1500 12500000 2000000 0] in
  Forall job_ok js /\ Forall (fun j => 0 < j_thr j <= 12500000) js /\
  sched tx_time 1 0 js = [mkSlot 0 999001 999001; mkSlot 999001 1119001 3119001].
Proof. exact (conj txf_ok_fixed (conj txf_ok_orig sched_example)). Qed.
Print Assumptions C05_example_hypotheses.

(* ---- traces of the real simulation *)

(* what a trace accepted by the extracted validator satisfies *)
Theorem C05_validate_sound : forall c tr, validate c tr = true -> TraceOK c tr.
Proof. exact validate_sound. Qed.
Print Assumptions C05_validate_sound.

(* the per-tap clauses of [accepted_ok] read through the routing theorems *)
Theorem C05_trace_recipients : forall n d m,
  (net_inv n -> d <> BROADCAST_MAC -> 0 <= d ->
     (mem_mac m (route n (dst_of d)) = true <-> (m = d /\ mem_mac d (n_taps n) = true))) /\
  (d < 0 \/ d = BROADCAST_MAC -> mem_mac m (route n (dst_of d)) = mem_mac m (n_taps n)).
Proof. exact (fun n d m => conj (mem_mac_route_unicast n d m) (mem_mac_route_broadcast n d m)). Qed.
Print Assumptions C05_trace_recipients.

(* the throughput clause of an accepted trace in the property's form: from the first
   hand-over a to the last delivery b, all bytes of the network's frames *)
Theorem C05_trace_throughput_total : forall thr fs a b, window_ok thr fs -> In a fs -> In b fs ->
  (forall f, In f fs -> fr_arr a <= fr_arr f /\ fr_dlv f <= fr_dlv b) ->
  fr_arr a <= fr_dlv b ->
  total_fr fs * NS <= thr * (fr_dlv b - fr_arr a).
Proof. exact window_total. Qed.
Print Assumptions C05_trace_throughput_total.
