(* C11 - IPv4 reassembly rebuilds exactly the datagrams that were fragmented.
   Property theorems only; each is closed by [exact lemma]; statements are pinned.

   Model/Reasm.v follows the code AFTER the two repairs: /repo commit 53148058 (assembly by
   offset with a cursor) and /verif/.cache/c11/fix-2b-epoch.patch (Epoch = u64; a newly allocated
   buffer counts its epochs on from retired_epoch, the greatest epoch of any buffer freed so far).
   The functions suffixed _orig follow the code before both repairs; the two _refuted theorems
   are counterexamples for that code.

   Vocabulary (Proofs/ReasmFacts.v, Proofs/ReasmTrace.v):
     WfDgram oh body   an unfragmented datagram: FO = 0, MF = 0, TL = IHL*4 + |body| <= 65535
     Piece oh body p   p = (header, payload) carries the slice of body at octet 8*FO, MF is clear
                       iff the slice ends where body ends, every other piece is a multiple of 8
                       octets, all other header fields are those of oh.  Any re-fragmentation of
                       any fragment through any MTU chain yields Pieces; overlapping pieces from
                       different chains and duplicates are Pieces too.
     Covers ps n       every octet of [0, n) lies inside some piece of ps
     RInv G r          buffer invariant: for every key the buffer of r holds exactly the pieces
                       the ghost map G lists for it (as a heap, with the bitmap, TDL, header and
                       timer the RFC 791 procedure derives from them)
     gpieces G k       the pieces received for key k since its buffer was last started
     EB n r            no epoch in r exceeds n (the u64 counters are away from 2^64-1)
     cur_epoch r k     the epoch of k's buffer, or retired_epoch if k has none *)
From Coq Require Import ZArith List Bool Permutation Sorted.
From Elvis Require Import Model.Base Model.Reasm.
From Elvis Require Import Proofs.ReasmHeap Proofs.ReasmBits Proofs.ReasmFacts Proofs.ReasmTrace Proofs.ReasmOrig.
Import ListNotations.
Local Open Scope Z_scope.

(* ---------------------------------------------------------------- refuted on the code as it was *)

(* original code: some history of genuine pieces returns something else than the datagram
   (witness: second fragment delivered twice, 24 octets returned for a 16-octet datagram) *)
Theorem C11_returns_original_orig_refuted :
  exists (D : bufid -> hdr * list Z) (evs : list (event Z)) r outs h m,
    Forall (GoodEvent D) evs /\ run_orig reasm_new evs = Ok (r, outs) /\
    In (ObsRecv (Complete h m)) outs /\ (h, m) <> D (buf_id h).
Proof. exact returns_original_orig_refuted. Qed.
Print Assumptions C11_returns_original_orig_refuted.

(* original code: a callback armed for an earlier datagram discards the buffer of a later one
   with the same key although a packet for that key arrived after the callback was armed *)
Theorem C11_expiry_orig_refuted :
  exists (h : hdr) (b : list Z) r1 t k e evs r2 outs,
    receive_orig reasm_new h b = Ok (r1, Incomplete t k e) /\
    run_orig r1 evs = Ok (r2, outs) /\
    recv_for k evs = true /\
    find k (r_segs r2) <> None /\ find k (r_segs (maybe_cull_orig r2 k e)) = None.
Proof. exact expiry_orig_refuted. Qed.
Print Assumptions C11_expiry_orig_refuted.

(* ---------------------------------------------------------------- the repaired code *)

Theorem C11_invariant_init : forall A : Type, @RInv A (fun _ => None) reasm_new.
Proof. exact (@RInv_new). Qed.
Print Assumptions C11_invariant_init.

(* One arrival, any reachable state: a piece of (oh, body) whose key is free or already
   reassembles (oh, body) never panics; it returns Complete exactly when the pieces received
   since the buffer was started, together with this one, cover the datagram, and then returns
   (oh, body) itself; otherwise Incomplete with timer max(15, TTL), its key and the next epoch
   of that key.  The invariant holds again with the ghost map updated accordingly, so the
   statement applies to every history. *)
Theorem C11_receive_step : forall (A : Type) (G : @gmap A) r n oh body (p : hdr * list A),
  RInv G r -> EB n r -> n < U64MAX -> WfDgram oh body -> Piece oh body p -> Compatible G oh body ->
  let k := buf_id oh in
  let ps := gpieces G k in
  exists r' res, receive r (fst p) (snd p) = Ok (r', res) /\
    ((Covers (p :: ps) (Z.of_nat (length body)) /\ res = Complete oh body /\
      RInv (gset G k None) r' /\ EB n r')
     \/
     (~ Covers (p :: ps) (Z.of_nat (length body)) /\
      res = Incomplete (Z.max 15 (h_ttl oh)) k (cur_epoch r k + 1) /\
      RInv (gset G k (Some (oh, body, p :: ps))) r' /\ EB (n + 1) r')).
Proof. exact (@receive_spec). Qed.
Print Assumptions C11_receive_step.

Theorem C11_complete_iff : forall (A : Type) (G : @gmap A) r n oh body (p : hdr * list A),
  RInv G r -> EB n r -> n < U64MAX -> WfDgram oh body -> Piece oh body p -> Compatible G oh body ->
  exists r' res, receive r (fst p) (snd p) = Ok (r', res) /\
    (is_complete res = true <-> Covers (p :: gpieces G (buf_id oh)) (Z.of_nat (length body))).
Proof. exact (@complete_iff). Qed.
Print Assumptions C11_complete_iff.

Theorem C11_returns_original : forall (A : Type) (G : @gmap A) r n oh body (p : hdr * list A) r' h m,
  RInv G r -> EB n r -> n < U64MAX -> WfDgram oh body -> Piece oh body p -> Compatible G oh body ->
  receive r (fst p) (snd p) = Ok (r', Complete h m) -> h = oh /\ m = body.
Proof. exact (@returns_original). Qed.
Print Assumptions C11_returns_original.

(* the expiry callback keeps the invariant: its key is untouched or free again, other keys untouched *)
Theorem C11_cull_step : forall (A : Type) (G : @gmap A) r n k e, RInv G r -> EB n r ->
  exists G', RInv G' (maybe_cull r k e) /\ EB n (maybe_cull r k e) /\
             (forall k', k' <> k -> G' k' = G k') /\ (G' k = G k \/ G' k = None).
Proof. exact (@cull_spec). Qed.
Print Assumptions C11_cull_step.

(* Whole histories from the empty reassembler: any number of datagrams (one per key, D), every
   packet a piece of the datagram owning its key - any order, interleaving, duplicates, overlapping
   re-fragmentations - and expiry callbacks with arbitrary arguments at arbitrary points.  The run
   never panics and every datagram handed up is the original one, header and payload. *)
Theorem C11_trace_returns_original : forall (A : Type) (D : bufid -> hdr * list A) (evs : list (event A)),
  Forall (GoodEvent D) evs -> Z.of_nat (length evs) < U64MAX ->
  exists r outs, run reasm_new evs = Ok (r, outs) /\
    forall h m, In (ObsRecv (Complete h m)) outs -> (h, m) = D (buf_id h).
Proof. exact (@trace_returns_original). Qed.
Print Assumptions C11_trace_returns_original.

Theorem C11_hypotheses_satisfiable :
  Forall (GoodEvent w_D) w_dup /\ Z.of_nat (length w_dup) < U64MAX /\
  (exists r t1 e1 t2 e2,
    run reasm_new w_dup =
      Ok (r, [ObsRecv (Incomplete t1 w_key e1); ObsRecv (Incomplete t2 w_key e2);
              ObsRecv (Complete w_oh w_body)])) /\
  (* and the history that defeats the original expiry: first fragment, completion, first fragment
     again - the callback of the very first arrival now leaves the new buffer alone *)
  (exists r1 t e r2 outs,
    receive reasm_new (fst w_p1) (snd w_p1) = Ok (r1, Incomplete t w_key e) /\
    run r1 [EvRecv (fst w_p2) (snd w_p2); EvRecv (fst w_p1) (snd w_p1)] = Ok (r2, outs) /\
    find w_key (r_segs r2) <> None /\ maybe_cull r2 w_key e = r2).
Proof.
  exact (conj (proj1 good_history_example)
        (conj (proj2 good_history_example) (conj returns_original_witness expiry_witness))).
Qed.
Print Assumptions C11_hypotheses_satisfiable.

(* isolation: a packet (any packet, malformed ones included) and a callback leave every buffer
   of another key as it is ... *)
Theorem C11_isolation_receive_frame : forall (A : Type) (r : reasm A) h b r' res,
  receive r h b = Ok (r', res) ->
  forall k', k' <> buf_id h -> find k' (r_segs r') = find k' (r_segs r).
Proof. exact (@receive_frame). Qed.
Print Assumptions C11_isolation_receive_frame.

Theorem C11_isolation_cull_frame : forall (A : Type) (r : reasm A) k e k', k' <> k ->
  find k' (r_segs (maybe_cull r k e)) = find k' (r_segs r).
Proof. exact (@cull_frame). Qed.
Print Assumptions C11_isolation_cull_frame.

(* ... and what a packet returns depends on the rest of the reassembler only through the value
   of retired_epoch *)
Theorem C11_isolation_local : forall (A : Type) (r1 r2 : reasm A) h b,
  find (buf_id h) (r_segs r1) = find (buf_id h) (r_segs r2) -> r_epoch r1 = r_epoch r2 ->
  match receive r1 h b, receive r2 h b with
  | Ok (r1', res1), Ok (r2', res2) =>
    res1 = res2 /\ find (buf_id h) (r_segs r1') = find (buf_id h) (r_segs r2') /\
    r_epoch r1' = r_epoch r2'
  | Panic a, Panic b => a = b
  | Err a, Err b => a = b
  | OutOfFuel, OutOfFuel => True
  | _, _ => False
  end.
Proof. exact (@receive_local). Qed.
Print Assumptions C11_isolation_local.

(* expiry, from ANY state and for arbitrary packets and callbacks in between: the callback (k, e)
   handed out with an Incomplete result discards the buffer if no packet for k arrived in between
   (it may already be gone), and has no effect at all if one did - also when the datagram
   completed, was flushed or was discarded meanwhile and the key is in use again *)
Theorem C11_expiry : forall (A : Type) (r0 : reasm A) h b r1 t k e evs r2 outs,
  receive r0 h b = Ok (r1, Incomplete t k e) -> run r1 evs = Ok (r2, outs) ->
  (recv_for k evs = false -> find k (r_segs (maybe_cull r2 k e)) = None) /\
  (recv_for k evs = true -> maybe_cull r2 k e = r2).
Proof. exact (@expiry). Qed.
Print Assumptions C11_expiry.

(* segment.rs:90 self.header.unwrap() cannot fail, whatever arrives *)
Theorem C11_unwrap_never_panics : forall (A : Type) (evs : list (event A)),
  Forall fo_nonneg evs -> run reasm_new evs <> Panic 7.
Proof. exact (@run_unwrap_safe). Qed.
Print Assumptions C11_unwrap_never_panics.

(* ---------------------------------------------------------------- the parts of std and bitvec.rs *)

(* the model of std::collections::BinaryHeap is a priority queue, whatever it does on ties *)
Theorem C11_binary_heap_push : forall (T : Type) (le : T -> T -> bool) (d : T),
  (forall x y, le x y = true \/ le y x = true) ->
  (forall x y z, le x y = true -> le y z = true -> le x z = true) ->
  forall a x, heap_ok le d a ->
  heap_ok le d (heap_push le d a x) /\ Permutation (x :: a) (heap_push le d a x).
Proof. exact (@heap_push_ok). Qed.
Print Assumptions C11_binary_heap_push.

Theorem C11_binary_heap_drain : forall (T : Type) (le : T -> T -> bool) (d : T),
  (forall x y, le x y = true \/ le y x = true) ->
  (forall x y z, le x y = true -> le y z = true -> le x z = true) ->
  forall fuel a, heap_ok le d a -> (length a <= fuel)%nat ->
  Permutation a (heap_drain le d fuel a) /\
  StronglySorted (fun x y => le y x = true) (heap_drain le d fuel a).
Proof. exact (@heap_drain_ok). Qed.
Print Assumptions C11_binary_heap_drain.

(* the single-pass bit operations the model runs are the loops of bitvec.rs *)
Theorem C11_bitvec_set_range_is_loop : forall b s e, bv_set_range b s e = bv_set_range_loop b s e.
Proof. exact bv_set_range_is_loop. Qed.
Print Assumptions C11_bitvec_set_range_is_loop.

Theorem C11_bitvec_complete_is_loop : forall b n, bv_complete b n = bv_complete_loop b n.
Proof. exact bv_complete_is_loop. Qed.
Print Assumptions C11_bitvec_complete_is_loop.
