(* C01 - property theorems only.  Each is closed by [exact lemma]; statements are pinned.
   The system: Model/TcpNet.v (two endpoints of Model/Tcb.v, two in-flight multisets,
   application histories).  [closed_trace] = no forged segments (LInject): the network only
   drops, duplicates, reorders and delays what the two endpoints emitted.
   The 2^31 - 2^17 bound on each submitted stream is part of the theorem: with a 32-bit
   sequence space and unbounded duplication/delay the statement is false without it. *)
From Elvis Require Import Model.Base Model.U32 Model.Tcb Model.TcpNet
  Proofs.TcbSafetyDefs Proofs.TcbSafetyEx Proofs.TcbSafetyThms Proofs.TcbLiveSys Proofs.TcbLiveThm Proofs.TcbLiveEnd Proofs.TcbLiveWinRound Proofs.TcbLiveLossRound Proofs.TcbHeap Proofs.TcbLiveMidRound Proofs.TcbLiveAckRound.
From Coq Require Import Permutation.
Local Open Scope Z_scope.

(* safety: in every reachable state of every closed trace (any interleaving of open / write /
   read / close / timer / emit / deliver-any / drop / dup / fair rounds; any write sizes; any
   ISNs; any MTUs >= 100) the implementation has not panicked and, in both directions at once,
   what was handed to the receiving application is a prefix of what the sender submitted *)
Theorem C01_safety : forall (c : config) (b : bool) (ls : list label),
  u32 (issA c) -> u32 (issB c) -> 100 <= mtuA c <= 65535 -> 100 <= mtuB c <= 65535 ->
  closed_trace ls ->
  let s := run c (init_sys b) ls in
  zlen (subA s) < 2 ^ 31 - 2 ^ 17 -> zlen (subB s) < 2 ^ 31 - 2 ^ 17 ->
  panicked s = false /\
  (exists rest, subA s = delivered s SB ++ rest) /\
  (exists rest, subB s = delivered s SA ++ rest).
Proof. exact safety_explicit. Qed.
Print Assumptions C01_safety.

(* the sender half of the invariant, for every live endpoint of a reachable state: unsent text
   is a suffix of the submitted stream, SND.NXT counts exactly the bytes put into segments (+1
   once the FIN is queued), and every text-bearing segment in the retransmission queue or in
   flight carries the slice of the stream at its sequence number *)
Theorem C01_sender_consistent : forall (c : config) (b : bool) (ls : list label) (x : side) (t : tcb),
  u32 (issA c) -> u32 (issB c) -> 100 <= mtuA c <= 65535 -> 100 <= mtuB c <= 65535 ->
  closed_trace ls ->
  let s := run c (init_sys b) ls in
  zlen (subA s) < 2 ^ 31 - 2 ^ 17 -> zlen (subB s) < 2 ^ 31 - 2 ^ 17 ->
  end_of s x = ELive t ->
  let S := sub_of s x in
  let sent := zlen S - zlen (out_text t) in
  snd_iss t = iss_of c x /\
  0 <= sent /\ out_text t = skipn (Z.to_nat sent) S /\
  snd_nxt t = wadd (wadd (iss_of c x) 1) (sent + b2z (finq t)) /\
  (forall seg, In seg (map t_seg (retx t) ++ net_of s x) -> s_text seg <> [] ->
     let off := wsub (h_seq (s_hdr seg)) (wadd (iss_of c x) 1) in
     s_text seg = firstn (length (s_text seg)) (skipn (Z.to_nat off) S) /\
     off + zlen (s_text seg) <= sent /\
     c_syn (h_ctl (s_hdr seg)) = false /\ c_fin (h_ctl (s_hdr seg)) = false).
Proof. exact sender_consistent_explicit. Qed.
Print Assumptions C01_sender_consistent.

(* the hypotheses are satisfiable and data gets through: a concrete trace with a handshake,
   a write in SYN-RECEIVED, three writes, a lost and a duplicated segment, out-of-order
   delivery, late reads and a retransmission (ISS of A wraps during the transfer) *)
Theorem C01_example :
  u32 (issA ex_cfg) /\ u32 (issB ex_cfg) /\ 100 <= mtuA ex_cfg <= 65535 /\ 100 <= mtuB ex_cfg <= 65535 /\
  closed_trace ex_trace /\
  zlen (subA ex_final) < 2 ^ 31 - 2 ^ 17 /\ zlen (subB ex_final) < 2 ^ 31 - 2 ^ 17 /\
  length (delivered ex_mid SB) = 50%nat /\ delivered ex_mid SB = firstn 50 (subA ex_mid) /\
  length (subA ex_final) = 140%nat /\ delivered ex_final SB = subA ex_final /\
  length (subB ex_final) = 30%nat /\ delivered ex_final SA = subB ex_final.
Proof. exact example_explicit. Qed.
Print Assumptions C01_example.

(* ---- liveness: PARTIAL.  What is proved, for all ISNs, MTUs and contents:
   [Quiescent c s a b] (Proofs/TcbLiveThm.v) = both endpoints ESTABLISHED with nothing unsent,
   nothing unacknowledged (SND.UNA = SND.NXT = a at A, = b at B; RCV.NXT of the peer equal to it),
   empty reassembly heap / receive buffer / ACK queue, timers at rest, nothing in flight.
   From such a state, any sequence of application writes in either direction, each of at most one
   MSS (mtu - 50) and each followed by two loss-free rounds [LFair 2] (= one retransmission
   timeout per side and round), ends in a quiescent state again with every written byte delivered
   to the peer application exactly once and in order.
   What is missing for the full property (kept as the Definition [C01_liveness_full_stmt], not
   claimed): writes larger than one MSS / one window in a single round, convergence from arbitrary
   reachable states (retransmission queue / heap / window in arbitrary condition), arbitrary fair
   schedules instead of the canonical round. *)
Theorem C01_liveness_partial : forall (c : config) (ws : list (side * list Z)) (s : sys) (a b : Z),
  Quiescent c s a b ->
  (forall w, In w ws -> 0 < zlen (snd w) <= mtu_of c (fst w) - 50) ->
  let s' := run c s (write_trace ws) in
  (exists a' b', Quiescent c s' a' b') /\
  forall x, sub_of s' x = sub_of s x ++ concat (chunks x ws) /\
            delivered s' (other x) = delivered s (other x) ++ concat (chunks x ws).
Proof. exact liveness_partial_explicit. Qed.
Print Assumptions C01_liveness_partial.

(* a quiescent system has everything acknowledged and both endpoints have stopped transmitting:
   segments() returns nothing, also after the retransmission timer has expired *)
Theorem C01_quiescent_silent : forall (c : config) (s : sys) (a b : Z) (x : side) (t : tcb),
  Quiescent c s a b -> end_of s x = ELive t ->
  st t = Established /\ retx t = [] /\ out_text t = [] /\ oneshot t = [] /\ snd_una t = snd_nxt t /\
  net_of s x = [] /\
  exists t', tcb_segments t = Ok (t', []) /\
  exists t'', tcb_segments (fst (advance_time t' 101)) = Ok (t'', []).
Proof. exact quiescent_silent_explicit. Qed.
Print Assumptions C01_quiescent_silent.

(* in every reachable quiescent state everything submitted has been delivered (safety invariant
   + sequence numbers), whatever happened before *)
Theorem C01_quiescent_delivered : forall (c : config) (bl : bool) (ls : list label) (a b : Z),
  u32 (issA c) -> u32 (issB c) -> 100 <= mtuA c <= 65535 -> 100 <= mtuB c <= 65535 ->
  closed_trace ls ->
  let s := run c (init_sys bl) ls in
  zlen (subA s) < 2 ^ 31 - 2 ^ 17 -> zlen (subB s) < 2 ^ 31 - 2 ^ 17 ->
  Quiescent c s a b ->
  delivered s SB = subA s /\ delivered s SA = subB s.
Proof. exact quiescent_delivered_explicit. Qed.
Print Assumptions C01_quiescent_delivered.

(* quiescent states are reachable (hs_state = three-way handshake = LOpen; LFair 2 on the example
   configuration) and the hypotheses of C01_liveness_partial are satisfiable: handshake, then
   writes of 50 (= one MSS at A), 37, 1 and 1450 (= one MSS at B) bytes in alternating directions *)
Theorem C01_liveness_example :
  closed_trace (hs_trace ++ write_trace ex_writes) /\
  (forall w, In w ex_writes -> 0 < zlen (snd w) <= mtu_of ex_cfg (fst w) - 50) /\
  Quiescent ex_cfg hs_state (wadd (issA ex_cfg) 1) (wadd (issB ex_cfg) 1) /\
  let s := run ex_cfg (init_sys true) (hs_trace ++ write_trace ex_writes) in
  (exists a b, Quiescent ex_cfg s a b) /\
  delivered s SB = subA s /\ delivered s SA = subB s /\
  length (subA s) = 51%nat /\ length (subB s) = 1487%nat.
Proof. exact liveness_example_explicit. Qed.
Print Assumptions C01_liveness_example.

(* quiescent states are reachable for EVERY configuration: passive open (B listens, A opens) and
   simultaneous open (both open actively) complete within two loss-free rounds and leave both
   endpoints ESTABLISHED and quiescent with SND.NXT = ISS+1 on both sides
   ([open_trace true] = [LOpen SA; LFair 2], [open_trace false] = [LOpen SA; LOpen SB; LFair 2]) *)
Theorem C01_handshake_quiescent : forall (c : config) (listenB : bool),
  u32 (issA c) -> u32 (issB c) -> 100 <= mtuA c <= 65535 -> 100 <= mtuB c <= 65535 ->
  let s := run c (init_sys listenB) (open_trace listenB) in
  Quiescent c s (wadd (issA c) 1) (wadd (issB c) 1) /\
  subA s = [] /\ subB s = [] /\ delA s = [] /\ delB s = [].
Proof. exact handshake_explicit. Qed.
Print Assumptions C01_handshake_quiescent.

(* end to end, for every configuration: open, then any sequence of writes of at most one MSS in
   either direction, each followed by two loss-free rounds: every byte written is delivered to the
   peer application exactly once and in order, and the system is quiescent (everything
   acknowledged, both endpoints silent - C01_quiescent_silent) *)
Theorem C01_liveness_from_start_partial : forall (c : config) (listenB : bool) (ws : list (side * list Z)),
  u32 (issA c) -> u32 (issB c) -> 100 <= mtuA c <= 65535 -> 100 <= mtuB c <= 65535 ->
  (forall w, In w ws -> 0 < zlen (snd w) <= mtu_of c (fst w) - 50) ->
  let s := run c (init_sys listenB) (open_trace listenB ++ write_trace ws) in
  (exists a b, Quiescent c s a b) /\
  forall x, sub_of s x = concat (chunks x ws) /\ delivered s (other x) = concat (chunks x ws).
Proof. exact from_start_explicit. Qed.
Print Assumptions C01_liveness_from_start_partial.

(* writes of ANY size up to one window (65535 bytes, i.e. up to ceil(65535/MSS) segments per
   flight): from a quiescent state, any sequence of such writes in either direction, each followed
   by two loss-free rounds, is delivered exactly once and in order, everything is acknowledged and
   the system is quiescent again.  (Still partial w.r.t. the full property: writes above the window,
   lost segments, arbitrary fair schedules - see C01_liveness_full_stmt.) *)
Theorem C01_liveness_window_partial : forall (c : config) (ws : list (side * list Z)) (s : sys) (a b : Z),
  Quiescent c s a b ->
  (forall w, In w ws -> 0 < zlen (snd w) <= 65535) ->
  let s' := run c s (write_trace ws) in
  (exists a' b', Quiescent c s' a' b') /\
  forall x, sub_of s' x = sub_of s x ++ concat (chunks x ws) /\
            delivered s' (other x) = delivered s (other x) ++ concat (chunks x ws).
Proof. exact liveness_window_explicit. Qed.
Print Assumptions C01_liveness_window_partial.

(* the same end to end, for every configuration: open (passive or simultaneous), then any sequence
   of writes of up to one window *)
Theorem C01_liveness_from_start_window_partial :
  forall (c : config) (listenB : bool) (ws : list (side * list Z)),
  u32 (issA c) -> u32 (issB c) -> 100 <= mtuA c <= 65535 -> 100 <= mtuB c <= 65535 ->
  (forall w, In w ws -> 0 < zlen (snd w) <= 65535) ->
  let s := run c (init_sys listenB) (open_trace listenB ++ write_trace ws) in
  (exists a b, Quiescent c s a b) /\
  forall x, sub_of s x = concat (chunks x ws) /\ delivered s (other x) = concat (chunks x ws).
Proof. exact from_start_window_explicit. Qed.
Print Assumptions C01_liveness_from_start_window_partial.

(* writes of ARBITRARY size, including above the 64 KiB window: [any_write_trace] follows each
   write of n bytes by [rounds_for n] = ceil(n / 65535) + 1 loss-free rounds (one flight of at most
   65535 bytes per round).  From a quiescent state every byte of every write is delivered exactly
   once and in order, everything is acknowledged and the system is quiescent again.  The bound on
   the number of rounds (= retransmission timeouts per side) is explicit in the trace. *)
Theorem C01_liveness_any_size_partial : forall (c : config) (ws : list (side * list Z)) (s : sys) (a b : Z),
  Quiescent c s a b ->
  (forall w, In w ws -> 0 < zlen (snd w)) ->
  let s' := run c s (any_write_trace ws) in
  (exists a' b', Quiescent c s' a' b') /\
  forall x, sub_of s' x = sub_of s x ++ concat (chunks x ws) /\
            delivered s' (other x) = delivered s (other x) ++ concat (chunks x ws).
Proof. exact liveness_any_explicit. Qed.
Print Assumptions C01_liveness_any_size_partial.

Theorem C01_liveness_from_start_any_size_partial :
  forall (c : config) (listenB : bool) (ws : list (side * list Z)),
  u32 (issA c) -> u32 (issB c) -> 100 <= mtuA c <= 65535 -> 100 <= mtuB c <= 65535 ->
  (forall w, In w ws -> 0 < zlen (snd w)) ->
  let s := run c (init_sys listenB) (open_trace listenB ++ any_write_trace ws) in
  (exists a b, Quiescent c s a b) /\
  forall x, sub_of s x = concat (chunks x ws) /\ delivered s (other x) = concat (chunks x ws).
Proof. exact from_start_any_explicit. Qed.
Print Assumptions C01_liveness_from_start_any_size_partial.

(* loss recovered by the retransmission timeout: a write of up to one window is emitted
   ([LEmit]: nseg segments in flight), then the network loses the last j segments of the flight,
   for ANY j <= nseg - the tail, or the whole flight ([drops x nseg j] = j times "drop the last
   in-flight segment").  The retransmission timer fires in the next loss-free round, the whole
   flight is retransmitted, and after two rounds every byte has been delivered exactly once, in
   order, everything is acknowledged and the system is quiescent.  (Partial: losses in the middle
   of a flight go through the reassembly heap and are not covered; nor are lost ACKs.) *)
Theorem C01_liveness_tail_loss_partial : forall (c : config) (s : sys) (a b : Z) (x : side) (bytes : list Z),
  Quiescent c s a b -> 0 < zlen bytes <= 65535 ->
  let s1 := run c s [LSend x bytes; LEmit x] in
  let nseg := length (net_of s1 x) in
  forall j, (j <= nseg)%nat ->
  let s' := run c s1 (drops x nseg j ++ [LFair 2]) in
  (exists a' b', Quiescent c s' a' b') /\
  sub_of s' x = sub_of s x ++ bytes /\ sub_of s' (other x) = sub_of s (other x) /\
  delivered s' (other x) = delivered s (other x) ++ bytes /\ delivered s' x = delivered s x.
Proof. exact tail_loss_explicit. Qed.
Print Assumptions C01_liveness_tail_loss_partial.

(* ---- the reassembly heap (std BinaryHeap<Segment> transcribed in Model/Tcb.v), heaps of ANY size.
   [heap_ordered v]: every element is <= its parent in the model's order seg_le (reversed circular
   comparison of sequence numbers, so the root carries the smallest sequence number).
   [in_range base s]: the sequence number of s lies less than 2^31 after base - the circular order
   is a total preorder only on such a half-space, so this hypothesis is part of the theorems. *)
(* push (sift_up) keeps the heap ordered and adds exactly the pushed element *)
Theorem C01_heap_push_ordered : forall (base : Z) (v : list segment) (x : segment),
  Forall (in_range base) (x :: v) -> heap_ordered v ->
  heap_ordered (heap_push v x) /\ Permutation (x :: v) (heap_push v x).
Proof. exact heap_push_ordered. Qed.
Print Assumptions C01_heap_push_ordered.

(* pop (swap_remove, sift_down_to_bottom, sift_up) returns an element with the smallest sequence
   number (a maximum of the model's order) and leaves an ordered heap *)
Theorem C01_heap_pop_min : forall (base : Z) (v : list segment) (m : segment) (rest : list segment),
  Forall (in_range base) v -> heap_ordered v -> heap_pop v = Some (m, rest) ->
  (forall y, In y v -> seg_le y m = true /\ seg_key base m <= seg_key base y) /\
  heap_ordered rest.
Proof. exact heap_pop_min_explicit. Qed.
Print Assumptions C01_heap_pop_min.

(* pop preserves the multiset of elements (and fails only on the empty heap) *)
Theorem C01_heap_multiset : forall (base : Z) (v : list segment),
  Forall (in_range base) v -> heap_ordered v ->
  match heap_pop v with
  | Some (m, rest) => Permutation v (m :: rest)
  | None => v = []
  end.
Proof. exact heap_multiset_explicit. Qed.
Print Assumptions C01_heap_multiset.

(* one segment lost at an ARBITRARY position of the flight (index i < nseg, dropped by [LDrop x i]):
   the segments behind the gap are parked in the reassembly heap (any number of them - this uses
   the heap theorems above), the retransmission timer fires in the next loss-free round, the whole
   flight is retransmitted, the gap is filled and the heap is drained in sequence order; after two
   rounds every byte has been delivered exactly once and in order, everything is acknowledged and
   the system is quiescent.  (Partial w.r.t. the full property: an arbitrary SUBSET of the flight
   lost - more than one gap - is not covered; the tail case is C01_liveness_tail_loss_partial.) *)
Theorem C01_liveness_one_loss_partial : forall (c : config) (s : sys) (a b : Z) (x : side) (bytes : list Z),
  Quiescent c s a b -> 0 < zlen bytes <= 65535 ->
  let s1 := run c s [LSend x bytes; LEmit x] in
  let nseg := length (net_of s1 x) in
  forall i, (i < nseg)%nat ->
  let s' := run c s1 [LDrop x i; LFair 2] in
  (exists a' b', Quiescent c s' a' b') /\
  sub_of s' x = sub_of s x ++ bytes /\ sub_of s' (other x) = sub_of s (other x) /\
  delivered s' (other x) = delivered s (other x) ++ bytes /\ delivered s' x = delivered s x.
Proof. exact one_loss_explicit. Qed.
Print Assumptions C01_liveness_one_loss_partial.

(* lost ACKs: the whole flight is delivered in order ([LDeliver x 0], nseg times) and read by the
   application, the receiver emits its ACKs (exactly nseg of them) and EVERY one of them is dropped.
   In the next loss-free round the sender's retransmission timer fires and the whole flight is sent
   again; for the receiver all of it is old data: it is not delivered a second time, each copy is
   answered with a duplicate ACK, and the first of these - one cumulative ACK covering several
   segments - empties the sender's queue.  After two rounds the system is quiescent; the delivered
   history is the same as right after the first delivery (each byte exactly once).  (Partial w.r.t.
   the full property: ALL ACKs of the round are lost; an arbitrary subset of ACKs lost, or data and
   ACK loss mixed in the same round, is not covered.) *)
Theorem C01_liveness_lost_acks_partial : forall (c : config) (s : sys) (a b : Z) (x : side) (bytes : list Z),
  Quiescent c s a b -> 0 < zlen bytes <= 65535 ->
  let s1 := run c s [LSend x bytes; LEmit x] in
  let nseg := length (net_of s1 x) in
  let s2 := run c s1 (repeat (LDeliver x 0) nseg ++ [LRecv (other x); LEmit (other x)]) in
  let s' := run c s2 (repeat (LDrop (other x) 0) nseg ++ [LFair 2]) in
  (net_of s2 x = [] /\ length (net_of s2 (other x)) = nseg /\
   delivered s2 (other x) = delivered s (other x) ++ bytes) /\
  (exists a' b', Quiescent c s' a' b') /\
  sub_of s' x = sub_of s x ++ bytes /\ sub_of s' (other x) = sub_of s (other x) /\
  delivered s' (other x) = delivered s (other x) ++ bytes /\ delivered s' x = delivered s x.
Proof. exact lost_acks_explicit. Qed.
Print Assumptions C01_liveness_lost_acks_partial.
