(* TCP flag byte, second tie by translation (the codec properties C08 / C14 / C18 and the TCB model use
   the ctl functions of Model/TcpHdr.v): the Gallina text regenerated from tcp_parsing.rs `Control(u8)` by
   tools/translate_control.py on every run equals the hand model for every flag byte, bit index and bool. *)
From Elvis Require Import Model.Base Model.Bytes Model.Checksum Model.TcpHdr Model.RsSem Gen.ControlGen
  Proofs.ControlGen.
Local Open Scope Z_scope.

Theorem C08gen_control_is_model :
  (forall urg ack psh rst syn fin, g_Control_new urg ack psh rst syn fin = ctl_new urg ack psh rst syn fin) /\
  (forall c bit, 0 <= c < 256 -> 0 <= bit < 8 -> g_Control_bit c bit = Ok (ctl_bit c bit)) /\
  (forall c bit state, 0 <= c < 256 -> 0 <= bit < 8 -> g_Control_set_bit c bit state = Ok (ctl_set_bit c bit state)) /\
  (forall c, 0 <= c < 256 ->
     g_Control_urg c = Ok (ctl_urg c) /\ g_Control_ack c = Ok (ctl_ack c) /\ g_Control_psh c = Ok (ctl_psh c) /\
     g_Control_rst c = Ok (ctl_rst c) /\ g_Control_syn c = Ok (ctl_syn c) /\ g_Control_fin c = Ok (ctl_fin c)) /\
  (forall c state, 0 <= c < 256 ->
     g_Control_set_urg c state = Ok (ctl_set_bit c 5 state) /\ g_Control_set_ack c state = Ok (ctl_set_bit c 4 state) /\
     g_Control_set_psh c state = Ok (ctl_set_bit c 3 state) /\ g_Control_set_rst c state = Ok (ctl_set_bit c 2 state) /\
     g_Control_set_syn c state = Ok (ctl_set_bit c 1 state) /\ g_Control_set_fin c state = Ok (ctl_set_bit c 0 state)) /\
  (forall n, g_Control_from_u8 n = n /\ g_u8_from_Control n = n).
Proof.
  exact (conj gen_ctl_new (conj gen_ctl_bit (conj gen_ctl_set_bit (conj gen_ctl_getters
        (conj gen_ctl_setters gen_ctl_from))))).
Qed.
Print Assumptions C08gen_control_is_model.

(* what the hand model leaves out: the private helper `bit` panics for an index of 8 or more (`>>` on a u8);
   every caller in the file passes a literal 0..5 *)
Theorem C08gen_bit_panics_from_8 : forall c bit, 0 <= c < 256 -> 8 <= bit < 256 -> g_Control_bit c bit = Panic 201.
Proof. exact gen_ctl_bit_panics. Qed.
Print Assumptions C08gen_bit_panics_from_8.

(* the range hypothesis is kept by the setters, and new / getters round-trip *)
Theorem C08gen_control_range_and_roundtrip :
  (forall c bit state, 0 <= c < 256 -> 0 <= bit < 8 -> 0 <= ctl_set_bit c bit state < 256) /\
  (forall urg ack psh rst syn fin,
     let c := g_Control_new urg ack psh rst syn fin in
     0 <= c < 64 /\ g_Control_urg c = Ok urg /\ g_Control_ack c = Ok ack /\ g_Control_psh c = Ok psh /\
     g_Control_rst c = Ok rst /\ g_Control_syn c = Ok syn /\ g_Control_fin c = Ok fin).
Proof. exact (conj ctl_set_bit_range gen_ctl_new_roundtrip). Qed.
Print Assumptions C08gen_control_range_and_roundtrip.
