(* C19 - a network description means what it says (parser part).  Property theorems only; each is
   closed by [exact lemma]; statements are pinned.
   Reading guide.  [core_parse] is the model of core_parser after the repair .cache/ndl/fix.patch,
   [general_parser get_type] the model of one "[Type k='v' ...]" line.  [render] is the canonical
   tab-indented text of a description, [render4] the same with four spaces per level, [crlf] turns
   every LF into CR LF.  Maps are association lists in insertion order; the parser inserts in text
   order, so equality of lists below is equality of maps.  [wf_sim] = [psim] (what the grammar can
   carry: keys without '=' / ']' that do not start with white space, values in escaped form without
   ']', distinct keys per line, network ids present and distinct, every network with an address
   line, every machine with its three non-empty sections) and [csim] (no CR and no run of four
   spaces inside keys and values).  Err codes: [ecode class line]. *)
From Elvis Require Import Model.Base Model.Ndl Proofs.NdlFacts Proofs.NdlRound Proofs.NdlFile
  Proofs.NdlRewrite Proofs.NdlReject Proofs.NdlWitness Proofs.NdlSummary Proofs.NdlSound.
Local Open Scope Z_scope.

(* ---- parsing is the inverse of rendering -------------------------------------------------- *)

(* one line: any type, any well-formed arguments, any number k of line ends, anything behind it *)
Theorem C19_line : forall d a k rest ln,
  Forall parg a -> NoDup (map fst a) -> not_nl_head rest ->
  general_parser get_type (render_sec d a ++ repeat c_nl k ++ rest) ln
  = Ok (d, a, rest, ln + Z.of_nat k).
Proof. exact general_parser_render. Qed.
Print Assumptions C19_line.

Theorem C19_roundtrip : forall s, wf_sim s -> core_parse (render s) = Ok s.
Proof. exact core_parse_render. Qed.
Print Assumptions C19_roundtrip.

Theorem C19_roundtrip_spaces : forall s, wf_sim s -> core_parse (render4 s) = Ok s.
Proof. exact core_parse_render4. Qed.
Print Assumptions C19_roundtrip_spaces.

(* CR LF line ends are invisible for every text (well-formed or not); hence the CRLF renderings *)
Theorem C19_roundtrip_crlf :
  (forall t, core_parse (crlf t) = core_parse t) /\
  (forall s, wf_sim s ->
  core_parse (crlf (render s)) = Ok s /\ core_parse (crlf (render4 s)) = Ok s).
Proof. exact sum_roundtrip_crlf_all. Qed.
Print Assumptions C19_roundtrip_crlf.


(* the hypotheses are satisfiable: a description with an escaped quote, '[' and '=' in a value *)
Theorem C19_wf_satisfiable : wf_sim (ex_with t_its).
Proof. exact ex_wf. Qed.
Print Assumptions C19_wf_satisfiable.

(* "any argument values" does not hold: each hypothesis on values is needed.  In each witness the
   value satisfies all the other conditions: a]b (the section is cut at the first bracket), a run of
   four spaces (becomes a tab), a CR (removed), and it's: a quote that is not preceded by a backslash
   cannot be carried at all (and the backslash of an escaped quote stays in the value: see t_its in
   C19_wf_satisfiable). *)
Theorem C19_roundtrip_refuted :
  (wf_val v_rbr /\ clean v_rbr /\ core_parse (render (ex_with v_rbr)) = Err (ecode E_EXTRA 11)) /\
  (wf_val v_sp4 /\ ~ In c_rbr v_sp4 /\ ~ In c_cr v_sp4 /\
  core_parse (render (ex_with v_sp4)) = Ok (ex_with [97; 9; 98]%N)) /\
  (wf_val v_cr /\ ~ In c_rbr v_cr /\ norun4 0 v_cr = true /\
  core_parse (render (ex_with v_cr)) = Ok (ex_with [97; 98]%N)) /\
  (~ In c_rbr v_quote /\ clean v_quote /\
  core_parse (render (ex_with v_quote)) = Err (ecode E_EXTRA 11)).
Proof. exact sum_roundtrip_refuted_all. Qed.
Print Assumptions C19_roundtrip_refuted.


(* ---- soundness of acceptance ---------------------------------------------------------------- *)

(* Whatever text is accepted, the structure returned is well-formed: every line has distinct,
   well-formed arguments, every network has an id (all distinct) and at least one address line,
   every machine has its Networks, Protocols and Applications sections, each non-empty and with
   items of the right kind.  Contrapositive: a text whose only readings violate one of these
   (missing required section, duplicate network id, duplicate argument, wrong nesting) is rejected,
   in every context. *)
Theorem C19_accept_sound : forall txt s, core_parse txt = Ok s -> wf_sim s.
Proof. exact core_parse_sound. Qed.
Print Assumptions C19_accept_sound.

(* ... and rendering it canonically (in any of the renderings) and parsing again returns it *)
Theorem C19_parse_render_idempotent : forall txt s, core_parse txt = Ok s ->
  core_parse (render s) = Ok s /\ core_parse (render4 s) = Ok s /\
  core_parse (crlf (render s)) = Ok s /\ core_parse (crlf (render4 s)) = Ok s.
Proof. exact core_parse_idempotent. Qed.
Print Assumptions C19_parse_render_idempotent.

(* ---- well-formed prefixes are consumed (the contexts of the rejection lemmas) --------------- *)

Theorem C19_prefix :
  (forall l0 l acc ln fuel tail,
  Forall pnetwork l -> NoDup (map fst (acc ++ l)) ->
  (count_leading c_tab tail < 2)%nat -> not_nl_head tail ->
  (length (flat_map render_network l ++ tail) < fuel)%nat ->
  exists fuel', (length tail < fuel')%nat /\
    networks_loop get_type fuel 1 l0 acc (flat_map render_network l ++ tail) ln
    = networks_loop get_type fuel' 1 l0 (acc ++ l) tail (ln + lines_networks l)) /\
  (forall l0 l acc ln fuel tail,
  Forall pmachine l -> (count_leading c_tab tail < 2)%nat -> not_nl_head tail ->
  (length (flat_map render_machine l ++ tail) < fuel)%nat ->
  exists fuel', (length tail < fuel')%nat /\
    machines_loop get_type fuel 1 l0 acc (flat_map render_machine l ++ tail) ln
    = machines_loop get_type fuel' 1 l0 (acc ++ l) tail (ln + lines_machines l)).
Proof. exact sum_prefix_all. Qed.
Print Assumptions C19_prefix.


(* ---- structural errors are rejected ---------------------------------------------------------- *)

(* duplicate argument: any line, any position, anything behind it *)
Theorem C19_reject_duplicate_argument : forall d a rem ln,
  Forall parg a -> ~ NoDup (map fst a) ->
  general_parser get_type (render_sec d a ++ rem) ln = Err (ecode E_DUPARG ln).
Proof. exact general_parser_render_dup. Qed.
Print Assumptions C19_reject_duplicate_argument.

(* unknown section type: the bracket content starts with none of the ten type words *)
Theorem C19_reject_unknown_type : forall content rem ln,
  ~ In c_rbr content -> unknown_type content ->
  general_parser get_type (c_lbr :: content ++ c_rbr :: rem) ln = Err (ecode E_DECTYPE (-1)).
Proof. exact general_parser_unknown. Qed.
Print Assumptions C19_reject_unknown_type.

(* a line the line parser rejects (the two classes above, broken brackets or quotes) stops every
   loop of the parser that has it at its head, whatever was accumulated before *)
Theorem C19_reject_line_error_propagates : forall s nt ln e,
  is_nil s = false -> count_leading c_tab s = nt ->
  general_parser get_type (skipn nt s) ln = Err e ->
  (forall f nets ms, nt = 0%nat -> core_loop get_type (S f) nets ms s ln = Err e) /\
  (forall f l0 acc, networks_loop get_type (S f) nt l0 acc s ln = Err (wrapline l0 e)) /\
  (forall f l0 acc, network_loop get_type (S f) nt l0 acc s ln = Err (wrapline l0 e)) /\
  (forall f l0 acc, machines_loop get_type (S f) nt l0 acc s ln = Err (wrapline l0 e)) /\
  (forall f l0 req a b c, machine_loop get_type (S f) nt l0 req a b c s ln = Err (wrapline l0 e)) /\
  (forall f expect l0 acc, items_loop get_type (S f) expect nt l0 acc s ln = Err (wrapline l0 e)).
Proof. exact sum_reject_line_error_propagates. Qed.
Print Assumptions C19_reject_line_error_propagates.

(* wrong nesting 1: at the top level only Template, Networks and Machines may be declared *)
Theorem C19_reject_wrong_nesting :
  (forall f nets ms d a tail ln,
  d <> Template -> d <> Networks -> d <> Machines -> pargs a -> not_nl_head tail ->
  core_loop get_type (S f) nets ms (render_line 0 d a ++ tail) ln = Err (ecode E_CANNOT ln)) /\
  ((forall f nt l0 acc s ln, is_nil s = false -> (nt < count_leading c_tab s)%nat ->
     networks_loop get_type (S f) nt l0 acc s ln = Err (ecode E_TABCOUNT ln)) /\
  (forall f nt l0 acc s ln, is_nil s = false -> (nt < count_leading c_tab s)%nat ->
     machines_loop get_type (S f) nt l0 acc s ln = Err (ecode E_TABCOUNT ln)) /\
  (forall f nt l0 req a b c s ln, is_nil s = false -> (nt < count_leading c_tab s)%nat ->
     machine_loop get_type (S f) nt l0 req a b c s ln = Err (ecode E_TABCOUNT ln)) /\
  (forall f nt l0 acc i tail ln, pitem IP i -> not_nl_head tail -> (nt < count_leading c_tab tail)%nat ->
     network_loop get_type (S f) nt l0 acc (render_item nt i ++ tail) ln = Err (ecode E_TABCOUNT (ln + 1))) /\
  (forall f expect nt l0 acc i tail ln, pitem expect i -> not_nl_head tail ->
     (nt < count_leading c_tab tail)%nat ->
     items_loop get_type (S f) expect nt l0 acc (render_item nt i ++ tail) ln = Err (ecode E_TABCOUNT (ln + 1)))) /\
  ((forall f l0 acc n d a tail ln, d <> Network -> pargs a -> not_nl_head tail ->
     networks_loop get_type (S f) n l0 acc (render_line n d a ++ tail) ln = Err (ecode E_EXPECTED (ln + 1))) /\
  (forall f l0 acc n d a tail ln, d <> IP -> pargs a -> not_nl_head tail ->
     network_loop get_type (S f) n l0 acc (render_line n d a ++ tail) ln = Err (ecode E_EXPECTED ln)) /\
  (forall f l0 acc n d a tail ln, d <> Machine -> pargs a -> not_nl_head tail ->
     machines_loop get_type (S f) n l0 acc (render_line n d a ++ tail) ln = Err (ecode E_EXPECTED (ln + 1))) /\
  (forall f l0 req x y z n d a tail ln, req_contains d req = false -> pargs a -> not_nl_head tail ->
     machine_loop get_type (S f) n l0 req x y z (render_line n d a ++ tail) ln = Err (ecode E_UNEXPECTED ln)) /\
  (forall f expect l0 acc n d a tail ln, d <> expect -> pargs a -> not_nl_head tail ->
     items_loop get_type (S f) expect n l0 acc (render_line n d a ++ tail) ln = Err (ecode E_EXPECTED ln))).
Proof. exact sum_reject_wrong_nesting_all. Qed.
Print Assumptions C19_reject_wrong_nesting.

(* wrong nesting 2: a line indented deeper than its place allows *)

(* wrong nesting 3: a line of the wrong kind for its place (an IP directly under Networks, a
   Network among addresses, an Application among Protocols, a second Protocols section or a loose
   item in a machine, anything but a Machine under Machines) *)

(* missing required section: a machine with one of its three sections left out (or all of them),
   a section header or a network line with nothing nested under it *)
Theorem C19_reject_missing_section :
  (forall args sec1 its1 sec2 its2 rest ln,
     (sec1, sec2) = (Networks, Protocols) \/ (sec1, sec2) = (Networks, Applications) \/
     (sec1, sec2) = (Protocols, Applications) ->
     its1 <> [] -> Forall (pitem (item_type_of sec1)) its1 ->
     its2 <> [] -> Forall (pitem (item_type_of sec2)) its2 ->
     (count_leading c_tab rest < 2)%nat -> not_nl_head rest ->
     machine_parser get_type args (msec sec1 its1 ++ msec sec2 its2 ++ rest) 2 ln
     = Err (ecode E_REQUIRED (ln - 1))) /\
  (forall args rest ln, (count_leading c_tab rest < 2)%nat ->
     machine_parser get_type args rest 2 ln = Err (ecode E_REQUIRED (ln - 1))) /\
  (forall expect s nt ln, count_leading c_tab s <> nt ->
     items_parser get_type expect s nt ln = Err (ecode E_FORMAT (-1))) /\
  (forall dec args s nt ln, count_leading c_tab s <> nt ->
     network_parser get_type dec args s nt ln = Err (ecode E_TABSGOT ln)).
Proof. exact sum_reject_missing_section. Qed.
Print Assumptions C19_reject_missing_section.

(* duplicate network id: behind any well-formed networks, whatever follows the offending block *)
Theorem C19_reject_duplicate_network_id : forall pre kn tail ln,
  Forall pnetwork pre -> NoDup (map fst pre) -> pnetwork kn -> In (fst kn) (map fst pre) ->
  (count_leading c_tab tail < 2)%nat -> not_nl_head tail ->
  networks_parser get_type (flat_map render_network pre ++ render_network kn ++ tail) 1 ln
  = Err (ecode E_DUPID (ln - 1)).
Proof. exact networks_parser_dup. Qed.
Print Assumptions C19_reject_duplicate_network_id.
