(* C07 - Message is an immutable byte string.  Property theorems only; statements are pinned.
   Model: Model/Message.v (chunk = window start..end of a buffer, msg = chunk list + len, every
   usize + and - checked).  bytes_of m = concatenation of the chunk windows; WF m = every window
   lies inside its buffer /\ mlen m = length (bytes_of m) /\ mlen m <= usize::MAX.
   The reference (vslice, vcut, vappend, vstep, run_vecs) is what std does on a Vec<u8>. *)
From Elvis Require Import Model.Base Model.Message Proofs.MessageFacts Proofs.MessagePool Proofs.MessageThms.
Local Open Scope N_scope.

(* ---- construction *)
Theorem C07_default_refines : WF msg_default /\ bytes_of msg_default = [].
Proof. exact default_wf. Qed.
Print Assumptions C07_default_refines.

Theorem C07_new_refines : forall b, is_vec b ->
  exists m, msg_new b = Ok m /\ WF m /\ bytes_of m = b.
Proof. exact new_ok. Qed.
Print Assumptions C07_new_refines.

(* ---- header / concatenate: append on byte lists; the only panic is `self.len +=` overflowing usize *)
Theorem C07_header_refines : forall m b, WF m -> is_vec b ->
  (blen b + mlen m <= USIZE_MAX ->
     exists m', msg_header m b = Ok m' /\ WF m' /\ bytes_of m' = b ++ bytes_of m) /\
  (USIZE_MAX < blen b + mlen m -> exists s, msg_header m b = Panic s).
Proof. exact header_refines. Qed.
Print Assumptions C07_header_refines.

Theorem C07_concat_refines : forall m o, WF m -> WF o ->
  (mlen m + mlen o <= USIZE_MAX ->
     exists m', msg_concat m o = Ok m' /\ WF m' /\ bytes_of m' = bytes_of m ++ bytes_of o) /\
  (USIZE_MAX < mlen m + mlen o -> exists s, msg_concat m o = Panic s).
Proof. exact concat_refines. Qed.
Print Assumptions C07_concat_refines.

(* ---- slice_inner(start, len): in range => the sub-list; out of range => panic *)
Theorem C07_slice_refines : forall m start len, WF m ->
  start + match len with Some l => l | None => 0 end <= mlen m ->
  exists m', msg_slice_inner m start len = Ok m' /\ WF m' /\
    bytes_of m' = firstn (N.to_nat (match len with Some l => l | None => mlen m - start end))
                         (skipn (N.to_nat start) (bytes_of m)).
Proof. exact slice_refines. Qed.
Print Assumptions C07_slice_refines.

Theorem C07_slice_out_of_range_panics : forall m start len,
  mlen m < start + match len with Some l => l | None => 0 end ->
  exists s, msg_slice_inner m start len = Panic s.
Proof. exact slice_panics. Qed.
Print Assumptions C07_slice_out_of_range_panics.

(* ---- every std range form, any endpoints: same bytes as v[r].to_vec(), panic exactly when Vec
   indexing panics (incl. e+1 overflow of ..=e and s..=e, and s > e+1 for s..=e).
   range_ok only excludes `s..e` with s > e, see the remark below. *)
Theorem C07_slice_range_forms : forall m r, WF m -> range_ok r ->
  match msg_slice m r, vslice (bytes_of m) r with
  | Ok m', Ok v => WF m' /\ bytes_of m' = v
  | Panic _, Panic _ => True
  | _, _ => False
  end.
Proof. exact slice_forms. Qed.
Print Assumptions C07_slice_range_forms.

(* REMARK (not part of the property): for an inverted `s..e` (e < s) Vec indexing always panics,
   the code yields the EMPTY message whenever s <= len (Range::len() is 0) and panics only for s > len. *)
Theorem C07_inverted_range_remark : forall m s e, WF m -> e < s ->
  (exists x, vslice (bytes_of m) (RRange s e) = Panic x) /\
  (s <= mlen m -> exists m', msg_slice m (RRange s e) = Ok m' /\ WF m' /\ bytes_of m' = []) /\
  (mlen m < s -> exists x, msg_slice m (RRange s e) = Panic x).
Proof. exact inverted_range. Qed.
Print Assumptions C07_inverted_range_remark.

(* the `start + len` of the assert in slice_inner cannot overflow for any range over usize values *)
Theorem C07_range_sum_no_overflow : forall r s l,
  match r with
  | RRange a b | RIncl a b => a <= USIZE_MAX /\ b <= USIZE_MAX
  | RFrom a | RTo a | RToIncl a => a <= USIZE_MAX
  | RFull => True
  end ->
  range_into r = Ok (s, l) -> s + match l with Some x => x | None => 0 end <= USIZE_MAX.
Proof. exact range_sum_no_overflow. Qed.
Print Assumptions C07_range_sum_no_overflow.

(* ---- cut / remove_front *)
Theorem C07_cut_refines : forall m n, WF m ->
  (n <= mlen m -> exists rest front, msg_cut m n = Ok (rest, front) /\ WF rest /\ WF front /\
     bytes_of front = firstn (N.to_nat n) (bytes_of m) /\
     bytes_of rest = skipn (N.to_nat n) (bytes_of m)) /\
  (mlen m < n -> exists s, msg_cut m n = Panic s).
Proof. exact cut_refines. Qed.
Print Assumptions C07_cut_refines.

Theorem C07_remove_front_refines : forall m n, WF m ->
  (n <= mlen m -> exists m', msg_remove_front m n = Ok m' /\ WF m' /\
     bytes_of m' = skipn (N.to_nat n) (bytes_of m)) /\
  (mlen m < n -> exists s, msg_remove_front m n = Panic s).
Proof. exact remove_front_refines. Qed.
Print Assumptions C07_remove_front_refines.

(* ---- observations: len, iter, to_vec, is_empty, == *)
Theorem C07_observations_refine : forall m, WF m ->
  msg_len m = blen (bytes_of m) /\
  msg_iter m = Ok (bytes_of m) /\
  msg_to_vec m = Ok (bytes_of m) /\
  (msg_is_empty m = true <-> bytes_of m = []).
Proof. exact observations. Qed.
Print Assumptions C07_observations_refine.

Theorem C07_eq_refines : forall m1 m2, WF m1 -> WF m2 ->
  exists b, msg_eq m1 m2 = Ok b /\ (b = true <-> bytes_of m1 = bytes_of m2).
Proof. exact msg_eq_ok. Qed.
Print Assumptions C07_eq_refines.

(* ---- one op on a pool (clone / cut / concatenate create the aliasing) *)
Theorem C07_step_refines : forall o pool, Forall WF pool -> op_ok o ->
  match step o pool, vstep o (map bytes_of pool) with
  | Ok p', Ok vs' => Forall WF p' /\ map bytes_of p' = vs'
  | Panic _, Panic _ => True
  | Err _, Err _ => True      (* slot number outside the pool: malformed case on both sides *)
  | _, _ => False
  end.
Proof. exact step_thm. Qed.
Print Assumptions C07_step_refines.

(* ---- HISTORY: every op sequence on every well-formed pool.  (Applied to each prefix of ops it
   also says that both sides panic at the same op.) *)
Theorem C07_history : forall ops pool, Forall WF pool -> Forall op_ok ops ->
  match run_pool ops pool, run_vecs ops (map bytes_of pool) with
  | Ok p', Ok vs' => Forall WF p' /\ map bytes_of p' = vs'
  | Panic _, Panic _ => True
  | Err _, Err _ => True
  | _, _ => False
  end.
Proof. exact history_thm. Qed.
Print Assumptions C07_history.

(* after any history, len / to_vec / iter of every slot and == of every pair of slots are those of
   the plain vectors *)
Theorem C07_history_observed : forall ops pool p' vs', Forall WF pool -> Forall op_ok ops ->
  run_pool ops pool = Ok p' -> run_vecs ops (map bytes_of pool) = Ok vs' ->
  forall i m, nth_error p' i = Some m ->
    exists v, nth_error vs' i = Some v /\ msg_len m = blen v /\ msg_to_vec m = Ok v /\ msg_iter m = Ok v /\
    forall j m2, nth_error p' j = Some m2 ->
      exists v2 b, nth_error vs' j = Some v2 /\ msg_eq m m2 = Ok b /\ (b = true <-> v = v2).
Proof. exact history_observed. Qed.
Print Assumptions C07_history_observed.

(* ---- FRAME: an op leaves every slot it does not name as a target untouched - the very same
   model value, hence the same bytes - whatever storage the slots share *)
Theorem C07_frame : forall o pool pool' k, step o pool = Ok pool' -> ~ In k (targets o) ->
  nth_error pool' k = nth_error pool k /\
  nth_error (map bytes_of pool') k = nth_error (map bytes_of pool) k.
Proof. exact frame_bytes. Qed.
Print Assumptions C07_frame.

Theorem C07_frame_history : forall ops p p' k, run_pool ops p = Ok p' ->
  (forall o, In o ops -> ~ In k (targets o)) -> nth_error p' k = nth_error p k.
Proof. exact frame_history. Qed.
Print Assumptions C07_frame_history.

(* a clone and its original are independent values *)
Theorem C07_clone_independent : forall d i p p1 ops p2 m,
  step (OClone d i) p = Ok p1 -> d <> i -> nth_error p i = Some m ->
  run_pool ops p1 = Ok p2 -> (forall o, In o ops -> ~ In i (targets o)) ->
  nth_error p2 i = Some m.
Proof. exact clone_independent. Qed.
Print Assumptions C07_clone_independent.

(* the side conditions are satisfiable and both outcomes occur *)
Example C07_history_example :
  Forall WF ex_pool /\ Forall op_ok ex_ops /\
  (exists p', run_pool ex_ops ex_pool = Ok p' /\
     map bytes_of p' = [[3]; [1;2;3]; [9;1]; []; []; []; []; []]) /\
  (exists s, run_pool (ex_ops ++ [OCut 3 0 2]) ex_pool = Panic s) /\
  (exists s, run_vecs (ex_ops ++ [OCut 3 0 2]) (map bytes_of ex_pool) = Panic s).
Proof. exact example_sat. Qed.
Print Assumptions C07_history_example.
