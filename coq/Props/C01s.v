(* C01, part s - the TCP session task (tcp_session.rs): property theorems only.
   Model/TcpSession.v: the task's loop as a state machine over the calls it makes on its TCB
   (Model/Tcb.v), the validator of observed call traces, and the closed system of two session
   tasks (channels of instructions, a lossy / duplicating / reordering network, applications
   that write at any time). *)
From Elvis Require Import Model.Base Model.U32 Model.Tcb Model.TcpNet Model.TcpSession
  Proofs.TcbSafetyDefs Proofs.TcpSessionFacts Proofs.TcpSessionSys Proofs.TcpSessionThms.
Local Open Scope Z_scope.

(* (a) soundness of the trace validator: an accepted trace of the real task IS an execution of
   the model loop from the TCB that the constructors of tcp.rs build for the Start snapshot -
   the observed events are, one by one (segments with all header fields and text, flushed
   bytes, the Connected point, the 5 ms of every advance_time, the final snapshot), the first
   visible outputs of that execution *)
Theorem C01s_validate_sound : forall (i : init_info) (tr : list oevent),
  sess_validate i tr = Accept ->
  exists t0 evs s' outs,
    init_tcb i = Some t0 /\
    sess_exec (fst (sess_start t0)) evs = Some (s', outs) /\
    obs_prefix tr (filter visible (snd (sess_start t0) ++ outs)).
Proof. exact validate_sound. Qed.
Print Assumptions C01s_validate_sound.

(* the initial TCB of an accepted trace agrees with the snapshot field by field and is the result
   of Tcb::open, or of segment_arrives_listen on the SYN the listen path copied its values from *)
Theorem C01s_init_tcb : forall (i : init_info) (t : tcb),
  init_tcb i = Some t ->
  snap_matches (ii_snap i) t = true /\
  (if sn_listen (ii_snap i)
   then arrives_listen (syn_of_snapshot i) (sn_iss (ii_snap i)) (ii_mtu i) = LTcb t
   else t = tcb_open (ii_lport i) (ii_rport i) (sn_iss (ii_snap i)) (ii_mtu i)).
Proof. exact init_tcb_spec. Qed.
Print Assumptions C01s_init_tcb.

(* (b) C01 safety for the session tasks as they are, for all schedules: in every reachable
   state of the closed system of two session tasks - any interleaving of Tcp::open, application
   writes of any size at any time (also before the handshake completed), single steps of either
   task's loop (take an instruction, find the channel empty, segments(), receive()), the 5 ms
   timeout firing whatever the channel holds, and the network delivering any in-flight segment
   next, dropping it or duplicating it; any ISNs, any MTUs >= 100 - no call on a TCB has
   panicked and, in both directions at once, everything flushed upstream at one side is a
   prefix of everything the peer application handed to Session::send *)
Theorem C01s_session_safety : forall (c : config) (b : bool) (ls : list ylabel),
  u32 (issA c) -> u32 (issB c) -> 100 <= mtuA c <= 65535 -> 100 <= mtuB c <= 65535 ->
  let y := yrun c (yinit b) ls in
  zlen (ypushA y) < 2 ^ 31 - 2 ^ 17 -> zlen (ypushB y) < 2 ^ 31 - 2 ^ 17 ->
  ypan y = false /\
  (exists rest, ypushA y = yflushed y SB ++ rest) /\
  (exists rest, ypushB y = yflushed y SA ++ rest).
Proof. exact session_safety_explicit. Qed.
Print Assumptions C01s_session_safety.

(* how it is obtained: forgetting the channels (queued segments count as in flight, a task that
   left its loop is a dead endpoint, the submitted stream is what the TCB accepted) every
   reachable state of the session system satisfies the invariant SysInv of the two-endpoint TCB
   system behind C01_safety, and what the application wrote is what the task handled followed
   by what still waits in the channel, the accepted stream being a prefix of the former *)
Theorem C01s_session_invariant : forall (c : config) (b : bool) (ls : list ylabel),
  u32 (issA c) -> u32 (issB c) -> 100 <= mtuA c <= 65535 -> 100 <= mtuB c <= 65535 ->
  let y := yrun c (yinit b) ls in
  zlen (ypushA y) < 2 ^ 31 - 2 ^ 17 -> zlen (ypushB y) < 2 ^ 31 - 2 ^ 17 ->
  SysInv c (yabs y) /\
  (forall x, exists handled, ypush y x = handled ++ qbytes (yq (yt y x)) /\
                             exists rest, handled = sub_of (yabs y) x ++ rest).
Proof. exact session_refines_tcb_invariant. Qed.
Print Assumptions C01s_session_invariant.

(* (c) the task ends exactly when segment_arrives returns Close or advance_time returns
   CloseConnection; Ended is the last output of the whole execution: after that call the task
   calls nothing on its TCB, emits nothing and flushes nothing (in particular what the closing
   round had put into the TCB's receive buffer and output queues stays there) *)
Theorem C01s_nothing_after_close : forall (evs : list sevent) (s s' : sess) (outs : list sout) (t : tcb),
  sess_exec s evs = Some (s', outs) -> In (OEnded t) outs ->
  exists pre, outs = pre ++ [OEnded t] /\ ss_phase s' = PEnded /\ ss_tcb s' = t.
Proof. exact exec_ended_last. Qed.
Print Assumptions C01s_nothing_after_close.

Theorem C01s_end_cause : forall (s : sess) (e : sevent) (s' : sess) (o : list sout) (t : tcb),
  sess_step s e = Some (s', o) -> In (OEnded t) o ->
  ss_phase s' = PEnded /\ ss_tcb s' = t /\
  ((exists seg, e = SIncoming seg /\ segment_arrives (ss_tcb s) seg = Ok (t, AClose) /\
                o = [OCall (CArrives seg); OEnded t]) \/
   (e = SAdvance /\ advance_time (ss_tcb s) 5 = (t, TCloseConnection) /\
    o = [OCall (CAdvance 5); OEnded t])).
Proof. exact sess_step_end_cause. Qed.
Print Assumptions C01s_end_cause.

(* advance_time is only ever called with 5 ms, in the model and hence in every accepted trace *)
Theorem C01s_advance_5ms : forall (evs : list sevent) (s s' : sess) (outs : list sout) (ms : Z),
  sess_exec s evs = Some (s', outs) -> In (OCall (CAdvance ms)) outs -> ms = 5.
Proof. exact exec_advance_5ms. Qed.
Print Assumptions C01s_advance_5ms.

Theorem C01s_validated_advance_5ms : forall (i : init_info) (tr : list oevent) (ns : Z),
  sess_validate i tr = Accept -> In (EvAdvance ns) tr -> ns = 5000000.
Proof. exact validate_advance_5ms. Qed.
Print Assumptions C01s_validated_advance_5ms.

(* a round always ends with receive(): after segments() only receive() is enabled, it hands
   over exactly the TCB's buffered text, and a new round starts only through it *)
Theorem C01s_round_ends_with_receive : forall (s s1 : sess) (o1 : list sout),
  sess_step s SEmit = Some (s1, o1) ->
  (ss_phase s1 = PEmitted \/ ss_phase s1 = PCrashed) /\
  (ss_phase s1 = PEmitted -> forall e s2 o2, sess_step s1 e = Some (s2, o2) ->
     e = SFlush /\ ss_phase s2 = PDrain true /\
     exists rest, o2 = OCall CReceive :: OFlushed (in_text (ss_tcb s1)) :: rest).
Proof. exact emit_then_receive. Qed.
Print Assumptions C01s_round_ends_with_receive.

Theorem C01s_round_starts_after_receive : forall (s : sess) (e : sevent) (s' : sess) (o : list sout),
  sess_step s e = Some (s', o) -> ss_phase s' = PDrain true ->
  e = SFlush /\ exists b rest, o = OCall CReceive :: OFlushed b :: rest.
Proof. exact round_starts_after_receive. Qed.
Print Assumptions C01s_round_starts_after_receive.

(* the hypotheses of C01s_session_safety are satisfiable and data gets through: a write before
   the handshake completes, single task steps and timeouts of both tasks, a dropped and a
   duplicated segment, writes in both directions (130 + 5 bytes one way, 250 bytes - more than
   B's segment size of 100 - the other way, ISS of A wrapping), everything flushed in order *)
Theorem C01s_example :
  u32 (issA exs_cfg) /\ u32 (issB exs_cfg) /\ 100 <= mtuA exs_cfg <= 65535 /\ 100 <= mtuB exs_cfg <= 65535 /\
  zlen (ypushA exs_final) < 2 ^ 31 - 2 ^ 17 /\ zlen (ypushB exs_final) < 2 ^ 31 - 2 ^ 17 /\
  length (ypushA exs_final) = 135%nat /\ length (ypushB exs_final) = 250%nat /\
  yflushed exs_final SB = ypushA exs_final /\ yflushed exs_final SA = ypushB exs_final.
Proof. exact exs_facts. Qed.
Print Assumptions C01s_example.
