(* C18 - checksums (cargo feature compute_checksum = model switch ck = true) - property
   theorems only.  fck = receive-side repair c999f3a6 (true = the code as it is now).
   Notions: [words] = big-endian 16-bit words with a zero-padded odd tail; [oc_sum] = fold of
   the end-around-carry addition = one's-complement sum; [rfc1071_verifies bs] = that sum over
   all words INCLUDING the checksum field is 0xffff; for UDP / TCP the summed string is the
   12-byte pseudo header followed by the segment. *)
From Elvis Require Import Model.Base Model.Bytes Model.Checksum Model.Ipv4Hdr Model.UdpHdr Model.TcpHdr
  Proofs.BytesFacts Proofs.ChecksumFacts Proofs.Ipv4HdrFacts Proofs.UdpHdrFacts Proofs.TcpHdrFacts.
Local Open Scope Z_scope.

(* ------------------------------------------------------------------ the arithmetic *)
(* the Rust adder (overflowing_add + carry) is the end-around-carry addition and cannot panic *)
Theorem C18_add16_is_code : forall acc v, u16 acc -> u16 v -> add_u16_checked acc v = Ok (add16 acc v).
Proof. exact add_u16_checked_ok. Qed.
Print Assumptions C18_add16_is_code.
(* one's-complement sum = integer sum modulo 65535, in closed form *)
Theorem C18_oc_sum_norm : forall ws, Forall u16 ws -> oc_sum ws = oc_norm (zsum ws).
Proof. exact oc_sum_norm. Qed.
Print Assumptions C18_oc_sum_norm.
Theorem C18_acc_congr : forall ws, Forall u16 ws -> oc_sum ws mod 65535 = zsum ws mod 65535.
Proof. exact acc_congr. Qed.
Print Assumptions C18_acc_congr.
Theorem C18_oc_sum_zero_iff : forall ws, Forall u16 ws -> (oc_sum ws = 0 <-> Forall (fun w => w = 0) ws).
Proof. exact oc_sum_zero_iff. Qed.
Print Assumptions C18_oc_sum_zero_iff.
(* the deferred-carry formulation of RFC 1071 4.1 is the same function *)
Theorem C18_fold32 : forall s, 0 <= s < 4294967296 -> fold32 s = oc_norm s.
Proof. exact fold32_norm. Qed.
Print Assumptions C18_fold32.
(* as_u16 against the conforming value 65535 - sum: equal except that for a sum of 0xffff the
   code emits 0xffff where a conforming IPv4 / TCP sender emits 0x0000 (both verify) *)
Theorem C18_as_u16_conforming : forall s, 0 < s ->
  (oc_norm s <> 65535 -> as_u16 true (oc_norm s) = 65535 - oc_norm s) /\
  (oc_norm s = 65535 -> as_u16 true (oc_norm s) = 65535 /\ 65535 - oc_norm s = 0).
Proof. exact as_u16_conforming. Qed.
Print Assumptions C18_as_u16_conforming.
Theorem C18_emitted_sum_verifies : forall s, 0 <= s -> oc_norm (s + as_u16 true (oc_norm s)) = 65535.
Proof. exact emitted_sum_verifies. Qed.
Print Assumptions C18_emitted_sum_verifies.

(* ------------------------------------------------------------------ emitted packets verify *)
Theorem C18_ipv4_emitted_verifies : forall tos plen ident frag flags ttl proto src dst bs,
  u8 tos -> 0 <= plen -> plen + 20 <= 65535 -> u16 ident -> 0 <= frag <= 8191 -> 0 <= flags < 8 ->
  u8 ttl -> u8 proto -> u32 src -> u32 dst ->
  ipv4_build true tos plen ident frag flags ttl proto src dst = Ok bs ->
  length bs = 20%nat /\ rfc1071_verifies bs = true.
Proof. exact ipv4_emitted_verifies. Qed.
Print Assumptions C18_ipv4_emitted_verifies.
(* every payload content and length, odd and empty included; the field is never 0x0000 *)
Theorem C18_udp_emitted_verifies : forall sa sp da dp text hdr,
  u32 sa -> u16 sp -> u32 da -> u16 dp -> bytes text -> Z.of_nat (length text) + 8 <= 65535 ->
  udp_build true sa sp da dp text (Z.of_nat (length text)) = Ok hdr ->
  length hdr = 8%nat /\
  rfc1071_verifies (pseudo sa da 17 (Z.of_nat (length text) + 8) ++ hdr ++ text) = true /\
  of_be16 (nth 6 hdr 0) (nth 7 hdr 0) <> 0.
Proof. exact udp_emitted_verifies. Qed.
Print Assumptions C18_udp_emitted_verifies.
Theorem C18_tcp_emitted_verifies : forall h0 sa da text h,
  tcp_fields_ok h0 -> u32 sa -> u32 da -> bytes text -> Z.of_nat (length text) + 20 <= 65535 ->
  tcp_build true h0 sa da text (Z.of_nat (length text)) = Ok h ->
  rfc1071_verifies (pseudo sa da 6 (Z.of_nat (length text) + 20) ++ tcp_encode h ++ text) = true.
Proof. exact tcp_emitted_verifies. Qed.
Print Assumptions C18_tcp_emitted_verifies.

(* ------------------------------------------------------------------ what the decoders accept *)
Theorem C18_ipv4_accept_iff : forall bs, bytes bs -> (20 <= length bs)%nat ->
  ((exists h, ipv4_decode true true true bs = Ok h) <->
   ipv4_struct_ok bs = true /\ rfc1071_verifies (firstn 20 bs) = true).
Proof. exact ipv4_accept_iff. Qed.
Print Assumptions C18_ipv4_accept_iff.
Theorem C18_udp_accept_iff : forall bs plen sa da, bytes bs -> (8 <= length bs)%nat -> u32 sa -> u32 da ->
  let len := of_be16 (nth 4 bs 0) (nth 5 bs 0) in
  let field := of_be16 (nth 6 bs 0) (nth 7 bs 0) in
  ((exists h, udp_decode true bs plen sa da = Ok h) <->
   plen = len /\ field <> 0 /\ rfc1071_verifies (pseudo sa da 17 len ++ bs) = true).
Proof. exact udp_accept_iff. Qed.
Print Assumptions C18_udp_accept_iff.
Theorem C18_tcp_accept_iff : forall bs plen sa da, bytes bs -> (20 <= length bs)%nat -> u32 sa -> u32 da -> 0 <= plen ->
  ((exists h, tcp_decode true true bs plen sa da = Ok h) <->
   shr (nth 12 bs 0) 4 = 5 /\ plen <= 65535 /\ rfc1071_verifies (pseudo sa da 6 plen ++ bs) = true).
Proof. exact tcp_accept_iff. Qed.
Print Assumptions C18_tcp_accept_iff.

(* conforming senders are accepted (after repair c999f3a6) *)
Theorem C18_ipv4_accepts_reference : forall b1 b2 b3 b4 b5 b6 b7 b8 b9 b12 b13 b14 b15 b16 b17 b18 b19 rest,
  bytes [b1; b2; b3; b4; b5; b6; b7; b8; b9; b12; b13; b14; b15; b16; b17; b18; b19] ->
  let zeroed := [69; b1; b2; b3; b4; b5; b6; b7; b8; b9; 0; 0; b12; b13; b14; b15; b16; b17; b18; b19] in
  let c := rfc1071_checksum zeroed in
  let hdr := [69; b1; b2; b3; b4; b5; b6; b7; b8; b9; c / 256 mod 256; c mod 256;
              b12; b13; b14; b15; b16; b17; b18; b19] in
  ipv4_struct_ok hdr = true ->
  exists h, ipv4_decode true true true (hdr ++ rest) = Ok h /\ h = rfc791_fields hdr.
Proof. exact ipv4_accepts_reference. Qed.
Print Assumptions C18_ipv4_accepts_reference.
Theorem C18_udp_accepts_reference : forall sa sp da dp text,
  u32 sa -> u16 sp -> u32 da -> u16 dp -> bytes text -> Z.of_nat (length text) + 8 <= 65535 ->
  let len := Z.of_nat (length text) + 8 in
  let zeroed := be16 sp ++ be16 dp ++ be16 len ++ [0; 0] in
  let c0 := rfc1071_checksum (pseudo sa da 17 len ++ zeroed ++ text) in
  let c := if c0 =? 0 then 65535 else c0 in
  udp_decode true ((be16 sp ++ be16 dp ++ be16 len ++ be16 c) ++ text) len sa da
    = Ok (mk_udp sp dp len c).
Proof. exact udp_accepts_reference. Qed.
Print Assumptions C18_udp_accepts_reference.
Theorem C18_tcp_accepts_reference : forall sp dp seq ack ctl wnd urg sa da text,
  u16 sp -> u16 dp -> u32 seq -> u32 ack -> 0 <= ctl < 64 -> u16 wnd -> u16 urg -> u32 sa -> u32 da ->
  bytes text -> Z.of_nat (length text) + 20 <= 65535 ->
  let len := Z.of_nat (length text) + 20 in
  let c := rfc1071_checksum (pseudo sa da 6 len ++ tcp_encode (mk_tcp sp dp seq ack 5 ctl wnd urg 0) ++ text) in
  tcp_decode true true (tcp_encode (mk_tcp sp dp seq ack 5 ctl wnd urg c) ++ text) len sa da
    = Ok (mk_tcp sp dp seq ack 5 ctl wnd urg c).
Proof. exact tcp_accepts_reference. Qed.
Print Assumptions C18_tcp_accepts_reference.
(* before the repair this was false for IPv4 and TCP whenever the other words sum to 0xffff:
   witnesses (conforming field 0x0000, rejected with "expected 0, actual 0xffff") *)
Theorem C18_ipv4_accepts_reference_orig_refuted :
  rfc1071_verifies ipv4_ffff_witness = true /\
  nth 10 ipv4_ffff_witness 0 * 256 + nth 11 ipv4_ffff_witness 0 = rfc1071_checksum ipv4_ffff_witness /\
  ipv4_decode false true true ipv4_ffff_witness = Err (E_CK 0 65535) /\
  is_ok (ipv4_decode true true true ipv4_ffff_witness) = true.
Proof. exact ipv4_accepts_reference_orig_refuted. Qed.
Print Assumptions C18_ipv4_accepts_reference_orig_refuted.
Theorem C18_tcp_accepts_reference_orig_refuted :
  rfc1071_verifies (pseudo 0 0 6 20 ++ tcp_ffff_witness) = true /\
  rfc1071_checksum (pseudo 0 0 6 20 ++ tcp_ffff_witness) = 0 /\
  tcp_decode false true tcp_ffff_witness 20 0 0 = Err (ET_CK 0 65535) /\
  is_ok (tcp_decode true true tcp_ffff_witness 20 0 0) = true.
Proof. exact tcp_accepts_reference_orig_refuted. Qed.
Print Assumptions C18_tcp_accepts_reference_orig_refuted.

(* ------------------------------------------------------------------ corruption *)
(* "altered in a way the Internet checksum can detect" = the covered word sum changes modulo
   65535 (the pseudo header is the same on both sides, so it cancels) *)
Theorem C18_ipv4_corruption_detected : forall fck ftl bs bs' h, bytes bs -> bytes bs' ->
  ipv4_decode fck ftl true bs = Ok h ->
  wsum (firstn 20 bs') mod 65535 <> wsum (firstn 20 bs) mod 65535 ->
  forall h', ipv4_decode fck ftl true bs' <> Ok h'.
Proof. exact ipv4_corruption_detected. Qed.
Print Assumptions C18_ipv4_corruption_detected.
Theorem C18_udp_corruption_detected : forall bs bs' plen sa da h, bytes bs -> bytes bs' -> u32 sa -> u32 da ->
  udp_decode true bs plen sa da = Ok h ->
  wsum bs' mod 65535 <> wsum bs mod 65535 ->
  forall h', udp_decode true bs' plen sa da <> Ok h'.
Proof. exact udp_corruption_detected. Qed.
Print Assumptions C18_udp_corruption_detected.
Theorem C18_tcp_corruption_detected : forall fck bs bs' plen sa da h, bytes bs -> bytes bs' -> u32 sa -> u32 da ->
  0 <= plen ->
  tcp_decode fck true bs plen sa da = Ok h ->
  wsum bs' mod 65535 <> wsum bs mod 65535 ->
  forall h', tcp_decode fck true bs' plen sa da <> Ok h'.
Proof. exact tcp_corruption_detected. Qed.
Print Assumptions C18_tcp_corruption_detected.

(* a single flipped bit always changes the sum (2^k is no multiple of 65535) ... *)
Theorem C18_single_flip_changes_sum : forall bs i j extra, (i < length bs)%nat -> bytes bs -> 0 <= j < 8 ->
  (extra + wsum (flip_at bs i j)) mod 65535 <> (extra + wsum bs) mod 65535.
Proof. exact single_flip_changes_sum. Qed.
Print Assumptions C18_single_flip_changes_sum.
(* ... so every single-bit corruption of an accepted packet is rejected *)
Theorem C18_ipv4_single_flip_rejected : forall fck ftl bs h i j, bytes bs ->
  ipv4_decode fck ftl true bs = Ok h -> (i < 20)%nat -> 0 <= j < 8 ->
  forall h', ipv4_decode fck ftl true (flip_at bs i j) <> Ok h'.
Proof. exact ipv4_single_flip_rejected. Qed.
Print Assumptions C18_ipv4_single_flip_rejected.
Theorem C18_udp_single_flip_rejected : forall bs plen sa da h i j, bytes bs -> u32 sa -> u32 da ->
  udp_decode true bs plen sa da = Ok h -> (i < length bs)%nat -> 0 <= j < 8 ->
  forall h', udp_decode true (flip_at bs i j) plen sa da <> Ok h'.
Proof. exact udp_single_flip_rejected. Qed.
Print Assumptions C18_udp_single_flip_rejected.
Theorem C18_tcp_single_flip_rejected : forall fck bs plen sa da h i j, bytes bs -> u32 sa -> u32 da -> 0 <= plen ->
  tcp_decode fck true bs plen sa da = Ok h -> (i < length bs)%nat -> 0 <= j < 8 ->
  forall h', tcp_decode fck true (flip_at bs i j) plen sa da <> Ok h'.
Proof. exact tcp_single_flip_rejected. Qed.
Print Assumptions C18_tcp_single_flip_rejected.

(* two flipped bits: the sum is unchanged exactly for the compensating pairs - same bit position
   in two 16-bit words, one bit was 0 and the other 1 *)
Theorem C18_double_flip_unchanged_iff : forall bs i1 j1 i2 j2 extra,
  (i1 < length bs)%nat -> (i2 < length bs)%nat -> bytes bs -> 0 <= j1 < 8 -> 0 <= j2 < 8 ->
  (i1 <> i2 \/ j1 <> j2) ->
  ((extra + wsum (flip_at (flip_at bs i1 j1) i2 j2)) mod 65535 = (extra + wsum bs) mod 65535
   <-> bit_exp i1 j1 = bit_exp i2 j2 /\
       Z.testbit (nth i1 bs 0) j1 <> Z.testbit (nth i2 bs 0) j2).
Proof. exact double_flip_unchanged_iff. Qed.
Print Assumptions C18_double_flip_unchanged_iff.
Theorem C18_ipv4_double_flip_rejected : forall fck ftl bs h i1 j1 i2 j2, bytes bs ->
  ipv4_decode fck ftl true bs = Ok h -> (i1 < 20)%nat -> (i2 < 20)%nat -> 0 <= j1 < 8 -> 0 <= j2 < 8 ->
  (i1 <> i2 \/ j1 <> j2) ->
  ~ (bit_exp i1 j1 = bit_exp i2 j2 /\ Z.testbit (nth i1 bs 0) j1 <> Z.testbit (nth i2 bs 0) j2) ->
  forall h', ipv4_decode fck ftl true (flip_at (flip_at bs i1 j1) i2 j2) <> Ok h'.
Proof. exact ipv4_double_flip_rejected. Qed.
Print Assumptions C18_ipv4_double_flip_rejected.
Theorem C18_udp_double_flip_rejected : forall bs plen sa da h i1 j1 i2 j2, bytes bs -> u32 sa -> u32 da ->
  udp_decode true bs plen sa da = Ok h ->
  (i1 < length bs)%nat -> (i2 < length bs)%nat -> 0 <= j1 < 8 -> 0 <= j2 < 8 -> (i1 <> i2 \/ j1 <> j2) ->
  ~ (bit_exp i1 j1 = bit_exp i2 j2 /\ Z.testbit (nth i1 bs 0) j1 <> Z.testbit (nth i2 bs 0) j2) ->
  forall h', udp_decode true (flip_at (flip_at bs i1 j1) i2 j2) plen sa da <> Ok h'.
Proof. exact udp_double_flip_rejected. Qed.
Print Assumptions C18_udp_double_flip_rejected.
Theorem C18_tcp_double_flip_rejected : forall fck bs plen sa da h i1 j1 i2 j2, bytes bs -> u32 sa -> u32 da -> 0 <= plen ->
  tcp_decode fck true bs plen sa da = Ok h ->
  (i1 < length bs)%nat -> (i2 < length bs)%nat -> 0 <= j1 < 8 -> 0 <= j2 < 8 -> (i1 <> i2 \/ j1 <> j2) ->
  ~ (bit_exp i1 j1 = bit_exp i2 j2 /\ Z.testbit (nth i1 bs 0) j1 <> Z.testbit (nth i2 bs 0) j2) ->
  forall h', tcp_decode fck true (flip_at (flip_at bs i1 j1) i2 j2) plen sa da <> Ok h'.
Proof. exact tcp_double_flip_rejected. Qed.
Print Assumptions C18_tcp_double_flip_rejected.
