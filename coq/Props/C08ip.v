(* C08 (IPv4 / UDP / TCP part) - property theorems only.
   Models: Model/{Bytes,Checksum,Ipv4Hdr,UdpHdr,TcpHdr}.v.  Switches: ck = cargo feature
   compute_checksum (C08 is about the default build, ck = false; most statements hold for both),
   fck / ftl = the two repairs (true = the code as it is now in /repo, commits c999f3a6 and
   590cc7ad; false = the code before the repair, kept for the refutation witnesses).
   "Header value" of a codec = its Rust struct; "encode" = the serialisation function the
   stack uses for that struct (Ipv4Header::serialize -> Ipv4HeaderBuilder::build,
   build_udp_header, TcpHeaderBuilder::build + TcpHeader::serialize). *)
From Elvis Require Import Model.Base Model.Bytes Model.Checksum Model.Ipv4Hdr Model.UdpHdr Model.TcpHdr
  Proofs.BytesFacts Proofs.ChecksumFacts Proofs.Ipv4HdrFacts Proofs.UdpHdrFacts Proofs.TcpHdrFacts.
Local Open Scope Z_scope.

(* ======================================================================== IPv4 *)

(* decode (encode h ++ payload) = h for every representable header value: all TOS values the
   typed constructor can make (reserved bits 0), all four flag combinations, all fragment
   offsets 0..8191, all total lengths 20..65535, every id / ttl / protocol / address; the
   checksum field is the one the build emits (0 in the default build) *)
Theorem C08_ipv4_decode_encode : forall fck ftl ck h payload, ipv4_wf ck h ->
  exists bs, ipv4_encode ck h = Ok bs /\ length bs = 20%nat /\
             ipv4_decode fck ftl ck (bs ++ payload) = Ok h.
Proof. exact ipv4_decode_encode. Qed.
Print Assumptions C08_ipv4_decode_encode.

(* the hypothesis is satisfiable, e.g. by an extreme header *)
Example C08_ipv4_wf_example :
  ipv4_wf false (mk_ipv4 5 252 65535 65535 8191 3 255 255 0 4294967295 4294967295).
Proof. unfold ipv4_wf, u8, u16, u32. cbn. lia. Qed.
Print Assumptions C08_ipv4_wf_example.

(* every accepted byte string re-encodes to the 20 bytes consumed (default build: ck = false;
   also with checksums whenever the decoder compares exactly) *)
Theorem C08_ipv4_encode_decode : forall fck ck bs h, bytes bs -> (ck = false \/ fck = false) ->
  ipv4_decode fck true ck bs = Ok h -> ipv4_encode ck h = Ok (firstn 20 bs).
Proof. exact ipv4_encode_decode. Qed.
Print Assumptions C08_ipv4_encode_decode.

(* before repair 590cc7ad the clause was false: total_length < 20 was accepted and serialize
   panics on the accepted value (ipv4_parsing.rs l.129) *)
Theorem C08_ipv4_encode_decode_orig_refuted :
  exists h, ipv4_decode false false false ipv4_totlen_witness = Ok h /\
            ipv4_encode false h = Panic 121 /\
            ipv4_decode true true false ipv4_totlen_witness = Err E_TOTLEN.
Proof. exact ipv4_encode_decode_orig_refuted. Qed.
Print Assumptions C08_ipv4_encode_decode_orig_refuted.
(* ... and held exactly for total_length >= 20 *)
Theorem C08_ipv4_encode_decode_orig : forall fck ck bs h, bytes bs -> (ck = false \/ fck = false) ->
  ipv4_decode fck false ck bs = Ok h -> 20 <= ip_len h -> ipv4_encode ck h = Ok (firstn 20 bs).
Proof. exact ipv4_encode_decode_orig. Qed.
Print Assumptions C08_ipv4_encode_decode_orig.

(* the encoding is the RFC 791 header, written arithmetically from the diagram *)
Theorem C08_ipv4_matches_rfc : forall ck prec d t r plen ident df mf frag ttl proto src dst,
  0 <= prec < 8 -> 0 <= d < 2 -> 0 <= t < 2 -> 0 <= r < 2 ->
  0 <= plen -> plen + 20 <= 65535 -> u16 ident -> 0 <= df < 2 -> 0 <= mf < 2 -> 0 <= frag <= 8191 ->
  u8 ttl -> u8 proto -> u32 src -> u32 dst ->
  let tos := prec * 32 + d * 16 + t * 8 + r * 4 in
  let flags := df * 2 + mf in
  ipv4_build ck tos plen ident frag flags ttl proto src dst =
  Ok (rfc791_bytes 4 5 prec d t r (plen + 20) ident df mf frag ttl proto
        (ipv4_cksum ck tos (plen + 20) ident (flags * 8192 + frag) ttl proto src dst) src dst).
Proof. exact ipv4_matches_rfc. Qed.
Print Assumptions C08_ipv4_matches_rfc.
(* the decoder accepts the RFC 791 encoding of every supported field combination (what any
   conforming encoder, e.g. etherparse, produces) and extracts the same fields *)
Theorem C08_ipv4_decode_rfc : forall fck ftl ck prec d t r plen ident df mf frag ttl proto src dst payload,
  0 <= prec < 8 -> 0 <= d < 2 -> 0 <= t < 2 -> 0 <= r < 2 ->
  0 <= plen -> plen + 20 <= 65535 -> u16 ident -> 0 <= df < 2 -> 0 <= mf < 2 -> 0 <= frag <= 8191 ->
  u8 ttl -> u8 proto -> u32 src -> u32 dst ->
  let tos := prec * 32 + d * 16 + t * 8 + r * 4 in
  let flags := df * 2 + mf in
  let cks := ipv4_cksum ck tos (plen + 20) ident (flags * 8192 + frag) ttl proto src dst in
  ipv4_decode fck ftl ck
    (rfc791_bytes 4 5 prec d t r (plen + 20) ident df mf frag ttl proto cks src dst ++ payload)
  = Ok (mk_ipv4 5 tos (plen + 20) ident frag flags ttl proto cks src dst).
Proof. exact ipv4_decode_rfc. Qed.
Print Assumptions C08_ipv4_decode_rfc.
(* the typed constructors produce exactly the numbers used above *)
Theorem C08_ipv4_tos_new : forall prec d t r, 0 <= prec < 8 -> 0 <= d < 2 -> 0 <= t < 2 -> 0 <= r < 2 ->
  tos_new prec d t r = prec * 32 + d * 16 + t * 8 + r * 4.
Proof. exact tos_new_arith. Qed.
Print Assumptions C08_ipv4_tos_new.
Theorem C08_ipv4_cf_new : forall may last,
  cf_new may last = b2z (negb may) * 2 + b2z (negb last) /\
  cf_may_fragment (cf_new may last) = may /\ cf_is_last (cf_new may last) = last.
Proof. exact cf_new_arith. Qed.
Print Assumptions C08_ipv4_cf_new.
(* the decoder extracts exactly the fields of the RFC diagram from whatever it accepts (so in
   particular from the output of any conforming encoder) *)
Theorem C08_ipv4_decode_fields_rfc : forall fck ftl ck bs h, bytes bs ->
  ipv4_decode fck ftl ck bs = Ok h -> h = rfc791_fields bs.
Proof. exact ipv4_decode_fields_rfc. Qed.
Print Assumptions C08_ipv4_decode_fields_rfc.
(* builder failure paths: exactly the two documented errors *)
Theorem C08_ipv4_build_long : forall ck tos plen ident frag flags ttl proto src dst,
  65535 < plen + 20 -> ipv4_build ck tos plen ident frag flags ttl proto src dst = Err EB_LONG.
Proof. exact ipv4_build_long. Qed.
Print Assumptions C08_ipv4_build_long.
Theorem C08_ipv4_build_frag : forall ck tos plen ident frag flags ttl proto src dst,
  plen + 20 <= 65535 -> 8191 < frag ->
  ipv4_build ck tos plen ident frag flags ttl proto src dst = Err EB_FRAG.
Proof. exact ipv4_build_frag. Qed.
Print Assumptions C08_ipv4_build_frag.

(* ========================================================================= UDP *)

(* all ports, all addresses, every payload up to the 16-bit limit (65527 bytes): the built
   header is the RFC 768 header and decoding header ++ payload gives the same fields back *)
Theorem C08_udp_decode_encode_rfc : forall ck sa sp da dp text,
  u32 sa -> u16 sp -> u32 da -> u16 dp -> bytes text -> Z.of_nat (length text) + 8 <= 65535 ->
  exists c, u16 c /\
    udp_build ck sa sp da dp text (Z.of_nat (length text)) =
      Ok (rfc768_bytes sp dp (Z.of_nat (length text) + 8) c) /\
    udp_decode ck (rfc768_bytes sp dp (Z.of_nat (length text) + 8) c ++ text)
               (Z.of_nat (length text) + 8) sa da = Ok (mk_udp sp dp (Z.of_nat (length text) + 8) c).
Proof. exact udp_build_matches_rfc. Qed.
Print Assumptions C08_udp_decode_encode_rfc.

(* an accepted datagram (packet_len = its length, as udp.rs l.115 passes) re-encodes to its
   8 header bytes *)
Theorem C08_udp_encode_decode : forall ck bs sa da h, bytes bs -> u32 sa -> u32 da ->
  udp_decode ck bs (Z.of_nat (length bs)) sa da = Ok h ->
  udp_build ck sa (ud_sport h) da (ud_dport h) (skipn 8 bs) (ud_len h - 8) = Ok (firstn 8 bs).
Proof. exact udp_encode_decode. Qed.
Print Assumptions C08_udp_encode_decode.
Theorem C08_udp_decode_fields_rfc : forall ck bs plen sa da h, bytes bs ->
  udp_decode ck bs plen sa da = Ok h -> h = rfc768_fields bs.
Proof. exact udp_decode_fields_rfc. Qed.
Print Assumptions C08_udp_decode_fields_rfc.
(* payloads beyond the limit are the documented error, never a wrapped length *)
Theorem C08_udp_build_long : forall ck sa sp da dp text tlen, 65535 < tlen + 8 -> tlen + 8 <= usize_max ->
  udp_build ck sa sp da dp text tlen = Err EUB_LONG.
Proof. exact udp_build_long. Qed.
Print Assumptions C08_udp_build_long.

(* ========================================================================= TCP *)

(* all ports, seq/ack, windows, urgent pointers, ALL 64 control-bit combinations (ctl < 64 is
   universally quantified), every payload up to 65515 bytes *)
Theorem C08_tcp_decode_encode : forall fck ck h0 sa da text,
  tcp_fields_ok h0 -> u32 sa -> u32 da -> bytes text -> Z.of_nat (length text) + 20 <= 65535 ->
  exists h, tcp_build ck h0 sa da text (Z.of_nat (length text)) = Ok h /\
            length (tcp_encode h) = 20%nat /\
            t_sport h = t_sport h0 /\ t_dport h = t_dport h0 /\ t_seq h = t_seq h0 /\ t_ack h = t_ack h0 /\
            t_doff h = 5 /\ t_ctl h = t_ctl h0 /\ t_wnd h = t_wnd h0 /\ t_urg h = t_urg h0 /\
            tcp_decode fck ck (tcp_encode h ++ text) (Z.of_nat (length text) + 20) sa da = Ok h.
Proof. exact tcp_decode_encode. Qed.
Print Assumptions C08_tcp_decode_encode.
Example C08_tcp_fields_ok_example : tcp_fields_ok (mk_tcp 65535 0 4294967295 0 0 63 65535 65535 0).
Proof. unfold tcp_fields_ok, u16, u32. cbn. lia. Qed.
Print Assumptions C08_tcp_fields_ok_example.

(* the second clause is FALSE for TCP: the decoder masks the reserved bits away (as RFC 9293
   asks of a receiver), so a segment with such a bit set is accepted but not reproduced.
   Recorded finding class `tcp-reserved-bits` = [tcp_reserved_bits bs = true]. *)
Theorem C08_tcp_encode_decode_refuted :
  exists h, tcp_decode true false tcp_reserved_witness 20 0 0 = Ok h /\
            tcp_reserved_bits tcp_reserved_witness = true /\
            tcp_encode h <> firstn 20 tcp_reserved_witness.
Proof. exact tcp_encode_decode_refuted. Qed.
Print Assumptions C08_tcp_encode_decode_refuted.
(* outside the class the clause holds ... *)
Theorem C08_tcp_encode_decode : forall fck ck bs plen sa da h, bytes bs ->
  tcp_reserved_bits bs = false ->
  tcp_decode fck ck bs plen sa da = Ok h -> tcp_encode h = firstn 20 bs.
Proof. exact tcp_encode_decode. Qed.
Print Assumptions C08_tcp_encode_decode.
(* ... the class is exact ... *)
Theorem C08_tcp_encode_decode_iff : forall fck ck bs plen sa da h, bytes bs ->
  tcp_decode fck ck bs plen sa da = Ok h ->
  (tcp_encode h = firstn 20 bs <-> tcp_reserved_bits bs = false).
Proof. exact tcp_encode_decode_iff. Qed.
Print Assumptions C08_tcp_encode_decode_iff.
(* ... and inside it nothing but the reserved bits changes *)
Theorem C08_tcp_encode_decode_masked : forall fck ck bs plen sa da h, bytes bs ->
  tcp_decode fck ck bs plen sa da = Ok h ->
  tcp_encode h = firstn 12 bs ++ [band (nth 12 bs 0) 240; band (nth 13 bs 0) 63] ++ firstn 6 (skipn 14 bs).
Proof. exact tcp_encode_decode_masked. Qed.
Print Assumptions C08_tcp_encode_decode_masked.

Theorem C08_tcp_matches_rfc : forall sp dp seq ack doff u a p r s f wnd cks urgp,
  u16 sp -> u16 dp -> u32 seq -> u32 ack -> 0 <= doff < 16 -> u16 wnd -> u16 cks -> u16 urgp ->
  tcp_encode (mk_tcp sp dp seq ack doff (ctl_new u a p r s f) wnd urgp cks) =
  rfc9293_bytes sp dp seq ack doff 0 0 0 (b2zt u) (b2zt a) (b2zt p) (b2zt r) (b2zt s) (b2zt f) wnd cks urgp.
Proof. exact tcp_matches_rfc. Qed.
Print Assumptions C08_tcp_matches_rfc.
(* builder output = RFC 9293 bytes, and the decoder accepts them with the same fields *)
Theorem C08_tcp_decode_rfc : forall fck ck sp dp seq ack u a p r s f wnd urg sa da text,
  u16 sp -> u16 dp -> u32 seq -> u32 ack -> u16 wnd -> u16 urg -> u32 sa -> u32 da ->
  bytes text -> Z.of_nat (length text) + 20 <= 65535 ->
  let n := Z.of_nat (length text) in
  let ctl := ctl_new u a p r s f in
  exists c, u16 c /\
    tcp_build ck (mk_tcp sp dp seq ack 0 ctl wnd urg 0) sa da text n = Ok (mk_tcp sp dp seq ack 5 ctl wnd urg c) /\
    tcp_decode fck ck
      (rfc9293_bytes sp dp seq ack 5 0 0 0 (b2zt u) (b2zt a) (b2zt p) (b2zt r) (b2zt s) (b2zt f) wnd c urg ++ text)
      (n + 20) sa da = Ok (mk_tcp sp dp seq ack 5 ctl wnd urg c).
Proof. exact tcp_decode_rfc. Qed.
Print Assumptions C08_tcp_decode_rfc.
Theorem C08_tcp_decode_fields_rfc : forall fck ck bs plen sa da h, bytes bs ->
  tcp_decode fck ck bs plen sa da = Ok h ->
  t_sport h = t_sport (rfc9293_fields bs) /\ t_dport h = t_dport (rfc9293_fields bs) /\
  t_seq h = t_seq (rfc9293_fields bs) /\ t_ack h = t_ack (rfc9293_fields bs) /\
  t_doff h = t_doff (rfc9293_fields bs) /\ t_ctl h = t_ctl (rfc9293_fields bs) /\
  t_wnd h = t_wnd (rfc9293_fields bs) /\ t_urg h = t_urg (rfc9293_fields bs) /\
  t_ck h = t_ck (rfc9293_fields bs).
Proof. exact tcp_decode_fields_rfc. Qed.
Print Assumptions C08_tcp_decode_fields_rfc.

(* control bits: sweeps over the finite domains (vm_compute, lifted with forallb_forall) *)
Theorem C08_tcp_ctl_new_spec : forall u a p r s f,
  let c := ctl_new u a p r s f in
  c = ctl_arith u a p r s f /\ 0 <= c < 64 /\
  ctl_urg c = u /\ ctl_ack c = a /\ ctl_psh c = p /\ ctl_rst c = r /\ ctl_syn c = s /\ ctl_fin c = f.
Proof. exact ctl_new_spec. Qed.
Print Assumptions C08_tcp_ctl_new_spec.
Theorem C08_tcp_ctl_all_64 : forall c, 0 <= c < 64 ->
  ctl_new (ctl_urg c) (ctl_ack c) (ctl_psh c) (ctl_rst c) (ctl_syn c) (ctl_fin c) = c.
Proof. exact ctl_all_64. Qed.
Print Assumptions C08_tcp_ctl_all_64.
Theorem C08_tcp_ctl_set_bit : forall c bit st, 0 <= c < 256 -> 0 <= bit < 6 ->
  ctl_bit (ctl_set_bit c bit st) bit = st /\ 0 <= ctl_set_bit c bit st < 256 /\
  forall k, 0 <= k < 8 -> k <> bit -> Z.testbit (ctl_set_bit c bit st) k = Z.testbit c k.
Proof. exact ctl_set_bit_spec. Qed.
Print Assumptions C08_tcp_ctl_set_bit.
Theorem C08_tcp_build_long : forall ck h sa da text tlen, 65535 < tlen + 20 -> tlen + 20 <= usize_max_t ->
  tcp_build ck h sa da text tlen = Err ETB_LONG.
Proof. exact tcp_build_long. Qed.
Print Assumptions C08_tcp_build_long.
