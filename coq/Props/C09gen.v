(* C09, second tie by translation: the Gallina text regenerated from subnetting.rs and ipv4_address.rs by
   tools/translate_subnetting.py on every run equals the hand model Model/Subnet.v on every input in range, so
   the C09 theorems about masks, networks and ranges are about what the source says now.

   [A x] = the Ipv4Address (four big-endian bytes, as in the source) whose u32 is x; [netZ n] = the generated
   record of a model network; [sigma] = renaming of the hand model's panic sites to the translator's;
   [rmap f sigma r] maps the value / the panic site of a result.  All defined in Proofs/SubnetGen.v and
   Proofs/RsSemFacts.v. *)
From Coq Require Import NArith.
From Elvis Require Import Model.Base Model.Subnet Model.RsSem Gen.SubnetGen Proofs.SubnetFacts Proofs.RsSemFacts
  Proofs.SubnetGen.
Local Open Scope Z_scope.

(* ipv4_address.rs: From<u32>, to_u32, and the derived order / equality are those of the u32 *)
Theorem C09gen_address_is_u32 :
  (forall x, g_Ipv4Address_from_u32 (Z.of_N x) = A x) /\
  (forall x, lt32 x -> g_Ipv4Address_to_u32 (A x) = Z.of_N x) /\
  (forall x, lt32 x -> A x = map Z.of_N (to_be_bytes x)) /\
  (forall x y, lt32 x -> lt32 y -> lex_leb (A x) (A y) = (x <=? y)%N) /\
  (forall x y, lt32 x -> lt32 y -> list_eqb (A x) (A y) = (x =? y)%N) /\
  (forall x y, lt32 x -> lt32 y -> A x = A y -> x = y).
Proof.
  exact (conj gen_addr_from_u32 (conj gen_addr_to_u32 (conj A_is_model_bytes (conj gen_addr_leb
        (conj gen_addr_eqb A_inj))))).
Qed.
Print Assumptions C09gen_address_is_u32.

(* clamp and Ipv4Mask, for ALL arguments (a u32 is any N below 2^32; clamp / from_bitcount need no bound) *)
Theorem C09gen_mask_is_model :
  (forall n a b, g_clamp (Z.of_N n) (Z.of_N a) (Z.of_N b) = rmap Z.of_N sigma (clamp n a b)) /\
  (forall n, g_Ipv4Mask_from_bitcount (Z.of_N n) = rmap Z.of_N sigma (from_bitcount n)) /\
  (forall m, g_Ipv4Mask_count_ones (Z.of_N m) = Z.of_N (popcount m)) /\
  (forall m, g_Ipv4Mask_to_u32 m = m) /\
  (forall m, g_u32_from_Ipv4Mask m = m) /\
  (forall m, g_Ipv4Mask_to_ipv4_address (Z.of_N m) = A m) /\
  (forall m, g_Ipv4Address_from_Ipv4Mask (Z.of_N m) = A m) /\
  (forall m, lt32 m -> g_Ipv4Mask_ips_in_net (Z.of_N m) = Ok (Z.of_N (ips_in_net m))) /\
  (forall m, lt32 m -> g_Ipv4Mask_usable_ips (Z.of_N m) = Ok (Z.of_N (usable_ips m))) /\
  (forall m, g_Ipv4Mask_try_from_u32 (Z.of_N m) = emb_mask_try m (mask_try_from m)).
Proof.
  exact (conj gen_clamp (conj gen_from_bitcount (conj gen_count_ones (conj gen_mask_to_u32
        (conj gen_u32_from_mask (conj gen_mask_to_address (conj gen_address_from_mask
        (conj gen_ips_in_net (conj gen_usable_ips gen_mask_try_from))))))))).
Qed.
Print Assumptions C09gen_mask_is_model.

(* from_bitcount never panics although its source has four checked operators *)
Theorem C09gen_from_bitcount_total : forall n,
  g_Ipv4Mask_from_bitcount (Z.of_N n) = Ok (Z.of_N (prefix_mask (N.min n 32))).
Proof. exact gen_from_bitcount_ok. Qed.
Print Assumptions C09gen_from_bitcount_total.

(* Ipv4Net: constructors, accessors, broadcast (with its overflow panic), range, contains, overlaps (evaluation
   order and short circuit included), the tuple conversions and derived equality *)
Theorem C09gen_net_is_model :
  (forall ip mask, lt32 ip -> lt32 mask -> g_Ipv4Net_new (A ip) (Z.of_N mask) = netZ (net_new ip mask)) /\
  (forall ip len, lt32 ip -> g_Ipv4Net_new_short (A ip) (Z.of_N len) = rmap netZ sigma (net_new_short ip len)) /\
  (forall ip, g_Ipv4Net_new_1 (A ip) = rmap netZ sigma (net_new_1 ip)) /\
  (forall n, g_Ipv4Net_id (netZ n) = A (net_id n)) /\
  (forall n, g_Ipv4Net_mask (netZ n) = Z.of_N (net_mask n)) /\
  (forall n, net32 n -> g_Ipv4Net_broadcast (netZ n) = rmap A sigma (broadcast n)) /\
  (forall n, net32 n -> g_Ipv4Net_range (netZ n) = rmap rangeZ sigma (net_range n)) /\
  (forall n a, net32 n -> lt32 a -> g_Ipv4Net_contains (netZ n) (A a) = contains n a) /\
  (forall s o, net32 s -> net32 o ->
     g_Ipv4Net_overlaps (netZ s) (netZ o) = rmap (fun b : bool => b) sigma (overlaps s o)) /\
  (forall ip mask, lt32 ip -> lt32 mask ->
     g_Ipv4Net_from_tup_Ipv4Address_Ipv4Mask (A ip, Z.of_N mask) = netZ (net_new ip mask)) /\
  (forall n, g_tup_Ipv4Address_Ipv4Mask_from_Ipv4Net (netZ n) = (A (net_id n), Z.of_N (net_mask n))) /\
  (forall a b, net32 a -> net32 b -> g_Ipv4Net_eqb (netZ a) (netZ b) = net_eqb a b).
Proof.
  exact (conj gen_net_new (conj gen_net_new_short (conj gen_net_new_1 (conj gen_net_id (conj gen_net_mask
        (conj gen_broadcast (conj gen_range (conj gen_contains (conj gen_overlaps (conj gen_net_from_tuple
        (conj gen_tuple_from_net gen_net_eqb))))))))))).
Qed.
Print Assumptions C09gen_net_is_model.

(* TryFrom<RangeInclusive<Ipv4Address>> for Ipv4Net, error values included
   (TryFromRangeError::Empty / Size / Start = Err 1 / 2 / 3 on both sides) *)
Theorem C09gen_try_from_range_is_model : forall lo hi, lt32 lo -> lt32 hi ->
  g_Ipv4Net_try_from_range_Ipv4Address (A lo, A hi) = rmap netZ sigma (try_from_range lo hi).
Proof. exact gen_try_from_range. Qed.
Print Assumptions C09gen_try_from_range_is_model.

Theorem C09gen_subnet_info_new : forall m g,
  g_SubnetInfo_f_mask (g_SubnetInfo_new m g) = m /\ g_SubnetInfo_f_default_gateway (g_SubnetInfo_new m g) = g.
Proof. exact gen_subnet_info_new. Qed.
Print Assumptions C09gen_subnet_info_new.

(* the hypotheses are satisfiable and the panic of broadcast is real (a hand-built net 255.255.255.255/0,
   which no public constructor returns) *)
Example C09gen_examples :
  lt32 3232235777%N /\
  g_Ipv4Net_new_short (A 3232235777) 24 = Ok (netZ (mkNet 3232235776 4294967040)) /\
  g_Ipv4Net_broadcast (netZ (mkNet 3232235776 4294967040)) = Ok (A 3232236031) /\
  g_Ipv4Net_broadcast (netZ (mkNet 4294967295 0)) = Panic 2201 /\
  g_Ipv4Net_try_from_range_Ipv4Address (A 754974849, A 754974852) = Err 3.
Proof. repeat split; vm_compute; reflexivity. Qed.
