(* C13 - property theorems only.  Each is closed by [exact lemma]; statements are pinned.
   Model: Model/Startup.v.  Outside the model: tokio's Barrier / broadcast / scheduler implementations, the
   discipline of user-written protocols, what protocols do after start (Proofs are about the start bodies as
   action lists and about the decision logic of run_internet). *)
From Elvis Require Import Model.Base Model.Startup Proofs.StartupFacts.
From Coq Require Import NArith.

(* ---- the barrier.  For ALL configurations (any number of tasks, 0 included), ALL interleavings of the start
   tasks, helper tasks and deliveries, ALL numbers of frames an action emits: if no start puts a frame on a
   network before its barrier wait, then every frame and every delivery (hence every demux, and every
   PciSession::receive) comes after EVERY task has arrived at the barrier. *)
Theorem C13_barrier : forall (cfg : list (bool * list action)) (sched : list choice),
  (forall x, In x cfg -> frame_free_before_wait (fst x) (snd x) = true) ->
  forall pre ev post, run (init cfg) sched = pre ++ ev :: post -> net_event ev = true ->
  forall i, i < length cfg -> In (EvAct i ABarrierWait) pre.
Proof. exact barrier_all_interleavings. Qed.
Print Assumptions C13_barrier.

Example C13_barrier_hypothesis_satisfiable :
  forall x, In x (map (fun p => (true, row p)) [PUdp; PIpv4; PPci; PArp; PCapture; PSendMessage]) ->
            frame_free_before_wait (fst x) (snd x) = true.
Proof. exact barrier_hypothesis_satisfiable. Qed.
Print Assumptions C13_barrier_hypothesis_satisfiable.

(* ---- the built-in start bodies.  `forallb frame_free_before_wait builtin_table = true` is FALSE when AOpen
   resolves through ARP (res = true: the machine has Arp and the route's recipient has no MAC): *)
Theorem C13_builtin_discipline_refuted :
  forallb (fun r => frame_free_before_wait true (snd r)) builtin_table = false /\
  (exists r, In r builtin_table /\ frame_free_before_wait true (snd r) = false) /\
  offenders true = [PForward].
Proof. exact (conj table_discipline_refuted (conj table_has_offender offenders_resolving)). Qed.
Print Assumptions C13_builtin_discipline_refuted.

(* the offending row, run: a frame and a delivery to another machine before anybody arrived at the barrier *)
Theorem C13_forward_refuted :
  run (init [(true, row PForward); (true, row PPci)]) [CStep 0 1; CDeliver 1] =
  [EvAct 0 AOpen; EvFrame 0; EvDeliver 1].
Proof. exact forward_frames_before_barrier. Qed.
Print Assumptions C13_forward_refuted.

(* positive statement with the exact exclusion: every other row, and every row (Forward included) on a
   machine that does not resolve through ARP, is frame-free before its single barrier wait *)
Theorem C13_builtin_discipline :
  forallb (fun r => disciplined true (snd r))
          (filter (fun r => match fst r with PForward => false | _ => true end) builtin_table) = true /\
  forallb (fun r => disciplined false (snd r)) builtin_table = true /\
  (forall p, In (p, row p) builtin_table).
Proof. exact (conj table_discipline_except_forward (conj table_discipline_not_resolving builtin_table_rows)). Qed.
Print Assumptions C13_builtin_discipline.

(* hence, for any mix of built-in protocols on any number of machines, Forward only where its open does not
   resolve: the barrier property for all interleavings *)
Theorem C13_barrier_builtin : forall (cfg : list (bool * proto)) sched,
  (forall res p, In (res, p) cfg -> p = PForward -> res = false) ->
  forall pre ev post,
    run (init (map (fun x => (fst x, row (snd x))) cfg)) sched = pre ++ ev :: post -> net_event ev = true ->
    forall i, i < length cfg -> In (EvAct i ABarrierWait) pre.
Proof. exact barrier_builtin. Qed.
Print Assumptions C13_barrier_builtin.

(* the rows are lexical call lists; an executed path is a subsequence that keeps the top-level wait *)
Theorem C13_paths : forall res l' l,
  subseq l' l -> nwaits l = 1 -> nwaits l' = 1 ->
  frame_free_before_wait res l = true -> frame_free_before_wait res l' = true.
Proof. exact ffbw_subseq. Qed.
Print Assumptions C13_paths.

(* ---- the run.  Whatever happens to the run task (requests, joins, closes, polls, the outer deadline, in any
   order and number), it returns at most once; *)
Theorem C13_once : forall evs s, length (rrun s evs) <= 1.
Proof. exact run_returns_at_most_once. Qed.
Print Assumptions C13_once.

(* with the status that was requested FIRST among everything requested before the returning poll (the timeout
   task's TimedOut is one of the requests), however many requests are queued (since commit 0cf74903 the first
   one is remembered in Shutdown.first and returned when the receiver lags); Exited when all senders are gone;
   TimedOut without a request only from the outer deadline *)
Theorem C13_status : forall evs t st,
  rrun rinit evs = [(t, st)] ->
  exists pre e post, evs = pre ++ (t, e) :: post /\ (e = RPoll \/ e = RDeadline) /\
    (forall first more, reqs_of pre = first :: more -> st = first) /\
    (reqs_of pre = [] -> (closed_in pre = true /\ st = Exited) \/ (e = RDeadline /\ st = TimedOut)).
Proof. exact run_status. Qed.
Print Assumptions C13_status.

(* the code BEFORE that commit (rrun_orig: on Lagged continue with the oldest retained message) lost the first
   status when 17 requests were queued before the run task was polled; the repaired code returns it *)
Theorem C13_status_lag_orig_refuted :
  exists evs first, reqs_of evs = first :: tl (reqs_of evs) /\ first = Status 1 /\
    rrun_orig rinit evs = [(0%N, Status 2)] /\ rrun rinit evs = [(0%N, Status 1)].
Proof.
  exists seventeen, (Status 1). split; [reflexivity|]. split; [reflexivity|].
  split; [exact lagged_first_status_lost_orig | exact lagged_first_status_kept].
Qed.
Print Assumptions C13_status_lag_orig_refuted.

(* the plain shut_down() (Exited in the queue) and shut_down_with_status(k) are the same kind of request: with 18
   of them queued before the poll, the first one wins whichever kind it is *)
Theorem C13_status_lag_plain_and_explicit :
  rrun rinit plain_then_explicit = [(0%N, Exited)] /\ rrun rinit explicit_then_plain = [(0%N, Status 5)].
Proof. exact lagged_plain_first. Qed.
Print Assumptions C13_status_lag_plain_and_explicit.

(* with a timeout d and prompt polling: the first application request if made strictly before d, else TimedOut
   at d -- exactly once *)
Theorem C13_status_timeout : forall d reqs,
  run_with_timeout d reqs =
  [match reqs with
   | (t, s) :: _ => if N.ltb t d then (t, s) else (d, TimedOut)
   | [] => (d, TimedOut)
   end].
Proof. exact run_with_timeout_closed_form. Qed.
Print Assumptions C13_status_timeout.

(* the deadline: whatever the machines do (they may never finish, nobody may ever be polled in time), the run
   returns exactly once and no later than d + 1 s *)
Theorem C13_deadline : forall d evs,
  Forall (fun x => (fst x <= d + second_ns)%N) evs ->
  exists t st, rrun rinit (evs ++ [((d + second_ns)%N, RDeadline)]) = [(t, st)] /\ (t <= d + second_ns)%N.
Proof. exact run_deadline. Qed.
Print Assumptions C13_deadline.

(* remark (finding): these starts wait in `.await.unwrap()` after the barrier; a shutdown request that
   arrives then makes them panic, and run_internet's panic hook exits the process instead of returning *)
Theorem C13_remark_starts_that_panic_on_shutdown :
  shutdown_panickers = [PDnsServer; PDnsTestClient; PDnsTestServer; PSocketServer; PTcpListenerServer; PTcpStreamClient].
Proof. exact shutdown_panickers_eq. Qed.
Print Assumptions C13_remark_starts_that_panic_on_shutdown.

(* ---- the validator run on recorded traces of the implementation *)
Theorem C13_validate_sound : forall c tr st t,
  validate c tr st t = Accept ->
  (all_disciplined (v_machines c) = true ->
   forall pre o post, tr = pre ++ o :: post -> obs_net o = true ->
   forall i, i < v_napps c -> In (OArrive i) pre) /\
  (forall d, v_timeout c = Some d ->
     (t <= d + second_ns + v_slack c)%N) /\
  (v_paused c = true -> (v_napps c <> 0 \/ existsb (status_eqb st) (v_builtin_sts c) = false) ->
     check_paused (v_timeout c) tr st t = true).
Proof. exact validate_sound. Qed.
Print Assumptions C13_validate_sound.

Theorem C13_validate_predict : forall d tr st t,
  check_paused (Some d) tr st t = true ->
  (forall s, first_req tr <> Some (s, d)) ->
  (st, t) = predict (Some d) (first_req tr).
Proof. exact check_paused_predict. Qed.
Print Assumptions C13_validate_predict.

Theorem C13_predict_is_run_model : forall d reqs,
  run_with_timeout d reqs =
  [let '(s, t) := predict (Some d) (match reqs with (t, s) :: _ => Some (s, t) | [] => None end) in (t, s)].
Proof. exact predict_is_closed_form. Qed.
Print Assumptions C13_predict_is_run_model.
